/-
  AITB.Props.C13LS — LocalSearch (the search loop itself): for EVERY sequence of visiting orders the shuffles may
  produce and every in-range start, the returned action is in range, the reported value is its true payoff (never above
  the optimum), and a sweep without update certifies a 1-opt local optimum.
-/
import AITB.Props.C13Table
import AITB.Model.MaxPlus

namespace AITB.VE
open AITB.Factored

theorem lsAgent_valid (A : List Nat) (g : List Node) (a : List Nat) (v : Nat) (ha : Valid A a)
    (hv : v < A.length) (hpos : 0 < A.getD v 0) : Valid A (lsAgent A g a v).1 := by
  simp only [lsAgent]
  split
  · apply valid_setAt A a v _ ha _ hv
    have := argmaxTo_le (A.getD v 1 - 1) (evalAdj A g a v)
    have e : A.getD v 1 = A.getD v 0 := by
      simp [List.getD_eq_getElem?_getD, List.getElem?_eq_getElem hv]
    omega
  · exact ha

theorem lsSweep_valid (A : List Nat) (g : List Node) (hA : ∀ d ∈ A, 0 < d) : ∀ (order : List Nat) (st : List Nat × Bool),
    (∀ v ∈ order, v < A.length) → Valid A st.1 → Valid A (lsSweep A g order st).1
  | [], _, _, h => h
  | v :: vs, st, ho, h => by
    simp only [lsSweep]
    apply lsSweep_valid A g hA vs _ (fun u hu => ho u (List.mem_cons_of_mem _ hu))
    have hv := ho v (List.mem_cons_self ..)
    have hpos : 0 < A.getD v 0 := by
      have : A.getD v 0 = A[v] := by simp [List.getD_eq_getElem?_getD, List.getElem?_eq_getElem hv]
      rw [this]; exact hA _ (List.getElem_mem hv)
    exact lsAgent_valid A g st.1 v h hv hpos

theorem lsRun_valid (A : List Nat) (g : List Node) (hA : ∀ d ∈ A, 0 < d) : ∀ (orders : List (List Nat)) (a : List Nat),
    (∀ o ∈ orders, ∀ v ∈ o, v < A.length) → Valid A a → Valid A (lsRun A g orders a)
  | [], _, _, h => h
  | o :: os, a, ho, h => by
    simp only [lsRun]
    have hs := lsSweep_valid A g hA o (a, false) (ho o (List.mem_cons_self ..)) h
    split
    · exact lsRun_valid A g hA os _ (fun o' ho' => ho o' (List.mem_cons_of_mem _ ho')) hs
    · exact hs

/-- **LocalSearch returns what it claims**, whatever the shuffles: in-range action, reported value = its true total
    payoff, which is at most the optimum.  (Same for the graph reused with later rule sets: `evalGraph_reuse`.) -/
theorem ls_claims (A : List Nat) (rules : List Rule) (orders : List (List Nat)) (start : List Nat)
    (hA : ∀ d ∈ A, 0 < d) (hwf : ∀ r ∈ rules, r.WF A) (ho : ∀ o ∈ orders, ∀ v ∈ o, v < A.length) (hs : Valid A start) :
    Valid A (lsResult A (lsGraph A rules) orders start).1 ∧
    (lsResult A (lsGraph A rules) orders start).2 = payoffL rules (lsResult A (lsGraph A rules) orders start).1 ∧
    (lsResult A (lsGraph A rules) orders start).2 ≤ bruteMax A rules := by
  have hv := lsRun_valid A (lsGraph A rules) hA orders start ho hs
  have he := evalGraph_eq_payoff A rules _ hwf hv
  simp only [lsResult]
  exact ⟨hv, he, by rw [he]; exact bruteMax_ge A rules _ hv⟩

/-! ### a sweep without update certifies a 1-opt local optimum -/

theorem evalGraph_filter_split (A a : List Nat) (p : Node → Bool) : ∀ (g : List Node),
    evalGraph A a g = evalGraph A a (g.filter p) + evalGraph A a (g.filter (fun nd => !p nd))
  | [] => by simp [evalGraph]
  | nd :: g => by
    by_cases h : p nd = true
    · simp only [List.filter, h, Bool.not_true, evalGraph, evalGraph_filter_split A a p g]; ring
    · have h' : p nd = false := by simpa using h
      simp only [List.filter, h', Bool.not_false, evalGraph, evalGraph_filter_split A a p g]; ring

theorem evalGraph_congr (A l1 l2 : List Nat) : ∀ (g : List Node),
    (∀ nd ∈ g, ∀ u ∈ nd.keys, l1.getD u 0 = l2.getD u 0) → evalGraph A l1 g = evalGraph A l2 g
  | [], _ => rfl
  | nd :: g, h => by
    simp only [evalGraph, evalNode, toIndexPartial]
    rw [sel_congr nd.keys l1 l2 (h nd (List.mem_cons_self ..))]
    rw [evalGraph_congr A l1 l2 g (fun nd' hnd' => h nd' (List.mem_cons_of_mem _ hnd'))]

theorem lsSweep_flag_mono (A : List Nat) (g : List Node) : ∀ (order : List Nat) (st : List Nat × Bool),
    st.2 = true → (lsSweep A g order st).2 = true
  | [], _, h => h
  | v :: vs, st, h => by
    simp only [lsSweep]
    exact lsSweep_flag_mono A g vs _ (by simp [h])

/-- if a sweep reports `updated = false`, the action is unchanged and no agent of the order can improve the TOTAL
    graph value by changing its own action alone -/
theorem lsSweep_fixpoint (A : List Nat) (g : List Node) (hA : ∀ d ∈ A, 0 < d) : ∀ (order : List Nat) (a : List Nat),
    Valid A a → (∀ v ∈ order, v < A.length) → (lsSweep A g order (a, false)).2 = false →
      (lsSweep A g order (a, false)).1 = a ∧
      ∀ v ∈ order, ∀ k, k < A.getD v 0 → evalGraph A (setAt a v k) g ≤ evalGraph A a g
  | [], a, _, _, _ => ⟨rfl, by simp⟩
  | v :: vs, a, ha, ho, hflag => by
    simp only [lsSweep, Bool.false_or] at hflag ⊢
    have hv := ho v (List.mem_cons_self ..)
    have hal : v < a.length := by rw [valid_len A a ha]; exact hv
    by_cases hupd : (lsAgent A g a v).2 = true
    · have := lsSweep_flag_mono A g vs ((lsAgent A g a v).1, (lsAgent A g a v).2) hupd
      rw [this] at hflag; exact absurd hflag (by simp)
    · have hupd' : (lsAgent A g a v).2 = false := by simpa using hupd
      have hnolt : ¬ evalAdj A g a v (a.getD v 0) < evalAdj A g a v (argmaxTo (A.getD v 1 - 1) (evalAdj A g a v)) := by
        intro hlt
        simp only [lsAgent, hlt, if_true] at hupd'
        exact absurd hupd' (by simp)
      have hsame : (lsAgent A g a v).1 = a := by simp only [lsAgent, hnolt, if_false]
      rw [hsame, hupd'] at hflag ⊢
      obtain ⟨h1, h2⟩ := lsSweep_fixpoint A g hA vs a ha (fun u hu => ho u (List.mem_cons_of_mem _ hu)) hflag
      refine ⟨h1, ?_⟩
      intro u hu k hk
      rcases List.mem_cons.mp hu with rfl | hu
      · -- the agent just visited: every action is at most the first maximum, which is not better than the current one
        have e : A.getD u 1 = A.getD u 0 := by
          simp [List.getD_eq_getElem?_getD, List.getElem?_eq_getElem hv]
        have hle := maxTo_ge (A.getD u 1 - 1) (evalAdj A g a u) k (by omega)
        have hcur : evalAdj A g a u k ≤ evalAdj A g a u (a.getD u 0) := le_trans hle (not_lt.mp hnolt)
        have s1 := evalGraph_filter_split A (setAt a u k) (fun nd => nd.keys.contains u) g
        have s2 := evalGraph_filter_split A a (fun nd => nd.keys.contains u) g
        have hrest : evalGraph A (setAt a u k) (g.filter (fun nd => !nd.keys.contains u))
            = evalGraph A a (g.filter (fun nd => !nd.keys.contains u)) := by
          apply evalGraph_congr
          intro nd hnd w hw
          have hnv := (List.mem_filter.mp hnd).2
          have : w ≠ u := by
            intro e; subst e
            simp at hnv
            exact hnv hw
          rw [getD_setAt a u k w hal]; simp [this]
        have hself : evalGraph A (setAt a u (a.getD u 0)) (adjNodes u g) = evalGraph A a (adjNodes u g) := by
          apply evalGraph_congr
          intro nd _ w _
          rw [getD_setAt a u _ w hal]
          by_cases e : w = u <;> simp [e]
        simp only [evalAdj, adjNodes] at hcur hself
        rw [hself] at hcur
        linarith
      · exact h2 u hu k hk

/-! ### RILS and MaxPlus: the pair they return is always (in-range action, its evaluateGraph) -/

/-- the invariant both maintain -/
def Truthful (A : List Nat) (g : List Node) (st : List Nat × Rat) : Prop := Valid A st.1 ∧ st.2 = evalGraph A st.1 g

theorem lsResult_truthful (A : List Nat) (g : List Node) (hA : ∀ d ∈ A, 0 < d) (orders : List (List Nat)) (s : List Nat)
    (ho : ∀ o ∈ orders, ∀ v ∈ o, v < A.length) (hs : Valid A s) : Truthful A g (lsResult A g orders s) :=
  ⟨lsRun_valid A g hA orders s ho hs, rfl⟩

theorem rilsTrials_truthful (A : List Nat) (g : List Node) (hA : ∀ d ∈ A, 0 < d) :
    ∀ (trials : List (List Nat × List (List Nat))) (st : List Nat × Rat),
      (∀ t ∈ trials, Valid A t.1 ∧ ∀ o ∈ t.2, ∀ v ∈ o, v < A.length) → Truthful A g st →
        Truthful A g (rilsTrials A g trials st)
  | [], _, _, h => h
  | (s, orders) :: ts, st, ht, h => by
    have hts : ∀ t ∈ ts, Valid A t.1 ∧ ∀ o ∈ t.2, ∀ v ∈ o, v < A.length := fun t h' => ht t (List.mem_cons_of_mem _ h')
    simp only [rilsTrials]
    split
    · exact rilsTrials_truthful A g hA ts st hts h
    · apply rilsTrials_truthful A g hA ts _ hts
      have hr := lsResult_truthful A g hA orders s (ht (s, orders) (List.mem_cons_self ..)).2 (ht (s, orders) (List.mem_cons_self ..)).1
      split
      · exact hr
      · exact h

/-- **ReusingIterativeLocalSearch returns what it claims** — first call or a call reusing the stored action on a graph
    updated with a new rule set (same key sets), every outcome of the random engine -/
theorem rils_claims (A : List Nat) (struct rules : List Rule) (reuse : Option (List Nat))
    (first : List Nat × List (List Nat)) (trials : List (List Nat × List (List Nat)))
    (hA : ∀ d ∈ A, 0 < d) (hwf : ∀ r ∈ rules, r.WF A) (hsub : ∀ r ∈ rules, ∃ s ∈ struct, s.keys = r.keys)
    (hreuse : ∀ a, reuse = some a → Valid A a)
    (hfirst : Valid A first.1 ∧ ∀ o ∈ first.2, ∀ v ∈ o, v < A.length)
    (htrials : ∀ t ∈ trials, Valid A t.1 ∧ ∀ o ∈ t.2, ∀ v ∈ o, v < A.length) :
    let g := lsUpdate A rules (lsMake A struct [])
    let r := rilsRun A g reuse first trials
    Valid A r.1 ∧ r.2 = payoffL rules r.1 ∧ r.2 ≤ bruteMax A rules := by
  intro g r
  have ht : Truthful A g r := by
    show Truthful A g (rilsRun A g reuse first trials)
    unfold rilsRun
    cases reuse with
    | some a => exact rilsTrials_truthful A g hA trials _ htrials ⟨hreuse a rfl, rfl⟩
    | none => exact rilsTrials_truthful A g hA trials _ htrials (lsResult_truthful A g hA first.2 first.1 hfirst.2 hfirst.1)
  have he := evalGraph_reuse A struct rules r.1 hwf ht.1 hsub
  exact ⟨ht.1, by rw [ht.2]; exact he, by rw [ht.2, he]; exact bruteMax_ge A rules _ ht.1⟩

theorem mpTrack_inv (A : List Nat) (g : List Node) : ∀ (cands : List (List Nat)) (st : List Nat × Option Rat),
    (∀ c ∈ cands, Valid A c) → Valid A st.1 → (∀ v, st.2 = some v → v = evalGraph A st.1 g) →
      Valid A (mpTrack A g cands st).1 ∧ ∀ v, (mpTrack A g cands st).2 = some v → v = evalGraph A (mpTrack A g cands st).1 g
  | [], _, _, h1, h2 => ⟨h1, h2⟩
  | c :: cs, st, hc, h1, h2 => by
    have hcs : ∀ c' ∈ cs, Valid A c' := fun c' h => hc c' (List.mem_cons_of_mem _ h)
    have hcv := hc c (List.mem_cons_self ..)
    simp only [mpTrack]
    split
    · exact mpTrack_inv A g cs st hcs h1 h2
    · cases hst : st.2 with
      | none => exact mpTrack_inv A g cs _ hcs hcv (fun v hv => by simp at hv; exact hv.symm)
      | some rv =>
        simp only
        split
        · exact mpTrack_inv A g cs _ hcs hcv (fun v hv => by simp at hv; exact hv.symm)
        · exact mpTrack_inv A g cs st hcs h1 h2

/-- **MaxPlus returns what it claims** — whatever joint actions the message passing proposes (each component is the
    arg-max of a row with `A[a]` columns, hence in range): in-range action, reported value = its true payoff ≤ optimum;
    with no iteration at all it is the all-zero action with its true payoff -/
theorem mp_claims (A : List Nat) (struct rules : List Rule) (cands : List (List Nat))
    (hA : ∀ d ∈ A, 0 < d) (hwf : ∀ r ∈ rules, r.WF A) (hsub : ∀ r ∈ rules, ∃ s ∈ struct, s.keys = r.keys)
    (hc : ∀ c ∈ cands, Valid A c) :
    let g := lsUpdate A rules (lsMake A struct [])
    let r := mpRun A g cands
    Valid A r.1 ∧ r.2 = payoffL rules r.1 ∧ r.2 ≤ bruteMax A rules := by
  intro g r
  have hz : Valid A (List.replicate A.length 0) := by
    have := valid_zeros A hA
    have e : A.map (fun _ => 0) = List.replicate A.length 0 := by
      clear this hc hsub hwf hA
      induction A with
      | nil => rfl
      | cons d ds ih => simp [List.replicate_succ, ih]
    rw [← e]; exact this
  obtain ⟨h1, h2⟩ := mpTrack_inv A g cands (List.replicate A.length 0, none) hc hz (fun v hv => by simp at hv)
  have hr : Valid A r.1 ∧ r.2 = evalGraph A r.1 g := by
    simp only [r, mpRun]
    cases hm : (mpTrack A g cands (List.replicate A.length 0, none)).2 with
    | none => exact ⟨h1, rfl⟩
    | some v => exact ⟨h1, h2 v hm⟩
  have he := evalGraph_reuse A struct rules r.1 hwf hr.1 hsub
  exact ⟨hr.1, by rw [hr.2]; exact he, by rw [hr.2, he]; exact bruteMax_ge A rules _ hr.1⟩

/-- `ls_claims` on a concrete instance: LocalSearch from (0,0,0,0) with two sweeps in the orders 3,1,0,2 and 0,1,2,3
    climbs to the optimum (0,2,0,1) with value 2 (a test, by evaluation) -/
example :
    lsResult [2,3,2,2] (lsGraph [2,3,2,2] [⟨[0,1],[1,2],-3/2⟩, ⟨[1],[2],2⟩, ⟨[0,1],[1,2],1/4⟩, ⟨[3],[0],-1/2⟩, ⟨[0,1,3],[0,0,1],5/4⟩])
      [[3,1,0,2],[0,1,2,3]] [0,0,0,0] = ([0,2,0,1], 2) := by decide +kernel

/-! ### MaxPlus message passing and the RILS trial loop as such (no oracle left) -/

theorem getD_pos_of_mem (A : List Nat) (hA : ∀ d ∈ A, 0 < d) (u : Nat) (hu : u < A.length) :
    0 < A.getD u 0 ∧ A.getD u 1 = A.getD u 0 := by
  have : A.getD u 0 = A[u] := by simp [List.getD_eq_getElem?_getD, List.getElem?_eq_getElem hu]
  have h1 : A.getD u 1 = A[u] := by simp [List.getD_eq_getElem?_getD, List.getElem?_eq_getElem hu]
  rw [this, h1]; exact ⟨hA _ (List.getElem_mem hu), rfl⟩

/-- every joint action proposed by the message passing is in range (arg-max over the `A[a]` columns of the bottom row) -/
theorem mpAction_valid (A : List Nat) (hA : ∀ d ∈ A, 0 < d) (ms : List AMsg) : Valid A (mpAction A ms) := by
  apply valid_listOf A (fun a => argmaxTo (A.getD a 1 - 1) (fun j => (getMsg ms a).bottom.getD j 0))
  intro u hu
  obtain ⟨hp, he⟩ := getD_pos_of_mem A hA u hu
  have := argmaxTo_le (A.getD u 1 - 1) (fun j => (getMsg ms u).bottom.getD j 0)
  show argmaxTo (A.getD u 1 - 1) (fun j => (getMsg ms u).bottom.getD j 0) < A.getD u 0
  omega

theorem mpCandsFrom_valid (A : List Nat) (g : List Node) (hA : ∀ d ∈ A, 0 < d) : ∀ (it : Nat) (ms : List AMsg),
    ∀ c ∈ mpCandsFrom A g it ms, Valid A c
  | 0, _, c, h => by simp [mpCandsFrom] at h
  | it+1, ms, c, h => by
    simp only [mpCandsFrom, List.mem_cons] at h
    rcases h with rfl | h
    · exact mpAction_valid A hA _
    · exact mpCandsFrom_valid A g hA it _ c h

/-- **MaxPlus (the message passing itself, any number of iterations) returns what it claims**: in-range action, reported
    value = its true total payoff, never above the optimum — also on a graph reused with a later rule set -/
theorem maxplus_claims (A : List Nat) (struct rules : List Rule) (iters : Nat)
    (hA : ∀ d ∈ A, 0 < d) (hwf : ∀ r ∈ rules, r.WF A) (hsub : ∀ r ∈ rules, ∃ s ∈ struct, s.keys = r.keys) :
    let g := lsUpdate A rules (lsMake A struct [])
    let r := mpFull A g iters
    Valid A r.1 ∧ r.2 = payoffL rules r.1 ∧ r.2 ≤ bruteMax A rules :=
  mp_claims A struct rules _ hA hwf hsub (mpCandsFrom_valid A _ hA iters _)

theorem setAt_ge : ∀ (a : List Nat) (v k : Nat), a.length ≤ v → setAt a v k = a
  | [], _, _, _ => rfl
  | x :: xs, 0, k, h => by simp at h
  | x :: xs, v+1, k, h => by simp [setAt, setAt_ge xs v k (by simpa using h)]

theorem randomAct_valid (A : List Nat) (hA : ∀ d ∈ A, 0 < d) (raw : List Nat) : Valid A (randomAct A raw) := by
  apply valid_listOf A (fun a => raw.getD a 0 % A.getD a 1)
  intro u hu
  obtain ⟨hp, he⟩ := getD_pos_of_mem A hA u hu
  show raw.getD u 0 % A.getD u 1 < A.getD u 0
  rw [he]; exact Nat.mod_lt _ hp

theorem perturbKeys_valid (A : List Nat) (hA : ∀ d ∈ A, 0 < d) : ∀ (ks ds a : List Nat), Valid A a → Valid A (perturbKeys A ks ds a)
  | [], _, _, h => h
  | k :: ks, ds, a, h => by
    simp only [perturbKeys]
    apply perturbKeys_valid A hA ks _ _
    by_cases hk : k < A.length
    · obtain ⟨hp, he⟩ := getD_pos_of_mem A hA k hk
      exact valid_setAt A a k _ h (by rw [he]; exact Nat.mod_lt _ hp) hk
    · rw [setAt_ge a k _ (by rw [valid_len A a h]; omega)]; exact h

theorem perturb_valid (A : List Nat) (hA : ∀ d ∈ A, 0 < d) : ∀ (g : List Node) (ps : List Bool) (ds : List (List Nat)) (a : List Nat),
    Valid A a → Valid A (perturb A g ps ds a)
  | [], _, _, _, h => h
  | nd :: g, ps, ds, a, h => by
    simp only [perturb]
    apply perturb_valid A hA g _ _ _
    split
    · exact perturbKeys_valid A hA _ _ _ h
    · exact h

theorem rilsLoop_truthful (A : List Nat) (g : List Node) (hA : ∀ d ∈ A, 0 < d) : ∀ (trials : List RTrial) (st : List Nat × Rat),
    (∀ t ∈ trials, ∀ o ∈ t.orders, ∀ v ∈ o, v < A.length) → Truthful A g st → Truthful A g (rilsLoop A g trials st)
  | [], _, _, h => h
  | t :: ts, st, ho, h => by
    have hts : ∀ t' ∈ ts, ∀ o ∈ t'.orders, ∀ v ∈ o, v < A.length := fun t' h' => ho t' (List.mem_cons_of_mem _ h')
    have hs : Valid A (if t.reset then randomAct A t.restart else perturb A g t.pick t.draws st.1) := by
      split
      · exact randomAct_valid A hA _
      · exact perturb_valid A hA g _ _ _ h.1
    have key : ∀ s, Valid A s → Truthful A g (if s == st.1 then rilsLoop A g ts st else
        rilsLoop A g ts (if st.2 < (lsResult A g t.orders s).2 then lsResult A g t.orders s else st)) := by
      intro s hsv
      split
      · exact rilsLoop_truthful A g hA ts st hts h
      · apply rilsLoop_truthful A g hA ts _ hts
        have hr := lsResult_truthful A g hA t.orders s (ho t (List.mem_cons_self ..)) hsv
        split
        · exact hr
        · exact h
    exact key _ hs

/-- **ReusingIterativeLocalSearch (restarts, factor perturbations and the nested LocalSearch all modelled; every random
    draw an arbitrary input) returns what it claims** — first call or reuse of the stored action on an updated graph -/
theorem rils_full_claims (A : List Nat) (struct rules : List Rule) (reuse : Option (List Nat))
    (firstRaw : List Nat) (firstOrders : List (List Nat)) (trials : List RTrial)
    (hA : ∀ d ∈ A, 0 < d) (hwf : ∀ r ∈ rules, r.WF A) (hsub : ∀ r ∈ rules, ∃ s ∈ struct, s.keys = r.keys)
    (hreuse : ∀ a, reuse = some a → Valid A a)
    (hfo : ∀ o ∈ firstOrders, ∀ v ∈ o, v < A.length)
    (hto : ∀ t ∈ trials, ∀ o ∈ t.orders, ∀ v ∈ o, v < A.length) :
    let g := lsUpdate A rules (lsMake A struct [])
    let r := rilsFull A g reuse firstRaw firstOrders trials
    Valid A r.1 ∧ r.2 = payoffL rules r.1 ∧ r.2 ≤ bruteMax A rules := by
  intro g r
  have ht : Truthful A g r := by
    show Truthful A g (rilsFull A g reuse firstRaw firstOrders trials)
    unfold rilsFull
    cases reuse with
    | some a =>
      show Truthful A g (rilsLoop A g trials (a, evalGraph A a g))
      exact rilsLoop_truthful A g hA trials _ hto ⟨hreuse a rfl, rfl⟩
    | none =>
      show Truthful A g (rilsLoop A g trials (lsResult A g firstOrders (randomAct A firstRaw)))
      have h0 := lsResult_truthful A g hA firstOrders _ hfo (randomAct_valid A hA firstRaw)
      exact rilsLoop_truthful A g hA trials _ hto h0
  have he := evalGraph_reuse A struct rules r.1 hwf ht.1 hsub
  exact ⟨ht.1, by rw [ht.2]; exact he, by rw [ht.2, he]; exact bruteMax_ge A rules _ ht.1⟩

end AITB.VE
