/-
  AITB.Props.C13QF — the `QFunction` overloads of GraphUtils.hpp (dense bases instead of rules):
  `UpdateGraphImpl<VariableElimination, QFunction>` builds literally the same graph as the rule overload on the
  cell-by-cell expansion of the bases, and that expansion has the payoff `FactoredVector::getValue` defines.
  Hence VariableElimination on a QFunction returns what it claims (`tveQF_correct`).
-/
import AITB.Props.C13GVE

namespace AITB.VE
open AITB.Factored

/-! ### `getFactor(keys)` + modify, as one combinator -/

/-- apply `f` to the rules of the first node with key set `keys` (appending a new node when there is none) -/
def modNode (keys : List Nat) (f : List TRule → List TRule) : List TNode → List TNode
  | [] => [⟨keys, f []⟩]
  | nd :: g => if nd.keys == keys then ⟨nd.keys, f nd.rules⟩ :: g else nd :: modNode keys f g

theorem addToNode_eq_modNode (keys : List Nat) (nr : TRule) : ∀ (g : List TNode),
    addToNode keys nr g = modNode keys (mergeRule nr) g
  | [] => by simp [addToNode, modNode, mergeRule]
  | nd :: g => by simp only [addToNode, modNode]; split <;> simp [addToNode_eq_modNode keys nr g]

theorem modNode_modNode (keys : List Nat) (f f' : List TRule → List TRule) : ∀ (g : List TNode),
    modNode keys f (modNode keys f' g) = modNode keys (fun rs => f (f' rs)) g
  | [] => by simp [modNode]
  | nd :: g => by
    by_cases h : (nd.keys == keys) = true
    · simp [modNode, h]
    · have h' : (nd.keys == keys) = false := by simpa using h
      simp [modNode, h', modNode_modNode keys f f' g]

theorem modNode_congr (keys : List Nat) (f f' : List TRule → List TRule) : ∀ (g : List TNode),
    f (rulesOf keys g) = f' (rulesOf keys g) → modNode keys f g = modNode keys f' g
  | [], h => by simpa [modNode, rulesOf] using h
  | nd :: g, h => by
    by_cases hk : (nd.keys == keys) = true
    · simp only [rulesOf, hk, if_true] at h; simp [modNode, hk, h]
    · have h' : (nd.keys == keys) = false := by simpa using hk
      simp only [rulesOf, h', Bool.false_eq_true, if_false] at h
      simp [modNode, h', modNode_congr keys f f' g h]

theorem qfAddBasis_eq_modNode (b : Basis) : ∀ (g : List TNode),
    qfAddBasis b g = modNode b.keys (fun rs => qfAccum (if rs.isEmpty then qfFill 0 b.vals.length else rs) b.vals) g
  | [] => by simp [qfAddBasis, modNode]
  | nd :: g => by simp only [qfAddBasis, modNode]; split <;> simp [qfAddBasis_eq_modNode b g]

/-! ### the rule overload on the expansion of one basis -/

/-- what `UpdateGraphImpl<VE, rules>` does to one node when fed cells `i, i+1, …` of a basis -/
def mergeFrom (A keys dims : List Nat) : Nat → List Rat → List TRule → List TRule
  | _, [], rs => rs
  | i, q :: qs, rs => mergeFrom A keys dims (i+1) qs (mergeRule ⟨toIndexPartialPF A keys (toFactors dims i), q, []⟩ rs)

theorem tInit_basis (A keys dims : List Nat) (rest : List Rule) : ∀ (qs : List Rat) (i : Nat) (g : List TNode), qs ≠ [] →
    tInit A (basisRulesFrom keys dims i qs ++ rest) g = tInit A rest (modNode keys (mergeFrom A keys dims i qs) g)
  | [], _, _, h => absurd rfl h
  | [q], i, g, _ => by
    have : mergeFrom A keys dims i [q] = mergeRule ⟨toIndexPartialPF A keys (toFactors dims i), q, []⟩ := by
      funext rs; simp [mergeFrom]
    simp only [basisRulesFrom, List.cons_append, List.nil_append, tInit]
    rw [this, addToNode_eq_modNode]
  | q :: q' :: qs, i, g, _ => by
    have : mergeFrom A keys dims i (q :: q' :: qs) = fun rs => mergeFrom A keys dims (i+1) (q' :: qs)
        (mergeRule ⟨toIndexPartialPF A keys (toFactors dims i), q, []⟩ rs) := by
      funext rs; simp [mergeFrom]
    rw [this, show basisRulesFrom keys dims i (q :: q' :: qs)
      = ⟨keys, toFactors dims i, q⟩ :: basisRulesFrom keys dims (i+1) (q' :: qs) from rfl]
    simp only [List.cons_append, tInit]
    rw [tInit_basis A keys dims rest (q' :: qs) (i+1) _ (by simp), addToNode_eq_modNode, modNode_modNode]

theorem mergeRule_hit (nr : TRule) (r : TRule) (suf : List TRule) (hr : r.idx = nr.idx) : ∀ (pre : List TRule),
    (∀ x ∈ pre, x.idx < nr.idx) →
    mergeRule nr (pre ++ r :: suf) = pre ++ ⟨r.idx, r.value + nr.value, r.tags ++ nr.tags⟩ :: suf
  | [], _ => by simp [mergeRule, hr]
  | x :: pre, h => by
    have hx := h x (List.mem_cons_self ..)
    simp only [List.cons_append, mergeRule, hx, if_true]
    rw [mergeRule_hit nr r suf hr pre (fun y hy => h y (List.mem_cons_of_mem _ hy))]

theorem mergeRule_end (nr : TRule) : ∀ (pre : List TRule), (∀ x ∈ pre, x.idx < nr.idx) → mergeRule nr pre = pre ++ [nr]
  | [], _ => by simp [mergeRule]
  | x :: pre, h => by
    have hx := h x (List.mem_cons_self ..)
    simp only [List.cons_append, mergeRule, hx, if_true]
    rw [mergeRule_end nr pre (fun y hy => h y (List.mem_cons_of_mem _ hy))]

/-- node already dense: feeding the cells one by one through `lower_bound` = the positional `+=` loop -/
theorem mergeFrom_dense (A keys : List Nat) : ∀ (qs : List Rat) (i : Nat) (pre suf : List TRule),
    i + qs.length ≤ spacePartial keys A → (∀ x ∈ pre, x.idx < i) → suf.map (·.idx) = List.range' i suf.length →
    qs.length ≤ suf.length → mergeFrom A keys (sel keys A) i qs (pre ++ suf) = pre ++ qfAccum suf qs
  | [], i, pre, suf, _, _, _, _ => by cases suf <;> simp [mergeFrom, qfAccum]
  | q :: qs, i, pre, [], _, _, _, hl => by simp at hl
  | q :: qs, i, pre, r :: suf, hsp, hpre, hsuf, hl => by
    have hidx : toIndexPartialPF A keys (toFactors (sel keys A) i) = i :=
      toIndexPartial_toFactorsPartial keys A i (by simp at hsp; omega)
    have hr : r.idx = i := by simp [List.range'] at hsuf; exact hsuf.1
    have hsuf' : suf.map (·.idx) = List.range' (i+1) suf.length := by simp [List.range'] at hsuf; exact hsuf.2
    simp only [mergeFrom, hidx]
    rw [mergeRule_hit ⟨i, q, []⟩ r suf hr pre hpre]
    have := mergeFrom_dense A keys qs (i+1) (pre ++ [⟨r.idx, r.value + q, r.tags ++ []⟩]) suf
      (by simp at hsp ⊢; omega)
      (by intro x hx; simp at hx; rcases hx with hx | hx
          · have := hpre x hx; omega
          · rw [hx]; simp [hr])
      hsuf' (by simp at hl; omega)
    simp only [List.append_assoc, List.singleton_append] at this
    rw [this]
    simp [qfAccum]

/-- fresh node: the cells are appended in order = fill with zeros and add -/
theorem mergeFrom_fresh (A keys : List Nat) : ∀ (qs : List Rat) (i : Nat) (pre : List TRule),
    i + qs.length ≤ spacePartial keys A → (∀ x ∈ pre, x.idx < i) →
    mergeFrom A keys (sel keys A) i qs pre = pre ++ qfAccum (qfFill i qs.length) qs
  | [], i, pre, _, _ => by simp [mergeFrom, qfFill, qfAccum]
  | q :: qs, i, pre, hsp, hpre => by
    have hidx : toIndexPartialPF A keys (toFactors (sel keys A) i) = i :=
      toIndexPartial_toFactorsPartial keys A i (by simp at hsp; omega)
    simp only [mergeFrom, hidx]
    rw [mergeRule_end ⟨i, q, []⟩ pre hpre]
    have := mergeFrom_fresh A keys qs (i+1) (pre ++ [⟨i, q, []⟩]) (by simp at hsp ⊢; omega)
      (by intro x hx; simp at hx; rcases hx with hx | hx
          · have := hpre x hx; omega
          · rw [hx]; simp)
    rw [this]
    simp [qfFill, qfAccum, Rat.zero_add]

/-! ### density invariant of the QFunction builder -/

/-- every node holds one rule per cell, in index order (what the fill loop establishes) -/
def DenseG (A : List Nat) (g : List TNode) : Prop :=
  ∀ nd ∈ g, nd.rules.map (·.idx) = List.range' 0 (spacePartial nd.keys A)

theorem qfAccum_idx : ∀ (rs : List TRule) (qs : List Rat), (qfAccum rs qs).map (·.idx) = rs.map (·.idx)
  | [], _ => by simp [qfAccum]
  | r :: rs, [] => by simp [qfAccum]
  | r :: rs, q :: qs => by simp [qfAccum, qfAccum_idx rs qs]

theorem qfFill_idx : ∀ (c i : Nat), (qfFill i c).map (·.idx) = List.range' i c
  | 0, i => by simp [qfFill]
  | c+1, i => by simp [qfFill, qfFill_idx c (i+1), List.range']

theorem rulesOf_dense (A keys : List Nat) : ∀ (g : List TNode), DenseG A g →
    (rulesOf keys g).map (·.idx) = List.range' 0 (spacePartial keys A) ∨ rulesOf keys g = []
  | [], _ => Or.inr rfl
  | nd :: g, h => by
    by_cases hk : (nd.keys == keys) = true
    · have : nd.keys = keys := by simpa using hk
      simp only [rulesOf, hk, if_true]
      exact Or.inl (by rw [← this]; exact h nd (List.mem_cons_self ..))
    · have h' : (nd.keys == keys) = false := by simpa using hk
      simp only [rulesOf, h', Bool.false_eq_true, if_false]
      exact rulesOf_dense A keys g (fun x hx => h x (List.mem_cons_of_mem _ hx))

theorem modNode_dense (A keys : List Nat) (f : List TRule → List TRule) : ∀ (g : List TNode),
    (f (rulesOf keys g)).map (·.idx) = List.range' 0 (spacePartial keys A) → DenseG A g → DenseG A (modNode keys f g)
  | [], hf, _ => by
    intro nd hnd
    simp only [modNode, List.mem_singleton] at hnd
    rw [hnd]; simpa [rulesOf] using hf
  | x :: g, hf, hd => by
    by_cases hk : (x.keys == keys) = true
    · have hx : x.keys = keys := by simpa using hk
      simp only [rulesOf, hk, if_true] at hf
      intro nd hnd
      simp only [modNode, hk, if_true, List.mem_cons] at hnd
      rcases hnd with rfl | hnd
      · simp only; rw [hx]; exact hf
      · exact hd nd (List.mem_cons_of_mem _ hnd)
    · have h' : (x.keys == keys) = false := by simpa using hk
      simp only [rulesOf, h', Bool.false_eq_true, if_false] at hf
      intro nd hnd
      simp only [modNode, h', Bool.false_eq_true, if_false, List.mem_cons] at hnd
      rcases hnd with rfl | hnd
      · exact hd _ (List.mem_cons_self ..)
      · exact modNode_dense A keys f g hf (fun y hy => hd y (List.mem_cons_of_mem _ hy)) nd hnd

/-- a basis is well formed for the space: one value per cell, at least one cell -/
def Basis.WF (A : List Nat) (b : Basis) : Prop := b.vals.length = spacePartial b.keys A ∧ 0 < b.vals.length

/-- one basis: the QFunction overload and the rule overload (on the expansion) modify the graph identically -/
theorem qfAddBasis_eq (A : List Nat) (b : Basis) (hb : b.WF A) (g : List TNode) (hd : DenseG A g) :
    qfAddBasis b g = modNode b.keys (mergeFrom A b.keys (sel b.keys A) 0 b.vals) g ∧ DenseG A (qfAddBasis b g) := by
  have key : qfAccum (if (rulesOf b.keys g).isEmpty then qfFill 0 b.vals.length else rulesOf b.keys g) b.vals
      = mergeFrom A b.keys (sel b.keys A) 0 b.vals (rulesOf b.keys g) := by
    rcases rulesOf_dense A b.keys g hd with h | h
    · by_cases he : rulesOf b.keys g = []
      · rw [he]
        have := mergeFrom_fresh A b.keys b.vals 0 [] (by rw [hb.1]; omega) (by simp)
        simpa using this.symm
      · have hlen : (rulesOf b.keys g).length = spacePartial b.keys A := by
          have := congrArg List.length h; simpa using this
        have := mergeFrom_dense A b.keys b.vals 0 [] (rulesOf b.keys g) (by rw [hb.1]; omega) (by simp)
          (by rw [h, hlen]) (by rw [hlen, hb.1])
        have hne : (rulesOf b.keys g).isEmpty = false := by simpa using he
        simpa [hne] using this.symm
    · rw [h]
      have := mergeFrom_fresh A b.keys b.vals 0 [] (by rw [hb.1]; omega) (by simp)
      simpa using this.symm
  have e1 := qfAddBasis_eq_modNode b g
  refine ⟨by rw [e1]; exact modNode_congr _ _ _ g key, ?_⟩
  rw [e1]
  refine modNode_dense A b.keys _ g ?_ hd
  rw [qfAccum_idx]
  split
  · rw [qfFill_idx, hb.1]
  · rename_i hne
    rcases rulesOf_dense A b.keys g hd with h | h
    · exact h
    · simp [h] at hne

/-- **`UpdateGraphImpl<VariableElimination, QFunction>` = `UpdateGraphImpl<VariableElimination, rules>` on the
    cell-by-cell expansion**: the two overloads build literally the same graph (sorted rules, indices, values, tags),
    for every QFunction (several bases on one tag accumulate), on every dense graph — in particular the empty one. -/
theorem tInitQF_eq_tInit (A : List Nat) : ∀ (bases : List Basis) (g : List TNode), (∀ b ∈ bases, b.WF A) → DenseG A g →
    tInitQF bases g = tInit A (qfRules A bases) g
  | [], g, _, _ => by simp [tInitQF, qfRules, tInit]
  | b :: bs, g, hwf, hd => by
    obtain ⟨h1, h2⟩ := qfAddBasis_eq A b (hwf b (List.mem_cons_self ..)) g hd
    simp only [tInitQF, qfRules]
    rw [tInit_basis A b.keys _ _ b.vals 0 g (by have := (hwf b (List.mem_cons_self ..)).2; intro h; simp [h] at this), ← h1]
    exact tInitQF_eq_tInit A bs _ (fun b' hb' => hwf b' (List.mem_cons_of_mem _ hb')) h2

theorem tveRunQF_eq (A : List Nat) (bases : List Basis) (hwf : ∀ b ∈ bases, b.WF A) :
    tveRunQF A bases = tveRun A (qfRules A bases) := by
  unfold tveRunQF tveRun
  rw [tInitQF_eq_tInit A bases [] hwf (by intro nd h; simp at h)]

/-! ### the expansion has the payoff `getValue` defines -/

theorem basisRulesFrom_WF (A keys : List Nat) (hk : ∀ k ∈ keys, k < A.length) (hA : ∀ d ∈ A, 0 < d) :
    ∀ (qs : List Rat) (i : Nat), i + qs.length ≤ spacePartial keys A →
      ∀ r ∈ basisRulesFrom keys (sel keys A) i qs, r.WF A ∧ r.keys = keys
  | [], _, _, r, h => by simp [basisRulesFrom] at h
  | q :: qs, i, hsp, r, h => by
    simp only [basisRulesFrom, List.mem_cons] at h
    rcases h with rfl | h
    · refine ⟨⟨hk, ?_⟩, rfl⟩
      have hpos : ∀ d ∈ sel keys A, 0 < d := by
        intro d hd; simp only [sel, List.mem_map] at hd
        obtain ⟨u, hu, rfl⟩ := hd; exact getD_pos A hA u (hk u hu)
      exact toFactors_valid (sel keys A) i hpos
    · exact basisRulesFrom_WF A keys hk hA qs (i+1) (by simp at hsp ⊢; omega) r h

theorem payoff_append (x : Asg) : ∀ (r1 r2 : List Rule), payoff (r1 ++ r2) x = payoff r1 x + payoff r2 x
  | [], r2 => by simp [payoff]
  | r :: r1, r2 => by simp only [List.cons_append, payoff, payoff_append x r1 r2]; ring

/-- the cells `i, i+1, …` of one basis, read as rules, pay exactly the cell the action selects -/
theorem payoff_basisRulesFrom (A keys a : List Nat) (ha : Valid A a) (hk : ∀ k ∈ keys, k < A.length) (hA : ∀ d ∈ A, 0 < d) :
    ∀ (qs : List Rat) (i : Nat), i + qs.length ≤ spacePartial keys A →
      payoff (basisRulesFrom keys (sel keys A) i qs) (asgOf a)
        = if i ≤ toIndexPartial keys A a then qs.getD (toIndexPartial keys A a - i) 0 else 0
  | [], i, _ => by simp [basisRulesFrom, payoff]
  | q :: qs, i, hsp => by
    have hwf := (basisRulesFrom_WF A keys hk hA (q :: qs) i hsp ⟨keys, toFactors (sel keys A) i, q⟩
      (by simp [basisRulesFrom])).1
    have hm := index_eq_iff_match A a ⟨keys, toFactors (sel keys A) i, q⟩ ha hwf
    have hidx : toIndexPartialPF A keys (toFactors (sel keys A) i) = i :=
      toIndexPartial_toFactorsPartial keys A i (by simp at hsp; omega)
    simp only [hidx] at hm
    simp only [basisRulesFrom, payoff, Rule.eval]
    rw [payoff_basisRulesFrom A keys a ha hk hA qs (i+1) (by simp at hsp ⊢; omega)]
    by_cases he : toIndexPartial keys A a = i
    · have : matchKV keys (toFactors (sel keys A) i) (asgOf a) = true := hm.mp he
      simp [this, he]
    · have hn : ¬ matchKV keys (toFactors (sel keys A) i) (asgOf a) = true := fun h => he (hm.mpr h)
      simp only [hn, if_false, Rat.zero_add]
      by_cases hle : i ≤ toIndexPartial keys A a
      · have h1 : i + 1 ≤ toIndexPartial keys A a := by omega
        obtain ⟨d, hd⟩ : ∃ d, toIndexPartial keys A a - i = d + 1 := ⟨toIndexPartial keys A a - i - 1, by omega⟩
        have h2 : toIndexPartial keys A a - (i + 1) = d := by omega
        simp [hle, h1, hd, h2]
      · have h1 : ¬ i + 1 ≤ toIndexPartial keys A a := by omega
        simp [hle, h1]

/-- **the expansion of a QFunction has the payoff `FactoredVector::getValue` defines** -/
theorem payoff_qfRules (A a : List Nat) (ha : Valid A a) (hA : ∀ d ∈ A, 0 < d) : ∀ (bases : List Basis),
    (∀ b ∈ bases, b.WF A ∧ ∀ k ∈ b.keys, k < A.length) → payoffL (qfRules A bases) a = qfPayoff A bases a
  | [], _ => by simp [qfRules, payoffL, payoff, qfPayoff]
  | b :: bs, h => by
    have hb := h b (List.mem_cons_self ..)
    have ih := payoff_qfRules A a ha hA bs (fun b' hb' => h b' (List.mem_cons_of_mem _ hb'))
    simp only [payoffL] at ih ⊢
    simp only [qfRules, qfPayoff, payoff_append, ih]
    rw [payoff_basisRulesFrom A b.keys a ha hb.2 hA b.vals 0 (by rw [hb.1.1]; omega)]
    simp

theorem qfRules_WF (A : List Nat) (hA : ∀ d ∈ A, 0 < d) : ∀ (bases : List Basis),
    (∀ b ∈ bases, b.WF A ∧ b.keys ≠ [] ∧ ∀ k ∈ b.keys, k < A.length) →
    ∀ r ∈ qfRules A bases, r.WF A ∧ r.keys ≠ []
  | [], _, r, hr => by simp [qfRules] at hr
  | b :: bs, h, r, hr => by
    have hb := h b (List.mem_cons_self ..)
    simp only [qfRules, List.mem_append] at hr
    rcases hr with hr | hr
    · obtain ⟨h1, h2⟩ := basisRulesFrom_WF A b.keys hb.2.2 hA b.vals 0 (by rw [hb.1.1]; omega) r hr
      exact ⟨h1, by rw [h2]; exact hb.2.1⟩
    · exact qfRules_WF A hA bs (fun b' hb' => h b' (List.mem_cons_of_mem _ hb')) r hr

/-- **VariableElimination on a QFunction returns what it claims**: the graph built by the QFunction overload, run through
    the table-level elimination, yields an in-range joint action whose `getValue` is the maximum over all joint actions,
    and reports exactly that value. -/
theorem tveQF_correct (A : List Nat) (bases : List Basis) (hA : ∀ d ∈ A, 0 < d)
    (hwf : ∀ b ∈ bases, b.WF A ∧ b.keys ≠ [] ∧ ∀ k ∈ b.keys, k < A.length) :
    Valid A (tveRunQF A bases).1 ∧
    qfPayoff A bases (tveRunQF A bases).1 = (tveRunQF A bases).2 ∧
    (∀ a, Valid A a → qfPayoff A bases a ≤ (tveRunQF A bases).2) := by
  have hr := qfRules_WF A hA bases hwf
  have e := tveRunQF_eq A bases (fun b hb => (hwf b hb).1)
  obtain ⟨h1, h2, h3⟩ := tve_correct A (qfRules A bases) hA (fun r hr' => (hr r hr').1) (fun r hr' => (hr r hr').2)
  have hw : ∀ b ∈ bases, b.WF A ∧ ∀ k ∈ b.keys, k < A.length := fun b hb => ⟨(hwf b hb).1, (hwf b hb).2.2⟩
  rw [e]
  refine ⟨h1, ?_, ?_⟩
  · rw [← payoff_qfRules A _ h1 hA bases hw, h2, h3]
  · intro a ha
    rw [← payoff_qfRules A a ha hA bases hw, h3]
    exact bruteMax_ge A _ a ha

/-- the hypotheses of `tveQF_correct` (and of `approxQF_claims`) hold for a concrete non-trivial QFunction: two bases on the
    same tag, a single-agent basis on a non-first agent, one agent in no basis, non-uniform sizes -/
example : (∀ d ∈ [2,3,2], 0 < d) ∧
    (∀ b ∈ ([⟨[0,1],[1,-2,3,0,1/2,-1]⟩, ⟨[1],[0,1,-1]⟩, ⟨[0,1],[0,0,0,0,0,4]⟩] : List Basis),
      b.WF [2,3,2] ∧ b.keys ≠ [] ∧ ∀ k ∈ b.keys, k < [2,3,2].length) := by
  refine ⟨by decide, ?_⟩
  intro b hb
  simp only [List.mem_cons, List.mem_nil_iff, or_false] at hb
  rcases hb with rfl | rfl | rfl <;> exact ⟨⟨by decide, by decide⟩, by decide, by decide⟩

/-- test on a literal: the value of the run on that QFunction -/
example : tveRunQF [2,3,2] [⟨[0,1],[1,-2,3,0,1/2,-1]⟩, ⟨[1],[0,1,-1]⟩, ⟨[0,1],[0,0,0,0,0,4]⟩] = ([0,1,0], 4) ∧
    tveRun [2,3,2] (qfRules [2,3,2] [⟨[0,1],[1,-2,3,0,1/2,-1]⟩, ⟨[1],[0,1,-1]⟩, ⟨[0,1],[0,0,0,0,0,4]⟩]) = ([0,1,0], 4) := by
  constructor <;> decide +kernel

end AITB.VE
