/-
  AITB.Props.C08 — "Sampling follows the stated distribution and stays in range".

  This file: the als-table sampler (`VoseAliasSampler::sampleProbability`), the table checker used
  by the driver on the implementation's own tables (L3), and the refutation of `vose_correct` for the
  constructor as it is.  The other parts of the property live in
    AITB.Props.C08Dense    dense / sparse inverse-CDF scans, model sampling compositions
    AITB.Props.C08Project  projectToProbability, makeRandomProbability
    AITB.Props.C08Vose     the repaired constructor (`vose_correct`)

  "Index j is selected with probability q" is formalised without measure theory: the set of draws
  mapped to j is a finite union of half-open intervals whose lengths add up to q.
-/
import AITB.Model.Sampling
import AITB.Props.C08Dense
import AITB.Props.C08Project
import AITB.Props.C08Vose
import Mathlib.Algebra.Order.Field.Rat
import Mathlib.Tactic.Linarith
import Mathlib.Tactic.NormNum

namespace AITB.Sampling

/-! ## the checkers the driver evaluates on the implementation's answers are sound and complete -/

/-- `intervalSpec` is the right-hand side of `dense_preimage` -/
theorem intervalSpec_iff (l : List Rat) (u : Rat) (r : Nat) :
    intervalSpec l u r = true ↔ r < l.length ∧ cum l r ≤ u ∧ (r + 1 < l.length → u < cum l (r + 1)) := by
  unfold intervalSpec
  simp only [Bool.and_eq_true, Bool.or_eq_true, decide_eq_true_eq]
  constructor
  · rintro ⟨⟨h1, h2⟩, h3⟩
    refine ⟨h1, h2, fun h => ?_⟩
    rcases h3 with h3 | h3
    · omega
    · exact h3
  · rintro ⟨h1, h2, h3⟩
    refine ⟨⟨h1, h2⟩, ?_⟩
    by_cases h : r + 1 < l.length
    · exact Or.inr (h3 h)
    · exact Or.inl (by omega)

/-- **checker = sampler**: for non-negative entries and a non-negative draw, the clause the driver
    evaluates on the implementation's answer holds exactly for the index the modelled sampler returns -/
theorem intervalSpec_iff_sample (l : List Rat) (u : Rat) (r : Nat) (hnn : ∀ x ∈ l, 0 ≤ x) (hu : 0 ≤ u)
    (hne : l ≠ []) : intervalSpec l u r = true ↔ sampleDense l u = r := by
  rw [intervalSpec_iff, dense_preimage l u r hnn hu hne]

/-- test: draw 5/8 on `[1/2,1/4,1/4]` is index 1 and nothing else -/
example : intervalSpec [1/2, 1/4, 1/4] (5/8) 1 = true ∧ intervalSpec [1/2, 1/4, 1/4] (5/8) 2 = false := by
  constructor <;> decide +kernel

/-! ## `isProbability(const SparseMatrix2D &)` (abs-sum trick) versus the template version -/

theorem absQ_of_nonneg {q : Rat} (h : 0 ≤ q) : absQ q = q := by
  unfold absQ; split
  · linarith
  · rfl

theorem map_absQ_of_nonneg : ∀ (l : List Rat), (∀ x ∈ l, 0 ≤ x) → l.map absQ = l
  | [], _ => rfl
  | x :: xs, h => by
    simp only [List.map_cons]
    rw [absQ_of_nonneg (h x (by simp)), map_absQ_of_nonneg xs (fun y hy => h y (by simp [hy]))]

/-- every row the template `isProbability` accepts is accepted by the sparse-matrix overload -/
theorem isProbSparse_of_isProb (l : List Rat) (h : isProb l = true) : isProbSparse l = true := by
  obtain ⟨hnn, hs⟩ := (dense_isProb_iff l).mp h
  unfold isProbSparse
  rw [map_absQ_of_nonneg l hnn]
  have : eqSmall l.sum 1 = true := by
    unfold eqSmall; simpa using hs
  simp [this]

/-- observation (outside C08's quantifier, relevant to C06): the converse fails — the sparse overload
    accepts a row with a negative entry as long as the absolute sum stays within tolerance -/
theorem isProbSparse_accepts_negative :
    isProbSparse [1 + 4/10000000, -(4/10000000)] = true ∧ isProb [1 + 4/10000000, -(4/10000000)] = false := by
  constructor <;> decide +kernel

/-! ## the sampling rule of the alias table -/

theorem clamp01_nonneg (t : Rat) : 0 ≤ clamp01 t := by
  unfold clamp01; split
  · exact le_refl _
  · split
    · norm_num
    · linarith

theorem clamp01_le_one (t : Rat) : clamp01 t ≤ 1 := by
  unfold clamp01; split
  · norm_num
  · split
    · exact le_refl _
    · linarith

/-- for a fractional part `y ∈ [0,1)` the test `y < prob` is the test `y < clamp01 prob` -/
theorem lt_clamp01_iff (y t : Rat) (h0 : 0 ≤ y) (h1 : y < 1) : y < t ↔ y < clamp01 t := by
  unfold clamp01; split
  · constructor <;> intro h <;> linarith
  · split
    · constructor <;> intro _ <;> linarith
    · exact Iff.rfl

/-- the column of a draw: `int i = x` for `x ∈ [i, i+1)` -/
theorem floor_toNat_of_mem (x : Rat) (i : Nat) (h1 : (i : Rat) ≤ x) (h2 : x < (i : Rat) + 1) :
    x.floor.toNat = i := by
  have hle : (i : Int) ≤ x.floor := Rat.le_floor_iff.mpr (by simpa using h1)
  have hlt : x.floor < (i : Int) + 1 := Rat.floor_lt_iff.mpr (by push_cast; simpa using h2)
  omega

/-- every non-negative draw lies in exactly the column given by its floor -/
theorem col_of_nonneg (x : Rat) (h0 : 0 ≤ x) :
    ((x.floor.toNat : Nat) : Rat) ≤ x ∧ x < ((x.floor.toNat : Nat) : Rat) + 1 := by
  have hf : (0 : Int) ≤ x.floor := Rat.le_floor_iff.mpr (by simpa using h0)
  have hc : ((x.floor.toNat : Nat) : Int) = x.floor := Int.toNat_of_nonneg hf
  have hcq : ((x.floor.toNat : Nat) : Rat) = ((x.floor : Int) : Rat) := by
    have h' : (((x.floor.toNat : Nat) : Int) : Rat) = ((x.floor.toNat : Nat) : Rat) := Int.cast_natCast _
    rw [← h', hc]
  rw [hcq]
  refine ⟨Rat.floor_le x, ?_⟩
  have := Rat.lt_floor_add_one x
  push_cast at this
  exact this

theorem aliasSampleX_col (prob : List Rat) (als : List Nat) (x : Rat) (i : Nat)
    (h1 : (i : Rat) ≤ x) (h2 : x < (i : Rat) + 1) :
    aliasSampleX prob als x = if x - (i : Rat) < prob.getD i 0 then i else als.getD i 0 := by
  unfold aliasSampleX
  simp only [floor_toNat_of_mem x i h1 h2]

/-- **alias_preimage**: the draws `x ∈ [0,n)` mapped to `j` are exactly the union over the columns
    `i` of `[i, i + t_i)` when `i = j` and of `[i + t_i, i+1)` when `alias_i = j`, where
    `t_i = clamp01 prob_i`; these intervals have lengths `t_i` and `1 - t_i`. -/
theorem alias_preimage (prob : List Rat) (als : List Nat) (x : Rat) (j : Nat)
    (hx0 : 0 ≤ x) (hxn : x < (prob.length : Rat)) :
    aliasSampleX prob als x = j ↔
      ∃ i, i < prob.length ∧ (i : Rat) ≤ x ∧ x < (i : Rat) + 1 ∧
        ((j = i ∧ x < (i : Rat) + clamp01 (prob.getD i 0)) ∨
         (j = als.getD i 0 ∧ (i : Rat) + clamp01 (prob.getD i 0) ≤ x)) := by
  obtain ⟨hc1, hc2⟩ := col_of_nonneg x hx0
  have hcol : x.floor.toNat < prob.length := by
    have : ((x.floor.toNat : Nat) : Rat) < (prob.length : Rat) := lt_of_le_of_lt hc1 hxn
    exact_mod_cast this
  constructor
  · intro h
    refine ⟨x.floor.toNat, hcol, hc1, hc2, ?_⟩
    rw [aliasSampleX_col prob als x _ hc1 hc2] at h
    have hy0 : 0 ≤ x - ((x.floor.toNat : Nat) : Rat) := by linarith
    have hy1 : x - ((x.floor.toNat : Nat) : Rat) < 1 := by linarith
    split at h
    · left
      refine ⟨h.symm, ?_⟩
      have := (lt_clamp01_iff _ _ hy0 hy1).mp ‹_›
      linarith
    · right
      refine ⟨h.symm, ?_⟩
      have hn : ¬ (x - ((x.floor.toNat : Nat) : Rat) < clamp01 (prob.getD x.floor.toNat 0)) :=
        fun hh => ‹¬ _› ((lt_clamp01_iff _ _ hy0 hy1).mpr hh)
      linarith [not_lt.mp hn]
  · rintro ⟨i, _, h1, h2, h⟩
    rw [aliasSampleX_col prob als x i h1 h2]
    have hy0 : 0 ≤ x - (i : Rat) := by linarith
    have hy1 : x - (i : Rat) < 1 := by linarith
    rcases h with ⟨hj, hlt⟩ | ⟨hj, hge⟩
    · have : x - (i : Rat) < prob.getD i 0 := (lt_clamp01_iff _ _ hy0 hy1).mpr (by linarith)
      rw [if_pos this]; exact hj.symm
    · have : ¬ (x - (i : Rat) < prob.getD i 0) := fun hh => by
        have := (lt_clamp01_iff _ _ hy0 hy1).mp hh
        linarith
      rw [if_neg this]; exact hj.symm

/-- test: the hypotheses of `alias_preimage` are satisfiable (table of `[3/4,1/4]`, draw 5/4 → column 1, als 0) -/
example : aliasSampleX [2, 1/2] [0, 0] (7/4) = 0 := by
  rw [alias_preimage _ _ _ _ (by norm_num) (by norm_num)]
  exact ⟨1, by simp, by norm_num, by norm_num, Or.inr ⟨by simp, by norm_num [clamp01]⟩⟩

/-- **alias_in_range**: with aliases in range the sampler returns an index below `n` for every draw in `[0,n)` -/
theorem alias_in_range (prob : List Rat) (als : List Nat) (x : Rat)
    (hlen : als.length = prob.length) (hal : ∀ a ∈ als, a < prob.length)
    (hx0 : 0 ≤ x) (hxn : x < (prob.length : Rat)) : aliasSampleX prob als x < prob.length := by
  obtain ⟨i, hi, _, _, h⟩ := (alias_preimage prob als x _ hx0 hxn).mp rfl
  rcases h with ⟨hj, _⟩ | ⟨hj, _⟩
  · rw [hj]; exact hi
  · rw [hj]
    have hi' : i < als.length := by rw [hlen]; exact hi
    have : als.getD i 0 = als[i] := by simp [List.getD, hi']
    rw [this]
    exact hal _ (List.getElem_mem hi')

/-- as a function of the canonical draw `u ∈ [0,1)` -/
theorem aliasSample_in_range (prob : List Rat) (als : List Nat) (u : Rat)
    (hlen : als.length = prob.length) (hal : ∀ a ∈ als, a < prob.length)
    (hu0 : 0 ≤ u) (hu1 : u < 1) (hne : prob ≠ []) : aliasSample prob als u < prob.length := by
  unfold aliasSample
  have hn : (0 : Rat) < (prob.length : Rat) := by
    have : 0 < prob.length := List.length_pos_iff.mpr hne
    exact_mod_cast this
  apply alias_in_range prob als _ hlen hal
  · exact mul_nonneg hu0 (le_of_lt hn)
  · calc u * (prob.length : Rat) < 1 * (prob.length : Rat) := by
          exact mul_lt_mul_of_pos_right hu1 hn
      _ = (prob.length : Rat) := one_mul _

/-! ## the table checker (evaluated by the driver on the implementation's reconstructed table) -/

/-- **alias_table_sound**: an accepted table has the right sizes, aliases in range, and gives every
    index its probability up to `tol` -/
theorem alias_table_sound (tol : Rat) (p prob : List Rat) (als : List Nat)
    (h : aliasTableOk tol p prob als = true) :
    prob.length = p.length ∧ als.length = p.length ∧ (∀ a ∈ als, a < p.length) ∧
      ∀ j, j < p.length → absQ (aliasMass prob als j - p.getD j 0) ≤ tol := by
  unfold aliasTableOk at h
  simp only [Bool.and_eq_true, beq_iff_eq, List.all_eq_true, decide_eq_true_eq, List.mem_range] at h
  obtain ⟨⟨⟨h1, h2⟩, h3⟩, h4⟩ := h
  exact ⟨h1, h2, h3, h4⟩

theorem absQ_le_zero (q : Rat) (h : absQ q ≤ 0) : q = 0 := by
  unfold absQ at h
  split at h <;> linarith

/-- with tolerance 0 the table is exact -/
theorem alias_table_sound_exact (p prob : List Rat) (als : List Nat)
    (h : aliasTableOk 0 p prob als = true) : ∀ j, j < p.length → aliasMass prob als j = p.getD j 0 := by
  intro j hj
  have := (alias_table_sound 0 p prob als h).2.2.2 j hj
  have := absQ_le_zero _ this
  linarith

/-- test: the checker accepts the textbook table of `[1/2,1/4,1/4]` and rejects the uniform one -/
example : aliasTableOk 0 [1/2, 1/4, 1/4] [1, 3/4, 3/4] [0, 0, 0] = true := by decide +kernel
example : aliasTableOk (1/1000) [1/2, 1/4, 1/4] [3, 3, 3] [0, 1, 2] = false := by decide +kernel

/-! ## the constructor as it is does not build a correct table

  Full-strength statement (`vose_correct`, FALSE for `voseBuild`, proved for `voseBuildFixed` in
  AITB.Props.C08Vose):

    ∀ p ≠ [], (∀ x ∈ p, 0 ≤ x) → p.sum = 1 → ∀ j < p.length,
        aliasMass (voseBuild p (1/n)).1 (voseBuild p (1/n)).2 j = p.getD j 0
-/

/-- what the current constructor builds for the example of the property text: every column keeps
    itself with probability 1, i.e. `[1/2,1/4,1/4]` is sampled uniformly (als 0 doubles as the
    "unassigned" marker, so the two entries aliased to index 0 are reset) -/
theorem vose_current_example_uniform : voseBuild [1/2, 1/4, 1/4] (1/3) = ([3, 3, 3], [0, 1, 2]) := by
  decide +kernel

theorem vose_current_example_two : voseBuild [3/4, 1/4] (1/2) = ([2, 2], [0, 1]) := by decide +kernel

/-- first entry below average: the small cursor re-processes index 1 and drains index 3 twice -/
theorem vose_current_example_reprocessed :
    voseBuild [0, 1/4, 1/4, 1/2] (1/4) = ([0, 0, 0, 4], [1, 3, 3, 3]) := by decide +kernel

theorem vose_correct_counterexample :
    ¬ (∀ p : List Rat, p ≠ [] → (∀ x ∈ p, 0 ≤ x) → p.sum = 1 → ∀ j, j < p.length →
        aliasMass (voseBuild p (1 / (p.length : Rat))).1 (voseBuild p (1 / (p.length : Rat))).2 j = p.getD j 0) := by
  intro h
  have h0 := h [3/4, 1/4] (by simp) (by intro x hx; simp at hx; rcases hx with rfl | rfl <;> norm_num)
    (by norm_num) 0 (by simp)
  revert h0
  decide +kernel

/-- also with a below-average first entry (a different defect of the same constructor) -/
theorem vose_correct_counterexample_below_avg :
    aliasMass (voseBuild [0, 1/4, 1/4, 1/2] (1/4)).1 (voseBuild [0, 1/4, 1/4, 1/2] (1/4)).2 2 = 0 := by
  decide +kernel

/-- the repaired constructor on the same inputs (tests; the general theorem is `vose_correct`) -/
example : (List.range 3).map (aliasMass (voseBuildFixed [1/2, 1/4, 1/4] (1/3)).1 (voseBuildFixed [1/2, 1/4, 1/4] (1/3)).2)
    = [1/2, 1/4, 1/4] := by decide +kernel
example : (List.range 4).map (aliasMass (voseBuildFixed [0, 1/4, 1/4, 1/2] (1/4)).1 (voseBuildFixed [0, 1/4, 1/4, 1/2] (1/4)).2)
    = [0, 1/4, 1/4, 1/2] := by decide +kernel

end AITB.Sampling
