/-
  AITB.Props.C15Obj — "minimising the stated objective": the objective `solveLP` hands to lp_solve,
  Σ_k (h_k.values.sum() / h_k.values.size()) · w_k, is the uniform average of V_w over ALL joint states,
  (1/|S|) Σ_s V_w(s) — for every state space, every well-formed basis set and all weights.
  (Each joint value of a tag is hit by exactly |S| / |tag space| joint states: C14's `marginal` with uniform weights.)
-/
import AITB.Props.C15Bp
import AITB.Props.C14h

namespace AITB.FLP
open AITB.Factored AITB.VE

/-- uniform local weights 1/|S_i| -/
def Pu (S : List Nat) (i _v : Nat) : Rat := 1 / ((S.getD i 0 : Nat) : Rat)

theorem prodOver_uniform (P : Nat → Nat → Rat) : ∀ (ds xs : List Nat) (pos : Nat),
    (∀ i, i < ds.length → ∀ v, P (pos + i) v = 1 / ((ds.getD i 0 : Nat) : Rat)) → xs.length = ds.length →
    prodOver P pos xs = 1 / ((space ds : Nat) : Rat)
  | [], [], _, _, _ => by simp [prodOver, space]
  | [], _ :: _, _, _, h => by simp at h
  | _ :: _, [], _, _, h => by simp at h
  | d :: ds, x :: xs, pos, hP, hl => by
    have h0 := hP 0 (by simp) x
    simp only [Nat.add_zero, List.getD_cons_zero] at h0
    have ih := prodOver_uniform P ds xs (pos + 1) (fun i hi v => by
      have := hP (i + 1) (by simpa using hi) v
      simpa [Nat.add_assoc, Nat.add_comm 1 i] using this) (by simpa using hl)
    simp only [prodOver, space, h0, ih]
    push_cast; ring

theorem prodTag_uniform (S : List Nat) : ∀ (U vs : List Nat), vs.length = U.length →
    prodTag (Pu S) U vs = 1 / ((space (sel U S) : Nat) : Rat)
  | [], [], _ => by simp [prodTag, sel, space]
  | [], _ :: _, h => by simp at h
  | _ :: _, [], h => by simp at h
  | k :: U, v :: vs, h => by
    have ih := prodTag_uniform S U vs (by simpa using h)
    have hs : sel (k :: U) S = S.getD k 0 :: sel U S := by simp [sel]
    simp only [prodTag, ih, hs, space, Pu]
    push_cast; ring

theorem sumN_getD (l : List Rat) : sumN l.length (fun r => l.getD r 0) = sumQ l := by
  induction l with
  | nil => simp [sumN, sumQ]
  | cons q qs ih =>
    rw [List.length_cons, sumN_succ_left]
    simp only [List.getD_cons_zero, List.getD_cons_succ, sumQ, ih]

/-- the mean of a basis function over the whole joint state space is the mean of its stored values -/
theorem basis_mean (S : List Nat) (hS : ∀ d ∈ S, 0 < d) (hk : Basis) (hw : BasisWF S hk) (hsorted : hk.tag.Pairwise (· < ·)) :
    sumTo (space S) (fun id => hk.at S (toFactors S id)) / ((space S : Nat) : Rat)
      = sumQ hk.vals / ((hk.vals.length : Nat) : Rat) := by
  have hrow : ∀ i, i < S.length → sumN (S.getD i 0) (Pu S (0 + i)) = 1 := by
    intro i hi
    have hd : 0 < S.getD i 0 := by
      have : S.getD i 0 = S[i] := by simp [List.getD_eq_getElem?_getD, List.getElem?_eq_getElem hi]
      rw [this]; exact hS _ (List.getElem_mem hi)
    have hq : ((S.getD i 0 : Nat) : Rat) ≠ 0 := by exact_mod_cast (Nat.pos_iff_ne_zero.mp hd)
    simp only [Nat.zero_add]
    rw [show Pu S i = fun _ => 1 / ((S.getD i 0 : Nat) : Rat) from rfl, sumN_const]
    field_simp
  have hm := marginal (Pu S) S 0 hk.tag (fun t => hk.vals.getD (toIndexLoop (sel hk.tag S) t 0 1) 0) hS hrow hsorted
    (fun k hk' => ⟨Nat.zero_le _, by simpa using hw.2.1 k hk'⟩)
  simp only [selRel_zero] at hm
  have hpo : ∀ id, prodOver (Pu S) 0 (toFactors S id) = 1 / ((space S : Nat) : Rat) := fun id =>
    prodOver_uniform (Pu S) S (toFactors S id) 0 (fun i _ v => by simp [Pu]) (toFactors_length S id)
  have hpt : ∀ r, prodTag (Pu S) hk.tag (toFactors (sel hk.tag S) r) = 1 / ((space (sel hk.tag S) : Nat) : Rat) := fun r =>
    prodTag_uniform S hk.tag _ (by rw [toFactors_length, sel_length])
  simp only [hpo, hpt] at hm
  rw [sumN_mul_left, sumN_mul_left] at hm
  have hlen : hk.vals.length = space (sel hk.tag S) := hw.2.2
  have hsel_pos : ∀ d ∈ sel hk.tag S, 0 < d := by
    intro d hd
    simp only [sel, List.mem_map] at hd
    obtain ⟨k, hk', rfl⟩ := hd
    have hkl := hw.2.1 k hk'
    have : S.getD k 0 = S[k] := by simp [List.getD_eq_getElem?_getD, List.getElem?_eq_getElem hkl]
    rw [this]; exact hS _ (List.getElem_mem hkl)
  have hR : sumN (space (sel hk.tag S)) (fun r => hk.vals.getD (toIndexLoop (sel hk.tag S) (toFactors (sel hk.tag S) r) 0 1) 0)
      = sumQ hk.vals := by
    rw [← sumN_getD, hlen]
    apply sumN_congr
    intro r hr
    rw [toIndexLoop_toFactors (sel hk.tag S) r hr]
  rw [hR] at hm
  rw [sumTo_eq_sumN, hlen]
  have hL : sumN (space S) (fun id => hk.at S (toFactors S id))
      = sumN (space S) (fun id => hk.vals.getD (toIndexLoop (sel hk.tag S) (sel hk.tag (toFactors S id)) 0 1) 0) := rfl
  rw [hL]
  rw [div_eq_mul_one_div, mul_comm, hm]; ring

/-- **the stated objective is the uniform flat objective**, coefficient by coefficient -/
theorem statedObj_eq_flatObj (S : List Nat) (hS : ∀ d ∈ S, 0 < d) (h : List Basis)
    (hh : ∀ f ∈ h, BasisWF S f ∧ f.tag.Pairwise (· < ·)) : mdpStatedObj h = mdpFlatObj S h := by
  simp only [mdpStatedObj, mdpFlatObj]
  apply List.map_congr_left
  intro f hf
  exact (basis_mean S hS f (hh f hf).1 (hh f hf).2).symm

/-- **"minimising the stated objective"**: Σ_k mean(h_k.values) · w_k  =  (1/|S|) Σ_s V_w(s) -/
theorem statedObj_is_uniform_average (S : List Nat) (hS : ∀ d ∈ S, 0 < d) (h : List Basis)
    (hh : ∀ f ∈ h, BasisWF S f ∧ f.tag.Pairwise (· < ·)) (w : List Rat) :
    dotN h.length (mdpStatedObj h) w
      = sumTo (space S) (fun id => mdpV S h w (toFactors S id)) / ((space S : Nat) : Rat) := by
  rw [statedObj_eq_flatObj S hS h hh]
  simp only [dotN, mdpFlatObj, mdpV, wAt]
  have e1 : ∀ i, i < h.length →
      (h.map (fun hk => sumTo (space S) (fun id => hk.at S (toFactors S id)) / ((space S : Nat) : Rat))).getD i 0 * w.getD i 0
      = sumTo (space S) (fun id => w.getD i 0 * (h.map (·.at S (toFactors S id))).getD i 0) / ((space S : Nat) : Rat) := by
    intro i hi
    rw [getD_map_lt _ h i hi]
    have : (fun id => w.getD i 0 * (h.map (·.at S (toFactors S id))).getD i 0) = fun id => w.getD i 0 * h[i].at S (toFactors S id) := by
      funext id; rw [getD_map_lt _ h i hi]
    rw [this, sumTo_mul]; ring
  rw [sumTo_congr _ _ _ e1]
  have e2 : (fun i => sumTo (space S) (fun id => w.getD i 0 * (h.map (·.at S (toFactors S id))).getD i 0) / ((space S : Nat) : Rat))
      = fun i => (1 / ((space S : Nat) : Rat)) * sumTo (space S) (fun id => w.getD i 0 * (h.map (·.at S (toFactors S id))).getD i 0) := by
    funext i; ring
  rw [e2, sumTo_mul]
  simp only [sumTo_eq_sumN]
  rw [sumN_comm]
  ring

end AITB.FLP
