/-
  AITB.Props.C14f — C14 continued: `minusEqual(…, clearZero = true)`.
  With clearZero a merged basis whose entries are all `checkEqualGeneral(·, 0)` is erased; the result then
  differs from the exact difference by at most `equalToleranceSmall` per subtracted basis (and by nothing
  when the erased basis is exactly zero).
-/
import AITB.Props.C14e
import Mathlib.Tactic.NormNum

namespace AITB.Factored

theorem absQ_eq_abs (q : Rat) : absQ q = |q| := by
  unfold absQ
  by_cases h : q < 0
  · simp [h, abs_of_neg h]
  · simp [h, abs_of_nonneg (not_lt.mp h)]

theorem tolSmall_nonneg : (0 : Rat) ≤ AITB.Gen.equalToleranceSmall := by
  unfold AITB.Gen.equalToleranceSmall; norm_num

theorem tolGeneral_nonneg : (0 : Rat) ≤ AITB.Gen.equalToleranceGeneral := by
  unfold AITB.Gen.equalToleranceGeneral; norm_num

/-- `checkEqualGeneral(v, 0.0)` accepts only `|v| ≤ equalToleranceSmall` (the relative branch degenerates to `v = 0`) -/
theorem ceqGeneral0_small (v : Rat) (h : ceqGeneral0 v = true) : |v| ≤ AITB.Gen.equalToleranceSmall := by
  unfold ceqGeneral0 at h
  simp only [Bool.or_eq_true, decide_eq_true_eq, sub_zero, absQ_eq_abs, abs_zero] at h
  rcases h with h | h
  · exact h
  · by_cases hv : (0 : Rat) < |v|
    · simp only [hv, if_true, zero_mul] at h
      exact le_trans h tolSmall_nonneg
    · have : |v| = 0 := le_antisymm (not_lt.mp hv) (abs_nonneg v)
      rw [this]; exact tolSmall_nonneg

theorem isZeroVec_get (sp x : List Nat) (b : BF) (h : isZeroVec b.vals = true) : |b.get sp x| ≤ AITB.Gen.equalToleranceSmall := by
  unfold BF.get
  rw [List.getD_eq_getElem?_getD]
  cases hv : b.vals[toIndexPartial b.tag sp x]? with
  | none => simp [tolSmall_nonneg]
  | some v =>
    simp only [Option.getD_some]
    have hm : v ∈ b.vals := List.mem_of_getElem? hv
    unfold isZeroVec at h
    exact ceqGeneral0_small v (List.all_eq_true.mp h v hm)

/-- the clearZero loop performs the same merge as the plain loop and then possibly erases the merged basis -/
theorem mergeLoopCZ_rel (cz : Bool) (s : Rat) (sp : List Nat) (basis : BF) : ∀ (fv : FV),
    (mergeLoop s sp basis fv = none ∧ mergeLoopCZ cz s sp basis fv = none) ∨
    ∃ pre new post, mergeLoop s sp basis fv = some (pre ++ new :: post) ∧
      mergeLoopCZ cz s sp basis fv = some (pre ++ dropIfZero cz new post)
  | [] => Or.inl ⟨rfl, rfl⟩
  | cur :: rest => by
    simp only [mergeLoop, mergeLoopCZ]
    by_cases hbig : basis.tag.length ≤ cur.tag.length
    · simp only [hbig, decide_true, if_true]
      by_cases hc : sortedContains cur.tag basis.tag = true
      · simp only [hc, if_true]
        exact Or.inr ⟨[], _, rest, rfl, rfl⟩
      · simp only [hc, Bool.false_eq_true, if_false]
        rcases mergeLoopCZ_rel cz s sp basis rest with ⟨h1, h2⟩ | ⟨pre, new, post, h1, h2⟩
        · exact Or.inl ⟨by rw [h1]; rfl, by rw [h2]; rfl⟩
        · exact Or.inr ⟨cur :: pre, new, post, by rw [h1]; rfl, by rw [h2]; rfl⟩
    · simp only [hbig, decide_false, Bool.false_eq_true, if_false]
      by_cases hc : sortedContains basis.tag cur.tag = true
      · simp only [hc, if_true]
        exact Or.inr ⟨[], _, rest, rfl, rfl⟩
      · simp only [hc, Bool.false_eq_true, if_false]
        rcases mergeLoopCZ_rel cz s sp basis rest with ⟨h1, h2⟩ | ⟨pre, new, post, h1, h2⟩
        · exact Or.inl ⟨by rw [h1]; rfl, by rw [h2]; rfl⟩
        · exact Or.inr ⟨cur :: pre, new, post, by rw [h1]; rfl, by rw [h2]; rfl⟩

/-- without clearZero the two loops coincide -/
theorem fvMinusEqualCZ_false (sub : Bool) (sp : List Nat) (fv : FV) (b : BF) :
    fvMinusEqualCZ sub false sp fv b = fvMinusEqual sub sp fv b := by
  have key : ∀ s : Rat, fvAddBasisCZ false s s sp fv b = fvAddBasis s s sp fv b := by
    intro s
    unfold fvAddBasisCZ fvAddBasis
    rcases mergeLoopCZ_rel false s sp b fv with ⟨h1, h2⟩ | ⟨pre, new, post, h1, h2⟩
    · rw [h1, h2]
    · rw [h1, h2]; simp [dropIfZero]
  unfold fvMinusEqualCZ fvMinusEqual
  cases sub <;> simp [key]

theorem dropIfZero_close (cz : Bool) (sp x : List Nat) (pre post : FV) (new : BF) :
    |fvGet sp (pre ++ dropIfZero cz new post) x - fvGet sp (pre ++ new :: post) x| ≤ AITB.Gen.equalToleranceSmall := by
  unfold dropIfZero
  by_cases h : (cz && isZeroVec new.vals) = true
  · simp only [h, if_true]
    rw [fvGet_append, fvGet_append, fvGet_cons]
    have hz : isZeroVec new.vals = true := by simp only [Bool.and_eq_true] at h; exact h.2
    have := isZeroVec_get sp x new hz
    have e : fvGet sp pre x + fvGet sp post x - (fvGet sp pre x + (new.get sp x + fvGet sp post x)) = -new.get sp x := by ring
    rw [e, abs_neg]; exact this
  · simp only [h, Bool.false_eq_true, if_false, sub_self, abs_zero]
    exact tolSmall_nonneg

/-- **minusEqual(FactoredVector, BasisFunction, clearZero)**, repaired form: at every joint assignment the result is
    within `equalToleranceSmall` of the exact difference (it *is* the exact difference unless a basis was erased,
    `fvMinusEqualCZ_false` / `fvMinusEqual_pointwise`) -/
theorem fvMinusEqualCZ_close (cz : Bool) (sp x : List Nat) (fv : FV) (b : BF) (hx : Valid sp x) (hfv : FV.WF sp fv) (hb : b.WF sp) :
    |fvGet sp (fvMinusEqualCZ true cz sp fv b) x - (fvGet sp fv x - b.get sp x)| ≤ AITB.Gen.equalToleranceSmall := by
  have hex := fvMinusEqual_pointwise sp x fv b hx hfv hb
  unfold fvMinusEqual fvAddBasis at hex
  unfold fvMinusEqualCZ fvAddBasisCZ
  simp only [if_true] at hex ⊢
  rcases mergeLoopCZ_rel cz (-1) sp b fv with ⟨h1, h2⟩ | ⟨pre, new, post, h1, h2⟩
  · rw [h1] at hex; rw [h2]
    simp only at hex ⊢
    rw [hex, sub_self, abs_zero]; exact tolSmall_nonneg
  · rw [h1] at hex; rw [h2]
    simp only at hex ⊢
    rw [← hex]
    exact dropIfZero_close cz sp x pre post new

/-! ## `toIndex(space, PartialFactors)` = flat index of the zero-filled expansion `toFactors(F, pf)` -/

theorem toIndex_expand_nil : ∀ (ds : List Nat) (i : Nat) (vs : List Nat), toIndex ds (expandFrom i ds [] vs) = 0
  | [], _, _ => by simp [toIndex]
  | d :: ds, i, vs => by
    simp only [expandFrom, toIndex]
    rw [toIndex_expand_nil ds (i+1) []]; simp

theorem toIndex_expand_nil' : ∀ (ds : List Nat) (i : Nat) (ks : List Nat), toIndex ds (expandFrom i ds ks []) = 0
  | [], _, _ => by simp [toIndex]
  | d :: ds, i, [] => toIndex_expand_nil (d :: ds) i []
  | d :: ds, i, k :: ks => by
    simp only [expandFrom, toIndex]
    rw [toIndex_expand_nil ds (i+1) []]; simp

/-- the early-exit loop of `toIndex(const Factors & space, const PartialFactors & f)` -/
theorem toIndexPFLoop_eq : ∀ (ds : List Nat) (i : Nat) (ks vs : List Nat) (r m : Nat),
    toIndexPFLoop i ds ks vs r m = r + m * toIndex ds (expandFrom i ds ks vs)
  | [], i, ks, vs, r, m => by simp [toIndexPFLoop, toIndex]
  | d :: ds, i, [], vs, r, m => by
    rw [toIndex_expand_nil]; simp [toIndexPFLoop]
  | d :: ds, i, k :: ks, [], r, m => by
    rw [toIndex_expand_nil']; simp [toIndexPFLoop]
  | d :: ds, i, k :: ks, v :: vs, r, m => by
    simp only [toIndexPFLoop, expandFrom]
    by_cases h : i = k
    · simp only [h, if_true, toIndex]
      rw [toIndexPFLoop_eq ds (k+1) ks vs]
      ring
    · simp only [h, if_false, toIndex]
      rw [toIndexPFLoop_eq ds (i+1) (k :: ks) (v :: vs)]
      ring

/-- **toIndex(space, pf)** is the flat index of `toFactors(|space|, pf)` (the assignment that is 0 outside the keys) -/
theorem toIndexPF_eq (sp keys vals : List Nat) : toIndexPF sp keys vals = toIndex sp (expandFrom 0 sp keys vals) := by
  unfold toIndexPF
  rw [toIndexPFLoop_eq]; simp

example : toIndexPF [2, 3, 2] [1, 2] [2, 1] = 10 ∧ expandFrom 0 [2, 3, 2] [1, 2] [2, 1] = [0, 2, 1] := by decide

/-! ## FactoredMatrix2D::operator*=(const Vector &) -/

theorem bm_get_affine (w t : Rat) (add : Bool) (sp ac x a : List Nat) (b : BM) (hx : Valid sp x) (ha : Valid ac a) (hb : b.WF sp ac) :
    ({ b with vals := b.vals.map (·.map (fun v => if add then v * w + t else v * w)) } : BM).get sp ac x a
      = b.get sp ac x a * w + (if add then t else 0) := by
  obtain ⟨t1, t2, t3, t4⟩ := hb
  obtain ⟨hi, _⟩ := toIndexPartial_spec sp x b.tag hx t1.2
  obtain ⟨hj, _⟩ := toIndexPartial_spec ac a b.atag ha t2.2
  have hi' : toIndexPartial b.tag sp x < b.vals.length := by rw [t3]; exact hi
  have hj' : toIndexPartial b.atag ac a < (b.vals.getD (toIndexPartial b.tag sp x) []).length := by rw [t4 _ hi']; exact hj
  unfold BM.get
  simp only [List.getD_eq_getElem?_getD, List.getElem?_map, List.getElem?_eq_getElem hi', Option.map_some, Option.getD_some] at hj' ⊢
  rw [List.getElem?_eq_getElem hj']
  cases add <;> simp

theorem fmScaleW_aux (t : Rat) (add : Bool) (sp ac x a : List Nat) (hx : Valid sp x) (ha : Valid ac a) : ∀ (fm : FM) (w : List Rat),
    FM.WF sp ac fm → fm.length ≤ w.length →
    fmGet sp ac ((fm.zip w).map (fun bw => ({ bw.1 with vals := bw.1.vals.map (·.map (fun v => if add then v * bw.2 + t else v * bw.2)) } : BM))) x a
      = (fm.zip w).foldl (fun acc bw => acc + bw.1.get sp ac x a * bw.2) 0 + (if add then (fm.length : Rat) * t else 0)
  | [], _, _, _ => by simp [fmGet_nil]
  | b :: fm, [], _, h => by simp at h
  | b :: fm, wi :: w, hwf, h => by
    have ih := fmScaleW_aux t add sp ac x a hx ha fm w (fun c hc => hwf c (List.mem_cons_of_mem _ hc)) (by simpa using h)
    simp only [List.zip_cons_cons, List.map_cons, List.foldl_cons]
    rw [fmGet_cons, ih, bm_get_affine wi t add sp ac x a b hx ha (hwf b (List.mem_cons_self ..)), foldl_add_init _ _ (0 + _)]
    cases add <;> simp
    ring

/-- **FactoredMatrix2D::operator*=(const Vector &)** equals `getValue(space, actions, x, a, w)` at every (x, a)
    (≥ 1 basis when `w` carries the constant) -/
theorem fmScaleW_pointwise (sp ac x a : List Nat) (fm : FM) (w : List Rat) (hx : Valid sp x) (ha : Valid ac a) (hfm : FM.WF sp ac fm)
    (hw : w.length = fm.length ∨ (w.length = fm.length + 1 ∧ fm ≠ [])) :
    fmGet sp ac (fmScaleW w fm) x a = fmGetW sp ac fm x a w := by
  unfold fmScaleW fmGetW
  simp only
  rw [fmScaleW_aux _ _ sp ac x a hx ha fm w hfm (by omega)]
  conv_rhs => rw [foldl_add_init (fun bw : BM × Rat => bw.1.get sp ac x a * bw.2)]
  rcases hw with hw | ⟨hw, hne⟩
  · have : ¬ (w.length = fm.length + 1) := by omega
    simp [this]
  · have hn : (fm.length : Rat) ≠ 0 := by
      have : fm.length ≠ 0 := by cases fm with | nil => exact absurd rfl hne | cons _ _ => simp
      exact_mod_cast this
    simp only [hw, decide_true, if_true]
    field_simp
    ring

/-! ## the PartialState / PartialAction / PartialState overload of getTransitionProbability -/

theorem sorted_sublist_range : ∀ (n : Nat) (l : List Nat), l.Pairwise (· < ·) → (∀ k ∈ l, k < n) → l.Sublist (List.range n) := by
  intro n
  induction n with
  | zero =>
    intro l _ h
    cases l with
    | nil => exact List.Sublist.refl _
    | cons k _ => exact absurd (h k (List.mem_cons_self ..)) (by omega)
  | succ n ih =>
    intro l hs h
    rw [List.range_succ]
    by_cases hmem : n ∈ l
    · -- n is the largest element, hence the last one
      have hl : l ≠ [] := List.ne_nil_of_mem hmem
      have hlast : l.getLast hl = n := by
        rcases List.mem_iff_append.mp hmem with ⟨pre, post, rfl⟩
        cases post with
        | nil => simp
        | cons p ps =>
          exfalso
          have h1 : n < p := by
            have := (List.pairwise_append.mp hs).2.1
            exact (List.pairwise_cons.mp this).1 p (List.mem_cons_self ..)
          have h2 := h p (by simp)
          omega
      have hsplit := List.dropLast_append_getLast hl
      rw [hlast] at hsplit
      rw [← hsplit]
      have hs' : (l.dropLast).Pairwise (· < ·) := hs.sublist (List.dropLast_sublist l)
      have hlt : ∀ k ∈ l.dropLast, k < n := by
        intro k hk
        have : (l.dropLast ++ [n]).Pairwise (· < ·) := by rw [hsplit]; exact hs
        exact (List.pairwise_append.mp this).2.2 k hk n (by simp)
      exact List.Sublist.append (ih _ hs' hlt) (List.Sublist.refl _)
    · have hlt : ∀ k ∈ l, k < n := by
        intro k hk
        have := h k hk
        have : k ≠ n := fun e => hmem (e ▸ hk)
        omega
      exact (ih l hs hlt).trans (List.sublist_append_left _ _)

/-- **DDN::getTransitionProbability(PartialState s, PartialAction a, PartialState s1)** with `s`, `a` given as full
    assignments (`toPartialFactors`) is the product of the local probabilities of exactly the factors named by `s1` -/
theorem ddnProbP_full (g : DDNGraph) (T : List Mat) (s a ns vs : List Nat)
    (hs : s.length = g.S.length) (ha : a.length = g.A.length)
    (hok : ∀ d ∈ ns, (g.ps d).agents.Pairwise (· < ·) ∧ (∀ k ∈ (g.ps d).agents, k < g.A.length) ∧
            ∀ f ∈ (g.ps d).features, f.Pairwise (· < ·) ∧ ∀ k ∈ f, k < g.S.length) :
    ddnProbP g T (List.range g.S.length) s (List.range g.A.length) a ns vs 1 = prodTag (localP g T s a) ns vs := by
  rw [ddnProbP_eq, one_mul]
  apply prodTag_congr
  intro d hd v
  unfold localP
  obtain ⟨h1, h2, h3⟩ := hok d hd
  have := getIdP_eq_getId g d (List.range g.S.length) (List.range g.A.length) s a
    (sorted_sublist_range _ _ h1 h2) (fun f hf => sorted_sublist_range _ _ (h3 f hf).1 (h3 f hf).2)
  rw [← hs, sel_range s, ← ha, sel_range a] at this
  rw [← hs, ← ha, this]

/-! ## DDNGraph::getIds(feature, j) inverts the row lookup -/

theorem scanDown_spec (st : List Nat) (j aid : Nat) (hlo : st.getD aid 0 ≤ j) : ∀ (top : Nat), aid ≤ top →
    (∀ k, aid < k → k ≤ top → j < st.getD k 0) → scanDown st j top = aid := by
  intro top
  induction top with
  | zero => intro h _; have : aid = 0 := by omega
            subst this; rfl
  | succ t ih =>
    intro h hhi
    rcases Nat.eq_or_lt_of_le h with heq | hlt
    · subst heq
      have : ¬ j < st.getD (t + 1) 0 := by omega
      rw [scanDown, if_neg this]
    · rw [scanDown, if_pos (hhi (t + 1) hlt (Nat.le_refl _))]
      exact ih (by omega) (fun k h1 h2 => hhi k h1 (by omega))

/-- **getIds(feature, getId(feature, s, a)) = (parentId, actionId)**: the backwards scan over `startIds_` recovers the
    action block and the offset inside it -/
theorem getIdsInv_getId (g : DDNGraph) (i : Nat) (s a : List Nat) (hs : Valid g.S s) (ha : Valid g.A a) (hok : ParentsOK g i) :
    g.getIdsInv i (g.getId i s a) = (parentIdOf g i s a, actionIdOf g i a) := by
  obtain ⟨l1, u1, _⟩ := getId_block g i s a hs ha hok
  obtain ⟨hag, hlen, _⟩ := hok
  have haid : actionIdOf g i a < (g.ps i).features.length := by
    rw [hlen]; exact (toIndexPartial_spec g.A a _ ha hag).1
  have hstl : (g.startIds i).length = (g.ps i).features.length + 1 := go_length g.S _ 0
  have hscan : scanDown (g.startIds i) (g.getId i s a) ((g.startIds i).length - 2) = actionIdOf g i a := by
    apply scanDown_spec _ _ _ l1 _ (by omega)
    intro k hk hk2
    have := go_mono g.S (g.ps i).features 0 k (actionIdOf g i a + 1) (by omega) (by omega)
    unfold DDNGraph.startIds startIdsOf at u1 ⊢
    omega
  unfold DDNGraph.getIdsInv
  simp only [hscan]
  rw [getId_eq]
  simp

/-! ## toIndexPartialAndSkip -/

theorem skipLoop_spec (sp f : List Nat) (tm : Nat) : ∀ (ids : List Nat) (first mult skipM : Nat), ids.Nodup →
    (tm ∈ ids → (skipLoop sp f tm ids first mult skipM).1 + (skipLoop sp f tm ids first mult skipM).2 * f.getD tm 0
        = toIndexLoop (sel ids sp) (sel ids f) first mult) ∧
    (tm ∉ ids → (skipLoop sp f tm ids first mult skipM).1 = toIndexLoop (sel ids sp) (sel ids f) first mult
        ∧ (skipLoop sp f tm ids first mult skipM).2 = skipM)
  | [], first, mult, skipM, _ => by simp [skipLoop, sel, toIndexLoop]
  | id :: ids, first, mult, skipM, hnd => by
    have hnd' := (List.nodup_cons.mp hnd).2
    have hni := (List.nodup_cons.mp hnd).1
    have hsel : toIndexLoop (sel (id :: ids) sp) (sel (id :: ids) f) first mult
        = toIndexLoop (sel ids sp) (sel ids f) (first + mult * f.getD id 0) (mult * sp.getD id 0) := by
      simp [sel, toIndexLoop]
    rw [hsel]
    simp only [skipLoop]
    by_cases h : id = tm
    · subst h
      simp only [if_true]
      obtain ⟨_, i2⟩ := skipLoop_spec sp f id ids first (mult * sp.getD id 0) mult hnd'
      obtain ⟨e1, e2⟩ := i2 hni
      constructor
      · intro _
        rw [e1, e2, toIndexLoop_eq, toIndexLoop_eq]; ring
      · intro hc; exact absurd (List.mem_cons_self ..) hc
    · simp only [h, if_false]
      obtain ⟨i1, i2⟩ := skipLoop_spec sp f tm ids (first + mult * f.getD id 0) (mult * sp.getD id 0) skipM hnd'
      constructor
      · intro hm
        rcases List.mem_cons.mp hm with rfl | hm
        · exact absurd rfl h
        · exact i1 hm
      · intro hm
        exact i2 (fun hc => hm (List.mem_cons_of_mem _ hc))

/-- **toIndexPartialAndSkip**: for duplicate-free keys, `(first, skipMult)` decomposes the partial index:
    `toIndexPartial(ids, space, f) = first + skipMult · f[toModify]` when `toModify ∈ ids` (and `first` is the whole
    index, `skipMult = 1`, otherwise) -/
theorem toIndexPartialAndSkip_spec (keys sp f : List Nat) (tm : Nat) (hnd : keys.Nodup) :
    (tm ∈ keys → (toIndexPartialAndSkip keys sp f tm).1 + (toIndexPartialAndSkip keys sp f tm).2 * f.getD tm 0 = toIndexPartial keys sp f) ∧
    (tm ∉ keys → toIndexPartialAndSkip keys sp f tm = (toIndexPartial keys sp f, 1)) := by
  obtain ⟨h1, h2⟩ := skipLoop_spec sp f tm keys 0 1 1 hnd
  unfold toIndexPartialAndSkip toIndexPartial
  refine ⟨h1, fun hm => ?_⟩
  obtain ⟨e1, e2⟩ := h2 hm
  exact Prod.ext e1 e2

example : toIndexPartialAndSkip [0, 2] [2, 3, 2] [1, 2, 1] 2 = (1, 2) ∧ toIndexPartial [0, 2] [2, 3, 2] [1, 2, 1] = 3 := by decide

end AITB.Factored
