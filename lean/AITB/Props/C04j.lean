/-
  AITB.Props.C04j — PBVI's loops and the all-actions `crossSumBestAtBelief` (PERSEUS, LinearSupport) as modelled
  produce point-based value functions, hence `Consistent` ones: for every belief list, POMDP (A, O ≥ 1) and horizon.
-/
import AITB.Props.C04h

namespace AITB.Plan

/-! ## extractDominated keeps at least one entry -/

theorem xdInner_en_ge (S optEnd : Nat) : ∀ (k : Nat) (arr : Array VEntry) (target en : Nat),
    en ≤ (xdInner S optEnd k arr target en).2.2 + k
  | 0, _, _, _ => by simp [xdInner]
  | k+1, arr, target, en => by
    simp only [xdInner]
    split
    · have := xdInner_en_ge S optEnd k (arr.swapIfInBounds target (en - 1)) (optEnd + k) (en - 1); omega
    · have := xdInner_en_ge S optEnd k arr target en; omega

theorem xdLoop_ge (S : Nat) : ∀ (f : Nat) (arr : Array VEntry) (optEnd en : Nat), optEnd ≤ en →
    optEnd ≤ (xdLoop S f arr optEnd en).2
  | 0, _, _, _, h => by simpa [xdLoop] using h
  | f+1, arr, optEnd, en, h => by
    simp only [xdLoop]
    split
    · split
      · exact xdLoop_ge S f arr optEnd (en - 1) (by omega)
      · have h1 := xdInner_en_ge S optEnd (en - 1 - optEnd) arr (en - 1) en
        have := xdLoop_ge S f ((xdInner S optEnd (en - 1 - optEnd) arr (en - 1) en).1.swapIfInBounds
          (xdInner S optEnd (en - 1 - optEnd) arr (en - 1) en).2.1 optEnd) (optEnd + 1)
          (xdInner S optEnd (en - 1 - optEnd) arr (en - 1) en).2.2 (by omega)
        omega
    · exact h

theorem extractDominatedArr_pos (S : Nat) (arr : Array VEntry) (en : Nat) (h : 1 ≤ en) :
    1 ≤ (extractDominatedArr S arr en).2 := by
  unfold extractDominatedArr
  split
  · exact h
  · obtain ⟨f, rfl⟩ : ∃ f, en = f + 1 := ⟨en - 1, by omega⟩
    simp only [xdLoop]
    rw [if_pos (by omega)]
    have hnd : ((List.range 0).any fun i => dominates S (at' arr i) (at' arr (f + 1 - 1))) = false := by simp
    rw [hnd]
    simp only [Bool.false_eq_true, if_false]
    have h1 := xdInner_en_ge S 0 (f + 1 - 1 - 0) arr (f + 1 - 1) (f + 1)
    have := xdLoop_ge S f ((xdInner S 0 (f + 1 - 1 - 0) arr (f + 1 - 1) (f + 1)).1.swapIfInBounds
      (xdInner S 0 (f + 1 - 1 - 0) arr (f + 1 - 1) (f + 1)).2.1 0) (0 + 1)
      (xdInner S 0 (f + 1 - 1 - 0) arr (f + 1 - 1) (f + 1)).2.2 (by omega)
    omega

theorem extractDominated_ne_nil (S : Nat) (l : VList) (hne : l ≠ []) : extractDominated S l ≠ [] := by
  have hpos : 1 ≤ l.length := List.length_pos_iff.mpr hne
  have h1 := extractDominatedArr_pos S l.toArray l.length hpos
  have h2 := (extractDominatedArr_perm S l.toArray l.length).size_eq
  unfold extractDominated
  intro hnil
  have := congrArg List.length hnil
  simp only [List.length_take, List.length_nil, Array.length_toList] at this
  simp at h2
  omega

/-! ## PBVI's final selection keeps whole entries and at least one -/

theorem extractBestLoop_perm (S : Nat) : ∀ (bs : List (Nat → Rat)) (arr : Array VEntry) (bound : Nat),
    (extractBestLoop S bs arr bound).1.Perm arr
  | [], arr, _ => by simp [extractBestLoop]
  | b :: bs, arr, bound => by
    simp only [extractBestLoop]
    split
    · exact (extractBestLoop_perm S bs _ _).trans (swapIfInBounds_perm _ _ _)
    · exact extractBestLoop_perm S bs _ _

theorem extractBestLoop_ge (S : Nat) : ∀ (bs : List (Nat → Rat)) (arr : Array VEntry) (bound : Nat),
    bound ≤ (extractBestLoop S bs arr bound).2
  | [], _, _ => by simp [extractBestLoop]
  | b :: bs, arr, bound => by
    simp only [extractBestLoop]
    split
    · have := extractBestLoop_ge S bs (arr.swapIfInBounds (bestAtPoint S b arr.toList).1 bound) (bound + 1); omega
    · exact extractBestLoop_ge S bs arr bound

theorem pbviSelect_sub (S : Nat) (bs : List (Nat → Rat)) (w : VList) (e : VEntry) (h : e ∈ pbviSelect S bs w) : e ∈ w := by
  obtain ⟨rest, hp⟩ := take_sub_of_perm (extractBestLoop_perm S bs w.toArray 0) (extractBestLoop S bs w.toArray 0).2
  exact hp.mem_iff.mp (List.mem_append_left _ h)

theorem pbviSelect_ne_nil (S : Nat) (bs : List (Nat → Rat)) (w : VList) (hb : bs ≠ []) (hw : w ≠ []) :
    pbviSelect S bs w ≠ [] := by
  cases bs with
  | nil => exact absurd rfl hb
  | cons b bs =>
    have hge : 1 ≤ (extractBestLoop S (b :: bs) w.toArray 0).2 := by
      simp only [extractBestLoop]
      rw [if_pos (Nat.zero_le _)]
      exact extractBestLoop_ge S bs _ 1
    have hsz := (extractBestLoop_perm S (b :: bs) w.toArray 0).size_eq
    have hpos : 1 ≤ w.length := List.length_pos_iff.mpr hw
    unfold pbviSelect
    intro hnil
    have := congrArg List.length hnil
    simp only [List.length_take, List.length_nil, Array.length_toList] at this
    simp at hsz
    omega

/-! ## PBVI builds point-based value functions -/

theorem pbviRun_pointBased {m : Pomdp} (beliefs : List (Nat → Rat)) (hb : beliefs ≠ []) (hA : 0 < m.A) :
    ∀ h, PointBasedVF m (pbviRun m beliefs h)
  | 0 => PointBasedVF.base _ (by simp)
  | h+1 => by
    have ih := pbviRun_pointBased beliefs hb hA h
    simp only [pbviRun]
    apply PointBasedVF.step _ _ ih
    · -- non-empty
      apply pbviSelect_ne_nil _ _ _ hb
      have h0 : pbviAction m beliefs (vlist (pbviRun m beliefs h) ((pbviRun m beliefs h).length - 1)) 0 ≠ [] := by
        unfold pbviAction
        apply extractDominated_ne_nil
        intro hnil
        have := congrArg List.length hnil
        simp only [List.length_map, List.length_nil] at this
        exact hb (List.length_eq_zero_iff.mp this)
      obtain ⟨e, he⟩ := List.exists_mem_of_ne_nil _ h0
      intro hnil
      have : e ∈ (List.range m.A).flatMap (pbviAction m beliefs (vlist (pbviRun m beliefs h) ((pbviRun m beliefs h).length - 1))) :=
        List.mem_flatMap.mpr ⟨0, List.mem_range.mpr hA, he⟩
      rw [hnil] at this
      simp at this
    · intro e he
      have h1 := pbviSelect_sub _ _ _ _ he
      obtain ⟨a, ha, hea⟩ := List.mem_flatMap.mp h1
      unfold pbviAction at hea
      have h2 := mem_of_mem_extractDominated _ _ _ hea
      obtain ⟨b, _, rfl⟩ := List.mem_map.mp h2
      exact ⟨b, a, List.mem_range.mp ha, rfl⟩

/-- **pbvi_consistent.**  ∀ belief list ≠ ∅, ∀ POMDP with A, O ≥ 1, ∀ horizon: the modelled PBVI returns a
    `Consistent` value function. -/
theorem pbvi_consistent {m : Pomdp} (beliefs : List (Nat → Rat)) (hb : beliefs ≠ []) (hA : 0 < m.A) (hO : 0 < m.O)
    (h : Nat) : Consistent m (pbviRun m beliefs h) :=
  pointBased_consistent hO (pbviRun_pointBased beliefs hb hA h)

/-! ## the all-actions point backup (PERSEUS, LinearSupport) returns one of the per-action backups -/

theorem crossSumBestAtBeliefAll_mem (S : Nat) (b : Nat → Rat) (rows : Nat → List VList) (A : Nat) (hA : 0 < A) :
    ∃ a, a < A ∧ crossSumBestAtBeliefAll S b rows A = crossSumBestAtBeliefRow S b (rows a) a := by
  unfold crossSumBestAtBeliefAll
  simp only []
  have key : ∀ (l : List Nat) (acc : VEntry × Rat), (∀ a ∈ l, a < A) →
      (∃ a, a < A ∧ acc.1 = crossSumBestAtBeliefRow S b (rows a) a) →
      ∃ a, a < A ∧ (l.foldl (fun (acc : VEntry × Rat) a =>
        if acc.2 < dot S b (val (crossSumBestAtBeliefRow S b (rows a) a))
        then (crossSumBestAtBeliefRow S b (rows a) a, dot S b (val (crossSumBestAtBeliefRow S b (rows a) a))) else acc) acc).1 =
        crossSumBestAtBeliefRow S b (rows a) a := by
    intro l
    induction l with
    | nil => intro acc _ h; simpa using h
    | cons x xs ih =>
      intro acc hl h
      simp only [List.foldl_cons]
      apply ih _ (fun a ha => hl a (List.mem_cons_of_mem _ ha))
      split
      · exact ⟨x, hl x (List.mem_cons_self ..), rfl⟩
      · exact h
  apply key
  · intro a ha
    have := List.mem_range'_1.mp ha
    omega
  · exact ⟨0, hA, rfl⟩

end AITB.Plan
