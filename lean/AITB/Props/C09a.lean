/-
  C09 part a — sums, counts, row validity, and the dense sampler (`sampleProbability`) used by
  PolicyWrapper / WoLF / PGA-APP / LRP / softmax.
-/
import AITB.Model.Policies
import Mathlib.Algebra.Order.Field.Rat
import Mathlib.Algebra.BigOperators.Ring.Finset
import Mathlib.Algebra.Order.BigOperators.Group.Finset
import Mathlib.Tactic.Ring
import Mathlib.Tactic.Linarith
import Mathlib.Tactic.FieldSimp
import Mathlib.Tactic.Positivity
import Mathlib.Tactic.NormNum

namespace AITB.Pol
open Finset

/-- a row of a policy table is a probability distribution over the first `n` actions -/
def RowValid (n : Nat) (p : Nat → Rat) : Prop := (∀ i, i < n → 0 ≤ p i) ∧ sumTo n p = 1

theorem sumTo_eq (n : Nat) (f : Nat → Rat) : sumTo n f = ∑ i ∈ range n, f i := by
  induction n with
  | zero => simp [sumTo]
  | succ n ih => rw [sumTo, ih, Finset.sum_range_succ]

theorem sumTo_congr {n : Nat} {f g : Nat → Rat} (h : ∀ i, i < n → f i = g i) : sumTo n f = sumTo n g := by
  rw [sumTo_eq, sumTo_eq]; exact Finset.sum_congr rfl (fun i hi => h i (Finset.mem_range.mp hi))

theorem sumTo_add (n : Nat) (f g : Nat → Rat) : sumTo n (fun i => f i + g i) = sumTo n f + sumTo n g := by
  simp only [sumTo_eq]; exact Finset.sum_add_distrib

theorem sumTo_sub (n : Nat) (f g : Nat → Rat) : sumTo n (fun i => f i - g i) = sumTo n f - sumTo n g := by
  simp only [sumTo_eq]; exact Finset.sum_sub_distrib f g

theorem sumTo_mul_left (n : Nat) (c : Rat) (f : Nat → Rat) : sumTo n (fun i => c * f i) = c * sumTo n f := by
  simp only [sumTo_eq]; exact (Finset.mul_sum _ _ _).symm

theorem sumTo_mul_right (n : Nat) (c : Rat) (f : Nat → Rat) : sumTo n (fun i => f i * c) = sumTo n f * c := by
  simp only [sumTo_eq]; exact (Finset.sum_mul _ _ _).symm

theorem sumTo_div (n : Nat) (c : Rat) (f : Nat → Rat) : sumTo n (fun i => f i / c) = sumTo n f / c := by
  have : (fun i => f i / c) = fun i => f i * c⁻¹ := by funext i; rw [div_eq_mul_inv]
  rw [this, sumTo_mul_right, div_eq_mul_inv]

theorem sumTo_const (n : Nat) (c : Rat) : sumTo n (fun _ => c) = (n : Rat) * c := by
  simp [sumTo_eq]

theorem sumTo_nonneg {n : Nat} {f : Nat → Rat} (h : ∀ i, i < n → 0 ≤ f i) : 0 ≤ sumTo n f := by
  rw [sumTo_eq]; exact Finset.sum_nonneg (fun i hi => h i (Finset.mem_range.mp hi))

theorem sumTo_le {n : Nat} {f g : Nat → Rat} (h : ∀ i, i < n → f i ≤ g i) : sumTo n f ≤ sumTo n g := by
  rw [sumTo_eq, sumTo_eq]; exact Finset.sum_le_sum (fun i hi => h i (Finset.mem_range.mp hi))

theorem sumTo_pos {n : Nat} {f : Nat → Rat} (h : ∀ i, i < n → 0 ≤ f i) {k : Nat} (hk : k < n) (hpos : 0 < f k) :
    0 < sumTo n f := by
  rw [sumTo_eq]
  exact Finset.sum_pos' (fun i hi => h i (Finset.mem_range.mp hi)) ⟨k, Finset.mem_range.mpr hk, hpos⟩

theorem single_le_sumTo {n : Nat} {f : Nat → Rat} (h : ∀ i, i < n → 0 ≤ f i) {k : Nat} (hk : k < n) : f k ≤ sumTo n f := by
  rw [sumTo_eq]
  exact Finset.single_le_sum (f := f) (fun i hi => h i (Finset.mem_range.mp hi)) (Finset.mem_range.mpr hk)

/-- one index carries `x`, the rest `g` -/
theorem sumTo_ite_eq {n : Nat} (act : Nat) (hact : act < n) (x : Rat) :
    sumTo n (fun i => if i = act then x else 0) = x := by
  rw [sumTo_eq, Finset.sum_ite_eq' (range n) act (fun _ => x)]
  simp [hact]

theorem sumTo_update {n : Nat} (act : Nat) (hact : act < n) (F G : Nat → Rat) :
    sumTo n (fun i => if i = act then F i else G i) = sumTo n G + (F act - G act) := by
  have h : ∀ i, i < n → (if i = act then F i else G i) = G i + (if i = act then F act - G act else 0) := by
    intro i _; by_cases hi : i = act <;> simp [hi]
  rw [sumTo_congr h, sumTo_add, sumTo_ite_eq act hact]

theorem countTo_le (p : Nat → Bool) (n : Nat) : countTo p n ≤ n := by
  induction n with
  | zero => simp [countTo]
  | succ n ih => rw [countTo]; split <;> omega

theorem sumTo_indicator (n : Nat) (p : Nat → Bool) (c : Rat) :
    sumTo n (fun i => if p i then c else 0) = (countTo p n : Rat) * c := by
  induction n with
  | zero => simp [sumTo, countTo]
  | succ n ih =>
    rw [sumTo, ih, countTo]
    by_cases h : p n <;> simp [h] <;> ring

theorem countTo_pos {p : Nat → Bool} {n k : Nat} (hk : k < n) (hp : p k = true) : 0 < countTo p n := by
  induction n with
  | zero => omega
  | succ n ih =>
    rw [countTo]
    by_cases h : k = n
    · subst h; simp [hp]
    · have := ih (by omega); omega

theorem countTo_congr {p r : Nat → Bool} {n : Nat} (h : ∀ i, i < n → p i = r i) : countTo p n = countTo r n := by
  induction n with
  | zero => rfl
  | succ n ih => rw [countTo, countTo, ih (fun i hi => h i (by omega)), h n (by omega)]

theorem countTo_eq_filter_length (p : Nat → Bool) (n : Nat) : countTo p n = ((List.range n).filter p).length := by
  induction n with
  | zero => rfl
  | succ n ih =>
    rw [countTo, List.range_succ, List.filter_append, List.length_append, ih]
    by_cases h : p n <;> simp [h]

theorem absQ_nonneg (x : Rat) : 0 ≤ absQ x := by
  unfold absQ; split <;> linarith

theorem absQ_zero : absQ 0 = 0 := by simp [absQ]

theorem tolS_pos : 0 < tolS := by unfold tolS AITB.Gen.equalToleranceSmall; norm_num
theorem tolG_pos : 0 < tolG := by unfold tolG AITB.Gen.equalToleranceGeneral; norm_num

theorem ceS_refl (x : Rat) : ceS x x = true := by
  simp [ceS, absQ_zero, le_of_lt tolS_pos]

theorem ceG_refl (x : Rat) : ceG x x = true := by simp [ceG, ceS_refl]

theorem thaw_freezeL (n : Nat) (f : Nat → Rat) {i : Nat} (hi : i < n) : thaw (freezeL n f) i = f i := by
  simp [thaw, freezeL, List.getD, hi]

/-! ### the dense sampler -/

/-- where the scan stops: `u` lies in the half-open interval of cumulative sums belonging to the returned index -/
theorem scanOff_some (row : Nat → Rat) : ∀ (rem off : Nat) (u : Rat) (i : Nat), 0 ≤ u →
    scanOff row rem off u = some i →
      off ≤ i ∧ i < off + rem ∧ sumTo i row - sumTo off row ≤ u ∧ u < sumTo (i + 1) row - sumTo off row := by
  intro rem
  induction rem with
  | zero => intro off u i _ h; simp [scanOff] at h
  | succ r ih =>
    intro off u i hu0 h
    rw [scanOff] at h
    by_cases hu : u < row off
    · simp [hu] at h; subst h
      refine ⟨le_refl _, by omega, ?_, ?_⟩
      · simpa using hu0
      · rw [sumTo]; linarith
    · simp [hu] at h
      obtain ⟨h1, h2, h3, h4⟩ := ih (off + 1) (u - row off) i (by linarith [not_lt.mp hu]) h
      have e : sumTo (off + 1) row = sumTo off row + row off := rfl
      refine ⟨by omega, by omega, ?_, ?_⟩
      · rw [e] at h3; linarith
      · rw [e] at h4; linarith

theorem scanOff_none (row : Nat → Rat) : ∀ (rem off : Nat) (u : Rat), 0 ≤ u →
    scanOff row rem off u = none → sumTo (off + rem) row - sumTo off row ≤ u := by
  intro rem
  induction rem with
  | zero => intro off u hu0 _; simpa using hu0
  | succ r ih =>
    intro off u hu0 h
    rw [scanOff] at h
    by_cases hu : u < row off
    · simp [hu] at h
    · simp [hu] at h
      have := ih (off + 1) (u - row off) (by linarith [not_lt.mp hu]) h
      have e1 : sumTo (off + 1) row = sumTo off row + row off := rfl
      have e : off + 1 + r = off + (r + 1) := by omega
      rw [e, e1] at this; linarith

/-- **sample_in_range**: whatever the row and the draw, the returned index is a legal action -/
theorem sampleRow_lt (row : Nat → Rat) (n : Nat) (hn : 0 < n) (u : Rat) : sampleRow row n u < n := by
  unfold sampleRow
  have key : ∀ (rem off : Nat) (u : Rat) (i : Nat), scanOff row rem off u = some i → i < off + rem := by
    intro rem
    induction rem with
    | zero => intro off u i h; simp [scanOff] at h
    | succ r ih =>
      intro off u i h
      rw [scanOff] at h
      by_cases hu : u < row off
      · simp [hu] at h; omega
      · simp [hu] at h; have := ih _ _ _ h; omega
  cases h : scanOff row n 0 u with
  | none => simp; omega
  | some i => simpa using key n 0 u i h

theorem cum_mono {n : Nat} {p : Nat → Rat} (hp : ∀ i, i < n → 0 ≤ p i) : ∀ {i j : Nat}, i ≤ j → j ≤ n → sumTo i p ≤ sumTo j p := by
  intro i j hij hj
  induction j with
  | zero => have : i = 0 := by omega
            subst this; exact le_refl _
  | succ j ih =>
    by_cases h : i = j + 1
    · subst h; exact le_refl _
    · have := ih (by omega) (by omega)
      rw [sumTo]; linarith [hp j (by omega)]

/-- **sample_interval** (advertised frequencies): for a valid row and `u ∈ [0,1)` the sampled action `i` is the one whose
    cumulative interval `[c_i, c_{i+1})` contains `u`; in particular it has positive probability. The interval has length `p i`. -/
theorem sampleRow_interval {n : Nat} {p : Nat → Rat} (hp : RowValid n p) {u : Rat} (hu0 : 0 ≤ u) (hu1 : u < 1) :
    sampleRow p n u < n ∧ sumTo (sampleRow p n u) p ≤ u ∧ u < sumTo (sampleRow p n u + 1) p ∧ 0 < p (sampleRow p n u) := by
  unfold sampleRow
  cases h : scanOff p n 0 u with
  | none =>
    have := scanOff_none p n 0 u hu0 h
    simp [sumTo] at this
    rw [hp.2] at this; linarith
  | some k =>
    obtain ⟨_, h2, h3, h4⟩ := scanOff_some p n 0 u k hu0 h
    simp [sumTo] at h3 h4
    simp only [Option.getD_some]
    have e : sumTo (k + 1) p = sumTo k p + p k := rfl
    refine ⟨by omega, h3, by rw [e]; exact h4, by linarith⟩

/-- converse: every `u` of the interval of `i` is mapped to `i` — so the set of draws mapped to `i` is exactly `[c_i, c_{i+1})`,
    of length `p i` -/
theorem sampleRow_eq_iff {n : Nat} {p : Nat → Rat} (hp : RowValid n p) {u : Rat} (hu0 : 0 ≤ u) (hu1 : u < 1) (i : Nat) (hi : i < n) :
    sampleRow p n u = i ↔ (sumTo i p ≤ u ∧ u < sumTo (i + 1) p) := by
  obtain ⟨hj, h1, h2, _⟩ := sampleRow_interval hp hu0 hu1
  constructor
  · intro h; rw [h] at h1 h2; exact ⟨h1, h2⟩
  · rintro ⟨g1, g2⟩
    by_contra hne
    rcases Nat.lt_or_gt_of_ne hne with hlt | hgt
    · have := cum_mono hp.1 (i := sampleRow p n u + 1) (j := i) (by omega) (by omega); linarith
    · have := cum_mono hp.1 (i := i + 1) (j := sampleRow p n u) (by omega) (by omega); linarith

example : RowValid 3 (fun i => if i = 0 then 1/4 else if i = 1 then 0 else 3/4) := by
  constructor
  · intro i _; dsimp only; split_ifs <;> norm_num
  · norm_num [sumTo]

end AITB.Pol
