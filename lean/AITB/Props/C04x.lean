/-
  AITB.Props.C04x — concrete instances for C04: the hypotheses of the theorems are satisfiable by a non-trivial
  value function; QMDP's output is not a plan (known finding); the Projecter's tolerance cut is visible.
-/
import AITB.Props.C04
import Mathlib.Tactic.NormNum

namespace AITB.Plan

/-! ## concrete instances: the hypotheses are satisfiable; QMDP is not a plan; the tolerance cut matters -/

/-- 2-state chain, one action, one observation, γ = 1/2, R = (0, 4): s0 → s1 → s1 -/
def chain : Pomdp :=
  { S := 2, A := 1, O := 1, disc := 1/2,
    T := fun _ _ s1 => if s1 = 1 then 1 else 0,
    R := fun s _ => if s = 1 then 4 else 0,
    Ob := fun _ _ _ => 1 }

/-- its exact 2-horizon value function (what IncrementalPruning returns) -/
def chainVF : VF := [[⟨[0, 0], 0, []⟩], [⟨[0, 4], 0, [0]⟩], [⟨[2, 6], 0, [0]⟩]]

theorem r1 : List.range 1 = [0] := rfl
theorem r2 : List.range 2 = [0, 1] := rfl

/-- TEST (evaluation on literals): `Consistent` is satisfiable by a non-trivial value function -/
theorem chainVF_consistent : Consistent chain chainVF := ((consistentB_iff chain chainVF).mp (by
  norm_num [consistentB, consistentFrom, levelB, entryShapeB, entryValsB, eqQ, oneStep, possible, differentSmall0,
    sumTo, chain, chainVF, val, link, entryAt, r1, r2, absQ, Gen.equalToleranceSmall])).2

theorem chain_zeroBelow : ZeroBelow chain := by
  intro a o ha ho hp
  have ho0 : o = 0 := by simp [chain] at ho; omega
  subst ho0
  norm_num [possible, differentSmall0, chain, r2, absQ, Gen.equalToleranceSmall] at hp

/-- TEST: the hypotheses of `links_consistent_exec` (and of its corollaries) hold for the chain; its conclusion at
    horizon 2 from the uniform belief: (2 + 6)/2 = 4 -/
example : execReturn chain chainVF 2 0 (fun _ => 1/2) = 4 := by
  rw [links_consistent_exec (consistent_exact_of_zeroBelow chain_zeroBelow chainVF_consistent) 2 0 _ (by decide) (by decide)]
  norm_num [dot, sumTo, val, entry, entryAt, vlist, chainVF, chain]

/-- what `QMDP(horizon 2)` returns on the chain: the 2-step Q-vector, linked to the nil entry -/
def chainQMDP : VF := [[⟨[0, 0], 0, []⟩], fromQFunction 2 1 1 (fun s _ => if s = 1 then 6 else 2)]

/-- **qmdp_not_a_plan** (witness of the known finding, replayed by harness case 0) -/
theorem qmdp_not_a_plan : ¬ Consistent chain chainQMDP := by
  intro h
  have : consistentB eqQ chain chainQMDP = true := (consistentB_iff chain chainQMDP).mpr ⟨by decide, h⟩
  norm_num [consistentB, consistentFrom, levelB, entryShapeB, entryValsB, eqQ, oneStep, possible, differentSmall0,
    sumTo, chain, chainQMDP, fromQFunction, val, link, entryAt, r1, r2, absQ, Gen.equalToleranceSmall] at this

/-- and indeed executing it for its one step from state 0 earns 0, not the promised 2 -/
theorem qmdp_exec_counterexample :
    execReturn chain chainQMDP 1 0 (fun s => if s = 0 then 1 else 0) ≠
      dot 2 (fun s => if s = 0 then 1 else 0) (val (entry chainQMDP 1 0)) := by
  norm_num [execReturn, rewardB, dot, tau, sumTo, chain, chainQMDP, fromQFunction, val, link, entry, entryAt, vlist, r1, r2]

/-- one state, two observations, the second with probability 1e-7 (below the Projecter's 1e-6 cut) -/
def faint : Pomdp :=
  { S := 1, A := 1, O := 2, disc := 1/2,
    T := fun _ _ _ => 1, R := fun _ _ => 1,
    Ob := fun _ _ o => if o = 0 then 1 - 1/10000000 else 1/10000000 }

def faintVF : VF := [[⟨[0], 0, []⟩], [⟨[1], 0, [0, 0]⟩], [⟨[1 + 1/2 * (1 - 1/10000000)], 0, [0, 0]⟩]]

/-- **threshold_gap_counterexample.**  The hypothesis `ZeroBelow` of `links_consistent_exec_thresholded` cannot be
    dropped: this value function is `Consistent` in the code's sense (what the Projecter builds) but its execution
    earns 3/2, not the stored `3/2 - 1/20000000` — the Projecter discards observation mass ≤ 1e-6. -/
theorem threshold_gap_counterexample :
    Consistent faint faintVF ∧
    execReturn faint faintVF 2 0 (fun _ => 1) ≠ dot 1 (fun _ => 1) (val (entry faintVF 2 0)) :=
  ⟨((consistentB_iff faint faintVF).mp (by
    norm_num [consistentB, consistentFrom, levelB, entryShapeB, entryValsB, eqQ, oneStep, possible, differentSmall0,
      sumTo, faint, faintVF, val, link, entryAt, r1, r2, absQ, Gen.equalToleranceSmall])).2, by
    norm_num [execReturn, rewardB, dot, tau, sumTo, faint, faintVF, val, link, entry, entryAt, vlist, r1, r2]⟩

end AITB.Plan
