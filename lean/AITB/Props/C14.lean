/-
  AITB.Props.C14 — "Factored objects mean the same as their flat expansion".
  Property theorems about AITB.Model.Factored. Unbounded: any number of factors, any sizes.
-/
import AITB.Model.Factored

namespace AITB.Factored

/-! ## the loop form of `toIndex` equals the structural one -/

theorem toIndexLoop_eq : ∀ (ds xs : List Nat) (r m : Nat),
    toIndexLoop ds xs r m = r + m * toIndex ds xs
  | [], xs, r, m => by cases xs <;> simp [toIndexLoop, toIndex]
  | d :: ds, [], r, m => by simp [toIndexLoop, toIndex]
  | d :: ds, x :: xs, r, m => by
    simp only [toIndexLoop, toIndex]
    rw [toIndexLoop_eq ds xs]
    rw [Nat.mul_add, Nat.mul_assoc, Nat.add_assoc]

theorem validB_iff : ∀ (ds xs : List Nat), validB ds xs = true ↔ Valid ds xs
  | [], [] => by simp [validB, Valid]
  | [], _ :: _ => by simp [validB, Valid]
  | _ :: _, [] => by simp [validB, Valid]
  | d :: ds, x :: xs => by simp [validB, Valid, validB_iff ds xs]

/-! ## index <-> factors are mutually inverse bijections (C14, first clause) -/

theorem toFactors_valid : ∀ (sp : List Nat) (id : Nat), (∀ d ∈ sp, 0 < d) → Valid sp (toFactors sp id)
  | [], _, _ => trivial
  | d :: ds, id, h => by
    have hd : 0 < d := h d (List.mem_cons_self ..)
    exact ⟨Nat.mod_lt _ hd, toFactors_valid ds (id / d) (fun e he => h e (List.mem_cons_of_mem _ he))⟩

theorem toIndex_toFactors : ∀ (sp : List Nat) (id : Nat), id < space sp → toIndex sp (toFactors sp id) = id
  | [], id, h => by simp [space] at h; simp [toIndex, h]
  | d :: ds, id, h => by
    simp only [toFactors, toIndex, space] at *
    have hd : 0 < d := by
      rcases Nat.eq_zero_or_pos d with h0 | h0
      · subst h0; simp at h
      · exact h0
    have h2 : id / d < space ds := by
      apply Nat.div_lt_of_lt_mul; exact h
    rw [toIndex_toFactors ds (id / d) h2]
    exact Nat.mod_add_div id d

theorem toFactors_toIndex : ∀ (sp xs : List Nat), Valid sp xs → toFactors sp (toIndex sp xs) = xs
  | [], [], _ => rfl
  | [], _ :: _, h => by simp [Valid] at h
  | _ :: _, [], h => by simp [Valid] at h
  | d :: ds, x :: xs, h => by
    obtain ⟨hx, hv⟩ := h
    simp only [toIndex, toFactors]
    have h1 : (x + d * toIndex ds xs) % d = x := by
      rw [Nat.add_mul_mod_self_left]; exact Nat.mod_eq_of_lt hx
    have h2 : (x + d * toIndex ds xs) / d = toIndex ds xs := by
      rw [Nat.add_mul_div_left _ _ (by omega : 0 < d), Nat.div_eq_of_lt hx, Nat.zero_add]
    rw [h1, h2, toFactors_toIndex ds xs hv]

theorem toIndex_lt : ∀ (sp xs : List Nat), Valid sp xs → toIndex sp xs < space sp
  | [], [], _ => by simp [toIndex, space]
  | [], _ :: _, h => by simp [Valid] at h
  | _ :: _, [], h => by simp [Valid] at h
  | d :: ds, x :: xs, h => by
    obtain ⟨hx, hv⟩ := h
    have ih := toIndex_lt ds xs hv
    simp only [toIndex, space]
    calc x + d * toIndex ds xs < d + d * toIndex ds xs := by omega
      _ = d * (toIndex ds xs + 1) := by rw [Nat.mul_add, Nat.mul_one, Nat.add_comm]
      _ ≤ d * space ds := Nat.mul_le_mul_left d ih

/-- injectivity on valid tuples: two valid tuples with the same index are equal -/
theorem toIndex_inj (sp xs ys : List Nat) (hx : Valid sp xs) (hy : Valid sp ys)
    (h : toIndex sp xs = toIndex sp ys) : xs = ys := by
  rw [← toFactors_toIndex sp xs hx, ← toFactors_toIndex sp ys hy, h]

/-- the C++ loop `toIndex(space, f)` inverts `toFactors` and stays below `factorSpace` -/
theorem toIndexLoop_toFactors (sp : List Nat) (id : Nat) (h : id < space sp) :
    toIndexLoop sp (toFactors sp id) 0 1 = id := by
  rw [toIndexLoop_eq]; simp [toIndex_toFactors sp id h]

theorem toFactors_toIndexLoop (sp xs : List Nat) (h : Valid sp xs) :
    toFactors sp (toIndexLoop sp xs 0 1) = xs ∧ toIndexLoop sp xs 0 1 < space sp := by
  rw [toIndexLoop_eq]; simp [toFactors_toIndex sp xs h, toIndex_lt sp xs h]

/-- partial forms: the same bijection on the sub-space selected by the keys -/
theorem toIndexPartial_toFactorsPartial (keys sp : List Nat) (id : Nat) (h : id < spacePartial keys sp) :
    toIndexPartialPF sp keys (toFactorsPartial keys sp id) = id := by
  unfold toIndexPartialPF toFactorsPartial
  exact toIndexLoop_toFactors _ _ h

theorem toFactorsPartial_toIndexPartial (keys sp vals : List Nat) (h : Valid (sel keys sp) vals) :
    toFactorsPartial keys sp (toIndexPartialPF sp keys vals) = vals
    ∧ toIndexPartialPF sp keys vals < spacePartial keys sp := by
  unfold toIndexPartialPF toFactorsPartial spacePartial
  exact toFactors_toIndexLoop _ _ h

/-! ## PartialFactorsEnumerator visits every joint value exactly once, in index order -/

theorem er_of_lt : ∀ (l : List Nat) (pos skip : Nat), skip < pos → er pos skip l = l
  | [], _, _, _ => rfl
  | x :: xs, pos, skip, h => by
    simp only [er]
    have : pos ≠ skip := by omega
    simp [this, er_of_lt xs (pos+1) skip (by omega)]

/-- one call of `advance()` that stays valid: the enumerated part's index grows by exactly one,
    the tuple stays valid, the skipped slot is untouched -/
theorem adv_some : ∀ (dims vals w : List Nat) (pos skip : Nat), Valid dims vals →
    adv pos skip dims vals = some w →
    Valid dims w ∧ toIndex (er pos skip dims) (er pos skip w) = toIndex (er pos skip dims) (er pos skip vals) + 1
      ∧ (∀ i, pos + i = skip → w.getD i 0 = vals.getD i 0)
  | [], [], w, pos, skip, _, h => by simp [adv] at h
  | [], _ :: _, _, _, _, hv, _ => by simp [Valid] at hv
  | _ :: _, [], _, _, _, hv, _ => by simp [Valid] at hv
  | d :: ds, v :: vs, w, pos, skip, hv, h => by
    obtain ⟨hvd, hvs⟩ := hv
    simp only [adv] at h
    by_cases hp : pos = skip
    · simp only [hp, if_true, Option.map_eq_some_iff] at h
      obtain ⟨w', hw', rfl⟩ := h
      have ih := adv_some ds vs w' (pos+1) skip hvs (by rw [hp]; exact hw')
      obtain ⟨i1, i2, _⟩ := ih
      refine ⟨⟨hvd, i1⟩, ?_, ?_⟩
      · simp only [er, hp, if_true]
        have e1 := er_of_lt ds (pos+1) skip (by omega)
        have e2 := er_of_lt w' (pos+1) skip (by omega)
        have e3 := er_of_lt vs (pos+1) skip (by omega)
        rw [e1, e2, e3] at i2; exact i2
      · intro i hi
        have : i = 0 := by omega
        subst this; simp
    · simp only [hp, if_false] at h
      by_cases hc : v + 1 = d
      · simp only [hc, if_true, Option.map_eq_some_iff] at h
        obtain ⟨w', hw', rfl⟩ := h
        obtain ⟨i1, i2, i3⟩ := adv_some ds vs w' (pos+1) skip hvs hw'
        refine ⟨⟨by omega, i1⟩, ?_, ?_⟩
        · simp only [er, hp, if_false, toIndex]
          rw [i2, Nat.mul_add, Nat.mul_one]; omega
        · intro i hi
          cases i with
          | zero => exact absurd hi (by omega)
          | succ j => simpa using i3 j (by omega)
      · simp only [hc, if_false, Option.some.injEq] at h
        subst h
        refine ⟨⟨by omega, hvs⟩, ?_, ?_⟩
        · simp only [er, hp, if_false, toIndex]; omega
        · intro i hi
          cases i with
          | zero => exact absurd hi (by omega)
          | succ j => simp

/-- `advance()` clears the enumerator exactly when the enumerated part was the last index -/
theorem adv_none : ∀ (dims vals : List Nat) (pos skip : Nat), Valid dims vals →
    adv pos skip dims vals = none →
    toIndex (er pos skip dims) (er pos skip vals) + 1 = space (er pos skip dims)
  | [], [], _, _, _, _ => by simp [er, toIndex, space]
  | [], _ :: _, _, _, hv, _ => by simp [Valid] at hv
  | _ :: _, [], _, _, hv, _ => by simp [Valid] at hv
  | d :: ds, v :: vs, pos, skip, hv, h => by
    obtain ⟨hvd, hvs⟩ := hv
    simp only [adv] at h
    by_cases hp : pos = skip
    · simp only [hp, if_true, Option.map_eq_none_iff] at h
      have ih := adv_none ds vs (pos+1) skip hvs (by rw [hp]; exact h)
      simp only [er, hp, if_true]
      rw [er_of_lt ds (pos+1) skip (by omega), er_of_lt vs (pos+1) skip (by omega)] at ih
      exact ih
    · simp only [hp, if_false] at h
      by_cases hc : v + 1 = d
      · simp only [hc, if_true, Option.map_eq_none_iff] at h
        have ih := adv_none ds vs (pos+1) skip hvs h
        simp only [er, hp, if_false, toIndex, space]
        rw [← ih, Nat.mul_add, Nat.mul_one]; omega
      · simp [hc] at h

theorem valid_er : ∀ (dims vals : List Nat) (pos skip : Nat), Valid dims vals →
    Valid (er pos skip dims) (er pos skip vals)
  | [], [], _, _, _ => by simp [er, Valid]
  | [], _ :: _, _, _, hv => by simp [Valid] at hv
  | _ :: _, [], _, _, hv => by simp [Valid] at hv
  | d :: ds, v :: vs, pos, skip, hv => by
    obtain ⟨h1, h2⟩ := hv
    simp only [er]
    by_cases hp : pos = skip
    · simp [hp, h2]
    · simp only [hp, if_false]; exact ⟨h1, valid_er ds vs (pos+1) skip h2⟩

theorem valid_zeros : ∀ (dims : List Nat), (∀ d ∈ dims, 0 < d) → Valid dims (dims.map (fun _ => 0))
  | [], _ => trivial
  | d :: ds, h => ⟨h d (List.mem_cons_self ..), valid_zeros ds (fun e he => h e (List.mem_cons_of_mem _ he))⟩

theorem toIndex_zeros : ∀ (dims : List Nat) (pos skip : Nat),
    toIndex (er pos skip dims) (er pos skip (dims.map (fun _ => 0))) = 0
  | [], _, _ => by simp [er, toIndex]
  | d :: ds, pos, skip => by
    simp only [List.map, er]
    by_cases hp : pos = skip
    · simp only [hp, if_true]
      have := toIndex_zeros ds (skip+1) skip
      rw [er_of_lt _ _ _ (by omega), er_of_lt _ _ _ (by omega)] at this
      exact this
    · simp [hp, toIndex, toIndex_zeros ds (pos+1) skip]

/-- **enumerator_visits_in_order** — after `k` advances (k below the size reported by `size()`)
    the enumerator is valid, its values form a valid tuple whose enumerated part has index
    exactly `k` (hence, by `toFactors_toIndex`, *is* `toFactors k`), and the skipped slot is 0.
    After `size()` advances it is cleared.  So every joint value is visited exactly once, in
    index order, in every skip mode. -/
theorem enumerator_kth (dims : List Nat) (skip : Nat) (hpos : ∀ d ∈ dims, 0 < d) (hne : dims ≠ []) :
    ∀ k, k < space (er 0 skip dims) →
      ∃ v, advanceN skip dims k = some v ∧ Valid dims v ∧
        toIndex (er 0 skip dims) (er 0 skip v) = k ∧ (skip < dims.length → v.getD skip 0 = 0) := by
  intro k
  induction k with
  | zero =>
    intro _
    refine ⟨dims.map (fun _ => 0), ?_, valid_zeros dims hpos, toIndex_zeros dims 0 skip, ?_⟩
    · cases dims with
      | nil => exact absurd rfl hne
      | cons d ds => simp [advanceN]
    · intro _; cases h : dims[skip]? <;> simp [List.getD, h]
  | succ k ih =>
    intro hk
    obtain ⟨v, hv, hval, hidx, hskip⟩ := ih (by omega)
    simp only [advanceN, hv, advance]
    cases hadv : adv 0 skip dims v with
    | none =>
      have := adv_none dims v 0 skip hval hadv
      omega
    | some w =>
      obtain ⟨w1, w2, w3⟩ := adv_some dims v w 0 skip hval hadv
      refine ⟨w, rfl, w1, by omega, ?_⟩
      intro hs
      rw [w3 skip (by omega)]; exact hskip hs

theorem enumerator_ends (dims : List Nat) (skip : Nat) (hpos : ∀ d ∈ dims, 0 < d) (hne : dims ≠ []) :
    advanceN skip dims (space (er 0 skip dims)) = none := by
  have hsp : 0 < space (er 0 skip dims) := by
    have : ∀ l : List Nat, (∀ d ∈ l, 0 < d) → 0 < space l := by
      intro l; induction l with
      | nil => intro _; simp [space]
      | cons a t ih => intro h; simp only [space]; exact Nat.mul_pos (h a (List.mem_cons_self ..)) (ih (fun e he => h e (List.mem_cons_of_mem _ he)))
    apply this
    have : ∀ (l : List Nat) (pos : Nat), (∀ d ∈ l, 0 < d) → ∀ d ∈ er pos skip l, 0 < d := by
      intro l; induction l with
      | nil => intro _ _ d hd; simp [er] at hd
      | cons a t ih =>
        intro pos h d hd
        simp only [er] at hd
        by_cases hp : pos = skip
        · simp only [hp, if_true] at hd; exact h d (List.mem_cons_of_mem _ hd)
        · simp only [hp, if_false, List.mem_cons] at hd
          rcases hd with rfl | hd
          · exact h _ (List.mem_cons_self ..)
          · exact ih (pos+1) (fun e he => h e (List.mem_cons_of_mem _ he)) d hd
    exact this dims 0 hpos
  obtain ⟨k, hk⟩ : ∃ k, space (er 0 skip dims) = k + 1 := ⟨_, (Nat.succ_pred_eq_of_pos hsp).symm⟩
  rw [hk]
  obtain ⟨v, hv, hval, hidx, _⟩ := enumerator_kth dims skip hpos hne k (by omega)
  simp only [advanceN, hv, advance]
  cases hadv : adv 0 skip dims v with
  | none => rfl
  | some w =>
    obtain ⟨w1, w2, _⟩ := adv_some dims v w 0 skip hval hadv
    have := toIndex_lt _ _ (valid_er dims w 0 skip w1)
    omega

/-- the k-th visited tuple (enumerated part) is literally `toFactors k` -/
theorem enumerator_kth_eq_toFactors (dims : List Nat) (skip : Nat) (hpos : ∀ d ∈ dims, 0 < d) (hne : dims ≠ [])
    (k : Nat) (hk : k < space (er 0 skip dims)) :
    ∃ v, advanceN skip dims k = some v ∧ er 0 skip v = toFactors (er 0 skip dims) k := by
  obtain ⟨v, hv, hval, hidx, _⟩ := enumerator_kth dims skip hpos hne k hk
  refine ⟨v, hv, ?_⟩
  rw [← hidx, toFactors_toIndex _ _ (valid_er dims v 0 skip hval)]

/-! ## non-vacuity: the hypotheses are met by concrete non-trivial inputs -/
example : Valid [3, 1, 2] [2, 0, 1] ∧ toIndexLoop [3, 1, 2] [2, 0, 1] 0 1 = 5 := by
  refine ⟨(validB_iff _ _).mp (by decide), by decide⟩
example : advanceN 1 [2, 3, 2] 3 = some [1, 0, 1] := by decide
example : advanceN 1 [2, 3, 2] 4 = none := by decide

end AITB.Factored
