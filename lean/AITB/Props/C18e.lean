/-
  AITB.Props.C18e — "matrix, row and single-entry forms are equivalent", at the level of the specification
  semantics: a row statement means the same as its entries written one by one, a matrix statement the same as
  its rows written one by one — on top of any earlier statements and below any later ones.
  (Through `parser_refines_spec` the parser inherits the equivalence.)
-/
import AITB.Props.C18c
namespace AITB.Cassandra
variable {fl : Flags}

theorem specHit_append (pre L : List Stmt) (D1 D2 D3 x y z : Nat) :
    specHit (pre ++ L) D1 D2 D3 x y z = (specHit L D1 D2 D3 x y z).or (specHit pre D1 D2 D3 x y z) := by
  simp [specHit, List.reverse_append, List.findSome?_append]

theorem findSome_const {α β} (l : List α) (f : α → Option β) (r : Option β)
    (h : ∀ x ∈ l, f x = none ∨ f x = r) :
    l.findSome? f = if l.any (fun x => (f x).isSome) then r else none := by
  induction l with
  | nil => rfl
  | cons x t ih =>
    have iht := ih (fun y hy => h y (List.mem_cons_of_mem _ hy))
    rcases h x List.mem_cons_self with hx | hx
    · simp [List.findSome?_cons, hx, iht]
    · cases hr : r with
      | none => rw [hr] at hx; simp [List.findSome?_cons, hx, iht, hr]
      | some v => rw [hr] at hx; simp [List.findSome?_cons, hx]

theorem covers_idx (i m z : Nat) : (Sel.idx i).covers m z = (z == i) := rfl

theorem assigns_entry_idx (a d1 : Sel) (i : Nat) (v : XRat) (D1 D2 D3 x y z : Nat) :
    (⟨a, d1, .entry (.idx i) v⟩ : Stmt).assigns D1 D2 D3 x y z =
      if ((a.covers D2 y && d1.covers D1 x) && (z == i)) = true then some v else none := by
  simp only [Stmt.assigns, covers_idx]
  by_cases h1 : (a.covers D2 y && d1.covers D1 x) = true <;> by_cases h2 : (z == i) = true <;> simp [h1, h2]

theorem assigns_row (a d1 : Sel) (vs : List XRat) (D1 D2 D3 x y z : Nat) :
    (⟨a, d1, .row vs⟩ : Stmt).assigns D1 D2 D3 x y z = if (a.covers D2 y && d1.covers D1 x) = true then vs[z]? else none := rfl

theorem assigns_matrix (a : Sel) (rows : List (List XRat)) (D1 D2 D3 x y z : Nat) :
    (⟨a, .all, .matrix rows⟩ : Stmt).assigns D1 D2 D3 x y z =
      if (a.covers D2 y && decide (x < D1)) = true then (rows[x]?).bind (fun r => r[z]?) else none := by
  simp only [Stmt.assigns, covers_all]
  by_cases h : (a.covers D2 y && decide (x < D1)) = true
  · simp only [h, if_true]; cases rows[x]? <;> rfl
  · simp [h]

theorem any_and_const {α} (l : List α) (c : Bool) (q : α → Bool) : l.any (fun p => c && q p) = (c && l.any q) := by
  cases c <;> simp

/-- the entries of a row, one statement per value -/
def rowAsEntries (a d1 : Sel) (vs : List XRat) : List Stmt :=
  (enumFrom 0 vs).map fun p => ⟨a, d1, .entry (.idx p.1) p.2⟩

theorem any_enumFrom_idx {α} (vs : List α) (k z : Nat) :
    (enumFrom k vs).any (fun p => z == p.1) = (decide (k ≤ z) && decide (z < k + vs.length)) := by
  induction vs generalizing k with
  | nil => simp [enumFrom] <;> omega
  | cons v t ih =>
    simp only [enumFrom, List.any_cons, ih (k + 1), List.length_cons]
    by_cases h : z = k
    · subst h; simp
    · have : (z == k) = false := by simpa using h
      simp only [this, Bool.false_or]
      rw [Bool.eq_iff_iff]; simp; omega

theorem specHit_rowAsEntries (a d1 : Sel) (vs : List XRat) (D1 D2 D3 x y z : Nat) :
    specHit (rowAsEntries a d1 vs) D1 D2 D3 x y z = (⟨a, d1, .row vs⟩ : Stmt).assigns D1 D2 D3 x y z := by
  unfold specHit
  rw [findSome_const _ _ ((⟨a, d1, .row vs⟩ : Stmt).assigns D1 D2 D3 x y z)]
  · have hany : ((rowAsEntries a d1 vs).reverse.any fun s => (s.assigns D1 D2 D3 x y z).isSome) =
        ((a.covers D2 y && d1.covers D1 x) && decide (z < vs.length)) := by
      simp only [rowAsEntries, List.any_reverse, List.any_map, Function.comp_def, assigns_entry_idx]
      have : ∀ p : Nat × XRat, (if ((a.covers D2 y && d1.covers D1 x) && (z == p.1)) = true then some p.2 else none).isSome =
          ((a.covers D2 y && d1.covers D1 x) && (z == p.1)) := by
        intro p; cases ((a.covers D2 y && d1.covers D1 x) && (z == p.1)) <;> rfl
      simp only [this, any_and_const, any_enumFrom_idx]
      simp
    rw [hany, assigns_row]
    cases (a.covers D2 y && d1.covers D1 x)
    · simp
    · rcases Nat.lt_or_ge z vs.length with hz | hz
      · simp [hz]
      · have : decide (z < vs.length) = false := by simpa using hz
        simp [this, List.getElem?_eq_none hz]
  · intro s hs
    simp only [List.mem_reverse, rowAsEntries, List.mem_map] at hs
    obtain ⟨⟨i, v⟩, hm, rfl⟩ := hs
    obtain ⟨j, hj, rfl⟩ := (mem_enumFrom vs 0 i v).1 hm
    rw [assigns_entry_idx, assigns_row]
    cases (a.covers D2 y && d1.covers D1 x)
    · left; simp
    · by_cases hzj : z = 0 + j
      · right; subst hzj; simp [hj]
      · left
        have : z ≠ j := by omega
        simp [this]

/-- **row form ≡ single-entry form**: in any context, a row statement and its entries define the same tables -/
theorem row_equiv_entries (pre post : List Stmt) (a d1 : Sel) (vs : List XRat) (D1 D2 D3 x y z : Nat) :
    specAt (pre ++ [⟨a, d1, .row vs⟩] ++ post) D1 D2 D3 x y z =
    specAt (pre ++ rowAsEntries a d1 vs ++ post) D1 D2 D3 x y z := by
  simp only [specAt_eq, specHit_append, specHit_rowAsEntries]
  congr 2
  simp [specHit]

/-- the rows of a matrix, one statement per row -/
def matrixAsRows (a : Sel) (rows : List (List XRat)) : List Stmt :=
  (enumFrom 0 rows).map fun p => ⟨a, .idx p.1, .row p.2⟩

theorem any_enumFrom_row (rows : List (List XRat)) (k x z : Nat) :
    (enumFrom k rows).any (fun p => (x == p.1) && (p.2[z]?).isSome) =
      (decide (k ≤ x) && ((rows[x - k]?).bind (fun r => r[z]?)).isSome) := by
  induction rows generalizing k with
  | nil => simp [enumFrom]
  | cons r t ih =>
    simp only [enumFrom, List.any_cons, ih (k + 1)]
    rcases Nat.lt_trichotomy x k with h | h | h
    · have h1 : (x == k) = false := by simpa using (by omega : x ≠ k)
      have h2 : decide (k + 1 ≤ x) = false := by simpa using (by omega : ¬ k + 1 ≤ x)
      have h3 : decide (k ≤ x) = false := by simpa using (by omega : ¬ k ≤ x)
      simp [h1, h2, h3]
    · subst h
      have h2 : decide (x + 1 ≤ x) = false := by simp
      simp [h2]
    · have h1 : (x == k) = false := by simpa using (by omega : x ≠ k)
      have h2 : decide (k + 1 ≤ x) = true := by simpa using (by omega : k + 1 ≤ x)
      have h3 : decide (k ≤ x) = true := by simpa using (by omega : k ≤ x)
      have h4 : x - k = (x - (k + 1)) + 1 := by omega
      simp [h1, h2, h3, h4]

theorem specHit_matrixAsRows (a : Sel) (rows : List (List XRat)) (D1 D2 D3 x y z : Nat) (hl : rows.length = D1) :
    specHit (matrixAsRows a rows) D1 D2 D3 x y z = (⟨a, .all, .matrix rows⟩ : Stmt).assigns D1 D2 D3 x y z := by
  have hrow : ∀ p : Nat × List XRat, ((⟨a, .idx p.1, .row p.2⟩ : Stmt).assigns D1 D2 D3 x y z) =
      if (a.covers D2 y && (x == p.1)) = true then p.2[z]? else none := by
    intro p; rw [assigns_row, covers_idx]
  unfold specHit
  rw [findSome_const _ _ ((⟨a, .all, .matrix rows⟩ : Stmt).assigns D1 D2 D3 x y z)]
  · have hany : ((matrixAsRows a rows).reverse.any fun s => (s.assigns D1 D2 D3 x y z).isSome) =
        (a.covers D2 y && ((rows[x]?).bind (fun r => r[z]?)).isSome) := by
      simp only [matrixAsRows, List.any_reverse, List.any_map, Function.comp_def, hrow]
      have : ∀ p : Nat × List XRat, (if (a.covers D2 y && (x == p.1)) = true then p.2[z]? else none).isSome =
          (a.covers D2 y && ((x == p.1) && (p.2[z]?).isSome)) := by
        intro p; cases a.covers D2 y <;> cases (x == p.1) <;> simp
      simp only [this, any_and_const, any_enumFrom_row]
      simp
    rw [hany, assigns_matrix]
    cases a.covers D2 y
    · simp
    · rcases Nat.lt_or_ge x D1 with hx | hx
      · simp only [Bool.true_and, hx, decide_true, if_true]
        cases (rows[x]?).bind (fun r => r[z]?) <;> simp
      · have h1 : decide (x < D1) = false := by simpa using hx
        have h2 : rows[x]? = none := List.getElem?_eq_none (by omega)
        simp [h1, h2]
  · intro s hs
    simp only [List.mem_reverse, matrixAsRows, List.mem_map] at hs
    obtain ⟨⟨i, r⟩, hm, rfl⟩ := hs
    obtain ⟨j, hj, rfl⟩ := (mem_enumFrom rows 0 i r).1 hm
    have hjl : j < rows.length := by
      rcases Nat.lt_or_ge j rows.length with h | h
      · exact h
      · rw [List.getElem?_eq_none h] at hj; cases hj
    rw [hrow, assigns_matrix]
    cases a.covers D2 y
    · left; simp
    · by_cases hxj : x = 0 + j
      · right
        have hjD : j < D1 := by omega
        subst hxj
        simp [hjD, hj]
      · left
        have : x ≠ j := by omega
        simp [this]

/-- **matrix form ≡ row form**: in any context, a matrix statement (with its D1 rows) and its rows written as
    separate row statements define the same tables -/
theorem matrix_equiv_rows (pre post : List Stmt) (a : Sel) (rows : List (List XRat)) (D1 D2 D3 x y z : Nat)
    (hl : rows.length = D1) :
    specAt (pre ++ [⟨a, .all, .matrix rows⟩] ++ post) D1 D2 D3 x y z =
    specAt (pre ++ matrixAsRows a rows ++ post) D1 D2 D3 x y z := by
  simp only [specAt_eq, specHit_append, specHit_matrixAsRows a rows D1 D2 D3 x y z hl]
  congr 2
  simp [specHit]

end AITB.Cassandra
