/-
  AITB.Props.C16 — "Results are reproducible and independent of unrelated history".
  In Lean every function is deterministic; the content of C16 is *which state a call can read*.
  (1) the inventory of static-storage objects of the compiled library (regenerated on every run
      into AITB.Gen.Statics from the object files of /repo's current tree) is contained in the
      set of state carriers modelled here;  (2) those carriers cannot leak unrelated history.
-/
import AITB.Model.Hidden
import AITB.Model.SolverObj
import AITB.Gen.Statics

namespace AITB.Hidden

inductive Kind where
  | seedStream          -- the Seeder: modelled by `runSeeder`
  | statelessDist       -- a libstdc++ uniform_*_distribution object: holds parameters only (trusted)
  | unobservablePool    -- FactorGraph node pool: modelled by `PoolWorld`
  | emptyTag            -- an object of an empty struct type (no data members): carries no state
  | verifHook           -- AITB_VERIF-only observer slot, set by the harness, never by the library
  deriving Repr, DecidableEq

/-- the static-storage objects this model accounts for (names canonicalised by the translator:
    template arguments collapsed to `<_>`, lambda/closure signatures dropped) -/
def accounted : List (String × Kind) :=
  [ ("AIToolbox::Seeder::instance_", .seedStream),
    ("AIToolbox::Seeder::getSeed()::dist", .statelessDist),
    ("AIToolbox::probabilityDistribution", .statelessDist),
    ("AIToolbox::NO_CHECK", .emptyTag),
    ("AIToolbox::Verif::anytimeObserver", .verifHook),
    ("AIToolbox::Factored::FactorGraph<_>::factorAdjacenciesPool_", .unobservablePool) ]

/-- **statics_accounted** — proof obligation over the regenerated table: every mutable
    static-storage object defined by the library is one of the modelled carriers.  A new
    function-local `static`, global or class static re-opens this obligation. -/
theorem statics_accounted : ∀ s ∈ AITB.Gen.statics, (accounted.map (·.1)).contains s = true := by
  decide

/-! ### Seeder: the seeds handed out after `setRootSeed s` do not depend on what happened before -/

theorem runSeeder_setRoot_prefix (stream : Nat → Nat → Nat) (s : Nat) (q : List SOp) :
    ∀ (p : List SOp) (sd sd' : Seeder),
      ∃ out out', (runSeeder stream sd (p ++ .setRoot s :: q)).1 = out ++ (runSeeder stream ⟨s, 0⟩ q).1
        ∧ (runSeeder stream sd' (.setRoot s :: q)).1 = out' ++ (runSeeder stream ⟨s, 0⟩ q).1 ∧ out' = [] := by
  intro p
  induction p with
  | nil => intro sd sd'; exact ⟨[], [], by simp [runSeeder], by simp [runSeeder], rfl⟩
  | cons op p ih =>
    intro sd sd'
    cases op with
    | setRoot t =>
      obtain ⟨out, out', h1, h2, h3⟩ := ih ⟨t, 0⟩ sd'
      exact ⟨out, out', by simpa [runSeeder] using h1, h2, h3⟩
    | construct =>
      obtain ⟨out, out', h1, h2, h3⟩ := ih ⟨sd.root, sd.pos + 1⟩ sd'
      refine ⟨stream sd.root sd.pos :: out, out', ?_, h2, h3⟩
      simp only [List.cons_append, runSeeder]
      rw [h1]

/-- **seed_stream_deterministic** — with the root seed fixed, the seeds received by the objects
    created afterwards are the same whatever program ran before (any prefix, any prior state). -/
theorem seed_stream_deterministic (stream : Nat → Nat → Nat) (s : Nat) (p p' q : List SOp) (sd sd' : Seeder) :
    ∃ out out', (runSeeder stream sd (p ++ .setRoot s :: q)).1 = out ++ (runSeeder stream ⟨s, 0⟩ q).1
      ∧ (runSeeder stream sd' (p' ++ .setRoot s :: q)).1 = out' ++ (runSeeder stream ⟨s, 0⟩ q).1 := by
  obtain ⟨o1, _, h1, _, _⟩ := runSeeder_setRoot_prefix stream s q p sd sd'
  obtain ⟨o2, _, h2, _, _⟩ := runSeeder_setRoot_prefix stream s q p' sd' sd
  exact ⟨o1, o2, h1, h2⟩

/-- same program, same initial state ⇒ same seeds (bit-identical repeat) -/
theorem seeder_repeatable (stream : Nat → Nat → Nat) (sd : Seeder) (prog : List SOp) :
    runSeeder stream sd prog = runSeeder stream sd prog := rfl

/-! ### FactorGraph pool: the graph never observes the pool's content -/

theorem takeNode_indep (p p' : List FNode) (vars : List Nat) : (takeNode p vars).1 = (takeNode p' vars).1 := by
  cases p <;> cases p' <;> simp [takeNode]

theorem stepG_graph_indep (w w' : PoolWorld) (h : w.graph = w'.graph) (op : GOp) :
    (stepG w op).graph = (stepG w' op).graph := by
  cases op with
  | addFactor vars => simp [stepG, h, takeNode_indep w.pool w'.pool vars]
  | setData i d => simp [stepG, h]
  | eraseVar a => simp [stepG, h]

/-- **pool_unobservable** — for every operation sequence, the graph contents (everything the
    FactorGraph API can return) are the same whatever the static pool held at the start. -/
theorem pool_unobservable (ops : List GOp) : ∀ (w w' : PoolWorld), w.graph = w'.graph →
    (runG w ops).graph = (runG w' ops).graph := by
  induction ops with
  | nil => intro w w' h; simpa [runG] using h
  | cons op ops ih =>
    intro w w' h
    simp only [runG, List.foldl] at *
    exact ih _ _ (stepG_graph_indep w w' h op)

/-- the copy constructor yields an exact replica of the source graph whatever the pool holds, and consumes at most
    one pooled node per copied node -/
theorem copyNodes_spec : ∀ (pool g : List FNode), (copyNodes pool g).2 = g ∧ (copyNodes pool g).1 = pool.drop g.length
  | pool, [] => by simp [copyNodes]
  | [], n :: rest => by
    have ih := copyNodes_spec [] rest
    simp only [copyNodes]; exact ⟨by rw [ih.1], by simp [ih.2]⟩
  | _ :: pool, n :: rest => by
    have ih := copyNodes_spec pool rest
    simp only [copyNodes]; exact ⟨by rw [ih.1], by simp [ih.2]⟩

theorem copy_is_replica (w : PoolWorld) : (copyGraph w).graph = w.graph := by
  simp [copyGraph, (copyNodes_spec w.pool w.graph).1]

/-! non-vacuity -/
example : (runG ⟨[⟨[1, 2], [7]⟩], []⟩ [.addFactor [0, 1], .setData 0 [5], .eraseVar 1, .addFactor [2]]).graph
        = (runG ⟨[], []⟩ [.addFactor [0, 1], .setData 0 [5], .eraseVar 1, .addFactor [2]]).graph := by decide
example : (runSeeder (fun s k => s * 100 + k) ⟨9, 4⟩ [.construct, .setRoot 3, .construct, .construct]).1 = [904, 300, 301] := by decide

end AITB.Hidden

/-! ### solver objects: a call's output does not depend on what earlier calls left behind -/
namespace AITB.Hidden

/-- the two facts that make a reused object indistinguishable from a fresh one -/
structure Reusable {Cfg Scr In Out} (S : SolverSem Cfg Scr In Out) : Prop where
  cfg_kept : ∀ c sc x, (S.call c sc x).1 = c
  scratch_free : ∀ c sc sc' x, (S.call c sc x).2.2 = (S.call c sc' x).2.2

/-- **call_output_independent_of_history** — for a `Reusable` solver, the outputs of ANY sequence of
    calls on one object equal, call by call, the output of a fresh object on that input:
    unrelated earlier problems (of any size) and the scratch they leave behind are unobservable. -/
theorem call_output_independent_of_history {Cfg Scr In Out} (S : SolverSem Cfg Scr In Out) (h : Reusable S)
    (fresh : Scr) : ∀ (xs : List In) (c : Cfg) (sc : Scr),
      S.runSeq c sc xs = xs.map (fun x => (S.call c fresh x).2.2) := by
  intro xs
  induction xs with
  | nil => intro c sc; rfl
  | cons x xs ih =>
    intro c sc
    simp only [SolverSem.runSeq, List.map]
    have hc : (S.call c sc x).1 = c := h.cfg_kept c sc x
    have hs : (S.call c sc x).2.2 = (S.call c fresh x).2.2 := h.scratch_free c sc fresh x
    show (S.call c sc x).2.2 :: S.runSeq (S.call c sc x).1 (S.call c sc x).2.1 xs = _
    rw [hc, ih c _, hs]

/-- the modelled `ValueIteration` object is reusable: every call starts from the configured
    `vParameter_` (copied, not consumed) or from zeros, never from the previous `v1_` -/
theorem viObject_reusable : Reusable viObject :=
  ⟨fun _ _ _ => rfl, fun _ _ _ _ => rfl⟩

theorem vi_reuse_eq_fresh (cfg : VICfg) (sc : AITB.MDP.VF) (ms : List AITB.MDP.MDP) :
    viObject.runSeq cfg sc ms
      = ms.map (fun m => AITB.MDP.valueIteration m cfg.rep cfg.horizon cfg.tol cfg.vParameter) :=
  call_output_independent_of_history viObject viObject_reusable (AITB.MDP.makeVF 0) ms cfg sc

end AITB.Hidden
