/-
  AITB.Props.C06Learned — the learned / factored models the library derives from experience
  (MaximumLikelihoodModel, SparseMaximumLikelihoodModel, ThompsonModel, CooperativeMaximumLikelihoodModel,
  CooperativeThompsonModel) are model objects too: constructor + setDiscount + sync keep them valid MDPs.
  Rows: C07's model of the sync forms (AITB.Model.Experience, theorems of AITB.Props.C07*); discount: the class's own
  guard from the regenerated table.
-/
import AITB.Props.C06Full
import AITB.Props.C07
import AITB.Props.C07Current

set_option linter.unusedTactic false
set_option linter.unusedVariables false
set_option linter.unusedSimpArgs false

namespace AITB.MS
open AITB AITB.Guard AITB.Exp

/-- OBLIGATION over the regenerated facts: each of the five classes validates the discount in its constructor, its
    setDiscount validates before assigning, and its guard lets through exactly (0,1] among all doubles -/
theorem learned_facts_ok :
    AITB.Gen.Guards.learnedModels.length = 5 ∧
    AITB.Gen.Guards.learnedModels.all (fun x => x.2.2.1 && x.2.2.2 && (learnedGuard x.2.1).discountOK &&
      (learnedGuard x.2.1).discountComplete) = true := by
  decide +kernel

theorem lmSetDiscount_valid (g : GExpr) (hg : g.discountOK = true) (cur d : XRat) (hcur : DiscOK cur) :
    DiscOK (lmSetDiscount true g cur d).1 := by
  simp only [lmSetDiscount, if_true]
  by_cases he : g.eval d = true
  · simpa [he] using hcur
  · simp only [he, Bool.false_eq_true, if_false]
    exact discountOK_sound g hg d (by simpa using he)

theorem lmRun_valid (g : GExpr) (hg : g.discountOK = true) (ds : List XRat) (c : XRat) (hc : DiscOK c) :
    DiscOK (lmRun true g c ds) := by
  induction ds generalizing c with
  | nil => exact hc
  | cons d r ih => exact ih _ (lmSetDiscount_valid g hg c d hc)

/-- discount cell of a learned model: the constructor either rejects or stores a discount in (0,1]; every later
    setDiscount either throws and leaves it unchanged or stores a discount in (0,1] — for every double, nan included -/
theorem learned_discount_valid (g : GExpr) (hg : g.discountOK = true) (d0 : XRat) (c : XRat)
    (hc : lmCtor true g d0 = some c) (ds : List XRat) :
    DiscOK c ∧ DiscOK (lmRun true g c ds) ∧
    ∀ cur d, (lmSetDiscount true g cur d).2 = true → (lmSetDiscount true g cur d).1 = cur := by
  have hc0 : DiscOK c := by
    simp only [lmCtor, Bool.true_and] at hc
    by_cases he : g.eval d0 = true
    · simp [he] at hc
    · simp only [he, Bool.false_eq_true, if_false, Option.some.injEq] at hc
      subst hc; exact discountOK_sound g hg d0 (by simpa using he)
  refine ⟨hc0, lmRun_valid g hg ds c hc0, ?_⟩
  intro cur d h
  simp only [lmSetDiscount, if_true] at h ⊢
  by_cases he : g.eval d = true
  · simp [he]
  · simp [he] at h

/-! ## rows: every synced or default row of the maximum-likelihood family is a distribution -/

theorem ghost_step_wf (w : Nat) (g : Ghost) (op : LOp) (hop : opWF w op = true)
    (hg : (∀ x ∈ g.recs, x.1 < w) ∧ (∀ x ∈ g.snap, x.1 < w)) :
    (∀ x ∈ (g.step op).recs, x.1 < w) ∧ (∀ x ∈ (g.step op).snap, x.1 < w) := by
  obtain ⟨h1, h2⟩ := hg
  cases op with
  | record s1 r =>
      simp only [opWF, decide_eq_true_eq] at hop
      refine ⟨?_, h2⟩
      intro x hx
      simp only [Ghost.step, List.mem_append, List.mem_singleton] at hx
      rcases hx with hx | rfl
      · exact h1 x hx
      · exact hop
  | sync =>
      refine ⟨h1, ?_⟩
      simp only [Ghost.step]
      split <;> assumption
  | syncInc s1 =>
      refine ⟨h1, ?_⟩
      simp only [Ghost.step]
      split <;> assumption
  | reset => exact ⟨by simp [Ghost.step], h2⟩
  | ctor b =>
      cases b
      · exact ⟨h1, by simp [Ghost.step]⟩
      · exact ⟨h1, by simpa [Ghost.step] using h1⟩
  | nop => exact ⟨h1, h2⟩

theorem ghost_run_wf (w : Nat) (h : List LOp) (g : Ghost) (hwf : wfAll w h = true)
    (hg : (∀ x ∈ g.recs, x.1 < w) ∧ (∀ x ∈ g.snap, x.1 < w)) :
    (∀ x ∈ (g.run h).recs, x.1 < w) ∧ (∀ x ∈ (g.run h).snap, x.1 < w) := by
  induction h generalizing g with
  | nil => exact hg
  | cons op r ih =>
      simp only [wfAll, List.all_cons, Bool.and_eq_true] at hwf
      simp only [Ghost.run, List.foldl_cons]
      exact ih (g.step op) (by simpa [wfAll] using hwf.2) (ghost_step_wf w g op hwf.1 hg)

/-- **learned rows are distributions**: for every class of the maximum-likelihood family as the source is now
    (dense, sparse, generic-sparse, cooperative), every table shape, every history of record / sync() / sync(s,a) /
    sync(s,a,s1) / reset() / model (re)construction respecting the documented sync(s,a,s1) precondition, every pair's
    exposed transition row has non-negative entries that sum to exactly one — synced or never visited. -/
theorem learned_rows_are_distributions {cfg : Cfg} (hcur : IsCurrent cfg) (np w : Nat) (dflOf : Nat → Nat)
    (hd : ∀ i, i < np → dflOf i < w) (h : List Exp.Op) (i : Nat) (hi : i < np)
    (hwf : wfAll w (h.map (Exp.Op.project i)) = true)
    (hpre : incPre Ghost.init (h.map (Exp.Op.project i)) = true) :
    ∃ p, ((World.init np w dflOf).run cfg h).pairs[i]? = some p ∧
      (∀ k, k < w → 0 ≤ nthQ p.row k) ∧ sumUpTo (fun k => nthQ p.row k) w = 1 := by
  obtain ⟨_, p, hp, _, h2, h3, _⟩ := mirrors_history_current hcur np w dflOf h i hi hwf hpre
  refine ⟨p, hp, ?_⟩
  by_cases hs : (Ghost.init.run (h.map (Exp.Op.project i))).snap = []
  · obtain ⟨hrow, _⟩ := h3 hs
    rw [hrow]
    constructor
    · intro k hk; rw [nthQ_unit]; split_ifs <;> norm_num
    · rw [sumUpTo_congr _ (fun k => if dflOf i = k then (1 : Rat) else 0) w]
      · rw [sumUpTo_indicator]; simp [hd i hi]
      · intro k hk
        rw [nthQ_unit]
        by_cases e : k = dflOf i
        · subst e; simp [hk]
        · have e' : ¬ dflOf i = k := fun h => e h.symm
          simp [e, e']
  · obtain ⟨hrow, _⟩ := h2 hs
    have hw := (ghost_run_wf w _ Ghost.init hwf (by simp [Ghost.init])).2
    obtain ⟨hnn, hsum⟩ := freq_row_is_distribution w _ hs hw
    constructor
    · intro k hk; rw [hrow k hk]; exact hnn k
    · rw [sumUpTo_congr _ (freqOf (Ghost.init.run (h.map (Exp.Op.project i))).snap) w hrow]; exact hsum

/-- Thompson models: whatever positive gamma draws the engine produced, the exposed row is a distribution
    (C07's `thompson_rows_valid`, in the form used here) -/
theorem learned_thompson_rows (gs : List Rat) (hne : gs ≠ []) (hp : ∀ x ∈ gs, 0 < x) :
    (∀ y ∈ Exp.normalize gs, 0 ≤ y) ∧ Exp.sumQ (Exp.normalize gs) = 1 := by
  obtain ⟨a, b, _⟩ := thompson_rows_valid gs hne hp
  exact ⟨fun y hy => le_of_lt (a y hy), b⟩

/-- **learned_model_valid**: a maximum-likelihood model object (any of the modelled classes) whose constructor accepted
    its discount stays a valid MDP over every history of experience operations and setDiscount calls: discount in
    (0,1] and every exposed row a distribution. -/
theorem learned_model_valid {cfg : Cfg} (hcur : IsCurrent cfg) (g : GExpr) (hg : g.discountOK = true)
    (d0 c : XRat) (hc : lmCtor true g d0 = some c) (ds : List XRat)
    (np w : Nat) (dflOf : Nat → Nat) (hd : ∀ i, i < np → dflOf i < w) (h : List Exp.Op)
    (hwf : ∀ i, i < np → wfAll w (h.map (Exp.Op.project i)) = true)
    (hpre : ∀ i, i < np → incPre Ghost.init (h.map (Exp.Op.project i)) = true) :
    DiscOK (lmRun true g c ds) ∧
    ∀ i, i < np → ∃ p, ((World.init np w dflOf).run cfg h).pairs[i]? = some p ∧
      (∀ k, k < w → 0 ≤ nthQ p.row k) ∧ sumUpTo (fun k => nthQ p.row k) w = 1 :=
  ⟨(learned_discount_valid g hg d0 c hc ds).2.1,
   fun i hi => learned_rows_are_distributions hcur np w dflOf hd h i hi (hwf i hi) (hpre i hi)⟩

end AITB.MS
