/-
  AITB.Props.C12CheckSound — the envelope clause exactly as the driver evaluates it is sound in both directions:
  `ok` proves the removed vector is within `eps` of the kept envelope at EVERY belief, `bad` exhibits a belief where
  it is more than `eps` above every kept vector.  Certificates are arbitrary (untrusted) inputs of the theorem.
-/
import AITB.Props.C12Cert

namespace AITB.C12Check
open AITB.Prune AITB.Interp

theorem ite_bad_ne_ok (c : Prop) [Decidable c] : (if c then Env.bad else Env.undecided) ≠ Env.ok := by
  split <;> simp

theorem ite_bad_eq_bad (c : Prop) [Decidable c] (h : (if c then Env.bad else Env.undecided) = Env.bad) : c := by
  split at h
  · assumption
  · cases h

theorem envelopeClause_ok_sound (S : Nat) (eps : Rat) (kept : List Vec) (r : Vec) (c : Option Cert)
    (hG : ∀ g ∈ kept, g.length = S) (hr : r.length = S) (h : envelopeClause S eps kept r c = .ok) :
    ∀ b, IsBelief S b → ∃ g ∈ kept, dot b r ≤ dot b g + eps := by
  unfold envelopeClause at h
  by_cases hp : pairwiseOK eps kept r = true
  · exact pairwiseOK_sound S eps kept r hG hr hp
  · rw [if_neg hp] at h
    cases c with
    | none =>
      simp only at h
      exact absurd h (ite_bad_ne_ok _)
    | some c =>
      simp only at h
      cases hl : c.lam.bind normalize with
      | none =>
        simp only [hl] at h
        rw [if_neg (by simp)] at h
        exact absurd h (ite_bad_ne_ok _)
      | some l =>
        simp only [hl] at h
        by_cases hf : farkasOK S eps kept l r = true
        · exact farkasOK_sound S eps kept l r hG hr hf
        · rw [if_neg hf] at h
          exact absurd h (ite_bad_ne_ok _)

theorem envelopeClause_bad_sound (S : Nat) (eps : Rat) (kept : List Vec) (r : Vec) (c : Option Cert)
    (h : envelopeClause S eps kept r c = .bad) :
    ∃ b, IsBelief S b ∧ ∀ g ∈ kept, dot b g + eps < dot b r := by
  unfold envelopeClause at h
  by_cases hp : pairwiseOK eps kept r = true
  · rw [if_pos hp] at h; cases h
  · rw [if_neg hp] at h
    cases c with
    | none =>
      simp only at h
      by_cases hv : (probeBeliefs S).any (fun b => violationOK S eps kept b r) = true
      · obtain ⟨b, _, hb⟩ := List.any_eq_true.mp hv
        exact ⟨b, violationOK_sound S eps kept b r hb⟩
      · rw [if_neg hv] at h; cases h
    | some c =>
      simp only at h
      cases hl : c.lam.bind normalize with
      | none =>
        simp only [hl] at h
        rw [if_neg (by simp)] at h
        have hany := ite_bad_eq_bad _ h
        obtain ⟨b, _, hb⟩ := List.any_eq_true.mp hany
        exact ⟨b, violationOK_sound S eps kept b r hb⟩
      | some l =>
        simp only [hl] at h
        by_cases hf : farkasOK S eps kept l r = true
        · rw [if_pos hf] at h; cases h
        · rw [if_neg hf] at h
          have hany := ite_bad_eq_bad _ h
          obtain ⟨b, _, hb⟩ := List.any_eq_true.mp hany
          exact ⟨b, violationOK_sound S eps kept b r hb⟩

/-- the two verdicts exclude each other: a vector cannot be certified enveloped and violating at once -/
theorem envelopeClause_consistent (S : Nat) (eps : Rat) (kept : List Vec) (r : Vec) (c c' : Option Cert)
    (hG : ∀ g ∈ kept, g.length = S) (hr : r.length = S)
    (h1 : envelopeClause S eps kept r c = .ok) : envelopeClause S eps kept r c' ≠ .bad := by
  intro h2
  obtain ⟨b, hb, hv⟩ := envelopeClause_bad_sound S eps kept r c' h2
  obtain ⟨g, hg, hle⟩ := envelopeClause_ok_sound S eps kept r c hG hr h1 b hb
  have := hv g hg
  linarith

/-! ### the "no vector that is nowhere needed" clause, as the driver evaluates it for one kept vector -/

theorem strictNeededOK_sound (n : Nat) (eps : Rat) (G : List Vec) (b k : Vec) (h : strictNeededOK n eps G b k = true) :
    IsBelief n b ∧ ∀ g ∈ G, dot b g + eps < dot b k := by
  unfold strictNeededOK at h
  simp only [Bool.and_eq_true, List.all_eq_true, decide_eq_true_eq] at h
  exact ⟨(isBeliefB_iff n b).mp h.1, h.2⟩

theorem tieAtOK_sound (n : Nat) (G : List Vec) (b k : Vec) (h : tieAtOK n G b k = true) :
    IsBelief n b ∧ (∃ g ∈ G, dot b g = dot b k) ∧ ∀ g ∈ G, dot b g ≤ dot b k := by
  unfold tieAtOK at h
  simp only [Bool.and_eq_true, List.any_eq_true, List.all_eq_true, decide_eq_true_eq, beq_iff_eq] at h
  exact ⟨(isBeliefB_iff n b).mp h.1.1, h.1.2, h.2⟩

/-- what a failing verdict means: `k` is covered everywhere by the other kept vectors (hence nowhere strictly needed beyond
    `epsBad`), AND it is not a near-tie inside the tolerance: either it ties the envelope EXACTLY at some belief, or it is
    below the envelope by at least `tolBig` at every belief -/
theorem needBad_sound (S : Nat) (epsBad tolBig : Rat) (others : List Vec) (k l : Vec) (cands : List Vec)
    (hG : ∀ g ∈ others, g.length = S) (hk : k.length = S) (h : needBad S epsBad tolBig others k l cands = true) :
    (∀ b, IsBelief S b → ∃ g ∈ others, dot b k ≤ dot b g + epsBad) ∧
    ((∃ b, IsBelief S b ∧ (∃ g ∈ others, dot b g = dot b k) ∧ ∀ g ∈ others, dot b g ≤ dot b k) ∨
     (∀ b, IsBelief S b → ∃ g ∈ others, dot b k + tolBig ≤ dot b g)) := by
  unfold needBad at h
  simp only [Bool.and_eq_true, Bool.or_eq_true] at h
  refine ⟨farkasOK_sound S epsBad others l k hG hk h.1, ?_⟩
  rcases h.2 with ht | hu
  · obtain ⟨b, _, hb⟩ := List.any_eq_true.mp ht
    exact Or.inl ⟨b, tieAtOK_sound S others b k hb⟩
  · refine Or.inr (fun b hb => ?_)
    obtain ⟨g, hg, hle⟩ := farkasOK_sound S (-tolBig) others l k hG hk hu b hb
    exact ⟨g, hg, by linarith⟩

/-- `ok`: the kept vector is strictly needed — at some belief it is more than `epsOk` above every other kept vector -/
theorem neededClause_ok_sound (S : Nat) (epsOk epsBad tolBig : Rat) (extra others : List Vec) (k : Vec) (c : Option Cert)
    (h : neededClause S epsOk epsBad tolBig extra others k c = .ok) :
    ∃ b, IsBelief S b ∧ ∀ g ∈ others, dot b g + epsOk < dot b k := by
  unfold neededClause at h
  by_cases hany : (needCands S c ++ extra).any (fun b => strictNeededOK S epsOk others b k) = true
  · obtain ⟨b, _, hb⟩ := List.any_eq_true.mp hany
    exact ⟨b, strictNeededOK_sound S epsOk others b k hb⟩
  · rw [if_neg hany] at h
    cases hl : needLam c with
    | none => simp only [hl] at h; cases h
    | some l =>
      simp only [hl] at h
      split at h
      · cases h
      · split at h <;> cases h

/-- `bad` (= `fail Pruner unneeded_vector_kept`): covered everywhere by the other kept vectors and not a within-tolerance near-tie -/
theorem neededClause_bad_sound (S : Nat) (epsOk epsBad tolBig : Rat) (extra others : List Vec) (k : Vec) (c : Option Cert)
    (hG : ∀ g ∈ others, g.length = S) (hk : k.length = S)
    (h : neededClause S epsOk epsBad tolBig extra others k c = .bad) :
    (∀ b, IsBelief S b → ∃ g ∈ others, dot b k ≤ dot b g + epsBad) ∧
    ((∃ b, IsBelief S b ∧ (∃ g ∈ others, dot b g = dot b k) ∧ ∀ g ∈ others, dot b g ≤ dot b k) ∨
     (∀ b, IsBelief S b → ∃ g ∈ others, dot b k + tolBig ≤ dot b g)) := by
  unfold neededClause at h
  by_cases hany : (needCands S c ++ extra).any (fun b => strictNeededOK S epsOk others b k) = true
  · rw [if_pos hany] at h; cases h
  · rw [if_neg hany] at h
    cases hl : needLam c with
    | none => simp only [hl] at h; cases h
    | some l =>
      simp only [hl] at h
      by_cases hb : needBad S epsBad tolBig others k l (needCands S c ++ extra) = true
      · exact needBad_sound S epsBad tolBig others k l _ hG hk hb
      · rw [if_neg hb] at h
        split at h <;> cases h

/-- `within` (= `skip within_tolerance`): a cover by the others is verified, but neither an exact tie nor a uniform slack -/
theorem neededClause_within_sound (S : Nat) (epsOk epsBad tolBig : Rat) (extra others : List Vec) (k : Vec) (c : Option Cert)
    (hG : ∀ g ∈ others, g.length = S) (hk : k.length = S)
    (h : neededClause S epsOk epsBad tolBig extra others k c = .within) :
    ∀ b, IsBelief S b → ∃ g ∈ others, dot b k ≤ dot b g + epsBad := by
  unfold neededClause at h
  by_cases hany : (needCands S c ++ extra).any (fun b => strictNeededOK S epsOk others b k) = true
  · rw [if_pos hany] at h; cases h
  · rw [if_neg hany] at h
    cases hl : needLam c with
    | none => simp only [hl] at h; cases h
    | some l =>
      simp only [hl] at h
      by_cases hb : needBad S epsBad tolBig others k l (needCands S c ++ extra) = true
      · rw [if_pos hb] at h; cases h
      · rw [if_neg hb] at h
        by_cases hf : farkasOK S epsBad others l k = true
        · exact farkasOK_sound S epsBad others l k hG hk hf
        · rw [if_neg hf] at h; cases h

/-- with `epsBad ≤ epsOk` the verdicts `ok` and `bad` exclude each other, whatever certificates are supplied -/
theorem neededClause_consistent (S : Nat) (epsOk epsBad tolBig : Rat) (hle : epsBad ≤ epsOk) (extra extra' others : List Vec) (k : Vec)
    (c c' : Option Cert) (hG : ∀ g ∈ others, g.length = S) (hk : k.length = S)
    (h1 : neededClause S epsOk epsBad tolBig extra others k c = .ok) :
    neededClause S epsOk epsBad tolBig extra' others k c' ≠ .bad := by
  intro h2
  obtain ⟨b, hb, hv⟩ := neededClause_ok_sound S epsOk epsBad tolBig extra others k c h1
  obtain ⟨g, hg, hle'⟩ := (neededClause_bad_sound S epsOk epsBad tolBig extra' others k c' hG hk h2).1 b hb
  have := hv g hg
  linarith

end AITB.C12Check

