/-
  AITB.Props.C12CheckSound — the envelope clause exactly as the driver evaluates it is sound in both directions:
  `ok` proves the removed vector is within `eps` of the kept envelope at EVERY belief, `bad` exhibits a belief where
  it is more than `eps` above every kept vector.  Certificates are arbitrary (untrusted) inputs of the theorem.
-/
import AITB.Props.C12Cert

namespace AITB.C12Check
open AITB.Prune AITB.Interp

theorem ite_bad_ne_ok (c : Prop) [Decidable c] : (if c then Env.bad else Env.undecided) ≠ Env.ok := by
  split <;> simp

theorem ite_bad_eq_bad (c : Prop) [Decidable c] (h : (if c then Env.bad else Env.undecided) = Env.bad) : c := by
  split at h
  · assumption
  · cases h

theorem envelopeClause_ok_sound (S : Nat) (eps : Rat) (kept : List Vec) (r : Vec) (c : Option Cert)
    (hG : ∀ g ∈ kept, g.length = S) (hr : r.length = S) (h : envelopeClause S eps kept r c = .ok) :
    ∀ b, IsBelief S b → ∃ g ∈ kept, dot b r ≤ dot b g + eps := by
  unfold envelopeClause at h
  by_cases hp : pairwiseOK eps kept r = true
  · exact pairwiseOK_sound S eps kept r hG hr hp
  · rw [if_neg hp] at h
    cases c with
    | none =>
      simp only at h
      exact absurd h (ite_bad_ne_ok _)
    | some c =>
      simp only at h
      cases hl : c.lam.bind normalize with
      | none =>
        simp only [hl] at h
        rw [if_neg (by simp)] at h
        exact absurd h (ite_bad_ne_ok _)
      | some l =>
        simp only [hl] at h
        by_cases hf : farkasOK S eps kept l r = true
        · exact farkasOK_sound S eps kept l r hG hr hf
        · rw [if_neg hf] at h
          exact absurd h (ite_bad_ne_ok _)

theorem envelopeClause_bad_sound (S : Nat) (eps : Rat) (kept : List Vec) (r : Vec) (c : Option Cert)
    (h : envelopeClause S eps kept r c = .bad) :
    ∃ b, IsBelief S b ∧ ∀ g ∈ kept, dot b g + eps < dot b r := by
  unfold envelopeClause at h
  by_cases hp : pairwiseOK eps kept r = true
  · rw [if_pos hp] at h; cases h
  · rw [if_neg hp] at h
    cases c with
    | none =>
      simp only at h
      by_cases hv : (probeBeliefs S).any (fun b => violationOK S eps kept b r) = true
      · obtain ⟨b, _, hb⟩ := List.any_eq_true.mp hv
        exact ⟨b, violationOK_sound S eps kept b r hb⟩
      · rw [if_neg hv] at h; cases h
    | some c =>
      simp only at h
      cases hl : c.lam.bind normalize with
      | none =>
        simp only [hl] at h
        rw [if_neg (by simp)] at h
        have hany := ite_bad_eq_bad _ h
        obtain ⟨b, _, hb⟩ := List.any_eq_true.mp hany
        exact ⟨b, violationOK_sound S eps kept b r hb⟩
      | some l =>
        simp only [hl] at h
        by_cases hf : farkasOK S eps kept l r = true
        · rw [if_pos hf] at h; cases h
        · rw [if_neg hf] at h
          have hany := ite_bad_eq_bad _ h
          obtain ⟨b, _, hb⟩ := List.any_eq_true.mp hany
          exact ⟨b, violationOK_sound S eps kept b r hb⟩

/-- the two verdicts exclude each other: a vector cannot be certified enveloped and violating at once -/
theorem envelopeClause_consistent (S : Nat) (eps : Rat) (kept : List Vec) (r : Vec) (c c' : Option Cert)
    (hG : ∀ g ∈ kept, g.length = S) (hr : r.length = S)
    (h1 : envelopeClause S eps kept r c = .ok) : envelopeClause S eps kept r c' ≠ .bad := by
  intro h2
  obtain ⟨b, hb, hv⟩ := envelopeClause_bad_sound S eps kept r c' h2
  obtain ⟨g, hg, hle⟩ := envelopeClause_ok_sound S eps kept r c hG hr h1 b hb
  have := hv g hg
  linarith

end AITB.C12Check
