/-
  AITB.Props.C20e — FasterTrie: invariant w.r.t. the specification, preserved by insert / erase(id, key);
  filter and size against the specification.  Core Lean only.
-/
import AITB.Props.C20d
namespace AITB.Trie

/-! ### FasterTrie: buckets by first (key, value) -/

theorem bucket_modBucket_eq (keys : List (List Bucket)) (i v : Nat) (g : Bucket → Bucket) (i' v' : Nat) :
    bucket (modBucket keys i v g) i' v' =
      if i = i' ∧ v = v' ∧ i' < keys.length ∧ v' < (keys.getD i' []).length then g (bucket keys i' v') else bucket keys i' v' := by
  simp only [bucket, modBucket, getD_modify]
  by_cases h : i = i' ∧ i' < keys.length
  · rw [if_pos h, getD_modify]
    by_cases h2 : v = v' ∧ v' < (keys.getD i' []).length
    · rw [if_pos h2, if_pos ⟨h.1, h2.1, h.2, h2.2⟩]
    · rw [if_neg h2, if_neg (fun hh => h2 ⟨hh.2.1, hh.2.2.2⟩)]
  · rw [if_neg h, if_neg (fun hh => h ⟨hh.1, hh.2.2.1⟩)]

def ShapeF (F : List Nat) (keys : List (List Bucket)) : Prop :=
  keys.length = F.length ∧ ∀ i, i < F.length → (keys.getD i []).length = F.getD i 0

theorem shapeF_mod {F : List Nat} {keys : List (List Bucket)} (h : ShapeF F keys) (i v : Nat) (g : Bucket → Bucket) :
    ShapeF F (modBucket keys i v g) := by
  refine ⟨by simp [modBucket, h.1], fun i' hi' => ?_⟩
  simp only [modBucket, getD_modify]
  split
  · rw [List.length_modify]; exact h.2 i' hi'
  · exact h.2 i' hi'

structure RIF (t : FT) (es : Spec) : Prop where
  shape : ShapeF t.F t.keys
  mem : ∀ i v e, i < t.F.length → v < t.F.getD i 0 → (e ∈ bucket t.keys i v ↔ e ∈ es ∧ e.2.head? = some (i, v))
  lt : ∀ id e, (id, e) ∈ es → id < t.counter
  asc : (es.map (·.1)).Pairwise (· < ·)
  valid : ∀ id e, (id, e) ∈ es → ValidPF t.F e ∧ e ≠ []
  nodupB : ∀ i v, ((bucket t.keys i v).map (·.1)).Nodup

theorem bucket_new (F : List Nat) (i v : Nat) : bucket (F.map (fun d => List.replicate d ([] : Bucket))) i v = [] := by
  simp only [bucket, List.getD_eq_getElem?_getD, List.getElem?_map]
  cases F[i]? with
  | none => simp
  | some d => simp [List.getElem?_replicate]; split <;> rfl

theorem RIF_new (F : List Nat) : RIF (FT.new F) [] := by
  refine ⟨⟨by simp [FT.new], fun i hi => ?_⟩, ?_, ?_, ?_, ?_, fun i v => by simp [FT.new, bucket_new]⟩
  · have hi' : i < F.length := hi
    simp [FT.new, List.getD_eq_getElem?_getD, List.getElem?_map, List.getElem?_eq_getElem hi']
  · intro i v e _ _; simp [FT.new, bucket_new]
  · intro id e he; cases he
  · simp
  · intro id e he; cases he

theorem RIF_insert {t : FT} {es : Spec} (h : RIF t es) {pf : PF} (hv : ValidPF t.F pf) (hne : pf ≠ []) :
    ∃ t', t.insert pf = some (t', t.counter) ∧ RIF t' (specInsert es t.counter pf) := by
  cases pf with
  | nil => exact absurd rfl hne
  | cons kv rest =>
    obtain ⟨k, v⟩ := kv
    refine ⟨_, rfl, ?_⟩
    have hk := hv.2 (k, v) (List.mem_cons_self ..)
    simp only at hk
    refine ⟨shapeF_mod h.shape _ _ _, ?_, ?_, ?_, ?_, ?_⟩
    rotate_left 4
    · intro i w
      simp only [bucket_modBucket_eq]
      split
      · rename_i hc
        have hi : i < t.F.length := by rw [← h.shape.1]; exact hc.2.2.1
        have hw : w < t.F.getD i 0 := by rw [← h.shape.2 i hi]; exact hc.2.2.2
        simp only [List.map_append, List.map_cons, List.map_nil]
        rw [List.nodup_append]
        refine ⟨h.nodupB i w, by simp, ?_⟩
        intro a ha b hb
        simp only [List.mem_singleton] at hb
        subst hb
        obtain ⟨⟨id, e⟩, hx, rfl⟩ := List.mem_map.mp ha
        have := h.lt id e ((h.mem i w (id, e) hi hw).mp hx).1
        simp only; omega
      · exact h.nodupB i w
    · intro i w e hi hw
      simp only [bucket_modBucket_eq, specInsert, List.mem_append, List.mem_singleton]
      by_cases hc : k = i ∧ v = w
      · obtain ⟨rfl, rfl⟩ := hc
        rw [if_pos ⟨rfl, rfl, by rw [h.shape.1]; exact hi, by rw [h.shape.2 k hi]; exact hw⟩, List.mem_append,
          List.mem_singleton, h.mem k v e hi hw]
        constructor
        · rintro (⟨he, hh⟩ | rfl)
          · exact ⟨Or.inl he, hh⟩
          · exact ⟨Or.inr rfl, rfl⟩
        · rintro ⟨he | rfl, hh⟩
          · exact Or.inl ⟨he, hh⟩
          · exact Or.inr rfl
      · rw [if_neg (fun hh => hc ⟨hh.1, hh.2.1⟩), h.mem i w e hi hw]
        constructor
        · rintro ⟨he, hh⟩; exact ⟨Or.inl he, hh⟩
        · rintro ⟨he | rfl, hh⟩
          · exact ⟨he, hh⟩
          · simp only [List.head?_cons, Option.some.injEq, Prod.mk.injEq] at hh
            exact absurd hh hc
    · intro id e he
      simp only [specInsert, List.mem_append, List.mem_singleton] at he
      rcases he with he | he
      · have := h.lt id e he; show id < t.counter + 1; omega
      · cases he; show t.counter < t.counter + 1; omega
    · simp only [specInsert, List.map_append, List.map_cons, List.map_nil, List.pairwise_append]
      refine ⟨h.asc, by simp, ?_⟩
      intro a ha b hb
      simp only [List.mem_singleton] at hb
      subst hb
      obtain ⟨⟨id, e⟩, hx, rfl⟩ := List.mem_map.mp ha
      exact h.lt id e hx
    · intro id e he
      simp only [specInsert, List.mem_append, List.mem_singleton] at he
      rcases he with he | he
      · exact h.valid id e he
      · cases he; exact ⟨hv, hne⟩

theorem mem_swapPop (id : Nat) (b : Bucket) (hnd : (b.map (·.1)).Nodup) (x : Entry) :
    x ∈ swapPop id b ↔ x ∈ b ∧ x.1 ≠ id := by
  induction b with
  | nil => simp [swapPop]
  | cons e r ih =>
    simp only [List.map_cons, List.nodup_cons] at hnd
    simp only [swapPop]
    split
    · rename_i heq
      have hr : ∀ y ∈ r, y.1 ≠ id := fun y hy hyid => hnd.1 (List.mem_map.mpr ⟨y, hy, by rw [hyid, heq]⟩)
      cases hl : r.getLast? with
      | none =>
        have : r = [] := List.getLast?_eq_none_iff.mp hl
        subst this
        constructor
        · intro hx; cases hx
        · rintro ⟨h1, h2⟩
          have := List.mem_singleton.mp h1
          subst this
          exact absurd heq h2
      | some l =>
        obtain ⟨ys, rfl⟩ := List.getLast?_eq_some_iff.mp hl
        simp only [List.dropLast_concat]
        constructor
        · intro hx
          have hxr : x ∈ ys ++ [l] := by
            rcases List.mem_cons.mp hx with rfl | hx'
            · simp
            · exact List.mem_append_left _ hx'
          exact ⟨List.mem_cons_of_mem _ hxr, hr x hxr⟩
        · rintro ⟨hx, hne⟩
          rcases List.mem_cons.mp hx with rfl | hx'
          · exact absurd heq hne
          · rcases List.mem_append.mp hx' with h' | h'
            · exact List.mem_cons_of_mem _ h'
            · simp only [List.mem_singleton] at h'; subst h'; exact List.mem_cons_self ..
    · rename_i hne
      rw [List.mem_cons, ih hnd.2, List.mem_cons]
      constructor
      · rintro (rfl | ⟨hx, hx2⟩)
        · exact ⟨Or.inl rfl, hne⟩
        · exact ⟨Or.inr hx, hx2⟩
      · rintro ⟨rfl | hx, hx2⟩
        · exact Or.inl rfl
        · exact Or.inr ⟨hx, hx2⟩

theorem swapPop_nodup (id : Nat) (b : Bucket) (hnd : (b.map (·.1)).Nodup) : ((swapPop id b).map (·.1)).Nodup := by
  induction b with
  | nil => simp [swapPop]
  | cons e r ih =>
    have hnd0 := hnd
    simp only [List.map_cons, List.nodup_cons] at hnd
    simp only [swapPop]
    split
    · cases hl : r.getLast? with
      | none => simp
      | some l =>
        obtain ⟨ys, rfl⟩ := List.getLast?_eq_some_iff.mp hl
        simp only [List.dropLast_concat, List.map_cons, List.nodup_cons]
        have h2 := hnd.2
        simp only [List.map_append, List.map_cons, List.map_nil] at h2
        rw [List.nodup_append] at h2
        refine ⟨fun hm => h2.2.2 _ hm _ (List.mem_singleton.mpr rfl) rfl, h2.1⟩
    · simp only [List.map_cons, List.nodup_cons]
      refine ⟨?_, ih hnd.2⟩
      intro hm
      obtain ⟨x, hx, hxe⟩ := List.mem_map.mp hm
      exact hnd.1 (List.mem_map.mpr ⟨x, ((mem_swapPop id r hnd.2 x).mp hx).1, hxe⟩)

theorem RIF_erase {t : FT} {es : Spec} (h : RIF t es) (id : Nat) {pf : PF} (hv : ValidPF t.F pf) (hne : pf ≠ [])
    (hkey : ∀ e, (id, e) ∈ es → e = pf) :
    ∃ t', t.erase id pf = some t' ∧ RIF t' (specErase es id) := by
  cases pf with
  | nil => exact absurd rfl hne
  | cons kv rest =>
    obtain ⟨k, v⟩ := kv
    refine ⟨_, rfl, ?_⟩
    refine ⟨shapeF_mod h.shape _ _ _, ?_, ?_, ?_, ?_, ?_⟩
    · intro i w e hi hw
      simp only [bucket_modBucket_eq, specErase, List.mem_filter, bne_iff_ne]
      by_cases hc : k = i ∧ v = w
      · obtain ⟨rfl, rfl⟩ := hc
        rw [if_pos ⟨rfl, rfl, by rw [h.shape.1]; exact hi, by rw [h.shape.2 k hi]; exact hw⟩,
          mem_swapPop id _ (h.nodupB k v), h.mem k v e hi hw]
        constructor
        · rintro ⟨⟨he, hh⟩, hid⟩; exact ⟨⟨he, hid⟩, hh⟩
        · rintro ⟨⟨he, hid⟩, hh⟩; exact ⟨⟨he, hh⟩, hid⟩
      · rw [if_neg (fun hh => hc ⟨hh.1, hh.2.1⟩), h.mem i w e hi hw]
        constructor
        · rintro ⟨he, hh⟩
          refine ⟨⟨he, fun hid => ?_⟩, hh⟩
          obtain ⟨id', e'⟩ := e
          simp only at hid
          subst hid
          have := hkey e' he
          subst this
          simp only [List.head?_cons, Option.some.injEq, Prod.mk.injEq] at hh
          exact hc hh
        · rintro ⟨⟨he, _⟩, hh⟩; exact ⟨he, hh⟩
    · intro id' e he; exact h.lt id' e (List.mem_filter.mp he).1
    · exact h.asc.sublist ((List.filter_sublist).map _)
    · intro id' e he; exact h.valid id' e (List.mem_filter.mp he).1
    · intro i w
      simp only [bucket_modBucket_eq]
      split
      · exact swapPop_nodup id _ (h.nodupB i w)
      · exact h.nodupB i w


theorem matchGo_take (f : List Nat) (r : PF) (lo m : Nat) (h : KeysAsc lo r) (hm : f.length ≤ lo + m) :
    matchGo f (r.take m) = matchGo f r := by
  induction r generalizing lo m with
  | nil => simp
  | cons kv r ih =>
    obtain ⟨k, v⟩ := kv
    simp only [KeysAsc] at h
    cases m with
    | zero =>
      simp only [List.take_zero, matchGo]
      rw [if_pos (by omega)]
    | succ m =>
      simp only [List.take_succ_cons, matchGo]
      rw [ih (k + 1) m h.2 (by omega)]

theorem matchGo_iff (f : List Nat) (r : PF) (lo : Nat) (h : KeysAsc lo r) :
    matchGo f r = true ↔ ∀ kv ∈ r, kv.1 < f.length → f.getD kv.1 0 = kv.2 := by
  induction r generalizing lo with
  | nil => simp [matchGo]
  | cons kv r ih =>
    obtain ⟨k, v⟩ := kv
    simp only [KeysAsc] at h
    simp only [matchGo]
    by_cases hk : f.length ≤ k
    · rw [if_pos hk]
      simp only [true_iff]
      intro kv hkv hlt
      rcases List.mem_cons.mp hkv with rfl | hkv'
      · simp only at hlt; omega
      · have : lookup r kv.1 = none := lookup_none_of_lt h.2 (by omega)
        rw [lookup_of_mem h.2 (show (kv.1, kv.2) ∈ r from hkv')] at this
        cases this
    · rw [if_neg hk]
      by_cases hv : f.getD k 0 = v
      · have : (f.getD k 0 != v) = false := by rw [hv]; exact bne_self_eq_false v
        rw [this]
        simp only [Bool.false_eq_true, if_false]
        rw [ih (k + 1) h.2]
        simp only [List.mem_cons, forall_eq_or_imp]
        constructor
        · intro h'; exact ⟨fun _ => hv, h'⟩
        · intro h'; exact h'.2
      · have : (f.getD k 0 != v) = true := bne_iff_ne.mpr hv
        rw [this]
        simp only [if_true, Bool.false_eq_true, false_iff]
        intro h'
        exact hv (h' (k, v) (List.mem_cons_self ..) (by simp only; omega))

theorem mem_prefixPF (off : Nat) (f : List Nat) (kv : Nat × Nat) :
    kv ∈ prefixPF off f ↔ ∃ j, j < f.length ∧ kv = (off + j, f.getD j 0) := by
  induction f generalizing off with
  | nil => simp [prefixPF]
  | cons v vs ih =>
    simp only [prefixPF, List.mem_cons, ih, List.length_cons]
    constructor
    · rintro (rfl | ⟨j, hj, rfl⟩)
      · exact ⟨0, by omega, by simp⟩
      · exact ⟨j + 1, by omega, by simp only [List.getD_cons_succ]; congr 1; omega⟩
    · rintro ⟨j, hj, rfl⟩
      cases j with
      | zero => left; simp
      | succ j => right; exact ⟨j, by omega, by simp only [List.getD_cons_succ]; congr 1; omega⟩

/-- compatibility of a stored key with a prefix assignment `f`, key by key -/
theorem compat_prefix_iff (e : PF) (f : List Nat) (h : KeysAsc 0 e) :
    compatB e (prefixPF 0 f) = true ↔ ∀ kv ∈ e, kv.1 < f.length → f.getD kv.1 0 = kv.2 := by
  rw [compatB_iff]
  constructor
  · intro hc kv hkv hlt
    have := hc (kv.1, f.getD kv.1 0) ((mem_prefixPF 0 f _).mpr ⟨kv.1, hlt, by simp⟩)
    change lookup e kv.1 = none ∨ lookup e kv.1 = some (f.getD kv.1 0) at this
    rw [lookup_of_mem h (show (kv.1, kv.2) ∈ e from hkv)] at this
    rcases this with h' | h'
    · cases h'
    · exact (Option.some.inj h').symm
  · intro hall kv hkv
    obtain ⟨j, hj, rfl⟩ := (mem_prefixPF 0 f kv).mp hkv
    unfold okAt
    simp only [Nat.zero_add]
    cases hl : lookup e j with
    | none => exact Or.inl rfl
    | some v =>
      right
      have := hall (j, v) (lookup_mem hl) hj
      simp only at this
      rw [this]

/-- **FasterTrie::filter = specification, as a set**: an id is returned iff it is the id of a stored
    entry compatible with the (possibly shorter) assignment `f` -/
theorem ft_filter_mem {t : FT} {es : Spec} (h : RIF t es) (f : List Nat) (hlen : f.length ≤ t.F.length)
    (hval : ∀ j, j < f.length → f.getD j 0 < t.F.getD j 0) (id : Nat) :
    id ∈ t.filter f ↔ id ∈ specFilter es (prefixPF 0 f) := by
  rw [mem_specFilter]
  simp only [FT.filter, List.mem_append, List.mem_flatMap, List.mem_map, List.mem_filter, List.mem_range, List.mem_range'_1]
  constructor
  · rintro (⟨i, hi, ⟨x, ⟨hx, hmatch⟩, rfl⟩⟩ | ⟨i, hi, b, hb, x, hx, rfl⟩)
    · -- part 1: bucket (i, f[i]) with matchPartial
      have hiF : i < t.F.length := by omega
      obtain ⟨hxe, hhead⟩ := (h.mem i (f.getD i 0) x hiF (hval i hi)).mp hx
      obtain ⟨hvx, hnex⟩ := h.valid x.1 x.2 hxe
      refine ⟨x.2, hxe, ?_⟩
      rw [compat_prefix_iff _ _ hvx.1]
      obtain ⟨xid, xe⟩ := x
      cases xe with
      | nil => exact absurd rfl hnex
      | cons kv0 rest =>
        simp only [List.head?_cons, Option.some.injEq] at hhead
        subst hhead
        have hasc := hvx.1
        simp only [KeysAsc] at hasc
        simp only [matchPartial, List.drop_succ_cons, List.drop_zero] at hmatch
        rw [matchGo_take f rest (i + 1) _ hasc.2 (by omega), matchGo_iff f rest (i + 1) hasc.2] at hmatch
        intro kv hkv hlt
        rcases List.mem_cons.mp hkv with rfl | hkv'
        · rfl
        · exact hmatch kv hkv' hlt
    · -- part 2: every entry whose first key is beyond f
      have hiF : i < t.F.length := by rw [← h.shape.1]; omega
      obtain ⟨w, hw, rfl⟩ := List.getElem_of_mem hb
      have hw' : w < t.F.getD i 0 := by rw [← h.shape.2 i hiF]; exact hw
      have hxb : x ∈ bucket t.keys i w := by
        show x ∈ (t.keys.getD i []).getD w []
        rw [List.getD_eq_getElem?_getD (l := t.keys.getD i []), List.getElem?_eq_getElem hw]; exact hx
      obtain ⟨hxe, hhead⟩ := (h.mem i w x hiF hw').mp hxb
      obtain ⟨hvx, hnex⟩ := h.valid x.1 x.2 hxe
      refine ⟨x.2, hxe, ?_⟩
      rw [compat_prefix_iff _ _ hvx.1]
      obtain ⟨xid, xe⟩ := x
      cases xe with
      | nil => exact absurd rfl hnex
      | cons kv0 rest =>
        simp only [List.head?_cons, Option.some.injEq] at hhead
        subst hhead
        have hasc := hvx.1
        simp only [KeysAsc] at hasc
        intro kv hkv hlt
        rcases List.mem_cons.mp hkv with rfl | hkv'
        · simp only at hlt; omega
        · have : lookup rest kv.1 = none := lookup_none_of_lt hasc.2 (by omega)
          rw [lookup_of_mem hasc.2 (show (kv.1, kv.2) ∈ rest from hkv')] at this
          cases this
  · rintro ⟨e, he, hc⟩
    obtain ⟨hve, hnee⟩ := h.valid id e he
    rw [compat_prefix_iff _ _ hve.1] at hc
    cases e with
    | nil => exact absurd rfl hnee
    | cons kv0 rest =>
      obtain ⟨k0, v0⟩ := kv0
      have hk0 := hve.2 (k0, v0) (List.mem_cons_self ..)
      simp only at hk0
      have hasc := hve.1
      simp only [KeysAsc] at hasc
      have hb : (id, (k0, v0) :: rest) ∈ bucket t.keys k0 v0 := (h.mem k0 v0 _ hk0.1 hk0.2).mpr ⟨he, rfl⟩
      by_cases hlt : k0 < f.length
      · left
        have hv0 : f.getD k0 0 = v0 := hc (k0, v0) (List.mem_cons_self ..) hlt
        refine ⟨k0, hlt, (id, (k0, v0) :: rest), ⟨by rw [hv0]; exact hb, ?_⟩, rfl⟩
        simp only [matchPartial, List.drop_succ_cons, List.drop_zero]
        rw [matchGo_take f rest (k0 + 1) _ hasc.2 (by omega), matchGo_iff f rest (k0 + 1) hasc.2]
        intro kv hkv hl
        exact hc kv (List.mem_cons_of_mem _ hkv) hl
      · right
        have hv : v0 < (t.keys.getD k0 []).length := by rw [h.shape.2 k0 hk0.1]; exact hk0.2
        have hbm : (t.keys.getD k0 []).getD v0 [] ∈ t.keys.getD k0 [] := by
          rw [List.getD_eq_getElem?_getD (l := t.keys.getD k0 []), List.getElem?_eq_getElem hv]
          exact List.getElem_mem hv
        exact ⟨k0, ⟨by omega, by rw [h.shape.1]; omega⟩, (t.keys.getD k0 []).getD v0 [], hbm, (id, (k0, v0) :: rest), hb, rfl⟩


theorem asc_unique {es : Spec} (hasc : (es.map (·.1)).Pairwise (· < ·)) {id : Nat} {e e' : PF}
    (h1 : (id, e) ∈ es) (h2 : (id, e') ∈ es) : e = e' := by
  induction es with
  | nil => cases h1
  | cons x xs ih =>
    simp only [List.map_cons, List.pairwise_cons] at hasc
    rcases List.mem_cons.mp h1 with rfl | h1' <;> rcases List.mem_cons.mp h2 with h2' | h2'
    · cases h2'; rfl
    · have := hasc.1 id (List.mem_map.mpr ⟨(id, e'), h2', rfl⟩); simp at this
    · subst h2'; have := hasc.1 id (List.mem_map.mpr ⟨(id, e), h1', rfl⟩); simp at this
    · exact ih hasc.2 h1' h2'

theorem bucket_in_range {F : List Nat} {keys : List (List Bucket)} (h : ShapeF F keys) {i v : Nat} {e : Entry}
    (he : e ∈ bucket keys i v) : i < F.length ∧ v < F.getD i 0 := by
  by_cases hi : i < F.length
  · refine ⟨hi, ?_⟩
    by_cases hv : v < F.getD i 0
    · exact hv
    · have : bucket keys i v = [] := by
        show (keys.getD i []).getD v [] = []
        rw [List.getD_eq_getElem?_getD (l := keys.getD i []), List.getElem?_eq_none (by rw [h.2 i hi]; omega)]; rfl
      rw [this] at he; cases he
  · have : bucket keys i v = [] := by
      show (keys.getD i []).getD v [] = []
      rw [List.getD_eq_getElem?_getD (l := keys), List.getElem?_eq_none (by rw [h.1]; omega)]; rfl
    rw [this] at he; cases he

/-- an id sits in exactly one bucket -/
theorem RIF.bucket_unique {t : FT} {es : Spec} (h : RIF t es) {id : Nat} {e e' : PF} {i v i' v' : Nat}
    (h1 : (id, e) ∈ bucket t.keys i v) (h2 : (id, e') ∈ bucket t.keys i' v') : i = i' ∧ v = v' := by
  obtain ⟨r1, r2⟩ := bucket_in_range h.shape h1
  obtain ⟨r1', r2'⟩ := bucket_in_range h.shape h2
  obtain ⟨m1, hd1⟩ := (h.mem i v _ r1 r2).mp h1
  obtain ⟨m2, hd2⟩ := (h.mem i' v' _ r1' r2').mp h2
  have := asc_unique h.asc m1 m2
  subst this
  simp only at hd1 hd2
  rw [hd1] at hd2
  simp only [Option.some.injEq, Prod.mk.injEq] at hd2
  exact hd2

/-- ids of one row of buckets -/
def rowIds (keys : List (List Bucket)) (i : Nat) : List Nat := (keys.getD i []).flatMap (fun b => b.map (·.1))

theorem mem_rowIds {keys : List (List Bucket)} {i x : Nat} (hx : x ∈ rowIds keys i) : ∃ v e, (x, e) ∈ bucket keys i v := by
  simp only [rowIds, List.mem_flatMap, List.mem_map] at hx
  obtain ⟨b, hb, ⟨x', e⟩, hxe, rfl⟩ := hx
  obtain ⟨v, hv, rfl⟩ := List.getElem_of_mem hb
  refine ⟨v, e, ?_⟩
  show (x', e) ∈ (keys.getD i []).getD v []
  rw [List.getD_eq_getElem?_getD (l := keys.getD i []), List.getElem?_eq_getElem hv]; exact hxe

theorem rowIds_nodup {t : FT} {es : Spec} (h : RIF t es) (i : Nat) : (rowIds t.keys i).Nodup := by
  rw [List.nodup_iff_pairwise_ne]
  simp only [rowIds]
  rw [List.pairwise_flatMap]
  constructor
  · intro b hb
    obtain ⟨v, hv, rfl⟩ := List.getElem_of_mem hb
    have : (t.keys.getD i [])[v] = bucket t.keys i v := by
      show _ = (t.keys.getD i []).getD v []
      rw [List.getD_eq_getElem?_getD (l := t.keys.getD i []), List.getElem?_eq_getElem hv]; rfl
    rw [this, ← List.nodup_iff_pairwise_ne]
    exact h.nodupB i v
  · rw [List.pairwise_iff_getElem]
    intro a b ha hb hab x hx y hy hxy
    subst hxy
    have ea : (t.keys.getD i [])[a] = bucket t.keys i a := by
      show _ = (t.keys.getD i []).getD a []
      rw [List.getD_eq_getElem?_getD (l := t.keys.getD i []), List.getElem?_eq_getElem ha]; rfl
    have eb : (t.keys.getD i [])[b] = bucket t.keys i b := by
      show _ = (t.keys.getD i []).getD b []
      rw [List.getD_eq_getElem?_getD (l := t.keys.getD i []), List.getElem?_eq_getElem hb]; rfl
    rw [ea] at hx; rw [eb] at hy
    obtain ⟨⟨_, e⟩, h1, rfl⟩ := List.mem_map.mp hx
    obtain ⟨⟨_, e'⟩, h2, he⟩ := List.mem_map.mp hy
    simp only at he
    subst he
    have := (h.bucket_unique h1 h2).2
    omega

/-- **no id is reported twice** by `FasterTrie::filter` -/
theorem ft_filter_nodup {t : FT} {es : Spec} (h : RIF t es) (f : List Nat) : (t.filter f).Nodup := by
  simp only [FT.filter]
  rw [List.nodup_append]
  refine ⟨?_, ?_, ?_⟩
  · rw [List.nodup_iff_pairwise_ne, List.pairwise_flatMap]
    constructor
    · intro i _
      rw [← List.nodup_iff_pairwise_ne]
      exact List.Nodup.sublist ((List.filter_sublist).map _) (h.nodupB i _)
    · apply List.Pairwise.imp _ (List.nodup_iff_pairwise_ne.mp List.nodup_range)
      intro a b hab x hx y hy hxy
      subst hxy
      obtain ⟨⟨_, e⟩, h1, rfl⟩ := List.mem_map.mp hx
      obtain ⟨⟨_, e'⟩, h2, he⟩ := List.mem_map.mp hy
      simp only at he
      subst he
      exact hab (h.bucket_unique (List.mem_filter.mp h1).1 (List.mem_filter.mp h2).1).1
  · rw [List.nodup_iff_pairwise_ne, List.pairwise_flatMap]
    constructor
    · intro i _
      rw [← List.nodup_iff_pairwise_ne]
      exact rowIds_nodup h i
    · apply List.Pairwise.imp _ (List.nodup_iff_pairwise_ne.mp (List.nodup_range' 1))
      intro a b hab x hx y hy hxy
      subst hxy
      obtain ⟨v, e, h1⟩ := mem_rowIds (show x ∈ rowIds t.keys a from hx)
      obtain ⟨v', e', h2⟩ := mem_rowIds (show x ∈ rowIds t.keys b from hy)
      exact hab (h.bucket_unique h1 h2).1
  · intro x hx y hy hxy
    subst hxy
    obtain ⟨i, hi, hx'⟩ := List.mem_flatMap.mp hx
    obtain ⟨i', hi', hy'⟩ := List.mem_flatMap.mp hy
    have hi := List.mem_range.mp hi
    have hi' := List.mem_range'_1.mp hi'
    obtain ⟨⟨_, e⟩, h1, rfl⟩ := List.mem_map.mp hx'
    obtain ⟨v', e', h2⟩ := mem_rowIds (show _ ∈ rowIds t.keys i' from hy')
    have := (h.bucket_unique (List.mem_filter.mp h1).1 h2).1
    omega

theorem flatMap_range'_shift {β} (s m : Nat) (g : Nat → List β) :
    (List.range' (s + 1) m).flatMap g = (List.range' s m).flatMap (fun i => g (i + 1)) := by
  rw [List.range'_succ_left, List.flatMap_map]

theorem flatMap_range'_getD {α β} (l : List α) (d : α) (g : α → List β) :
    (List.range' 0 l.length).flatMap (fun i => g (l.getD i d)) = l.flatMap g := by
  induction l with
  | nil => rfl
  | cons x xs ih =>
    simp only [List.length_cons, List.range'_succ, List.flatMap_cons, List.getD_cons_zero]
    congr 1
    rw [flatMap_range'_shift]
    simp only [List.getD_cons_succ]
    exact ih

/-- **FasterTrie::size = number of stored entries** -/
theorem ft_size_spec {t : FT} {es : Spec} (h : RIF t es) : t.size = es.length := by
  have hall : t.filter [] = t.keys.flatMap (fun r => r.flatMap (fun b => b.map (·.1))) := by
    simp only [FT.filter, List.length_nil, List.range_zero, List.flatMap_nil, List.nil_append, Nat.sub_zero]
    exact flatMap_range'_getD t.keys [] _
  have hlen : (t.filter []).length = t.size := by
    rw [hall, List.length_flatMap]
    simp only [FT.size, List.length_flatMap, List.length_map]
  have hnd := ft_filter_nodup h []
  have hnd2 : (specIds es).Nodup := by
    rw [List.nodup_iff_pairwise_ne]
    exact h.asc.imp (fun hab => by omega)
  have hperm : (t.filter []).Perm (specIds es) := by
    rw [List.perm_ext_iff_of_nodup hnd hnd2]
    intro a
    rw [ft_filter_mem h [] (Nat.zero_le _) (fun j hj => by cases hj) a, mem_specFilter, mem_specIds]
    constructor
    · rintro ⟨e, he, _⟩; exact ⟨e, he⟩
    · rintro ⟨e, he⟩; exact ⟨e, he, by simp [prefixPF, compatB]⟩
  rw [← hlen, hperm.length_eq]
  simp [specIds]


/-! ### reconstruct: what happens to the store -/

theorem length_removeNth {α} (l : List α) (c : Nat) (hc : c < l.length) : (removeNth l c).length + 1 = l.length := by
  induction l generalizing c with
  | nil => simp at hc
  | cons x xs ih =>
    cases c with
    | zero => simp [removeNth]
    | succ c =>
      simp only [removeNth, List.length_cons] at *
      have := ih c (by omega); omega

theorem removeNth_perm {α} (l : List α) (c : Nat) (d : α) (hc : c < l.length) : (l.getD c d :: removeNth l c).Perm l := by
  induction l generalizing c with
  | nil => simp at hc
  | cons x xs ih =>
    cases c with
    | zero => simp [removeNth]
    | succ c =>
      simp only [removeNth, List.getD_cons_succ]
      simp only [List.length_cons] at hc
      exact (List.Perm.swap x (xs.getD c d) (removeNth xs c)).trans ((ih c (by omega)).cons x)

/-- the oracle-driven shuffle is a permutation -/
theorem permute_perm {α} [Inhabited α] (fuel : Nat) (o : List Nat) (l : List α) (hf : l.length ≤ fuel) :
    (permute fuel o l).1.Perm l := by
  induction fuel generalizing o l with
  | zero =>
    have : l = [] := List.eq_nil_of_length_eq_zero (by omega)
    subst this; exact List.Perm.refl _
  | succ fuel ih =>
    cases l with
    | nil => exact List.Perm.refl _
    | cons x xs =>
      simp only [permute]
      have hc : o.headD 0 % (x :: xs).length < (x :: xs).length := Nat.mod_lt _ (by simp)
      have hl := length_removeNth (x :: xs) _ hc
      refine ((ih (o.drop 1) (removeNth (x :: xs) _) (by omega)).cons _).trans ?_
      exact removeNth_perm (x :: xs) _ default hc

theorem shuffle_perm {α} [Inhabited α] (o : List Nat) (l : List α) : (shuffle o l).1.Perm l :=
  permute_perm l.length o l (Nat.le_refl _)

/-- `scanKeep` only appends entries of the bucket -/
theorem scanKeep_rem (F : List Nat) (b : Bucket) (s : RState) :
    ∃ rem, (scanKeep F b s).entries = s.entries ++ rem ∧ ∀ e ∈ rem, e ∈ b := by
  induction b generalizing s with
  | nil => exact ⟨[], by simp [scanKeep], fun e he => nomatch he⟩
  | cons e r ih =>
    simp only [scanKeep]
    split
    · obtain ⟨rem, h1, h2⟩ := ih { f := assign s.f e.2, entries := s.entries ++ [e], done := true }
      refine ⟨e :: rem, by rw [h1]; simp, fun x hx => ?_⟩
      rcases List.mem_cons.mp hx with rfl | hx'
      · exact List.mem_cons_self ..
      · exact List.mem_cons_of_mem _ (h2 x hx')
    · obtain ⟨rem, h1, h2⟩ := ih s
      exact ⟨rem, h1, fun x hx => List.mem_cons_of_mem _ (h2 x hx)⟩

/-- `scanRemove` splits the bucket into what stays and what is appended to the collected entries -/
theorem scanRemove_rem (F : List Nat) (fuel : Nat) (pre rest : List Entry) (s : RState) :
    ∃ rem, (scanRemove F fuel pre rest s).2.entries = s.entries ++ rem ∧
      (pre.reverse ++ rest).Perm ((scanRemove F fuel pre rest s).1 ++ rem) := by
  induction fuel generalizing pre rest s with
  | zero => exact ⟨[], by simp [scanRemove], by simp [scanRemove]⟩
  | succ fuel ih =>
    cases rest with
    | nil => exact ⟨[], by simp [scanRemove], by simp [scanRemove]⟩
    | cons e r =>
      simp only [scanRemove]
      split
      · cases hl : r.getLast? with
        | none =>
          have : r = [] := List.getLast?_eq_none_iff.mp hl
          subst this
          exact ⟨[e], rfl, List.Perm.refl _⟩
        | some l =>
          obtain ⟨ys, rfl⟩ := List.getLast?_eq_some_iff.mp hl
          simp only [List.dropLast_concat]
          obtain ⟨rem, h1, h2⟩ := ih pre (l :: ys) { f := assign s.f e.2, entries := s.entries ++ [e], done := true }
          refine ⟨e :: rem, by rw [h1]; simp, ?_⟩
          -- pre.reverse ++ e :: (ys ++ [l])  ~  e :: (pre.reverse ++ (l :: ys))  ~  e :: (b' ++ rem)  ~  b' ++ e :: rem
          have p1 : (pre.reverse ++ e :: (ys ++ [l])).Perm (e :: (pre.reverse ++ (ys ++ [l]))) := List.perm_middle
          have p2 : (ys ++ [l]).Perm (l :: ys) := List.perm_append_comm
          have p3 := (p2.append_left pre.reverse).trans h2
          exact p1.trans ((p3.cons e).trans List.perm_middle.symm)
      · obtain ⟨rem, h1, h2⟩ := ih (e :: pre) r s
        refine ⟨rem, h1, ?_⟩
        simpa [List.reverse_cons, List.append_assoc] using h2


def headIs (i v : Nat) (e : Entry) : Bool := e.2.head? == some (i, v)

/-- entries removed so far that belonged to bucket (i, v) -/
def remOf (remove : Bool) (ents : List Entry) (i v : Nat) : List Entry := if remove then ents.filter (headIs i v) else []

/-- every bucket, together with what was moved out of it, is a rearrangement of the original bucket -/
def GInv (F : List Nat) (keys0 : List (List Bucket)) (remove : Bool) (keys : List (List Bucket)) (s : RState) : Prop :=
  ShapeF F keys ∧ ∀ i v, i < F.length → v < F.getD i 0 →
    (bucket keys i v ++ remOf remove s.entries i v).Perm (bucket keys0 i v)

theorem headIs_inj {i v i' v' : Nat} {e : Entry} (h1 : headIs i v e = true) (h2 : headIs i' v' e = true) : i = i' ∧ v = v' := by
  simp only [headIs, beq_iff_eq] at h1 h2
  rw [h1] at h2
  simp only [Option.some.injEq, Prod.mk.injEq] at h2
  exact h2

theorem visit_ginv (F : List Nat) (keys0 : List (List Bucket)) (remove : Bool)
    (H0 : ∀ i v, i < F.length → v < F.getD i 0 → ∀ e ∈ bucket keys0 i v, headIs i v e = true)
    (keys : List (List Bucket)) (s : RState) (o v : Nat) (ho : o < F.length) (hv : v < F.getD o 0)
    (h : GInv F keys0 remove keys s) (b b' : Bucket) (s' : RState) (hbperm : b.Perm (bucket keys o v))
    (hrem : remove = true → ∃ rem, s'.entries = s.entries ++ rem ∧ b.Perm (b' ++ rem))
    (hkeep : remove = false → b' = b) :
    GInv F keys0 remove (modBucket keys o v (fun _ => b')) s' := by
  have hsub : ∀ e ∈ bucket keys o v, headIs o v e = true := by
    intro e he
    exact H0 o v ho hv e ((h.2 o v ho hv).subset (List.mem_append_left _ he))
  refine ⟨shapeF_mod h.1 _ _ _, fun i w hi hw => ?_⟩
  have hin : o < keys.length ∧ v < (keys.getD o []).length := ⟨by rw [h.1.1]; exact ho, by rw [h.1.2 o ho]; exact hv⟩
  rw [bucket_modBucket_eq]
  cases remove with
  | false =>
    simp only [remOf, Bool.false_eq_true, if_false, List.append_nil]
    have := h.2 i w hi hw
    simp only [remOf, Bool.false_eq_true, if_false, List.append_nil] at this
    split
    · rename_i hc
      obtain ⟨rfl, rfl, _, _⟩ := hc
      rw [hkeep rfl]
      exact hbperm.trans this
    · exact this
  | true =>
    obtain ⟨rem, hr2, hr1⟩ := hrem rfl
    have hremhead : ∀ e ∈ rem, headIs o v e = true := by
      intro e he
      exact hsub e (hbperm.subset (hr1.symm.subset (List.mem_append_right _ he)))
    simp only [remOf, if_true, hr2, List.filter_append]
    have hold := h.2 i w hi hw
    simp only [remOf, if_true] at hold
    by_cases hc : o = i ∧ v = w
    · obtain ⟨rfl, rfl⟩ := hc
      rw [if_pos ⟨rfl, rfl, hin.1, hin.2⟩]
      have hfilt : rem.filter (headIs o v) = rem := List.filter_eq_self.mpr hremhead
      rw [hfilt]
      have p1 : (b' ++ (s.entries.filter (headIs o v) ++ rem)).Perm ((b' ++ rem) ++ s.entries.filter (headIs o v)) := by
        rw [List.append_assoc]
        exact List.Perm.append_left _ List.perm_append_comm
      exact p1.trans (((hr1.symm.trans hbperm).append_right _).trans hold)
    · rw [if_neg (fun hh => hc ⟨hh.1, hh.2.1⟩)]
      have hfilt : rem.filter (headIs i w) = [] := by
        rw [List.filter_eq_nil_iff]
        intro e he hh
        have := headIs_inj (hremhead e he) hh
        exact hc this
      rw [hfilt, List.append_nil]
      exact hold

theorem reconValues_ginv (F : List Nat) (keys0 : List (List Bucket)) (remove : Bool)
    (H0 : ∀ i v, i < F.length → v < F.getD i 0 → ∀ e ∈ bucket keys0 i v, headIs i v e = true)
    (o : Nat) (ho : o < F.length) (vs : List Nat) (hvs : ∀ v ∈ vs, v < F.getD o 0)
    (keys : List (List Bucket)) (s : RState) (orc : List Nat) (h : GInv F keys0 remove keys s) :
    GInv F keys0 remove (reconValues F remove o vs keys s orc).1 (reconValues F remove o vs keys s orc).2.1 := by
  induction vs generalizing keys s orc with
  | nil => exact h
  | cons v vs ih =>
    have hv := hvs v (List.mem_cons_self ..)
    have hvs' : ∀ w ∈ vs, w < F.getD o 0 := fun w hw => hvs w (List.mem_cons_of_mem _ hw)
    have hbperm : (shuffle orc (bucket keys o v)).1.Perm (bucket keys o v) := shuffle_perm orc _
    cases remove with
    | true =>
      obtain ⟨rem, h1, h2⟩ := scanRemove_rem F ((shuffle orc (bucket keys o v)).1.length + 1) [] (shuffle orc (bucket keys o v)).1 s
      have hstep := visit_ginv F keys0 true H0 keys s o v ho hv h (shuffle orc (bucket keys o v)).1
        (scanRemove F ((shuffle orc (bucket keys o v)).1.length + 1) [] (shuffle orc (bucket keys o v)).1 s).1
        (scanRemove F ((shuffle orc (bucket keys o v)).1.length + 1) [] (shuffle orc (bucket keys o v)).1 s).2
        hbperm (fun _ => ⟨rem, h1, by simpa using h2⟩) (fun hh => by cases hh)
      simp only [reconValues, if_true]
      split
      · exact hstep
      · exact ih hvs' _ _ _ hstep
    | false =>
      have hstep := visit_ginv F keys0 false H0 keys s o v ho hv h (shuffle orc (bucket keys o v)).1
        (shuffle orc (bucket keys o v)).1 (scanKeep F (shuffle orc (bucket keys o v)).1 s)
        hbperm (fun hh => by cases hh) (fun _ => rfl)
      simp only [reconValues, Bool.false_eq_true, if_false]
      split
      · exact hstep
      · exact ih hvs' _ _ _ hstep

theorem reconFactors_ginv (F : List Nat) (keys0 : List (List Bucket)) (remove : Bool)
    (H0 : ∀ i v, i < F.length → v < F.getD i 0 → ∀ e ∈ bucket keys0 i v, headIs i v e = true)
    (os : List Nat) (hos : ∀ o ∈ os, o < F.length)
    (keys : List (List Bucket)) (s : RState) (orc : List Nat) (h : GInv F keys0 remove keys s) :
    GInv F keys0 remove (reconFactors F remove os keys s orc).1 (reconFactors F remove os keys s orc).2.1 := by
  induction os generalizing keys s orc with
  | nil => exact h
  | cons o os ih =>
    have ho := hos o (List.mem_cons_self ..)
    have hos' : ∀ o' ∈ os, o' < F.length := fun o' h' => hos o' (List.mem_cons_of_mem _ h')
    simp only [reconFactors]
    split
    · rename_i hset
      have := reconValues_ginv F keys0 remove H0 o ho [s.f.getD o 0]
        (fun v hv => by simp only [List.mem_singleton] at hv; subst hv; exact hset) keys { s with done := true } orc h
      exact ih hos' _ _ _ this
    · have := reconValues_ginv F keys0 remove H0 o ho (shuffle orc (List.range (F.getD o 0))).1
        (fun v hv => List.mem_range.mp (permute_subset _ _ _ v hv)) keys { s with done := false }
        (shuffle orc (List.range (F.getD o 0))).2 h
      exact ih hos' _ _ _ this

/-- the stored entries after a reconstruction -/
def esAfter (remove : Bool) (es : Spec) (E : List Entry) : Spec :=
  if remove then es.filter (fun e => !(E.contains e)) else es

/-- **reconstruct and the store**: without removal the index still holds exactly the same entries
    (buckets only rearranged); with removal it holds exactly the stored entries that were not returned.
    For every shuffle outcome. -/
theorem reconstruct_store {t : FT} {es : Spec} (h : RIF t es) (q : PF) (remove : Bool) (orc : List Nat) :
    RIF (t.reconstruct q remove orc).1 (esAfter remove es (t.reconstruct q remove orc).2.1) := by
  have H0 : ∀ i v, i < t.F.length → v < t.F.getD i 0 → ∀ e ∈ bucket t.keys i v, headIs i v e = true := by
    intro i v hi hv e he
    simp only [headIs, beq_iff_eq]
    exact ((h.mem i v e hi hv).mp he).2
  have hg0 : GInv t.F t.keys remove t.keys { f := assign t.F q, entries := [], done := false } := by
    refine ⟨h.shape, fun i v _ _ => ?_⟩
    simp [remOf]
  have hg := reconFactors_ginv t.F t.keys remove H0 (shuffle orc (List.range t.F.length)).1
    (fun o ho => List.mem_range.mp (permute_subset _ _ _ o ho)) t.keys _ (shuffle orc (List.range t.F.length)).2 hg0
  -- names for the results
  have hkeys : (t.reconstruct q remove orc).1.keys = (reconFactors t.F remove (shuffle orc (List.range t.F.length)).1 t.keys
      { f := assign t.F q, entries := [], done := false } (shuffle orc (List.range t.F.length)).2).1 := rfl
  have hents : (t.reconstruct q remove orc).2.1 = (reconFactors t.F remove (shuffle orc (List.range t.F.length)).1 t.keys
      { f := assign t.F q, entries := [], done := false } (shuffle orc (List.range t.F.length)).2).2.1.entries := rfl
  have hF : (t.reconstruct q remove orc).1.F = t.F := rfl
  have hC : (t.reconstruct q remove orc).1.counter = t.counter := rfl
  obtain ⟨hshape, hperm⟩ := hg
  rw [← hkeys] at hshape hperm
  rw [← hents] at hperm
  generalize (t.reconstruct q remove orc).2.1 = E at *
  generalize ht' : (t.reconstruct q remove orc).1 = t' at *
  have hnd0 : ∀ i v, (bucket t.keys i v).Nodup := fun i v =>
    List.nodup_iff_pairwise_ne.mpr (List.Pairwise.of_map (·.1) (fun a b hab heq => hab (by rw [heq])) (List.nodup_iff_pairwise_ne.mp (h.nodupB i v)))
  have hsubset : ∀ e ∈ esAfter remove es E, e ∈ es := by
    intro e he
    unfold esAfter at he
    split at he
    · exact (List.mem_filter.mp he).1
    · exact he
  refine ⟨by rw [hF]; exact hshape, ?_, ?_, ?_, ?_, ?_⟩
  · intro i v e hi hv
    rw [hF] at hi hv
    have hp := hperm i v hi hv
    cases remove with
    | false =>
      simp only [remOf, Bool.false_eq_true, if_false, List.append_nil] at hp
      simp only [esAfter, Bool.false_eq_true, if_false]
      rw [hp.mem_iff, h.mem i v e hi hv]
    | true =>
      simp only [remOf, if_true] at hp
      simp only [esAfter, if_true, List.mem_filter, Bool.not_eq_true', List.contains_eq_mem, decide_eq_false_iff_not]
      have hnd : (bucket t'.keys i v ++ E.filter (headIs i v)).Nodup := hp.nodup_iff.mpr (hnd0 i v)
      rw [List.nodup_append] at hnd
      constructor
      · intro he
        have he0 : e ∈ bucket t.keys i v := hp.subset (List.mem_append_left _ he)
        obtain ⟨hes, hhd⟩ := (h.mem i v e hi hv).mp he0
        refine ⟨⟨hes, fun hE => ?_⟩, hhd⟩
        have : e ∈ E.filter (headIs i v) := List.mem_filter.mpr ⟨hE, by simp only [headIs, beq_iff_eq]; exact hhd⟩
        exact hnd.2.2 e he e this rfl
      · rintro ⟨⟨hes, hnE⟩, hhd⟩
        have he0 : e ∈ bucket t.keys i v := (h.mem i v e hi hv).mpr ⟨hes, hhd⟩
        rcases List.mem_append.mp (hp.symm.subset he0) with h' | h'
        · exact h'
        · exact absurd (List.mem_filter.mp h').1 hnE
  · intro id e he; rw [hC]; exact h.lt id e (hsubset _ he)
  · unfold esAfter
    split
    · exact h.asc.sublist ((List.filter_sublist).map _)
    · exact h.asc
  · intro id e he; rw [hF]; exact h.valid id e (hsubset _ he)
  · intro i v
    by_cases hin : i < t.F.length ∧ v < t.F.getD i 0
    · have hp := hperm i v hin.1 hin.2
      have : ((bucket t'.keys i v ++ remOf remove E i v).map (·.1)).Nodup := (hp.map _).nodup_iff.mpr (h.nodupB i v)
      rw [List.map_append, List.nodup_append] at this
      exact this.1
    · have : bucket t'.keys i v = [] := by
        rw [List.eq_nil_iff_forall_not_mem]
        intro e he
        exact hin (bucket_in_range hshape he)
      rw [this]; exact List.nodup_nil

end AITB.Trie
