/-
  C09 part e — Thompson sampling selection kernel.
-/
import AITB.Props.C09a

namespace AITB.Pol

/-! ### ThompsonSamplingPolicy::sampleAction -/

/-- the loop, from any intermediate state: either nothing beat the running maximum (result = current best), or the
    result is an index of the scanned range whose draw beats the initial running maximum and is a maximum of the range -/
theorem thLoop_spec (cnt : Nat → Nat) (val : Nat → Rat) : ∀ (rem a best : Nat) (bv : Option Rat),
    (∀ j, a ≤ j → j < a + rem → 2 ≤ cnt j) →
    (thLoop cnt val rem a best bv = best ∧ ∀ j, a ≤ j → j < a + rem → gtOpt (val j) bv = false) ∨
    (a ≤ thLoop cnt val rem a best bv ∧ thLoop cnt val rem a best bv < a + rem ∧
      gtOpt (val (thLoop cnt val rem a best bv)) bv = true ∧
      ∀ j, a ≤ j → j < a + rem → val j ≤ val (thLoop cnt val rem a best bv)) := by
  intro rem
  induction rem with
  | zero => intro a best bv _; left; exact ⟨rfl, fun j h1 h2 => by omega⟩
  | succ r ih =>
    intro a best bv hc
    have hca : ¬ cnt a < 2 := by have := hc a (le_refl _) (by omega); omega
    rw [thLoop]; simp only [hca, if_false]
    by_cases hg : gtOpt (val a) bv = true
    · simp only [hg, if_true]
      right
      rcases ih (a + 1) a (some (val a)) (fun j h1 h2 => hc j (by omega) (by omega)) with ⟨e, hall⟩ | ⟨h1, h2, h3, h4⟩
      · rw [e]
        refine ⟨le_refl _, by omega, hg, fun j hj1 hj2 => ?_⟩
        by_cases hja : j = a
        · subst hja; exact le_refl _
        · have := hall j (by omega) (by omega)
          simp only [gtOpt, decide_eq_false_iff_not, not_lt] at this; exact this
      · refine ⟨by omega, by omega, ?_, fun j hj1 hj2 => ?_⟩
        · -- beats val a which beats bv
          have h3' : val a < val (thLoop cnt val r (a + 1) a (some (val a))) := by simpa [gtOpt] using h3
          cases bv with
          | none => rfl
          | some b =>
            have : b < val a := by simpa [gtOpt] using hg
            simp only [gtOpt, decide_eq_true_eq]; linarith
        · by_cases hja : j = a
          · subst hja
            have h3' : val j < val (thLoop cnt val r (j + 1) j (some (val j))) := by simpa [gtOpt] using h3
            exact le_of_lt h3'
          · exact h4 j (by omega) (by omega)
    · have hg' : gtOpt (val a) bv = false := by simpa using hg
      simp only [hg', Bool.false_eq_true, if_false]
      rcases ih (a + 1) best bv (fun j h1 h2 => hc j (by omega) (by omega)) with ⟨e, hall⟩ | ⟨h1, h2, h3, h4⟩
      · left
        refine ⟨e, fun j hj1 hj2 => ?_⟩
        by_cases hja : j = a
        · subst hja; exact hg'
        · exact hall j (by omega) (by omega)
      · right
        refine ⟨by omega, by omega, h3, fun j hj1 hj2 => ?_⟩
        by_cases hja : j = a
        · subst hja
          -- val j does not beat bv, the result does
          cases bv with
          | none => simp [gtOpt] at hg'
          | some b =>
            have : val j ≤ b := by simpa [gtOpt] using hg'
            have : b < val (thLoop cnt val r (j + 1) best (some b)) := by simpa [gtOpt] using h3
            linarith
        · exact h4 j (by omega) (by omega)

/-- **thompson_picks_max_draw** — the repaired code (`Gen.C09.thompsonInitLowest = true`, running maximum starts below
    every value): for any number of arms `n ≥ 1`, all visited at least twice, and posterior draws of ANY sign, the returned
    arm is in range and its draw is the largest. -/
theorem thompson_picks_max_draw (cnt : Nat → Nat) (val : Nat → Rat) (n : Nat) (hn : 0 < n)
    (hc : ∀ a, a < n → 2 ≤ cnt a) :
    thompson true cnt val n < n ∧ ∀ a, a < n → val a ≤ val (thompson true cnt val n) := by
  unfold thompson thInit
  simp only [if_true]
  rcases thLoop_spec cnt val n 0 0 none (fun j _ h => hc j (by omega)) with ⟨_, hall⟩ | ⟨_, h2, _, h4⟩
  · have := hall 0 (le_refl _) (by omega); simp [gtOpt] at this
  · exact ⟨by omega, fun a ha => h4 a (Nat.zero_le _) (by omega)⟩

/-- Full statement for the code as written (`thompsonInitLowest = false`) is FALSE (see the counterexample).
    **thompson_picks_max_draw_partial**: with the running maximum starting at the smallest positive double, the arm with
    the largest draw is returned provided some draw exceeds that value. -/
theorem thompson_picks_max_draw_partial (cnt : Nat → Nat) (val : Nat → Rat) (n : Nat)
    (hc : ∀ a, a < n → 2 ≤ cnt a) (hpos : ∃ a, a < n ∧ dblMin < val a) :
    thompson false cnt val n < n ∧ ∀ a, a < n → val a ≤ val (thompson false cnt val n) := by
  unfold thompson thInit
  simp only [Bool.false_eq_true, if_false]
  rcases thLoop_spec cnt val n 0 0 (some dblMin) (fun j _ h => hc j (by omega)) with ⟨_, hall⟩ | ⟨_, h2, _, h4⟩
  · obtain ⟨a, ha, hv⟩ := hpos
    have := hall a (Nat.zero_le _) (by omega)
    simp only [gtOpt, decide_eq_false_iff_not, not_lt] at this; linarith
  · exact ⟨by omega, fun a ha => h4 a (Nat.zero_le _) (by omega)⟩

/-- **thompson_negative_counterexample** (finding C09-thompson-min-init, harness case 3): two arms, draws −1 and −1/2:
    the code as written returns arm 0, whose draw is not the largest; the repaired code returns arm 1. -/
theorem thompson_negative_counterexample :
    let val : Nat → Rat := fun i => if i = 0 then -1 else -1/2
    thompson false (fun _ => 3) val 2 = 0 ∧ val 0 < val 1 ∧ thompson true (fun _ => 3) val 2 = 1 := by
  refine ⟨?_, by norm_num, ?_⟩
  · simp only [thompson, thInit, thLoop, gtOpt, dblMin]; norm_num
    have hp : (0 : Rat) < (2 ^ 1022)⁻¹ := by positivity
    rw [if_neg (by linarith), if_neg (by linarith)]
  · simp only [thompson, thInit, thLoop, gtOpt]; norm_num

/-- an arm visited fewer than twice is played first (the first such arm), whatever the draws -/
theorem thompson_unvisited_first (lowest : Bool) (cnt : Nat → Nat) (val : Nat → Rat) (n k : Nat) (hk : k < n)
    (hlt : cnt k < 2) (hbefore : ∀ j, j < k → 2 ≤ cnt j) : thompson lowest cnt val n = k := by
  unfold thompson
  have key : ∀ (rem a best : Nat) (bv : Option Rat), a ≤ k → k < a + rem → thLoop cnt val rem a best bv = k := by
    intro rem
    induction rem with
    | zero => intro a best bv h1 h2; omega
    | succ r ih =>
      intro a best bv h1 h2
      rw [thLoop]
      by_cases hak : a = k
      · subst hak; simp [hlt]
      · have : ¬ cnt a < 2 := by have := hbefore a (by omega); omega
        simp only [this, if_false]
        split <;> exact ih _ _ _ (by omega) (by omega)
  exact key n 0 0 _ (Nat.zero_le _) (by omega)

end AITB.Pol
