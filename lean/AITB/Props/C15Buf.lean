/-
  AITB.Props.C15Buf — the callback bodies of the two LP builders, AS TRANSCRIBED BY THE TRANSLATOR (`AITB.Gen.flpCallbacks`,
  `AITB.Gen.mdpCallbacks`), executed on the dense row buffer (`AITB.Model.FLPBuf`), push exactly the dense form of the rows
  of the abstract model (`veRows`, `flpFinalRows`, `mdpFinalRows`) — for every buffer content (so whatever `addColumn`
  left in the re-allocated buffer), every width, every set of matched rules.  This is the step from "list of writes" to
  "what lp_solve receives": the clearing, the overwriting `crossSum`, and FactoredLP's right-shift loop / clear-and-set loop
  that derive the `−` system from the `+` system.
-/
import AITB.Props.C15Clean
import AITB.Model.FLPBuf
import AITB.Gen.C15Callbacks
import AITB.Gen.C15Setup

namespace AITB.FLP
open AITB.Factored AITB.VE

/-! ## lists as functions -/

theorem getD_set (b : List Rat) (i j : Nat) (a : Rat) :
    (b.set i a).getD j 0 = if i = j ∧ i < b.length then a else b.getD j 0 := by
  simp only [List.getD_eq_getElem?_getD, List.getElem?_set]
  by_cases h : i = j
  · subst h
    by_cases hl : i < b.length
    · simp [hl]
    · simp [hl]
  · simp [h]

theorem ext_getD (a b : List Rat) (hl : a.length = b.length) (h : ∀ j, j < a.length → a.getD j 0 = b.getD j 0) : a = b := by
  apply List.ext_getElem hl
  intro j h1 h2
  have := h j h1
  simpa [List.getD_eq_getElem?_getD, List.getElem?_eq_getElem h1, List.getElem?_eq_getElem h2] using this

theorem getD_replicate_zero (n j : Nat) : (List.replicate n (0 : Rat)).getD j 0 = 0 := by
  simp only [List.getD_eq_getElem?_getD, List.getElem?_replicate]
  split <;> rfl

theorem getD_denseRow (n : Nat) (r : CRow) (j : Nat) (hj : j < n) : (denseRow n r).getD j 0 = r.dense j := by
  simp [denseRow, List.getD_eq_getElem?_getD, hj]

theorem length_denseRow (n : Nat) (r : CRow) : (denseRow n r).length = n := by simp [denseRow]

/-! ## the right-shift loop of FactoredLP's endCrossSum -/

theorem shiftLoop_length : ∀ (k : Nat) (b : List Rat), (shiftLoop k b).length = b.length
  | 0, _ => rfl
  | k+1, b => by
    rw [shiftLoop, shiftLoop_length k]
    split <;> simp

/-- invariant of the loop: below `k` untouched, `k` itself cleared, above `k` already shifted -/
theorem shiftLoop_inv (b0 : List Rat) : ∀ (k : Nat) (b : List Rat), b.length = b0.length → k < b0.length →
    (∀ j, j < k → b.getD j 0 = b0.getD j 0) → b.getD k 0 = 0 → (∀ j, k < j → j < b0.length → b.getD j 0 = b0.getD (j-1) 0) →
    ∀ j, j < b0.length → (shiftLoop k b).getD j 0 = if j = 0 then 0 else b0.getD (j-1) 0
  | 0, b, _, _, _, h0, hab, j, hj => by
    simp only [shiftLoop]
    by_cases hz : j = 0
    · rw [if_pos hz, hz]; exact h0
    · rw [if_neg hz]; exact hab j (by omega) hj
  | k+1, b, hl, hk, hlow, h0, hab, j, hj => by
    rw [shiftLoop]
    by_cases hne : b.getD k 0 = 0
    · simp only [hne, bne_self_eq_false, Bool.false_eq_true, if_false]
      refine shiftLoop_inv b0 k b hl (by omega) (fun i hi => hlow i (by omega)) hne ?_ j hj
      intro i hki hi
      by_cases he : i = k + 1
      · subst he; rw [h0]; simp only [Nat.add_sub_cancel]; rw [← hlow k (by omega)]; exact hne.symm
      · exact hab i (by omega) hi
    · have hne' : (b.getD k 0 != 0) = true := by simpa using hne
      simp only [hne', if_true]
      refine shiftLoop_inv b0 k _ (by simp [hl]) (by omega) ?_ ?_ ?_ j hj
      · intro i hi
        rw [getD_set, getD_set]
        have h1 : ¬ (k = i ∧ k < (b.set (k+1) (b.getD k 0)).length) := by omega
        have h2 : ¬ (k + 1 = i ∧ k + 1 < b.length) := by omega
        simp only [h1, h2, if_false]
        exact hlow i (by omega)
      · rw [getD_set]
        have : k = k ∧ k < (b.set (k+1) (b.getD k 0)).length := ⟨rfl, by simp [hl]; omega⟩
        rw [if_pos this]
      · intro i hki hi
        rw [getD_set, getD_set]
        have h1 : ¬ (k = i ∧ k < (b.set (k+1) (b.getD k 0)).length) := by omega
        simp only [h1, if_false]
        by_cases he : i = k + 1
        · subst he
          have : k + 1 = k + 1 ∧ k + 1 < b.length := ⟨rfl, by omega⟩
          rw [if_pos this, Nat.add_sub_cancel]
          exact hlow k (by omega)
        · have h2 : ¬ (k + 1 = i ∧ k + 1 < b.length) := by omega
          simp only [h2, if_false]
          exact hab i (by omega) hi

/-- **the shift loop is a right shift by one column** whenever the last column is clear -/
theorem shiftLoop_spec (b : List Rat) (hne : 0 < b.length) (hlast : b.getD (b.length - 1) 0 = 0) (j : Nat) (hj : j < b.length) :
    (shiftLoop (b.length - 1) b).getD j 0 = if j = 0 then 0 else b.getD (j-1) 0 :=
  shiftLoop_inv b (b.length - 1) b rfl (by omega) (fun _ _ => rfl) hlast (fun i h1 h2 => by omega) j hj

/-! ## dense form of the model rows -/

/-- column `j` of the row `(neg, −1) :: pos.map (·, 1)` (the last write wins) -/
def rowFn (pos : List Nat) (neg : Nat) (j : Nat) : Rat := if j ∈ pos then 1 else if j = neg then -1 else 0

theorem denseSet_append (a b : List (Nat × Rat)) (c : Nat) :
    denseSet (a ++ b) c = if c ∈ a.map (·.1) then denseSet a c else denseSet b c := by
  induction a with
  | nil => simp
  | cons e es ih =>
    simp only [List.cons_append, denseSet, List.map_cons, List.mem_cons]
    by_cases h : e.1 = c
    · simp [h]
    · have h' : ¬ c = e.1 := fun x => h x.symm
      simp only [h, if_false, h', false_or]; exact ih

theorem denseSet_const (a : List (Nat × Rat)) (v : Rat) (h : ∀ e ∈ a, e.2 = v) (c : Nat) :
    denseSet a c = if c ∈ a.map (·.1) then v else 0 := by
  induction a with
  | nil => simp [denseSet]
  | cons e es ih =>
    simp only [denseSet, List.map_cons, List.mem_cons]
    by_cases h1 : e.1 = c
    · simp [h1, h e (List.mem_cons_self)]
    · have h' : ¬ c = e.1 := fun x => h1 x.symm
      simp only [h1, if_false, h', false_or]
      exact ih (fun e he => h e (List.mem_cons_of_mem _ he))

theorem dense_headed (hd : Nat × Rat) (cols : List Nat) (rel : Rel) (rhs : Rat) (j : Nat) :
    (⟨hd :: cols.map (fun c => (c, (1 : Rat))), rel, rhs⟩ : CRow).dense j = if j ∈ cols then 1 else if hd.1 = j then hd.2 else 0 := by
  simp only [CRow.dense, List.reverse_cons, denseSet_append]
  have hc : ∀ e ∈ (cols.map (fun c => (c, (1 : Rat)))).reverse, e.2 = 1 := by
    intro e he
    obtain ⟨c, _, rfl⟩ := List.mem_map.mp (List.mem_reverse.mp he)
    rfl
  have hm : (j ∈ ((cols.map (fun c => (c, (1 : Rat)))).reverse).map (·.1)) ↔ j ∈ cols := by
    simp [List.mem_map]
  rw [denseSet_const _ 1 hc]
  by_cases hj : j ∈ cols
  · simp [hm, hj]
  · simp only [hm, hj, if_false]; simp [denseSet]

theorem dense_veRow (pos : List Nat) (neg : Nat) (rel : Rel) (rhs : Rat) (j : Nat) :
    (⟨(neg, -1) :: pos.map (fun c => (c, (1 : Rat))), rel, rhs⟩ : CRow).dense j = rowFn pos neg j := by
  rw [dense_headed]; unfold rowFn
  by_cases h1 : j ∈ pos
  · simp [h1]
  · by_cases h2 : j = neg
    · simp [h1, h2]
    · have : ¬ neg = j := fun x => h2 x.symm
      simp [h1, h2, this]

theorem dense_plain (cols : List Nat) (rel : Rel) (rhs : Rat) (j : Nat) :
    (⟨cols.map (fun c => (c, (1 : Rat))), rel, rhs⟩ : CRow).dense j = if j ∈ cols then 1 else 0 := by
  simp only [CRow.dense]
  have hc : ∀ e ∈ (cols.map (fun c => (c, (1 : Rat)))).reverse, e.2 = 1 := by
    intro e he
    obtain ⟨c, _, rfl⟩ := List.mem_map.mp (List.mem_reverse.mp he)
    rfl
  rw [denseSet_const _ 1 hc]
  simp [List.mem_map]

/-! ## executing the transcribed bodies -/

/-- `crossSum(f)`, body `lp.row[f] = 1.0;` -/
def crossStep (s : BSt) (f : Nat) : BSt := ⟨s.buf.set f 1, s.pushed⟩
/-- `beginCrossSum()`, body `lp.row.setZero(); lp.row[newFactor] = -1.0;` -/
def beginStep (neg : Nat) (st : BSt) : BSt := ⟨(List.replicate st.buf.length 0).set neg (-1), st.pushed⟩

theorem cross_eq (neg : Nat) :
    (fun (s : BSt) (f : Nat) => execBody { newFactor := neg, f := f } [.write .f 1] s) = crossStep := by
  funext s f; rfl
theorem begin_eq (neg : Nat) (st : BSt) :
    execBody { newFactor := neg } [.setZero, .write .newFactor (-1)] st = beginStep neg st := rfl

theorem fold_crossSum : ∀ (pos : List Nat) (st : BSt),
    (pos.foldl crossStep st).pushed = st.pushed ∧ (pos.foldl crossStep st).buf.length = st.buf.length ∧
      ∀ j, (pos.foldl crossStep st).buf.getD j 0 = if j ∈ pos ∧ j < st.buf.length then 1 else st.buf.getD j 0
  | [], st => by simp
  | c :: cs, st => by
    rw [List.foldl_cons]
    obtain ⟨h1, h2, h3⟩ := fold_crossSum cs (crossStep st c)
    have hl : (crossStep st c).buf.length = st.buf.length := by simp [crossStep]
    refine ⟨h1, h2.trans hl, ?_⟩
    intro j
    rw [h3 j, hl]
    have hb : (crossStep st c).buf.getD j 0 = if c = j ∧ c < st.buf.length then 1 else st.buf.getD j 0 := getD_set _ _ _ _
    rw [hb]
    by_cases hj : j < st.buf.length
    · by_cases hc : c = j
      · subst hc; simp [hj]
      · have hc' : ¬ j = c := fun x => hc x.symm
        simp [hj, hc, hc']
    · have : ¬ (c = j ∧ c < st.buf.length) := by omega
      simp [hj, this]

/-- the buffer after `beginCrossSum(); crossSum(f)…` -/
theorem begin_cross (neg : Nat) (pos : List Nat) (st : BSt) :
    (pos.foldl crossStep (beginStep neg st)).pushed = st.pushed ∧
    (pos.foldl crossStep (beginStep neg st)).buf.length = st.buf.length ∧
    ∀ j, j < st.buf.length → (pos.foldl crossStep (beginStep neg st)).buf.getD j 0 = rowFn pos neg j := by
  obtain ⟨h1, h2, h3⟩ := fold_crossSum pos (beginStep neg st)
  have hl : (beginStep neg st).buf.length = st.buf.length := by simp [beginStep]
  refine ⟨h1, h2.trans hl, ?_⟩
  intro j hj
  rw [h3 j, hl]
  have hb : (beginStep neg st).buf.getD j 0 = if neg = j ∧ neg < (List.replicate st.buf.length (0 : Rat)).length then -1 else (List.replicate st.buf.length (0 : Rat)).getD j 0 :=
    getD_set _ _ _ _
  rw [hb, getD_replicate_zero, List.length_replicate]
  unfold rowFn
  by_cases hp : j ∈ pos
  · simp [hp, hj]
  · by_cases hn : neg = j
    · subst hn; simp [hp, hj]
    · have : ¬ j = neg := fun x => hn x.symm
      simp [hp, hn, this]

theorem rowFn_shift (pos : List Nat) (neg j : Nat) :
    (if j = 0 then 0 else rowFn pos neg (j-1)) = rowFn (pos.map (fun c => c + 1)) (neg + 1) j := by
  unfold rowFn
  by_cases hz : j = 0
  · subst hz; simp
  · obtain ⟨i, rfl⟩ : ∃ i, j = i + 1 := ⟨j - 1, by omega⟩
    simp

/-- **MDP LP, one value of the eliminated variable**: the transcribed `beginCrossSum / crossSum / endCrossSum` push the dense
    form of `veRows 1 pos neg`, for every previous buffer content -/
theorem mdp_crossSumGroup (neg : Nat) (pos : List Nat) (st : BSt) :
    (crossSumGroup AITB.Gen.mdpCallbacks neg pos st).pushed = st.pushed ++ (veRows 1 pos neg).map (denseRow st.buf.length) ∧
    (crossSumGroup AITB.Gen.mdpCallbacks neg pos st).buf.length = st.buf.length := by
  obtain ⟨h1, h2, h3⟩ := begin_cross neg pos st
  have e : crossSumGroup AITB.Gen.mdpCallbacks neg pos st
      = ⟨(pos.foldl crossStep (beginStep neg st)).buf, (pos.foldl crossStep (beginStep neg st)).pushed ++ [(pos.foldl crossStep (beginStep neg st)).buf]⟩ := by
    simp only [crossSumGroup, AITB.Gen.mdpCallbacks, cross_eq, begin_eq]; rfl
  rw [e]
  refine ⟨?_, h2⟩
  simp only [h1, veRows, List.range_one, List.map_cons, List.map_nil, Nat.add_zero]
  congr 1; congr 1
  apply ext_getD _ _ (by rw [h2, length_denseRow])
  intro j hj
  rw [h2] at hj
  rw [h3 j hj, getD_denseRow _ _ _ hj, dense_veRow]

/-- **FactoredLP, one value of the eliminated variable**: the transcribed bodies (push, right-shift loop, push) push the dense
    form of `veRows 2 pos neg` — the `+` row and, one column to the right, the `−` row — for every previous buffer content -/
theorem flp_crossSumGroup (neg : Nat) (pos : List Nat) (st : BSt) (hneg : neg + 1 < st.buf.length)
    (hpos : ∀ c ∈ pos, c + 1 < st.buf.length) :
    (crossSumGroup AITB.Gen.flpCallbacks neg pos st).pushed = st.pushed ++ (veRows 2 pos neg).map (denseRow st.buf.length) ∧
    (crossSumGroup AITB.Gen.flpCallbacks neg pos st).buf.length = st.buf.length := by
  obtain ⟨h1, h2, h3⟩ := begin_cross neg pos st
  obtain ⟨B, hB⟩ : ∃ B, B = (pos.foldl crossStep (beginStep neg st)).buf := ⟨_, rfl⟩
  have e : crossSumGroup AITB.Gen.flpCallbacks neg pos st
      = ⟨shiftLoop (B.length - 1) B, (pos.foldl crossStep (beginStep neg st)).pushed ++ [B] ++ [shiftLoop (B.length - 1) B]⟩ := by
    simp only [crossSumGroup, AITB.Gen.flpCallbacks, cross_eq, begin_eq, hB]; rfl
  rw [e]
  rw [← hB] at h2 h3
  refine ⟨?_, by simp only [shiftLoop_length, h2]⟩
  have hr : List.range 2 = [0, 1] := rfl
  simp only [h1, veRows, hr, List.map_cons, List.map_nil, Nat.add_zero, List.append_assoc, List.cons_append, List.nil_append]
  congr 1; congr 1
  · apply ext_getD _ _ (by rw [h2, length_denseRow])
    intro j hj
    rw [h2] at hj
    rw [h3 j hj, getD_denseRow _ _ _ hj, dense_veRow]
  · congr 1
    apply ext_getD _ _ (by rw [shiftLoop_length, h2, length_denseRow])
    intro j hj
    rw [shiftLoop_length, h2] at hj
    have hlast : B.getD (B.length - 1) 0 = 0 := by
      rw [h2, h3 _ (by omega)]
      unfold rowFn
      have a1 : ¬ (st.buf.length - 1 ∈ pos) := fun hm => by have := hpos _ hm; omega
      have a2 : ¬ (st.buf.length - 1 = neg) := by omega
      simp [a1, a2]
    rw [shiftLoop_spec B (by rw [h2]; omega) hlast j (by rw [h2]; exact hj)]
    rw [getD_denseRow _ _ _ hj]
    have e2 : (⟨(neg + 1, -1) :: pos.map (fun c => (c + 1, (1 : Rat))), .le, 0⟩ : CRow)
        = ⟨(neg + 1, -1) :: (pos.map (fun c => c + 1)).map (fun c => (c, (1 : Rat))), .le, 0⟩ := by simp
    rw [e2, dense_veRow, ← rowFn_shift]
    by_cases hz : j = 0
    · simp [hz]
    · simp only [hz, if_false]; exact h3 (j-1) (by omega)

/-! ## makeResult -/

theorem fold_set_one : ∀ (cols : List Nat) (b : List Rat),
    (cols.foldl (fun b r => b.set r (1 : Rat)) b).length = b.length ∧
    ∀ j, (cols.foldl (fun b r => b.set r (1 : Rat)) b).getD j 0 = if j ∈ cols ∧ j < b.length then 1 else b.getD j 0
  | [], b => by simp
  | c :: cs, b => by
    rw [List.foldl_cons]
    obtain ⟨h2, h3⟩ := fold_set_one cs (b.set c 1)
    refine ⟨by rw [h2, List.length_set], ?_⟩
    intro j
    rw [h3 j, List.length_set, getD_set]
    by_cases hj : j < b.length
    · by_cases hc : c = j
      · subst hc; simp [hj]
      · have hc' : ¬ j = c := fun x => hc x.symm
        simp [hj, hc, hc']
    · have : ¬ (c = j ∧ c < b.length) := by omega
      simp [hj, this]

/-- the clear-and-set loop of FactoredLP's makeResult, `for (ruleId : finalFactors) { row[ruleId] = 0.0; row[ruleId+1] = 1.0; }`:
    with `P` already visited and `Q` still to visit it turns the `+` final row into the `−` final row, PROVIDED no final column
    is the right neighbour of another one and none is `phiId` (otherwise a later clear would undo an earlier set) -/
theorem clearSet_inv (phi n : Nat) : ∀ (Q P : List Nat) (b : List Rat), b.length = n →
    (∀ j, j < n → b.getD j 0 = if j ∈ P.map (· + 1) then 1 else if j ∈ Q then 1 else if j = phi then -1 else 0) →
    Q.Nodup → (∀ c ∈ Q, c ≠ phi) → (∀ c ∈ Q, ∀ c' ∈ P ++ Q, c ≠ c' + 1) → (∀ c ∈ Q, c + 1 < n) →
    (Q.foldl (fun b r => (b.set r (0 : Rat)).set (r + 1) 1) b).length = n ∧
    ∀ j, j < n → (Q.foldl (fun b r => (b.set r (0 : Rat)).set (r + 1) 1) b).getD j 0
        = if j ∈ (P ++ Q).map (· + 1) then 1 else if j = phi then -1 else 0
  | [], P, b, hl, hb, _, _, _, _ => by
    refine ⟨hl, fun j hj => ?_⟩
    simpa using hb j hj
  | c :: cs, P, b, hl, hb, hnd, hphi, hsp, hin => by
    rw [List.foldl_cons]
    have hnd' := List.nodup_cons.mp hnd
    have ih := clearSet_inv phi n cs (P ++ [c]) ((b.set c 0).set (c + 1) 1) (by simp [hl]) ?_ hnd'.2
      (fun x hx => hphi x (List.mem_cons_of_mem _ hx))
      (fun x hx c' hc' => hsp x (List.mem_cons_of_mem _ hx) c' (by
        simp only [List.append_assoc, List.cons_append, List.nil_append] at hc'; exact hc'))
      (fun x hx => hin x (List.mem_cons_of_mem _ hx))
    · simpa [List.append_assoc] using ih
    · intro j hj
      rw [getD_set, getD_set, List.length_set]
      have hc1 := hin c List.mem_cons_self
      by_cases h1 : c + 1 = j
      · subst h1
        have : c + 1 = c + 1 ∧ c + 1 < b.length := ⟨rfl, by omega⟩
        rw [if_pos this]
        have : c + 1 ∈ (P ++ [c]).map (· + 1) := by simp
        rw [if_pos this]
      · have n1 : ¬ (c + 1 = j ∧ c + 1 < b.length) := fun x => h1 x.1
        rw [if_neg n1]
        by_cases h2 : c = j
        · subst h2
          have : c = c ∧ c < b.length := ⟨rfl, by omega⟩
          rw [if_pos this]
          have a1 : ¬ (c ∈ (P ++ [c]).map (· + 1)) := by
            intro hm
            obtain ⟨c', hc', e⟩ := List.mem_map.mp hm
            have hc'' : c' ∈ P ++ c :: cs := by
              rcases List.mem_append.mp hc' with h | h
              · exact List.mem_append.mpr (Or.inl h)
              · exact List.mem_append.mpr (Or.inr (by simp at h; simp [h]))
            exact hsp c List.mem_cons_self c' hc'' e.symm
          have a2 : ¬ (c ∈ cs) := hnd'.1
          have a3 : ¬ (c = phi) := hphi c List.mem_cons_self
          rw [if_neg a1, if_neg a2, if_neg a3]
        · have n2 : ¬ (c = j ∧ c < b.length) := fun x => h2 x.1
          rw [if_neg n2, hb j hj]
          have e1 : (j ∈ (P ++ [c]).map (· + 1)) ↔ (j ∈ P.map (· + 1)) := by
            simp only [List.map_append, List.mem_append, List.map_cons, List.map_nil, List.mem_cons, List.mem_nil_iff, or_false]
            constructor
            · rintro (h | h)
              · exact h
              · exact absurd h.symm h1
            · exact Or.inl
          have e2 : (j ∈ c :: cs) ↔ (j ∈ cs) := by
            simp only [List.mem_cons]
            constructor
            · rintro (h | h)
              · exact absurd h.symm h2
              · exact h
            · exact Or.inr
          simp only [e1, e2]

/-- **MDP LP, makeResult** (the source pushes ONE row for the sum of the final factors): the transcribed body pushes the dense
    form of `mdpFinalRows true finals`, for every buffer content -/
theorem mdp_makeResult (finals : List Nat) (st : BSt) :
    (execBody { finals := finals } AITB.Gen.mdpCallbacks.makeResult st).pushed
      = st.pushed ++ (mdpFinalRows true finals).map (denseRow st.buf.length) := by
  obtain ⟨h2, h3⟩ := fold_set_one finals (List.replicate st.buf.length 0)
  have e : (execBody { finals := finals } AITB.Gen.mdpCallbacks.makeResult st).pushed
      = st.pushed ++ [finals.foldl (fun b r => b.set r (1 : Rat)) (List.replicate st.buf.length 0)] := rfl
  rw [e]
  simp only [mdpFinalRows, if_true, List.map_cons, List.map_nil]
  congr 1; congr 1
  apply ext_getD _ _ (by rw [h2, length_denseRow, List.length_replicate])
  intro j hj
  rw [h2, List.length_replicate] at hj
  rw [h3 j, getD_denseRow _ _ _ hj, dense_plain, getD_replicate_zero, List.length_replicate]
  simp [hj]

/-- **FactoredLP, makeResult**: the transcribed body pushes the dense form of `flpFinalRows phi finals` (the `+` row, then —
    through the clear-and-set loop — the `−` row), for every buffer content, when the final columns are distinct, none of them is
    `phiId` or the right neighbour of another one, and all fit (`flpFinals_spaced` shows this for every run of the generator) -/
theorem flp_makeResult (phi : Nat) (finals : List Nat) (st : BSt)
    (hnd : finals.Nodup) (hne : ∀ c ∈ finals, c ≠ phi) (hsp : ∀ c ∈ finals, ∀ c' ∈ finals, c ≠ c' + 1)
    (hin : ∀ c ∈ finals, c + 1 < st.buf.length) :
    (execBody { phi := phi, finals := finals } AITB.Gen.flpCallbacks.makeResult st).pushed
      = st.pushed ++ (flpFinalRows phi finals).map (denseRow st.buf.length) := by
  obtain ⟨B0, hB0⟩ : ∃ B0, B0 = (List.replicate st.buf.length (0 : Rat)).set phi (-1) := ⟨_, rfl⟩
  obtain ⟨B1, hB1⟩ : ∃ B1, B1 = finals.foldl (fun b r => b.set r (1 : Rat)) B0 := ⟨_, rfl⟩
  have e : (execBody { phi := phi, finals := finals } AITB.Gen.flpCallbacks.makeResult st).pushed
      = st.pushed ++ [B1] ++ [finals.foldl (fun b r => (b.set r (0 : Rat)).set (r + 1) 1) B1] := by
    rw [hB1, hB0]; rfl
  rw [e]
  have hl0 : B0.length = st.buf.length := by rw [hB0]; simp
  obtain ⟨h2, h3⟩ := fold_set_one finals B0
  rw [← hB1] at h2 h3
  have hB1v : ∀ j, j < st.buf.length → B1.getD j 0 = rowFn finals phi j := by
    intro j hj
    rw [h3 j, hl0, hB0, getD_set, getD_replicate_zero, List.length_replicate]
    unfold rowFn
    by_cases hp : j ∈ finals
    · simp [hp, hj]
    · by_cases hn : phi = j
      · subst hn; simp [hp, hj]
      · have : ¬ j = phi := fun x => hn x.symm
        simp [hp, hn, this]
  obtain ⟨k2, k3⟩ := clearSet_inv phi st.buf.length finals [] B1 (by rw [h2, hl0])
    (fun j hj => by rw [hB1v j hj]; simp [rowFn]) hnd hne (fun c hc c' hc' => hsp c hc c' (by simpa using hc')) hin
  simp only [flpFinalRows, List.map_cons, List.map_nil, List.append_assoc, List.cons_append, List.nil_append]
  congr 1; congr 1
  · apply ext_getD _ _ (by rw [h2, hl0, length_denseRow])
    intro j hj
    rw [h2, hl0] at hj
    rw [hB1v j hj, getD_denseRow _ _ _ hj, dense_veRow]
  · congr 1
    apply ext_getD _ _ (by rw [k2, length_denseRow])
    intro j hj
    rw [k2] at hj
    rw [k3 j hj, getD_denseRow _ _ _ hj]
    have e2 : (⟨(phi, -1) :: finals.map (fun c => (c + 1, (1 : Rat))), .le, 0⟩ : CRow)
        = ⟨(phi, -1) :: (finals.map (fun c => c + 1)).map (fun c => (c, (1 : Rat))), .le, 0⟩ := by simp
    rw [e2, dense_veRow]
    simp [rowFn]

/-- the spacing hypothesis is needed: with two ADJACENT final columns the loop clears what it has just set and the second row
    loses a term (test on literals; the generator never produces this — `flpFinals_spaced`) -/
example : (execBody { phi := 0, finals := [1, 2] } AITB.Gen.flpCallbacks.makeResult ⟨[0, 0, 0, 0], []⟩).pushed
    ≠ (flpFinalRows 0 [1, 2]).map (denseRow 4) := by decide +kernel

/-- the hypotheses are satisfiable (test on literals): φ = column 0, finals = columns 1 and 3 of 5 -/
example : (execBody { phi := 0, finals := [1, 3] } AITB.Gen.flpCallbacks.makeResult ⟨[7, 7, 7, 7, 7], []⟩).pushed
    = (flpFinalRows 0 [1, 3]).map (denseRow 5) := by decide +kernel

/-! ## the generator keeps its columns `sides` apart, so FactoredLP's final columns satisfy the hypotheses of `flp_makeResult` -/

/-- any two columns held by the graph / the final factors are at least `sides` apart -/
def Spaced (sides : Nat) (l : List Nat) : Prop := l.Pairwise (fun a b => a + sides ≤ b ∨ b + sides ≤ a)

theorem spaced_perm {sides : Nat} {l1 l2 : List Nat} (h : l1.Perm l2) : Spaced sides l1 ↔ Spaced sides l2 :=
  h.pairwise_iff (fun h => h.symm)

theorem spaced_forall {sides : Nat} : ∀ {l : List Nat}, Spaced sides l → ∀ a ∈ l, ∀ b ∈ l, a ≠ b → a + sides ≤ b ∨ b + sides ≤ a
  | [], _, a, ha, _, _, _ => by simp at ha
  | x :: xs, h, a, ha, b, hb, hab => by
    have h' := List.pairwise_cons.mp h
    rcases List.mem_cons.mp ha with rfl | ha' <;> rcases List.mem_cons.mp hb with rfl | hb'
    · exact absurd rfl hab
    · exact h'.1 b hb'
    · exact (h'.1 a ha').symm
    · exact spaced_forall h'.2 a ha' b hb' hab

theorem spaced_add_cols (base sides : Nat) (st st' : GenSt) (new : List Nat)
    (hperm : (allCols st').Perm (new ++ allCols st)) (hn : NInv base sides st) (hsp : Spaced sides (allCols st))
    (hnew : Spaced sides new) (hlo : ∀ c ∈ new, st.ncols ≤ c) : Spaced sides (allCols st') := by
  rw [spaced_perm hperm]
  refine List.pairwise_append.mpr ⟨hnew, hsp, ?_⟩
  intro a ha b hb
  have h1 := hlo a ha
  have h2 := hn.high b hb
  right; omega

section sp
variable (A : List Nat) (n : Nat) (sides : Nat)

theorem removeLoop_one (nb : List Nat) (v : Nat) (factors : List LNode) (cnt j : Nat) (st : GenSt) :
    removeLoop A n sides nb v factors (cnt+1) j st
      = removeLoop A n sides nb v factors cnt (j+1) (removeLoop A n sides nb v factors 1 j st) := by
  rw [removeLoop_succ, removeLoop_succ]; rfl

theorem removeLoop_one_cols (nb : List Nat) (v : Nat) (factors : List LNode) (j : Nat) (st : GenSt) :
    (removeLoop A n sides nb v factors 1 j st).ncols = st.ncols + sides ∧
    (allCols (removeLoop A n sides nb v factors 1 j st)).Perm (st.ncols :: allCols st) := by
  rw [removeLoop_succ]
  by_cases he : nb.isEmpty = true
  · simp only [he, if_true, removeLoop, true_and]
    simp only [allCols, ← List.append_assoc]
    exact List.perm_append_singleton _ _
  · have he' : nb.isEmpty = false := by simpa using he
    simp only [he', Bool.false_eq_true, if_false, removeLoop, true_and]
    simp only [allCols]
    exact (List.Perm.append_right _ (gCols_addRule_perm nb (j, st.ncols) st.graph))

theorem removeLoop_spaced (base : Nat) (hs : 0 < sides) (nb : List Nat) (v : Nat) (factors : List LNode)
    (hfN : (gCols factors).Nodup) : ∀ (cnt j : Nat) (st : GenSt),
    (∀ c ∈ gCols factors, c < st.ncols) → base ≤ st.ncols → NInv base sides st → RClean st → Spaced sides (allCols st) →
    Spaced sides (allCols (removeLoop A n sides nb v factors cnt j st))
  | 0, _, _, _, _, _, _, hsp => hsp
  | cnt+1, j, st, hfH, hb, hn, hr, hsp => by
    have one := removeLoop_clean A n sides base hs nb v factors hfN 1 j st hfH hb hn hr
    obtain ⟨hc, hp⟩ := removeLoop_one_cols A n sides nb v factors j st
    rw [removeLoop_one]
    refine removeLoop_spaced base hs nb v factors hfN cnt (j+1) _ (fun c hc' => by have := hfH c hc'; omega) (by omega) one.1 one.2 ?_
    rw [spaced_perm hp]
    refine List.pairwise_cons.mpr ⟨fun c hc' => ?_, hsp⟩
    have := hn.high c hc'
    right; omega

theorem removeVar_spaced (base : Nat) (hs : 0 < sides) (v : Nat) (st : GenSt) (hb : base ≤ st.ncols)
    (hn : NInv base sides st) (hr : RClean st) (hsp : Spaced sides (allCols st)) :
    Spaced sides (allCols (removeVar A n sides v st)) := by
  simp only [removeVar]
  obtain ⟨g, hg⟩ : ∃ g, g = (if (nbrs n v (st.graph.map (·.keys))).isEmpty || st.graph.any (fun nd => nd.keys == nbrs n v (st.graph.map (·.keys))) then st.graph else st.graph ++ [⟨nbrs n v (st.graph.map (·.keys)), []⟩]) := ⟨_, rfl⟩
  rw [← hg]
  have hgc : gCols g = gCols st.graph := by
    rw [hg]; split
    · rfl
    · simp [gCols]
  have hn' : NInv base sides { st with graph := g } := by
    refine ⟨?_, ?_, ?_⟩ <;> simp only [allCols, hgc]
    · exact hn.nodup
    · exact hn.low
    · exact hn.high
  have hsp' : Spaced sides (allCols { st with graph := g }) := by simpa only [allCols, hgc] using hsp
  have hsub := gCols_filter_sublist (fun nd => nd.keys.contains v) st.graph
  have hgn : (gCols st.graph).Nodup := (List.nodup_append.mp hn.nodup).1
  have h1 := removeLoop_spaced A n sides base hs (nbrs n v (st.graph.map (·.keys))) v
    (st.graph.filter (fun nd => nd.keys.contains v)) (List.Pairwise.sublist hsub hgn)
    (spacePartial (nbrs n v (st.graph.map (·.keys))) A) 0 { st with graph := g }
    (fun c hc => by
      have := hn.high c (List.mem_append.mpr (Or.inl (hsub.subset hc)))
      simp only; omega) hb hn' hr hsp'
  refine List.Pairwise.sublist ?_ h1
  simp only [allCols]
  exact List.Sublist.append (gCols_filter_sublist _ _) (List.Sublist.refl _)

theorem genLoop_spaced (base : Nat) (hs : 0 < sides) : ∀ (fuel : Nat) (active : List Nat) (st : GenSt),
    base ≤ st.ncols → NInv base sides st → RClean st → Spaced sides (allCols st) →
    Spaced sides (allCols (genLoop A n sides fuel active st))
  | 0, _, _, _, _, _, hsp => hsp
  | _+1, [], _, _, _, _, hsp => hsp
  | fuel+1, x :: xs, st, hb, hn, hr, hsp => by
    simp only [genLoop]
    obtain ⟨h1, h2⟩ := removeVar_clean A n sides base hs (bestVar A n (x :: xs) (st.graph.map (·.keys))) st hb hn hr
    have hb' : base ≤ (removeVar A n sides (bestVar A n (x :: xs) (st.graph.map (·.keys))) st).ncols :=
      le_trans hb (removeVar_ncols_ge A n sides _ st)
    exact genLoop_spaced base hs fuel _ _ hb' h1 h2 (removeVar_spaced A n sides base hs _ st hb hn hr hsp)

end sp

theorem entryLoop_spaced (mk : Nat → Rat → List CRow) : ∀ (vals : List Rat) (i col : Nat),
    Spaced 2 ((entryLoop mk vals i col).1.map (·.2))
  | [], _, _ => by simp [entryLoop, Spaced]
  | q :: qs, i, col => by
    have ih := entryLoop_spaced mk qs (i+1) (col+2)
    obtain ⟨_, h2⟩ := entryLoop_cols mk qs (i+1) (col+2)
    simp only [entryLoop, List.map_cons]
    refine List.pairwise_cons.mpr ⟨fun c hc => ?_, ih⟩
    have := (h2 c hc).1
    left; omega

theorem addBasis_spaced (mk : Nat → Rat → List CRow) (base : Nat) (tag : List Nat) (vals : List Rat)
    (st : GenSt) (hn : NInv base 2 st) (hsp : Spaced 2 (allCols st)) : Spaced 2 (allCols (addBasis mk tag vals st)) := by
  obtain ⟨_, c2⟩ := entryLoop_cols mk vals 0 st.ncols
  refine spaced_add_cols base 2 st _ ((entryLoop mk vals 0 st.ncols).1.map (·.2)) ?_ hn hsp (entryLoop_spaced mk vals 0 st.ncols)
    (fun c hc => (c2 c hc).1)
  simp only [allCols, addBasis, ← List.append_assoc]
  exact List.Perm.append_right _ (gCols_addRules_perm tag _ st.graph)

theorem setupLoop_spaced (mkOf : Nat → Nat → Rat → List CRow) (base kmax : Nat) (hmk : ∀ k, k < kmax → MkClean (mkOf k) base) :
    ∀ (L : List Basis) (k : Nat) (st : GenSt), k + L.length ≤ kmax → base ≤ st.ncols → NInv base 2 st → RClean st →
      Spaced 2 (allCols st) → Spaced 2 (allCols (setupLoop mkOf L k st))
  | [], _, _, _, _, _, _, hsp => hsp
  | f :: fs, k, st, hk, hb, hn, hr, hsp => by
    obtain ⟨h1, h2⟩ := addBasis_clean (mkOf k) base (hmk k (by simp at hk; omega)) f.tag f.vals st hb hn hr
    exact setupLoop_spaced mkOf base kmax hmk fs (k+1) _ (by simp at hk ⊢; omega) (by simp only [addBasis]; omega) h1 h2
      (addBasis_spaced (mkOf k) base f.tag f.vals st hn hsp)

/-- **every run of FactoredLP's generator ends with final columns that satisfy the hypotheses of `flp_makeResult`**: distinct,
    above `phiId`, at least two apart, and with their right neighbour inside the LP — for all spaces, bases and targets -/
theorem flpFinals_spaced (S : List Nat) (C b : List Basis) (addConst : Bool) :
    let st := genRun S S.length 2 (flpSetup C b addConst)
    st.finals.Nodup ∧ (∀ c ∈ st.finals, c ≠ flpPhi C addConst) ∧ (∀ c ∈ st.finals, ∀ c' ∈ st.finals, c ≠ c' + 1) ∧
      (∀ c ∈ st.finals, c + 1 < st.ncols) ∧ flpPhi C addConst < st.ncols := by
  obtain ⟨phi, hphi⟩ : ∃ phi, phi = flpPhi C addConst := ⟨_, rfl⟩
  have hphiC : C.length ≤ phi := by rw [hphi]; simp only [flpPhi]; omega
  have init : NInv (phi + 1) 2 (⟨[], [], phi + 1, []⟩ : GenSt) :=
    ⟨by simp [allCols, gCols], fun c hc => by simp [allCols, gCols] at hc, fun c hc => by simp [allCols, gCols] at hc⟩
  have initr : RClean (⟨[], [], phi + 1, []⟩ : GenSt) := fun r hr => by simp at hr
  have inits : Spaced 2 (allCols (⟨[], [], phi + 1, []⟩ : GenSt)) := by simp [allCols, gCols, Spaced]
  have hmkC : ∀ k, k < C.length → MkClean (flpCRows addConst (phi - 1) (constCoeff C) k) (phi + 1) := by
    intro k hk
    by_cases hc : addConst = true
    · have : phi = C.length + 1 := by rw [hphi]; simp [flpPhi, hc]
      exact flpCRows_clean addConst (phi - 1) (constCoeff C) k (phi + 1) (by omega) (by omega) (by omega)
    · have hc' : addConst = false := by simpa using hc
      subst hc'
      intro col q hb r hr
      simp only [flpCRows, List.mem_cons, List.mem_nil_iff, or_false, List.append_nil, if_false, Bool.false_eq_true] at hr
      rcases hr with rfl | rfl <;>
        simp only [Clean, List.map_cons, List.map_nil, List.nodup_cons, List.mem_cons, List.mem_nil_iff, or_false,
                   List.nodup_nil, and_true, not_false_eq_true] <;> omega
  obtain ⟨n1, r1, b1⟩ := setupLoop_clean _ (phi + 1) C.length hmkC C 0 ⟨[], [], phi + 1, []⟩ (by omega) (le_refl _) init initr
  have s1 := setupLoop_spaced _ (phi + 1) C.length hmkC C 0 ⟨[], [], phi + 1, []⟩ (by omega) (le_refl _) init initr inits
  obtain ⟨n2, r2, b2⟩ := setupLoop_clean (fun _ => flpBRows) (phi + 1) b.length (fun k _ => flpBRows_clean (phi + 1)) b 0 _ (by omega) b1 n1 r1
  have s2 := setupLoop_spaced (fun _ => flpBRows) (phi + 1) b.length (fun k _ => flpBRows_clean (phi + 1)) b 0 _ (by omega) b1 n1 r1 s1
  have hst0 : flpSetup C b addConst = setupLoop (fun _ => flpBRows) b 0
      (setupLoop (flpCRows addConst (phi - 1) (constCoeff C)) C 0 ⟨[], [], phi + 1, []⟩) := by
    simp only [flpSetup, hphi]
    rw [flpSetupC_eq, flpSetupB_eq _ 0]
  obtain ⟨n3, _⟩ := genLoop_clean S S.length 2 (phi + 1) (by omega) S.length (List.range S.length) _ b2 n2 r2
  have s3 := genLoop_spaced S S.length 2 (phi + 1) (by omega) S.length (List.range S.length) _ b2 n2 r2 s2
  have hb3 : phi + 1 ≤ (genLoop S S.length 2 S.length (List.range S.length) (setupLoop (fun _ => flpBRows) b 0
      (setupLoop (flpCRows addConst (phi - 1) (constCoeff C)) C 0 ⟨[], [], phi + 1, []⟩))).ncols := by
    have : ∀ (fuel : Nat) (act : List Nat) (st : GenSt), st.ncols ≤ (genLoop S S.length 2 fuel act st).ncols := by
      intro fuel
      induction fuel with
      | zero => intro act st; simp [genLoop]
      | succ f ih =>
        intro act st
        cases act with
        | nil => simp [genLoop]
        | cons x xs =>
          simp only [genLoop]
          exact le_trans (removeVar_ncols_ge S S.length 2 _ st) (ih _ _)
    exact le_trans b2 (this _ _ _)
  simp only [genRun, hst0, ← hphi]
  have hfin : ∀ c ∈ (genLoop S S.length 2 S.length (List.range S.length) (setupLoop (fun _ => flpBRows) b 0
      (setupLoop (flpCRows addConst (phi - 1) (constCoeff C)) C 0 ⟨[], [], phi + 1, []⟩))).finals,
      c ∈ allCols (genLoop S S.length 2 S.length (List.range S.length) (setupLoop (fun _ => flpBRows) b 0
      (setupLoop (flpCRows addConst (phi - 1) (constCoeff C)) C 0 ⟨[], [], phi + 1, []⟩))) :=
    fun c hc => List.mem_append.mpr (Or.inr hc)
  refine ⟨(List.nodup_append.mp n3.nodup).2.1, ?_, ?_, ?_, by omega⟩
  · intro c hc; have := n3.low c (hfin c hc); omega
  · intro c hc c' hc' e
    by_cases hcc : c = c'
    · omega
    · have := spaced_forall s3 c (hfin c hc) c' (hfin c' hc') hcc; omega
  · intro c hc; have := n3.high c (hfin c hc); omega

/-- **FactoredLP's makeResult on every run**: whatever the buffer holds when `makeResult` is called (width = number of LP
    columns), the transcribed body pushes the dense form of the last two rows of `flpGen` — no hypothesis left -/
theorem flp_makeResult_run (S : List Nat) (C b : List Basis) (addConst : Bool) (buf : List Rat) (pushed : List (List Rat))
    (hw : buf.length = (flpGen S C b addConst).2) :
    (execBody { phi := flpPhi C addConst, finals := (genRun S S.length 2 (flpSetup C b addConst)).finals }
        AITB.Gen.flpCallbacks.makeResult ⟨buf, pushed⟩).pushed
      = pushed ++ (flpFinalRows (flpPhi C addConst) (genRun S S.length 2 (flpSetup C b addConst)).finals).map (denseRow buf.length) := by
  obtain ⟨h1, h2, h3, h4, _⟩ := flpFinals_spaced S C b addConst
  have hw' : buf.length = (genRun S S.length 2 (flpSetup C b addConst)).ncols := hw
  exact flp_makeResult _ _ ⟨buf, pushed⟩ h1 h2 h3 (fun c hc => by rw [show (BSt.mk buf pushed).buf.length = buf.length from rfl, hw']; exact h4 c hc)

/-- the form in which `removeFactor` calls the three cross-sum callbacks: `initNewFactor` has just taken the columns `neg`,
    `neg+1` (buffer width `neg + 2`, content unspecified) and every matched rule column lies below `neg` — which is what
    `overValues_clean` establishes for every call of every run -/
theorem flp_crossSumGroup_run (neg : Nat) (pos : List Nat) (hpos : ∀ c ∈ pos, c < neg) (st : BSt) (hw : st.buf.length = neg + 2) :
    (crossSumGroup AITB.Gen.flpCallbacks neg pos st).pushed = st.pushed ++ (veRows 2 pos neg).map (denseRow (neg + 2)) := by
  rw [← hw]
  exact (flp_crossSumGroup neg pos st (by omega) (fun c hc => by have := hpos c hc; omega)).1

/-- satisfiable and non-trivial (test on literals): rules in columns 3 and 5, new factor in columns 7/8, junk in the buffer -/
example : (crossSumGroup AITB.Gen.flpCallbacks 7 [3, 5] ⟨[9, 9, 9, 9, 9, 9, 9, 9, 9], []⟩).pushed
    = [[0, 0, 0, 1, 0, 1, 0, -1, 0], [0, 0, 0, 0, 1, 0, 1, 0, -1]] := by decide +kernel

/-! ## the two setup loops of FactoredLP::operator(): a persistent buffer patched by hand -/

theorem getD_set_lt (b : List Rat) (i j : Nat) (a : Rat) (h : i < b.length) :
    (b.set i a).getD j 0 = if i = j then a else b.getD j 0 := by
  rw [getD_set]; simp [h]

/-- dense form of a row with two / three written columns (last write wins) -/
theorem dense_two (a b : Nat) (x y : Rat) (rel : Rel) (rhs : Rat) (j : Nat) :
    (⟨[(a, x), (b, y)], rel, rhs⟩ : CRow).dense j = if b = j then y else if a = j then x else 0 := by
  simp [CRow.dense, denseSet]

theorem dense_three (a b c : Nat) (x y z : Rat) (rel : Rel) (rhs : Rat) (j : Nat) :
    (⟨[(a, x), (b, y), (c, z)], rel, rhs⟩ : CRow).dense j = if c = j then z else if b = j then y else if a = j then x else 0 := by
  simp [CRow.dense, denseSet]

theorem dense_one (a : Nat) (x : Rat) (rel : Rel) (rhs : Rat) (j : Nat) :
    (⟨[(a, x)], rel, rhs⟩ : CRow).dense j = if a = j then x else 0 := by
  simp [CRow.dense, denseSet]

/-- the buffer is clear except (possibly) at the weight column and — when the constant basis is requested — the constant column -/
def ClearExcept (e : SEnv) (buf : List Rat) : Prop :=
  ∀ j, j < buf.length → j ≠ e.weight → ¬ (e.addConst = true ∧ j = e.constId) → buf.getD j 0 = 0

/-- **second setup loop of FactoredLP (target `b`), one entry**: the transcribed body pushes the dense forms of `flpBRows col q` with
    their right-hand sides and leaves the buffer as clear as it found it -/
theorem flpSetupB_body (e : SEnv) (st : SSt) (hr : e.rule + 1 < st.buf.length)
    (hz : ∀ j, j < st.buf.length → st.buf.getD j 0 = 0) :
    (execSBody e AITB.Gen.flpSetupBBody st).pushed
        = st.pushed ++ (flpBRows e.rule e.q).map (fun r => (denseRow st.buf.length r, r.rhs)) ∧
    (execSBody e AITB.Gen.flpSetupBBody st).buf.length = st.buf.length ∧
    ∀ j, j < st.buf.length → (execSBody e AITB.Gen.flpSetupBBody st).buf.getD j 0 = 0 := by
  simp only [AITB.Gen.flpSetupBBody, execSBody, execS, sIx, sVal, flpBRows, List.map_cons, List.map_nil]
  refine ⟨?_, by simp, ?_⟩
  · simp only [List.append_assoc, List.cons_append, List.nil_append]
    congr 1
    have r1 : st.buf.set e.rule 1 = denseRow st.buf.length ⟨[(e.rule, 1)], .eq, -e.q⟩ := by
      apply ext_getD _ _ (by simp [length_denseRow])
      intro j hj
      rw [List.length_set] at hj
      rw [getD_set_lt _ _ _ _ (by omega), getD_denseRow _ _ _ hj, dense_one]
      split
      · rfl
      · exact hz j hj
    have r2 : ((st.buf.set e.rule 1).set e.rule 0).set (e.rule + 1) 1 = denseRow st.buf.length ⟨[(e.rule + 1, 1)], .eq, e.q⟩ := by
      apply ext_getD _ _ (by simp [length_denseRow])
      intro j hj
      simp only [List.length_set] at hj
      rw [getD_set_lt _ _ _ _ (by simp; omega), getD_set_lt _ _ _ _ (by simp; omega), getD_set_lt _ _ _ _ (by omega),
        getD_denseRow _ _ _ hj, dense_one]
      by_cases h1 : e.rule + 1 = j
      · simp [h1]
      · by_cases h2 : e.rule = j
        · simp [h1, h2]
        · rw [if_neg h1, if_neg h2, if_neg h2, if_neg h1]; exact hz j hj
    rw [r2, r1]
  · intro j hj
    rw [getD_set_lt _ _ _ _ (by simp; omega), getD_set_lt _ _ _ _ (by simp; omega), getD_set_lt _ _ _ _ (by simp; omega),
      getD_set_lt _ _ _ _ (by omega)]
    by_cases h1 : e.rule + 1 = j
    · simp [h1]
    · by_cases h2 : e.rule = j
      · simp [h1, h2]
      · rw [if_neg h1, if_neg h1, if_neg h2, if_neg h2]; exact hz j hj

/-- **first setup loop of FactoredLP (bases `C`), one entry**: the transcribed body — two pushes on a buffer that is NOT cleared
    in between, only patched by hand (`row[currentRule] = 0.0` …) — pushes the dense forms of `flpCRows` and re-establishes
    `ClearExcept`, whatever the weight column (and, with the constant basis, the constant column) held before -/
theorem flpSetupC_body (e : SEnv) (st : SSt) (hr : e.rule + 1 < st.buf.length) (hw : e.weight < st.buf.length)
    (hc : e.addConst = true → e.constId < st.buf.length)
    (hz : ClearExcept e st.buf) :
    (execSBody e AITB.Gen.flpSetupCBody st).pushed
        = st.pushed ++ (flpCRows e.addConst e.constId e.cc e.weight e.rule e.q).map (fun r => (denseRow st.buf.length r, r.rhs)) ∧
    (execSBody e AITB.Gen.flpSetupCBody st).buf.length = st.buf.length ∧
    ClearExcept e (execSBody e AITB.Gen.flpSetupCBody st).buf := by
  cases hac : e.addConst
  · -- no constant basis
    have hz' : ∀ j, j < st.buf.length → j ≠ e.weight → st.buf.getD j 0 = 0 := fun j hj hjw => hz j hj hjw (by simp [hac])
    simp only [AITB.Gen.flpSetupCBody, execSBody, execS, sIx, sVal, hac, flpCRows, List.map_cons, List.map_nil,
      Bool.false_eq_true, if_false, List.append_nil]
    refine ⟨?_, by simp, ?_⟩
    · simp only [List.append_assoc, List.cons_append, List.nil_append]
      congr 1
      have r1 : (st.buf.set e.rule (-1)).set e.weight e.q = denseRow st.buf.length ⟨[(e.rule, -1), (e.weight, e.q)], .eq, 0⟩ := by
        apply ext_getD _ _ (by simp [length_denseRow])
        intro j hj
        simp only [List.length_set] at hj
        rw [getD_set_lt _ _ _ _ (by simp; omega), getD_set_lt _ _ _ _ (by omega), getD_denseRow _ _ _ hj, dense_two]
        by_cases h1 : e.weight = j
        · simp [h1]
        · by_cases h2 : e.rule = j
          · simp [h1, h2]
          · rw [if_neg h1, if_neg h2, if_neg h1, if_neg h2]; exact hz' j hj (fun x => h1 x.symm)
      have r2 : ((((st.buf.set e.rule (-1)).set e.weight e.q).set e.rule 0).set (e.rule + 1) (-1)).set e.weight (-e.q)
          = denseRow st.buf.length ⟨[(e.rule + 1, -1), (e.weight, -e.q)], .eq, 0⟩ := by
        apply ext_getD _ _ (by simp [length_denseRow])
        intro j hj
        simp only [List.length_set] at hj
        rw [getD_set_lt _ _ _ _ (by simp; omega), getD_set_lt _ _ _ _ (by simp; omega), getD_set_lt _ _ _ _ (by simp; omega),
          getD_set_lt _ _ _ _ (by simp; omega), getD_set_lt _ _ _ _ (by omega), getD_denseRow _ _ _ hj, dense_two]
        by_cases h1 : e.weight = j
        · simp [h1]
        · by_cases h3 : e.rule + 1 = j
          · simp [h1, h3]
          · by_cases h2 : e.rule = j
            · simp [h1, h2, h3]
            · rw [if_neg h1, if_neg h3, if_neg h2, if_neg h1, if_neg h2, if_neg h1, if_neg h3]; exact hz' j hj (fun x => h1 x.symm)
      rw [r2, r1]
    · intro j hj hjw _
      simp only [List.length_set] at hj
      rw [getD_set_lt _ _ _ _ (by simp; omega), getD_set_lt _ _ _ _ (by simp; omega), getD_set_lt _ _ _ _ (by simp; omega),
        getD_set_lt _ _ _ _ (by simp; omega), getD_set_lt _ _ _ _ (by simp; omega), getD_set_lt _ _ _ _ (by omega)]
      have h1 : ¬ e.weight = j := fun x => hjw x.symm
      by_cases h3 : e.rule + 1 = j
      · simp [h3]
      · by_cases h2 : e.rule = j
        · simp [h1, h2, h3]
        · rw [if_neg h3, if_neg h1, if_neg h3, if_neg h2, if_neg h1, if_neg h2]; exact hz' j hj hjw
  · -- constant basis requested: its column is overwritten before each push
    have hcl := hc hac
    have hz' : ∀ j, j < st.buf.length → j ≠ e.weight → j ≠ e.constId → st.buf.getD j 0 = 0 :=
      fun j hj hjw hjc => hz j hj hjw (fun x => hjc x.2)
    simp only [AITB.Gen.flpSetupCBody, execSBody, execS, sIx, sVal, hac, flpCRows, List.map_cons, List.map_nil,
      if_true, List.cons_append, List.nil_append]
    refine ⟨?_, by simp, ?_⟩
    · simp only [List.append_assoc, List.cons_append, List.nil_append]
      congr 1
      have r1 : ((st.buf.set e.rule (-1)).set e.weight e.q).set e.constId e.cc
          = denseRow st.buf.length ⟨[(e.rule, -1), (e.weight, e.q), (e.constId, e.cc)], .eq, 0⟩ := by
        apply ext_getD _ _ (by simp [length_denseRow])
        intro j hj
        simp only [List.length_set] at hj
        rw [getD_set_lt _ _ _ _ (by simp; omega), getD_set_lt _ _ _ _ (by simp; omega), getD_set_lt _ _ _ _ (by omega),
          getD_denseRow _ _ _ hj, dense_three]
        by_cases h0 : e.constId = j
        · simp [h0]
        · by_cases h1 : e.weight = j
          · simp [h0, h1]
          · by_cases h2 : e.rule = j
            · simp [h0, h1, h2]
            · rw [if_neg h0, if_neg h1, if_neg h2, if_neg h0, if_neg h1, if_neg h2]
              exact hz' j hj (fun x => h1 x.symm) (fun x => h0 x.symm)
      have r2 : ((((((st.buf.set e.rule (-1)).set e.weight e.q).set e.constId e.cc).set e.rule 0).set (e.rule + 1) (-1)).set e.weight (-e.q)).set e.constId (-e.cc)
          = denseRow st.buf.length ⟨[(e.rule + 1, -1), (e.weight, -e.q), (e.constId, -e.cc)], .eq, 0⟩ := by
        apply ext_getD _ _ (by simp [length_denseRow])
        intro j hj
        simp only [List.length_set] at hj
        rw [getD_set_lt _ _ _ _ (by simp; omega), getD_set_lt _ _ _ _ (by simp; omega), getD_set_lt _ _ _ _ (by simp; omega),
          getD_set_lt _ _ _ _ (by simp; omega), getD_set_lt _ _ _ _ (by simp; omega), getD_set_lt _ _ _ _ (by simp; omega),
          getD_set_lt _ _ _ _ (by omega), getD_denseRow _ _ _ hj, dense_three]
        by_cases h0 : e.constId = j
        · simp [h0]
        · by_cases h1 : e.weight = j
          · simp [h0, h1]
          · by_cases h3 : e.rule + 1 = j
            · simp [h0, h1, h3]
            · by_cases h2 : e.rule = j
              · simp [h0, h1, h2, h3]
              · rw [if_neg h0, if_neg h1, if_neg h3, if_neg h2, if_neg h0, if_neg h1, if_neg h2, if_neg h0, if_neg h1, if_neg h3]
                exact hz' j hj (fun x => h1 x.symm) (fun x => h0 x.symm)
      rw [r2, r1]
    · intro j hj hjw hjc
      simp only [List.length_set] at hj
      have h0 : ¬ e.constId = j := fun x => hjc ⟨hac, x.symm⟩
      have h1 : ¬ e.weight = j := fun x => hjw x.symm
      rw [getD_set_lt _ _ _ _ (by simp; omega), getD_set_lt _ _ _ _ (by simp; omega), getD_set_lt _ _ _ _ (by simp; omega),
        getD_set_lt _ _ _ _ (by simp; omega), getD_set_lt _ _ _ _ (by simp; omega), getD_set_lt _ _ _ _ (by simp; omega),
        getD_set_lt _ _ _ _ (by simp; omega), getD_set_lt _ _ _ _ (by omega)]
      by_cases h3 : e.rule + 1 = j
      · simp [h3]
      · by_cases h2 : e.rule = j
        · simp [h0, h1, h2, h3]
        · rw [if_neg h3, if_neg h0, if_neg h1, if_neg h3, if_neg h2, if_neg h0, if_neg h1, if_neg h2]
          exact hz' j hj hjw (fun x => h0 x.symm)

/-- satisfiable (test on literals): weight column 0 holding junk, constant column 1 holding junk, rule columns 3/4 of 6 -/
example : (execSBody ⟨3, 0, 1, true, 5, 1/2⟩ AITB.Gen.flpSetupCBody ⟨[9, 8, 0, 0, 0, 0], []⟩).pushed
    = (flpCRows true 1 (1/2) 0 3 5).map (fun r => (denseRow 6 r, r.rhs)) := by decide +kernel

/-- between two bases of `C` the source clears the weight column (`lp.row[currentWeight++] = 0.0;`): the invariant carries over to
    the next weight column -/
theorem clearExcept_next_basis (e : SEnv) (buf : List Rat) (hw : e.weight < buf.length) (hz : ClearExcept e buf) (k' : Nat) :
    ClearExcept { e with weight := k' } (buf.set e.weight 0) := by
  intro j hj _ hjc
  rw [List.length_set] at hj
  rw [getD_set_lt _ _ _ _ hw]
  by_cases h : e.weight = j
  · rw [if_pos h]
  · rw [if_neg h]; exact hz j hj (fun x => h x.symm) hjc

/-- after the loop over `C` the source clears the constant column (`if (addConstantBasis) lp.row[constBasisId] = 0.0;`) and the
    last weight column: the buffer is clear, which is what the loop over `b` needs (`flpSetupB_body`) -/
theorem clearExcept_after_C (e : SEnv) (buf : List Rat) (hw : e.weight < buf.length) (hc : e.addConst = true → e.constId < buf.length)
    (hz : ClearExcept e buf) :
    ∀ j, j < buf.length → ((if e.addConst then (buf.set e.weight 0).set e.constId 0 else buf.set e.weight 0)).getD j 0 = 0 := by
  intro j hj
  cases hac : e.addConst
  · simp only [Bool.false_eq_true, if_false]
    rw [getD_set_lt _ _ _ _ hw]
    by_cases h : e.weight = j
    · rw [if_pos h]
    · rw [if_neg h]; exact hz j hj (fun x => h x.symm) (by simp [hac])
  · simp only [if_true]
    rw [getD_set_lt _ _ _ _ (by simp; exact hc hac), getD_set_lt _ _ _ _ hw]
    by_cases h0 : e.constId = j
    · rw [if_pos h0]
    · by_cases h : e.weight = j
      · rw [if_neg h0, if_pos h]
      · rw [if_neg h0, if_neg h]; exact hz j hj (fun x => h x.symm) (fun x => h0 x.2.symm)

/-! ## the three setup loops of solveLP -/

theorem mdpSetup_two (e : MEnv) (st : SSt) (x y : Rat) (hj : e.junk.length = st.buf.length + 1)
    (hr : e.rule < st.buf.length + 1) (hw : e.weight < st.buf.length + 1) :
    ((List.replicate e.junk.length (0 : Rat)).set e.rule x).set e.weight y
      = denseRow (st.buf.length + 1) ⟨[(e.rule, x), (e.weight, y)], .eq, 0⟩ := by
  apply ext_getD _ _ (by simp [length_denseRow, hj])
  intro j hjl
  simp only [List.length_set, List.length_replicate, hj] at hjl
  rw [getD_set_lt _ _ _ _ (by simp [hj]; omega), getD_set_lt _ _ _ _ (by simp [hj]; omega), getD_replicate_zero,
    getD_denseRow _ _ _ hjl, dense_two]

/-- **`solveLP`, loop over `h`, one kept entry**: `addColumn` (buffer content unspecified), `setZero`, two writes, one push — the dense form
    of the model's row `−u(col) − q·w_k = 0`, for every content of the re-allocated buffer -/
theorem mdpSetupH_body (e : MEnv) (st : SSt) (hj : e.junk.length = st.buf.length + 1)
    (hr : e.rule < st.buf.length + 1) (hw : e.weight < st.buf.length + 1) :
    (execMBody e AITB.Gen.mdpSetupHBody st).pushed
      = st.pushed ++ [(denseRow (st.buf.length + 1) ⟨[(e.rule, -1), (e.weight, -e.q)], .eq, 0⟩, 0)] ∧
    (execMBody e AITB.Gen.mdpSetupHBody st).buf.length = st.buf.length + 1 := by
  simp only [AITB.Gen.mdpSetupHBody, execMBody, execM, mIx, mVal]
  refine ⟨?_, by simp [hj]⟩
  rw [mdpSetup_two e st _ _ hj hr hw]

/-- loop over `g`: the row `−u(col) + γ q·w_k = 0` -/
theorem mdpSetupG_body (e : MEnv) (st : SSt) (hj : e.junk.length = st.buf.length + 1)
    (hr : e.rule < st.buf.length + 1) (hw : e.weight < st.buf.length + 1) :
    (execMBody e AITB.Gen.mdpSetupGBody st).pushed
      = st.pushed ++ [(denseRow (st.buf.length + 1) ⟨[(e.rule, -1), (e.weight, e.disc * e.q)], .eq, 0⟩, 0)] ∧
    (execMBody e AITB.Gen.mdpSetupGBody st).buf.length = st.buf.length + 1 := by
  simp only [AITB.Gen.mdpSetupGBody, execMBody, execM, mIx, mVal]
  refine ⟨?_, by simp [hj]⟩
  rw [mdpSetup_two e st _ _ hj hr hw]

/-- loop over `R`: the row `u(col) = q` -/
theorem mdpSetupR_body (e : MEnv) (st : SSt) (hj : e.junk.length = st.buf.length + 1) (hr : e.rule < st.buf.length + 1) :
    (execMBody e AITB.Gen.mdpSetupRBody st).pushed
      = st.pushed ++ [(denseRow (st.buf.length + 1) ⟨[(e.rule, 1)], .eq, e.q⟩, e.q)] ∧
    (execMBody e AITB.Gen.mdpSetupRBody st).buf.length = st.buf.length + 1 := by
  simp only [AITB.Gen.mdpSetupRBody, execMBody, execM, mIx, mVal]
  refine ⟨?_, by simp [hj]⟩
  have e1 : (List.replicate e.junk.length (0 : Rat)).set e.rule 1 = denseRow (st.buf.length + 1) ⟨[(e.rule, 1)], .eq, e.q⟩ := by
    apply ext_getD _ _ (by simp [length_denseRow, hj])
    intro j hjl
    simp only [List.length_set, List.length_replicate, hj] at hjl
    rw [getD_set_lt _ _ _ _ (by simp [hj]; omega), getD_replicate_zero, getD_denseRow _ _ _ hjl, dense_one]
  rw [e1]

example : (execMBody ⟨4, 1, 3, 1/2, [9, 9, 9, 9, 9]⟩ AITB.Gen.mdpSetupGBody ⟨[7, 7, 7, 7], []⟩).pushed = [([0, 3/2, 0, 0, -1], 0)] := by decide +kernel


/-! ## every call of the cross-sum callbacks in every run -/

section grp
variable (A : List Nat) (n : Nat) (sides : Nat)

/-- the calls `beginCrossSum … endCrossSum` of one joint value of the neighbours: (new column, matched rule columns), in call order -/
def overValuesG (nb jv : List Nat) (v : Nat) (factors : List LNode) (col : Nat) : Nat → Nat → List (Nat × List Nat)
  | 0, _ => []
  | cnt+1, k => (col, hits A (listOf n (jvAsg nb jv v k)) factors) :: overValuesG nb jv v factors col cnt (k+1)

theorem overValues_eq_groups (nb jv : List Nat) (v : Nat) (factors : List LNode) (col : Nat) : ∀ (cnt k : Nat),
    overValues A n sides nb jv v factors col cnt k
      = (overValuesG A n nb jv v factors col cnt k).flatMap (fun g => veRows sides g.2 g.1)
  | 0, _ => rfl
  | cnt+1, k => by
    simp only [overValues, overValuesG, List.flatMap_cons]
    rw [overValues_eq_groups nb jv v factors col cnt (k+1)]

theorem overValuesG_below (nb jv : List Nat) (v : Nat) (factors : List LNode) (col : Nat)
    (hfH : ∀ c ∈ gCols factors, c < col) : ∀ (cnt k : Nat), ∀ g ∈ overValuesG A n nb jv v factors col cnt k, g.1 = col ∧ ∀ c ∈ g.2, c < g.1
  | 0, _, g, hg => by simp [overValuesG] at hg
  | cnt+1, k, g, hg => by
    simp only [overValuesG, List.mem_cons] at hg
    rcases hg with rfl | hg
    · exact ⟨rfl, fun c hc => hfH c ((hits_sublist A _ factors).subset hc)⟩
    · exact overValuesG_below nb jv v factors col hfH cnt (k+1) g hg

/-- the groups of the `while (jointValues.isValid())` loop -/
def removeLoopG (nb : List Nat) (v : Nat) (factors : List LNode) : Nat → Nat → GenSt → List (Nat × List Nat)
  | 0, _, _ => []
  | cnt+1, j, st => overValuesG A n nb (toFactors (sel nb A) j) v factors st.ncols (A.getD v 0) 0
      ++ removeLoopG nb v factors cnt (j+1) (removeLoop A n sides nb v factors 1 j st)

theorem removeLoop_one_rows (nb : List Nat) (v : Nat) (factors : List LNode) (j : Nat) (st : GenSt) :
    (removeLoop A n sides nb v factors 1 j st).rows
      = st.rows ++ overValues A n sides nb (toFactors (sel nb A) j) v factors st.ncols (A.getD v 0) 0 := by
  rw [removeLoop_succ]
  by_cases he : nb.isEmpty = true
  · simp only [he, if_true, removeLoop]
  · have he' : nb.isEmpty = false := by simpa using he
    simp only [he', Bool.false_eq_true, if_false, removeLoop]

theorem removeLoop_rows_groups (nb : List Nat) (v : Nat) (factors : List LNode) : ∀ (cnt j : Nat) (st : GenSt),
    (removeLoop A n sides nb v factors cnt j st).rows
      = st.rows ++ (removeLoopG A n sides nb v factors cnt j st).flatMap (fun g => veRows sides g.2 g.1)
  | 0, _, st => by simp [removeLoop, removeLoopG]
  | cnt+1, j, st => by
    rw [removeLoop_one, removeLoop_rows_groups nb v factors cnt (j+1), removeLoop_one_rows, removeLoopG, List.flatMap_append,
      overValues_eq_groups, List.append_assoc]

theorem removeLoopG_below (nb : List Nat) (v : Nat) (factors : List LNode) : ∀ (cnt j : Nat) (st : GenSt),
    (∀ c ∈ gCols factors, c < st.ncols) → ∀ g ∈ removeLoopG A n sides nb v factors cnt j st, st.ncols ≤ g.1 ∧ ∀ c ∈ g.2, c < g.1
  | 0, _, _, _, g, hg => by simp [removeLoopG] at hg
  | cnt+1, j, st, hfH, g, hg => by
    simp only [removeLoopG, List.mem_append] at hg
    rcases hg with hg | hg
    · obtain ⟨h1, h2⟩ := overValuesG_below A n nb _ v factors st.ncols hfH _ 0 g hg
      exact ⟨by omega, h2⟩
    · have hc := (removeLoop_one_cols A n sides nb v factors j st).1
      obtain ⟨h1, h2⟩ := removeLoopG_below nb v factors cnt (j+1) _ (fun c hc' => by have := hfH c hc'; omega) g hg
      exact ⟨by omega, h2⟩

/-- the groups of one `removeFactor` -/
def removeVarG (v : Nat) (st : GenSt) : List (Nat × List Nat) :=
  let factors := st.graph.filter (fun nd => nd.keys.contains v)
  let nb := nbrs n v (st.graph.map (·.keys))
  let g := if nb.isEmpty || st.graph.any (fun nd => nd.keys == nb) then st.graph else st.graph ++ [⟨nb, []⟩]
  removeLoopG A n sides nb v factors (spacePartial nb A) 0 { st with graph := g }

theorem removeVar_rows_groups (v : Nat) (st : GenSt) :
    (removeVar A n sides v st).rows = st.rows ++ (removeVarG A n sides v st).flatMap (fun g => veRows sides g.2 g.1) := by
  simp only [removeVar, removeVarG]
  rw [removeLoop_rows_groups]

theorem removeVarG_below (base : Nat) (v : Nat) (st : GenSt) (hn : NInv base sides st) (hs : 0 < sides) :
    ∀ g ∈ removeVarG A n sides v st, st.ncols ≤ g.1 ∧ ∀ c ∈ g.2, c < g.1 := by
  simp only [removeVarG]
  refine removeLoopG_below A n sides _ v _ _ 0 _ ?_
  intro c hc
  have hsub := gCols_filter_sublist (fun nd => nd.keys.contains v) st.graph
  have := hn.high c (List.mem_append.mpr (Or.inl (hsub.subset hc)))
  simp only; omega

/-- the groups of the whole elimination loop -/
def genLoopG : Nat → List Nat → GenSt → List (Nat × List Nat)
  | 0, _, _ => []
  | _+1, [], _ => []
  | fuel+1, x :: xs, st =>
    let v := bestVar A n (x :: xs) (st.graph.map (·.keys))
    removeVarG A n sides v st ++ genLoopG fuel ((x :: xs).filter (· != v)) (removeVar A n sides v st)

theorem genLoop_rows_groups : ∀ (fuel : Nat) (active : List Nat) (st : GenSt),
    (genLoop A n sides fuel active st).rows = st.rows ++ (genLoopG A n sides fuel active st).flatMap (fun g => veRows sides g.2 g.1)
  | 0, _, st => by simp [genLoop, genLoopG]
  | _+1, [], st => by simp [genLoop, genLoopG]
  | fuel+1, x :: xs, st => by
    simp only [genLoop, genLoopG]
    rw [genLoop_rows_groups fuel, removeVar_rows_groups, List.flatMap_append, List.append_assoc]

theorem genLoopG_below (base : Nat) (hs : 0 < sides) : ∀ (fuel : Nat) (active : List Nat) (st : GenSt),
    base ≤ st.ncols → NInv base sides st → RClean st →
    ∀ g ∈ genLoopG A n sides fuel active st, base ≤ g.1 ∧ ∀ c ∈ g.2, c < g.1
  | 0, _, _, _, _, _, g, hg => by simp [genLoopG] at hg
  | _+1, [], _, _, _, _, g, hg => by simp [genLoopG] at hg
  | fuel+1, x :: xs, st, hb, hn, hr, g, hg => by
    simp only [genLoopG, List.mem_append] at hg
    rcases hg with hg | hg
    · obtain ⟨h1, h2⟩ := removeVarG_below A n sides base _ st hn hs g hg
      exact ⟨by omega, h2⟩
    · obtain ⟨h1, h2⟩ := removeVar_clean A n sides base hs (bestVar A n (x :: xs) (st.graph.map (·.keys))) st hb hn hr
      have hb' : base ≤ (removeVar A n sides (bestVar A n (x :: xs) (st.graph.map (·.keys))) st).ncols :=
        le_trans hb (removeVar_ncols_ge A n sides _ st)
      exact genLoopG_below base hs fuel _ _ hb' h1 h2 g hg

end grp

/-- the set-up state of FactoredLP satisfies the column invariant (all spaces, bases, targets) -/
theorem flpSetup_ninv (C b : List Basis) (addConst : Bool) :
    NInv (flpPhi C addConst + 1) 2 (flpSetup C b addConst) ∧ RClean (flpSetup C b addConst) ∧
      flpPhi C addConst + 1 ≤ (flpSetup C b addConst).ncols := by
  obtain ⟨phi, hphi⟩ : ∃ phi, phi = flpPhi C addConst := ⟨_, rfl⟩
  have hphiC : C.length ≤ phi := by rw [hphi]; simp only [flpPhi]; omega
  have init : NInv (phi + 1) 2 (⟨[], [], phi + 1, []⟩ : GenSt) :=
    ⟨by simp [allCols, gCols], fun c hc => by simp [allCols, gCols] at hc, fun c hc => by simp [allCols, gCols] at hc⟩
  have initr : RClean (⟨[], [], phi + 1, []⟩ : GenSt) := fun r hr => by simp at hr
  have hmkC : ∀ k, k < C.length → MkClean (flpCRows addConst (phi - 1) (constCoeff C) k) (phi + 1) := by
    intro k hk
    by_cases hc : addConst = true
    · have : phi = C.length + 1 := by rw [hphi]; simp [flpPhi, hc]
      exact flpCRows_clean addConst (phi - 1) (constCoeff C) k (phi + 1) (by omega) (by omega) (by omega)
    · have hc' : addConst = false := by simpa using hc
      subst hc'
      intro col q hb r hr
      simp only [flpCRows, List.mem_cons, List.mem_nil_iff, or_false, List.append_nil, if_false, Bool.false_eq_true] at hr
      rcases hr with rfl | rfl <;>
        simp only [Clean, List.map_cons, List.map_nil, List.nodup_cons, List.mem_cons, List.mem_nil_iff, or_false,
                   List.nodup_nil, and_true, not_false_eq_true] <;> omega
  obtain ⟨n1, r1, b1⟩ := setupLoop_clean _ (phi + 1) C.length hmkC C 0 ⟨[], [], phi + 1, []⟩ (by omega) (le_refl _) init initr
  obtain ⟨n2, r2, b2⟩ := setupLoop_clean (fun _ => flpBRows) (phi + 1) b.length (fun k _ => flpBRows_clean (phi + 1)) b 0 _ (by omega) b1 n1 r1
  have hst0 : flpSetup C b addConst = setupLoop (fun _ => flpBRows) b 0
      (setupLoop (flpCRows addConst (phi - 1) (constCoeff C)) C 0 ⟨[], [], phi + 1, []⟩) := by
    simp only [flpSetup, hphi]
    rw [flpSetupC_eq, flpSetupB_eq _ 0]
  rw [← hphi, hst0]
  exact ⟨n2, r2, b2⟩

/-- **every cross-sum call of every FactoredLP run**: the LP is the set-up rows, then the rows of the groups in call order, then the
    two final rows; in every group the matched rule columns lie below the new column, so (`flp_crossSumGroup_run`) the TRANSCRIBED
    callbacks, started on a buffer of width `new column + 2` with any content, push the dense form of exactly that group's rows -/
theorem flp_run_groups (S : List Nat) (C b : List Basis) (addConst : Bool) :
    (flpGen S C b addConst).1 = (flpSetup C b addConst).rows
        ++ (genLoopG S S.length 2 S.length (List.range S.length) (flpSetup C b addConst)).flatMap (fun g => veRows 2 g.2 g.1)
        ++ flpFinalRows (flpPhi C addConst) (genRun S S.length 2 (flpSetup C b addConst)).finals ∧
    ∀ g ∈ genLoopG S S.length 2 S.length (List.range S.length) (flpSetup C b addConst),
      ∀ (buf : List Rat) (pushed : List (List Rat)), buf.length = g.1 + 2 →
        (crossSumGroup AITB.Gen.flpCallbacks g.1 g.2 ⟨buf, pushed⟩).pushed = pushed ++ (veRows 2 g.2 g.1).map (denseRow (g.1 + 2)) := by
  obtain ⟨hn, hr, hb⟩ := flpSetup_ninv C b addConst
  constructor
  · show (genRun S S.length 2 (flpSetup C b addConst)).rows ++ _ = _
    simp only [genRun]
    rw [genLoop_rows_groups]
  · intro g hg buf pushed hw
    obtain ⟨_, hlt⟩ := genLoopG_below S S.length 2 _ (by omega) _ _ _ hb hn hr g hg
    exact flp_crossSumGroup_run g.1 g.2 hlt ⟨buf, pushed⟩ hw

/-- the same for the factored-MDP LP (one column per new factor; `mdp_crossSumGroup` needs no hypothesis) -/
theorem mdp_run_groups (joined : Bool) (S A : List Nat) (γ : Rat) (h : List Basis) (g R : List BasisM) :
    (mdpGen joined S A γ h g R).1 = (mdpSetup S A γ h g R).rows
        ++ (genLoopG (S ++ A) (S ++ A).length 1 (S ++ A).length (List.range (S ++ A).length) (mdpSetup S A γ h g R)).flatMap
              (fun q => veRows 1 q.2 q.1)
        ++ mdpFinalRows joined (genRun (S ++ A) (S ++ A).length 1 (mdpSetup S A γ h g R)).finals ∧
    ∀ q ∈ genLoopG (S ++ A) (S ++ A).length 1 (S ++ A).length (List.range (S ++ A).length) (mdpSetup S A γ h g R),
      ∀ (st : BSt), (crossSumGroup AITB.Gen.mdpCallbacks q.1 q.2 st).pushed = st.pushed ++ (veRows 1 q.2 q.1).map (denseRow st.buf.length) := by
  constructor
  · rw [mdpGen_rows]
    simp only [genRun]
    rw [genLoop_rows_groups]
  · intro q _ st
    exact (mdp_crossSumGroup q.1 q.2 st).1

end AITB.FLP
