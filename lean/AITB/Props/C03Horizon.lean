/-
  AITB.Props.C03Horizon — finite-horizon solvers (PBVI, PERSEUS), consistency of the two reference families, and the
  machine-checked witness that the `max(0.0001, 1-γ)` clamp breaks the monotone-from-a-safe-start argument for discounts above 0.9999.
-/
import AITB.Props.C03Refs
import Mathlib.Tactic.IntervalCases
import Mathlib.Tactic.NormNum

namespace AITB.POMDP3
open AITB.MDP

/-- **PBVI / PERSEUS**: if the vectors of timestep 0 are below `V0` and every vector of timestep `t+1` is the point backup of
    vectors of timestep `t` (what the links of every `VEntry` say, checked per run by the driver's `linksOK`), then every vector of
    timestep `t` is below the `t`-step optimum `H^t V0` at every belief — for all horizons, belief sets, tolerances and prunings. -/
theorem backup_chain_sound (m : POMDP) (hv : Valid m) (V0 : (Nat → Rat) → Rat) (Γ : Nat → (Nat → Rat) → Prop)
    (h0 : ∀ α, Γ 0 α → ∀ x, NN x → dotS m.S x α ≤ V0 x)
    (hstep : ∀ t α, Γ (t+1) α → ∃ a, a < m.A ∧ ∃ ch : Nat → Nat → Rat, (∀ o, o < m.O → Γ t (ch o)) ∧ ∀ s, s < m.S → α s = backupVec m a ch s) :
    ∀ t α, Γ t α → ∀ x, NN x → dotS m.S x α ≤ iterH m V0 t x := by
  intro t
  induction t with
  | zero => exact h0
  | succ t ih =>
    intro α hα x hx
    obtain ⟨a, ha, ch, hch, he⟩ := hstep t α hα
    have e : dotS m.S x α = dotS m.S x (backupVec m a ch) := by unfold dotS; exact sumTo_congr (fun s hs => by rw [he s hs])
    rw [e]
    refine le_trans (pointBackup_le_qval m hv _ x a ch (fun o ho => ih _ (hch o ho) _ (bstep_nonneg m hv x hx a o))) ?_
    exact qval_le_Hop m hv.A0 _ x a ha

/-- PBVI (start `0`) and PERSEUS (start `minReward/(1-γ)`): the vectors of timestep `j+k` are below the reference the driver evaluates -/
theorem pbvi_perseus_sound (m : POMDP) (hv : Valid m) (c : Rat) (Γ : Nat → (Nat → Rat) → Prop)
    (h0 : ∀ α, Γ 0 α → ∀ s, s < m.S → α s = c)
    (hstep : ∀ t α, Γ (t+1) α → ∃ a, a < m.A ∧ ∃ ch : Nat → Nat → Rat, (∀ o, o < m.O → Γ t (ch o)) ∧ ∀ s, s < m.S → α s = backupVec m a ch s)
    (j k : Nat) (α : Nat → Rat) (hα : Γ (j + k) α) (x : Nat → Rat) (hx : NN x) : dotS m.S x α ≤ upperRef m c j k x := by
  refine le_trans (backup_chain_sound m hv (linV m.S (fun _ => c)) Γ (fun α hα x _ => ?_) hstep (j + k) α hα x hx)
    (finite_horizon_le_upperRef m hv c j k x hx)
  unfold linV dotS
  exact le_of_eq (sumTo_congr (fun s hs => by rw [h0 α hα s hs]))

/-- PERSEUS with a true `minReward` is moreover monotone from a safe start: its vectors are below every member of the
    infinite-horizon upper family -/
theorem perseus_infinite_sound (m : POMDP) (hv : Valid m) (c : Rat) (a0 : Nat) (ha0 : a0 < m.A) (hc : ∀ s, s < m.S → (1 - m.γ) * c ≤ m.R s a0)
    (cU : Rat) (hcU : ∀ s, s < m.S → ∀ a, a < m.A → m.R s a ≤ (1 - m.γ) * cU) (hle : c ≤ cU)
    (Γ : Nat → (Nat → Rat) → Prop) (h0 : ∀ α, Γ 0 α → ∀ s, s < m.S → α s = c)
    (hstep : ∀ t α, Γ (t+1) α → ∃ a, a < m.A ∧ ∃ ch : Nat → Nat → Rat, (∀ o, o < m.O → Γ t (ch o)) ∧ ∀ s, s < m.S → α s = backupVec m a ch s)
    (j k : Nat) : ∀ t α, Γ t α → LBSound m (upperRef m cU j k) α := by
  have hsup := upperRef_superSol m hv cU hcU j k
  intro t
  induction t with
  | zero =>
    intro α hα
    refine LBSound_congr m _ (α := fun _ => c) (fun s hs => (h0 α hα s hs).symm) ?_
    exact const_LBSound m _ c (const_le_upperRef m hv cU c a0 ha0 hc hle j k)
  | succ t ih =>
    intro α hα
    obtain ⟨a, ha, ch, hch, he⟩ := hstep t α hα
    refine LBSound_congr m _ (fun s hs => (he s hs).symm) ?_
    exact pointBackup_sound m hv _ hsup a ha ch (fun o ho => ih _ (hch o ho))

/-! ### the two families are consistent: every lower reference is below every upper reference -/

/-- a blind sub-solution is below an MDP super-solution (finite argument: the largest excess `d` satisfies `d ≤ γ d`) -/
theorem blindSub_le_mdpSuper (m : POMDP) (hv : Valid m) (hS : 0 < m.S) (a : Nat) (ha : a < m.A) (β v : Nat → Rat)
    (hβ : BlindSub m a β) (hsup : MdpSuper m v) : ∀ s, s < m.S → β s ≤ v s := by
  -- d = max_s (β s - v s), attained at s0
  obtain ⟨s0, hs0, hmax⟩ := maxTo_attained (m.S - 1) (fun s => β s - v s)
  have hd : ∀ s, s < m.S → β s - v s ≤ β s0 - v s0 := by
    intro s hs
    have := maxTo_ge (m.S - 1) (fun s => β s - v s) s (by omega)
    rw [hmax] at this; exact this
  have hs0' : s0 < m.S := by omega
  have h1 := hβ s0 hs0'
  have h2 := hsup s0 hs0' a ha
  -- blindStep β s0 - blindStep v s0 = γ Σ T (β - v) ≤ γ d
  have h3 : blindStep m a β s0 - blindStep m a v s0 ≤ m.γ * (β s0 - v s0) := by
    unfold blindStep
    have : sumTo m.S (fun s1 => m.T s0 a s1 * β s1) - sumTo m.S (fun s1 => m.T s0 a s1 * v s1) ≤ β s0 - v s0 := by
      rw [← sumTo_sub]
      have hle : sumTo m.S (fun i => m.T s0 a i * β i - m.T s0 a i * v i) ≤ sumTo m.S (fun i => m.T s0 a i * (β s0 - v s0)) :=
        sumTo_le (fun i hi => by
          have := mul_le_mul_of_nonneg_left (hd i hi) (hv.T0 s0 a i)
          linarith)
      rw [sumTo_mul_right, hv.T1 s0 a hs0', one_mul] at hle
      exact hle
    have := mul_le_mul_of_nonneg_left this hv.γ0
    linarith
  have hd0 : β s0 - v s0 ≤ 0 := by
    have := hv.γ1
    nlinarith
  intro s hs
  have := hd s hs
  linarith

theorem lowerRef_le_upperRef_same_k (m : POMDP) (hv : Valid m) (hS : 0 < m.S) (cL : Nat → Rat) (cU : Rat)
    (hcL : ∀ a, a < m.A → ∀ s, s < m.S → (1 - m.γ) * cL a ≤ m.R s a)
    (hcU : ∀ s, s < m.S → ∀ a, a < m.A → m.R s a ≤ (1 - m.γ) * cU) (j j' k : Nat) :
    ∀ x, NN x → lowerRef m cL j k x ≤ upperRef m cU j' k x := by
  unfold lowerRef upperRef
  refine iterH_mono m hv _ _ (fun x hx => ?_) k
  unfold maxLinV
  refine maxTo_le_of_le _ _ _ (fun a ha' => ?_)
  have ha : a < m.A := by have := hv.A0; omega
  exact dotS_le_of_le m.S x _ _ hx (blindSub_le_mdpSuper m hv hS a ha _ _
    (blindIter_sub m hv a _ (const_blindSub m hv a (cL a) (hcL a ha)) j) (mdpIter_super m hv _ (const_mdpSuper m hv cU hcU) j'))

theorem lowerRef_mono_k (m : POMDP) (hv : Valid m) (c : Nat → Rat) (hc : ∀ a, a < m.A → ∀ s, s < m.S → (1 - m.γ) * c a ≤ m.R s a) (j k n : Nat)
    (x : Nat → Rat) (hx : NN x) : lowerRef m c j k x ≤ lowerRef m c j (k + n) x := by
  induction n with
  | zero => exact le_refl _
  | succ n ih => exact le_trans ih (lowerRef_monotone m hv c hc j (k + n) x hx)

theorem upperRef_anti_k (m : POMDP) (hv : Valid m) (c : Rat) (hc : ∀ s, s < m.S → ∀ a, a < m.A → m.R s a ≤ (1 - m.γ) * c) (j k n : Nat)
    (x : Nat → Rat) (hx : NN x) : upperRef m c j (k + n) x ≤ upperRef m c j k x := by
  induction n with
  | zero => exact le_refl _
  | succ n ih => exact le_trans (upperRef_antitone m hv c hc j (k + n) x hx) ih

/-- **enclosure is consistent**: `lowerRef j k ≤ upperRef j' k'` for all indices; hence a solver whose `lb` is below every upper
    reference and whose `ub` is above every lower reference can never be *shown* to have `lb > ub` by the enclosure alone, and any
    `fail lb_above_…` / `ub_below_…` verdict of the driver contradicts one of the soundness theorems -/
theorem lowerRef_le_upperRef (m : POMDP) (hv : Valid m) (hS : 0 < m.S) (cL : Nat → Rat) (cU : Rat)
    (hcL : ∀ a, a < m.A → ∀ s, s < m.S → (1 - m.γ) * cL a ≤ m.R s a)
    (hcU : ∀ s, s < m.S → ∀ a, a < m.A → m.R s a ≤ (1 - m.γ) * cU) (j j' k k' : Nat) :
    ∀ x, NN x → lowerRef m cL j k x ≤ upperRef m cU j' k' x := by
  intro x hx
  have h1 := lowerRef_mono_k m hv cL hcL j k k' x hx
  have h2 := lowerRef_le_upperRef_same_k m hv hS cL cU hcL hcU j j' (k + k') x hx
  have h3 := upperRef_anti_k m hv cU hcU j' k' k x hx
  rw [Nat.add_comm k' k] at h3
  linarith

/-! ### the clamp: witness that `blind_fast_lower` needs its hypothesis -/

/-- one state, one action, reward −1, discount `1 - 2^-14` (> 0.9999): the optimal value is `-16384` -/
def mC : POMDP :=
  { S := 1, A := 1, O := 1, γ := 1 - 1 / 16384, T := fun _ _ _ => 1, R := fun _ _ => -1, Ob := fun _ _ _ => 1 }

/-- the fast start is `-1 / 0.0001 = -10000`, above the optimal value `-16384`; the hypotheses of `blind_fast_lower` other than
    `hsafe` hold (`c = -16384` satisfies `R ≤ (1-γ) c` with equality) -/
theorem blind_fast_start_unsafe_witness :
    (blindAction mC true 0 0 0).x.get 0 = -10000 ∧ upperRef mC (-16384) 0 0 (unit 0) = -16384 ∧
    ¬ (dotS mC.S (unit 0) (blindAction mC true 0 0 0).x.get ≤ upperRef mC (-16384) 0 0 (unit 0)) ∧
    (∀ s, s < mC.S → ∀ a, a < mC.A → mC.R s a ≤ (1 - mC.γ) * (-16384)) := by
  decide +kernel

end AITB.POMDP3
