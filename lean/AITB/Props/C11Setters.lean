/-
  AITB.Props.C11Setters — SARSA(λ) as a CLIENT sees it: every public call, any arguments (round 3).

  The round-1 trace theorems fix γ, λ and the cut-off for a whole history.  The class lets the client change all of them
  between steps (`setDiscount`, `setLambda`, `setTolerance`, `setLearningRate`), clear / read / overwrite the trace list, and
  the setters THROW on bad arguments (the object is then unchanged).  Here the whole interface is the alphabet of the history:

    step e | clearTraces | keep getTraces() | setTraces(kept) | setDiscount x | setLambda x | setLearningRate x | setTolerance x

  with the guards taken from the re-extracted guard table (`AITB.Gen.C11.SARSAL_*_rejects`): a rejected call leaves the state
  as it was, so NO hypothesis is needed on the arguments of the guarded setters.  `setTolerance` is unguarded as found (known
  finding C11-trace-cutoff-above-one-sarsal); its hypothesis is written `accepted → x ≤ 1`, which becomes vacuous once the guard
  of fixes/C11-1 is in the source.

    `sl_invariant`          parameters stay in their ranges, stored and kept eligibilities never exceed one, no pair twice — always;
    `sl_after_step`         right after ANY step (whatever preceded it) every eligibility is in [current cut-off, 1]:
                            a raised cut-off takes effect at the next step, which prunes everything below it;
    `sl_lambda0_after`      after any history that ends with λ = 0, a step is exactly the one-step SARSA backup with the
                            CURRENT discount and step size.
-/
import AITB.Props.C11Traces
import AITB.Props.C11Guards

namespace AITB.Learn
open AITB.Gen.C11

/-- eligibilities at most one, no pair twice (what survives a change of cut-off) -/
def TrW (tr : List Tr) : Prop := (∀ t ∈ tr, t.el ≤ 1) ∧ (tr.map key).Nodup

theorem TrOK.weak {tol : Rat} {tr : List Tr} (h : TrOK tol tr) : TrW tr := ⟨fun t ht => (h.1 t ht).2, h.2⟩

theorem TrW_nil : TrW [] := ⟨(by intro t ht; cases ht), (by simp)⟩

/-- `updateTraces_ok` needs only the weak invariant on its input: the loop compares every decayed entry with the cut-off,
    so whatever was stored below a freshly raised cut-off is pruned -/
theorem updateTraces_ok_weak (s a : Nat) (err td tol : Rat) (tr : List Tr) (q : QF)
    (h0 : 0 ≤ td) (h1 : td ≤ 1) (htol : tol ≤ 1) (h : TrW tr) :
    TrOK tol (updateTraces s a err td tol tr q).1 := by
  have hl := traceLoop_ok s a err td tol h0 h1 htol tr.length [] tr q true (le_refl _)
    (by intro t ht; cases ht) h.1 (by simpa using h.2) (by simp)
  unfold updateTraces
  rcases hr : traceLoop s a err td tol tr.length [] tr q true with ⟨tr', q', nt⟩
  rw [hr] at hl
  obtain ⟨hb, hnd, hnt⟩ := hl
  cases nt with
  | false => exact ⟨hb, hnd⟩
  | true =>
    show TrOK tol (tr' ++ [⟨s, a, 1⟩])
    refine ⟨?_, ?_⟩
    · intro t ht
      rcases List.mem_append.1 ht with ht | ht
      · exact hb t ht
      · have : t = ⟨s, a, 1⟩ := by simpa using ht
        subst this
        exact ⟨htol, le_refl _⟩
    · have hnot := hnt rfl
      simp only [List.map_append, List.map_cons, List.map_nil]
      rw [List.nodup_append]
      refine ⟨hnd, by simp, ?_⟩
      intro x hx y hy
      have : y = (s, a) := by simpa [key] using hy
      subst this
      intro hxy; subst hxy; exact hnot hx

/-- the SARSAL object: parameters, trace list, table; `kept` is the list the client holds -/
structure SL where
  γ : Rat
  α : Rat
  lam : Rat
  tol : Rat
  tr : List Tr
  q : QF
  kept : List Tr

inductive SLOp where
  | step (e : TEv)
  | clear
  | keep
  | restore
  | setDiscount (x : Rat)
  | setLambda (x : Rat)
  | setLearningRate (x : Rat)
  | setTolerance (x : Rat)

/-- one public call; a setter whose guard rejects the argument throws and leaves the object unchanged -/
def slApply (c : SL) : SLOp → SL
  | .step e =>
    let r := sarsalStep c.γ c.α c.lam c.tol c.tr c.q e.s e.a e.s1 e.a1 e.r
    { c with tr := r.1, q := r.2 }
  | .clear => { c with tr := [] }
  | .keep => { c with kept := c.tr }
  | .restore => { c with tr := c.kept }
  | .setDiscount x => if SARSAL_setDiscount_rejects x then c else { c with γ := x }
  | .setLambda x => if SARSAL_setLambda_rejects x then c else { c with lam := x }
  | .setLearningRate x => if SARSAL_setLearningRate_rejects x then c else { c with α := x }
  | .setTolerance x => if SARSAL_setTolerance_rejects x then c else { c with tol := x }

def slRun (ops : List SLOp) (c : SL) : SL := ops.foldl slApply c

/-- the only hypothesis on the client: a cut-off that `setTolerance` ACCEPTS is at most one (vacuous once the guard exists) -/
def SLOp.ok : SLOp → Prop
  | .setTolerance x => SARSAL_setTolerance_rejects x = false → x ≤ 1
  | _ => True

structure SLInv (c : SL) : Prop where
  γr : 0 ≤ c.γ ∧ c.γ ≤ 1
  lr : 0 ≤ c.lam ∧ c.lam ≤ 1
  tr1 : c.tol ≤ 1
  trw : TrW c.tr
  kw : TrW c.kept

/-- the state right after construction (`SARSAL(S, A, γ, α, λ, tol)` accepted its arguments) -/
def SL.init (γ α lam tol : Rat) (q0 : QF) : SL := ⟨γ, α, lam, tol, [], q0, []⟩

theorem slApply_inv (c : SL) (op : SLOp) (hop : op.ok) (h : SLInv c) : SLInv (slApply c op) := by
  cases op with
  | step e =>
    have hu := mul_unit h.lr.1 h.lr.2 h.γr.1 h.γr.2
    exact { h with trw := (updateTraces_ok_weak _ _ _ _ _ _ _ hu.1 hu.2 h.tr1 h.trw).weak }
  | clear => exact { h with trw := TrW_nil }
  | keep => exact { h with kw := h.trw }
  | restore => exact { h with trw := h.kw }
  | setDiscount x =>
    show SLInv (if SARSAL_setDiscount_rejects x then c else { c with γ := x })
    by_cases hr : SARSAL_setDiscount_rejects x = true
    · rw [if_pos hr]; exact h
    · rw [if_neg hr]
      have := Guards.SARSAL_setDiscount_accepts x (by simpa using hr)
      exact { h with γr := ⟨le_of_lt this.1, this.2⟩ }
  | setLambda x =>
    show SLInv (if SARSAL_setLambda_rejects x then c else { c with lam := x })
    by_cases hr : SARSAL_setLambda_rejects x = true
    · rw [if_pos hr]; exact h
    · rw [if_neg hr]
      exact { h with lr := Guards.SARSAL_setLambda_accepts x (by simpa using hr) }
  | setLearningRate x =>
    show SLInv (if SARSAL_setLearningRate_rejects x then c else { c with α := x })
    by_cases hr : SARSAL_setLearningRate_rejects x = true
    · rw [if_pos hr]; exact h
    · rw [if_neg hr]; exact { h with }
  | setTolerance x =>
    show SLInv (if SARSAL_setTolerance_rejects x then c else { c with tol := x })
    by_cases hr : SARSAL_setTolerance_rejects x = true
    · rw [if_pos hr]; exact h
    · rw [if_neg hr]
      exact { h with tr1 := hop (by simpa using hr) }

/-- **the invariant of the whole public interface** -/
theorem sl_invariant (ops : List SLOp) (hops : ∀ op ∈ ops, op.ok) (c : SL) (h : SLInv c) : SLInv (slRun ops c) := by
  unfold slRun
  induction ops generalizing c with
  | nil => exact h
  | cons op ops ih =>
    simp only [List.foldl_cons]
    exact ih (fun o ho => hops o (List.mem_cons_of_mem _ ho)) _ (slApply_inv c op (hops op List.mem_cons_self) h)

theorem sl_init_inv (γ α lam tol : Rat) (q0 : QF) (hγ : 0 ≤ γ ∧ γ ≤ 1) (hl : 0 ≤ lam ∧ lam ≤ 1) (htol : tol ≤ 1) :
    SLInv (SL.init γ α lam tol q0) := ⟨hγ, hl, htol, TrW_nil, TrW_nil⟩

/-- **clause 4 for the client's view**: whatever the client did before — steps, episode boundaries, trace hand-over, any
    parameter changes with any arguments — right after a step every stored eligibility lies in [current cut-off, 1] and no
    pair is stored twice -/
theorem sl_after_step (γ α lam tol : Rat) (q0 : QF) (hγ : 0 ≤ γ ∧ γ ≤ 1) (hl : 0 ≤ lam ∧ lam ≤ 1) (htol : tol ≤ 1)
    (ops : List SLOp) (hops : ∀ op ∈ ops, op.ok) (e : TEv) :
    let c := slRun (ops ++ [.step e]) (SL.init γ α lam tol q0)
    TrOK c.tol c.tr := by
  intro c
  have h := sl_invariant ops hops _ (sl_init_inv γ α lam tol q0 hγ hl htol)
  have hc : c = slApply (slRun ops (SL.init γ α lam tol q0)) (.step e) := by
    show slRun (ops ++ [.step e]) _ = _
    unfold slRun; rw [List.foldl_append]; rfl
  rw [hc]
  have hu := mul_unit h.lr.1 h.lr.2 h.γr.1 h.γr.2
  exact updateTraces_ok_weak _ _ _ _ _ _ _ hu.1 hu.2 h.tr1 h.trw

/-- **clause 3 for the client's view**: after any history that leaves λ = 0, the next step is exactly the one-step SARSA
    backup with the current discount and step size; no other entry moves -/
theorem sl_lambda0_after (γ α lam tol : Rat) (q0 : QF) (hγ : 0 ≤ γ ∧ γ ≤ 1) (hl : 0 ≤ lam ∧ lam ≤ 1) (htol : tol ≤ 1)
    (ops : List SLOp) (hops : ∀ op ∈ ops, op.ok) (e : TEv)
    (h0 : (slRun ops (SL.init γ α lam tol q0)).lam = 0) :
    let c := slRun ops (SL.init γ α lam tol q0)
    (slApply c (.step e)).q = sarsaStep c.γ c.α c.q e.s e.a e.s1 e.a1 e.r := by
  intro c
  have h := sl_invariant ops hops _ (sl_init_inv γ α lam tol q0 hγ hl htol)
  show (sarsalStep c.γ c.α c.lam c.tol c.tr c.q e.s e.a e.s1 e.a1 e.r).2 = _
  rw [h0, sarsal_lambda0 c.γ c.α c.tol c.tr c.q h.trw.2 e.s e.a e.s1 e.a1 e.r]
  rfl

/-- the weak invariant is all that can be said BETWEEN a `setTolerance` and the next step: raising the cut-off to 1/2 leaves
    the entry 1/4 in the list until the next step prunes it (test by evaluation) -/
example : ((slRun [.step ⟨0, 0, 1, 0, 1⟩, .step ⟨1, 0, 0, 1, 0⟩, .setTolerance (1/2)] (SL.init (1/2) 1 (1/2) (1/8) (fun _ _ => 0))).tr.map
      (fun t => (t.s, t.a, t.el))) = [(0, 0, 1/4), (1, 0, 1)]
    ∧ ((slRun [.step ⟨0, 0, 1, 0, 1⟩, .step ⟨1, 0, 0, 1, 0⟩, .setTolerance (1/2), .step ⟨1, 1, 0, 0, 0⟩]
        (SL.init (1/2) 1 (1/2) (1/8) (fun _ _ => 0))).tr.map (fun t => (t.s, t.a, t.el))) = [(1, 1, 1)] := by
  constructor <;> decide +kernel

/-- a rejected setter call changes nothing: `setDiscount(7)` and `setLambda(-1)` throw (test by evaluation) -/
example : (slRun [.setDiscount 7, .setLambda (-1)] (SL.init (1/2) 1 (1/2) (1/8) (fun _ _ => 0))).γ = 1/2
    ∧ (slRun [.setDiscount 7, .setLambda (-1)] (SL.init (1/2) 1 (1/2) (1/8) (fun _ _ => 0))).lam = 1/2 := by
  constructor <;> decide +kernel

end AITB.Learn
