/-
  AITB.Props.C15Gen — the LP that FactoredLP / Factored::MDP::LinearProgramming BUILD (model `AITB.Model.FLPGen`,
  shown equal to the library's LP row by row by the harness) is equivalent to the flat LP (property C15, part 2).

  One `removeFactor` step, read through the code's own data structure (appended rules, every matching rule summed,
  one new LP column per joint value of the neighbours and per side):
    I1 (`removeVar_ge`)        any valuation satisfying the step's rows does not decrease the value read from the state
    I2 (`removeVar_attained`)  any valuation of the old columns extends to the new columns (new column := the max) such
                               that the step's rows hold and the new value is attained by some value of the eliminated variable
  and the induction over `while (graph.variableSize())`, for every order `bestVariableToRemove` picks.
-/
import AITB.Props.C13Table
import AITB.Model.FLPGen

namespace AITB.FLP
open AITB.Factored AITB.VE

/-! ## values read from a state under a valuation of the LP columns -/

def sumU (u : Nat → Rat) : List Nat → Rat
  | [] => 0
  | c :: cs => u c + sumU u cs

/-- side `d` of the LP: every column name shifted by `d` -/
def shift (u : Nat → Rat) (d : Nat) : Nat → Rat := fun c => u (c + d)

def gVal (u : Nat → Rat) (A a : List Nat) (g : List LNode) : Rat := sumU u (hits A a g)

def stVal (u : Nat → Rat) (A a : List Nat) (st : GenSt) : Rat := gVal u A a st.graph + sumU u st.finals

theorem sumU_append (u : Nat → Rat) : ∀ (a b : List Nat), sumU u (a ++ b) = sumU u a + sumU u b
  | [], b => by simp [sumU]
  | c :: cs, b => by simp only [List.cons_append, sumU, sumU_append u cs b]; ring

theorem sumU_congr (u u' : Nat → Rat) : ∀ (l : List Nat), (∀ c ∈ l, u c = u' c) → sumU u l = sumU u' l
  | [], _ => rfl
  | c :: cs, h => by
    simp only [sumU]
    rw [h c (List.mem_cons_self ..), sumU_congr u u' cs (fun c' hc' => h c' (List.mem_cons_of_mem _ hc'))]

theorem hits_append (A a : List Nat) : ∀ (g h : List LNode), hits A a (g ++ h) = hits A a g ++ hits A a h
  | [], h => by simp [hits]
  | nd :: g, h => by simp only [List.cons_append, hits, hits_append A a g h, List.append_assoc]

theorem gVal_append (u : Nat → Rat) (A a : List Nat) (g h : List LNode) :
    gVal u A a (g ++ h) = gVal u A a g + gVal u A a h := by
  simp only [gVal, hits_append, sumU_append]

theorem gVal_cons (u : Nat → Rat) (A a : List Nat) (nd : LNode) (g : List LNode) :
    gVal u A a (nd :: g) = sumU u (hit A a nd) + gVal u A a g := by
  simp only [gVal, hits, sumU_append]

theorem hit_congr (A l1 l2 : List Nat) (nd : LNode) (h : ∀ k ∈ nd.keys, l1.getD k 0 = l2.getD k 0) :
    hit A l1 nd = hit A l2 nd := by
  simp only [hit, toIndexPartial, sel_congr nd.keys l1 l2 h]

theorem hits_congr (A l1 l2 : List Nat) : ∀ (g : List LNode),
    (∀ nd ∈ g, ∀ k ∈ nd.keys, l1.getD k 0 = l2.getD k 0) → hits A l1 g = hits A l2 g
  | [], _ => rfl
  | nd :: g, h => by
    simp only [hits]
    rw [hit_congr A l1 l2 nd (h nd (List.mem_cons_self ..)),
        hits_congr A l1 l2 g (fun nd' hnd' => h nd' (List.mem_cons_of_mem _ hnd'))]

theorem gVal_filter_split (u : Nat → Rat) (A a : List Nat) (p : LNode → Bool) : ∀ (g : List LNode),
    gVal u A a g = gVal u A a (g.filter p) + gVal u A a (g.filter (fun nd => !p nd))
  | [] => by simp [gVal, hits, sumU]
  | nd :: g => by
    by_cases h : p nd = true
    · simp only [List.filter, h, Bool.not_true, gVal_cons, gVal_filter_split u A a p g]; ring
    · have h' : p nd = false := by simpa using h
      simp only [List.filter, h', Bool.not_false, gVal_cons, gVal_filter_split u A a p g]; ring

/-! ## the rows of one cross-sum -/

theorem lhs_pos (u : Nat → Rat) (d : Nat) : ∀ (pos : List Nat), lhs u (pos.map (fun c => (c + d, (1 : Rat)))) = sumU (shift u d) pos
  | [] => rfl
  | c :: cs => by simp only [List.map_cons, lhs, sumU, lhs_pos u d cs, shift]; ring

theorem veRows_sat (u : Nat → Rat) (sides : Nat) (pos : List Nat) (neg : Nat) :
    (∀ r ∈ veRows sides pos neg, r.sat u) ↔ ∀ d, d < sides → sumU (shift u d) pos ≤ shift u d neg := by
  simp only [veRows, List.mem_map, List.mem_range]
  constructor
  · intro h d hd
    have := h _ ⟨d, hd, rfl⟩
    simp only [CRow.sat, lhs, lhs_pos] at this
    simp only [shift] at *
    linarith
  · rintro h r ⟨d, hd, rfl⟩
    have := h d hd
    simp only [CRow.sat, lhs, lhs_pos]
    simp only [shift] at *
    linarith

section step
variable (A : List Nat) (n : Nat) (sides : Nat)

theorem overValues_sat (u : Nat → Rat) (nb jv : List Nat) (v : Nat) (factors : List LNode) (col : Nat) :
    ∀ (cnt k0 : Nat),
    (∀ r ∈ overValues A n sides nb jv v factors col cnt k0, r.sat u) ↔
      ∀ k, k0 ≤ k → k < k0 + cnt → ∀ d, d < sides →
        sumU (shift u d) (hits A (listOf n (jvAsg nb jv v k)) factors) ≤ shift u d col
  | 0, k0 => by
    simp only [overValues, List.not_mem_nil, false_imp_iff, implies_true, true_iff]
    intro k h1 h2; omega
  | cnt+1, k0 => by
    simp only [overValues, List.mem_append]
    constructor
    · intro h k h1 h2 d hd
      rcases Nat.eq_or_lt_of_le h1 with e | e
      · subst e
        exact (veRows_sat u sides _ col).mp (fun r hr => h r (Or.inl hr)) d hd
      · exact (overValues_sat u nb jv v factors col cnt (k0+1)).mp (fun r hr => h r (Or.inr hr)) k (by omega) (by omega) d hd
    · intro h r hr
      rcases hr with hr | hr
      · exact (veRows_sat u sides _ col).mpr (fun d hd => h k0 (le_refl _) (by omega) d hd) r hr
      · exact (overValues_sat u nb jv v factors col cnt (k0+1)).mpr
          (fun k h1 h2 d hd => h k (by omega) (by omega) d hd) r hr

/-! ## appending a rule -/

theorem hit_append_rule (a : List Nat) (keys : List Nat) (rules : List (Nat × Nat)) (r : Nat × Nat) :
    hit A a ⟨keys, rules ++ [r]⟩ = hit A a ⟨keys, rules⟩ ++ (if r.1 = toIndexPartial keys A a then [r.2] else []) := by
  simp only [hit, List.filter_append, List.map_append]
  by_cases h : r.1 = toIndexPartial keys A a
  · simp [List.filter, h]
  · have : (r.1 == toIndexPartial keys A a) = false := by simpa using h
    simp [List.filter, h, this]

theorem gVal_addRule (u : Nat → Rat) (a : List Nat) (keys : List Nat) (r : Nat × Nat) : ∀ (g : List LNode),
    gVal u A a (addRule keys r g) = gVal u A a g + (if r.1 = toIndexPartial keys A a then u r.2 else 0)
  | [] => by
    simp only [addRule, gVal, hits, sumU]
    have := hit_append_rule A a keys [] r
    simp only [List.nil_append] at this
    rw [this]
    by_cases h : r.1 = toIndexPartial keys A a <;> simp [hit, h, sumU]
  | nd :: g => by
    simp only [addRule]
    by_cases h : nd.keys = keys
    · subst h
      simp only [beq_self_eq_true, if_true, gVal_cons, hit_append_rule, sumU_append]
      by_cases h2 : r.1 = toIndexPartial nd.keys A a
      · simp [h2, sumU]; ring
      · simp [h2, sumU]
    · have h' : (nd.keys == keys) = false := by simpa using h
      simp only [h', Bool.false_eq_true, if_false, gVal_cons, gVal_addRule u a keys r g]; ring

theorem filter_addRule (v : Nat) (keys : List Nat) (r : Nat × Nat) (hv : keys.contains v = false) : ∀ (g : List LNode),
    (addRule keys r g).filter (fun nd => nd.keys.contains v) = g.filter (fun nd => nd.keys.contains v)
  | [] => by simp only [addRule, List.filter, hv]
  | nd :: g => by
    simp only [addRule]
    by_cases h : nd.keys = keys
    · subst h
      simp only [beq_self_eq_true, if_true, List.filter, hv]
    · have h' : (nd.keys == keys) = false := by simpa using h
      simp only [h', Bool.false_eq_true, if_false, List.filter, filter_addRule v keys r hv g]

/-! ## the loop over the neighbours' joint values -/

/-- the cross-sum condition the rows of joint value `j` (column `col`) express -/
def JvCond (u : Nat → Rat) (nb : List Nat) (v : Nat) (factors : List LNode) (j col : Nat) : Prop :=
  ∀ k, k < A.getD v 0 → ∀ d, d < sides →
    sumU (shift u d) (hits A (listOf n (jvAsg nb (toFactors (sel nb A) j) v k)) factors) ≤ shift u d col

theorem removeLoop_succ (nb : List Nat) (v : Nat) (factors : List LNode) (cnt jvID : Nat) (st : GenSt) :
    removeLoop A n sides nb v factors (cnt+1) jvID st
      = removeLoop A n sides nb v factors cnt (jvID+1)
          (if nb.isEmpty then { st with finals := st.finals ++ [st.ncols], ncols := st.ncols + sides,
                                        rows := st.rows ++ overValues A n sides nb (toFactors (sel nb A) jvID) v factors st.ncols (A.getD v 0) 0 }
           else { st with graph := addRule nb (jvID, st.ncols) st.graph, ncols := st.ncols + sides,
                          rows := st.rows ++ overValues A n sides nb (toFactors (sel nb A) jvID) v factors st.ncols (A.getD v 0) 0 }) := rfl

/-- effect of the loop on the LP: columns, and what the pushed rows say -/
theorem removeLoop_rows (u : Nat → Rat) (nb : List Nat) (v : Nat) (factors : List LNode) : ∀ (cnt j0 : Nat) (st : GenSt),
    (removeLoop A n sides nb v factors cnt j0 st).ncols = st.ncols + sides * cnt ∧
    ((∀ r ∈ (removeLoop A n sides nb v factors cnt j0 st).rows, r.sat u) ↔
      (∀ r ∈ st.rows, r.sat u) ∧ ∀ i, i < cnt → JvCond A n sides u nb v factors (j0 + i) (st.ncols + sides * i))
  | 0, j0, st => by
    simp only [removeLoop, Nat.mul_zero, Nat.add_zero, true_and]
    constructor
    · intro h; exact ⟨h, fun i hi => absurd hi (by omega)⟩
    · intro h; exact h.1
  | cnt+1, j0, st => by
    rw [removeLoop_succ]
    have key : ∀ (st' : GenSt), st'.ncols = st.ncols + sides →
        st'.rows = st.rows ++ overValues A n sides nb (toFactors (sel nb A) j0) v factors st.ncols (A.getD v 0) 0 →
        (removeLoop A n sides nb v factors cnt (j0+1) st').ncols = st.ncols + sides * (cnt+1) ∧
        ((∀ r ∈ (removeLoop A n sides nb v factors cnt (j0+1) st').rows, r.sat u) ↔
          (∀ r ∈ st.rows, r.sat u) ∧ ∀ i, i < cnt+1 → JvCond A n sides u nb v factors (j0 + i) (st.ncols + sides * i)) := by
      intro st' hc hr
      obtain ⟨h1, h2⟩ := removeLoop_rows u nb v factors cnt (j0+1) st'
      refine ⟨by rw [h1, hc]; ring, ?_⟩
      rw [h2, hr, hc]
      have hov := overValues_sat A n sides u nb (toFactors (sel nb A) j0) v factors st.ncols (A.getD v 0) 0
      constructor
      · rintro ⟨ha, hb⟩
        refine ⟨fun r hr => ha r (List.mem_append.mpr (Or.inl hr)), ?_⟩
        intro i hi
        cases i with
        | zero =>
          intro k hk d hd
          have := hov.mp (fun r hr => ha r (List.mem_append.mpr (Or.inr hr))) k (Nat.zero_le _) (by omega) d hd
          simpa using this
        | succ i =>
          have := hb i (by omega)
          have e1 : j0 + 1 + i = j0 + (i + 1) := by omega
          have e2 : st.ncols + sides + sides * i = st.ncols + sides * (i + 1) := by ring
          rw [e1, e2] at this; exact this
      · rintro ⟨ha, hb⟩
        refine ⟨?_, ?_⟩
        · intro r hr
          rcases List.mem_append.mp hr with hr | hr
          · exact ha r hr
          · refine hov.mpr ?_ r hr
            intro k _ hk d hd
            have := hb 0 (by omega) k (by omega) d hd
            simpa using this
        · intro i hi
          have := hb (i+1) (by omega)
          have e1 : j0 + 1 + i = j0 + (i + 1) := by omega
          have e2 : st.ncols + sides + sides * i = st.ncols + sides * (i + 1) := by ring
          rw [e1, e2]; exact this
    by_cases he : nb.isEmpty = true
    · simp only [he, if_true]; exact key _ rfl rfl
    · have he' : nb.isEmpty = false := by simpa using he
      simp only [he', Bool.false_eq_true, if_false]; exact key _ rfl rfl

/-- neighbours non-empty: the value read at `a` gains exactly the column created for `a`'s own neighbour index -/
theorem removeLoop_graph (u : Nat → Rat) (a : List Nat) (nb : List Nat) (v : Nat) (factors : List LNode)
    (hne : nb.isEmpty = false) (hv : nb.contains v = false) : ∀ (cnt j0 : Nat) (st : GenSt),
    gVal u A a (removeLoop A n sides nb v factors cnt j0 st).graph
      = gVal u A a st.graph + (if j0 ≤ toIndexPartial nb A a ∧ toIndexPartial nb A a < j0 + cnt
                               then u (st.ncols + sides * (toIndexPartial nb A a - j0)) else 0) ∧
    (removeLoop A n sides nb v factors cnt j0 st).finals = st.finals ∧
    (removeLoop A n sides nb v factors cnt j0 st).graph.filter (fun nd => nd.keys.contains v)
      = st.graph.filter (fun nd => nd.keys.contains v)
  | 0, j0, st => by
    simp only [removeLoop, Nat.add_zero, and_self, and_true]
    have : ¬ (j0 ≤ toIndexPartial nb A a ∧ toIndexPartial nb A a < j0) := by omega
    simp [this]
  | cnt+1, j0, st => by
    rw [removeLoop_succ]
    simp only [hne, Bool.false_eq_true, if_false]
    obtain ⟨h1, h2, h3⟩ := removeLoop_graph u a nb v factors hne hv cnt (j0+1)
      { st with graph := addRule nb (j0, st.ncols) st.graph, ncols := st.ncols + sides,
                rows := st.rows ++ overValues A n sides nb (toFactors (sel nb A) j0) v factors st.ncols (A.getD v 0) 0 }
    refine ⟨?_, h2, ?_⟩
    · rw [h1, gVal_addRule]
      simp only
      by_cases e : j0 = toIndexPartial nb A a
      · have c1 : ¬ (j0 + 1 ≤ toIndexPartial nb A a ∧ toIndexPartial nb A a < j0 + 1 + cnt) := by omega
        have c2 : j0 ≤ toIndexPartial nb A a ∧ toIndexPartial nb A a < j0 + (cnt + 1) := by omega
        have e3 : toIndexPartial nb A a - j0 = 0 := by omega
        simp only [e, if_true] at *
        simp [c2]
      · by_cases c2 : j0 ≤ toIndexPartial nb A a ∧ toIndexPartial nb A a < j0 + (cnt + 1)
        · have c1 : j0 + 1 ≤ toIndexPartial nb A a ∧ toIndexPartial nb A a < j0 + 1 + cnt := by omega
          have e3 : st.ncols + sides + sides * (toIndexPartial nb A a - (j0 + 1)) = st.ncols + sides * (toIndexPartial nb A a - j0) := by
            have : toIndexPartial nb A a - j0 = (toIndexPartial nb A a - (j0 + 1)) + 1 := by omega
            rw [this]; ring
          simp [e, c1, c2, e3]
        · have c1 : ¬ (j0 + 1 ≤ toIndexPartial nb A a ∧ toIndexPartial nb A a < j0 + 1 + cnt) := by omega
          simp [e, c1, c2]
    · rw [h3]; exact filter_addRule v nb _ hv st.graph

/-- no neighbours: the single new column is final -/
theorem removeLoop_final (nb : List Nat) (v : Nat) (factors : List LNode) (hne : nb.isEmpty = true) (st : GenSt) :
    (removeLoop A n sides nb v factors 1 0 st).graph = st.graph ∧
    (removeLoop A n sides nb v factors 1 0 st).finals = st.finals ++ [st.ncols] := by
  rw [removeLoop_succ]
  simp only [hne, if_true, removeLoop, and_self]

end step

/-! ## one `removeFactor` -/

/-- every node key names a variable below `n` -/
def GKeysL (n : Nat) (g : List LNode) : Prop := ∀ nd ∈ g, ∀ u ∈ nd.keys, u < n

section rv
variable (A : List Nat) (sides : Nat)

theorem removeVar_val (u : Nat → Rat) (a : List Nat) (v : Nat) (st : GenSt) (ha : Valid A a) :
    stVal u A a (removeVar A A.length sides v st)
      = gVal u A a (st.graph.filter (fun nd => !nd.keys.contains v)) + sumU u st.finals
        + u (st.ncols + sides * toIndexPartial (nbrs A.length v (st.graph.map (·.keys))) A a) := by
  obtain ⟨nb, hnb⟩ : ∃ nb, nb = nbrs A.length v (st.graph.map (·.keys)) := ⟨_, rfl⟩
  obtain ⟨factors, hfac⟩ : ∃ f, f = st.graph.filter (fun nd => nd.keys.contains v) := ⟨_, rfl⟩
  have hnv : nb.contains v = false := by rw [hnb]; exact nbrs_not_self _ _ _
  have hnbn : ∀ w ∈ nb, w < A.length := by
    intro w hw; rw [hnb] at hw; exact ((mem_nbrs _ _ _ _).mp hw).1
  simp only [removeVar, stVal, ← hnb, ← hfac]
  by_cases hne : nb.isEmpty = true
  · have hnil : nb = [] := List.isEmpty_iff.mp hne
    have hcnt : spacePartial nb A = 1 := by rw [hnil]; simp [spacePartial, sel, space]
    have hj : toIndexPartial nb A a = 0 := by rw [hnil]; simp [toIndexPartial, sel, toIndexLoop]
    simp only [hne, Bool.true_or, if_true, hcnt, hj]
    obtain ⟨h1, h2⟩ := removeLoop_final A A.length sides nb v factors hne { st with graph := st.graph }
    rw [h1, h2, sumU_append]; simp [sumU]; ring
  · have hne' : nb.isEmpty = false := by simpa using hne
    obtain ⟨g, hg⟩ : ∃ g, g = (if nb.isEmpty || st.graph.any (fun nd => nd.keys == nb) then st.graph else st.graph ++ [⟨nb, []⟩]) := ⟨_, rfl⟩
    rw [← hg]
    have hgv : gVal u A a g = gVal u A a st.graph := by
      rw [hg]; split
      · rfl
      · rw [gVal_append]; simp [gVal, hits, hit, sumU]
    have hgf : g.filter (fun nd => nd.keys.contains v) = st.graph.filter (fun nd => nd.keys.contains v) := by
      rw [hg]; split
      · rfl
      · rw [List.filter_append]; simp only [List.filter, hnv, List.append_nil]
    obtain ⟨h1, h2, h3⟩ := removeLoop_graph A A.length sides u a nb v factors hne' hnv (spacePartial nb A) 0 { st with graph := g }
    have hlt := toIndexPartial_lt A a nb ha hnbn
    have hin : 0 ≤ toIndexPartial nb A a ∧ toIndexPartial nb A a < 0 + spacePartial nb A := ⟨Nat.zero_le _, by omega⟩
    simp only [hin, and_self, if_true, Nat.sub_zero] at h1
    have s1 := gVal_filter_split u A a (fun nd => nd.keys.contains v)
      (removeLoop A A.length sides nb v factors (spacePartial nb A) 0 { st with graph := g }).graph
    have s2 := gVal_filter_split u A a (fun nd => nd.keys.contains v) st.graph
    rw [h3] at s1
    simp only at h1 h2 h3 s1
    rw [h2]
    rw [hgf] at s1
    rw [hgv] at h1
    linarith

theorem removeVar_rows (u : Nat → Rat) (v : Nat) (st : GenSt) :
    (removeVar A A.length sides v st).ncols
      = st.ncols + sides * spacePartial (nbrs A.length v (st.graph.map (·.keys))) A ∧
    ((∀ r ∈ (removeVar A A.length sides v st).rows, r.sat u) ↔
      (∀ r ∈ st.rows, r.sat u) ∧
      ∀ j, j < spacePartial (nbrs A.length v (st.graph.map (·.keys))) A →
        JvCond A A.length sides u (nbrs A.length v (st.graph.map (·.keys))) v
          (st.graph.filter (fun nd => nd.keys.contains v)) j (st.ncols + sides * j)) := by
  simp only [removeVar]
  have := removeLoop_rows A A.length sides u (nbrs A.length v (st.graph.map (·.keys))) v
    (st.graph.filter (fun nd => nd.keys.contains v)) (spacePartial (nbrs A.length v (st.graph.map (·.keys))) A) 0
    { st with graph := (if (nbrs A.length v (st.graph.map (·.keys))).isEmpty || st.graph.any (fun nd => nd.keys == nbrs A.length v (st.graph.map (·.keys))) then st.graph else st.graph ++ [⟨nbrs A.length v (st.graph.map (·.keys)), []⟩]) }
  simp only [Nat.zero_add] at this
  exact this

/-- the cross-sum computed for the joint value with the index of `a`'s neighbour values matches the adjacent rules at `a[v := k]` -/
theorem hits_jv_eq_setAt (a : List Nat) (v k : Nat) (g : List LNode) (ha : Valid A a) (hv : v < A.length)
    (hk : GKeysL A.length g) :
    hits A (listOf A.length (jvAsg (nbrs A.length v (g.map (·.keys)))
        (toFactors (sel (nbrs A.length v (g.map (·.keys))) A) (toIndexPartial (nbrs A.length v (g.map (·.keys))) A a)) v k))
        (g.filter (fun nd => nd.keys.contains v))
      = hits A (setAt a v k) (g.filter (fun nd => nd.keys.contains v)) := by
  obtain ⟨nb, hnb⟩ : ∃ nb, nb = nbrs A.length v (g.map (·.keys)) := ⟨_, rfl⟩
  rw [← hnb]
  have hnbn : ∀ w ∈ nb, w < A.length := by
    intro w hw; rw [hnb] at hw; exact ((mem_nbrs _ _ _ _).mp hw).1
  have hjv : toFactors (sel nb A) (toIndexPartial nb A a) = sel nb a :=
    (toFactors_toIndexLoop _ _ (valid_sel A a ha nb hnbn)).1
  rw [hjv]
  apply hits_congr
  intro nd hnd w hw
  obtain ⟨hndg, hndv⟩ := List.mem_filter.mp hnd
  have hun : w < A.length := hk nd hndg w hw
  have hl := asgOf_listOf A.length (jvAsg nb (sel nb a) v k) w hun
  simp only [asgOf] at hl
  rw [hl, getD_setAt a v k w (by rw [valid_len A a ha]; exact hv)]
  by_cases e : w = v
  · simp [jvAsg, e]
  · have hunb : w ∈ nb := by
      rw [hnb, mem_nbrs]
      exact ⟨hun, e, nd.keys, List.mem_map.mpr ⟨nd, hndg, rfl⟩, List.contains_iff_mem.mp hndv, hw⟩
    simp only [jvAsg, e, if_false, find_zip_sel a w nb hunb]

theorem hits_setAt_rest (a : List Nat) (v k : Nat) (g : List LNode) (hv : v < a.length) :
    hits A (setAt a v k) (g.filter (fun nd => !nd.keys.contains v)) = hits A a (g.filter (fun nd => !nd.keys.contains v)) := by
  apply hits_congr
  intro nd hnd w hw
  have hnv := (List.mem_filter.mp hnd).2
  have : w ≠ v := by
    intro e; subst e
    simp at hnv
    exact hnv hw
  rw [getD_setAt a v k w hv]; simp [this]

theorem hits_setAt_self (a : List Nat) (v : Nat) (g : List LNode) (hv : v < a.length) :
    hits A (setAt a v (a.getD v 0)) g = hits A a g := by
  apply hits_congr
  intro nd _ w _
  rw [getD_setAt a v _ w hv]
  by_cases e : w = v <;> simp [e]

/-- **I1** for the code's data structure: a valuation satisfying the rows pushed by `removeFactor(v)` cannot decrease the
    value read from the state, on any side, at any in-range joint assignment -/
theorem removeVar_ge (u : Nat → Rat) (a : List Nat) (v : Nat) (st : GenSt) (ha : Valid A a) (hv : v < A.length)
    (hk : GKeysL A.length st.graph) (hsat : ∀ r ∈ (removeVar A A.length sides v st).rows, r.sat u) (d : Nat) (hd : d < sides) :
    stVal (shift u d) A a st ≤ stVal (shift u d) A a (removeVar A A.length sides v st) := by
  rw [removeVar_val A sides (shift u d) a v st ha]
  have hrows := ((removeVar_rows A sides u v st).2.mp hsat).2
  have hlt : toIndexPartial (nbrs A.length v (st.graph.map (·.keys))) A a < spacePartial (nbrs A.length v (st.graph.map (·.keys))) A :=
    toIndexPartial_lt A a _ ha (fun w hw => ((mem_nbrs _ _ _ _).mp hw).1)
  have hav : a.getD v 0 < A.getD v 0 := ((valid_iff_getD A a).mp ha).2 v hv
  have h1 := hrows _ hlt (a.getD v 0) hav d hd
  rw [hits_jv_eq_setAt A a v _ st.graph ha hv hk, hits_setAt_self A a v _ (by rw [valid_len A a ha]; exact hv)] at h1
  have s2 := gVal_filter_split (shift u d) A a (fun nd => nd.keys.contains v) st.graph
  simp only [stVal, gVal, shift] at *
  have e : st.ncols + sides * toIndexPartial (nbrs A.length v (st.graph.map (·.keys))) A a + d
      = st.ncols + sides * toIndexPartial (nbrs A.length v (st.graph.map (·.keys))) A a + d := rfl
  linarith

end rv

/-! ## extending a valuation to the new columns (I2) -/

/-- every rule / final column, on every side, is an existing LP column -/
def CInv (sides : Nat) (st : GenSt) : Prop :=
  (∀ nd ∈ st.graph, ∀ r ∈ nd.rules, r.2 + sides ≤ st.ncols) ∧ ∀ c ∈ st.finals, c + sides ≤ st.ncols

/-- every pushed row mentions existing LP columns only -/
def RInv (st : GenSt) : Prop := ∀ r ∈ st.rows, ∀ e ∈ r.ent, e.1 < st.ncols

theorem mem_hit (A a : List Nat) (nd : LNode) (c : Nat) (h : c ∈ hit A a nd) : ∃ r ∈ nd.rules, r.2 = c := by
  simp only [hit, List.mem_map, List.mem_filter] at h
  obtain ⟨r, ⟨hr, _⟩, e⟩ := h
  exact ⟨r, hr, e⟩

theorem mem_hits (A a : List Nat) : ∀ (g : List LNode) (c : Nat), c ∈ hits A a g → ∃ nd ∈ g, ∃ r ∈ nd.rules, r.2 = c
  | [], c, h => by simp [hits] at h
  | nd :: g, c, h => by
    simp only [hits, List.mem_append] at h
    rcases h with h | h
    · obtain ⟨r, hr, e⟩ := mem_hit A a nd c h
      exact ⟨nd, List.mem_cons_self .., r, hr, e⟩
    · obtain ⟨nd', h1, r, hr, e⟩ := mem_hits A a g c h
      exact ⟨nd', List.mem_cons_of_mem _ h1, r, hr, e⟩

theorem lhs_congr (u u' : Nat → Rat) : ∀ (ent : List (Nat × Rat)), (∀ e ∈ ent, u e.1 = u' e.1) → lhs u ent = lhs u' ent
  | [], _ => rfl
  | e :: es, h => by
    simp only [lhs]
    rw [h e (List.mem_cons_self ..), lhs_congr u u' es (fun e' he' => h e' (List.mem_cons_of_mem _ he'))]

theorem sat_congr (u u' : Nat → Rat) (r : CRow) (h : ∀ e ∈ r.ent, u e.1 = u' e.1) : r.sat u ↔ r.sat u' := by
  simp only [CRow.sat, lhs_congr u u' r.ent h]

section ext
variable (A : List Nat) (sides : Nat)

/-- the candidate values of a new column: cross-sum for value `k` of `v`, joint value `j`, side `d` -/
def cand (u : Nat → Rat) (nb : List Nat) (v : Nat) (factors : List LNode) (j d k : Nat) : Rat :=
  sumU (shift u d) (hits A (listOf A.length (jvAsg nb (toFactors (sel nb A) j) v k)) factors)

/-- old columns keep their value; the column of (joint value j, side d) gets the maximum of its candidates -/
def extU (u : Nat → Rat) (nb : List Nat) (v : Nat) (factors : List LNode) (base : Nat) : Nat → Rat := fun c =>
  if c < base then u c
  else maxTo (A.getD v 0 - 1) (cand A u nb v factors ((c - base) / sides) ((c - base) % sides))

theorem extU_old (u : Nat → Rat) (nb : List Nat) (v : Nat) (factors : List LNode) (base c : Nat) (h : c < base) :
    extU A sides u nb v factors base c = u c := by simp [extU, h]

theorem extU_new (u : Nat → Rat) (nb : List Nat) (v : Nat) (factors : List LNode) (base j d : Nat) (hd : d < sides) :
    extU A sides u nb v factors base (base + sides * j + d) = maxTo (A.getD v 0 - 1) (cand A u nb v factors j d) := by
  have h1 : ¬ (base + sides * j + d < base) := by omega
  have h2 : base + sides * j + d - base = sides * j + d := by omega
  have hs : 0 < sides := by omega
  have h3 : (sides * j + d) / sides = j := by
    rw [Nat.mul_add_div hs, Nat.div_eq_of_lt hd]; rfl
  have h4 : (sides * j + d) % sides = d := by
    rw [Nat.mul_add_mod, Nat.mod_eq_of_lt hd]
  simp only [extU, h1, if_false, h2, h3, h4]

/-- **I2** for the code's data structure: every valuation satisfying the rows pushed so far extends to the columns created
    by `removeFactor(v)` (new column := maximum of its cross-sums) so that all rows hold and, on every side, the new
    state value at `a` is the old state value at `a[v := k]` for some value `k` of `v` -/
theorem removeVar_extend (v : Nat) (st : GenSt) (hv : v < A.length) (hpos : 0 < A.getD v 0)
    (hk : GKeysL A.length st.graph) (hc : CInv sides st) (hr : RInv st)
    (u : Nat → Rat) (hsat : ∀ r ∈ st.rows, r.sat u) :
    ∃ u', (∀ c, c < st.ncols → u' c = u c) ∧ (∀ r ∈ (removeVar A A.length sides v st).rows, r.sat u') ∧
      ∀ d, d < sides → ∀ a, Valid A a → ∃ k, k < A.getD v 0 ∧
        stVal (shift u' d) A a (removeVar A A.length sides v st) = stVal (shift u d) A (setAt a v k) st := by
  obtain ⟨nb, hnb⟩ : ∃ nb, nb = nbrs A.length v (st.graph.map (·.keys)) := ⟨_, rfl⟩
  obtain ⟨factors, hfac⟩ : ∃ f, f = st.graph.filter (fun nd => nd.keys.contains v) := ⟨_, rfl⟩
  obtain ⟨u', hu'⟩ : ∃ u', u' = extU A sides u nb v factors st.ncols := ⟨_, rfl⟩
  have hold : ∀ c, c < st.ncols → u' c = u c := fun c h => by rw [hu']; exact extU_old A sides u nb v factors _ c h
  -- columns of existing rules keep their value on every side
  have hgraph : ∀ d, d < sides → ∀ nd ∈ st.graph, ∀ r ∈ nd.rules, shift u' d r.2 = shift u d r.2 := by
    intro d hd nd hnd r hr'
    have := hc.1 nd hnd r hr'
    simp only [shift]; exact hold _ (by omega)
  have hhits : ∀ d, d < sides → ∀ (x : List Nat) (g : List LNode), (∀ nd ∈ g, nd ∈ st.graph) →
      sumU (shift u' d) (hits A x g) = sumU (shift u d) (hits A x g) := by
    intro d hd x g hg
    apply sumU_congr
    intro c hcm
    obtain ⟨nd, hnd, r, hr', e⟩ := mem_hits A x g c hcm
    rw [← e]; exact hgraph d hd nd (hg nd hnd) r hr'
  have hfin : ∀ d, d < sides → sumU (shift u' d) st.finals = sumU (shift u d) st.finals := by
    intro d hd
    apply sumU_congr
    intro c hcm
    have := hc.2 c hcm
    simp only [shift]; exact hold _ (by omega)
  have hfacsub : ∀ nd ∈ factors, nd ∈ st.graph := by
    intro nd hnd; rw [hfac] at hnd; exact (List.mem_filter.mp hnd).1
  refine ⟨u', hold, ?_, ?_⟩
  · rw [(removeVar_rows A sides u' v st).2]
    refine ⟨?_, ?_⟩
    · intro r hr'
      rw [← sat_congr u u' r (fun e he => (hold e.1 (hr r hr' e he)).symm)]
      exact hsat r hr'
    · rw [← hnb, ← hfac]
      intro j _ k hk' d hd
      rw [hhits d hd _ factors hfacsub]
      have e1 : shift u' d (st.ncols + sides * j) = maxTo (A.getD v 0 - 1) (cand A u nb v factors j d) := by
        simp only [shift]; rw [hu']; exact extU_new A sides u nb v factors st.ncols j d hd
      rw [e1]
      exact maxTo_ge (A.getD v 0 - 1) (cand A u nb v factors j d) k (by omega)
  · intro d hd a ha
    obtain ⟨jstar, hj⟩ : ∃ j, j = toIndexPartial nb A a := ⟨_, rfl⟩
    refine ⟨argmaxTo (A.getD v 0 - 1) (cand A u nb v factors jstar d), ?_, ?_⟩
    · have := argmaxTo_le (A.getD v 0 - 1) (cand A u nb v factors jstar d); omega
    · rw [removeVar_val A sides (shift u' d) a v st ha, ← hnb, ← hj]
      have e1 : shift u' d (st.ncols + sides * jstar) = maxTo (A.getD v 0 - 1) (cand A u nb v factors jstar d) := by
        simp only [shift]; rw [hu']; exact extU_new A sides u nb v factors st.ncols jstar d hd
      rw [e1, maxTo_attained]
      have hval : a.length = A.length := valid_len A a ha
      have e2 : cand A u nb v factors jstar d (argmaxTo (A.getD v 0 - 1) (cand A u nb v factors jstar d))
          = sumU (shift u d) (hits A (setAt a v (argmaxTo (A.getD v 0 - 1) (cand A u nb v factors jstar d))) factors) := by
        simp only [cand]
        rw [hj, hnb, hfac, hits_jv_eq_setAt A a v _ st.graph ha hv hk]
      rw [e2]
      have e3 : gVal (shift u' d) A a (st.graph.filter (fun nd => !nd.keys.contains v))
          = gVal (shift u d) A a (st.graph.filter (fun nd => !nd.keys.contains v)) :=
        hhits d hd a _ (fun nd hnd => (List.mem_filter.mp hnd).1)
      rw [e3, hfin d hd]
      have s2 := gVal_filter_split (shift u d) A (setAt a v (argmaxTo (A.getD v 0 - 1) (cand A u nb v factors jstar d)))
        (fun nd => nd.keys.contains v) st.graph
      have s3 := hits_setAt_rest A a v (argmaxTo (A.getD v 0 - 1) (cand A u nb v factors jstar d)) st.graph (by rw [hval]; exact hv)
      simp only [stVal, gVal] at *
      rw [s2, s3, ← hfac]; ring

end ext

/-! ## invariants of the elimination loop -/

/-- every node has a key, and only variables not yet eliminated occur -/
def LInvL (active : List Nat) (g : List LNode) : Prop := ∀ nd ∈ g, nd.keys ≠ [] ∧ ∀ u ∈ nd.keys, u ∈ active

theorem addRule_keys (keys : List Nat) (r : Nat × Nat) : ∀ (g : List LNode), ∀ nd ∈ addRule keys r g,
    nd.keys = keys ∨ ∃ nd' ∈ g, nd'.keys = nd.keys
  | [], nd, h => by simp [addRule] at h; subst h; exact Or.inl rfl
  | x :: g, nd, h => by
    simp only [addRule] at h
    split at h
    · rcases List.mem_cons.mp h with h | h
      · subst h; exact Or.inr ⟨x, List.mem_cons_self .., rfl⟩
      · exact Or.inr ⟨nd, List.mem_cons_of_mem _ h, rfl⟩
    · rcases List.mem_cons.mp h with h | h
      · subst h; exact Or.inr ⟨nd, List.mem_cons_self .., rfl⟩
      · rcases addRule_keys keys r g nd h with h' | ⟨nd', h1, h2⟩
        · exact Or.inl h'
        · exact Or.inr ⟨nd', List.mem_cons_of_mem _ h1, h2⟩

theorem addRule_rules (keys : List Nat) (r : Nat × Nat) : ∀ (g : List LNode), ∀ nd ∈ addRule keys r g,
    ∀ r' ∈ nd.rules, r' = r ∨ ∃ nd' ∈ g, r' ∈ nd'.rules
  | [], nd, h, r', hr' => by
    simp [addRule] at h; subst h
    simp at hr'; exact Or.inl hr'
  | x :: g, nd, h, r', hr' => by
    simp only [addRule] at h
    split at h
    · rcases List.mem_cons.mp h with h | h
      · subst h
        simp only [List.mem_append, List.mem_singleton] at hr'
        rcases hr' with hr' | hr'
        · exact Or.inr ⟨x, List.mem_cons_self .., hr'⟩
        · exact Or.inl hr'
      · exact Or.inr ⟨nd, List.mem_cons_of_mem _ h, hr'⟩
    · rcases List.mem_cons.mp h with h | h
      · subst h; exact Or.inr ⟨nd, List.mem_cons_self .., hr'⟩
      · rcases addRule_rules keys r g nd h r' hr' with h' | ⟨nd', h1, h2⟩
        · exact Or.inl h'
        · exact Or.inr ⟨nd', List.mem_cons_of_mem _ h1, h2⟩

section inv
variable (A : List Nat) (n : Nat) (sides : Nat)

theorem veRows_bound (B : Nat) (pos : List Nat) (neg : Nat) (hneg : neg + sides ≤ B) (hpos : ∀ c ∈ pos, c + sides ≤ B) :
    ∀ r ∈ veRows sides pos neg, ∀ e ∈ r.ent, e.1 < B := by
  intro r hr e he
  simp only [veRows, List.mem_map, List.mem_range] at hr
  obtain ⟨d, hd, rfl⟩ := hr
  simp only [List.mem_cons, List.mem_map] at he
  rcases he with rfl | ⟨c, hc, rfl⟩
  · simp only; omega
  · have := hpos c hc; simp only; omega

theorem overValues_bound (B : Nat) (nb jv : List Nat) (v : Nat) (factors : List LNode) (col : Nat) (hcol : col + sides ≤ B)
    (hf : ∀ nd ∈ factors, ∀ r ∈ nd.rules, r.2 + sides ≤ B) : ∀ (cnt k0 : Nat),
    ∀ r ∈ overValues A n sides nb jv v factors col cnt k0, ∀ e ∈ r.ent, e.1 < B
  | 0, _, r, hr, _, _ => by simp [overValues] at hr
  | cnt+1, k0, r, hr, e, he => by
    simp only [overValues, List.mem_append] at hr
    rcases hr with hr | hr
    · refine veRows_bound sides B _ col hcol ?_ r hr e he
      intro c hc
      obtain ⟨nd, hnd, r', hr', e'⟩ := mem_hits A _ factors c hc
      rw [← e']; exact hf nd hnd r' hr'
    · exact overValues_bound B nb jv v factors col hcol hf cnt (k0+1) r hr e he

theorem removeLoop_inv (nb : List Nat) (v : Nat) (factors : List LNode) : ∀ (cnt j : Nat) (st : GenSt),
    CInv sides st → RInv st → (∀ nd ∈ factors, ∀ r ∈ nd.rules, r.2 + sides ≤ st.ncols) →
    CInv sides (removeLoop A n sides nb v factors cnt j st) ∧ RInv (removeLoop A n sides nb v factors cnt j st) ∧
    (∀ r ∈ st.rows, r ∈ (removeLoop A n sides nb v factors cnt j st).rows)
  | 0, _, st, hc, hr, _ => ⟨hc, hr, fun _ h => h⟩
  | cnt+1, j, st, hc, hr, hf => by
    rw [removeLoop_succ]
    have hnew : ∀ r ∈ overValues A n sides nb (toFactors (sel nb A) j) v factors st.ncols (A.getD v 0) 0,
        ∀ e ∈ r.ent, e.1 < st.ncols + sides :=
      overValues_bound A n sides (st.ncols + sides) nb _ v factors st.ncols (le_refl _)
        (fun nd hnd r hr' => by have := hf nd hnd r hr'; omega) _ 0
    have hrows : ∀ (rows : List CRow), rows = st.rows ++ overValues A n sides nb (toFactors (sel nb A) j) v factors st.ncols (A.getD v 0) 0 →
        ∀ r ∈ rows, ∀ e ∈ r.ent, e.1 < st.ncols + sides := by
      intro rows hrw r hr' e he
      rw [hrw] at hr'
      rcases List.mem_append.mp hr' with h | h
      · have := hr r h e he; omega
      · exact hnew r h e he
    by_cases he : nb.isEmpty = true
    · simp only [he, if_true]
      obtain ⟨h1, h2, h3⟩ := removeLoop_inv nb v factors cnt (j+1)
        { st with finals := st.finals ++ [st.ncols], ncols := st.ncols + sides,
                  rows := st.rows ++ overValues A n sides nb (toFactors (sel nb A) j) v factors st.ncols (A.getD v 0) 0 }
        ⟨fun nd hnd r hr' => by have := hc.1 nd hnd r hr'; simp only; omega,
         fun c hcm => by
           simp only [List.mem_append, List.mem_singleton] at hcm
           rcases hcm with h | h
           · have := hc.2 c h; simp only; omega
           · subst h; simp only; omega⟩
        (hrows _ rfl)
        (fun nd hnd r hr' => by have := hf nd hnd r hr'; simp only; omega)
      exact ⟨h1, h2, fun r hr' => h3 r (List.mem_append.mpr (Or.inl hr'))⟩
    · have he' : nb.isEmpty = false := by simpa using he
      simp only [he', Bool.false_eq_true, if_false]
      obtain ⟨h1, h2, h3⟩ := removeLoop_inv nb v factors cnt (j+1)
        { st with graph := addRule nb (j, st.ncols) st.graph, ncols := st.ncols + sides,
                  rows := st.rows ++ overValues A n sides nb (toFactors (sel nb A) j) v factors st.ncols (A.getD v 0) 0 }
        ⟨fun nd hnd r hr' => by
           rcases addRule_rules nb (j, st.ncols) st.graph nd hnd r hr' with h | ⟨nd', h1, h2⟩
           · subst h; simp only; omega
           · have := hc.1 nd' h1 r h2; simp only; omega,
         fun c hcm => by have := hc.2 c hcm; simp only; omega⟩
        (hrows _ rfl)
        (fun nd hnd r hr' => by have := hf nd hnd r hr'; simp only; omega)
      exact ⟨h1, h2, fun r hr' => h3 r (List.mem_append.mpr (Or.inl hr'))⟩

theorem removeVar_inv (v : Nat) (st : GenSt) (hc : CInv sides st) (hr : RInv st) :
    CInv sides (removeVar A n sides v st) ∧ RInv (removeVar A n sides v st) ∧
    (∀ r ∈ st.rows, r ∈ (removeVar A n sides v st).rows) := by
  simp only [removeVar]
  obtain ⟨g, hg⟩ : ∃ g, g = (if (nbrs n v (st.graph.map (·.keys))).isEmpty || st.graph.any (fun nd => nd.keys == nbrs n v (st.graph.map (·.keys))) then st.graph else st.graph ++ [⟨nbrs n v (st.graph.map (·.keys)), []⟩]) := ⟨_, rfl⟩
  rw [← hg]
  have hcg : CInv sides { st with graph := g } := by
    refine ⟨?_, hc.2⟩
    intro nd hnd r hr'
    rw [hg] at hnd
    split at hnd
    · exact hc.1 nd hnd r hr'
    · rcases List.mem_append.mp hnd with h | h
      · exact hc.1 nd h r hr'
      · simp only [List.mem_singleton] at h; subst h; simp at hr'
  obtain ⟨h1, h2, h3⟩ := removeLoop_inv A n sides (nbrs n v (st.graph.map (·.keys))) v
    (st.graph.filter (fun nd => nd.keys.contains v)) (spacePartial (nbrs n v (st.graph.map (·.keys))) A) 0
    { st with graph := g } hcg hr (fun nd hnd r hr' => hc.1 nd (List.mem_filter.mp hnd).1 r hr')
  exact ⟨⟨fun nd hnd r hr' => h1.1 nd (List.mem_filter.mp hnd).1 r hr', h1.2⟩, h2, h3⟩

theorem removeLoop_keys (nb : List Nat) (v : Nat) (factors : List LNode) :
    ∀ (cnt j : Nat) (st : GenSt), ∀ nd ∈ (removeLoop A n sides nb v factors cnt j st).graph,
      (nb.isEmpty = false ∧ nd.keys = nb) ∨ ∃ nd' ∈ st.graph, nd'.keys = nd.keys
  | 0, _, st, nd, h => Or.inr ⟨nd, h, rfl⟩
  | cnt+1, j, st, nd, h => by
    rw [removeLoop_succ] at h
    rcases removeLoop_keys nb v factors cnt (j+1) _ nd h with h' | ⟨nd', h1, h2⟩
    · exact Or.inl h'
    · by_cases he : nb.isEmpty = true
      · simp only [he, if_true] at h1; exact Or.inr ⟨nd', h1, h2⟩
      · have he' : nb.isEmpty = false := by simpa using he
        simp only [he', Bool.false_eq_true, if_false] at h1
        rcases addRule_keys nb _ st.graph nd' h1 with h3 | ⟨nd'', h3, h4⟩
        · exact Or.inl ⟨he', by rw [← h2, h3]⟩
        · exact Or.inr ⟨nd'', h3, by rw [h4, h2]⟩

theorem removeVar_LInvL (v : Nat) (active : List Nat) (st : GenSt)
    (hinv : LInvL active st.graph) : LInvL (active.filter (· != v)) (removeVar A A.length sides v st).graph := by
  intro nd hnd
  simp only [removeVar] at hnd
  obtain ⟨hmem, hnv⟩ := List.mem_filter.mp hnd
  have hnv' : ∀ u ∈ nd.keys, u ≠ v := by
    intro u hu e; subst e
    simp at hnv
    exact hnv hu
  have hold : ∀ nd' ∈ st.graph, nd'.keys = nd.keys → nd.keys ≠ [] ∧ ∀ u ∈ nd.keys, u ∈ active.filter (· != v) := by
    intro nd' h1 h2
    obtain ⟨k1, k2⟩ := hinv nd' h1
    rw [h2] at k1 k2
    exact ⟨k1, fun u hu => List.mem_filter.mpr ⟨k2 u hu, by simpa using hnv' u hu⟩⟩
  have hnbcase : ∀ nb, nb = nbrs A.length v (st.graph.map (·.keys)) → nb.isEmpty = false → nd.keys = nb →
      nd.keys ≠ [] ∧ ∀ u ∈ nd.keys, u ∈ active.filter (· != v) := by
    intro nb hnb he hk
    refine ⟨by rw [hk]; intro e; simp [e] at he, ?_⟩
    intro u hu
    have hu' : u ∈ nbrs A.length v (st.graph.map (·.keys)) := by rw [← hnb, ← hk]; exact hu
    obtain ⟨_, hne, s, hs, _, hus⟩ := (mem_nbrs _ _ _ _).mp hu'
    obtain ⟨nd', hnd', rfl⟩ := List.mem_map.mp hs
    exact List.mem_filter.mpr ⟨(hinv nd' hnd').2 u hus, by simpa using hne⟩
  rcases removeLoop_keys A A.length sides _ v _ _ _ _ nd hmem with ⟨he, hk⟩ | ⟨nd', h1, h2⟩
  · exact hnbcase _ rfl he hk
  · simp only at h1
    split at h1
    · exact hold nd' h1 h2
    · rcases List.mem_append.mp h1 with h1 | h1
      · exact hold nd' h1 h2
      · simp only [List.mem_singleton] at h1
        subst h1
        rename_i hcond
        have he : (nbrs A.length v (st.graph.map (·.keys))).isEmpty = false := by
          by_contra hc
          have : (nbrs A.length v (st.graph.map (·.keys))).isEmpty = true := by simpa using hc
          simp [this] at hcond
        exact hnbcase _ rfl he h2.symm

end inv

/-! ## the whole `while (graph.variableSize()) removeFactor(…)` loop -/

section loop
variable (A : List Nat) (sides : Nat)

/-- what the loop guarantees from state `st` to its end state `fin` -/
structure LoopSpec (st fin : GenSt) : Prop where
  graph_nil : fin.graph = []
  cinv : CInv sides fin
  rinv : RInv fin
  ncols_le : st.ncols ≤ fin.ncols
  rows_mono : ∀ r ∈ st.rows, r ∈ fin.rows
  /-- soundness: rows satisfied ⇒ the sum of the final columns dominates the state value everywhere, on every side -/
  sound : ∀ u, (∀ r ∈ fin.rows, r.sat u) → ∀ d, d < sides → ∀ a, Valid A a →
    stVal (shift u d) A a st ≤ sumU (shift u d) fin.finals
  /-- completeness: a valuation satisfying the rows so far extends (same old columns) to one satisfying all rows whose
      final sum is ATTAINED by the state value at some in-range joint assignment, on every side -/
  complete : ∀ u, (∀ r ∈ st.rows, r.sat u) → ∃ u', (∀ c, c < st.ncols → u' c = u c) ∧ (∀ r ∈ fin.rows, r.sat u') ∧
    ∀ d, d < sides → ∃ a', Valid A a' ∧ sumU (shift u' d) fin.finals = stVal (shift u d) A a' st

theorem genLoop_nil (hA : ∀ d ∈ A, 0 < d) (fuel : Nat) (st : GenSt) (hinv : LInvL [] st.graph) (hc : CInv sides st) (hr : RInv st) :
    LoopSpec A sides st (genLoop A A.length sides fuel [] st) := by
  have hg : st.graph = [] := by
    cases hgr : st.graph with
    | nil => rfl
    | cons nd g =>
      have := hinv nd (by rw [hgr]; exact List.mem_cons_self ..)
      obtain ⟨u, hu⟩ := List.exists_mem_of_ne_nil _ this.1
      exact absurd (this.2 u hu) (by simp)
  have : genLoop A A.length sides fuel [] st = st := by cases fuel <;> rfl
  rw [this]
  refine ⟨hg, hc, hr, le_refl _, fun _ h => h, ?_, ?_⟩
  · intro u _ d _ a _
    simp only [stVal, hg, gVal, hits, sumU]; linarith
  · intro u hu
    refine ⟨u, fun _ _ => rfl, hu, fun d _ => ⟨A.map (fun _ => 0), valid_zeros A hA, ?_⟩⟩
    simp only [stVal, hg, gVal, hits, sumU]; ring

/-- the loop, for whatever variable `bestVariableToRemove` picks at each round -/
theorem genLoop_spec (hA : ∀ d ∈ A, 0 < d) : ∀ (fuel : Nat) (active : List Nat) (st : GenSt),
    active.length ≤ fuel → (∀ u ∈ active, u < A.length) → LInvL active st.graph → CInv sides st → RInv st →
    LoopSpec A sides st (genLoop A A.length sides fuel active st) := by
  intro fuel
  induction fuel with
  | zero =>
    intro active st hlen _ hinv hc hr
    have : active = [] := List.length_eq_zero_iff.mp (by omega)
    subst this
    exact genLoop_nil A sides hA 0 st hinv hc hr
  | succ fuel ih =>
    intro active st hlen hact hinv hc hr
    cases active with
    | nil => exact genLoop_nil A sides hA (fuel+1) st hinv hc hr
    | cons x xs =>
      obtain ⟨v, hvdef⟩ : ∃ v, v = bestVar A A.length (x :: xs) (st.graph.map (·.keys)) := ⟨_, rfl⟩
      have hvmem : v ∈ x :: xs := by rw [hvdef]; exact bestVar_mem _ _ _ _ (by simp)
      have hv : v < A.length := hact v hvmem
      have hpos : 0 < A.getD v 0 := by
        have : A.getD v 0 = A[v] := by simp [List.getD_eq_getElem?_getD, List.getElem?_eq_getElem hv]
        rw [this]; exact hA _ (List.getElem_mem hv)
      have hk : GKeysL A.length st.graph := fun nd hnd u hu => hact u ((hinv nd hnd).2 u hu)
      have hstep : genLoop A A.length sides (fuel+1) (x :: xs) st
          = genLoop A A.length sides fuel ((x :: xs).filter (· != v)) (removeVar A A.length sides v st) := by
        rw [hvdef]; rfl
      rw [hstep]
      have hlen' : ((x :: xs).filter (· != v)).length ≤ fuel := by
        have := length_filter_ne_lt v (x :: xs) hvmem
        simp only [List.length_cons] at hlen this ⊢; omega
      obtain ⟨hc1, hr1, hmono1⟩ := removeVar_inv A A.length sides v st hc hr
      have hncols1 : st.ncols ≤ (removeVar A A.length sides v st).ncols := by
        rw [(removeVar_rows A sides (fun _ => 0) v st).1]; omega
      have IH := ih ((x :: xs).filter (· != v)) (removeVar A A.length sides v st) hlen'
        (fun u hu => hact u (List.mem_filter.mp hu).1) (removeVar_LInvL A sides v (x :: xs) st hinv) hc1 hr1
      refine ⟨IH.graph_nil, IH.cinv, IH.rinv, le_trans hncols1 IH.ncols_le, fun r h => IH.rows_mono r (hmono1 r h), ?_, ?_⟩
      · intro u hu d hd a ha
        have h1 := removeVar_ge A sides u a v st ha hv hk (fun r h => hu r (IH.rows_mono r h)) d hd
        exact le_trans h1 (IH.sound u hu d hd a ha)
      · intro u hu
        obtain ⟨u1, hag1, hsat1, hatt1⟩ := removeVar_extend A sides v st hv hpos hk hc hr u hu
        obtain ⟨u2, hag2, hsat2, hatt2⟩ := IH.complete u1 hsat1
        refine ⟨u2, fun c h => by rw [hag2 c (by omega), hag1 c h], hsat2, ?_⟩
        intro d hd
        obtain ⟨a1, ha1, e1⟩ := hatt2 d hd
        obtain ⟨k, hk1, e2⟩ := hatt1 d hd a1 ha1
        exact ⟨setAt a1 v k, valid_setAt A a1 v k ha1 hk1 hv, by rw [e1, e2]⟩

end loop

end AITB.FLP
