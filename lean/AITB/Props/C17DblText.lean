/-
  AITB.Props.C17DblText — the text layer of "17 significant digits identify a double" (C17).

  `AITB.Props.C17Dbl` proves the numeric statement  toDouble (decValue p (sigDigits p a)) = some a  (p ≥ 17).
  This file closes the gap to the model's concrete printer and scanner of `AITB.Model.CodecNum`:

    scanDQ_printDQ   p ≥ 17, q a finite double (0, or ± a positive double):  scanDQ (printDQ p q) = some (q, [])
    ratIO_RT         the same as the round-trip hypothesis `RT (ratIO tol) p q` of `AITB.Props.C17`

  Structure (helper lemmas live in namespace AITB.Codec.DblText):
    A. numeric:  floorLog10 a is the exact decimal exponent (upper bound added here), hence for the `p` significant
       digits (n, x) = sigDigits p a of a positive double: 10^(p-1) ≤ n < 10^p and −401 ≤ x ≤ 400
       (`sigDigits_bounds`).
    B. text:  every layout of `gText` (scientific, fixed with x ≥ 0, fixed with x < 0) has the shape
       sign ++ ip ++ fracStr fr ++ exs  with ip a non-empty digit string, fr a digit string and exs an exponent suffix
       (`ExpOK`); on such a text `splitSign` removes the sign, `accMant` accumulates everything, and `floatValue`
       evaluates to toDouble (natOfDigits (ip ++ fr) · 10^(e − |fr|)); stripped trailing zeros, leading zeros and the
       zero padding of the exponent do not change the value (`scanDQ_shape`, `scanDQ_gText`).
    C. combination with `toDouble_sigDigits_ge17`: printDQ p q = gText p (q<0) (padDigits p n) x with (n, x) = sigDigits p |q|,
       whose scan is ± toDouble (decValue p (sigDigits p |q|)) = ± |q| = q; q = 0 prints "0" (`scanDQ_zero`).
-/
import AITB.Props.C17Dbl
import AITB.Props.C17

namespace AITB.Codec.DblText

/-! ### characters, spanP, accMant -/

theorem isDig_ne_special (c : Char) (h : isDig c = true) :
    c ≠ '-' ∧ c ≠ '+' ∧ c ≠ '.' ∧ c ≠ 'e' ∧ c ≠ 'E' := by
  refine ⟨?_, ?_, ?_, ?_, ?_⟩ <;> (rintro rfl; revert h; decide)

theorem spanP_append (p : Char → Bool) : ∀ (l r : List Char), (∀ c ∈ l, p c = true) →
    spanP p (l ++ r) = (l ++ (spanP p r).1, (spanP p r).2)
  | [], r, _ => by simp
  | c :: cs, r, h => by
    have hc := h c (List.mem_cons_self)
    have ih := spanP_append p cs r (fun x hx => h x (List.mem_cons_of_mem _ hx))
    simp [spanP, hc, ih]

theorem spanP_stop (p : Char → Bool) (c : Char) (r : List Char) (h : p c = false) :
    spanP p (c :: r) = ([], c :: r) := by
  simp [spanP, h]

theorem accMant_dig (c : Char) (cs : List Char) (fm fd : Bool) (h : isDig c = true) :
    accMant (c :: cs) fm fd = (c :: (accMant cs true fd).1, (accMant cs true fd).2) := by
  simp [accMant, h]

theorem accMant_digs : ∀ (l rest : List Char) (fd : Bool), (∀ c ∈ l, isDig c = true) →
    accMant (l ++ rest) true fd = (l ++ (accMant rest true fd).1, (accMant rest true fd).2)
  | [], rest, fd, _ => by simp
  | c :: cs, rest, fd, h => by
    have hc := h c (List.mem_cons_self)
    have ih := accMant_digs cs rest fd (fun x hx => h x (List.mem_cons_of_mem _ hx))
    rw [List.cons_append, accMant_dig _ _ _ _ hc, ih]
    simp

theorem accMant_dot (cs : List Char) (fm : Bool) :
    accMant ('.' :: cs) fm false = ('.' :: (accMant cs fm true).1, (accMant cs fm true).2) := by
  have h : isDig '.' = false := by decide
  simp [accMant, h]

theorem accMant_nil (fm fd : Bool) : accMant [] fm fd = ([], []) := rfl

theorem accMant_exp_plus (E : List Char) (fd : Bool) (h : ∀ c ∈ E, isDig c = true) :
    accMant ('e' :: '+' :: E) true fd = ('e' :: '+' :: E, []) := by
  have h1 : isDig 'e' = false := by decide
  simp [accMant, h1, spanP_all isDig E h]

theorem accMant_exp_minus (E : List Char) (fd : Bool) (h : ∀ c ∈ E, isDig c = true) :
    accMant ('e' :: '-' :: E) true fd = ('e' :: '-' :: E, []) := by
  have h1 : isDig 'e' = false := by decide
  simp [accMant, h1, spanP_all isDig E h]


theorem foldl_digits_init : ∀ (l : List Nat) (i : Nat),
    l.foldl (fun a d => a * 10 + d) i = i * 10 ^ l.length + l.foldl (fun a d => a * 10 + d) 0
  | [], i => by simp
  | d :: ds, i => by
    simp only [List.foldl_cons, List.length_cons]
    rw [foldl_digits_init ds (i * 10 + d), foldl_digits_init ds (0 * 10 + d)]
    rw [Nat.pow_succ]
    ring

theorem natOfDigits_append (a b : List Char) :
    natOfDigits (a ++ b) = natOfDigits a * 10 ^ b.length + natOfDigits b := by
  unfold natOfDigits evalDigits
  rw [List.map_append, List.foldl_append, foldl_digits_init]
  simp

theorem natOfDigits_zeros : ∀ z : Nat, natOfDigits (List.replicate z '0') = 0
  | 0 => rfl
  | z + 1 => by
    have h0 : natOfDigits ['0'] = 0 := by decide
    rw [List.replicate_succ, ← List.singleton_append, natOfDigits_append, natOfDigits_zeros z, h0]
    simp

theorem natOfDigits_printN (n : Nat) : natOfDigits (printN n) = n := by
  unfold natOfDigits printN
  have hlt := digits_lt10 n
  have hval : ((digits n).map digitChar).map digitVal = digits n := by
    rw [List.map_map]
    conv => rhs; rw [← List.map_id (digits n)]
    apply List.map_congr_left
    intro x hx
    simp [digitVal_digitChar x (hlt x hx)]
  rw [hval, evalDigits_digits]

theorem printN_isDig (n : Nat) : ∀ c ∈ printN n, isDig c = true := by
  intro c hc
  rcases List.mem_map.mp hc with ⟨x, hx, rfl⟩
  exact isDig_digitChar x (digits_lt10 n x hx)

theorem printN_ne_nil (n : Nat) : printN n ≠ [] := by
  unfold printN
  simpa using digits_ne_nil n

theorem digitsAux_length : ∀ (f n : Nat) (acc : List Nat) (k : Nat), n < f → 1 ≤ k → n < 10 ^ k →
    (digitsAux f n acc).length ≤ acc.length + k
  | 0, n, acc, k, h, _, _ => by omega
  | f + 1, n, acc, k, h, hk, hn => by
    unfold digitsAux
    split
    · simp; omega
    · rename_i h10
      obtain ⟨k', rfl⟩ : ∃ k', k = k' + 1 := ⟨k - 1, by omega⟩
      have hk' : 1 ≤ k' := by
        rcases Nat.eq_zero_or_pos k' with h0 | h0
        · subst h0; simp at hn; omega
        · exact h0
      have := digitsAux_length f (n / 10) (n % 10 :: acc) k' (by omega) hk'
        (by rw [Nat.pow_succ] at hn; omega)
      simp at this
      omega

theorem printN_length_le (n k : Nat) (hk : 1 ≤ k) (hn : n < 10 ^ k) : (printN n).length ≤ k := by
  unfold printN digits
  rw [List.length_map]
  simpa using digitsAux_length (n + 1) n [] k (by omega) hk hn

theorem padDigits_isDig (w n : Nat) : ∀ c ∈ padDigits w n, isDig c = true := by
  intro c hc
  unfold padDigits at hc
  rcases List.mem_append.mp hc with h | h
  · rw [List.mem_replicate] at h
    rw [h.2]; decide
  · exact printN_isDig n c h

theorem padDigits_ne_nil (w n : Nat) : padDigits w n ≠ [] := by
  unfold padDigits
  simp [printN_ne_nil n]

theorem natOfDigits_padDigits (w n : Nat) : natOfDigits (padDigits w n) = n := by
  unfold padDigits
  simp only []
  rw [natOfDigits_append, natOfDigits_zeros, natOfDigits_printN]
  simp

theorem padDigits_length (w n : Nat) (hw : 1 ≤ w) (hn : n < 10 ^ w) : (padDigits w n).length = w := by
  have := printN_length_le n w hw hn
  unfold padDigits
  simp
  omega



/-! ### stripZeros / fracStr -/

theorem stripZeros_spec (l : List Char) : ∃ z, l = stripZeros l ++ List.replicate z '0' := by
  refine ⟨(l.reverse.takeWhile (· == '0')).length, ?_⟩
  have h1 : l.reverse.takeWhile (· == '0') = List.replicate (l.reverse.takeWhile (· == '0')).length '0' := by
    rw [List.eq_replicate_iff]
    refine ⟨rfl, ?_⟩
    intro b hb
    have := List.all_eq_true.mp (List.all_takeWhile (p := (· == '0')) (l := l.reverse)) b hb
    simpa using this
  have h2 := List.takeWhile_append_dropWhile (p := (· == '0')) (l := l.reverse)
  have h3 : l = (l.reverse.takeWhile (· == '0') ++ l.reverse.dropWhile (· == '0')).reverse := by
    rw [h2, List.reverse_reverse]
  conv_lhs => rw [h3]
  rw [List.reverse_append]
  unfold stripZeros
  congr 1
  conv_lhs => rw [h1]
  rw [List.reverse_replicate]

theorem stripZeros_isDig (l : List Char) (h : ∀ c ∈ l, isDig c = true) : ∀ c ∈ stripZeros l, isDig c = true :=
  fun c hc => h c (mem_stripZeros l c hc)


/-! ### floatValue on a well-formed literal -/

/-- exponent suffix of a literal and its value -/
inductive ExpOK : List Char → Int → Prop
  | none : ExpOK [] 0
  | plus (E : List Char) (hE : ∀ c ∈ E, isDig c = true) (hne : E ≠ []) : ExpOK ('e' :: '+' :: E) (natOfDigits E : Int)
  | minus (E : List Char) (hE : ∀ c ∈ E, isDig c = true) (hne : E ≠ []) : ExpOK ('e' :: '-' :: E) (-(natOfDigits E : Int))

/-- fractional part as it appears in the text -/
def dotStr (f : List Char) : List Char := if f.isEmpty then [] else '.' :: f

theorem fracStr_eq (l : List Char) : fracStr l = dotStr (stripZeros l) := rfl

theorem spanP_e (exs : List Char) (e : Int) (h : ExpOK exs e) :
    spanP (fun c => c != 'e') exs = ([], exs) := by
  cases h <;> simp [spanP]

theorem spanP_dotStr (f : List Char) : spanP isDig (dotStr f) = ([], dotStr f) := by
  unfold dotStr
  split
  · rfl
  · exact spanP_stop _ _ _ (by decide)

theorem ne_e_of_mem (ip f : List Char) (hip : ∀ c ∈ ip, isDig c = true) (hf : ∀ c ∈ f, isDig c = true) :
    ∀ c ∈ ip ++ dotStr f, (c != 'e') = true := by
  intro c hc
  have hd : ∀ c, isDig c = true → (c != 'e') = true := fun c h => by
    simpa using (isDig_ne_special c h).2.2.2.1
  rcases List.mem_append.mp hc with h | h
  · exact hd c (hip c h)
  · unfold dotStr at h
    split at h
    · simp at h
    · rcases List.mem_cons.mp h with rfl | h
      · decide
      · exact hd c (hf c h)

theorem dotStr_nil : dotStr [] = [] := rfl
theorem dotStr_cons (c : Char) (cs : List Char) : dotStr (c :: cs) = '.' :: c :: cs := rfl

theorem floatValue_raw (ip f exs : List Char) (e : Int) (hip : ∀ c ∈ ip, isDig c = true) (hne : ip ≠ [])
    (hf : ∀ c ∈ f, isDig c = true) (hex : ExpOK exs e) :
    floatValue (ip ++ dotStr f ++ exs) =
      if natOfDigits (ip ++ f) == 0 then some 0
      else if e - (f.length : Int) > 400 then none
      else if e - (f.length : Int) + ((ip ++ f).length : Int) < -400 then some 0
      else toDouble ((natOfDigits (ip ++ f) : Rat) * pow10Q (e - (f.length : Int))) := by
  have h1 : spanP (fun c => c != 'e') (ip ++ dotStr f ++ exs) = (ip ++ dotStr f, exs) := by
    rw [spanP_append _ _ _ (ne_e_of_mem ip f hip hf), spanP_e exs e hex]; simp
  have h2 : spanP isDig (ip ++ dotStr f) = (ip, dotStr f) := by
    rw [spanP_append _ _ _ hip, spanP_dotStr]; simp
  have h3 : ip.isEmpty = false := by simpa using hne
  unfold floatValue
  simp only [h1, h2, h3, Bool.false_and]
  cases f with
  | nil =>
    simp only [dotStr_nil]
    cases hex with
    | none => simp
    | plus E hE hEne =>
      have : E.isEmpty = false := by simpa using hEne
      simp [this]
    | minus E hE hEne =>
      have : E.isEmpty = false := by simpa using hEne
      simp [this]
  | cons c cs =>
  simp only [dotStr_cons]
  cases hex with
  | none => simp
  | plus E hE hEne =>
    have : E.isEmpty = false := by simpa using hEne
    simp [this]
  | minus E hE hEne =>
    have : E.isEmpty = false := by simpa using hEne
    simp [this]


theorem floatValue_shape (ip fr exs : List Char) (e : Int) (hip : ∀ c ∈ ip, isDig c = true) (hne : ip ≠ [])
    (hfr : ∀ c ∈ fr, isDig c = true) (hex : ExpOK exs e)
    (hn : natOfDigits (ip ++ fr) ≠ 0) (he1 : e ≤ 400) (he2 : -400 ≤ e + (ip.length : Int)) :
    floatValue (ip ++ fracStr fr ++ exs) =
      toDouble ((natOfDigits (ip ++ fr) : Rat) * pow10Q (e - (fr.length : Int))) := by
  obtain ⟨z, hz⟩ := stripZeros_spec fr
  have hf := stripZeros_isDig fr hfr
  rw [fracStr_eq, floatValue_raw ip (stripZeros fr) exs e hip hne hf hex]
  generalize stripZeros fr = f at *
  subst hz
  have hnat : natOfDigits (ip ++ (f ++ List.replicate z '0')) = natOfDigits (ip ++ f) * 10 ^ z := by
    rw [← List.append_assoc, natOfDigits_append, natOfDigits_zeros]; simp
  rw [hnat] at hn ⊢
  have hn0 : natOfDigits (ip ++ f) ≠ 0 := fun h => hn (by rw [h]; simp)
  have g1 : (natOfDigits (ip ++ f) == 0) = false := by simpa using hn0
  have g2 : ¬ (e - (f.length : Int) > 400) := by omega
  have g3 : ¬ (e - (f.length : Int) + ((ip ++ f).length : Int) < -400) := by
    rw [List.length_append]; push_cast; omega
  simp only [g1, g2, g3, if_false, Bool.false_eq_true]
  congr 1
  rw [pow10Q_eq, pow10Q_eq]
  have ten_ne : (10:ℚ) ≠ 0 := by norm_num
  have : e - (f.length : Int) = (e - ((f ++ List.replicate z '0').length : Int)) + (z : Int) := by
    rw [List.length_append, List.length_replicate]; push_cast; ring
  rw [this, zpow_add₀ ten_ne, zpow_natCast]
  push_cast
  ring


theorem accMant_ExpOK (exs : List Char) (e : Int) (h : ExpOK exs e) (fd : Bool) :
    accMant exs true fd = (exs, []) := by
  cases h with
  | none => rfl
  | plus E hE _ => exact accMant_exp_plus E fd hE
  | minus E hE _ => exact accMant_exp_minus E fd hE

theorem accMant_shape (ip f exs : List Char) (e : Int) (hip : ∀ c ∈ ip, isDig c = true) (hne : ip ≠ [])
    (hf : ∀ c ∈ f, isDig c = true) (hex : ExpOK exs e) :
    accMant (ip ++ dotStr f ++ exs) false false = (ip ++ dotStr f ++ exs, []) := by
  cases ip with
  | nil => exact absurd rfl hne
  | cons c cs =>
    have hc := hip c (List.mem_cons_self)
    have hcs : ∀ x ∈ cs, isDig x = true := fun x hx => hip x (List.mem_cons_of_mem _ hx)
    rw [List.append_assoc, List.cons_append, accMant_dig _ _ _ _ hc, accMant_digs _ _ _ hcs]
    cases f with
    | nil =>
      simp only [dotStr_nil, List.nil_append]
      rw [accMant_ExpOK exs e hex]
    | cons d ds =>
      rw [dotStr_cons, List.cons_append, accMant_dot, ← List.cons_append, accMant_digs _ _ _ hf,
        accMant_ExpOK exs e hex]
      simp

theorem splitSign_shape (neg : Bool) (c : Char) (rest : List Char) (hc : isDig c = true) :
    splitSign ((if neg then ['-'] else []) ++ c :: rest) = (neg, c :: rest) := by
  have hs := isDig_ne_special c hc
  cases neg with
  | true => rfl
  | false =>
    simp only [Bool.false_eq_true, if_false, List.nil_append, splitSign]
    split
    · rename_i r heq; injection heq with h1 _; exact absurd h1 hs.1
    · rename_i r heq; injection heq with h1 _; exact absurd h1 hs.2.1
    · rfl

theorem scanDQ_shape (neg : Bool) (ip fr exs : List Char) (e : Int) (hip : ∀ c ∈ ip, isDig c = true) (hne : ip ≠ [])
    (hfr : ∀ c ∈ fr, isDig c = true) (hex : ExpOK exs e)
    (hn : natOfDigits (ip ++ fr) ≠ 0) (he1 : e ≤ 400) (he2 : -400 ≤ e + (ip.length : Int)) :
    scanDQ ((if neg then ['-'] else []) ++ ip ++ fracStr fr ++ exs) =
      (toDouble ((natOfDigits (ip ++ fr) : Rat) * pow10Q (e - (fr.length : Int)))).map
        (fun v => (if neg then -v else v, [])) := by
  have hfv := floatValue_shape ip fr exs e hip hne hfr hex hn he1 he2
  have hacc := accMant_shape ip (stripZeros fr) exs e hip hne (stripZeros_isDig fr hfr) hex
  rw [← fracStr_eq] at hacc
  obtain ⟨c, cs, rfl⟩ : ∃ c cs, ip = c :: cs := by
    cases ip with
    | nil => exact absurd rfl hne
    | cons c cs => exact ⟨c, cs, rfl⟩
  have hc := hip c (List.mem_cons_self)
  have hsp := splitSign_shape neg c (cs ++ fracStr fr ++ exs) hc
  have hre : (if neg then ['-'] else []) ++ (c :: cs) ++ fracStr fr ++ exs
      = (if neg then ['-'] else []) ++ c :: (cs ++ fracStr fr ++ exs) := by simp
  have hre2 : c :: (cs ++ fracStr fr ++ exs) = (c :: cs) ++ fracStr fr ++ exs := by simp
  unfold scanDQ
  simp only [hre, hsp]
  rw [hre2, hacc, hfv]
  cases toDouble ((natOfDigits (c :: cs ++ fr) : Rat) * pow10Q (e - (fr.length : Int))) <;> rfl


/-! ### the three layouts of `%g` -/

theorem gText_sci (p : Nat) (neg : Bool) (ds : List Char) (x : Int) (h : x < -4 ∨ (p : Int) ≤ x) :
    gText p neg ds x = (if neg then ['-'] else []) ++ ds.take 1 ++ fracStr (ds.drop 1) ++
      ('e' :: (if x < 0 then '-' else '+') :: padDigits 2 (if x < 0 then (-x).toNat else x.toNat)) := by
  have hc : (decide (x < -4) || decide (x ≥ (p : Int))) = true := by
    rcases h with h | h <;> simp [h]
  unfold gText
  simp only [hc, if_true]
  simp

theorem gText_fixPos (p : Nat) (neg : Bool) (ds : List Char) (x : Int) (h1 : 0 ≤ x) (h2 : x < (p : Int)) :
    gText p neg ds x = (if neg then ['-'] else []) ++ ds.take (x.toNat + 1) ++ fracStr (ds.drop (x.toNat + 1)) ++ [] := by
  have hc : (decide (x < -4) || decide (x ≥ (p : Int))) = false := by
    simp; omega
  unfold gText
  simp only [hc, Bool.false_eq_true, if_false]
  simp [h1]

theorem gText_fixNeg (p : Nat) (neg : Bool) (ds : List Char) (x : Int) (h1 : -4 ≤ x) (h2 : x < 0) :
    gText p neg ds x = (if neg then ['-'] else []) ++ ['0'] ++
      fracStr (List.replicate ((-x).toNat - 1) '0' ++ ds) ++ [] := by
  have hc : (decide (x < -4) || decide (x ≥ (p : Int))) = false := by
    simp; omega
  have h3 : ¬ (x ≥ 0) := by omega
  unfold gText
  simp only [hc, Bool.false_eq_true, if_false, h3]
  simp

theorem scanDQ_gText (p : Nat) (neg : Bool) (ds : List Char) (x : Int) (hp : 1 ≤ p)
    (hds : ∀ c ∈ ds, isDig c = true) (hlen : ds.length = p) (hn : natOfDigits ds ≠ 0)
    (hx1 : -401 ≤ x) (hx2 : x ≤ 400) :
    scanDQ (gText p neg ds x) =
      (toDouble ((natOfDigits ds : Rat) * pow10Q (x - (p : Int) + 1))).map (fun v => (if neg then -v else v, [])) := by
  by_cases hsci : x < -4 ∨ (p : Int) ≤ x
  · -- scientific
    rw [gText_sci p neg ds x hsci]
    have hip : ∀ c ∈ ds.take 1, isDig c = true := fun c hc => hds c (List.mem_of_mem_take hc)
    have hfr : ∀ c ∈ ds.drop 1, isDig c = true := fun c hc => hds c (List.mem_of_mem_drop hc)
    have hne : ds.take 1 ≠ [] := by
      intro h
      have := congrArg List.length h
      rw [List.length_take, List.length_nil] at this
      omega
    have hlen1 : ((ds.take 1).length : Int) = 1 := by
      rw [List.length_take]; have : min 1 ds.length = 1 := by omega
      rw [this]; rfl
    have hlenfr : ((ds.drop 1).length : Int) = (p : Int) - 1 := by
      rw [List.length_drop, hlen]; omega
    have hex : ExpOK ('e' :: (if x < 0 then '-' else '+') :: padDigits 2 (if x < 0 then (-x).toNat else x.toNat)) x := by
      by_cases hx : x < 0
      · simp only [hx, if_true]
        have := ExpOK.minus (padDigits 2 (-x).toNat) (all_dig_padDigits _ _) (padDigits_ne_nil _ _)
        rw [natOfDigits_padDigits] at this
        have h2 : -(((-x).toNat : Nat) : Int) = x := by omega
        rwa [h2] at this
      · simp only [hx, if_false]
        have := ExpOK.plus (padDigits 2 x.toNat) (all_dig_padDigits _ _) (padDigits_ne_nil _ _)
        rw [natOfDigits_padDigits] at this
        have h2 : ((x.toNat : Nat) : Int) = x := by omega
        rwa [h2] at this
    have := scanDQ_shape neg (ds.take 1) (ds.drop 1) _ x hip hne hfr hex
      (by rw [List.take_append_drop]; exact hn) hx2 (by rw [hlen1]; omega)
    rw [this, List.take_append_drop, hlenfr]
    have hre : x - ((p : Int) - 1) = x - (p : Int) + 1 := by omega
    rw [hre]
  · have hsci1 : -4 ≤ x := by omega
    have hsci2 : x < (p : Int) := by omega
    by_cases hx0 : 0 ≤ x
    · -- fixed, x ≥ 0
      rw [gText_fixPos p neg ds x hx0 hsci2]
      have hk : x.toNat + 1 ≤ ds.length := by omega
      have hip : ∀ c ∈ ds.take (x.toNat + 1), isDig c = true := fun c hc => hds c (List.mem_of_mem_take hc)
      have hfr : ∀ c ∈ ds.drop (x.toNat + 1), isDig c = true := fun c hc => hds c (List.mem_of_mem_drop hc)
      have hne : ds.take (x.toNat + 1) ≠ [] := by
        intro h
        have := congrArg List.length h
        rw [List.length_take, List.length_nil] at this
        omega
      have hlenfr : ((ds.drop (x.toNat + 1)).length : Int) = (p : Int) - x - 1 := by
        rw [List.length_drop, hlen]; omega
      have := scanDQ_shape neg (ds.take (x.toNat + 1)) (ds.drop (x.toNat + 1)) [] 0 hip hne hfr ExpOK.none
        (by rw [List.take_append_drop]; exact hn) (by norm_num) (by omega)
      rw [this, List.take_append_drop, hlenfr]
      have hre : 0 - ((p : Int) - x - 1) = x - (p : Int) + 1 := by omega
      rw [hre]
    · -- fixed, x < 0
      have hx0' : x < 0 := by omega
      rw [gText_fixNeg p neg ds x hsci1 hx0']
      have hip : ∀ c ∈ ['0'], isDig c = true := by
        intro c hc; simp at hc; rw [hc]; decide
      have hfr : ∀ c ∈ List.replicate ((-x).toNat - 1) '0' ++ ds, isDig c = true := by
        intro c hc
        rcases List.mem_append.mp hc with h | h
        · rw [List.mem_replicate] at h; rw [h.2]; decide
        · exact hds c h
      have hnat : natOfDigits (['0'] ++ (List.replicate ((-x).toNat - 1) '0' ++ ds)) = natOfDigits ds := by
        rw [natOfDigits_append, natOfDigits_append, natOfDigits_zeros]
        have h0 : natOfDigits ['0'] = 0 := by decide
        rw [h0]; simp
      have hlenfr : ((List.replicate ((-x).toNat - 1) '0' ++ ds).length : Int) = -x - 1 + (p : Int) := by
        rw [List.length_append, List.length_replicate, hlen]; omega
      have := scanDQ_shape neg ['0'] (List.replicate ((-x).toNat - 1) '0' ++ ds) [] 0 hip (by simp) hfr ExpOK.none
        (by rw [hnat]; exact hn) (by norm_num) (by simp)
      rw [this, hnat, hlenfr]
      have hre : 0 - (-x - 1 + (p : Int)) = x - (p : Int) + 1 := by omega
      rw [hre]

/-! ### numeric pre-requisite: the decimal exponent and the digit count -/

theorem two_pow_1024_lt : (2:ℚ)^(1024:ℤ) < (10:ℚ)^(400:ℤ) := by
  have h : (2:ℚ)^1024 < 10^400 := by
    calc (2:ℚ)^1024 = (2^32)^32 := by rw [← pow_mul]
      _ < (10^10)^32 := pow_lt_pow_left₀ (by norm_num) (by positivity) (by norm_num)
      _ = 10^320 := by rw [← pow_mul]
      _ ≤ 10^400 := pow_le_pow_right₀ (by norm_num) (by norm_num)
  exact_mod_cast h

theorem floorLog10_up_lt (a : ℚ) : ∀ (f : ℕ) (x : ℤ),
    floorLog10.up a f x = x + (f : ℤ) ∨ a < (10:ℚ)^(floorLog10.up a f x + 1) := by
  intro f
  induction f with
  | zero => intro x; left; simp [floorLog10.up]
  | succ f ih =>
    intro x
    unfold floorLog10.up
    split
    · rcases ih (x + 1) with h | h
      · left; rw [h]; push_cast; ring
      · right; exact h
    · rename_i h1
      right
      rw [pow10Q_eq] at h1
      exact not_le.mp h1

theorem floorLog10_down_lt (a : ℚ) : ∀ (f : ℕ) (x : ℤ), a < (10:ℚ)^(x + 1) →
    a < (10:ℚ)^(floorLog10.down a f x + 1) := by
  intro f
  induction f with
  | zero => intro x h; simpa [floorLog10.down] using h
  | succ f ih =>
    intro x h
    unfold floorLog10.down
    split
    · rename_i h1
      apply ih
      rw [pow10Q_eq] at h1
      rwa [sub_add_cancel]
    · exact h

theorem floorLog10_lt (a : ℚ) (ha : a < (10:ℚ)^(400:ℤ)) : a < (10:ℚ)^(floorLog10 a + 1) := by
  unfold floorLog10
  apply floorLog10_down_lt
  rcases floorLog10_up_lt a 400 0 with h | h
  · rw [h]
    refine lt_trans ha ?_
    apply zpow_lt_zpow_right₀ (by norm_num)
    norm_num
  · exact h

theorem isPosDbl_lt_huge {a : ℚ} (h : IsPosDbl a) : a < (10:ℚ)^(400:ℤ) := by
  obtain ⟨m, u, rfl, hm0, hm, hu1, hu2, _⟩ := h
  rw [pow2Q_eq]
  have two_ne : (2:ℚ) ≠ 0 := by norm_num
  have h1 : (m:ℚ) < 2^53 := by exact_mod_cast hm
  have h2 : (2:ℚ)^u ≤ (2:ℚ)^(971:ℤ) := zpow_le_zpow_right₀ (by norm_num) hu2
  have h3 : (0:ℚ) < (2:ℚ)^u := by positivity
  have h4 : (2:ℚ)^(1024:ℤ) = 2^53 * (2:ℚ)^(971:ℤ) := by
    rw [show (1024:ℤ) = 971 + 53 by norm_num, zpow_add₀ two_ne, mul_comm]; norm_num
  calc (m:ℚ) * (2:ℚ)^u < 2^53 * (2:ℚ)^u := mul_lt_mul_of_pos_right h1 h3
    _ ≤ 2^53 * (2:ℚ)^(971:ℤ) := mul_le_mul_of_nonneg_left h2 (by positivity)
    _ = (2:ℚ)^(1024:ℤ) := h4.symm
    _ < _ := two_pow_1024_lt

theorem sigDigits_bounds (p : ℕ) (hp : 1 ≤ p) (a : ℚ) (h1 : (10:ℚ)^(-400:ℤ) ≤ a) (h2 : a < (10:ℚ)^(400:ℤ)) :
    10 ^ (p - 1) ≤ (sigDigits p a).1 ∧ (sigDigits p a).1 < 10 ^ p ∧
      -401 ≤ (sigDigits p a).2 ∧ (sigDigits p a).2 ≤ 400 := by
  obtain ⟨k, rfl⟩ : ∃ k, p = k + 1 := ⟨p - 1, by omega⟩
  have ten_ne : (10:ℚ) ≠ 0 := by norm_num
  have hlo := floorLog10_le a h1
  have hhi := floorLog10_lt a h2
  unfold sigDigits
  simp only [pow10Q_eq, Nat.add_sub_cancel]
  generalize floorLog10 a = x0 at *
  have hx0a : x0 < 400 := (zpow_lt_zpow_iff_right₀ (by norm_num : (1:ℚ) < 10)).mp (lt_of_le_of_lt hlo h2)
  have hx0b : -400 < x0 + 1 := (zpow_lt_zpow_iff_right₀ (by norm_num : (1:ℚ) < 10)).mp (lt_of_le_of_lt h1 hhi)
  have hs : (0:ℚ) < (10:ℚ)^(x0 - ((k + 1 : ℕ) : ℤ) + 1) := by positivity
  have hs1 : (10:ℚ)^x0 = 10^k * (10:ℚ)^(x0 - ((k + 1 : ℕ) : ℤ) + 1) := by
    rw [← zpow_natCast, ← zpow_add₀ ten_ne]; congr 1; push_cast; ring
  have hs2 : (10:ℚ)^(x0 + 1) = 10^(k+1) * (10:ℚ)^(x0 - ((k + 1 : ℕ) : ℤ) + 1) := by
    rw [← zpow_natCast, ← zpow_add₀ ten_ne]; congr 1; push_cast; ring
  generalize (10:ℚ)^(x0 - ((k + 1 : ℕ) : ℤ) + 1) = s at *
  have hr1 : (10:ℚ)^k ≤ a / s := by rw [le_div_iff₀ hs, ← hs1]; exact hlo
  have hr2 : a / s < (10:ℚ)^(k+1) := by rw [div_lt_iff₀ hs, ← hs2]; exact hhi
  have hr := roundHalfEven_close (a / s) (le_trans (by positivity) hr1)
  rw [abs_le] at hr
  generalize roundHalfEven (a / s) = n0 at *
  have hn1 : 10^k ≤ n0 := by
    have : ((10^k : ℕ) : ℚ) < ((n0 + 1 : ℕ) : ℚ) := by push_cast; linarith
    have : 10^k < n0 + 1 := by exact_mod_cast this
    omega
  have hn2 : n0 ≤ 10^(k+1) := by
    have : (n0 : ℚ) < ((10^(k+1) + 1 : ℕ) : ℚ) := by push_cast; linarith
    have : n0 < 10^(k+1) + 1 := by exact_mod_cast this
    omega
  split
  · refine ⟨le_refl _, ?_, by omega, by omega⟩
    rw [Nat.pow_succ]
    have : 0 < 10^k := Nat.pow_pos (by norm_num)
    omega
  · rename_i hne
    have hne : n0 ≠ 10^(k+1) := by simpa using hne
    exact ⟨hn1, by omega, by omega, by omega⟩

end AITB.Codec.DblText

namespace AITB.Codec
open DblText

/-- a finite double: zero, or ± a positive double -/
def IsDbl (q : Rat) : Prop := q = 0 ∨ IsPosDbl q ∨ IsPosDbl (-q)

theorem IsPosDbl.pos {a : ℚ} (h : IsPosDbl a) : 0 < a :=
  lt_of_lt_of_le (by positivity) h.ge_tiny

/-- the text of the `p ≥ 17` significant digits of a positive double `a`, with either sign, scans to `± a` -/
theorem scanDQ_gText_sigDigits (p : Nat) (hp : 17 ≤ p) (a : Rat) (h : IsPosDbl a) (neg : Bool) :
    scanDQ (gText p neg (padDigits p (sigDigits p a).1) (sigDigits p a).2) = some (if neg then -a else a, []) := by
  obtain ⟨hn1, hn2, hx1, hx2⟩ := sigDigits_bounds p (by omega) a h.ge_tiny (isPosDbl_lt_huge h)
  have hn0 : (sigDigits p a).1 ≠ 0 := by
    have : 0 < 10 ^ (p - 1) := Nat.pow_pos (by norm_num)
    omega
  have := scanDQ_gText p neg (padDigits p (sigDigits p a).1) (sigDigits p a).2 (by omega)
    (all_dig_padDigits _ _) (padDigits_length p _ (by omega) hn2)
    (by rw [natOfDigits_padDigits]; exact hn0) hx1 hx2
  rw [this, natOfDigits_padDigits]
  have hdv : ((sigDigits p a).1 : Rat) * pow10Q ((sigDigits p a).2 - (p : Int) + 1) = decValue p (sigDigits p a) := rfl
  rw [hdv, toDouble_sigDigits_ge17 p hp a h]
  rfl

theorem scanDQ_zero : scanDQ ['0'] = some (0, []) := by decide

/-- **`is >> d` reads back exactly what `os << d` wrote under precision `p ≥ 17`**, for every finite double, consuming
    the whole token.  (Model: `printDQ` = `printf("%.{p}g")`, `scanDQ` = libstdc++ `num_get` + `strtod`.) -/
theorem scanDQ_printDQ (p : Nat) (hp : 17 ≤ p) (q : Rat) (h : IsDbl q) : scanDQ (printDQ p q) = some (q, []) := by
  have hp0 : (p == 0) = false := by simp; omega
  unfold printDQ
  simp only [hp0, Bool.false_eq_true, if_false]
  rcases h with rfl | h | h
  · simpa using scanDQ_zero
  · have hpos := h.pos
    have h0 : (q == 0) = false := by simpa using hpos.ne'
    have h1 : ¬ (q < 0) := not_lt.mpr hpos.le
    simp only [h0, h1, Bool.false_eq_true, if_false, decide_false]
    simpa using scanDQ_gText_sigDigits p hp q h false
  · have hpos := h.pos
    have h1 : q < 0 := by linarith
    have h0 : (q == 0) = false := by simpa using h1.ne
    simp only [h0, h1, Bool.false_eq_true, if_false, if_true, decide_true]
    simpa using scanDQ_gText_sigDigits p hp (-q) h true

theorem scanDQ_printDQ_17 (q : Rat) (h : IsDbl q) : scanDQ (printDQ 17 q) = some (q, []) :=
  scanDQ_printDQ 17 (le_refl _) q h

/-- the round-trip hypothesis `RT` of `AITB.Props.C17` holds for the driver's instance at every finite double, p ≥ 17 -/
theorem ratIO_RT (tol : Rat) (p : Nat) (hp : 17 ≤ p) (q : Rat) (h : IsDbl q) : RT (ratIO tol) p q :=
  scanDQ_printDQ p hp q h

theorem ratIO_RT' (tol : Rat) (p : Nat) (hp : 17 ≤ p) (q : Rat) (h : IsDbl q) :
    (ratIO tol).scanD ((ratIO tol).printD p q) = some (q, []) :=
  scanDQ_printDQ p hp q h

/-! ### examples: the predicate is satisfiable -/

/-- the double nearest 1/3 -/
example : IsDbl (6004799503160661 * pow2Q (-54)) :=
  Or.inr (Or.inl ⟨6004799503160661, -54, by norm_num, by norm_num, by norm_num, by norm_num, by norm_num, Or.inl (by norm_num)⟩)

example : IsDbl 0 := Or.inl rfl

/-- minus the smallest positive denormal -/
example : IsDbl (-(1 * pow2Q (-1074))) :=
  Or.inr (Or.inr ⟨1, -1074, by rw [neg_neg]; norm_num, by norm_num, by norm_num, by norm_num, by norm_num, Or.inr rfl⟩)

/-- minus the largest finite double -/
example : IsDbl (-((2^53 - 1) * pow2Q 971)) :=
  Or.inr (Or.inr ⟨2^53 - 1, 971, by rw [neg_neg]; norm_num, by norm_num, by norm_num, by norm_num, by norm_num, Or.inl (by norm_num)⟩)

/-! ### tests (closed evaluations of the model; not used by the theorems) -/

/-- test: the three layouts -/
example : printDQ 17 (6004799503160661 * pow2Q (-54)) = "0.33333333333333331".toList := by decide +kernel
example : printDQ 17 (-(1 * pow2Q (-1074))) = "-4.9406564584124654e-324".toList := by decide +kernel
example : printDQ 17 1024 = "1024".toList := by decide +kernel
example : scanDQ "-4.9406564584124654e-324".toList = some (-(1 * pow2Q (-1074)), []) := by decide +kernel


end AITB.Codec
