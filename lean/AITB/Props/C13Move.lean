/-
  AITB.Props.C13Move — semantic multi-objective VE (absent entry = zero vector, i.e. the repaired behaviour):
  for EVERY rule set and EVERY elimination order, the vectors left after the eliminations are exactly the value
  vectors of the in-range joint actions; the closing prune therefore returns exactly the Pareto-optimal ones.
-/
import Mathlib.Algebra.Order.Field.Rat
import Mathlib.Tactic.Ring
import AITB.Model.MOVESem
import AITB.Props.C13

namespace AITB.VE

theorem vadd_comm (a b : Vec) : vadd a b = vadd b a := by funext i; simp [vadd]; ring
theorem vadd_assoc (a b c : Vec) : vadd (vadd a b) c = vadd a (vadd b c) := by funext i; simp [vadd]; ring
theorem vadd_zero (a : Vec) : vadd a vzero = a := by funext i; simp [vadd, vzero]
theorem zero_vadd (a : Vec) : vadd vzero a = a := by funext i; simp [vadd, vzero]

theorem mem_sums_cons (S : List Vec) (Ss : List (List Vec)) (w : Vec) :
    w ∈ sums (S :: Ss) ↔ ∃ a ∈ S, ∃ t ∈ sums Ss, w = vadd a t := by
  simp only [sums, List.mem_flatMap, List.mem_map]
  constructor
  · rintro ⟨a, ha, t, ht, rfl⟩; exact ⟨a, ha, t, ht, rfl⟩
  · rintro ⟨a, ha, t, ht, rfl⟩; exact ⟨a, ha, t, ht, rfl⟩

/-- splitting the factors into those adjacent to `v` and the rest does not change the set of sums -/
theorem mem_totalS_split (v : Nat) (x : Asg) : ∀ (fs : List SFactor) (w : Vec),
    w ∈ totalS fs x ↔ ∃ u ∈ totalS (depsS v fs) x, ∃ t ∈ totalS (restS v fs) x, w = vadd u t
  | [], w => by
    simp only [totalS, depsS, restS, List.filter, List.map, sums, List.mem_singleton]
    constructor
    · rintro rfl; exact ⟨vzero, rfl, vzero, rfl, (vadd_zero _).symm⟩
    · rintro ⟨u, rfl, t, rfl, rfl⟩; exact vadd_zero _
  | φ :: fs, w => by
    have ih := mem_totalS_split v x fs
    by_cases h : v ∈ φ.scope
    · simp only [totalS, depsS, restS, List.filter, h, decide_true, Bool.not_true, List.map] at ih ⊢
      rw [mem_sums_cons]
      constructor
      · rintro ⟨a, ha, t, ht, rfl⟩
        obtain ⟨u, hu, t', ht', rfl⟩ := (ih t).mp ht
        exact ⟨vadd a u, (mem_sums_cons _ _ _).mpr ⟨a, ha, u, hu, rfl⟩, t', ht', (vadd_assoc _ _ _).symm⟩
      · rintro ⟨u, hu, t', ht', rfl⟩
        obtain ⟨a, ha, u', hu', rfl⟩ := (mem_sums_cons _ _ _).mp hu
        exact ⟨a, ha, vadd u' t', (ih _).mpr ⟨u', hu', t', ht', rfl⟩, vadd_assoc _ _ _⟩
    · simp only [totalS, depsS, restS, List.filter, h, decide_false, Bool.not_false, List.map] at ih ⊢
      rw [mem_sums_cons]
      constructor
      · rintro ⟨a, ha, t, ht, rfl⟩
        obtain ⟨u, hu, t', ht', rfl⟩ := (ih t).mp ht
        refine ⟨u, hu, vadd a t', (mem_sums_cons _ _ _).mpr ⟨a, ha, t', ht', rfl⟩, ?_⟩
        rw [← vadd_assoc, vadd_comm a u, vadd_assoc]
      · rintro ⟨u, hu, t, ht, rfl⟩
        obtain ⟨a, ha, t', ht', rfl⟩ := (mem_sums_cons _ _ _).mp ht
        refine ⟨a, ha, vadd u t', (ih _).mpr ⟨u, hu, t', ht', rfl⟩, ?_⟩
        rw [← vadd_assoc, vadd_comm u a, vadd_assoc]

def SFactor.WF (φ : SFactor) : Prop := ∀ x y : Asg, (∀ v ∈ φ.scope, x v = y v) → φ.f x = φ.f y
def AllWFS (fs : List SFactor) : Prop := ∀ φ ∈ fs, φ.WF

theorem totalS_congr (fs : List SFactor) (x y : Asg) (hwf : AllWFS fs)
    (h : ∀ φ ∈ fs, ∀ u ∈ φ.scope, x u = y u) : totalS fs x = totalS fs y := by
  unfold totalS
  congr 1
  apply List.map_congr_left
  intro φ hφ
  exact hwf φ hφ x y (h φ hφ)

theorem mem_restS {v : Nat} {fs : List SFactor} {φ : SFactor} : φ ∈ restS v fs ↔ φ ∈ fs ∧ v ∉ φ.scope := by
  simp [restS, List.mem_filter]
theorem mem_depsS {v : Nat} {fs : List SFactor} {φ : SFactor} : φ ∈ depsS v fs ↔ φ ∈ fs ∧ v ∈ φ.scope := by
  simp [depsS, List.mem_filter]

theorem totalS_rest_upd (v k : Nat) (fs : List SFactor) (x : Asg) (hwf : AllWFS fs) :
    totalS (restS v fs) (upd x v k) = totalS (restS v fs) x := by
  apply totalS_congr
  · intro φ hφ; exact hwf φ (mem_restS.mp hφ).1
  · intro φ hφ u hu
    have : u ≠ v := fun e => (mem_restS.mp hφ).2 (e ▸ hu)
    exact upd_other x v k u this

/-- one elimination step: the new set of sums at `x` is the union over `v`'s actions of the old sets at `x[v:=k]` -/
theorem mem_eliminateS (dom : Nat → Nat) (v : Nat) (fs : List SFactor) (x : Asg) (hwf : AllWFS fs) (w : Vec) :
    w ∈ totalS (eliminateS dom v fs) x ↔ ∃ k, k ≤ dom v ∧ w ∈ totalS fs (upd x v k) := by
  have hcons : w ∈ totalS (eliminateS dom v fs) x ↔
      ∃ a ∈ (elimFactorS dom v (depsS v fs)).f x, ∃ t ∈ totalS (restS v fs) x, w = vadd a t := by
    simp only [totalS, eliminateS, List.map]; exact mem_sums_cons _ _ _
  rw [hcons]
  simp only [elimFactorS, List.mem_flatMap, List.mem_range]
  constructor
  · rintro ⟨a, ⟨k, hk, ha⟩, t, ht, rfl⟩
    refine ⟨k, by omega, ?_⟩
    rw [mem_totalS_split v (upd x v k) fs, totalS_rest_upd v k fs x hwf]
    exact ⟨a, ha, t, ht, rfl⟩
  · rintro ⟨k, hk, hw⟩
    rw [mem_totalS_split v (upd x v k) fs, totalS_rest_upd v k fs x hwf] at hw
    obtain ⟨u, hu, t, ht, rfl⟩ := hw
    exact ⟨u, ⟨k, by omega, hu⟩, t, ht, rfl⟩

theorem elimFactorS_WF (dom : Nat → Nat) (v : Nat) (dep : List SFactor) (hwf : AllWFS dep) :
    (elimFactorS dom v dep).WF := by
  intro x y hxy
  simp only [elimFactorS]
  congr 1
  funext k
  apply totalS_congr dep _ _ hwf
  intro φ hφ u hu
  by_cases huv : u = v
  · subst huv; simp [upd]
  · rw [upd_other _ _ _ _ huv, upd_other _ _ _ _ huv]
    apply hxy
    simp only [elimFactorS, List.mem_filter, List.mem_flatMap]
    exact ⟨⟨φ, hφ, hu⟩, by simpa using huv⟩

theorem eliminateS_WF (dom : Nat → Nat) (v : Nat) (fs : List SFactor) (hwf : AllWFS fs) :
    AllWFS (eliminateS dom v fs) := by
  intro φ hφ
  simp only [eliminateS, List.mem_cons] at hφ
  rcases hφ with h | h
  · subst h
    exact elimFactorS_WF dom v _ (fun ψ hψ => hwf ψ (mem_depsS.mp hψ).1)
  · exact hwf φ (mem_restS.mp h).1

theorem upd_upd (x : Asg) (v a b : Nat) : upd (upd x v a) v b = upd x v b := by
  funext i; simp only [upd]; split <;> rfl

/-- **all eliminations**: what is left at `x` is exactly what the original factors offer at the joint actions that are
    in range on the eliminated agents and agree with `x` elsewhere — for EVERY order (repetitions allowed) -/
theorem mem_elimAllS (dom : Nat → Nat) (w : Vec) : ∀ (order : List Nat) (fs : List SFactor) (x : Asg), AllWFS fs →
    (w ∈ totalS (elimAllS dom order fs) x ↔
      ∃ y : Asg, (∀ u ∈ order, y u ≤ dom u) ∧ (∀ u, u ∉ order → y u = x u) ∧ w ∈ totalS fs y)
  | [], fs, x, _ => by
    simp only [elimAllS]
    constructor
    · intro h; exact ⟨x, by simp, fun _ _ => rfl, h⟩
    · rintro ⟨y, _, hy, h⟩
      have : y = x := by funext u; exact hy u (by simp)
      rw [← this]; exact h
  | v :: vs, fs, x, hwf => by
    simp only [elimAllS]
    rw [mem_elimAllS dom w vs (eliminateS dom v fs) x (eliminateS_WF dom v fs hwf)]
    constructor
    · rintro ⟨y, hy1, hy2, hw⟩
      obtain ⟨k, hk, hw'⟩ := (mem_eliminateS dom v fs y hwf w).mp hw
      refine ⟨upd y v k, ?_, ?_, hw'⟩
      · intro u hu
        by_cases e : u = v
        · subst e; rw [upd_same]; exact hk
        · rw [upd_other _ _ _ _ e]
          rcases List.mem_cons.mp hu with h | h
          · exact absurd h e
          · exact hy1 u h
      · intro u hu
        have e : u ≠ v := fun e => hu (e ▸ List.mem_cons_self ..)
        rw [upd_other _ _ _ _ e]
        exact hy2 u (fun h => hu (List.mem_cons_of_mem _ h))
    · rintro ⟨y', hy1, hy2, hw⟩
      by_cases hv : v ∈ vs
      · refine ⟨y', fun u hu => hy1 u (List.mem_cons_of_mem _ hu), ?_, ?_⟩
        · intro u hu
          exact hy2 u (fun h => by
            rcases List.mem_cons.mp h with h | h
            · exact hu (h ▸ hv)
            · exact hu h)
        · exact (mem_eliminateS dom v fs y' hwf w).mpr ⟨y' v, hy1 v (List.mem_cons_self ..), by rw [upd_self]; exact hw⟩
      · refine ⟨upd y' v (x v), ?_, ?_, ?_⟩
        · intro u hu
          have e : u ≠ v := fun e => hv (e ▸ hu)
          rw [upd_other _ _ _ _ e]; exact hy1 u (List.mem_cons_of_mem _ hu)
        · intro u hu
          by_cases e : u = v
          · subst e; rw [upd_same]
          · rw [upd_other _ _ _ _ e]
            exact hy2 u (fun h => by
              rcases List.mem_cons.mp h with h | h
              · exact e h
              · exact hu h)
        · refine (mem_eliminateS dom v fs _ hwf w).mpr ⟨y' v, hy1 v (List.mem_cons_self ..), ?_⟩
          rw [upd_upd, upd_self]; exact hw

/-! ### rules -/

theorem ofVRule_WF (r : VRule) : (ofVRule r).WF := by
  intro x y h
  simp only [ofVRule, VRule.eval] at *
  rw [matchKV_congr r.keys r.vals x y h]

theorem totalS_rules : ∀ (rules : List VRule) (x : Asg), totalS (rules.map ofVRule) x = [payoffV rules x]
  | [], _ => rfl
  | r :: rs, x => by
    have ih := totalS_rules rs x
    simp only [totalS, List.map, sums, ofVRule, payoffV] at ih ⊢
    rw [ih]; simp

/-- **`move_correct_sem`** — multi-objective VE with absent entries read as zero (the repaired behaviour), for EVERY
    rule set (overlapping, nested, duplicate, disconnected factors, agents in no rule, negative payoffs, absent entries)
    and EVERY elimination order: a vector is produced iff it is the value vector of a joint action that is in range on
    the eliminated agents.  The closing prune (`paretoFront_spec`) then keeps exactly the Pareto-optimal ones. -/
theorem move_correct_sem (dom : Nat → Nat) (order : List Nat) (rules : List VRule) (x : Asg) (w : Vec) :
    w ∈ totalS (elimAllS dom order (rules.map ofVRule)) x ↔
      ∃ y : Asg, (∀ u ∈ order, y u ≤ dom u) ∧ (∀ u, u ∉ order → y u = x u) ∧ w = payoffV rules y := by
  rw [mem_elimAllS dom w order _ x (by
    intro φ hφ
    obtain ⟨r, _, rfl⟩ := List.mem_map.mp hφ
    exact ofVRule_WF r)]
  constructor
  · rintro ⟨y, h1, h2, hw⟩
    rw [totalS_rules] at hw
    exact ⟨y, h1, h2, by simpa using hw⟩
  · rintro ⟨y, h1, h2, rfl⟩
    exact ⟨y, h1, h2, by rw [totalS_rules]; simp⟩

/-- hypotheses are satisfiable and the statement is not vacuous: two agents, the witness of finding C13-move:
    the zero vector (joint action a0=1) IS produced by the semantic (repaired) elimination -/
example : vzero ∈ totalS (elimAllS (fun _ => 1) [0, 1]
    ([⟨[0],[0], fun i => if i < 2 then -1 else 0⟩, ⟨[0,1],[0,1], fun i => if i = 0 then -2 else if i = 1 then -3 else 0⟩].map ofVRule)) zeroAsg := by
  rw [move_correct_sem]
  refine ⟨fun u => if u = 0 then 1 else 0, ?_, ?_, ?_⟩
  · intro u hu; simp at hu; rcases hu with rfl | rfl <;> simp
  · intro u hu; simp at hu; simp [zeroAsg, hu.1]
  · funext i; simp [payoffV, VRule.eval, matchKV, vadd, vzero]

/-! ### UCVE, repaired design (fixes/C13-1): eliminate without dropping, cross-sum everything, then maximise

`UCVE` is the same elimination on 2-vectors (mean, count) followed by the choice of an entry maximising
`val (m,n) = m + sqrt(n·logtA/2)`.  For ANY objective `val` into a linear order: an entry that is maximal among the
vectors left after the eliminations is maximal among the value vectors of ALL in-range joint actions — provided nothing
was dropped on the way (this is what the unrepaired per-component `makeResult` and the dropped unmatched actions
violate; pruning dominated entries is a separate, monotonicity-based optimisation that is only tested). -/

theorem ucve_repaired_sem {α : Type} [LinearOrder α] (val : Vec → α)
    (dom : Nat → Nat) (order : List Nat) (rules : List VRule) (x : Asg) (best : Vec)
    (hbest : best ∈ totalS (elimAllS dom order (rules.map ofVRule)) x)
    (hmax : ∀ w ∈ totalS (elimAllS dom order (rules.map ofVRule)) x, val w ≤ val best) :
    (∃ y : Asg, (∀ u ∈ order, y u ≤ dom u) ∧ (∀ u, u ∉ order → y u = x u) ∧ best = payoffV rules y) ∧
    ∀ y : Asg, (∀ u ∈ order, y u ≤ dom u) → (∀ u, u ∉ order → y u = x u) → val (payoffV rules y) ≤ val best := by
  refine ⟨(move_correct_sem dom order rules x best).mp hbest, ?_⟩
  intro y h1 h2
  exact hmax _ ((move_correct_sem dom order rules x _).mpr ⟨y, h1, h2, rfl⟩)

end AITB.VE
