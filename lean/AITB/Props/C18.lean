/-
  AITB.Props.C18 — Cassandra-format files parse to the model they define, or are rejected.

  Main statements (all for every text, every size, every flag value unless said otherwise):
    parser_refines_spec            a well-formed file is accepted and every table equals the specification
                                   semantics `specAt` of its statements (last covering statement wins)
    parser_accepts_only_wellformed an accepted text IS a well-formed file (contrapositive: every malformed
                                   text is rejected) — needs `rowLenThrows`; `…_counterexample` for the current source
    parse_writes_in_bounds         every `M[d1][a][d3] = v` the parser performs has all three indices in range
    writes_offset_lt_allocated     … and lands inside the allocation, given the size guard (`_partial` otherwise,
                                   `…_counterexample` for the current source)
    parser_total                   the operational model is a total function: every access is checked
  plus the clause-by-clause rejection lemmas and the facts about the generated `Gen.Dispatch` table.
-/
import AITB.Props.C18c
import AITB.Props.C18d
import AITB.Props.C18e
import AITB.Props.C18f
import AITB.Gen.Dispatch
namespace AITB.Cassandra
variable {fl : Flags}

/-! ## facts about the source, as extracted (re-checked whenever the source changes) -/

/-- no preamble keyword is a prefix of another one: at most one action of `initMap_` matches a line,
    so the iteration order of the `unordered_map` is irrelevant (test over the finite table) -/
theorem keywords_prefix_free :
    ∀ a ∈ keywords, ∀ b ∈ keywords, a ≠ b → startsWith a b = false := by decide

/-- the model's keyword table is the source's -/
theorem dispatch_keywords : Gen.Dispatch.preambleKeywords.map String.toList = keywords := by decide

/-- the model dispatches on the same first letters, in the same order, as parseMDP / parsePOMDP -/
theorem dispatch_letters : Gen.Dispatch.mdpLetters = ["T", "R"] ∧ Gen.Dispatch.pomdpLetters = ["T", "O", "R"] := by decide

/-- the colon-count switches have exactly the cases the model has -/
theorem dispatch_colon_counts : Gen.Dispatch.matrixColonCounts = [3, 2, 1] ∧ Gen.Dispatch.rewardColonCounts = [4] := by decide

/-- the throw discipline the model assumes everywhere except in the flagged two-colon branch -/
theorem dispatch_throws :
    Gen.Dispatch.defaultThrows = true ∧ Gen.Dispatch.vectorLenThrows = true ∧ Gen.Dispatch.indexRangeThrows = true ∧
    Gen.Dispatch.uncheckedTokenAccess = false ∧ Gen.Dispatch.nextLineChecked = true := by decide

/-- the entry points hand the parsed components to the model constructors in the order the model assumes
    (S, A, T, R, discount / O, W, S, A, T, R, discount) -/
theorem dispatch_entry_points :
    Gen.Dispatch.mdpBinding = ["S", "A", "T", "R", "discount"] ∧ Gen.Dispatch.mdpCtorArgs = ["S", "A", "T", "R", "discount"] ∧
    Gen.Dispatch.pomdpBinding = ["S", "A", "O", "T", "R", "W", "discount"] ∧
    Gen.Dispatch.pomdpCtorArgs = ["O", "W", "S", "A", "T", "R", "discount"] := by decide

/-! ## parser_total -/

/-- (round 3) the call sites the model hard-codes are the ones in the source: `":"` for the preamble, `" "` for names and value lines,
    `": "` for statement lines; action / first / third index from tokens 1 / 2 / 3 with the name table and bound of that dimension;
    the value in token 4 (T/O) and 5 (R); writes indexed `[d1][a][d3]`; an index token is `*`, else a declared name, else a number;
    declared names are bound with last-wins assignment and only a single token is tried as a number. -/
theorem dispatch_sites :
    Gen.Dispatch.tokenizeDelims = [":", ":", " ", " ", ": ", ": ", ": ", ": "] ∧
    Gen.Dispatch.indexSites = [("1", "actionMap_", "D2"), ("2", "d1map", "D1"), ("3", "d3map", "D3"), ("1", "actionMap_", "D2"), ("2", "d1map", "D1"),
      ("1", "actionMap_", "D2"), ("1", "actionMap_", "A"), ("2", "stateMap_", "S"), ("3", "stateMap_", "S")] ∧
    Gen.Dispatch.valueSites = ["4", "5"] ∧
    Gen.Dispatch.writeSites = ["M[d1][a][d3]=val;", "M[d1][a][i]=v[i];", "M[d1][a][i]=v[i];", "R[s][a][s1]=val;"] ∧
    Gen.Dispatch.resolutionOrder = ["star", "map", "number"] ∧
    Gen.Dispatch.nameLastWins = true ∧ Gen.Dispatch.singleTokenNumeric = true := by decide


/-- The operational model is a total function into `Except`: token, line and next-line accesses are all
    `at?` (the code's `.at()`), number conversions return errors, the main loop is structural.  So on every
    text the parser either returns tables or raises one of the three exception classes — it cannot get stuck. -/
theorem parser_total (fl : Flags) (k : Kind) (text : Str) :
    (∃ r, parse fl k text = .ok r) ∨ parse fl k text = .error .runtime ∨
    parse fl k text = .error .invalidArg ∨ parse fl k text = .error .outOfRange := by
  cases h : parse fl k text with
  | ok r => exact Or.inl ⟨r, rfl⟩
  | error e => cases e <;> simp

/-! ## parser_refines_spec -/

theorem parse_unfold (fl : Flags) (k : Kind) (text : Str) (p : Pre) (lines : List Str)
    (hpre : parseModelInfo fl (splitLines text) {} [] = .ok (p, lines))
    (hsz : (p.S == 0 || p.A == 0 || (k == .pomdp && p.O == 0)) = false)
    (hfit : (fl.sizeGuard && !(extentFits p.S p.A p.S && (k == .mdp || extentFits p.S p.A p.O))) = false) :
    parse fl k text = (run fl k p lines 0 {}).map (fun st => ⟨p, st⟩) := by
  unfold parse
  simp only [hpre, bind, Except.bind, hsz, hfit, Bool.false_eq_true, if_false]
  cases run fl k p lines 0 {} <;> rfl

/-- **Refinement.**  If the preamble pass yields sizes/names `p` and line list `lines`, the sizes are present
    (and pass the size guard when the source has one), and the line list is a well-formed file denoting the
    statement lists `sT`, `sR`, `sW`, then the parser accepts and every cell of every table holds exactly what
    the format defines: the value of the last statement covering the cell, 0 if none does.
    Covers wildcards, names vs numbers (`Resolves`), entry / row / next-line row / matrix forms, any order. -/
theorem parser_refines_spec (fl : Flags) (k : Kind) (text : Str) (p : Pre) (lines : List Str) (sT sR sW : List Stmt)
    (hpre : parseModelInfo fl (splitLines text) {} [] = .ok (p, lines))
    (hsz : (p.S == 0 || p.A == 0 || (k == .pomdp && p.O == 0)) = false)
    (hfit : (fl.sizeGuard && !(extentFits p.S p.A p.S && (k == .mdp || extentFits p.S p.A p.O))) = false)
    (hfile : FileDenotes fl k p lines 0 sT sR sW) :
    ∃ r, parse fl k text = .ok r ∧ r.pre = p ∧ ∀ d1 a d3,
      tableAt r.st.wT d1 a d3 = specAt sT p.S p.A p.S d1 a d3 ∧
      tableAt r.st.wR d1 a d3 = specAt sR p.S p.A p.S d1 a d3 ∧
      tableAt r.st.wW d1 a d3 = specAt sW p.S p.A p.O d1 a d3 := by
  obtain ⟨st', hrun, hext⟩ := run_refines fl hfile {}
  refine ⟨⟨p, st'⟩, ?_, rfl, ?_⟩
  · rw [parse_unfold fl k text p lines hpre hsz hfit, hrun]; rfl
  · intro d1 a d3
    obtain ⟨h1, h2, h3⟩ := hext d1 a d3
    simp only [tableAt_eq, specAt_eq, h1, h2, h3]
    simp [lastHit_nil]

/-! ## parser_rejects -/

theorem parse_ok_inv {fl : Flags} {k : Kind} {text : Str} {r : Parsed} (h : parse fl k text = .ok r) :
    ∃ lines, parseModelInfo fl (splitLines text) {} [] = .ok (r.pre, lines) ∧
      (r.pre.S == 0 || r.pre.A == 0 || (k == .pomdp && r.pre.O == 0)) = false ∧
      (fl.sizeGuard && !(extentFits r.pre.S r.pre.A r.pre.S && (k == .mdp || extentFits r.pre.S r.pre.A r.pre.O))) = false ∧
      run fl k r.pre lines 0 {} = .ok r.st := by
  unfold parse at h
  obtain ⟨⟨p, lines⟩, hpre, h⟩ := bind_ok.1 h
  simp only at h
  split at h
  · cases h
  · rename_i hsz
    split at h
    · cases h
    · rename_i hfit
      obtain ⟨st, hrun, h⟩ := bind_ok.1 h
      have := pure_ok.1 h
      subst this
      exact ⟨lines, hpre, by simpa using hsz, by simpa using hfit, hrun⟩

/-- **Rejection (full strength; holds for the source with the `throw` in place).**  Whatever the parser accepts is
    a well-formed file: the sizes are present, every line that starts with T / O / R is a well-formed statement of
    the supported grammar with all its continuation lines, and the returned tables are the specification semantics
    of those statements.  Contrapositive: a text with a missing size, a wrong number of ':' on a statement line, a
    wrong element count in any form, an unknown name, an out-of-range index or an unparsable number is rejected. -/
theorem parser_accepts_only_wellformed {fl : Flags} (hfl : fl.rowLenThrows = true) {k : Kind} {text : Str} {r : Parsed}
    (h : parse fl k text = .ok r) :
    ∃ lines sT sR sW, parseModelInfo fl (splitLines text) {} [] = .ok (r.pre, lines) ∧
      r.pre.S ≠ 0 ∧ r.pre.A ≠ 0 ∧ (k = .pomdp → r.pre.O ≠ 0) ∧
      FileDenotes fl k r.pre lines 0 sT sR sW ∧
      ∀ d1 a d3,
        tableAt r.st.wT d1 a d3 = specAt sT r.pre.S r.pre.A r.pre.S d1 a d3 ∧
        tableAt r.st.wR d1 a d3 = specAt sR r.pre.S r.pre.A r.pre.S d1 a d3 ∧
        tableAt r.st.wW d1 a d3 = specAt sW r.pre.S r.pre.A r.pre.O d1 a d3 := by
  obtain ⟨lines, hpre, hsz, hfit, hrun⟩ := parse_ok_inv h
  obtain ⟨sT, sR, sW, hfile⟩ := run_accepts_only_wellformed hfl lines 0 {} r.st hrun
  obtain ⟨r', hp, _, htab⟩ := parser_refines_spec fl k text r.pre lines sT sR sW hpre hsz hfit hfile
  have hr : r' = r := by rw [h] at hp; injection hp with hp; exact hp.symm
  subst hr
  have hsz' : r'.pre.S ≠ 0 ∧ r'.pre.A ≠ 0 ∧ (k = .pomdp → r'.pre.O ≠ 0) := by
    simp only [Bool.or_eq_false_iff, beq_eq_false_iff_ne, Bool.and_eq_false_imp, beq_iff_eq] at hsz
    exact ⟨hsz.1.1, hsz.1.2, hsz.2⟩
  exact ⟨lines, sT, sR, sW, hpre, hsz'.1, hsz'.2.1, hsz'.2.2, hfile, htab⟩

/-- The statement above WITHOUT the `rowLenThrows` hypothesis is false for the source as it is: with the flag off
    (exception constructed, not thrown) this text is accepted although its last line is no statement of the grammar
    (three values for two states).  Evaluated by the kernel on the literal (a test of the model, labelled as such). -/
theorem parser_accepts_malformed_row_counterexample :
    (parse ⟨false, false, false, false, false⟩ .mdp "states: 2\nactions: 1\nT: 0\n1 0\n0 1\nT: 0 : 0 0.5 0.25 0.25\n".toList).toOption.isSome = true ∧
    (parse ⟨true, false, false, false, false⟩ .mdp "states: 2\nactions: 1\nT: 0\n1 0\n0 1\nT: 0 : 0 0.5 0.25 0.25\n".toList).toOption.isSome = false := by
  decide +kernel

/-- the offending line is indeed outside the grammar: no statement is denoted by it -/
theorem processMatrix_row_length_counterexample :
    (∃ ws, processMatrix ⟨false, false, false, false, false⟩ 2 1 2 [] [] [] "T: 0 : 0 0.5 0.25 0.25".toList [] = .ok (ws, 0)) ∧
    ¬ ∃ s n, MatrixLine fl 2 1 2 [] [] [] "T: 0 : 0 0.5 0.25 0.25".toList [] s n := by
  constructor
  · rcases h : processMatrix ⟨false, false, false, false, false⟩ 2 1 2 [] [] [] "T: 0 : 0 0.5 0.25 0.25".toList [] with e | ⟨ws, n⟩
    · have : (processMatrix ⟨false, false, false, false, false⟩ 2 1 2 [] [] [] "T: 0 : 0 0.5 0.25 0.25".toList []).toOption.isSome = true := by decide +kernel
      rw [h] at this; cases this
    · have hn : ((processMatrix ⟨false, false, false, false, false⟩ 2 1 2 [] [] [] "T: 0 : 0 0.5 0.25 0.25".toList []).toOption.map (·.2)) = some 0 := by decide +kernel
      rw [h] at hn
      have : n = 0 := by simpa [Except.toOption] using hn
      subst this
      exact ⟨ws, rfl⟩
  · rintro ⟨s, n, hm⟩
    have hc : countColon "T: 0 : 0 0.5 0.25 0.25".toList = 2 := by decide +kernel
    have hl : (tokenize colonSpace "T: 0 : 0 0.5 0.25 0.25".toList).length = 6 := by decide +kernel
    cases hm with
    | entry h3 => rw [hc] at h3; cases h3
    | rowInline _ _ _ _ _ h6 => rw [hl] at h6; cases h6
    | rowNext _ _ _ _ _ h6 => rw [hl] at h6; cases h6
    | matrix h1 => rw [hc] at h1; cases h1

/-- **Rejection, contrapositive form**: a text whose line list is not a well-formed file is rejected with an exception -/
theorem parser_rejects {fl : Flags} (hfl : fl.rowLenThrows = true) (k : Kind) (text : Str)
    (hbad : ∀ p lines sT sR sW, parseModelInfo fl (splitLines text) {} [] = .ok (p, lines) → ¬ FileDenotes fl k p lines 0 sT sR sW) :
    ∃ e, parse fl k text = .error e := by
  cases h : parse fl k text with
  | error e => exact ⟨e, rfl⟩
  | ok r =>
    obtain ⟨lines, sT, sR, sW, hpre, _, _, _, hfile, _⟩ := parser_accepts_only_wellformed hfl h
    exact absurd hfile (hbad r.pre lines sT sR sW hpre)

/-- a line list whose first line starts with `T` but is no T statement of the grammar is not a well-formed file -/
theorem not_FileDenotes_of_bad_T_line (k : Kind) (p : Pre) (l : Str) (rest : List Str) (sT sR sW : List Stmt)
    (hT : startsWith l ['T'] = true)
    (hbad : ∀ s n, ¬ MatrixLine fl p.S p.A p.S p.amap p.smap p.smap l rest s n) :
    ¬ FileDenotes fl k p (l :: rest) 0 sT sR sW := by
  intro h
  cases h with
  | tline _ hm _ => exact hbad _ _ hm
  | oline h1 _ _ _ _ => rw [hT] at h1; cases h1
  | rline h1 _ _ _ _ => rw [hT] at h1; cases h1
  | other h1 _ _ _ => rw [hT] at h1; cases h1

/-- e.g. a wrong number of ':' : no statement is denoted -/
theorem not_MatrixLine_of_bad_colon_count {D1 D2 D3 : Nat} {amap d1map d3map : IDMap} {l : Str} {rest : List Str}
    (h1 : countColon l ≠ 1) (h2 : countColon l ≠ 2) (h3 : countColon l ≠ 3) (s : Stmt) (n : Nat) :
    ¬ MatrixLine fl D1 D2 D3 amap d1map d3map l rest s n := by
  intro hm
  cases hm with
  | entry hc => exact h3 hc
  | rowInline hc => exact h2 hc
  | rowNext hc => exact h2 hc
  | matrix hc => exact h1 hc

/-- what the source as extracted guarantees: acceptance implies well-formedness, or the flag is off -/
theorem parser_rejects_as_extracted {k : Kind} {text : Str} {r : Parsed}
    (h : parse Gen.Dispatch.flags k text = .ok r) :
    (∃ lines sT sR sW, parseModelInfo Gen.Dispatch.flags (splitLines text) {} [] = .ok (r.pre, lines) ∧
        FileDenotes Gen.Dispatch.flags k r.pre lines 0 sT sR sW ∧
        ∀ d1 a d3, tableAt r.st.wT d1 a d3 = specAt sT r.pre.S r.pre.A r.pre.S d1 a d3) ∨
    Gen.Dispatch.rowLenThrows = false := by
  cases hfl : Gen.Dispatch.rowLenThrows with
  | false => exact Or.inr rfl
  | true =>
    left
    obtain ⟨lines, sT, sR, sW, hpre, _, _, _, hfile, htab⟩ :=
      parser_accepts_only_wellformed (fl := Gen.Dispatch.flags) (by simp [Gen.Dispatch.flags, hfl]) h
    exact ⟨lines, sT, sR, sW, hpre, hfile, fun d1 a d3 => (htab d1 a d3).1⟩

/-! ### the clauses of "is rejected", one by one (any flags unless stated) -/

/-- missing sizes: a preamble without states or actions (or, for a POMDP, observations) is rejected -/
theorem parse_rejects_missing_sizes (fl : Flags) (k : Kind) (text : Str) (p : Pre) (lines : List Str)
    (hpre : parseModelInfo fl (splitLines text) {} [] = .ok (p, lines))
    (h : p.S = 0 ∨ p.A = 0 ∨ (k = .pomdp ∧ p.O = 0)) : parse fl k text = .error .runtime := by
  unfold parse
  simp only [hpre, bind, Except.bind]
  have : (p.S == 0 || p.A == 0 || (k == .pomdp && p.O == 0)) = true := by
    rcases h with h | h | ⟨h1, h2⟩ <;> simp [*]
  simp [this]

/-- … and a text in which no line starts with `states` has S = 0 after the preamble pass (same for the others) -/
theorem parseModelInfo_no_states (raws : List Str) (p p' : Pre) (acc lines : List Str)
    (h : parseModelInfo fl raws p acc = .ok (p', lines))
    (hno : ∀ raw ∈ raws, startsWith (trim raw) kwStates = false) : p'.S = p.S := by
  induction raws generalizing p acc with
  | nil => simp only [parseModelInfo, pure_ok] at h; injection h with h1 _; rw [h1]
  | cons raw rest ih =>
    have hno' : ∀ raw ∈ rest, startsWith (trim raw) kwStates = false := fun x hx => hno x (List.mem_cons_of_mem _ hx)
    have hs := hno raw List.mem_cons_self
    simp only [parseModelInfo] at h
    split at h
    · exact ih p acc h hno'
    · split at h
      · rename_i r hr
        obtain ⟨p1, hp1, h⟩ := bind_ok.1 h
        rw [ih p1 acc h hno']
        unfold preLine at hr
        simp only [hs, Bool.false_eq_true, if_false] at hr
        split at hr
        · injection hr with hr; subst hr; rw [pure_ok.1 hp1]
        · split at hr
          · injection hr with hr; subst hr
            obtain ⟨⟨n, m⟩, _, hq⟩ := bind_ok.1 hp1
            rw [← pure_ok.1 hq]
          · split at hr
            · injection hr with hr; subst hr
              obtain ⟨⟨n, m⟩, _, hq⟩ := bind_ok.1 hp1
              rw [← pure_ok.1 hq]
            · split at hr
              · injection hr with hr; subst hr
                obtain ⟨t, _, hq⟩ := bind_ok.1 hp1
                obtain ⟨d, _, hq⟩ := bind_ok.1 hq
                rw [← pure_ok.1 hq]
              · cases hr
      · exact ih p (trim raw :: acc) h hno'

/-- is the (trimmed) line consumed by the preamble pass? -/
def isPreambleLine (l : Str) : Bool := keywords.any (fun kw => startsWith l kw)

theorem preLine_none_iff (p : Pre) (l : Str) : (preLine fl p l).isNone = !(isPreambleLine l) := by
  unfold preLine isPreambleLine keywords
  simp only [List.any_cons, List.any_nil, Bool.or_false]
  by_cases h1 : startsWith l kwValues = true
  · simp [h1]
  · by_cases h2 : startsWith l kwStates = true
    · simp [h1, h2]
    · by_cases h3 : startsWith l kwActions = true
      · simp [h1, h2, h3]
      · by_cases h4 : startsWith l kwObservations = true
        · simp [h1, h2, h3, h4]
        · by_cases h5 : startsWith l kwDiscount = true
          · simp [h1, h2, h3, h4, h5]
          · simp [h1, h2, h3, h4, h5]

/-- **The preamble pass, structurally**: `lines_` is exactly the list of trimmed, non-empty lines that do not start
    with a preamble keyword, in file order — statement lines and their continuation lines reach the main pass
    unchanged and adjacent, wherever the preamble lines sit (even between a header and its rows). -/
theorem parseModelInfo_lines (raws : List Str) (p p' : Pre) (acc lines : List Str)
    (h : parseModelInfo fl raws p acc = .ok (p', lines)) :
    lines = acc.reverse ++ (raws.map trim).filter (fun l => !l.isEmpty && !(isPreambleLine l)) := by
  induction raws generalizing p acc with
  | nil => simp only [parseModelInfo, pure_ok] at h; injection h with _ h2; simp [← h2]
  | cons raw rest ih =>
    simp only [parseModelInfo] at h
    split at h
    · rename_i he
      rw [ih p acc h]
      simp [List.filter_cons, he]
    · rename_i he
      have he' : (trim raw).isEmpty = false := by simpa using he
      split at h
      · rename_i r hr
        obtain ⟨p1, _, h⟩ := bind_ok.1 h
        rw [ih p1 acc h]
        have hn := preLine_none_iff (fl := fl) p (trim raw)
        rw [hr] at hn
        have hpl : isPreambleLine (trim raw) = true := by simpa using hn
        simp [List.filter_cons, hpl]
      · rename_i hr
        rw [ih p (trim raw :: acc) h]
        have hn := preLine_none_iff (fl := fl) p (trim raw)
        rw [hr] at hn
        have hpl : isPreambleLine (trim raw) = false := by simpa using hn
        simp [List.filter_cons, he', hpl]

/-- a line that starts with a table letter is never taken for a preamble line (keywords are lower-case) -/
theorem startsWith_head_ne (c k : Char) (r ks : Str) (h : (c == k) = false) : startsWith (c :: r) (k :: ks) = false := by
  simp [startsWith, h]

theorem statement_letters_not_preamble (c : Char) (r : Str) (hc : c = 'T' ∨ c = 'O' ∨ c = 'R') :
    isPreambleLine (c :: r) = false := by
  have hv : kwValues = 'v' :: "alues".toList := by decide
  have hs : kwStates = 's' :: "tates".toList := by decide
  have ha : kwActions = 'a' :: "ctions".toList := by decide
  have ho : kwObservations = 'o' :: "bservations".toList := by decide
  have hd : kwDiscount = 'd' :: "iscount".toList := by decide
  unfold isPreambleLine keywords
  simp only [List.any_cons, List.any_nil, Bool.or_false]
  rw [hv, hs, ha, ho, hd]
  rcases hc with rfl | rfl | rfl <;>
    rw [startsWith_head_ne _ _ _ _ (by decide), startsWith_head_ne _ _ _ _ (by decide), startsWith_head_ne _ _ _ _ (by decide),
        startsWith_head_ne _ _ _ _ (by decide), startsWith_head_ne _ _ _ _ (by decide)] <;> rfl

/-- wrong number of ':' on a T / O line -/
theorem processMatrix_rejects_bad_colon_count (fl : Flags) (D1 D2 D3 : Nat) (amap d1map d3map : IDMap) (line : Str)
    (rest : List Str) (h1 : countColon line ≠ 1) (h2 : countColon line ≠ 2) (h3 : countColon line ≠ 3) :
    processMatrix fl D1 D2 D3 amap d1map d3map line rest = .error .runtime := by
  unfold processMatrix
  split
  · rename_i h; exact absurd h h3
  · rename_i h; exact absurd h h2
  · rename_i h; exact absurd h h1
  · rfl

/-- wrong number of ':' on an R line -/
theorem processReward_rejects_bad_colon_count (S A : Nat) (amap smap : IDMap) (line : Str) (h : countColon line ≠ 4) :
    processReward fl S A amap smap line = .error .runtime := by
  unfold processReward
  split
  · rename_i h'; exact absurd h' h
  · rfl

/-- unknown name: a token that is not `*`, not a declared name and does not start with a number -/
theorem parseIndeces_rejects_unknown_name (tok : Str) (map : IDMap) (max : Nat) (e : Err)
    (h1 : tok ≠ ['*']) (h2 : map.find tok = none) (h3 : stoulS fl tok = .error e) :
    parseIndeces fl tok map max = .error e := by
  have hb : (tok == ['*']) = false := by simpa using h1
  simp [parseIndeces, hb, h2, h3, bind, Except.bind]

/-- out-of-range index -/
theorem parseIndeces_rejects_out_of_range (tok : Str) (map : IDMap) (max v : Nat)
    (h1 : tok ≠ ['*']) (h2 : map.find tok = none) (h3 : stoulS fl tok = .ok v) (h4 : max ≤ v) :
    parseIndeces fl tok map max = .error .runtime := by
  have hb : (tok == ['*']) = false := by simpa using h1
  have : v ≥ max := h4
  simp [parseIndeces, hb, h2, h3, bind, Except.bind, this]

/-- names and numbers are interchangeable: a declared name and the decimal spelling of its index select the
    same cells (as long as the spelling is not itself a declared name) -/
theorem name_number_interchangeable (name num : Str) (map : IDMap) (max i : Nat)
    (hn : name ≠ ['*']) (hm : num ≠ ['*']) (h1 : map.find name = some i) (h2 : map.find num = none)
    (h3 : stoulS fl num = .ok i) (h4 : i < max) :
    parseIndeces fl name map max = parseIndeces fl num map max := by
  rw [(parseIndeces_iff name map max [i]).2 ⟨.idx i, Or.inr ⟨hn, Or.inl ⟨i, h1, rfl⟩⟩, rfl⟩,
      (parseIndeces_iff num map max [i]).2 ⟨.idx i, Or.inr ⟨hm, Or.inr ⟨h2, i, h3, h4, rfl⟩⟩, rfl⟩]

/-- the wildcard expands to all indices of the dimension -/
theorem wildcard_expands (map : IDMap) (max : Nat) : parseIndeces fl ['*'] map max = .ok (List.range max) := by
  simp [parseIndeces, pure, Except.pure]

/-- two-colon form, wrong inline element count: rejected when the branch throws -/
theorem processMatrix_rejects_row_length {fl : Flags} (hfl : fl.rowLenThrows = true)
    (D1 D2 D3 : Nat) (amap d1map d3map : IDMap) (line : Str) (rest : List Str)
    (hc : countColon line = 2) (h1 : (tokenize colonSpace line).length ≠ 3 + D3) (h2 : (tokenize colonSpace line).length ≠ 3) :
    ∃ e, processMatrix fl D1 D2 D3 amap d1map d3map line rest = .error e := by
  cases h : processMatrix fl D1 D2 D3 amap d1map d3map line rest with
  | error e => exact ⟨e, rfl⟩
  | ok r =>
    obtain ⟨ws, n⟩ := r
    obtain ⟨s, hm⟩ := processMatrix_accepts_only_wellformed hfl h
    cases hm with
    | entry h3 => rw [hc] at h3; cases h3
    | rowInline _ _ _ _ _ h6 => exact absurd h6 h1
    | rowNext _ _ _ _ _ h6 => exact absurd h6 h2
    | matrix h3 => rw [hc] at h3; cases h3

/-- The conversions are prefix-lenient, in the model as in the library: a token with trailing garbage is taken for the
    number it starts with, and a tab is not a value separator.  So "unknown names / wrong element counts are rejected" holds
    only for tokens that do not start with a number (`parseIndeces_rejects_unknown_name` needs `stoulS fl tok = error`).
    Kernel-evaluated witnesses (tests on literals): `1x` resolves to index 1; `0.5<TAB>0.25 0.5` is a 2-vector. -/
theorem trailing_garbage_counterexample :
    (match parseIndeces ⟨true, true, true, false, false⟩ "1x".toList [] 2 with | .ok l => l == [1] | .error _ => false) = true ∧
    (match parseVector ⟨true, true, true, false, false⟩ "0.5\t0.25 0.5".toList 2, parseVector ⟨true, true, true, false, false⟩ "0.5 0.5".toList 2 with
      | .ok a, .ok b => a == b
      | _, _ => false) = true := by
  decide +kernel

/-! ## the memory clause: every write is in bounds -/

def IdxOK (map : IDMap) (max : Nat) : Prop := ∀ k v, (k, v) ∈ map → v < max

theorem find_lt {map : IDMap} {max : Nat} (h : IdxOK map max) {k : Str} {i : Nat} (hf : map.find k = some i) : i < max := by
  induction map with
  | nil => cases hf
  | cons kv rest ih =>
    obtain ⟨k', v⟩ := kv
    simp only [IDMap.find] at hf
    split at hf
    · injection hf with hf; subst hf; exact h k' v List.mem_cons_self
    · exact ih (fun a b hab => h a b (List.mem_cons_of_mem _ hab)) hf

theorem Resolves_covers_lt {map : IDMap} {max : Nat} (hm : IdxOK map max) {tok : Str} {sel : Sel}
    (hr : Resolves fl map max tok sel) {i : Nat} (hc : sel.covers max i = true) : i < max := by
  rcases hr with ⟨_, rfl⟩ | ⟨_, ⟨j, hf, rfl⟩ | ⟨_, j, _, hlt, rfl⟩⟩
  · simpa [Sel.covers] using hc
  · have : i = j := by simpa [Sel.covers] using hc
    subst this; exact find_lt hm hf
  · have : i = j := by simpa [Sel.covers] using hc
    subst this; exact hlt

/-- a well-formed T/O statement assigns only cells of the table -/
theorem MatrixLine_assigns_in_bounds {D1 D2 D3 : Nat} {amap d1map d3map : IDMap} {line : Str} {rest : List Str}
    {s : Stmt} {n : Nat} (ha : IdxOK amap D2) (h1 : IdxOK d1map D1) (h3 : IdxOK d3map D3)
    (hm : MatrixLine fl D1 D2 D3 amap d1map d3map line rest s n) {d1 a d3 : Nat} {v : XRat}
    (hv : s.assigns D1 D2 D3 d1 a d3 = some v) : d1 < D1 ∧ a < D2 ∧ d3 < D3 := by
  unfold Stmt.assigns at hv
  split at hv
  · rename_i hcov
    have hcov' : s.a.covers D2 a = true ∧ s.d1.covers D1 d1 = true := by simpa using hcov
    cases hm with
    | entry _ _ _ _ _ ra r1 r3 _ =>
      simp only at hv hcov'
      split at hv
      · rename_i hc3
        exact ⟨Resolves_covers_lt h1 r1 hcov'.2, Resolves_covers_lt ha ra hcov'.1, Resolves_covers_lt h3 r3 hc3⟩
      · cases hv
    | rowInline _ _ _ ra r1 hl hvs =>
      simp only at hv hcov'
      refine ⟨Resolves_covers_lt h1 r1 hcov'.2, Resolves_covers_lt ha ra hcov'.1, ?_⟩
      have hlen := mapM_ok_length _ _ _ hvs
      simp only [List.length_drop, hl] at hlen
      rcases Nat.lt_or_ge d3 D3 with h | h
      · exact h
      · rw [List.getElem?_eq_none (by omega)] at hv; cases hv
    | rowNext _ _ _ ra r1 _ _ _ hpv =>
      simp only at hv hcov'
      refine ⟨Resolves_covers_lt h1 r1 hcov'.2, Resolves_covers_lt ha ra hcov'.1, ?_⟩
      have hlen := parseVector_length hpv
      rcases Nat.lt_or_ge d3 D3 with h | h
      · exact h
      · rw [List.getElem?_eq_none (by omega)] at hv; cases hv
    | matrix _ _ ra hl _ hd =>
      simp only at hv hcov'
      have hd1 : d1 < D1 := by simpa [Sel.covers] using hcov'.2
      refine ⟨hd1, Resolves_covers_lt ha ra hcov'.1, ?_⟩
      split at hv
      · rename_i r hr
        have hmem : r ∈ _ := List.mem_of_getElem? hr
        have hlen := RowsDenote_lengths hd r hmem
        rcases Nat.lt_or_ge d3 D3 with h | h
        · exact h
        · rw [List.getElem?_eq_none (by omega)] at hv; cases hv
      · cases hv
  · cases hv

theorem RewardLine_assigns_in_bounds {S A : Nat} {amap smap : IDMap} {line : Str} {s : Stmt}
    (ha : IdxOK amap A) (hs : IdxOK smap S) (hm : RewardLine fl S A amap smap line s) {d1 a d3 : Nat} {v : XRat}
    (hv : s.assigns S A S d1 a d3 = some v) : d1 < S ∧ a < A ∧ d3 < S := by
  unfold Stmt.assigns at hv
  split at hv
  · rename_i hcov
    have hcov' : s.a.covers A a = true ∧ s.d1.covers S d1 = true := by simpa using hcov
    cases hm with
    | entry _ _ _ _ _ ra r1 r3 _ =>
      simp only at hv hcov'
      split at hv
      · rename_i hc3
        exact ⟨Resolves_covers_lt hs r1 hcov'.2, Resolves_covers_lt ha ra hcov'.1, Resolves_covers_lt hs r3 hc3⟩
      · cases hv
  · cases hv

theorem lastHit_isSome_of_mem {ws : List Write} {w : Write} (h : w ∈ ws) : (lastHit ws w.d1 w.a w.d3).isSome = true := by
  unfold lastHit
  rw [List.findSome?_isSome_iff]
  exact ⟨w, by simpa using h, by simp [Write.hits]⟩

def InB (ws : List Write) (D1 D2 D3 : Nat) : Prop := ∀ w ∈ ws, w.d1 < D1 ∧ w.a < D2 ∧ w.d3 < D3

/-- every write of one T/O line is inside the table, for every flag value -/
theorem processMatrix_writes_in_bounds {fl : Flags} {D1 D2 D3 : Nat} {amap d1map d3map : IDMap} {line : Str}
    {rest : List Str} {ws : List Write} {n : Nat} (ha : IdxOK amap D2) (h1 : IdxOK d1map D1) (h3 : IdxOK d3map D3)
    (h : processMatrix fl D1 D2 D3 amap d1map d3map line rest = .ok (ws, n)) : InB ws D1 D2 D3 := by
  intro w hw
  rcases processMatrix_ok_cases h with ⟨s, hm⟩ | ⟨_, _, _, _, _, hno⟩
  · obtain ⟨ws', hpm, hws⟩ := processMatrix_refines fl hm
    have : ws' = ws := by rw [h] at hpm; injection hpm with hpm; injection hpm with hpm _; exact hpm.symm
    subst this
    have hsome := lastHit_isSome_of_mem hw
    rw [hws] at hsome
    obtain ⟨v, hv⟩ := Option.isSome_iff_exists.1 hsome
    exact MatrixLine_assigns_in_bounds ha h1 h3 hm hv
  · exact absurd hw (hno w)

theorem processReward_writes_in_bounds {S A : Nat} {amap smap : IDMap} {line : Str} {ws : List Write} {n : Nat}
    (ha : IdxOK amap A) (hs : IdxOK smap S) (h : processReward fl S A amap smap line = .ok (ws, n)) : InB ws S A S := by
  intro w hw
  obtain ⟨hn, s, hm⟩ := processReward_accepts_only_wellformed h
  subst hn
  obtain ⟨ws', hpm, hws⟩ := processReward_refines hm
  have : ws' = ws := by rw [h] at hpm; injection hpm with hpm; injection hpm with hpm _; exact hpm.symm
  subst this
  have hsome := lastHit_isSome_of_mem hw
  rw [hws] at hsome
  obtain ⟨v, hv⟩ := Option.isSome_iff_exists.1 hsome
  exact RewardLine_assigns_in_bounds ha hs hm hv

def PreOK (p : Pre) : Prop := IdxOK p.smap p.S ∧ IdxOK p.amap p.A ∧ IdxOK p.omap p.O

theorem InB_append {ws1 ws2 : List Write} {D1 D2 D3 : Nat} (h1 : InB ws1 D1 D2 D3) (h2 : InB ws2 D1 D2 D3) :
    InB (ws1 ++ ws2) D1 D2 D3 := by
  intro w hw
  rcases List.mem_append.1 hw with h | h
  · exact h1 w h
  · exact h2 w h

def StInB (p : Pre) (st : St) : Prop := InB st.wT p.S p.A p.S ∧ InB st.wR p.S p.A p.S ∧ InB st.wW p.S p.A p.O

theorem run_writes_in_bounds (fl : Flags) (k : Kind) (p : Pre) (hp : PreOK p) (lines : List Str) (skip : Nat) (st st' : St)
    (hst : StInB p st) (h : run fl k p lines skip st = .ok st') : StInB p st' := by
  induction lines generalizing skip st with
  | nil => simp only [run, pure_ok] at h; subst h; exact hst
  | cons l rest ih =>
    cases skip with
    | succ skip => simp only [run] at h; exact ih skip st hst h
    | zero =>
      simp only [run] at h
      obtain ⟨⟨st1, n⟩, hstep, hrun⟩ := bind_ok.1 h
      refine ih n st1 ?_ hrun
      unfold step at hstep
      split at hstep
      · obtain ⟨⟨ws, n'⟩, hpm, hq⟩ := bind_ok.1 hstep
        have := pure_ok.1 hq; injection this with h1 _; subst h1
        exact ⟨InB_append hst.1 (processMatrix_writes_in_bounds hp.2.1 hp.1 hp.1 hpm), hst.2.1, hst.2.2⟩
      · split at hstep
        · obtain ⟨⟨ws, n'⟩, hpm, hq⟩ := bind_ok.1 hstep
          have := pure_ok.1 hq; injection this with h1 _; subst h1
          exact ⟨hst.1, hst.2.1, InB_append hst.2.2 (processMatrix_writes_in_bounds hp.2.1 hp.1 hp.2.2 hpm)⟩
        · split at hstep
          · obtain ⟨⟨ws, n'⟩, hpm, hq⟩ := bind_ok.1 hstep
            have := pure_ok.1 hq; injection this with h1 _; subst h1
            exact ⟨hst.1, InB_append hst.2.1 (processReward_writes_in_bounds hp.2.1 hp.1 hpm), hst.2.2⟩
          · have := pure_ok.1 hstep; injection this with h1 _; subst h1
            exact hst

/-! ### the preamble keeps name indices below the declared size -/

theorem extractIDs_ok {line : Str} {n : Nat} {m : IDMap} (h : extractIDs fl line = .ok (n, m)) : IdxOK m n := by
  unfold extractIDs at h
  obtain ⟨t1, _, h⟩ := bind_ok.1 h
  have named : ∀ (ids : List Str), IdxOK ((enumFrom 0 ids).foldl (fun m (p : Nat × Str) => m.set (trim p.2) p.1) []) ids.length := by
    intro ids
    have gen : ∀ (l : List (Nat × Str)) (m0 : IDMap), IdxOK m0 ids.length → (∀ q ∈ l, q.1 < ids.length) →
        IdxOK (l.foldl (fun m (p : Nat × Str) => m.set (trim p.2) p.1) m0) ids.length := by
      intro l
      induction l with
      | nil => intro m0 h0 _; exact h0
      | cons q t ih =>
        intro m0 h0 hq
        simp only [List.foldl_cons]
        apply ih
        · intro k v hkv
          simp only [IDMap.set, List.mem_cons, Prod.mk.injEq] at hkv
          rcases hkv with ⟨_, rfl⟩ | hkv
          · exact hq q List.mem_cons_self
          · exact h0 k v hkv
        · exact fun x hx => hq x (List.mem_cons_of_mem _ hx)
    apply gen
    · intro k v hkv; cases hkv
    · intro q hq
      obtain ⟨j, hj, hq1⟩ := (mem_enumFrom ids 0 q.1 q.2).1 hq
      rcases Nat.lt_or_ge j ids.length with hlt | hge
      · omega
      · rw [List.getElem?_eq_none hge] at hj; cases hj
  simp only at h
  split at h
  · rename_i one heq
    split at h
    · have := pure_ok.1 h; injection this with h1 h2; subst h1 h2
      intro k v hkv; cases hkv
    · have := pure_ok.1 h; injection this with h1 h2; subst h1 h2
      exact named _
  · have := pure_ok.1 h; injection this with h1 h2; subst h1 h2
    exact named _

theorem parseModelInfo_PreOK (raws : List Str) (p p' : Pre) (acc lines : List Str) (hp : PreOK p)
    (h : parseModelInfo fl raws p acc = .ok (p', lines)) : PreOK p' := by
  induction raws generalizing p acc with
  | nil => simp only [parseModelInfo, pure_ok] at h; injection h with h1 _; rw [← h1]; exact hp
  | cons raw rest ih =>
    simp only [parseModelInfo] at h
    split at h
    · exact ih p acc hp h
    · split at h
      · rename_i r hr
        obtain ⟨p1, hp1, h⟩ := bind_ok.1 h
        refine ih p1 acc ?_ h
        unfold preLine at hr
        split at hr
        · injection hr with hr; subst hr; rw [← pure_ok.1 hp1]; exact hp
        · split at hr
          · injection hr with hr; subst hr
            obtain ⟨⟨n, m⟩, he, hq⟩ := bind_ok.1 hp1
            rw [← pure_ok.1 hq]
            exact ⟨extractIDs_ok he, hp.2.1, hp.2.2⟩
          · split at hr
            · injection hr with hr; subst hr
              obtain ⟨⟨n, m⟩, he, hq⟩ := bind_ok.1 hp1
              rw [← pure_ok.1 hq]
              exact ⟨hp.1, extractIDs_ok he, hp.2.2⟩
            · split at hr
              · injection hr with hr; subst hr
                obtain ⟨⟨n, m⟩, he, hq⟩ := bind_ok.1 hp1
                rw [← pure_ok.1 hq]
                exact ⟨hp.1, hp.2.1, extractIDs_ok he⟩
              · split at hr
                · injection hr with hr; subst hr
                  obtain ⟨t, _, hq⟩ := bind_ok.1 hp1
                  obtain ⟨d, _, hq⟩ := bind_ok.1 hq
                  rw [← pure_ok.1 hq]
                  exact hp
                · cases hr
      · exact ih p (trim raw :: acc) hp h

/-- **Memory clause, indices.**  For every text and every flag value: each assignment `M[d1][a][d3] = v` the
    parser performs on T, R and W has all three indices inside the table's shape. -/
theorem parse_writes_in_bounds {fl : Flags} {k : Kind} {text : Str} {r : Parsed} (h : parse fl k text = .ok r) :
    InB r.st.wT r.pre.S r.pre.A r.pre.S ∧ InB r.st.wR r.pre.S r.pre.A r.pre.S ∧ InB r.st.wW r.pre.S r.pre.A r.pre.O := by
  obtain ⟨lines, hpre, _, _, hrun⟩ := parse_ok_inv h
  have hp : PreOK r.pre := parseModelInfo_PreOK _ {} _ [] _ ⟨fun _ _ h => (by cases h), fun _ _ h => (by cases h), fun _ _ h => (by cases h)⟩ hpre
  exact run_writes_in_bounds fl k r.pre hp lines 0 {} r.st ⟨fun _ h => (by cases h), fun _ h => (by cases h), fun _ h => (by cases h)⟩ hrun

/-- in-range indices give a flat offset below the number of elements -/
theorem offset_lt {D1 D2 D3 : Nat} {w : Write} (h1 : w.d1 < D1) (h2 : w.a < D2) (h3 : w.d3 < D3) :
    offset D2 D3 w < D1 * D2 * D3 := by
  unfold offset
  have e1 : w.d1 * D2 + D2 ≤ D1 * D2 := by
    have := Nat.mul_le_mul_right D2 (show w.d1 + 1 ≤ D1 by omega)
    rw [Nat.add_mul] at this; omega
  have e2 : (w.d1 * D2 + w.a + 1) * D3 ≤ D1 * D2 * D3 := Nat.mul_le_mul_right D3 (by omega)
  rw [Nat.add_mul] at e2
  omega

/-- **Memory clause, storage (any flags; the hypothesis the code forces).**  When the extents' product does not wrap in
    `size_t`, every write lands inside the allocated storage. -/
theorem writes_offset_lt_allocated_partial {fl : Flags} {k : Kind} {text : Str} {r : Parsed} (h : parse fl k text = .ok r)
    (hT : r.pre.S * r.pre.A * r.pre.S < two64) (hW : r.pre.S * r.pre.A * r.pre.O < two64) :
    (∀ w ∈ r.st.wT, offset r.pre.A r.pre.S w < allocated r.pre.S r.pre.A r.pre.S) ∧
    (∀ w ∈ r.st.wR, offset r.pre.A r.pre.S w < allocated r.pre.S r.pre.A r.pre.S) ∧
    (∀ w ∈ r.st.wW, offset r.pre.A r.pre.O w < allocated r.pre.S r.pre.A r.pre.O) := by
  obtain ⟨bT, bR, bW⟩ := parse_writes_in_bounds h
  unfold allocated
  rw [Nat.mod_eq_of_lt hT, Nat.mod_eq_of_lt hW]
  exact ⟨fun w hw => offset_lt (bT w hw).1 (bT w hw).2.1 (bT w hw).2.2,
         fun w hw => offset_lt (bR w hw).1 (bR w hw).2.1 (bR w hw).2.2,
         fun w hw => offset_lt (bW w hw).1 (bW w hw).2.1 (bW w hw).2.2⟩

/-- **Memory clause, storage (full strength; holds for the source with the size guard).**  For every text: every
    write of an accepted MDP parse, and of an accepted POMDP parse, lands inside the allocated storage. -/
theorem writes_offset_lt_allocated {fl : Flags} (hfl : fl.sizeGuard = true) {k : Kind} {text : Str} {r : Parsed}
    (h : parse fl k text = .ok r) :
    (∀ w ∈ r.st.wT, offset r.pre.A r.pre.S w < allocated r.pre.S r.pre.A r.pre.S) ∧
    (∀ w ∈ r.st.wR, offset r.pre.A r.pre.S w < allocated r.pre.S r.pre.A r.pre.S) ∧
    (k = .pomdp → ∀ w ∈ r.st.wW, offset r.pre.A r.pre.O w < allocated r.pre.S r.pre.A r.pre.O) := by
  obtain ⟨lines, _, _, hfit, _⟩ := parse_ok_inv h
  simp only [hfl, Bool.true_and, Bool.not_eq_false'] at hfit
  have hfit' : extentFits r.pre.S r.pre.A r.pre.S = true ∧ ((k == .mdp) = true ∨ extentFits r.pre.S r.pre.A r.pre.O = true) := by
    simpa using hfit
  have hT : r.pre.S * r.pre.A * r.pre.S < two64 := by
    have := hfit'.1; simp only [extentFits, decide_eq_true_eq] at this; omega
  obtain ⟨bT, bR, bW⟩ := parse_writes_in_bounds h
  refine ⟨?_, ?_, ?_⟩
  · intro w hw; unfold allocated; rw [Nat.mod_eq_of_lt hT]; exact offset_lt (bT w hw).1 (bT w hw).2.1 (bT w hw).2.2
  · intro w hw; unfold allocated; rw [Nat.mod_eq_of_lt hT]; exact offset_lt (bR w hw).1 (bR w hw).2.1 (bR w hw).2.2
  · intro hk w hw
    have hW : r.pre.S * r.pre.A * r.pre.O < two64 := by
      rcases hfit'.2 with hm | hm
      · subst hk; cases hm
      · simp only [extentFits, decide_eq_true_eq] at hm; omega
    unfold allocated; rw [Nat.mod_eq_of_lt hW]; exact offset_lt (bW w hw).1 (bW w hw).2.1 (bW w hw).2.2

/-- Without the guard the statement is false for the source as it is: `states: 4294967296`, `actions: 1` is
    accepted, `T: 0 : 1 : 1 0.5` passes the index check, and the write lands at offset 2^32+1 of an allocation of
    2^64 mod 2^64 = 0 doubles.  (Kernel evaluation on the literal; a test of the model, labelled as such.) -/
theorem writes_offset_lt_allocated_counterexample :
    (match parse ⟨false, false, false, false, false⟩ .mdp "states: 4294967296\nactions: 1\nT: 0 : 1 : 1 0.5\n".toList with
     | .ok r => r.st.wT.any (fun w => decide (allocated r.pre.S r.pre.A r.pre.S ≤ offset r.pre.A r.pre.S w))
     | .error _ => false) = true ∧
    (parse ⟨false, true, false, false, false⟩ .mdp "states: 4294967296\nactions: 1\nT: 0 : 1 : 1 0.5\n".toList).toOption.isSome = false := by
  decide +kernel

/-- what the source as extracted guarantees for the storage clause -/
theorem memory_safe_as_extracted {k : Kind} {text : Str} {r : Parsed} (h : parse Gen.Dispatch.flags k text = .ok r)
    (hsz : Gen.Dispatch.sizeGuard = false → r.pre.S * r.pre.A * r.pre.S < two64 ∧ r.pre.S * r.pre.A * r.pre.O < two64) :
    (∀ w ∈ r.st.wT, offset r.pre.A r.pre.S w < allocated r.pre.S r.pre.A r.pre.S) ∧
    (∀ w ∈ r.st.wR, offset r.pre.A r.pre.S w < allocated r.pre.S r.pre.A r.pre.S) ∧
    (k = .pomdp → ∀ w ∈ r.st.wW, offset r.pre.A r.pre.O w < allocated r.pre.S r.pre.A r.pre.O) := by
  cases hfl : Gen.Dispatch.sizeGuard with
  | true => exact writes_offset_lt_allocated (fl := Gen.Dispatch.flags) (by simp [Gen.Dispatch.flags, hfl]) h
  | false =>
    obtain ⟨h1, h2, h3⟩ := writes_offset_lt_allocated_partial h (hsz hfl).1 (hsz hfl).2
    exact ⟨h1, h2, fun _ => h3⟩

/-! ## the entry points: what `parseCassandra` lets through -/

theorem xadd_fin {x y : XRat} {r : Rat} (h : XRat.add x y = .fin r) : ∃ a b, x = .fin a ∧ y = .fin b ∧ r = a + b := by
  cases x <;> cases y <;> simp [XRat.add] at h
  rename_i a b
  exact ⟨a, b, rfl, rfl, h.symm⟩

theorem foldl_add_fin (row : List XRat) (acc : XRat) (p : Rat) (h : row.foldl XRat.add acc = .fin p) :
    ∃ (a : Rat) (qs : List Rat), acc = .fin a ∧ row = qs.map XRat.fin ∧ p = qs.foldl (· + ·) a := by
  induction row generalizing acc with
  | nil => exact ⟨p, [], h, rfl, rfl⟩
  | cons x t ih =>
    simp only [List.foldl_cons] at h
    obtain ⟨a', qs, ha', ht, hp⟩ := ih _ h
    obtain ⟨a, b, hacc, hx, hab⟩ := xadd_fin ha'
    exact ⟨a, b :: qs, hacc, by simp [hx, ht], by simp [hp, hab]⟩

/-- a row accepted by `isProbability` is a vector of non-negative rationals whose sum is within the tolerance of 1
    (no NaN, no infinity, no negative entry) -/
theorem isProbability_sound (tol : Rat) (row : List XRat) (h : isProbability tol row = true) :
    ∃ qs : List Rat, row = qs.map XRat.fin ∧ (∀ q ∈ qs, 0 ≤ q) ∧ absQ (qs.foldl (· + ·) 0 - 1) ≤ tol := by
  unfold isProbability at h
  simp only [Bool.and_eq_true, Bool.not_eq_true', List.any_eq_false] at h
  obtain ⟨hneg, hsum⟩ := h
  split at hsum
  · rename_i p hp
    obtain ⟨a, qs, ha, hrow, hpq⟩ := foldl_add_fin row _ p hp
    injection ha with ha
    subst ha
    refine ⟨qs, hrow, ?_, ?_⟩
    · intro q hq
      have := hneg (.fin q) (by rw [hrow]; exact List.mem_map.2 ⟨q, hq, rfl⟩)
      simp only [XRat.lt, decide_eq_true_eq] at this
      exact Rat.not_lt.1 this
    · rw [← hpq]; simpa using hsum
  · cases hsum

/-- **Invalid probabilities / discount are rejected by the entry points**: an accepted text has a discount in (0,1] or NaN
    (`Model::setDiscount` lets NaN through — DESIGN §12 #1, C06) and every T (and W) row passes `isProbability` -/
theorem parseCassandra_ok_valid {fl : Flags} {tol : Rat} {k : Kind} {text : Str} {r : Parsed}
    (h : parseCassandra fl tol k text = .ok r) :
    parse fl k text = .ok r ∧ discountRejected fl r.pre.disc = false ∧
    rowsOK tol r.st.wT r.pre.S r.pre.A r.pre.S = true ∧
    (k = .pomdp → rowsOK tol r.st.wW r.pre.S r.pre.A r.pre.O = true) := by
  unfold parseCassandra at h
  obtain ⟨r', hp, h⟩ := bind_ok.1 h
  split at h
  · cases h
  · rename_i hd
    split at h
    · cases h
    · rename_i hT
      split at h
      · cases h
      · rename_i hW
        have := pure_ok.1 h; subst this
        refine ⟨hp, by simpa using hd, by simpa using hT, ?_⟩
        intro hk; subst hk
        simpa using hW

/-- with a NaN-safe guard an accepted discount is a rational in (0, 1] -/
theorem discount_valid_of_guard {fl : Flags} (hfl : fl.nanDiscountRejected = true) {d : XRat}
    (h : discountRejected fl d = false) : ∃ q : Rat, d = .fin q ∧ 0 < q ∧ q ≤ 1 := by
  unfold discountRejected at h
  simp only [hfl, Bool.true_and, Bool.or_eq_false_iff] at h
  obtain ⟨⟨h1, h2⟩, h3⟩ := h
  cases d with
  | nan => simp [XRat.isNan] at h1
  | pinf => simp [XRat.gt, XRat.lt] at h3
  | ninf => simp [XRat.le] at h2
  | fin q =>
    simp only [XRat.le, decide_eq_false_iff_not] at h2
    simp only [XRat.gt, XRat.lt, decide_eq_false_iff_not] at h3
    exact ⟨q, rfl, Rat.not_le.1 h2, Rat.not_lt.1 h3⟩

/-- without it NaN is let through (the source as it is; DESIGN §12 #1) -/
theorem discount_nan_counterexample : discountRejected ⟨true, true, false, false, false⟩ .nan = false := by decide

/-- every cell row of an accepted model is a probability vector up to the library tolerance -/
theorem parseCassandra_rows_valid {fl : Flags} {tol : Rat} {k : Kind} {text : Str} {r : Parsed}
    (h : parseCassandra fl tol k text = .ok r) (d1 a : Nat) (h1 : d1 < r.pre.S) (h2 : a < r.pre.A) :
    ∃ qs : List Rat, (List.range r.pre.S).map (fun d3 => tableAt r.st.wT d1 a d3) = qs.map XRat.fin ∧
      (∀ q ∈ qs, 0 ≤ q) ∧ absQ (qs.foldl (· + ·) 0 - 1) ≤ tol := by
  obtain ⟨_, _, hT, _⟩ := parseCassandra_ok_valid h
  unfold rowsOK at hT
  simp only [List.all_eq_true, List.mem_range] at hT
  exact isProbability_sound tol _ (hT d1 h1 a h2)

/-- **The property in one statement (source with the `throw` in place).**  If an entry point accepts a text, then the text is a
    well-formed file of the supported grammar, the constructed tables are exactly the ones its statements define, every transition
    (and observation) row is a probability vector up to the library tolerance, and the discount passed `setDiscount`. -/
theorem parseCassandra_sound {fl : Flags} (hfl : fl.rowLenThrows = true) {tol : Rat} {k : Kind} {text : Str} {r : Parsed}
    (h : parseCassandra fl tol k text = .ok r) :
    (∃ lines sT sR sW, parseModelInfo fl (splitLines text) {} [] = .ok (r.pre, lines) ∧
      FileDenotes fl k r.pre lines 0 sT sR sW ∧
      ∀ d1 a d3,
        tableAt r.st.wT d1 a d3 = specAt sT r.pre.S r.pre.A r.pre.S d1 a d3 ∧
        tableAt r.st.wR d1 a d3 = specAt sR r.pre.S r.pre.A r.pre.S d1 a d3 ∧
        tableAt r.st.wW d1 a d3 = specAt sW r.pre.S r.pre.A r.pre.O d1 a d3) ∧
    discountRejected fl r.pre.disc = false ∧
    rowsOK tol r.st.wT r.pre.S r.pre.A r.pre.S = true ∧
    (k = .pomdp → rowsOK tol r.st.wW r.pre.S r.pre.A r.pre.O = true) := by
  obtain ⟨hp, hd, hT, hW⟩ := parseCassandra_ok_valid h
  obtain ⟨lines, sT, sR, sW, hpre, _, _, _, hfile, htab⟩ := parser_accepts_only_wellformed hfl hp
  exact ⟨⟨lines, sT, sR, sW, hpre, hfile, htab⟩, hd, hT, hW⟩

/-! ## the hypotheses are satisfiable: concrete non-trivial instances (kernel-evaluated tests) -/

/-- a file using names, a wildcard, the matrix form, an inline row overriding it and a reward entry -/
def sampleText : Str :=
  "discount: 0.5\nstates: a b\nactions: go\nT: go\n0.5 0.5\n0 1\nT: * : b 0.25 0.75\nR: go : a : * : * -1\n".toList

example : (match parse ⟨true, true, true, false, false⟩ .mdp sampleText with
    | .ok r => r.pre.S == 2 && r.pre.A == 1 &&
        tableList r.st.wT 2 1 2 == [.fin (1/2), .fin (1/2), .fin (1/4), .fin (3/4)] &&
        tableList r.st.wR 2 1 2 == [.fin (-1), .fin (-1), .fin 0, .fin 0]
    | .error _ => false) = true := by decide +kernel

/-- `FileDenotes` (the hypothesis of `parser_refines_spec`) is inhabited by the sample file -/
example : ∃ p lines sT sR sW, parseModelInfo ⟨true, true, true, false, false⟩ (splitLines sampleText) {} [] = .ok (p, lines) ∧ FileDenotes ⟨true, true, true, false, false⟩ .mdp p lines 0 sT sR sW := by
  have h : (parse ⟨true, true, true, false, false⟩ .mdp sampleText).toOption.isSome = true := by decide +kernel
  rcases h' : parse ⟨true, true, true, false, false⟩ .mdp sampleText with e | r
  · rw [h'] at h; cases h
  · obtain ⟨lines, sT, sR, sW, hpre, _, _, _, hfile, _⟩ := parser_accepts_only_wellformed (fl := ⟨true, true, true, false, false⟩) rfl h'
    exact ⟨r.pre, lines, sT, sR, sW, hpre, hfile⟩

/-- the character-level theorem applies to a concrete line with an unusual layout (hypotheses satisfiable):
    `T :act0:  * : s1    0.25` -/
example : ∃ v, MatrixLine ⟨true, true, true, false, false⟩ 3 2 3 [("act0".toList, 0)] [("s1".toList, 1)] [("s1".toList, 1)]
    ("T".toList ++ renderToks [(" :".toList, "act0".toList), (":  ".toList, "*".toList), (" : ".toList, "s1".toList), ("    ".toList, "0.25".toList)] " ".toList)
    [] ⟨.idx 0, .all, .entry (.idx 1) v⟩ 0 := by
  have hv : (stodS ⟨true, true, true, false, false⟩ "0.25".toList).toOption.isSome = true := by decide +kernel
  rcases hs : stodS ⟨true, true, true, false, false⟩ "0.25".toList with e | v
  · rw [hs] at hv; cases hv
  · refine ⟨v, entry_line_denotes 3 2 3 _ _ _ [] _ _ _ _ _ _ _ _ _ _ (.idx 0) .all (.idx 1) v ?_ ?_ ?_ ?_ ?_ ?_ ?_ ?_ ?_ ?_ ?_ ?_ ?_ hs⟩
    · exact ⟨by decide, by decide⟩
    · exact ⟨by decide, by decide⟩
    · exact ⟨by decide, by decide⟩
    · exact ⟨by decide, by decide⟩
    · exact ⟨by decide, by decide⟩
    · exact ⟨by decide, by decide⟩
    · exact ⟨by decide, by decide⟩
    · exact ⟨by decide, by decide⟩
    · exact ⟨by decide, by decide⟩
    · decide
    · exact Or.inr ⟨by decide, Or.inl ⟨0, by decide, rfl⟩⟩
    · exact Or.inl ⟨rfl, rfl⟩
    · exact Or.inr ⟨by decide, Or.inl ⟨1, by decide, rfl⟩⟩

/-- `MatrixLine` is inhabited by a concrete wildcard/name line -/
example : ∃ s, MatrixLine ⟨true, true, true, false, false⟩ 2 1 2 [("go".toList, 0)] [("b".toList, 1), ("a".toList, 0)] [("b".toList, 1), ("a".toList, 0)]
    "T: * : b 0.25 0.75".toList [] s 0 := by
  have h : (processMatrix ⟨true, true, true, false, false⟩ 2 1 2 [("go".toList, 0)] [("b".toList, 1), ("a".toList, 0)] [("b".toList, 1), ("a".toList, 0)]
      "T: * : b 0.25 0.75".toList []).toOption.map (·.2) = some 0 := by decide +kernel
  rcases h' : processMatrix ⟨true, true, true, false, false⟩ 2 1 2 [("go".toList, 0)] [("b".toList, 1), ("a".toList, 0)] [("b".toList, 1), ("a".toList, 0)]
      "T: * : b 0.25 0.75".toList [] with e | ⟨ws, n⟩
  · rw [h'] at h; cases h
  · rw [h'] at h
    have : n = 0 := by simpa [Except.toOption] using h
    subst this
    exact processMatrix_accepts_only_wellformed rfl h'

end AITB.Cassandra
