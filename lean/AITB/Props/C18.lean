/-
  AITB.Props.C18 — theorems about the Cassandra parser model (see docs/C18.md).
-/
import AITB.Model.Cassandra
import AITB.Gen.Dispatch
namespace AITB.Cassandra

/-- no preamble keyword is a prefix of another one: at most one action of `initMap_` matches a line,
    so the iteration order of the `unordered_map` is irrelevant (test over the finite table) -/
theorem keywords_prefix_free :
    ∀ a ∈ keywords, ∀ b ∈ keywords, a ≠ b → startsWith a b = false := by decide

end AITB.Cassandra
