/- C09 — every policy is a coherent probability distribution over actions (umbrella module).
   a: sums, row validity, dense sampler   b: greedy   c: softmax, epsilon, LRP   d: WoLF, projection, PGA-APP
   e: Thompson kernel   f: swap-and-pop lists, SuccessiveRejects, ESRL   g: TopTwo / T3C kernels
   h: greedy on clustered rows (ties inside the tolerances, large magnitudes), maximum-first repair
   i: Monte-Carlo tables (Thompson / TopTwo / T3C getPolicy, getActionProbability), factored ε-mixture, recommendAction
   j: shift invariance of the bandit selection kernels, EpsilonPolicy over QGreedyPolicy   (x: obligations on Gen.C09, separate module) -/
import AITB.Props.C09a
import AITB.Props.C09b
import AITB.Props.C09c
import AITB.Props.C09d
import AITB.Props.C09e
import AITB.Props.C09f
import AITB.Props.C09g
import AITB.Props.C09h
import AITB.Props.C09i
import AITB.Props.C09j
import AITB.Props.C09k
import AITB.Props.C09l
