/- C09 — every policy is a coherent probability distribution over actions (umbrella module). -/
import AITB.Props.C09a
import AITB.Props.C09b
