/-
  AITB.Props.C03Upper — upper-bound side of C03.

  Reference functions: any `V` on unnormalised beliefs that is sublinear (convex and positively homogeneous, `Sublin`) with `V ≤ H V`
  (`SubSol`).  Every such bounded `V` is dominated by the optimal value (`V ≤ H V ≤ H² V ≤ … ↑ V*`) and `V*` itself is one, so
  "u ≥ V*(b)" is "u ≥ V b for every sublinear sub-solution V (below the start)".  The concrete family the driver evaluates is
  `lowerRef j k` (Props/C03Refs).
-/
import AITB.Props.C03Basic

namespace AITB.POMDP3
open AITB.MDP

/-- convex + positively homogeneous on unnormalised beliefs, depending on the first `S` coordinates only -/
structure Sublin (S : Nat) (V : (Nat → Rat) → Rat) : Prop where
  loc : ∀ x y, (∀ s, s < S → x s = y s) → V x = V y
  subadd : ∀ x y, NN x → NN y → V (fun s => x s + y s) ≤ V x + V y
  homog : ∀ c x, 0 ≤ c → NN x → V (fun s => c * x s) = c * V x

/-- `V ≤ H V` on unnormalised beliefs -/
def SubSol (m : POMDP) (V : (Nat → Rat) → Rat) : Prop := ∀ x, NN x → V x ≤ Hop m V x

theorem Sublin.zero {S : Nat} {V : (Nat → Rat) → Rat} (h : Sublin S V) : V (fun _ => 0) = 0 := by
  have := h.homog 0 (fun _ => 0) (le_refl 0) (fun _ => le_refl 0)
  simpa using this

theorem maxTo_mul_left (n : Nat) (c : Rat) (hc : 0 ≤ c) (f : Nat → Rat) : maxTo n (fun i => c * f i) = c * maxTo n f := by
  apply le_antisymm
  · obtain ⟨i, hi, he⟩ := maxTo_attained n (fun i => c * f i)
    rw [he]
    exact mul_le_mul_of_nonneg_left (maxTo_ge n f i hi) hc
  · obtain ⟨i, hi, he⟩ := maxTo_attained n f
    rw [he]
    exact maxTo_ge n (fun i => c * f i) i hi

theorem maxTo_le_of_le (n : Nat) (f : Nat → Rat) (c : Rat) (h : ∀ i, i ≤ n → f i ≤ c) : maxTo n f ≤ c := by
  obtain ⟨i, hi, he⟩ := maxTo_attained n f
  rw [he]; exact h i hi

theorem maxTo_mono (n : Nat) (f g : Nat → Rat) (h : ∀ i, i ≤ n → f i ≤ g i) : maxTo n f ≤ maxTo n g :=
  maxTo_le_of_le n f _ (fun i hi => le_trans (h i hi) (maxTo_ge n g i hi))

theorem NN_add {x y : Nat → Rat} (hx : NN x) (hy : NN y) : NN (fun s => x s + y s) := fun s => add_nonneg (hx s) (hy s)
theorem NN_smul {c : Rat} {x : Nat → Rat} (hc : 0 ≤ c) (hx : NN x) : NN (fun s => c * x s) := fun s => mul_nonneg hc (hx s)
theorem NN_unit (s : Nat) : NN (unit s) := fun i => by unfold unit; split <;> norm_num
theorem NN_zero : NN (fun _ => 0) := fun _ => le_refl 0

/-- the one-step look-ahead of a fixed action on a sublinear continuation is sublinear -/
theorem Sublin_qval (m : POMDP) (hv : Valid m) (V : (Nat → Rat) → Rat) (hV : Sublin m.S V) (a : Nat) :
    Sublin m.S (fun x => qval m V x a) where
  loc := by
    intro x y h
    unfold qval
    have : rew m x a = rew m y a := by unfold rew; exact sumTo_congr (fun s hs => by rw [h s hs])
    rw [this]
    have e : (fun o => V (bstep m x a o)) = (fun o => V (bstep m y a o)) := by
      funext o; rw [bstep_congr m h a o]
    rw [e]
  subadd := by
    intro x y hx hy
    simp only [qval]
    rw [rew_add]
    have : sumTo m.O (fun o => V (bstep m (fun s => x s + y s) a o))
        ≤ sumTo m.O (fun o => V (bstep m x a o)) + sumTo m.O (fun o => V (bstep m y a o)) := by
      rw [← sumTo_add]
      refine sumTo_le (fun o _ => ?_)
      rw [bstep_add]
      exact hV.subadd _ _ (bstep_nonneg m hv x hx a o) (bstep_nonneg m hv y hy a o)
    have := mul_le_mul_of_nonneg_left this hv.γ0
    linarith
  homog := by
    intro c x hc hx
    simp only [qval]
    rw [rew_smul]
    have : sumTo m.O (fun o => V (bstep m (fun s => c * x s) a o)) = c * sumTo m.O (fun o => V (bstep m x a o)) := by
      rw [← sumTo_mul_left]
      refine sumTo_congr (fun o _ => ?_)
      rw [bstep_smul]
      exact hV.homog c _ hc (bstep_nonneg m hv x hx a o)
    rw [this]; ring

/-- `H` preserves sublinearity -/
theorem Sublin_Hop (m : POMDP) (hv : Valid m) (V : (Nat → Rat) → Rat) (hV : Sublin m.S V) : Sublin m.S (Hop m V) where
  loc := by
    intro x y h
    unfold Hop
    exact maxTo_congr (fun a _ => (Sublin_qval m hv V hV a).loc x y h)
  subadd := by
    intro x y hx hy
    obtain ⟨a, ha, he⟩ := Hop_attained m hv.A0 V (fun s => x s + y s)
    rw [he]
    have := (Sublin_qval m hv V hV a).subadd x y hx hy
    have h1 := qval_le_Hop m hv.A0 V x a ha
    have h2 := qval_le_Hop m hv.A0 V y a ha
    beta_reduce at this
    linarith
  homog := by
    intro c x hc hx
    unfold Hop
    rw [← maxTo_mul_left _ c hc]
    exact maxTo_congr (fun a _ => (Sublin_qval m hv V hV a).homog c x hc hx)

theorem Sublin_iterH (m : POMDP) (hv : Valid m) (V0 : (Nat → Rat) → Rat) (h0 : Sublin m.S V0) (k : Nat) : Sublin m.S (iterH m V0 k) := by
  induction k with
  | zero => exact h0
  | succ k ih => exact Sublin_Hop m hv _ ih

theorem Sublin_linV (S : Nat) (v : Nat → Rat) : Sublin S (linV S v) where
  loc := by intro x y h; unfold linV dotS; exact sumTo_congr (fun s hs => by rw [h s hs])
  subadd := by intro x y _ _; unfold linV; rw [dotS_add_left]
  homog := by intro c x _ _; unfold linV; rw [dotS_smul_left]

theorem Sublin_maxLinV (S n : Nat) (β : Nat → Nat → Rat) : Sublin S (maxLinV S n β) where
  loc := by
    intro x y h; unfold maxLinV
    exact maxTo_congr (fun i _ => by unfold dotS; exact sumTo_congr (fun s hs => by rw [h s hs]))
  subadd := by
    intro x y _ _
    unfold maxLinV
    refine maxTo_le_of_le _ _ _ (fun i hi => ?_)
    rw [dotS_add_left]
    have h1 := maxTo_ge n (fun i => dotS S x (β i)) i hi
    have h2 := maxTo_ge n (fun i => dotS S y (β i)) i hi
    beta_reduce at h1 h2
    linarith
  homog := by
    intro c x hc _
    unfold maxLinV
    rw [← maxTo_mul_left _ c hc]
    exact maxTo_congr (fun i _ => dotS_smul_left S c x (β i))

/-- Jensen for sublinear functions: the value at a non-negative combination of points is at most the combination of the values -/
theorem sublin_combo (S : Nat) (V : (Nat → Rat) → Rat) (hV : Sublin S V) (N : Nat) (w : Nat → Rat) (p : Nat → Nat → Rat)
    (hw : ∀ i, i < N → 0 ≤ w i) (hp : ∀ i, i < N → NN (p i)) :
    V (fun s => sumTo N (fun i => w i * p i s)) ≤ sumTo N (fun i => w i * V (p i)) := by
  induction N with
  | zero =>
    simp only [sumTo]
    rw [hV.zero]
  | succ N ih =>
    simp only [sumTo]
    have hnn : NN (fun s => sumTo N (fun i => w i * p i s)) :=
      fun s => sumTo_nonneg (fun i hi => mul_nonneg (hw i (by omega)) (hp i (by omega) s))
    have h1 := hV.subadd _ _ hnn (NN_smul (hw N (by omega)) (hp N (by omega)))
    have h2 := hV.homog (w N) (p N) (hw N (by omega)) (hp N (by omega))
    have h3 := ih (fun i hi => hw i (by omega)) (fun i hi => hp i (by omega))
    beta_reduce at h1
    linarith

/-- a sublinear function is below the linear interpolation of its corner values -/
theorem sublin_le_corners (S : Nat) (V : (Nat → Rat) → Rat) (hV : Sublin S V) (x : Nat → Rat) (hx : NN x) :
    V x ≤ sumTo S (fun s => x s * V (unit s)) := by
  have h := sublin_combo S V hV S x (fun i => unit i) (fun i _ => hx i) (fun i _ => NN_unit i)
  have e : V (fun s => sumTo S (fun i => x i * unit i s)) = V x := by
    refine hV.loc _ _ (fun s hs => ?_)
    have : sumTo S (fun i => x i * unit i s) = sumTo S (fun i => (if i = s then (1 : Rat) else 0) * x i) := by
      refine sumTo_congr (fun i _ => ?_)
      unfold unit
      by_cases h : i = s
      · subst h; simp
      · have h' : s ≠ i := fun e => h e.symm
        simp [h, h']
    rw [this, sumTo_indicator S x s hs]
  rw [e] at h; exact h

/-- **interp_sound**: for a sublinear `W` (here `W = H V`) whose corner values are below `cv` and whose values at the stored
    points are below `vals`, ANY non-negative weights that reconstruct `x` give an upper bound of `W x`.  LPInterpolation and
    sawtoothInterpolation return such weighted sums (C12: `lpinterp_weights`, `sawtooth_repaired_weights`). -/
theorem interp_sound (S N : Nat) (W : (Nat → Rat) → Rat) (hW : Sublin S W) (cv vals : Nat → Rat) (pts : Nat → Nat → Rat)
    (hcv : ∀ s, s < S → W (unit s) ≤ cv s) (hpts : ∀ i, i < N → NN (pts i) ∧ W (pts i) ≤ vals i)
    (x wc wp : Nat → Rat) (hwc : ∀ s, s < S → 0 ≤ wc s) (hwp : ∀ i, i < N → 0 ≤ wp i)
    (hrec : ∀ s, s < S → x s = wc s + sumTo N (fun i => wp i * pts i s)) :
    W x ≤ sumTo S (fun s => wc s * cv s) + sumTo N (fun i => wp i * vals i) := by
  -- clamp the corner weights outside the first S coordinates
  let wc' : Nat → Rat := fun s => if s < S then wc s else 0
  have hwc' : NN wc' := fun s => by simp only [wc']; split; exact hwc s ‹_›; exact le_refl 0
  have hmix : NN (fun s => sumTo N (fun i => wp i * pts i s)) :=
    fun s => sumTo_nonneg (fun i hi => mul_nonneg (hwp i hi) ((hpts i hi).1 s))
  have e : W x = W (fun s => wc' s + sumTo N (fun i => wp i * pts i s)) :=
    hW.loc _ _ (fun s hs => by simp only [wc', hs, if_true]; exact hrec s hs)
  rw [e]
  have h1 := hW.subadd _ _ hwc' hmix
  have h2 := sublin_le_corners S W hW wc' hwc'
  have h3 := sublin_combo S W hW N wp pts hwp (fun i hi => (hpts i hi).1)
  have h4 : sumTo S (fun s => wc' s * W (unit s)) ≤ sumTo S (fun s => wc s * cv s) :=
    sumTo_le (fun s hs => by
      simp only [wc', hs, if_true]
      exact mul_le_mul_of_nonneg_left (hcv s hs) (hwc s hs))
  have h5 : sumTo N (fun i => wp i * W (pts i)) ≤ sumTo N (fun i => wp i * vals i) :=
    sumTo_le (fun i hi => mul_le_mul_of_nonneg_left (hpts i hi).2 (hwp i hi))
  beta_reduce at h1
  linarith

/-- corner rows of an upper surface are sound w.r.t. `V`: every entry dominates the look-ahead of its action at its corner -/
def QSound (m : POMDP) (V : (Nat → Rat) → Rat) (Q : Nat → Nat → Rat) : Prop :=
  ∀ s, s < m.S → ∀ a, a < m.A → qval m V (unit s) a ≤ Q s a

/-- the plane part of the surface, `max_a x · Q(:,a)`, dominates `H V` -/
theorem Hop_le_basicVal (m : POMDP) (hv : Valid m) (V : (Nat → Rat) → Rat) (hV : Sublin m.S V) (Q : Nat → Nat → Rat)
    (hQ : QSound m V Q) (x : Nat → Rat) (hx : NN x) : Hop m V x ≤ basicVal m.S m.A Q x := by
  obtain ⟨a, ha, he⟩ := Hop_attained m hv.A0 V x
  rw [he]
  have h1 := sublin_le_corners m.S _ (Sublin_qval m hv V hV a) x hx
  beta_reduce at h1
  have h2 : sumTo m.S (fun s => x s * qval m V (unit s) a) ≤ sumTo m.S (fun s => x s * Q s a) :=
    sumTo_le (fun s hs => mul_le_mul_of_nonneg_left (hQ s hs a ha) (hx s))
  have h3 : sumTo m.S (fun s => x s * Q s a) ≤ basicVal m.S m.A Q x :=
    maxTo_ge (m.A - 1) (fun a => sumTo m.S (fun s => x s * Q s a)) a (by omega)
  linarith

/-- **fib_ge_v**: a sound Q-function is an upper bound of every sublinear sub-solution, at every belief -/
theorem fib_ge_v (m : POMDP) (hv : Valid m) (V : (Nat → Rat) → Rat) (hV : Sublin m.S V) (hsub : SubSol m V) (Q : Nat → Nat → Rat)
    (hQ : QSound m V Q) (x : Nat → Rat) (hx : NN x) : V x ≤ basicVal m.S m.A Q x :=
  le_trans (hsub x hx) (Hop_le_basicVal m hv V hV Q hQ x hx)

/-- corner values `max_a Q(s,a)` dominate `H V` at the corners -/
theorem Hop_unit_le_cornerVal (m : POMDP) (hv : Valid m) (V : (Nat → Rat) → Rat) (Q : Nat → Nat → Rat) (hQ : QSound m V Q)
    (s : Nat) (hs : s < m.S) : Hop m V (unit s) ≤ cornerVal m.A Q s := by
  obtain ⟨a, ha, he⟩ := Hop_attained m hv.A0 V (unit s)
  rw [he]
  exact le_trans (hQ s hs a ha) (maxTo_ge (m.A - 1) (Q s) a (by omega))

/-- FastInformedBound step on a SOSA table over `n` pseudo-states that stand for the beliefs `bel i` (GapMin's belief-augmented
    POMDP; the plain FIB is `n = S`, `bel = unit`): if the table reconstructs every successor, `bstep (bel i) a o = Σ_j W(a,o,i,j)·bel j`,
    with non-negative weights, and the rewards are the expected rewards, one step preserves soundness of all rows. -/
theorem fibStepW_sound (m : POMDP) (hv : Valid m) (V : (Nat → Rat) → Rat) (hV : Sublin m.S V) (hsub : SubSol m V)
    (n : Nat) (bel : Nat → Nat → Rat) (hbel : ∀ i, i < n → NN (bel i))
    (R' : Nat → Nat → Rat) (hR : ∀ i, i < n → ∀ a, a < m.A → R' i a = rew m (bel i) a)
    (W : Nat → Nat → Nat → Nat → Rat) (hW0 : ∀ a o i j, 0 ≤ W a o i j)
    (hrec : ∀ a, a < m.A → ∀ o, o < m.O → ∀ i, i < n → ∀ s1, s1 < m.S → bstep m (bel i) a o s1 = sumTo n (fun j => W a o i j * bel j s1))
    (Q : Nat → Nat → Rat) (hQ : ∀ i, i < n → ∀ a, a < m.A → qval m V (bel i) a ≤ Q i a) :
    ∀ i, i < n → ∀ a, a < m.A → qval m V (bel i) a ≤ fibStepW n m.A m.O m.γ R' W Q i a := by
  intro i hi a ha
  unfold fibStepW
  rw [hR i hi a ha]
  unfold qval
  have key : ∀ o, o < m.O → V (bstep m (bel i) a o) ≤ maxTo (m.A - 1) (fun a' => sumTo n (fun j => W a o i j * Q j a')) := by
    intro o ho
    have hy := bstep_nonneg m hv (bel i) (hbel i hi) a o
    refine le_trans (hsub _ hy) ?_
    obtain ⟨a', ha', he⟩ := Hop_attained m hv.A0 V (bstep m (bel i) a o)
    rw [he]
    have hq := Sublin_qval m hv V hV a'
    have e : qval m V (bstep m (bel i) a o) a' = qval m V (fun s1 => sumTo n (fun j => W a o i j * bel j s1)) a' :=
      hq.loc _ _ (fun s1 hs1 => hrec a ha o ho i hi s1 hs1)
    rw [e]
    have h1 := sublin_combo m.S _ hq n (fun j => W a o i j) bel (fun j _ => hW0 a o i j) hbel
    beta_reduce at h1
    have h2 : sumTo n (fun j => W a o i j * qval m V (bel j) a') ≤ sumTo n (fun j => W a o i j * Q j a') :=
      sumTo_le (fun j hj => mul_le_mul_of_nonneg_left (hQ j hj a' ha') (hW0 a o i j))
    have h3 := maxTo_ge (m.A - 1) (fun a' => sumTo n (fun j => W a o i j * Q j a')) a' (by omega)
    beta_reduce at h3
    linarith
  have := mul_le_mul_of_nonneg_left (sumTo_le (f := fun o => V (bstep m (bel i) a o)) key) hv.γ0
  linarith

theorem bstep_unit (m : POMDP) (s a o s1 : Nat) (hs : s < m.S) : bstep m (unit s) a o s1 = m.T s a s1 * m.Ob s1 a o := by
  unfold bstep
  have : sumTo m.S (fun s' => unit s s' * m.T s' a s1) = m.T s a s1 := by
    have := sumTo_indicator m.S (fun s' => m.T s' a s1) s hs
    rw [← this]
    exact sumTo_congr (fun i _ => by unfold unit; by_cases h : i = s <;> simp [h])
  rw [this]

theorem rew_unit (m : POMDP) (s a : Nat) (hs : s < m.S) : rew m (unit s) a = m.R s a := by
  unfold rew
  have := sumTo_indicator m.S (fun s' => m.R s' a) s hs
  rw [← this]
  exact sumTo_congr (fun i _ => by unfold unit; by_cases h : i = s <;> simp [h])

/-- one FastInformedBound step on the POMDP itself preserves soundness of the Q-function -/
theorem fibStep_sound (m : POMDP) (hv : Valid m) (V : (Nat → Rat) → Rat) (hV : Sublin m.S V) (hsub : SubSol m V)
    (Q : Nat → Nat → Rat) (hQ : QSound m V Q) : QSound m V (fibStep m Q) := by
  intro s hs a ha
  unfold fibStep
  refine fibStepW_sound m hv V hV hsub m.S (fun i => unit i) (fun i _ => NN_unit i) m.R
    (fun i hi a _ => (rew_unit m i a hi).symm) (sosa m) (fun a o i j => mul_nonneg (hv.T0 i a j) (hv.O0 j a o)) ?_ Q hQ s hs a ha
  intro a _ o _ i hi s1 hs1
  rw [bstep_unit m i a o s1 hi]
  have := sumTo_indicator m.S (fun j => sosa m a o i j) s1 hs1
  unfold sosa at this ⊢
  rw [← this]
  refine sumTo_congr (fun j _ => ?_)
  unfold unit
  by_cases h : j = s1
  · subst h; simp
  · have h' : ¬ s1 = j := fun e => h e.symm
    simp [h, h']

/-- **qmdp_ge_fib**: started from ordered Q-functions the QMDP step stays above the FIB step -/
theorem qmdp_ge_fib_step (m : POMDP) (hv : Valid m) (F Q : Nat → Nat → Rat) (h : ∀ s, s < m.S → ∀ a, a < m.A → F s a ≤ Q s a) :
    ∀ s, s < m.S → ∀ a, a < m.A → fibStep m F s a ≤ qmdpStep m Q s a := by
  intro s _ a _
  unfold fibStep fibStepW qmdpStep sosa
  have key : sumTo m.O (fun o => maxTo (m.A - 1) (fun a' => sumTo m.S (fun j => m.T s a j * m.Ob j a o * F j a')))
      ≤ sumTo m.S (fun s1 => m.T s a s1 * maxTo (m.A - 1) (Q s1)) := by
    have h1 : ∀ o, o < m.O → maxTo (m.A - 1) (fun a' => sumTo m.S (fun j => m.T s a j * m.Ob j a o * F j a'))
        ≤ sumTo m.S (fun j => m.T s a j * m.Ob j a o * maxTo (m.A - 1) (Q j)) := by
      intro o _
      refine maxTo_le_of_le _ _ _ (fun a' ha' => sumTo_le (fun j hj => ?_))
      have : F j a' ≤ maxTo (m.A - 1) (Q j) := le_trans (h j hj a' (by have := hv.A0; omega)) (maxTo_ge _ (Q j) a' ha')
      exact mul_le_mul_of_nonneg_left this (mul_nonneg (hv.T0 s a j) (hv.O0 j a o))
    refine le_trans (sumTo_le h1) (le_of_eq ?_)
    rw [sumTo_comm]
    refine sumTo_congr (fun j hj => ?_)
    have : sumTo m.O (fun o => m.T s a j * m.Ob j a o * maxTo (m.A - 1) (Q j))
        = m.T s a j * maxTo (m.A - 1) (Q j) * sumTo m.O (m.Ob j a) := by
      rw [← sumTo_mul_left]; exact sumTo_congr (fun o _ => by ring)
    rw [this, hv.O1 j a hj, mul_one]
  have := mul_le_mul_of_nonneg_left key hv.γ0
  linarith

theorem qmdp_ge_fib (m : POMDP) (hv : Valid m) (F Q : Nat → Nat → Rat) (h : ∀ s, s < m.S → ∀ a, a < m.A → F s a ≤ Q s a) (k : Nat) :
    ∀ s, s < m.S → ∀ a, a < m.A → Nat.iterate (fibStep m) k F s a ≤ Nat.iterate (qmdpStep m) k Q s a := by
  induction k generalizing F Q with
  | zero => exact h
  | succ k ih => exact ih _ _ (qmdp_ge_fib_step m hv F Q h)

/-- **promisingBackup_upper**: the per-action value of bestPromisingAction dominates the look-ahead on `V` when every interpolated
    successor value dominates `V` there and skipped successors have non-positive `V` (e.g. exactly zero mass) -/
theorem promisingVal_ge_qval (m : POMDP) (hv : Valid m) (V : (Nat → Rat) → Rat) (x : Nat → Rat) (a : Nat) (skip : Nat → Bool) (iv : Nat → Rat)
    (h : ∀ o, o < m.O → if skip o then V (bstep m x a o) ≤ 0 else V (bstep m x a o) ≤ iv o) :
    qval m V x a ≤ promisingVal m x a skip iv := by
  unfold qval promisingVal
  have : sumTo m.O (fun o => V (bstep m x a o)) ≤ sumTo m.O (fun o => if skip o then 0 else iv o) :=
    sumTo_le (fun o ho => by have := h o ho; split <;> simp_all)
  have := mul_le_mul_of_nonneg_left this hv.γ0
  linarith

theorem promisingBackup_upper (m : POMDP) (hv : Valid m) (V : (Nat → Rat) → Rat) (x : Nat → Rat)
    (skip : Nat → Nat → Bool) (iv : Nat → Nat → Rat)
    (h : ∀ a, a < m.A → ∀ o, o < m.O → if skip a o then V (bstep m x a o) ≤ 0 else V (bstep m x a o) ≤ iv a o) :
    Hop m V x ≤ maxTo (m.A - 1) (fun a => promisingVal m x a (skip a) (iv a)) := by
  obtain ⟨a, ha, he⟩ := Hop_attained m hv.A0 V x
  rw [he]
  exact le_trans (promisingVal_ge_qval m hv V x a (skip a) (iv a) (h a ha))
    (maxTo_ge (m.A - 1) (fun a => promisingVal m x a (skip a) (iv a)) a (by omega))

end AITB.POMDP3
