/-
  AITB.Props.C05RoundP — rounding enclosure for the library's own `P(o | b, a)`
  (`POMDP::SparseModel::getObservationProbability(b, o, a)`): one accumulator over up to S·S terms, each term the
  product of three factors (two rounded multiplications).  Under the standard floating-point model the computed
  value lies within `(1 ± u)^(S·S + 2)` of the exact `P(o | b, a)`, for all S — so the harness's relative 1e-9 on the
  non-dyadic streams is sound for S·S + 2 ≤ 10^6 by `tolerance_sound`'s argument.
-/
import AITB.Props.C05Round
import AITB.Props.C05Load
set_option linter.unusedVariables false
namespace AITB.Belief

/-- `for s1: p = rnd(p + term(s1))`, continuing from `acc` -/
def flAddTo (rnd : Rat → Rat) (acc : Rat) : Nat → (Nat → Rat) → Rat
  | 0, _ => acc
  | n+1, f => rnd (flAddTo rnd acc n f + f n)

/-- the loop of `getObservationProbability(b, o, a)` with every arithmetic result rounded -/
def obsProbLoopFl (rnd : Rat → Rat) (m : POMDP) (b : Vec) (a o : Nat) : Nat → Rat
  | 0 => 0
  | s+1 =>
    if b s = 0 then obsProbLoopFl rnd m b a o s
    else flAddTo rnd (obsProbLoopFl rnd m b a o s) m.S (fun s1 => rnd (rnd (b s * m.T s a s1) * m.Ob s1 a o))

def obsProbFl (rnd : Rat → Rat) (m : POMDP) (b : Vec) (a o : Nat) : Rat := obsProbLoopFl rnd m b a o m.S

/-- continuing a rounded accumulation: if the accumulator is within `(1±u)^j` of `A` and every term within `(1±u)^k` of `g i`,
    `k ≤ j`, then after `n` more additions it is within `(1±u)^(j+n)` of `A + Σ g` -/
theorem flAddTo_bounds {rnd : Rat → Rat} {u : Rat} (h : StdRounding rnd u) (acc A : Rat) (j k : Nat) (hkj : k ≤ j)
    (hA : 0 ≤ A) (hacc_lo : (1 - u) ^ j * A ≤ acc) (hacc_hi : acc ≤ (1 + u) ^ j * A) :
    ∀ (n : Nat) (f g : Nat → Rat), (∀ i, i < n → 0 ≤ g i) →
      (∀ i, i < n → (1 - u) ^ k * g i ≤ f i) → (∀ i, i < n → f i ≤ (1 + u) ^ k * g i) →
      (1 - u) ^ (j + n) * (A + sumTo n g) ≤ flAddTo rnd acc n f ∧ flAddTo rnd acc n f ≤ (1 + u) ^ (j + n) * (A + sumTo n g)
  | 0, f, g, _, _, _ => by simpa [flAddTo, sumTo] using ⟨hacc_lo, hacc_hi⟩
  | n+1, f, g, hg, hlo, hhi => by
    have hu0 := h.u_nonneg
    have hu1 := h.u_le_one
    obtain ⟨ilo, ihi⟩ := flAddTo_bounds h acc A j k hkj hA hacc_lo hacc_hi n f g
      (fun i hi => hg i (Nat.lt_succ_of_lt hi)) (fun i hi => hlo i (Nat.lt_succ_of_lt hi)) (fun i hi => hhi i (Nat.lt_succ_of_lt hi))
    have hgn := hg n (Nat.lt_succ_self n)
    have hsg : 0 ≤ sumTo n g := sumTo_nonneg (fun i hi => hg i (Nat.lt_succ_of_lt hi))
    have hfn_lo := hlo n (Nat.lt_succ_self n)
    have hfn_hi := hhi n (Nat.lt_succ_self n)
    have hk_lo : (1 - u) ^ (j + n) ≤ (1 - u) ^ k := pow_mono_lo hu0 hu1 (by omega)
    have hk_hi : (1 + u) ^ k ≤ (1 + u) ^ (j + n) := pow_mono_hi hu0 (by omega)
    have hpl : 0 ≤ (1 - u) ^ (j + n) := pow_nonneg (by linarith) _
    have h2lo : (1 - u) ^ (j + n) * (A + (sumTo n g + g n)) ≤ flAddTo rnd acc n f + f n := by
      have : (1 - u) ^ (j + n) * g n ≤ (1 - u) ^ k * g n := mul_le_mul_of_nonneg_right hk_lo hgn
      have e : (1 - u) ^ (j + n) * (A + (sumTo n g + g n)) = (1 - u) ^ (j + n) * (A + sumTo n g) + (1 - u) ^ (j + n) * g n := by ring
      rw [e]; linarith
    have h2hi : flAddTo rnd acc n f + f n ≤ (1 + u) ^ (j + n) * (A + (sumTo n g + g n)) := by
      have : (1 + u) ^ k * g n ≤ (1 + u) ^ (j + n) * g n := mul_le_mul_of_nonneg_right hk_hi hgn
      have e : (1 + u) ^ (j + n) * (A + (sumTo n g + g n)) = (1 + u) ^ (j + n) * (A + sumTo n g) + (1 + u) ^ (j + n) * g n := by ring
      rw [e]; linarith
    have hx : 0 ≤ flAddTo rnd acc n f + f n :=
      le_trans (mul_nonneg hpl (by linarith)) h2lo
    simp only [flAddTo, sumTo]
    have e1 : (1 - u) ^ (j + (n + 1)) = (1 - u) * (1 - u) ^ (j + n) := by
      rw [show j + (n + 1) = (j + n) + 1 by omega, pow_succ]; ring
    have e2 : (1 + u) ^ (j + (n + 1)) = (1 + u) * (1 + u) ^ (j + n) := by
      rw [show j + (n + 1) = (j + n) + 1 by omega, pow_succ]; ring
    constructor
    · calc (1 - u) ^ (j + (n + 1)) * (A + (sumTo n g + g n))
          = (1 - u) * ((1 - u) ^ (j + n) * (A + (sumTo n g + g n))) := by rw [e1]; ring
        _ ≤ (1 - u) * (flAddTo rnd acc n f + f n) := mul_le_mul_of_nonneg_left h2lo (by linarith)
        _ ≤ rnd (flAddTo rnd acc n f + f n) := h.lo _ hx
    · calc rnd (flAddTo rnd acc n f + f n) ≤ (1 + u) * (flAddTo rnd acc n f + f n) := h.hi _ hx
        _ ≤ (1 + u) * ((1 + u) ^ (j + n) * (A + (sumTo n g + g n))) := mul_le_mul_of_nonneg_left h2hi (by linarith)
        _ = (1 + u) ^ (j + (n + 1)) * (A + (sumTo n g + g n)) := by rw [e2]; ring

/-- exact partial sums of the double loop -/
def probOUpTo (m : POMDP) (b : Vec) (a o : Nat) (n : Nat) : Rat :=
  sumTo n (fun s => b s * sumTo m.S (fun s1 => m.T s a s1 * m.Ob s1 a o))

theorem obsProbLoopFl_bounds {rnd : Rat → Rat} {u : Rat} (h : StdRounding rnd u) {m : POMDP} (hm : NonnegModel m)
    {b : Vec} (hb : ∀ s, s < m.S → 0 ≤ b s) {a o : Nat} (ha : a < m.A) (ho : o < m.O) :
    ∀ n, n ≤ m.S →
      (1 - u) ^ (2 + n * m.S) * probOUpTo m b a o n ≤ obsProbLoopFl rnd m b a o n ∧
      obsProbLoopFl rnd m b a o n ≤ (1 + u) ^ (2 + n * m.S) * probOUpTo m b a o n
  | 0, _ => by simp [obsProbLoopFl, probOUpTo, sumTo]
  | n+1, hn => by
    have hu0 := h.u_nonneg
    have hu1 := h.u_le_one
    have hnS : n < m.S := hn
    obtain ⟨ilo, ihi⟩ := obsProbLoopFl_bounds h hm hb ha ho n (Nat.le_of_lt hnS)
    have hrow : ∀ s1, s1 < m.S → 0 ≤ b n * m.T n a s1 * m.Ob s1 a o := fun s1 hs1 =>
      mul_nonneg (mul_nonneg (hb n hnS) (hm.T_nonneg n a s1 hnS ha hs1)) (hm.O_nonneg s1 a o hs1 ha ho)
    have hA : 0 ≤ probOUpTo m b a o n := sumTo_nonneg (fun s hs => mul_nonneg (hb s (lt_trans hs hnS))
      (sumTo_nonneg (fun s1 hs1 => mul_nonneg (hm.T_nonneg s a s1 (lt_trans hs hnS) ha hs1) (hm.O_nonneg s1 a o hs1 ha ho))))
    have hstep : probOUpTo m b a o (n + 1) = probOUpTo m b a o n + sumTo m.S (fun s1 => b n * m.T n a s1 * m.Ob s1 a o) := by
      unfold probOUpTo
      simp only [sumTo]
      congr 1
      rw [← sumTo_mul_left]
      exact sumTo_congr (fun s1 _ => by ring)
    have hexp : 2 + (n + 1) * m.S = (2 + n * m.S) + m.S := by ring
    simp only [obsProbLoopFl]
    split
    · -- row skipped: exact partial sum unchanged, exponent only grows
      rename_i hz
      have hsame : probOUpTo m b a o (n + 1) = probOUpTo m b a o n := by
        rw [hstep]
        have : sumTo m.S (fun s1 => b n * m.T n a s1 * m.Ob s1 a o) = 0 := by
          rw [sumTo_congr (g := fun _ => 0) (fun s1 _ => by rw [hz]; ring), sumTo_zero]
        rw [this, add_zero]
      rw [hsame, hexp]
      constructor
      · exact le_trans (mul_le_mul_of_nonneg_right (pow_mono_lo hu0 hu1 (Nat.le_add_right _ _)) hA) ilo
      · exact le_trans ihi (mul_le_mul_of_nonneg_right (pow_mono_hi hu0 (Nat.le_add_right _ _)) hA)
    · -- row accumulated: each term is rounded twice
      have hterm_lo : ∀ s1, s1 < m.S → (1 - u) ^ 2 * (b n * m.T n a s1 * m.Ob s1 a o)
          ≤ rnd (rnd (b n * m.T n a s1) * m.Ob s1 a o) := by
        intro s1 hs1
        have h0 : 0 ≤ b n * m.T n a s1 := mul_nonneg (hb n hnS) (hm.T_nonneg n a s1 hnS ha hs1)
        have hO := hm.O_nonneg s1 a o hs1 ha ho
        have h1 := h.lo _ h0
        have h2 : 0 ≤ rnd (b n * m.T n a s1) * m.Ob s1 a o := mul_nonneg (h.nonneg h0) hO
        have h3 := h.lo _ h2
        have h4 : (1 - u) * (b n * m.T n a s1) * m.Ob s1 a o ≤ rnd (b n * m.T n a s1) * m.Ob s1 a o :=
          mul_le_mul_of_nonneg_right h1 hO
        calc (1 - u) ^ 2 * (b n * m.T n a s1 * m.Ob s1 a o)
            = (1 - u) * ((1 - u) * (b n * m.T n a s1) * m.Ob s1 a o) := by ring
          _ ≤ (1 - u) * (rnd (b n * m.T n a s1) * m.Ob s1 a o) := mul_le_mul_of_nonneg_left h4 (by linarith)
          _ ≤ _ := h3
      have hterm_hi : ∀ s1, s1 < m.S → rnd (rnd (b n * m.T n a s1) * m.Ob s1 a o)
          ≤ (1 + u) ^ 2 * (b n * m.T n a s1 * m.Ob s1 a o) := by
        intro s1 hs1
        have h0 : 0 ≤ b n * m.T n a s1 := mul_nonneg (hb n hnS) (hm.T_nonneg n a s1 hnS ha hs1)
        have hO := hm.O_nonneg s1 a o hs1 ha ho
        have h1 := h.hi _ h0
        have h2 : 0 ≤ rnd (b n * m.T n a s1) * m.Ob s1 a o := mul_nonneg (h.nonneg h0) hO
        have h3 := h.hi _ h2
        have h4 : rnd (b n * m.T n a s1) * m.Ob s1 a o ≤ (1 + u) * (b n * m.T n a s1) * m.Ob s1 a o :=
          mul_le_mul_of_nonneg_right h1 hO
        calc rnd (rnd (b n * m.T n a s1) * m.Ob s1 a o) ≤ (1 + u) * (rnd (b n * m.T n a s1) * m.Ob s1 a o) := h3
          _ ≤ (1 + u) * ((1 + u) * (b n * m.T n a s1) * m.Ob s1 a o) := mul_le_mul_of_nonneg_left h4 (by linarith)
          _ = (1 + u) ^ 2 * (b n * m.T n a s1 * m.Ob s1 a o) := by ring
      have := flAddTo_bounds h (obsProbLoopFl rnd m b a o n) (probOUpTo m b a o n) (2 + n * m.S) 2 (by omega) hA ilo ihi
        m.S (fun s1 => rnd (rnd (b n * m.T n a s1) * m.Ob s1 a o)) (fun s1 => b n * m.T n a s1 * m.Ob s1 a o) hrow hterm_lo hterm_hi
      rw [hstep, hexp]
      exact this

/-- `getObservationProbability(b, o, a)` computed in floating point lies within `(1 ± u)^(S·S+2)` of the exact `P(o | b, a)`, all S -/
theorem obsProbFl_enclosure {rnd : Rat → Rat} {u : Rat} (h : StdRounding rnd u) {m : POMDP} (hm : NonnegModel m)
    {b : Vec} (hb : ∀ s, s < m.S → 0 ≤ b s) {a o : Nat} (ha : a < m.A) (ho : o < m.O) :
    (1 - u) ^ (m.S * m.S + 2) * probO m b a o ≤ obsProbFl rnd m b a o ∧
    obsProbFl rnd m b a o ≤ (1 + u) ^ (m.S * m.S + 2) * probO m b a o := by
  have := obsProbLoopFl_bounds h hm hb ha ho m.S (le_refl _)
  rw [show 2 + m.S * m.S = m.S * m.S + 2 by ring] at this
  exact this

/-! ## the two-stage helpers on the loop branch perform the SAME operations in the SAME order as the one-stage helper -/

/-- loop branch of `updateBeliefPartial`, every result rounded: `br[s1] = 0.0; for s: br[s1] = rnd(br[s1] + rnd(T(s,a,s1) * b[s]))` -/
def predictFl (rnd : Rat → Rat) (m : POMDP) (b : Vec) (a : Nat) : Vec :=
  fun s1 => flSumTo rnd m.S (fun s => rnd (m.T s a s1 * b s))

/-- loop branch of `updateBeliefPartialUnnormalized`, rounded: `br[s] = rnd(O(s,a,o) * b[s])` -/
def partialUnnormFl (rnd : Rat → Rat) (m : POMDP) (p : Vec) (a o : Nat) : Vec :=
  fun s => rnd (m.Ob s a o * p s)

/-- whatever the rounding function (no assumption at all), predict-then-correct returns bit for bit what `updateBeliefUnnormalized` returns on
    the loop branch: the driver therefore compares the two with `==` on every stream for the `generic` representation -/
theorem two_stage_fl_eq (rnd : Rat → Rat) (m : POMDP) (b : Vec) (a o : Nat) :
    partialUnnormFl rnd m (predictFl rnd m b a) a o = unnormFl rnd m b a o := rfl

/-- … and `updateBeliefPartialNormalized ∘ updateBeliefPartial` = `updateBelief` likewise (the same division by the same rounded sum) -/
theorem two_stage_normalized_fl_eq (rnd : Rat → Rat) (m : POMDP) (b : Vec) (a o : Nat) (s1 : Nat) :
    rnd (partialUnnormFl rnd m (predictFl rnd m b a) a o s1 / flSumTo rnd m.S (partialUnnormFl rnd m (predictFl rnd m b a) a o))
      = rnd (unnormFl rnd m b a o s1 / flSumTo rnd m.S (unnormFl rnd m b a o)) := rfl

/-- the hypotheses are satisfiable: exact arithmetic is a `StdRounding` with `u = 0`, and then the enclosure collapses to equality -/
example : obsProbFl id exM exB 0 0 = probO exM exB 0 0 := by
  have hid : StdRounding id 0 := ⟨le_refl _, by norm_num, fun x _ => by simp, fun x _ => by simp⟩
  have := obsProbFl_enclosure hid exM_valid.toNonnegModel exB_belief.nonneg (a := 0) (o := 0) (by decide) (by decide)
  simp at this
  exact le_antisymm this.2 this.1

end AITB.Belief
