/-
  AITB.Props.C12 — "Pruning preserves the value surface; bound interpolation is exact".

  This file states the top-level theorems of the property about the model of `Pruner::operator()`
  (include/AIToolbox/Utils/Prune.hpp), assembled from
    * AITB.Props.C12Prune   extractDominated / extractDominatedIncremental (permutation, domination chains,
                            envelope within n·δ, antichain for transitive tests, incremental = union)
    * AITB.Props.C12Pruner  findBest is an argmax, corner extraction, the witness-LP loop against an oracle contract
    * AITB.Props.C12Cert    soundness of the certificate checkers the driver evaluates (Farkas, witness, weak duality)
    * AITB.Props.C12Interp  the interpolation models (sawtooth bounds, weights, as-found counterexamples)
  All statements hold for every number of vectors and every dimension.
-/
import AITB.Props.C12Prune
import AITB.Props.C12Pruner

namespace AITB.Prune

section pruner
variable (dom : Vec → Vec → Bool) (oracle : List Vec → Vec → Option Vec)

/-- **pruner_spec, clause 1 (sub-multiset).**  `Pruner::operator()` only permutes the array: kept range ++ rest
    is a permutation of the input, so the kept range is a sub-multiset of the input. -/
theorem pruner_perm (S : Nat) (xs : List Vec) :
    List.Perm ((pruner dom oracle S xs).1 ++ (pruner dom oracle S xs).2) xs := by
  have h0 := extractDominated_perm dom xs
  unfold pruner
  by_cases hlt : (extractDominated dom xs).1.length < 2
  · simp only [hlt, if_true]; exact h0
  · simp only [hlt, if_false]
    have hne : ([] : List Vec) ++ (extractDominated dom xs).1 ≠ [] := by
      intro h; simp at h; rw [h] at hlt; simp at hlt
    have hc := cornersLoop_perm (List.range S) [] (extractDominated dom xs).1 hne
    have hp := prunerLoop_perm oracle (cornersLoop (List.range S) [] (extractDominated dom xs).1).2.length
      (cornersLoop (List.range S) [] (extractDominated dom xs).1).1
      (cornersLoop (List.range S) [] (extractDominated dom xs).1).2 [] (Nat.le_refl _)
    simp only [List.append_nil, List.nil_append] at hc hp
    rw [← List.append_assoc]
    exact ((hp.trans hc).append_right _).trans h0

/-- **pruner_spec, clause 2 (envelope).**  If one `dom` link costs at most `δ` at every belief and the witness oracle
    answers `none` only when the candidate is within `ε` of the envelope of the rows it was given, then at every
    belief every input vector is within `n·δ + ε` of some kept vector: the upper envelope of the kept set is the
    upper envelope of the input up to that slack (exactly, when `δ = ε = 0`). -/
theorem pruner_envelope (n : Nat) (δ ε : Rat) (hδ : 0 ≤ δ) (hε : 0 ≤ ε)
    (hdom : ∀ a b, dom a b = true → ∀ bel, IsBelief n bel → dot bel b ≤ dot bel a + δ)
    (hnone : ∀ best v, oracle best v = none → ∀ b, IsBelief n b → ∃ g ∈ best, dot b v ≤ dot b g + ε)
    (S : Nat) (xs : List Vec) :
    ∀ bel, IsBelief n bel → ∀ x ∈ xs, ∃ g ∈ (pruner dom oracle S xs).1,
      dot bel x ≤ dot bel g + (xs.length : Rat) * δ + ε := by
  intro bel hbel x hx
  obtain ⟨g0, hg0, hle0⟩ := extractDominated_value dom (fun v => dot bel v) δ hδ
    (fun a b h => hdom a b h bel hbel) xs x hx
  unfold pruner
  by_cases hlt : (extractDominated dom xs).1.length < 2
  · simp only [hlt, if_true]; exact ⟨g0, hg0, by linarith⟩
  · simp only [hlt, if_false]
    have hne : ([] : List Vec) ++ (extractDominated dom xs).1 ≠ [] := by
      intro h; simp at h; rw [h] at hlt; simp at hlt
    have hc := cornersLoop_perm (List.range S) [] (extractDominated dom xs).1 hne
    simp only [List.nil_append] at hc
    have hmem : g0 ∈ (cornersLoop (List.range S) [] (extractDominated dom xs).1).1 ++
        (cornersLoop (List.range S) [] (extractDominated dom xs).1).2 := hc.mem_iff.mpr hg0
    rcases List.mem_append.mp hmem with h1 | h2
    · exact ⟨g0, prunerLoop_best_mono oracle _ _ _ _ g0 h1, by linarith⟩
    · rcases prunerLoop_envelope oracle n ε hnone _ _ _ [] (Nat.le_refl _) g0 h2 with hk | henv
      · exact ⟨g0, hk, by linarith⟩
      · obtain ⟨g, hg, hle⟩ := henv bel hbel
        exact ⟨g, hg, by linarith⟩

/-- **pruner_spec, clause 3 (no vector that is nowhere needed).**  If the witness oracle answers `some w` only with a
    belief at which the candidate is strictly above all rows it was given, then every kept vector attains the
    maximum of the kept set at some belief (a simplex corner for those found by `extractBestAtSimplexCorners`,
    the oracle's witness point for the others).  Needs `S ≤ n` (the corners inspected are corners of the simplex)
    and `0 < n`. -/
theorem pruner_witness (n : Nat) (hn : 0 < n)
    (hsome : ∀ best v w, oracle best v = some w → IsBelief n w ∧ ∀ g ∈ best, dot w g < dot w v)
    (S : Nat) (hS : S ≤ n) (xs : List Vec) :
    ∀ g ∈ (pruner dom oracle S xs).1, ∃ w, IsBelief n w ∧ ∀ g' ∈ (pruner dom oracle S xs).1, dot w g' ≤ dot w g := by
  unfold pruner
  by_cases hlt : (extractDominated dom xs).1.length < 2
  · simp only [hlt, if_true]
    intro g hg
    refine ⟨unitVec n 0, unitVec_isBelief n 0 hn, fun g' hg' => ?_⟩
    -- fewer than two kept vectors: g' = g
    have : g' = g := by
      match hk : (extractDominated dom xs).1, hlt, hg, hg' with
      | [], _, hg, _ => simp at hg
      | [a], _, hg, hg' => simp at hg hg'; rw [hg, hg']
      | _ :: _ :: _, hlt, _, _ => simp at hlt; omega
    rw [this]
  · simp only [hlt, if_false]
    have hne : ([] : List Vec) ++ (extractDominated dom xs).1 ≠ [] := by
      intro h; simp at h; rw [h] at hlt; simp at hlt
    have hc := cornersLoop_perm (List.range S) [] (extractDominated dom xs).1 hne
    simp only [List.nil_append] at hc
    intro g hg
    rcases prunerLoop_witness oracle n hsome _ _ _ [] (Nat.le_refl _) g hg with hb | hw
    · -- found at a corner: best among the whole array, which contains every finally kept vector
      rcases cornersLoop_witness_belief n (List.range S) [] (extractDominated dom xs).1 hne
          (fun s hs => Nat.lt_of_lt_of_le (List.mem_range.mp hs) hS) g hb with hnil | ⟨w, hw, hmax⟩
      · simp at hnil
      · refine ⟨w, hw, fun g' hg' => hmax g' ?_⟩
        simp only [List.nil_append]
        exact hc.mem_iff.mp (prunerLoop_best_sub oracle _ _ _ [] g' hg')
    · exact hw

end pruner

end AITB.Prune
