/-
  AITB.Props.C12 — "Pruning preserves the value surface; bound interpolation is exact".
-/
import AITB.Props.C12Defs
import AITB.Model.C12Check
