/-
  AITB.Props.C20a — structural lemmas about the Trie model: the visits of insert / erase(id,pf),
  cell-level effect of a fold of visits, shape invariant.  Core Lean only.
-/
import AITB.Model.Trie
namespace AITB.Trie

/-- keys strictly ascending and all ≥ lo -/
def KeysAsc : Nat → PF → Prop
  | _, [] => True
  | lo, (k, _) :: r => lo ≤ k ∧ KeysAsc (k + 1) r

theorem lookup_none_of_lt {lo : Nat} {pf : PF} (h : KeysAsc lo pf) {i : Nat} (hi : i < lo) : lookup pf i = none := by
  induction pf generalizing lo with
  | nil => rfl
  | cons kv r ih =>
    obtain ⟨k, v⟩ := kv
    simp only [KeysAsc] at h
    simp only [lookup]
    rw [if_neg (by omega)]
    exact ih h.2 (by omega)

theorem range'_split (lo k n : Nat) (h1 : lo ≤ k) (h2 : k < n) :
    List.range' lo (n - lo) = List.range' lo (k - lo) ++ k :: List.range' (k + 1) (n - (k + 1)) := by
  have e : n - lo = (k - lo) + ((n - (k + 1)) + 1) := by omega
  rw [e, ← List.range'_append_1, List.range'_succ]
  have : lo + (k - lo) = k := by omega
  rw [this]

/-- the visits of the two loops of `insert` / `erase(id,pf)` are: every factor once, in order,
    at the value the key gives it or at the unnamed list -/
theorem walk_spec (n : Nat) (pf : PF) (lo : Nat) (h : KeysAsc lo pf) (hk : ∀ kv ∈ pf, kv.1 < n) (hlo : lo ≤ n) :
    (walkKeys lo pf).1 ++ walkTail n (walkKeys lo pf).2 = (List.range' lo (n - lo)).map (fun i => (i, lookup pf i)) := by
  induction pf generalizing lo with
  | nil => simp [walkKeys, walkTail, lookup]
  | cons kv r ih =>
    obtain ⟨k, v⟩ := kv
    simp only [KeysAsc] at h
    have hkn : k < n := hk (k, v) (List.mem_cons_self ..)
    have hmax : max lo k = k := Nat.max_eq_right h.1
    simp only [walkKeys, hmax]
    rw [List.append_assoc, List.cons_append, ih (k + 1) h.2 (fun kv hkv => hk kv (List.mem_cons_of_mem _ hkv)) (by omega)]
    rw [range'_split lo k n h.1 hkn, List.map_append, List.map_cons]
    congr 1
    · apply List.map_congr_left
      intro i hi
      simp only [List.mem_range'_1] at hi
      simp only [lookup]
      rw [if_neg (by omega), lookup_none_of_lt h.2 (by omega)]
    · congr 1
      · simp [lookup]
      · apply List.map_congr_left
        intro i hi
        simp only [List.mem_range'_1] at hi
        simp only [lookup]
        rw [if_neg (by omega)]


/-- shape of `ids_`: one row per factor, `F[i] + 1` lists in row `i` -/
def Shape (F : List Nat) (ids : Ids) : Prop :=
  ids.length = F.length ∧ ∀ i, i < F.length → (row ids i).length = F.getD i 0 + 1

theorem getD_modify {α} (l : List α) (i j : Nat) (f : α → α) (d : α) :
    (l.modify i f).getD j d = if i = j ∧ j < l.length then f (l.getD j d) else l.getD j d := by
  simp only [List.getD_eq_getElem?_getD, List.getElem?_modify]
  by_cases hj : j < l.length
  · rw [List.getElem?_eq_getElem hj]
    by_cases hij : i = j <;> simp [hij, hj]
  · rw [List.getElem?_eq_none (by omega)]
    simp [hj]

theorem row_modCell (ids : Ids) (i s : Nat) (f : List Nat → List Nat) (i' : Nat) :
    row (modCell ids i s f) i' = if i = i' ∧ i' < ids.length then (row ids i').modify s f else row ids i' := by
  simp only [row, modCell, getD_modify]

theorem cell_modCell (ids : Ids) (i s : Nat) (f : List Nat → List Nat) (i' s' : Nat) :
    cell (modCell ids i s f) i' s' =
      if i = i' ∧ s = s' ∧ i' < ids.length ∧ s' < (row ids i').length then f (cell ids i' s') else cell ids i' s' := by
  simp only [cell, row_modCell]
  by_cases h : i = i' ∧ i' < ids.length
  · rw [if_pos h, getD_modify]
    by_cases h2 : s = s' ∧ s' < (row ids i').length
    · rw [if_pos h2, if_pos ⟨h.1, h2.1, h.2, h2.2⟩]
    · rw [if_neg h2, if_neg (fun hh => h2 ⟨hh.2.1, hh.2.2.2⟩)]
  · rw [if_neg h, if_neg (fun hh => h ⟨hh.1, hh.2.2.1⟩)]

theorem shape_modCell {F : List Nat} {ids : Ids} (h : Shape F ids) (i s : Nat) (f : List Nat → List Nat) :
    Shape F (modCell ids i s f) := by
  refine ⟨by simp [modCell, h.1], fun i' hi' => ?_⟩
  rw [row_modCell]
  split
  · rw [List.length_modify]; exact h.2 i' hi'
  · exact h.2 i' hi'

/-- slot of a visit under the shape invariant -/
def slotOf (F : List Nat) (i : Nat) (o : Option Nat) : Nat := o.getD (F.getD i 0)

theorem slotIdx_eq {F : List Nat} {ids : Ids} (h : Shape F ids) {i : Nat} (hi : i < F.length) (o : Option Nat) :
    slotIdx ids i o = slotOf F i o := by
  cases o with
  | some v => rfl
  | none => simp [slotIdx, slotOf, backIdx, h.2 i hi]

/-- generic visit: apply `g` to the visited slot -/
def applyAt (g : List Nat → List Nat) (ids : Ids) (vis : Nat × Option Nat) : Ids :=
  modCell ids vis.1 (slotIdx ids vis.1 vis.2) g

theorem pushAt_eq (c : Nat) : pushAt c = applyAt (fun l => l ++ [c]) := rfl
theorem eraseAt_eq (id : Nat) : eraseAt id = applyAt (fun l => (eraseLB id l).1) := rfl

/-- visiting factors `lo .. lo+m-1` once each applies `g` to exactly the visited slots -/
theorem fold_applyAt (F : List Nat) (g : List Nat → List Nat) (o : Nat → Option Nat)
    (ho : ∀ i, i < F.length → slotOf F i (o i) ≤ F.getD i 0) (m lo : Nat) (ids : Ids)
    (h : Shape F ids) (hm : lo + m ≤ F.length) :
    Shape F (((List.range' lo m).map (fun i => (i, o i))).foldl (applyAt g) ids) ∧
    ∀ i s, cell (((List.range' lo m).map (fun i => (i, o i))).foldl (applyAt g) ids) i s =
      if lo ≤ i ∧ i < lo + m ∧ s = slotOf F i (o i) then g (cell ids i s) else cell ids i s := by
  induction m generalizing lo ids with
  | zero =>
    refine ⟨by simpa using h, fun i s => ?_⟩
    simp only [List.range'_zero, List.map_nil, List.foldl_nil]
    rw [if_neg (by omega)]
  | succ m ih =>
    simp only [List.range'_succ, List.map_cons, List.foldl_cons]
    have hlo : lo < F.length := by omega
    have hs1 : Shape F (applyAt g ids (lo, o lo)) := shape_modCell h _ _ _
    obtain ⟨ihS, ihC⟩ := ih (lo + 1) (applyAt g ids (lo, o lo)) hs1 (by omega)
    refine ⟨ihS, fun i s => ?_⟩
    rw [ihC i s]
    by_cases hi : lo = i
    · subst hi
      rw [if_neg (by omega)]
      simp only [applyAt, cell_modCell, slotIdx_eq h hlo]
      have hr : slotOf F lo (o lo) < (row ids lo).length := by rw [h.2 lo hlo]; have := ho lo hlo; omega
      by_cases hs : s = slotOf F lo (o lo)
      · subst hs
        have hl : lo < ids.length := by rw [h.1]; exact hlo
        simp [hl, hr]
      · have hs' : ¬ slotOf F lo (o lo) = s := fun hh => hs hh.symm
        simp [hs, hs']
    · have hcell : cell (applyAt g ids (lo, o lo)) i s = cell ids i s := by
        simp only [applyAt, cell_modCell]; rw [if_neg (fun hh => hi hh.1)]
      rw [hcell]
      by_cases hc : lo + 1 ≤ i ∧ i < lo + 1 + m ∧ s = slotOf F i (o i)
      · rw [if_pos hc, if_pos ⟨by omega, by omega, hc.2.2⟩]
      · rw [if_neg hc, if_neg (fun hh => hc ⟨by omega, by omega, hh.2.2⟩)]

end AITB.Trie
