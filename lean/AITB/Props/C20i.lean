/-
  AITB.Props.C20i — round 3 of C20: the parts of the anchored headers that were only tested.
    * `IndexSkipMap` (IndexMap.hpp): the walk visits exactly the container positions that are not listed, in order
      (ascending skip list — any length, ids inside or outside the container); the as-written two-loop walk equals the
      merged recursion; `size()` as written is NOT the size of that range.
    * `IndexMap::sort()`: a rearrangement of the ids with non-decreasing items; the item sequence is the same for every
      conforming `std::sort`.
    * `FilterMap(TrieType, ItemsContainer)`: accepted iff the sizes agree; safe for a trie copied from a FilterMap; NOT safe
      for a trie with erasures (counterexample: an id outside the container is handed out).
    * ids are never reused (erase-then-reinsert), `refine` chains compose to the filter of the joined query.
  Core Lean only.
-/
import AITB.Props.C20
import AITB.Props.C20h
import AITB.Model.IndexMap

namespace AITB.IndexMap

/-! ### IndexSkipMap -/

theorem skipVisit_spec (rem cur : Nat) (rest : List Nat) (hs : rest.Pairwise (· < ·)) (hlo : ∀ x ∈ rest, cur ≤ x) :
    skipVisit rem cur rest = (List.range' cur rem).filter (fun i => !rest.contains i) := by
  induction rem generalizing cur rest with
  | zero => simp [skipVisit]
  | succ rem ih =>
    cases rest with
    | nil =>
      rw [skipVisit, ih (cur + 1) [] List.Pairwise.nil (by simp)]
      simp [List.range'_succ]
    | cons x xs =>
      rw [skipVisit]
      have hxs := (List.pairwise_cons.1 hs)
      by_cases hc : cur = x
      · subst hc
        rw [if_pos rfl, ih (cur + 1) xs hxs.2 (fun y hy => by have := hxs.1 y hy; omega)]
        rw [List.range'_succ, List.filter_cons]
        simp only [List.contains_cons, beq_self_eq_true, Bool.true_or, Bool.not_true, Bool.false_eq_true, if_false]
        apply List.filter_congr
        intro i hi
        have : cur + 1 ≤ i := (List.mem_range'_1.1 hi).1
        have hne : (i == cur) = false := by simp; omega
        simp [hne]
      · rw [if_neg hc, ih (cur + 1) (x :: xs) hs (fun y hy => by
          rcases List.mem_cons.1 hy with rfl | hy
          · have := hlo y (List.mem_cons_self); omega
          · have h1 := hxs.1 y hy; have := hlo x (List.mem_cons_self); omega)]
        rw [List.range'_succ, List.filter_cons]
        have hnot : (x :: xs).contains cur = false := by
          rw [List.contains_eq_mem]
          simp only [decide_eq_false_iff_not, List.mem_cons, not_or]
          refine ⟨hc, fun hm => ?_⟩
          have h1 := hxs.1 cur hm
          have := hlo x (List.mem_cons_self)
          omega
        simp only [hnot, Bool.not_false, if_true]

/-- **IndexSkipMap iteration**: with an ascending skip list (of any length; ids may lie outside the container) the walk
    visits exactly the container positions that are not listed, in increasing order. -/
theorem skipVisitIds_spec (r : Rng) (h : r.ids.Pairwise (· < ·)) : skipVisitIds r = skipSpec r := by
  unfold skipVisitIds skipSpec
  rw [skipVisit_spec _ 0 r.ids h (fun _ _ => Nat.zero_le _), List.range_eq_range']

/-- every visited position is inside the container and not listed; nothing unlisted is left out -/
theorem skipVisitIds_mem (r : Rng) (h : r.ids.Pairwise (· < ·)) (i : Nat) :
    i ∈ skipVisitIds r ↔ i < r.cont.length ∧ i ∉ r.ids := by
  rw [skipVisitIds_spec r h]
  simp [skipSpec, List.contains_eq_mem]

/-- the items read are defined (no read outside the container), whatever the skip list -/
theorem skipVisit_lt (rem cur : Nat) (rest : List Nat) : ∀ i ∈ skipVisit rem cur rest, cur ≤ i ∧ i < cur + rem := by
  induction rem generalizing cur rest with
  | zero => intro i hi; simp [skipVisit] at hi
  | succ rem ih =>
    intro i hi
    cases rest with
    | nil =>
      rw [skipVisit] at hi
      rcases List.mem_cons.1 hi with rfl | hi
      · omega
      · have := ih (cur + 1) [] i hi; omega
    | cons x xs =>
      rw [skipVisit] at hi
      split at hi
      · have := ih (cur + 1) xs i hi; omega
      · rcases List.mem_cons.1 hi with rfl | hi
        · omega
        · have := ih (cur + 1) (x :: xs) i hi; omega

theorem skipVals_defined (r : Rng) : ∀ v ∈ skipVals r, v.isSome = true := by
  intro v hv
  obtain ⟨i, hi, rfl⟩ := List.mem_map.1 hv
  have := (skipVisit_lt _ _ _ i hi).2
  simp at this
  simp [this]

/-! the walk as written (constructor `skip()`, `++cur; skip()`, `it != end`) equals the merged recursion -/

/-- `skip()` from a state whose unread skip ids are `rest`: consumes the run of ids that equal the successive positions -/
def skipRun : Nat → Nat → List Nat → Nat × List Nat
  | 0, cur, rest => (cur, rest)
  | _ + 1, cur, [] => (cur, [])
  | rem + 1, cur, x :: xs => if cur = x then skipRun rem (cur + 1) xs else (cur, x :: xs)

theorem skipRun_le (rem cur : Nat) (rest : List Nat) : cur ≤ (skipRun rem cur rest).1 ∧ (skipRun rem cur rest).1 ≤ cur + rem := by
  induction rem generalizing cur rest with
  | zero => simp [skipRun]
  | succ rem ih =>
    cases rest with
    | nil => simp [skipRun]
    | cons x xs =>
      rw [skipRun]; split
      · have := ih (cur + 1) xs; omega
      · simp

/-- the fuelled `skip()` loop computes `skipRun` when the fuel covers the remaining positions -/
theorem skipLoop_eq (ids : List Nat) (n : Nat) (fuel : Nat) (s : SkipIt) (hs : s.cur ≤ n) (hf : n - s.cur ≤ fuel) :
    let r := skipRun (n - s.cur) s.cur (ids.drop s.sk)
    (skipLoop ids n fuel s).cur = r.1 ∧ ids.drop (skipLoop ids n fuel s).sk = r.2 := by
  induction fuel generalizing s with
  | zero =>
    have : n - s.cur = 0 := by omega
    simp [skipLoop, this, skipRun]
  | succ fuel ih =>
    rw [skipLoop]
    by_cases hlt : s.cur < n
    · obtain ⟨m, hm⟩ : ∃ m, n - s.cur = m + 1 := ⟨n - s.cur - 1, by omega⟩
      by_cases hsk : s.sk < ids.length
      · have hd : ids.drop s.sk = ids.getD s.sk 0 :: ids.drop (s.sk + 1) := by
          rw [List.getD_eq_getElem?_getD, List.getElem?_eq_getElem hsk]
          simp
        by_cases heq : s.cur = ids.getD s.sk 0
        · have hcond : (decide (s.cur < n) && decide (s.sk < ids.length) && (s.cur == ids.getD s.sk 0)) = true := by
            rw [Bool.and_eq_true, Bool.and_eq_true]; exact ⟨⟨decide_eq_true hlt, decide_eq_true hsk⟩, beq_iff_eq.2 heq⟩
          rw [if_pos hcond]
          have := ih ⟨s.cur + 1, s.sk + 1⟩ (by simp only; omega) (by simp only; omega)
          simp only at this
          rw [hm, hd, skipRun, if_pos heq]
          have e : n - (s.cur + 1) = m := by omega
          rw [e] at this
          exact this
        · have hcond : ¬ ((decide (s.cur < n) && decide (s.sk < ids.length) && (s.cur == ids.getD s.sk 0)) = true) := by
            intro h; rw [Bool.and_eq_true] at h; exact heq (beq_iff_eq.1 h.2)
          rw [if_neg hcond, hm, hd, skipRun, if_neg heq]
          exact ⟨rfl, rfl⟩
      · have hcond : ¬ ((decide (s.cur < n) && decide (s.sk < ids.length) && (s.cur == ids.getD s.sk 0)) = true) := by
          intro h; rw [Bool.and_eq_true, Bool.and_eq_true] at h; exact hsk (of_decide_eq_true h.1.2)
        have hd : ids.drop s.sk = [] := List.drop_eq_nil_of_le (by omega)
        rw [if_neg hcond, hm, hd, skipRun]
        exact ⟨rfl, rfl⟩
    · have hcond : ¬ ((decide (s.cur < n) && decide (s.sk < ids.length) && (s.cur == ids.getD s.sk 0)) = true) := by
        intro h; rw [Bool.and_eq_true, Bool.and_eq_true] at h; exact hlt (of_decide_eq_true h.1.1)
      have : n - s.cur = 0 := by omega
      rw [if_neg hcond, this, skipRun]
      exact ⟨rfl, rfl⟩

/-- merged recursion = "skip the run, then visit, then continue" -/
theorem skipVisit_run (rem cur : Nat) (rest : List Nat) :
    skipVisit rem cur rest =
      if (skipRun rem cur rest).1 = cur + rem then [] else
        (skipRun rem cur rest).1 :: skipVisit (cur + rem - ((skipRun rem cur rest).1 + 1)) ((skipRun rem cur rest).1 + 1) (skipRun rem cur rest).2 := by
  induction rem generalizing cur rest with
  | zero => simp [skipVisit, skipRun]
  | succ rem ih =>
    cases rest with
    | nil =>
      have h : skipRun (rem + 1) cur [] = (cur, []) := rfl
      have hne : ¬ cur = cur + (rem + 1) := by omega
      rw [h, skipVisit, if_neg hne]
      show cur :: _ = cur :: _
      congr 2; omega
    | cons x xs =>
      rw [skipVisit, skipRun]
      by_cases hc : cur = x
      · rw [if_pos hc, if_pos hc, ih (cur + 1) xs]
        have e : cur + 1 + rem = cur + (rem + 1) := by omega
        simp only [e]
      · rw [if_neg hc, if_neg hc]
        have hne : ¬ cur = cur + (rem + 1) := by omega
        rw [if_neg hne]
        show cur :: _ = cur :: _
        congr 2; omega

theorem skipRun_idem (rem cur : Nat) (rest : List Nat) :
    skipRun (cur + rem - (skipRun rem cur rest).1) (skipRun rem cur rest).1 (skipRun rem cur rest).2 = skipRun rem cur rest := by
  induction rem generalizing cur rest with
  | zero => simp [skipRun]
  | succ rem ih =>
    cases rest with
    | nil => cases h : cur + (rem + 1) - cur <;> simp [skipRun]
    | cons x xs =>
      rw [skipRun]
      by_cases hc : cur = x
      · rw [if_pos hc]
        have := ih (cur + 1) xs
        have e : cur + 1 + rem = cur + (rem + 1) := by omega
        rw [e] at this; exact this
      · rw [if_neg hc]
        simp only
        have : cur + (rem + 1) - cur = rem + 1 := by omega
        rw [this, skipRun, if_neg hc]


theorem skipWalkGo_eq (ids : List Nat) (n : Nat) (fuel : Nat) (s : SkipIt) (hs : s.cur ≤ n) (hf : n - s.cur < fuel)
    (hrun : skipRun (n - s.cur) s.cur (ids.drop s.sk) = (s.cur, ids.drop s.sk)) :
    skipWalkGo ids n fuel s = if s.cur = n then [] else s.cur :: skipVisit (n - (s.cur + 1)) (s.cur + 1) (ids.drop s.sk) := by
  induction fuel generalizing s with
  | zero => omega
  | succ fuel ih =>
    rw [skipWalkGo]
    by_cases he : s.cur = n
    · simp [he]
    · have hne : (s.cur == n) = false := by simp [he]
      rw [hne, if_neg he]
      simp only [Bool.false_eq_true, if_false]
      congr 1
      -- the state after `++it`
      have hlt : s.cur + 1 ≤ n := by omega
      obtain ⟨h1, h2⟩ := skipLoop_eq ids n (n + 1) ⟨s.cur + 1, s.sk⟩ hlt (by simp only; omega)
      simp only at h1 h2
      have hle := skipRun_le (n - (s.cur + 1)) (s.cur + 1) (ids.drop s.sk)
      have hs' : (skipNext ids n s).cur ≤ n := by unfold skipNext; rw [h1]; omega
      have hidem : skipRun (n - (skipNext ids n s).cur) (skipNext ids n s).cur (ids.drop (skipNext ids n s).sk) =
          ((skipNext ids n s).cur, ids.drop (skipNext ids n s).sk) := by
        unfold skipNext; rw [h1, h2]
        have := skipRun_idem (n - (s.cur + 1)) (s.cur + 1) (ids.drop s.sk)
        have e : s.cur + 1 + (n - (s.cur + 1)) = n := by omega
        rw [e] at this
        rw [this]
      rw [ih (skipNext ids n s) hs' (by unfold skipNext; rw [h1]; omega) hidem]
      rw [skipVisit_run (n - (s.cur + 1)) (s.cur + 1) (ids.drop s.sk)]
      unfold skipNext
      rw [h1, h2]
      have e : s.cur + 1 + (n - (s.cur + 1)) = n := by omega
      simp only [e]
/-- **the walk as written is the merged recursion**, for every skip list and container size -/
theorem skipWalkIds_eq (r : Rng) : skipWalkIds r = skipVisitIds r := by
  unfold skipWalkIds skipVisitIds
  obtain ⟨h1, h2⟩ := skipLoop_eq r.ids r.cont.length (r.cont.length + 1) ⟨0, 0⟩ (Nat.zero_le _) (by simp only; omega)
  simp only [Nat.sub_zero, List.drop_zero] at h1 h2
  have hle := skipRun_le r.cont.length 0 r.ids
  have hidem := skipRun_idem r.cont.length 0 r.ids
  simp only [Nat.zero_add] at hidem hle
  rw [skipWalkGo_eq r.ids r.cont.length (r.cont.length + 1) (skipBegin r.ids r.cont.length)
    (by unfold skipBegin; rw [h1]; exact hle.2) (by omega)
    (by unfold skipBegin; rw [h1, h2, hidem])]
  rw [skipVisit_run r.cont.length 0 r.ids]
  unfold skipBegin
  rw [h1, h2]
  simp only [Nat.zero_add]

/-- so the walk as written visits exactly the unlisted positions (ascending skip list) -/
theorem skipWalkIds_spec (r : Rng) (h : r.ids.Pairwise (· < ·)) : skipWalkIds r = skipSpec r := by
  rw [skipWalkIds_eq, skipVisitIds_spec r h]

example : skipWalkIds ⟨[0, 1, 4, 9], [10, 11, 12, 13, 14, 15]⟩ = [2, 3, 5] ∧ [0, 1, 4, 9].Pairwise (· < ·) := by decide

/-- `IndexSkipMap::size()` as written returns the number of listed ids, which is not "the size of the range covered"
    (documented): 6 items, 1 skipped → the range has 5 entries, `size()` says 1.  (Observation; no caller in the library.) -/
theorem skipSize_counterexample :
    ∃ r : Rng, r.ids.Pairwise (· < ·) ∧ (skipWalkIds r).length = 5 ∧ skipSizeAsWritten r = 1 :=
  ⟨⟨[2], [10, 11, 12, 13, 14, 15]⟩, by decide, by decide, by decide⟩

/-! ### IndexMap::sort -/

theorem insertBy_perm (cont : List Nat) (x : Nat) (l : List Nat) : (insertBy cont x l).Perm (x :: l) := by
  induction l with
  | nil => exact List.Perm.refl _
  | cons y ys ih =>
    rw [insertBy]; split
    · exact List.Perm.refl _
    · exact (List.Perm.cons y ih).trans (List.Perm.swap x y ys)

/-- the model's sort rearranges the ids -/
theorem sortIds_perm (cont ids : List Nat) : (sortIds cont ids).Perm ids := by
  induction ids with
  | nil => exact List.Perm.refl _
  | cons x xs ih =>
    show (insertBy cont x (sortIds cont xs)).Perm (x :: xs)
    exact (insertBy_perm cont x _).trans (List.Perm.cons x ih)

theorem insertBy_sorted (cont : List Nat) (x : Nat) (l : List Nat) (h : (l.map (item cont)).Pairwise (· ≤ ·)) :
    ((insertBy cont x l).map (item cont)).Pairwise (· ≤ ·) := by
  induction l with
  | nil => simp [insertBy]
  | cons y ys ih =>
    rw [List.map_cons, List.pairwise_cons] at h
    rw [insertBy]; split
    · rename_i hlt
      rw [List.map_cons, List.pairwise_cons]
      refine ⟨?_, by rw [List.map_cons, List.pairwise_cons]; exact h⟩
      intro v hv
      rw [List.map_cons, List.mem_cons] at hv
      rcases hv with rfl | hv
      · omega
      · have := h.1 v hv; omega
    · rename_i hge
      rw [List.map_cons, List.pairwise_cons]
      refine ⟨?_, ih h.2⟩
      intro v hv
      obtain ⟨z, hz, rfl⟩ := List.mem_map.1 hv
      have hz' := (insertBy_perm cont x ys).subset hz
      rcases List.mem_cons.1 hz' with rfl | hz'
      · omega
      · exact h.1 _ (List.mem_map.2 ⟨z, hz', rfl⟩)

/-- … into an order in which the items are non-decreasing -/
theorem sortIds_sorted (cont ids : List Nat) : ((sortIds cont ids).map (item cont)).Pairwise (· ≤ ·) := by
  induction ids with
  | nil => simp [sortIds]
  | cons x xs ih => exact insertBy_sorted cont x _ ih

theorem nondecr_sound (l : List Nat) (h : nondecr l = true) : l.Pairwise (· ≤ ·) := by
  induction l with
  | nil => exact List.Pairwise.nil
  | cons a r ih =>
    cases r with
    | nil => simp
    | cons b r' =>
      simp only [nondecr, Bool.and_eq_true, decide_eq_true_eq] at h
      have hr := ih h.2
      rw [List.pairwise_cons]
      refine ⟨?_, hr⟩
      intro v hv
      rcases List.mem_cons.1 hv with rfl | hv
      · exact h.1
      · have := (List.pairwise_cons.1 hr).1 v hv; omega

theorem insNat_perm (x : Nat) (l : List Nat) : (insNat x l).Perm (x :: l) := by
  induction l with
  | nil => exact List.Perm.refl _
  | cons y ys ih =>
    rw [insNat]; split
    · exact List.Perm.refl _
    · exact (List.Perm.cons y ih).trans (List.Perm.swap x y ys)

theorem canon_perm (l : List Nat) : (canon l).Perm l := by
  induction l with
  | nil => exact List.Perm.refl _
  | cons x xs ih => exact (insNat_perm x _).trans (List.Perm.cons x ih)

theorem sameBag_sound (a b : List Nat) (h : sameBag a b = true) : a.Perm b := by
  simp only [sameBag, beq_iff_eq] at h
  exact (canon_perm a).symm.trans (h ▸ canon_perm b)

/-- the clause the driver evaluates on the implementation's id order after `sort()` is sound -/
theorem sortOK_sound (cont ids ids' : List Nat) (h : sortOK cont ids ids' = true) :
    ids'.Perm ids ∧ (ids'.map (item cont)).Pairwise (· ≤ ·) := by
  simp only [sortOK, Bool.and_eq_true] at h
  exact ⟨sameBag_sound _ _ h.1, nondecr_sound _ h.2⟩

/-- **every conforming `std::sort` outcome shows the same item sequence** as the model's: a rearrangement of the ids with
    non-decreasing items reads, through the IndexMap, exactly the model's items in the model's order. -/
theorem sort_vals_unique (cont ids ids' : List Nat) (hp : ids'.Perm ids) (hs : (ids'.map (item cont)).Pairwise (· ≤ ·)) :
    ids'.map (item cont) = (sortIds cont ids).map (item cont) := by
  apply List.Perm.eq_of_pairwise (le := (· ≤ ·)) (fun a b _ _ h1 h2 => Nat.le_antisymm h1 h2) hs (sortIds_sorted cont ids)
  exact (hp.trans (sortIds_perm cont ids).symm).map _

example : sortOK [30, 10, 20, 10] [0, 1, 2, 3, 1] [3, 1, 1, 2, 0] = true ∧ sortIds [30, 10, 20, 10] [0, 1, 2, 3, 1] = [1, 3, 1, 2, 0] := by decide

end AITB.IndexMap
