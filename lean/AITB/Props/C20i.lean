/-
  AITB.Props.C20i — round 3 of C20: the parts of the anchored headers that were only tested.
    * `IndexSkipMap` (IndexMap.hpp): the walk visits exactly the container positions that are not listed, in order
      (ascending skip list — any length, ids inside or outside the container); the as-written two-loop walk equals the
      merged recursion; `size()` as written is NOT the size of that range.
    * `IndexMap::sort()`: a rearrangement of the ids with non-decreasing items; the item sequence is the same for every
      conforming `std::sort`.
    * `FilterMap(TrieType, ItemsContainer)`: accepted iff the sizes agree; safe for a trie copied from a FilterMap; NOT safe
      for a trie with erasures (counterexample: an id outside the container is handed out).
    * ids are never reused (erase-then-reinsert), `refine` chains compose to the filter of the joined query.
  Core Lean only.
-/
import AITB.Props.C20
import AITB.Props.C20h
import AITB.Model.IndexMap
import AITB.Gen.C20Sites

namespace AITB.IndexMap

/-! ### IndexSkipMap -/

theorem skipVisit_spec (rem cur : Nat) (rest : List Nat) (hs : rest.Pairwise (· < ·)) (hlo : ∀ x ∈ rest, cur ≤ x) :
    skipVisit rem cur rest = (List.range' cur rem).filter (fun i => !rest.contains i) := by
  induction rem generalizing cur rest with
  | zero => simp [skipVisit]
  | succ rem ih =>
    cases rest with
    | nil =>
      rw [skipVisit, ih (cur + 1) [] List.Pairwise.nil (by simp)]
      simp [List.range'_succ]
    | cons x xs =>
      rw [skipVisit]
      have hxs := (List.pairwise_cons.1 hs)
      by_cases hc : cur = x
      · subst hc
        rw [if_pos rfl, ih (cur + 1) xs hxs.2 (fun y hy => by have := hxs.1 y hy; omega)]
        rw [List.range'_succ, List.filter_cons]
        simp only [List.contains_cons, beq_self_eq_true, Bool.true_or, Bool.not_true, Bool.false_eq_true, if_false]
        apply List.filter_congr
        intro i hi
        have : cur + 1 ≤ i := (List.mem_range'_1.1 hi).1
        have hne : (i == cur) = false := by simp; omega
        simp [hne]
      · rw [if_neg hc, ih (cur + 1) (x :: xs) hs (fun y hy => by
          rcases List.mem_cons.1 hy with rfl | hy
          · have := hlo y (List.mem_cons_self); omega
          · have h1 := hxs.1 y hy; have := hlo x (List.mem_cons_self); omega)]
        rw [List.range'_succ, List.filter_cons]
        have hnot : (x :: xs).contains cur = false := by
          rw [List.contains_eq_mem]
          simp only [decide_eq_false_iff_not, List.mem_cons, not_or]
          refine ⟨hc, fun hm => ?_⟩
          have h1 := hxs.1 cur hm
          have := hlo x (List.mem_cons_self)
          omega
        simp only [hnot, Bool.not_false, if_true]

/-- **IndexSkipMap iteration**: with an ascending skip list (of any length; ids may lie outside the container) the walk
    visits exactly the container positions that are not listed, in increasing order. -/
theorem skipVisitIds_spec (r : Rng) (h : r.ids.Pairwise (· < ·)) : skipVisitIds r = skipSpec r := by
  unfold skipVisitIds skipSpec
  rw [skipVisit_spec _ 0 r.ids h (fun _ _ => Nat.zero_le _), List.range_eq_range']

/-- every visited position is inside the container and not listed; nothing unlisted is left out -/
theorem skipVisitIds_mem (r : Rng) (h : r.ids.Pairwise (· < ·)) (i : Nat) :
    i ∈ skipVisitIds r ↔ i < r.cont.length ∧ i ∉ r.ids := by
  rw [skipVisitIds_spec r h]
  simp [skipSpec, List.contains_eq_mem]

/-- the items read are defined (no read outside the container), whatever the skip list -/
theorem skipVisit_lt (rem cur : Nat) (rest : List Nat) : ∀ i ∈ skipVisit rem cur rest, cur ≤ i ∧ i < cur + rem := by
  induction rem generalizing cur rest with
  | zero => intro i hi; simp [skipVisit] at hi
  | succ rem ih =>
    intro i hi
    cases rest with
    | nil =>
      rw [skipVisit] at hi
      rcases List.mem_cons.1 hi with rfl | hi
      · omega
      · have := ih (cur + 1) [] i hi; omega
    | cons x xs =>
      rw [skipVisit] at hi
      split at hi
      · have := ih (cur + 1) xs i hi; omega
      · rcases List.mem_cons.1 hi with rfl | hi
        · omega
        · have := ih (cur + 1) (x :: xs) i hi; omega

theorem skipVals_defined (r : Rng) : ∀ v ∈ skipVals r, v.isSome = true := by
  intro v hv
  obtain ⟨i, hi, rfl⟩ := List.mem_map.1 hv
  have := (skipVisit_lt _ _ _ i hi).2
  simp at this
  simp [this]

/-! the walk as written (constructor `skip()`, `++cur; skip()`, `it != end`) equals the merged recursion -/

/-- `skip()` from a state whose unread skip ids are `rest`: consumes the run of ids that equal the successive positions -/
def skipRun : Nat → Nat → List Nat → Nat × List Nat
  | 0, cur, rest => (cur, rest)
  | _ + 1, cur, [] => (cur, [])
  | rem + 1, cur, x :: xs => if cur = x then skipRun rem (cur + 1) xs else (cur, x :: xs)

theorem skipRun_le (rem cur : Nat) (rest : List Nat) : cur ≤ (skipRun rem cur rest).1 ∧ (skipRun rem cur rest).1 ≤ cur + rem := by
  induction rem generalizing cur rest with
  | zero => simp [skipRun]
  | succ rem ih =>
    cases rest with
    | nil => simp [skipRun]
    | cons x xs =>
      rw [skipRun]; split
      · have := ih (cur + 1) xs; omega
      · simp

/-- the fuelled `skip()` loop computes `skipRun` when the fuel covers the remaining positions -/
theorem skipLoop_eq (ids : List Nat) (n : Nat) (fuel : Nat) (s : SkipIt) (hs : s.cur ≤ n) (hf : n - s.cur ≤ fuel) :
    let r := skipRun (n - s.cur) s.cur (ids.drop s.sk)
    (skipLoop ids n fuel s).cur = r.1 ∧ ids.drop (skipLoop ids n fuel s).sk = r.2 := by
  induction fuel generalizing s with
  | zero =>
    have : n - s.cur = 0 := by omega
    simp [skipLoop, this, skipRun]
  | succ fuel ih =>
    rw [skipLoop]
    by_cases hlt : s.cur < n
    · obtain ⟨m, hm⟩ : ∃ m, n - s.cur = m + 1 := ⟨n - s.cur - 1, by omega⟩
      by_cases hsk : s.sk < ids.length
      · have hd : ids.drop s.sk = ids.getD s.sk 0 :: ids.drop (s.sk + 1) := by
          rw [List.getD_eq_getElem?_getD, List.getElem?_eq_getElem hsk]
          simp
        by_cases heq : s.cur = ids.getD s.sk 0
        · have hcond : (decide (s.cur < n) && decide (s.sk < ids.length) && (s.cur == ids.getD s.sk 0)) = true := by
            rw [Bool.and_eq_true, Bool.and_eq_true]; exact ⟨⟨decide_eq_true hlt, decide_eq_true hsk⟩, beq_iff_eq.2 heq⟩
          rw [if_pos hcond]
          have := ih ⟨s.cur + 1, s.sk + 1⟩ (by simp only; omega) (by simp only; omega)
          simp only at this
          rw [hm, hd, skipRun, if_pos heq]
          have e : n - (s.cur + 1) = m := by omega
          rw [e] at this
          exact this
        · have hcond : ¬ ((decide (s.cur < n) && decide (s.sk < ids.length) && (s.cur == ids.getD s.sk 0)) = true) := by
            intro h; rw [Bool.and_eq_true] at h; exact heq (beq_iff_eq.1 h.2)
          rw [if_neg hcond, hm, hd, skipRun, if_neg heq]
          exact ⟨rfl, rfl⟩
      · have hcond : ¬ ((decide (s.cur < n) && decide (s.sk < ids.length) && (s.cur == ids.getD s.sk 0)) = true) := by
          intro h; rw [Bool.and_eq_true, Bool.and_eq_true] at h; exact hsk (of_decide_eq_true h.1.2)
        have hd : ids.drop s.sk = [] := List.drop_eq_nil_of_le (by omega)
        rw [if_neg hcond, hm, hd, skipRun]
        exact ⟨rfl, rfl⟩
    · have hcond : ¬ ((decide (s.cur < n) && decide (s.sk < ids.length) && (s.cur == ids.getD s.sk 0)) = true) := by
        intro h; rw [Bool.and_eq_true, Bool.and_eq_true] at h; exact hlt (of_decide_eq_true h.1.1)
      have : n - s.cur = 0 := by omega
      rw [if_neg hcond, this, skipRun]
      exact ⟨rfl, rfl⟩

/-- merged recursion = "skip the run, then visit, then continue" -/
theorem skipVisit_run (rem cur : Nat) (rest : List Nat) :
    skipVisit rem cur rest =
      if (skipRun rem cur rest).1 = cur + rem then [] else
        (skipRun rem cur rest).1 :: skipVisit (cur + rem - ((skipRun rem cur rest).1 + 1)) ((skipRun rem cur rest).1 + 1) (skipRun rem cur rest).2 := by
  induction rem generalizing cur rest with
  | zero => simp [skipVisit, skipRun]
  | succ rem ih =>
    cases rest with
    | nil =>
      have h : skipRun (rem + 1) cur [] = (cur, []) := rfl
      have hne : ¬ cur = cur + (rem + 1) := by omega
      rw [h, skipVisit, if_neg hne]
      show cur :: _ = cur :: _
      congr 2; omega
    | cons x xs =>
      rw [skipVisit, skipRun]
      by_cases hc : cur = x
      · rw [if_pos hc, if_pos hc, ih (cur + 1) xs]
        have e : cur + 1 + rem = cur + (rem + 1) := by omega
        simp only [e]
      · rw [if_neg hc, if_neg hc]
        have hne : ¬ cur = cur + (rem + 1) := by omega
        rw [if_neg hne]
        show cur :: _ = cur :: _
        congr 2; omega

theorem skipRun_idem (rem cur : Nat) (rest : List Nat) :
    skipRun (cur + rem - (skipRun rem cur rest).1) (skipRun rem cur rest).1 (skipRun rem cur rest).2 = skipRun rem cur rest := by
  induction rem generalizing cur rest with
  | zero => simp [skipRun]
  | succ rem ih =>
    cases rest with
    | nil => cases h : cur + (rem + 1) - cur <;> simp [skipRun]
    | cons x xs =>
      rw [skipRun]
      by_cases hc : cur = x
      · rw [if_pos hc]
        have := ih (cur + 1) xs
        have e : cur + 1 + rem = cur + (rem + 1) := by omega
        rw [e] at this; exact this
      · rw [if_neg hc]
        simp only
        have : cur + (rem + 1) - cur = rem + 1 := by omega
        rw [this, skipRun, if_neg hc]


theorem skipWalkGo_eq (ids : List Nat) (n : Nat) (fuel : Nat) (s : SkipIt) (hs : s.cur ≤ n) (hf : n - s.cur < fuel)
    (hrun : skipRun (n - s.cur) s.cur (ids.drop s.sk) = (s.cur, ids.drop s.sk)) :
    skipWalkGo ids n fuel s = if s.cur = n then [] else s.cur :: skipVisit (n - (s.cur + 1)) (s.cur + 1) (ids.drop s.sk) := by
  induction fuel generalizing s with
  | zero => omega
  | succ fuel ih =>
    rw [skipWalkGo]
    by_cases he : s.cur = n
    · simp [he]
    · have hne : (s.cur == n) = false := by simp [he]
      rw [hne, if_neg he]
      simp only [Bool.false_eq_true, if_false]
      congr 1
      -- the state after `++it`
      have hlt : s.cur + 1 ≤ n := by omega
      obtain ⟨h1, h2⟩ := skipLoop_eq ids n (n + 1) ⟨s.cur + 1, s.sk⟩ hlt (by simp only; omega)
      simp only at h1 h2
      have hle := skipRun_le (n - (s.cur + 1)) (s.cur + 1) (ids.drop s.sk)
      have hs' : (skipNext ids n s).cur ≤ n := by unfold skipNext; rw [h1]; omega
      have hidem : skipRun (n - (skipNext ids n s).cur) (skipNext ids n s).cur (ids.drop (skipNext ids n s).sk) =
          ((skipNext ids n s).cur, ids.drop (skipNext ids n s).sk) := by
        unfold skipNext; rw [h1, h2]
        have := skipRun_idem (n - (s.cur + 1)) (s.cur + 1) (ids.drop s.sk)
        have e : s.cur + 1 + (n - (s.cur + 1)) = n := by omega
        rw [e] at this
        rw [this]
      rw [ih (skipNext ids n s) hs' (by unfold skipNext; rw [h1]; omega) hidem]
      rw [skipVisit_run (n - (s.cur + 1)) (s.cur + 1) (ids.drop s.sk)]
      unfold skipNext
      rw [h1, h2]
      have e : s.cur + 1 + (n - (s.cur + 1)) = n := by omega
      simp only [e]
/-- **the walk as written is the merged recursion**, for every skip list and container size -/
theorem skipWalkIds_eq (r : Rng) : skipWalkIds r = skipVisitIds r := by
  unfold skipWalkIds skipVisitIds
  obtain ⟨h1, h2⟩ := skipLoop_eq r.ids r.cont.length (r.cont.length + 1) ⟨0, 0⟩ (Nat.zero_le _) (by simp only; omega)
  simp only [Nat.sub_zero, List.drop_zero] at h1 h2
  have hle := skipRun_le r.cont.length 0 r.ids
  have hidem := skipRun_idem r.cont.length 0 r.ids
  simp only [Nat.zero_add] at hidem hle
  rw [skipWalkGo_eq r.ids r.cont.length (r.cont.length + 1) (skipBegin r.ids r.cont.length)
    (by unfold skipBegin; rw [h1]; exact hle.2) (by omega)
    (by unfold skipBegin; rw [h1, h2, hidem])]
  rw [skipVisit_run r.cont.length 0 r.ids]
  unfold skipBegin
  rw [h1, h2]
  simp only [Nat.zero_add]

/-- so the walk as written visits exactly the unlisted positions (ascending skip list) -/
theorem skipWalkIds_spec (r : Rng) (h : r.ids.Pairwise (· < ·)) : skipWalkIds r = skipSpec r := by
  rw [skipWalkIds_eq, skipVisitIds_spec r h]

example : skipWalkIds ⟨[0, 1, 4, 9], [10, 11, 12, 13, 14, 15]⟩ = [2, 3, 5] ∧ [0, 1, 4, 9].Pairwise (· < ·) := by decide

/-- `IndexSkipMap::size()` as written returns the number of listed ids, which is not "the size of the range covered"
    (documented): 6 items, 1 skipped → the range has 5 entries, `size()` says 1.  (Observation; no caller in the library.) -/
theorem skipSize_counterexample :
    ∃ r : Rng, r.ids.Pairwise (· < ·) ∧ (skipWalkIds r).length = 5 ∧ skipSizeAsWritten r = 1 :=
  ⟨⟨[2], [10, 11, 12, 13, 14, 15]⟩, by decide, by decide, by decide⟩

/-! ### IndexMap::sort -/

theorem insertBy_perm (cont : List Nat) (x : Nat) (l : List Nat) : (insertBy cont x l).Perm (x :: l) := by
  induction l with
  | nil => exact List.Perm.refl _
  | cons y ys ih =>
    rw [insertBy]; split
    · exact List.Perm.refl _
    · exact (List.Perm.cons y ih).trans (List.Perm.swap x y ys)

/-- the model's sort rearranges the ids -/
theorem sortIds_perm (cont ids : List Nat) : (sortIds cont ids).Perm ids := by
  induction ids with
  | nil => exact List.Perm.refl _
  | cons x xs ih =>
    show (insertBy cont x (sortIds cont xs)).Perm (x :: xs)
    exact (insertBy_perm cont x _).trans (List.Perm.cons x ih)

theorem insertBy_sorted (cont : List Nat) (x : Nat) (l : List Nat) (h : (l.map (item cont)).Pairwise (· ≤ ·)) :
    ((insertBy cont x l).map (item cont)).Pairwise (· ≤ ·) := by
  induction l with
  | nil => simp [insertBy]
  | cons y ys ih =>
    rw [List.map_cons, List.pairwise_cons] at h
    rw [insertBy]; split
    · rename_i hlt
      rw [List.map_cons, List.pairwise_cons]
      refine ⟨?_, by rw [List.map_cons, List.pairwise_cons]; exact h⟩
      intro v hv
      rw [List.map_cons, List.mem_cons] at hv
      rcases hv with rfl | hv
      · omega
      · have := h.1 v hv; omega
    · rename_i hge
      rw [List.map_cons, List.pairwise_cons]
      refine ⟨?_, ih h.2⟩
      intro v hv
      obtain ⟨z, hz, rfl⟩ := List.mem_map.1 hv
      have hz' := (insertBy_perm cont x ys).subset hz
      rcases List.mem_cons.1 hz' with rfl | hz'
      · omega
      · exact h.1 _ (List.mem_map.2 ⟨z, hz', rfl⟩)

/-- … into an order in which the items are non-decreasing -/
theorem sortIds_sorted (cont ids : List Nat) : ((sortIds cont ids).map (item cont)).Pairwise (· ≤ ·) := by
  induction ids with
  | nil => simp [sortIds]
  | cons x xs ih => exact insertBy_sorted cont x _ ih

theorem nondecr_sound (l : List Nat) (h : nondecr l = true) : l.Pairwise (· ≤ ·) := by
  induction l with
  | nil => exact List.Pairwise.nil
  | cons a r ih =>
    cases r with
    | nil => simp
    | cons b r' =>
      simp only [nondecr, Bool.and_eq_true, decide_eq_true_eq] at h
      have hr := ih h.2
      rw [List.pairwise_cons]
      refine ⟨?_, hr⟩
      intro v hv
      rcases List.mem_cons.1 hv with rfl | hv
      · exact h.1
      · have := (List.pairwise_cons.1 hr).1 v hv; omega

theorem insNat_perm (x : Nat) (l : List Nat) : (insNat x l).Perm (x :: l) := by
  induction l with
  | nil => exact List.Perm.refl _
  | cons y ys ih =>
    rw [insNat]; split
    · exact List.Perm.refl _
    · exact (List.Perm.cons y ih).trans (List.Perm.swap x y ys)

theorem canon_perm (l : List Nat) : (canon l).Perm l := by
  induction l with
  | nil => exact List.Perm.refl _
  | cons x xs ih => exact (insNat_perm x _).trans (List.Perm.cons x ih)

theorem sameBag_sound (a b : List Nat) (h : sameBag a b = true) : a.Perm b := by
  simp only [sameBag, beq_iff_eq] at h
  exact (canon_perm a).symm.trans (h ▸ canon_perm b)

/-- the clause the driver evaluates on the implementation's id order after `sort()` is sound -/
theorem sortOK_sound (cont ids ids' : List Nat) (h : sortOK cont ids ids' = true) :
    ids'.Perm ids ∧ (ids'.map (item cont)).Pairwise (· ≤ ·) := by
  simp only [sortOK, Bool.and_eq_true] at h
  exact ⟨sameBag_sound _ _ h.1, nondecr_sound _ h.2⟩

/-- **every conforming `std::sort` outcome shows the same item sequence** as the model's: a rearrangement of the ids with
    non-decreasing items reads, through the IndexMap, exactly the model's items in the model's order. -/
theorem sort_vals_unique (cont ids ids' : List Nat) (hp : ids'.Perm ids) (hs : (ids'.map (item cont)).Pairwise (· ≤ ·)) :
    ids'.map (item cont) = (sortIds cont ids).map (item cont) := by
  apply List.Perm.eq_of_pairwise (le := (· ≤ ·)) (fun a b _ _ h1 h2 => Nat.le_antisymm h1 h2) hs (sortIds_sorted cont ids)
  exact (hp.trans (sortIds_perm cont ids).symm).map _

example : sortOK [30, 10, 20, 10] [0, 1, 2, 3, 1] [3, 1, 1, 2, 0] = true ∧ sortIds [30, 10, 20, 10] [0, 1, 2, 3, 1] = [1, 3, 1, 2, 0] := by decide

end AITB.IndexMap

namespace AITB.Trie

/-! ### `FilterMap(TrieType, ItemsContainer)` -/

/-- the constructor's test: accepted iff the number of stored entries equals the number of items -/
theorem ofTrie_spec {t : T} {es : Spec} (h : RI t es) (hF : t.F ≠ []) (items : List Nat) :
    FM.ofTrie false t items = some (if es.length = items.length then some ⟨t, items⟩ else none) := by
  simp only [FM.ofTrie, size_spec h hF, Option.map_some]
  by_cases he : es.length = items.length
  · simp [he]
  · simp [he]

/-- **documented use** — "copy two FilterMap of different types which share the factorization": the trie of a FilterMap
    with as many new items is accepted and is again a FilterMap in which every filter result stays inside the container -/
theorem FMInv_copy {m : FM} {es : Spec} (h : FMInv m es) (hF : m.trie.F ≠ []) (items' : List Nat) (hl : items'.length = m.items.length) :
    FM.ofTrie false m.trie items' = some (some ⟨m.trie, items'⟩) ∧ FMInv ⟨m.trie, items'⟩ es := by
  have hlen : es.length = m.items.length := by
    have := congrArg List.length h.2.1
    simpa [specIds] using this
  refine ⟨?_, h.1, by rw [hl]; exact h.2.1, by rw [hl]; exact h.2.2⟩
  rw [ofTrie_spec h.1 hF, if_pos (by rw [hl]; exact hlen)]

/-- under the FilterMap invariant every id a filter hands out addresses the container -/
theorem filterChecked_defined {m : FM} {es : Spec} (h : FMInv m es) (fb : Bool) (q : PF) (hq : ValidQ m.trie.F q) (hne : q ≠ []) :
    ∃ vs, m.filterChecked fb q = some vs ∧ ∀ v ∈ vs, v.isSome = true := by
  obtain ⟨_, hlt, _⟩ := filtermap_filter_spec h fb q hq hne
  refine ⟨(specFilter es q).map (fun id => m.items[id]?), by simp only [FM.filterChecked, filter_spec h.1 fb q hq hne, Option.map_some], ?_⟩
  intro v hv
  obtain ⟨id, hid, rfl⟩ := List.mem_map.1 hv
  have := hlt id hid
  simp [this]

/-- the trie a user kept after retiring rule 0 of two: `Trie({2,2})`, two inserts, `erase(0)` -/
def gapTrie : T := ⟨[2, 2], 2, [[[], [1], []], [[], [], [1]]]⟩

theorem gapTrie_reachable :
    (T.mk? [2, 2]).map (fun t => ((t.insert [(0, 1)]).1.insert [(0, 1)]).1.erase 0) = some gapTrie := rfl

theorem gapTrie_size : gapTrie.size false = some 1 := rfl

theorem gapTrie_RI : RI gapTrie [(1, [(0, 1)])] := by
  have h0 : RI (⟨[2, 2], 0, [[[], [], []], [[], [], []]]⟩ : T) [] := RI_mk (F := [2, 2]) rfl
  have v : ValidPF [2, 2] [(0, 1)] := by simp [ValidPF, KeysAsc]
  have h1 := RI_insert h0 v
  have h2 := RI_insert h1 v
  exact RI_erase h2 0

/-- **the size test is the wrong test**: a trie with an erased entry and a container of the *same size* is accepted, and the
    very next filter hands out an id outside the container (`items_[1]` of a 1-element vector: out-of-bounds read).
    No container length makes such a trie usable: any other length is rejected. -/
theorem ofTrie_gap_counterexample :
    (FM.ofTrie false gapTrie [42]).map (fun r => r.map (fun m => m.items)) = some (some [42]) ∧
      (⟨gapTrie, [42]⟩ : FM).filterChecked false [(0, 1)] = some [none] ∧
      ∀ n, n ≠ 1 → (FM.ofTrie false gapTrie (List.replicate n 42)).map (fun r => r.isSome) = some false := by
  refine ⟨rfl, ?_, ?_⟩
  · have hq : ValidQ gapTrie.F [(0, 1)] := by intro kv hkv; simp at hkv; subst hkv; decide
    simp only [FM.filterChecked, filter_spec gapTrie_RI false [(0, 1)] hq (by simp), Option.map_some]
    decide
  intro n hn
  have hne : (1 != n) = true := by simp; omega
  simp only [FM.ofTrie, gapTrie_size, Option.map_some, List.length_replicate, hne, if_true, Option.isSome_none]

/-! ### ids are never reused -/

/-- `insert` returns `counter_`, which no stored entry carries (so erase-then-reinsert gets a new id), and moves it on by one -/
theorem insert_id_fresh {t : T} {es : Spec} (h : RI t es) (pf : PF) :
    (t.insert pf).2 = t.counter ∧ (t.insert pf).1.counter = t.counter + 1 ∧ ∀ e, (t.counter, e) ∉ es := by
  refine ⟨rfl, rfl, fun e he => ?_⟩
  have := h.lt _ _ he
  omega

def isIns : Op → Bool
  | .ins _ => true
  | _ => false

/-- along any history the next id is the number of inserts so far: the k-th insert returns k-1 whatever was erased in between -/
theorem specRun_counter (s : Spec × Nat) (ops : List Op) : (specRun s ops).2 = s.2 + (ops.filter isIns).length := by
  induction ops generalizing s with
  | nil => simp [specRun]
  | cons op ops ih =>
    have : specRun s (op :: ops) = specRun (specStep s op) ops := rfl
    rw [this, ih]
    cases op <;> simp [specStep, isIns, List.filter_cons] <;> omega

/-- **no id is handed out twice**: in every history within the preconditions the id the model's `insert` returns after the
    history is the number of earlier inserts, larger than every id stored (or ever stored) before -/
theorem ids_never_reused (F : List Nat) (t0 : T) (hmk : T.mk? F = some t0) (ops : List Op) (hok : HistOK F ([], 0) ops) (pf : PF) :
    ∃ t, run true t0 ops = some t ∧ (t.insert pf).2 = (ops.filter isIns).length ∧
      ∀ id e, (id, e) ∈ (specRun ([], 0) ops).1 → id < (t.insert pf).2 := by
  have h0 : RI t0 [] := RI_mk hmk
  have hF0 : t0.F = F ∧ t0.counter = 0 := by
    unfold T.mk? at hmk
    split at hmk
    · cases hmk
    · cases hmk; exact ⟨rfl, rfl⟩
  obtain ⟨t, hr, hRI, _, hc⟩ := run_RI F ops t0 [] h0 hF0.1 (by rw [hF0.2]; exact hok)
  rw [hF0.2] at hRI hc
  refine ⟨t, hr, ?_, fun id e he => hRI.lt id e he⟩
  show t.counter = _
  rw [hc, specRun_counter]; simp

/-! ### refine chains -/

theorem compatB_append (e q1 q2 : PF) : compatB e (q1 ++ q2) = (compatB e q1 && compatB e q2) := by
  simp [compatB, List.all_append]

/-- refining a filter result by a second query gives the filter of the joined query (in any state reachable by a history):
    `refine(filter(q1), q2) = filter(q1 ++ q2)` -/
theorem refine_chain {t : T} {es : Spec} (h : RI t es) (q1 q2 : PF) (hq2 : ValidQ t.F q2) :
    t.refine (specFilter es q1) q2 = specFilter es (q1 ++ q2) := by
  rw [refine_spec h _ (specFilter_sorted h q1) q2 hq2]
  unfold specRefine
  cases q2 with
  | nil => simp
  | cons kv q2' =>
    simp only [List.isEmpty_cons, Bool.false_eq_true, if_false]
    unfold specFilter
    rw [List.filter_map, List.filter_filter]
    congr 1
    apply List.filter_congr
    rintro ⟨id, e⟩ he
    simp only [Function.comp, compatB_append]
    by_cases hc1 : compatB e q1 = true
    · simp only [hc1, Bool.and_true, Bool.true_and]
      by_cases hc2 : compatB e (kv :: q2') = true
      · rw [hc2]
        simp only [List.contains_eq_mem, decide_eq_true_eq]
        exact (mem_specFilter es _ id).2 ⟨e, he, hc2⟩
      · have hc2' : compatB e (kv :: q2') = false := by simpa using hc2
        rw [hc2']
        simp only [List.contains_eq_mem, decide_eq_false_iff_not]
        intro hm
        obtain ⟨e', he', hc'⟩ := (mem_specFilter es _ id).1 hm
        rw [h.unique he he'] at hc2
        exact hc2 hc'
    · have : compatB e q1 = false := by simpa using hc1
      simp [this]

/-- and a chain of two refinements of any ascending id list is one refinement by the joined query -/
theorem refine_refine {t : T} {es : Spec} (h : RI t es) (ids : List Nat) (hs : ids.Pairwise (· < ·)) (q1 q2 : PF)
    (hq1 : ValidQ t.F q1) (hq2 : ValidQ t.F q2) (hne1 : q1 ≠ []) (hne2 : q2 ≠ []) :
    t.refine (t.refine ids q1) q2 = t.refine ids (q1 ++ q2) := by
  have hq12 : ValidQ t.F (q1 ++ q2) := by
    intro kv hkv
    rcases List.mem_append.1 hkv with hkv | hkv
    · exact hq1 kv hkv
    · exact hq2 kv hkv
  rw [refine_spec h ids hs q1 hq1]
  have hs1 : (specRefine es ids q1).Pairwise (· < ·) := by
    unfold specRefine; split
    · exact hs
    · exact hs.sublist List.filter_sublist
  rw [refine_spec h _ hs1 q2 hq2, refine_spec h ids hs _ hq12]
  unfold specRefine
  have e1 : q1.isEmpty = false := by cases q1 with | nil => exact absurd rfl hne1 | cons _ _ => rfl
  have e2 : q2.isEmpty = false := by cases q2 with | nil => exact absurd rfl hne2 | cons _ _ => rfl
  have e12 : (q1 ++ q2).isEmpty = false := by cases q1 with | nil => exact absurd rfl hne1 | cons _ _ => rfl
  simp only [e1, e2, e12, Bool.false_eq_true, if_false]
  rw [List.filter_filter]
  apply List.filter_congr
  intro id _
  simp only [List.contains_eq_mem]
  have key : id ∈ specFilter es (q1 ++ q2) ↔ id ∈ specFilter es q1 ∧ id ∈ specFilter es q2 := by
    simp only [mem_specFilter, compatB_append, Bool.and_eq_true]
    constructor
    · rintro ⟨e, he, h1, h2⟩; exact ⟨⟨e, he, h1⟩, ⟨e, he, h2⟩⟩
    · rintro ⟨⟨e, he, h1⟩, ⟨e', he', h2⟩⟩
      rw [← h.unique he he'] at h2
      exact ⟨e, he, h1, h2⟩
  by_cases hm : id ∈ specFilter es (q1 ++ q2)
  · have := key.1 hm; simp [hm, this.1, this.2]
  · have : ¬ (id ∈ specFilter es q1 ∧ id ∈ specFilter es q2) := fun hh => hm (key.2 hh)
    simp only [hm, decide_false]
    by_cases h1 : id ∈ specFilter es q1
    · have h2 : id ∉ specFilter es q2 := fun hh => this ⟨h1, hh⟩
      simp [h1, h2]
    · simp [h1]

example : ∃ t es, RI t es ∧ ValidQ t.F [(1, 0)] ∧ specFilter es ([(0, 1)] ++ [(1, 0)]) = [1] := by
  refine ⟨_, _, gapTrie_RI, ?_, by decide⟩
  intro kv hkv; simp at hkv; subst hkv; decide

end AITB.Trie

/-- every statement of the anchored files that the model transcribes is in the source as the model assumes it
    (`tools/extract_c20.py`, regenerated on every run: 98 sites of Trie.cpp, FasterTrie.cpp, FilterMap.hpp, IndexMap.hpp, Core.cpp) -/
theorem AITB.Trie.sites_as_modelled : AITB.Gen.C20Sites.sites.all (fun s => s.2.2.1 == s.2.2.2) = true := by decide
