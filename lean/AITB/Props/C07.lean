/-
  AITB.Props.C07 — "Experience and learned models mirror the recorded history".

  Theorems about `AITB.Model.Experience` (which see for the anchors).  Everything is proved for
  all table shapes, all histories, all rational rewards, every value of the resync period.
  Layout:  §1 list helpers · §2 Welford cell · §3 experience part of a pair mirrors the records ·
  §4 sync algebra (full / incremental) · §5 history-level invariant of the learned model ·
  §6 lifting from one pair to a table (`World`) · §7 constructor and uninitialised storage ·
  §8 Thompson rows.
-/
import AITB.Model.Experience
import Mathlib.Algebra.Order.Field.Rat
import Mathlib.Tactic.Ring
import Mathlib.Tactic.FieldSimp
import Mathlib.Tactic.Linarith
import Mathlib.Tactic.Positivity
import Mathlib.Tactic.NormNum

namespace AITB.Exp

/-! ## §1 list helpers -/

theorem length_setQ (l : List Rat) (k : Nat) (v : Rat) : (setQ l k v).length = l.length := by
  induction l generalizing k with
  | nil => rfl
  | cons x xs ih => cases k <;> simp [setQ, ih]

theorem nthQ_setQ (l : List Rat) (k i : Nat) (v : Rat) :
    nthQ (setQ l k v) i = if k = i ∧ k < l.length then v else nthQ l i := by
  induction l generalizing k i with
  | nil => simp [setQ, nthQ]
  | cons x xs ih =>
    cases k with
    | zero => cases i <;> simp [setQ, nthQ]
    | succ k =>
      cases i with
      | zero => simp [setQ, nthQ]
      | succ i => simp [setQ, nthQ, ih]

theorem nthQ_map_div (l : List Rat) (c : Rat) (i : Nat) :
    nthQ (l.map (fun x => x / c)) i = nthQ l i / c := by
  induction l generalizing i with
  | nil => simp [nthQ]
  | cons x xs ih => cases i <;> simp [nthQ, ih]

theorem nthQ_map_cast (l : List Nat) (n : Rat) (i : Nat) :
    nthQ (l.map (fun (c : Nat) => (c : Rat) / n)) i = (nthN l i : Rat) / n := by
  induction l generalizing i with
  | nil => simp [nthQ, nthN]
  | cons x xs ih => cases i <;> simp [nthQ, nthN, ih]

theorem length_bump (l : List Nat) (k : Nat) : (bump l k).length = l.length := by
  induction l generalizing k with
  | nil => rfl
  | cons x xs ih => cases k <;> simp [bump, ih]

theorem nthN_bump (l : List Nat) (k i : Nat) :
    nthN (bump l k) i = nthN l i + (if k = i ∧ k < l.length then 1 else 0) := by
  induction l generalizing k i with
  | nil => simp [bump, nthN]
  | cons x xs ih =>
    cases k with
    | zero => cases i <;> simp [bump, nthN]
    | succ k =>
      cases i with
      | zero => simp [bump, nthN]
      | succ i => simp [bump, nthN, ih]

theorem nthN_map_zero (l : List Nat) (i : Nat) : nthN (l.map (fun _ => 0)) i = 0 := by
  induction l generalizing i with
  | nil => rfl
  | cons x xs ih =>
    cases i with
    | zero => rfl
    | succ i => simpa only [List.map, nthN] using ih i

theorem nthN_replicate_zero (w i : Nat) : nthN (List.replicate w 0) i = 0 := by
  induction w generalizing i with
  | zero => rfl
  | succ w ih => cases i <;> simp [List.replicate, nthN, ih]

theorem length_zeros (w : Nat) : (zeros w).length = w := by
  induction w with
  | zero => rfl
  | succ w ih => simp [zeros, ih]

theorem nthQ_zeros (w i : Nat) : nthQ (zeros w) i = 0 := by
  induction w generalizing i with
  | zero => rfl
  | succ w ih => cases i <;> simp [zeros, nthQ, ih]

theorem length_unitFrom (k w j : Nat) : (unitFrom k w j).length = w := by
  induction w generalizing j with
  | zero => rfl
  | succ w ih => simp [unitFrom, ih]

theorem nthQ_unitFrom (k w j i : Nat) :
    nthQ (unitFrom k w j) i = if i < w ∧ j + i = k then 1 else 0 := by
  induction w generalizing j i with
  | zero => simp [unitFrom, nthQ]
  | succ w ih =>
    cases i with
    | zero => simp [unitFrom, nthQ]
    | succ i =>
      simp only [unitFrom, nthQ, ih]
      have : j + 1 + i = j + (i + 1) := by omega
      simp [this]

theorem length_unit (w k : Nat) : (unit w k).length = w := length_unitFrom k w 0

theorem nthQ_unit (w k i : Nat) : nthQ (unit w k) i = if i < w ∧ i = k then 1 else 0 := by
  simp [unit, nthQ_unitFrom]

/-- two rows of the same length with the same entries are the same row -/
theorem row_ext (a b : List Rat) (hl : a.length = b.length) (h : ∀ i, i < a.length → nthQ a i = nthQ b i) : a = b := by
  induction a generalizing b with
  | nil => cases b with
    | nil => rfl
    | cons y ys => simp at hl
  | cons x xs ih =>
    cases b with
    | nil => simp at hl
    | cons y ys =>
      have h0 := h 0 (by simp)
      simp only [nthQ] at h0
      have := ih ys (by simpa using hl) (fun i hi => by
        have := h (i+1) (by simpa using hi)
        simpa [nthQ] using this)
      rw [h0, this]

theorem sumR_append (a b : List (Nat × Rat)) : sumR (a ++ b) = sumR a + sumR b := by
  induction a with
  | nil => simp [sumR]
  | cons x xs ih => obtain ⟨s, r⟩ := x; simp [sumR, ih]; ring

theorem countS1_append (i : Nat) (a b : List (Nat × Rat)) : countS1 i (a ++ b) = countS1 i a + countS1 i b := by
  induction a with
  | nil => simp [countS1]
  | cons x xs ih => obtain ⟨s, r⟩ := x; simp [countS1, ih]; omega

/-- Σ r² of the records -/
def sumSq : List (Nat × Rat) → Rat
  | [] => 0
  | (_, r) :: t => r * r + sumSq t

theorem sumSq_append (a b : List (Nat × Rat)) : sumSq (a ++ b) = sumSq a + sumSq b := by
  induction a with
  | nil => simp [sumSq]
  | cons x xs ih => obtain ⟨s, r⟩ := x; simp [sumSq, ih]; ring

/-- Σ (r − m)² = Σ r² − 2 m Σ r + n m² -/
theorem sqdev_expand (l : List (Nat × Rat)) (m : Rat) :
    sumQ (l.map (fun x => (x.2 - m) * (x.2 - m))) = sumSq l - 2 * m * sumR l + (l.length : Rat) * m ^ 2 := by
  induction l with
  | nil => simp [sumQ, sumSq, sumR]
  | cons x xs ih =>
    obtain ⟨s, r⟩ := x
    simp only [List.map_cons, sumQ, sumSq, sumR, List.length_cons, ih, Nat.cast_add, Nat.cast_one]
    ring

/-! ## §2 Welford cell -/

/-- division-free invariant of the Welford update, one step -/
theorem Cell.record_step (w : Cell) (x sx sq : Rat)
    (h1 : (w.n : Rat) * w.mean = sx) (h2 : w.m2 = sq - w.n * w.mean ^ 2) :
    (((w.record x).n : Nat) : Rat) * (w.record x).mean = sx + x ∧
    (w.record x).m2 = (sq + x * x) - (w.record x).n * (w.record x).mean ^ 2 := by
  have hn : ((w.n : Rat) + 1) ≠ 0 := by positivity
  simp only [Cell.record, Nat.cast_add, Nat.cast_one]
  constructor
  · field_simp; linarith
  · rw [h2]; field_simp; ring


/-- Welford over a whole list of rewards, from any state satisfying the invariant -/
theorem Cell.foldl_record_inv (xs : List Rat) (w : Cell) (sx sq : Rat)
    (h1 : (w.n : Rat) * w.mean = sx) (h2 : w.m2 = sq - w.n * w.mean ^ 2) :
    (xs.foldl Cell.record w).n = w.n + xs.length ∧
    (((xs.foldl Cell.record w).n : Nat) : Rat) * (xs.foldl Cell.record w).mean = sx + xs.sum ∧
    (xs.foldl Cell.record w).m2 = (sq + (xs.map (fun x => x * x)).sum)
        - (xs.foldl Cell.record w).n * (xs.foldl Cell.record w).mean ^ 2 := by
  induction xs generalizing w sx sq with
  | nil => simp [h1, h2]
  | cons x xs ih =>
    simp only [List.foldl_cons, List.length_cons, List.sum_cons, List.map_cons]
    obtain ⟨h1', h2'⟩ := Cell.record_step w x sx sq h1 h2
    obtain ⟨a, b, c⟩ := ih (w.record x) (sx + x) (sq + x * x) h1' h2'
    refine ⟨?_, ?_, ?_⟩
    · rw [a]; simp [Cell.record]; omega
    · rw [b]; ring
    · rw [c]; ring

/-- **welford_exact**: after recording the rewards `xs` into a fresh cell: the count is the number
    of records, `n·mean = Σx` and `M2 = Σx² − n·mean²` -/
theorem welford_exact (xs : List Rat) :
    let r := xs.foldl Cell.record Cell.init
    r.n = xs.length ∧ (r.n : Rat) * r.mean = xs.sum ∧
    r.m2 = (xs.map (fun x => x * x)).sum - r.n * r.mean ^ 2 := by
  have := Cell.foldl_record_inv xs Cell.init 0 0 (by simp [Cell.init]) (by simp [Cell.init])
  simpa [Cell.init] using this

example : (([1, 2, 6] : List Rat).foldl Cell.record Cell.init) = ⟨3, 3, 14⟩ := by  -- test on literals
  norm_num [List.foldl, Cell.record, Cell.init]


/-! ## §3 the experience part of a pair mirrors the recorded data -/

section frame
variable (cfg : Cfg) (p : Pair)

@[simp] theorem fullSync_cell : (p.fullSync cfg).cell = p.cell := by unfold Pair.fullSync; split <;> rfl
@[simp] theorem fullSync_cnt : (p.fullSync cfg).cnt = p.cnt := by unfold Pair.fullSync; split <;> rfl
@[simp] theorem fullSync_dfl : (p.fullSync cfg).dfl = p.dfl := by unfold Pair.fullSync; split <;> rfl
@[simp] theorem fullSync_idx : (p.fullSync cfg).idx = p.idx := by unfold Pair.fullSync; split <;> rfl

@[simp] theorem incSync_cell (s1 : Nat) : (p.incSync cfg s1).cell = p.cell := by
  unfold Pair.incSync; dsimp only; split_ifs <;> simp
@[simp] theorem incSync_cnt (s1 : Nat) : (p.incSync cfg s1).cnt = p.cnt := by
  unfold Pair.incSync; dsimp only; split_ifs <;> simp
@[simp] theorem incSync_dfl (s1 : Nat) : (p.incSync cfg s1).dfl = p.dfl := by
  unfold Pair.incSync; dsimp only; split_ifs <;> simp
@[simp] theorem incSync_idx (s1 : Nat) : (p.incSync cfg s1).idx = p.idx := by
  unfold Pair.incSync; dsimp only; split_ifs <;> simp

@[simp] theorem ctor_cell (b : Bool) : (p.ctor cfg b).cell = p.cell := by
  unfold Pair.ctor; dsimp only; split_ifs <;> simp
@[simp] theorem ctor_cnt (b : Bool) : (p.ctor cfg b).cnt = p.cnt := by
  unfold Pair.ctor; dsimp only; split_ifs <;> simp
@[simp] theorem ctor_dfl (b : Bool) : (p.ctor cfg b).dfl = p.dfl := by
  unfold Pair.ctor; dsimp only; split_ifs <;> simp
@[simp] theorem ctor_idx (b : Bool) : (p.ctor cfg b).idx = p.idx := by
  unfold Pair.ctor; dsimp only; split_ifs <;> simp
end frame

/-- the experience part of pair `p` is exactly what the records `recs` (those since the last
    `reset`) say: count, `n·mean = Σr`, `M2 = Σr² − n·mean²`, per-next-state counts -/
structure ExpOK (w : Nat) (p : Pair) (recs : List (Nat × Rat)) : Prop where
  len : p.cnt.length = w
  n : p.cell.n = recs.length
  mean : (p.cell.n : Rat) * p.cell.mean = sumR recs
  m2 : p.cell.m2 = sumSq recs - p.cell.n * p.cell.mean ^ 2
  cnt : ∀ i, i < w → nthN p.cnt i = countS1 i recs
  mean0 : recs = [] → p.cell.mean = 0

theorem ExpOK.init (w dfl idx : Nat) : ExpOK w (Pair.init w dfl idx) [] := by
  constructor <;> simp [Pair.init, Cell.init, sumR, sumSq, countS1, nthN_replicate_zero]

/-- every local operation keeps the experience part equal to the recorded data -/
theorem ExpOK.step (cfg : Cfg) (w : Nat) (p : Pair) (g : Ghost) (op : LOp)
    (h : ExpOK w p g.recs) : ExpOK w (p.step cfg op) (g.step op).recs := by
  cases op with
  | record s1 r =>
    obtain ⟨hm, hq⟩ := Cell.record_step p.cell r (sumR g.recs) (sumSq g.recs) h.mean h.m2
    refine ⟨?_, ?_, ?_, ?_, ?_, by simp [Ghost.step]⟩
    · simp [Pair.step, length_bump, h.len]
    · simp [Pair.step, Ghost.step, Cell.record, h.n]
    · simp only [Pair.step, Ghost.step, sumR_append, sumR]; rw [hm]; ring
    · simp only [Pair.step, Ghost.step, sumSq_append, sumSq]; rw [hq]; ring
    · intro i hi
      simp only [Pair.step, Ghost.step, nthN_bump, countS1_append, countS1, h.cnt i hi, h.len]
      by_cases e : s1 = i
      · subst e; simp [hi]
      · simp [e]
  | sync => exact ⟨by simpa [Pair.step] using h.len, by simpa [Pair.step, Ghost.step] using h.n,
      by simpa [Pair.step, Ghost.step] using h.mean, by simpa [Pair.step, Ghost.step] using h.m2,
      by simpa [Pair.step, Ghost.step] using h.cnt, by simpa [Pair.step, Ghost.step] using h.mean0⟩
  | syncInc s1 => exact ⟨by simpa [Pair.step] using h.len, by simpa [Pair.step, Ghost.step] using h.n,
      by simpa [Pair.step, Ghost.step] using h.mean, by simpa [Pair.step, Ghost.step] using h.m2,
      by simpa [Pair.step, Ghost.step] using h.cnt, by simpa [Pair.step, Ghost.step] using h.mean0⟩
  | reset =>
    refine ⟨by simp [Pair.step, h.len], ?_, ?_, ?_, ?_, ?_⟩
    · simp [Pair.step, Ghost.step, Cell.init]
    · simp [Pair.step, Ghost.step, Cell.init, sumR]
    · simp [Pair.step, Ghost.step, Cell.init, sumSq]
    · intro i _
      simp only [Pair.step, Ghost.step, countS1]
      exact nthN_map_zero p.cnt i
    · simp [Pair.step, Cell.init]
  | ctor b =>
    cases b <;> exact ⟨by simpa [Pair.step] using h.len, by simpa [Pair.step, Ghost.step] using h.n,
      by simpa [Pair.step, Ghost.step] using h.mean, by simpa [Pair.step, Ghost.step] using h.m2,
      by simpa [Pair.step, Ghost.step] using h.cnt, by simpa [Pair.step, Ghost.step] using h.mean0⟩
  | nop => simpa [Pair.step, Ghost.step] using h

theorem ExpOK.run (cfg : Cfg) (w : Nat) (h : List LOp) (p : Pair) (g : Ghost)
    (h0 : ExpOK w p g.recs) : ExpOK w (p.run cfg h) (g.run h).recs := by
  induction h generalizing p g with
  | nil => simpa [Pair.run, Ghost.run] using h0
  | cons op t ih =>
    simp only [Pair.run, Ghost.run, List.foldl_cons]
    exact ih _ _ (ExpOK.step cfg w p g op h0)

/-- what `ExpOK` says in the words of the property: visit counts, mean reward and sum of squared
    deviations are those of the recorded data -/
theorem ExpOK.spec {w : Nat} {p : Pair} {recs : List (Nat × Rat)} (h : ExpOK w p recs) :
    p.cell.n = recs.length ∧ p.cell.mean = meanOf recs ∧ p.cell.m2 = sqDevOf recs ∧
    ∀ i, i < w → nthN p.cnt i = countS1 i recs := by
  have hm : p.cell.mean = meanOf recs := by
    unfold meanOf
    by_cases e : recs = []
    · simp [e, h.mean0 e]
    · have hl : (recs.length : Rat) ≠ 0 := by
        have : recs.length ≠ 0 := by simpa using e
        exact_mod_cast this
      have := h.mean
      rw [h.n] at this
      simp only [List.isEmpty_iff, e, if_false]
      field_simp
      linarith
  refine ⟨h.n, hm, ?_, h.cnt⟩
  unfold sqDevOf
  simp only []
  rw [sqdev_expand, ← hm, h.m2, ← h.mean, h.n]
  ring

end AITB.Exp
