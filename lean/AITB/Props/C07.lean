/-
  AITB.Props.C07 — "Experience and learned models mirror the recorded history".

  Theorems about `AITB.Model.Experience` (which see for the anchors).  Everything is proved for
  all table shapes, all histories, all rational rewards, every value of the resync period.
  Layout:  §1 list helpers · §2 Welford cell · §3 experience part of a pair mirrors the records ·
  §4 sync algebra (full / incremental) · §5 history-level invariant of the learned model ·
  §6 lifting from one pair to a table (`World`) · §7 constructor and uninitialised storage ·
  §8 Thompson rows.
-/
import AITB.Model.Experience
import Mathlib.Algebra.Order.Field.Rat
import Mathlib.Tactic.Ring
import Mathlib.Tactic.FieldSimp
import Mathlib.Tactic.Linarith
import Mathlib.Tactic.Positivity
import Mathlib.Tactic.NormNum

namespace AITB.Exp

/-! ## §1 list helpers -/

theorem length_setQ (l : List Rat) (k : Nat) (v : Rat) : (setQ l k v).length = l.length := by
  induction l generalizing k with
  | nil => rfl
  | cons x xs ih => cases k <;> simp [setQ, ih]

theorem nthQ_setQ (l : List Rat) (k i : Nat) (v : Rat) :
    nthQ (setQ l k v) i = if k = i ∧ k < l.length then v else nthQ l i := by
  induction l generalizing k i with
  | nil => simp [setQ, nthQ]
  | cons x xs ih =>
    cases k with
    | zero => cases i <;> simp [setQ, nthQ]
    | succ k =>
      cases i with
      | zero => simp [setQ, nthQ]
      | succ i => simp [setQ, nthQ, ih]

theorem nthQ_map_div (l : List Rat) (c : Rat) (i : Nat) :
    nthQ (l.map (fun x => x / c)) i = nthQ l i / c := by
  induction l generalizing i with
  | nil => simp [nthQ]
  | cons x xs ih => cases i <;> simp [nthQ, ih]

theorem nthQ_map_cast (l : List Nat) (n : Rat) (i : Nat) :
    nthQ (l.map (fun (c : Nat) => (c : Rat) / n)) i = (nthN l i : Rat) / n := by
  induction l generalizing i with
  | nil => simp [nthQ, nthN]
  | cons x xs ih => cases i <;> simp [nthQ, nthN, ih]

theorem length_bump (l : List Nat) (k : Nat) : (bump l k).length = l.length := by
  induction l generalizing k with
  | nil => rfl
  | cons x xs ih => cases k <;> simp [bump, ih]

theorem nthN_bump (l : List Nat) (k i : Nat) :
    nthN (bump l k) i = nthN l i + (if k = i ∧ k < l.length then 1 else 0) := by
  induction l generalizing k i with
  | nil => simp [bump, nthN]
  | cons x xs ih =>
    cases k with
    | zero => cases i <;> simp [bump, nthN]
    | succ k =>
      cases i with
      | zero => simp [bump, nthN]
      | succ i => simp [bump, nthN, ih]

theorem nthN_map_zero (l : List Nat) (i : Nat) : nthN (l.map (fun _ => 0)) i = 0 := by
  induction l generalizing i with
  | nil => rfl
  | cons x xs ih =>
    cases i with
    | zero => rfl
    | succ i => simpa only [List.map, nthN] using ih i

theorem nthN_replicate_zero (w i : Nat) : nthN (List.replicate w 0) i = 0 := by
  induction w generalizing i with
  | zero => rfl
  | succ w ih => cases i <;> simp [List.replicate, nthN, ih]

theorem length_zeros (w : Nat) : (zeros w).length = w := by
  induction w with
  | zero => rfl
  | succ w ih => simp [zeros, ih]

theorem nthQ_zeros (w i : Nat) : nthQ (zeros w) i = 0 := by
  induction w generalizing i with
  | zero => rfl
  | succ w ih => cases i <;> simp [zeros, nthQ, ih]

theorem length_unitFrom (k w j : Nat) : (unitFrom k w j).length = w := by
  induction w generalizing j with
  | zero => rfl
  | succ w ih => simp [unitFrom, ih]

theorem nthQ_unitFrom (k w j i : Nat) :
    nthQ (unitFrom k w j) i = if i < w ∧ j + i = k then 1 else 0 := by
  induction w generalizing j i with
  | zero => simp [unitFrom, nthQ]
  | succ w ih =>
    cases i with
    | zero => simp [unitFrom, nthQ]
    | succ i =>
      simp only [unitFrom, nthQ, ih]
      have : j + 1 + i = j + (i + 1) := by omega
      simp [this]

theorem length_junkRow (cfg : Cfg) (idx w j : Nat) : (junkRow cfg idx w j).length = w := by
  induction w generalizing j with
  | zero => rfl
  | succ w ih => simp [junkRow, ih]

theorem length_unit (w k : Nat) : (unit w k).length = w := length_unitFrom k w 0

theorem nthQ_unit (w k i : Nat) : nthQ (unit w k) i = if i < w ∧ i = k then 1 else 0 := by
  simp [unit, nthQ_unitFrom]

/-- two rows of the same length with the same entries are the same row -/
theorem row_ext (a b : List Rat) (hl : a.length = b.length) (h : ∀ i, i < a.length → nthQ a i = nthQ b i) : a = b := by
  induction a generalizing b with
  | nil => cases b with
    | nil => rfl
    | cons y ys => simp at hl
  | cons x xs ih =>
    cases b with
    | nil => simp at hl
    | cons y ys =>
      have h0 := h 0 (by simp)
      simp only [nthQ] at h0
      have := ih ys (by simpa using hl) (fun i hi => by
        have := h (i+1) (by simpa using hi)
        simpa [nthQ] using this)
      rw [h0, this]

theorem sumR_append (a b : List (Nat × Rat)) : sumR (a ++ b) = sumR a + sumR b := by
  induction a with
  | nil => simp [sumR]
  | cons x xs ih => obtain ⟨s, r⟩ := x; simp [sumR, ih]; ring

theorem countS1_append (i : Nat) (a b : List (Nat × Rat)) : countS1 i (a ++ b) = countS1 i a + countS1 i b := by
  induction a with
  | nil => simp [countS1]
  | cons x xs ih => obtain ⟨s, r⟩ := x; simp [countS1, ih]; omega

/-- Σ r² of the records -/
def sumSq : List (Nat × Rat) → Rat
  | [] => 0
  | (_, r) :: t => r * r + sumSq t

theorem sumSq_append (a b : List (Nat × Rat)) : sumSq (a ++ b) = sumSq a + sumSq b := by
  induction a with
  | nil => simp [sumSq]
  | cons x xs ih => obtain ⟨s, r⟩ := x; simp [sumSq, ih]; ring

/-- Σ (r − m)² = Σ r² − 2 m Σ r + n m² -/
theorem sqdev_expand (l : List (Nat × Rat)) (m : Rat) :
    sumQ (l.map (fun x => (x.2 - m) * (x.2 - m))) = sumSq l - 2 * m * sumR l + (l.length : Rat) * m ^ 2 := by
  induction l with
  | nil => simp [sumQ, sumSq, sumR]
  | cons x xs ih =>
    obtain ⟨s, r⟩ := x
    simp only [List.map_cons, sumQ, sumSq, sumR, List.length_cons, ih, Nat.cast_add, Nat.cast_one]
    ring

/-! ## §2 Welford cell -/

/-- division-free invariant of the Welford update, one step -/
theorem Cell.record_step (w : Cell) (x sx sq : Rat)
    (h1 : (w.n : Rat) * w.mean = sx) (h2 : w.m2 = sq - w.n * w.mean ^ 2) :
    (((w.record x).n : Nat) : Rat) * (w.record x).mean = sx + x ∧
    (w.record x).m2 = (sq + x * x) - (w.record x).n * (w.record x).mean ^ 2 := by
  have hn : ((w.n : Rat) + 1) ≠ 0 := by positivity
  simp only [Cell.record, Nat.cast_add, Nat.cast_one]
  constructor
  · field_simp; linarith
  · rw [h2]; field_simp; ring


/-- Welford over a whole list of rewards, from any state satisfying the invariant -/
theorem Cell.foldl_record_inv (xs : List Rat) (w : Cell) (sx sq : Rat)
    (h1 : (w.n : Rat) * w.mean = sx) (h2 : w.m2 = sq - w.n * w.mean ^ 2) :
    (xs.foldl Cell.record w).n = w.n + xs.length ∧
    (((xs.foldl Cell.record w).n : Nat) : Rat) * (xs.foldl Cell.record w).mean = sx + xs.sum ∧
    (xs.foldl Cell.record w).m2 = (sq + (xs.map (fun x => x * x)).sum)
        - (xs.foldl Cell.record w).n * (xs.foldl Cell.record w).mean ^ 2 := by
  induction xs generalizing w sx sq with
  | nil => simp [h1, h2]
  | cons x xs ih =>
    simp only [List.foldl_cons, List.length_cons, List.sum_cons, List.map_cons]
    obtain ⟨h1', h2'⟩ := Cell.record_step w x sx sq h1 h2
    obtain ⟨a, b, c⟩ := ih (w.record x) (sx + x) (sq + x * x) h1' h2'
    refine ⟨?_, ?_, ?_⟩
    · rw [a]; simp [Cell.record]; omega
    · rw [b]; ring
    · rw [c]; ring

/-- **welford_exact**: after recording the rewards `xs` into a fresh cell: the count is the number
    of records, `n·mean = Σx` and `M2 = Σx² − n·mean²` -/
theorem welford_exact (xs : List Rat) :
    let r := xs.foldl Cell.record Cell.init
    r.n = xs.length ∧ (r.n : Rat) * r.mean = xs.sum ∧
    r.m2 = (xs.map (fun x => x * x)).sum - r.n * r.mean ^ 2 := by
  have := Cell.foldl_record_inv xs Cell.init 0 0 (by simp [Cell.init]) (by simp [Cell.init])
  simpa [Cell.init] using this

example : (([1, 2, 6] : List Rat).foldl Cell.record Cell.init) = ⟨3, 3, 14⟩ := by  -- test on literals
  norm_num [List.foldl, Cell.record, Cell.init]


/-! ## §3 the experience part of a pair mirrors the recorded data -/

section frame
variable (cfg : Cfg) (p : Pair)

@[simp] theorem fullSync_cell : (p.fullSync cfg).cell = p.cell := by unfold Pair.fullSync; split <;> rfl
@[simp] theorem fullSync_cnt : (p.fullSync cfg).cnt = p.cnt := by unfold Pair.fullSync; split <;> rfl
@[simp] theorem fullSync_dfl : (p.fullSync cfg).dfl = p.dfl := by unfold Pair.fullSync; split <;> rfl
@[simp] theorem fullSync_idx : (p.fullSync cfg).idx = p.idx := by unfold Pair.fullSync; split <;> rfl

@[simp] theorem incSync_cell (s1 : Nat) : (p.incSync cfg s1).cell = p.cell := by
  unfold Pair.incSync; dsimp only; split_ifs <;> simp
@[simp] theorem incSync_cnt (s1 : Nat) : (p.incSync cfg s1).cnt = p.cnt := by
  unfold Pair.incSync; dsimp only; split_ifs <;> simp
@[simp] theorem incSync_dfl (s1 : Nat) : (p.incSync cfg s1).dfl = p.dfl := by
  unfold Pair.incSync; dsimp only; split_ifs <;> simp
@[simp] theorem incSync_idx (s1 : Nat) : (p.incSync cfg s1).idx = p.idx := by
  unfold Pair.incSync; dsimp only; split_ifs <;> simp

@[simp] theorem ctor_cell (b : Bool) : (p.ctor cfg b).cell = p.cell := by
  unfold Pair.ctor; dsimp only; split_ifs <;> simp
@[simp] theorem ctor_cnt (b : Bool) : (p.ctor cfg b).cnt = p.cnt := by
  unfold Pair.ctor; dsimp only; split_ifs <;> simp
@[simp] theorem ctor_dfl (b : Bool) : (p.ctor cfg b).dfl = p.dfl := by
  unfold Pair.ctor; dsimp only; split_ifs <;> simp
@[simp] theorem ctor_idx (b : Bool) : (p.ctor cfg b).idx = p.idx := by
  unfold Pair.ctor; dsimp only; split_ifs <;> simp
end frame

/-- the experience part of pair `p` is exactly what the records `recs` (those since the last
    `reset`) say: count, `n·mean = Σr`, `M2 = Σr² − n·mean²`, per-next-state counts -/
structure ExpOK (w : Nat) (p : Pair) (recs : List (Nat × Rat)) : Prop where
  len : p.cnt.length = w
  n : p.cell.n = recs.length
  mean : (p.cell.n : Rat) * p.cell.mean = sumR recs
  m2 : p.cell.m2 = sumSq recs - p.cell.n * p.cell.mean ^ 2
  cnt : ∀ i, i < w → nthN p.cnt i = countS1 i recs
  mean0 : recs = [] → p.cell.mean = 0

theorem ExpOK.init (w dfl idx : Nat) : ExpOK w (Pair.init w dfl idx) [] := by
  constructor <;> simp [Pair.init, Cell.init, sumR, sumSq, countS1, nthN_replicate_zero]

/-- every local operation keeps the experience part equal to the recorded data -/
theorem ExpOK.step (cfg : Cfg) (w : Nat) (p : Pair) (g : Ghost) (op : LOp)
    (h : ExpOK w p g.recs) : ExpOK w (p.step cfg op) (g.step op).recs := by
  cases op with
  | record s1 r =>
    obtain ⟨hm, hq⟩ := Cell.record_step p.cell r (sumR g.recs) (sumSq g.recs) h.mean h.m2
    refine ⟨?_, ?_, ?_, ?_, ?_, by simp [Ghost.step]⟩
    · simp [Pair.step, length_bump, h.len]
    · simp [Pair.step, Ghost.step, Cell.record, h.n]
    · simp only [Pair.step, Ghost.step, sumR_append, sumR]; rw [hm]; ring
    · simp only [Pair.step, Ghost.step, sumSq_append, sumSq]; rw [hq]; ring
    · intro i hi
      simp only [Pair.step, Ghost.step, nthN_bump, countS1_append, countS1, h.cnt i hi, h.len]
      by_cases e : s1 = i
      · subst e; simp [hi]
      · simp [e]
  | sync => exact ⟨by simpa [Pair.step] using h.len, by simpa [Pair.step, Ghost.step] using h.n,
      by simpa [Pair.step, Ghost.step] using h.mean, by simpa [Pair.step, Ghost.step] using h.m2,
      by simpa [Pair.step, Ghost.step] using h.cnt, by simpa [Pair.step, Ghost.step] using h.mean0⟩
  | syncInc s1 => exact ⟨by simpa [Pair.step] using h.len, by simpa [Pair.step, Ghost.step] using h.n,
      by simpa [Pair.step, Ghost.step] using h.mean, by simpa [Pair.step, Ghost.step] using h.m2,
      by simpa [Pair.step, Ghost.step] using h.cnt, by simpa [Pair.step, Ghost.step] using h.mean0⟩
  | reset =>
    refine ⟨by simp [Pair.step, h.len], ?_, ?_, ?_, ?_, ?_⟩
    · simp [Pair.step, Ghost.step, Cell.init]
    · simp [Pair.step, Ghost.step, Cell.init, sumR]
    · simp [Pair.step, Ghost.step, Cell.init, sumSq]
    · intro i _
      simp only [Pair.step, Ghost.step, countS1]
      exact nthN_map_zero p.cnt i
    · simp [Pair.step, Cell.init]
  | ctor b =>
    cases b <;> exact ⟨by simpa [Pair.step] using h.len, by simpa [Pair.step, Ghost.step] using h.n,
      by simpa [Pair.step, Ghost.step] using h.mean, by simpa [Pair.step, Ghost.step] using h.m2,
      by simpa [Pair.step, Ghost.step] using h.cnt, by simpa [Pair.step, Ghost.step] using h.mean0⟩
  | nop => simpa [Pair.step, Ghost.step] using h

theorem ExpOK.run (cfg : Cfg) (w : Nat) (h : List LOp) (p : Pair) (g : Ghost)
    (h0 : ExpOK w p g.recs) : ExpOK w (p.run cfg h) (g.run h).recs := by
  induction h generalizing p g with
  | nil => simpa [Pair.run, Ghost.run] using h0
  | cons op t ih =>
    simp only [Pair.run, Ghost.run, List.foldl_cons]
    exact ih _ _ (ExpOK.step cfg w p g op h0)

/-- what `ExpOK` says in the words of the property: visit counts, mean reward and sum of squared
    deviations are those of the recorded data -/
theorem ExpOK.spec {w : Nat} {p : Pair} {recs : List (Nat × Rat)} (h : ExpOK w p recs) :
    p.cell.n = recs.length ∧ p.cell.mean = meanOf recs ∧ p.cell.m2 = sqDevOf recs ∧
    ∀ i, i < w → nthN p.cnt i = countS1 i recs := by
  have hm : p.cell.mean = meanOf recs := by
    unfold meanOf
    by_cases e : recs = []
    · simp [e, h.mean0 e]
    · have hl : (recs.length : Rat) ≠ 0 := by
        have : recs.length ≠ 0 := by simpa using e
        exact_mod_cast this
      have := h.mean
      rw [h.n] at this
      simp only [List.isEmpty_iff, e, if_false]
      field_simp
      linarith
  refine ⟨h.n, hm, ?_, h.cnt⟩
  unfold sqDevOf
  simp only []
  rw [sqdev_expand, ← hm, h.m2, ← h.mean, h.n]
  ring

theorem ExpOK.congr {w : Nat} {p q : Pair} {recs : List (Nat × Rat)} (hc : q.cell = p.cell) (hn : q.cnt = p.cnt)
    (h : ExpOK w p recs) : ExpOK w q recs :=
  ⟨by rw [hn]; exact h.len, by rw [hc]; exact h.n, by rw [hc]; exact h.mean, by rw [hc]; exact h.m2,
   by rw [hn]; exact h.cnt, by rw [hc]; exact h.mean0⟩

/-! ## §4 sync algebra -/

/-- the reward clause: equal to the empirical mean; for the sparse model (which copies the reward
    only under `checkDifferentSmall`) equal or within that tolerance -/
def RewOK (cfg : Cfg) (rew m : Rat) : Prop :=
  match cfg.rewTol with
  | none => rew = m
  | some t => rew = m ∨ absQ (rew - m) ≤ t

theorem copyRew_ok (cfg : Cfg) (old new : Rat) : RewOK cfg (copyRew cfg old new) new := by
  unfold RewOK copyRew
  cases cfg.rewTol with
  | none => rfl
  | some t =>
    simp only
    split_ifs with h
    · exact Or.inr h
    · exact Or.inl rfl

/-- with the dense reward rule the reward clause is plain equality -/
theorem RewOK_dense {cfg : Cfg} (h : cfg.rewTol = none) {rew m : Rat} (hr : RewOK cfg rew m) : rew = m := by
  unfold RewOK at hr; rw [h] at hr; exact hr

theorem fullSync_of_zero (cfg : Cfg) (p : Pair) (h : p.cell.n = 0) : p.fullSync cfg = p := by
  simp [Pair.fullSync, h]

/-- **full_sync_is_frequency**: `sync(s,a)` on a pair with data makes the row the empirical
    frequencies and the reward the empirical mean of the recorded data -/
theorem full_sync_is_frequency (cfg : Cfg) (hg : cfg.sparseGeneric = false) (w : Nat) (p : Pair) (recs : List (Nat × Rat))
    (he : ExpOK w p recs) (hne : recs ≠ []) :
    (p.fullSync cfg).row.length = w ∧ (∀ i, i < w → nthQ (p.fullSync cfg).row i = freqOf recs i) ∧
    RewOK cfg (p.fullSync cfg).rew (meanOf recs) := by
  have hn : p.cell.n ≠ 0 := by rw [he.n]; simpa using hne
  unfold Pair.fullSync
  rw [if_neg hn]
  simp only [hg, Bool.false_eq_true, if_false]
  refine ⟨by simp [he.len], fun i hi => ?_, ?_⟩
  · simp only [nthQ_map_cast, he.cnt i hi, freqOf, he.n]
  · rw [← he.spec.2.1]; exact copyRew_ok ..

theorem incSync_eq_full (cfg : Cfg) (p : Pair) (s1 : Nat) (h : p.cell.n % cfg.period = 0) :
    p.incSync cfg s1 = p.fullSync cfg := by
  simp [Pair.incSync, h]

theorem incSync_n1 (cfg : Cfg) (p : Pair) (s1 : Nat) (h0 : ¬ p.cell.n % cfg.period = 0) (h1 : p.cell.n = 1) :
    p.incSync cfg s1 = { p with rew := copyRew cfg p.rew p.cell.mean,
                                row := setQ (if cfg.n1Clear then zeros p.row.length else setQ p.row p.dfl 0) s1 1 } := by
  unfold Pair.incSync
  dsimp only
  rw [if_neg h0, if_pos h1]

def incNewV (p : Pair) (s1 : Nat) : Rat := (nthN p.cnt s1 : Rat) / ((p.cell.n - 1 : Nat) : Rat)
def incNewSum (p : Pair) (s1 : Nat) : Rat := 1 + (incNewV p s1 - nthQ p.row s1)

theorem incSync_ge2 (cfg : Cfg) (p : Pair) (s1 : Nat) (h0 : ¬ p.cell.n % cfg.period = 0) (h1 : ¬ p.cell.n = 1) :
    p.incSync cfg s1 = { p with rew := copyRew cfg p.rew p.cell.mean,
                                row := (setQ p.row s1 (incNewV p s1)).map (fun x => x / incNewSum p s1) } := by
  unfold Pair.incSync incNewSum incNewV
  dsimp only
  rw [if_neg h0, if_neg h1]

/-- the renormalisation identity behind `sync(s,a,s1)`: a row of frequencies with denominator `n`,
    one numerator raised by one, divided by `1 + (c+1)/n − c/n`, is the row with denominator `n+1` -/
theorem inc_algebra (n c k : Nat) (hn : n ≠ 0) :
    ((c + 1 : Nat) : Rat) / n / (1 + (((c + 1 : Nat) : Rat) / n - (c : Rat) / n)) = ((c + 1 : Nat) : Rat) / ((n + 1 : Nat) : Rat) ∧
    (k : Rat) / n / (1 + (((c + 1 : Nat) : Rat) / n - (c : Rat) / n)) = (k : Rat) / ((n + 1 : Nat) : Rat) := by
  have h1 : (n : Rat) ≠ 0 := by exact_mod_cast hn
  have h2 : ((n : Rat) + 1) ≠ 0 := by positivity
  push_cast
  constructor <;> field_simp <;> ring

/-! ## §5 history-level invariant of the learned model -/

/-- The learned-model part of a pair against the ghost `g`
    (`g.recs` records since the last reset, `g.snap` records absorbed by the last effective sync,
    `g.pend` record calls since the pair's last sync call).  `nr` = "no `reset` so far". -/
structure ModOK (cfg : Cfg) (w : Nat) (nr : Bool) (p : Pair) (g : Ghost) : Prop where
  rlen : p.row.length = w
  k1 : g.pend = 0 → g.recs = [] ∨ g.snap = g.recs
  k2 : g.pend = 1 → g.recs.length ≤ 1 ∨ g.snap = g.recs.dropLast
  mRow : g.snap ≠ [] → ∀ i, i < w → nthQ p.row i = freqOf g.snap i
  mRew : g.snap ≠ [] → RewOK cfg p.rew (meanOf g.snap)
  dflt : cfg.ctorJunk = false → g.snap = [] → p.row = unit w p.dfl ∧ p.rew = 0
  j1 : nr = true → g.pend ≤ g.recs.length
  j2 : nr = true → g.pend = g.recs.length → g.snap = []

theorem ModOK.init (cfg : Cfg) (w dfl idx : Nat) : ModOK cfg w true (Pair.init w dfl idx) Ghost.init := by
  constructor <;> simp [Pair.init, Ghost.init, length_unit]

theorem ModOK.of_synced {cfg : Cfg} {w : Nat} {nr : Bool} {q : Pair} {g' : Ghost}
    (hne : g'.recs ≠ []) (hs : g'.snap = g'.recs) (hp : g'.pend = 0)
    (hl : q.row.length = w) (hr : ∀ i, i < w → nthQ q.row i = freqOf g'.recs i)
    (hw : RewOK cfg q.rew (meanOf g'.recs)) : ModOK cfg w nr q g' := by
  refine ⟨hl, fun _ => Or.inr hs, fun h => by omega, fun _ => by rw [hs]; exact hr, fun _ => by rw [hs]; exact hw,
    fun _ h => absurd (hs ▸ h) hne, fun _ => by omega, fun _ h => ?_⟩
  rw [hp] at h
  exact absurd (List.length_eq_zero_iff.mp h.symm) hne

theorem ModOK.sync_empty {cfg : Cfg} {w : Nat} {nr : Bool} {p : Pair} {g : Ghost}
    (hm : ModOK cfg w nr p g) (he : g.recs = []) : ModOK cfg w nr p { g with pend := 0 } := by
  refine ⟨hm.rlen, fun _ => Or.inl he, fun h => by simp at h, hm.mRow, hm.mRew, hm.dflt, fun _ => by simp, fun hn _ => ?_⟩
  have h1 := hm.j1 hn
  have : g.pend = g.recs.length := by rw [he] at h1 ⊢; simpa using h1
  exact hm.j2 hn this

/-- an effective full sync establishes the model invariant from ANY previous row -/
theorem ModOK.of_fullSync (cfg : Cfg) (hg : cfg.sparseGeneric = false) (w : Nat) (nr : Bool) (p' : Pair) (recs : List (Nat × Rat))
    (he' : ExpOK w p' recs) (hne : recs ≠ []) (g' : Ghost) (h1 : g'.recs = recs) (h2 : g'.snap = recs) (h3 : g'.pend = 0) :
    ModOK cfg w nr (p'.fullSync cfg) g' := by
  obtain ⟨a, b, c⟩ := full_sync_is_frequency cfg hg w p' recs he' hne
  exact ModOK.of_synced (by rw [h1]; exact hne) (by rw [h1, h2]) h3 a (by rw [h1]; exact b) (by rw [h1]; exact c)

/-- constructing the learned model establishes the invariant whatever the pair's model part held before -/
theorem ModOK.ctor_any (cfg : Cfg) (hg : cfg.sparseGeneric = false) (w : Nat) (nr : Bool) (p : Pair) (g : Ghost) (b : Bool)
    (he : ExpOK w p g.recs) : ModOK cfg w nr (p.step cfg (.ctor b)) (g.step (.ctor b)) := by
  have full : ∀ (p' : Pair), ExpOK w p' g.recs → g.recs ≠ [] → ∀ g' : Ghost, g'.recs = g.recs → g'.snap = g.recs → g'.pend = 0 →
      ∀ nr', ModOK cfg w nr' (p'.fullSync cfg) g' :=
    fun p' he' hne g' h1 h2 h3 nr' => ModOK.of_fullSync cfg hg w nr' p' g.recs he' hne g' h1 h2 h3
  simp only [Pair.step]
  cases b with
  | false =>
    simp only [Ghost.step, Pair.ctor, Bool.false_eq_true, if_false]
    refine ⟨by simp [length_unit, he.len], fun h => ?_, fun h => ?_, fun h => by simp at h, fun h => by simp at h,
      fun _ _ => ⟨by simp [he.len], rfl⟩, fun _ => by simp, fun _ _ => rfl⟩
    · left; exact List.length_eq_zero_iff.mp (by simpa using h)
    · left; simp at h ⊢; omega
  | true =>
    simp only [Ghost.step, Pair.ctor, if_true]
    by_cases e : g.recs = []
    · have hn : p.cell.n = 0 := by rw [he.n, e]; rfl
      have hq : ∀ r0 : List Rat, (({ p with row := r0, rew := 0 } : Pair).fullSync cfg) = { p with row := r0, rew := 0 } :=
        fun r0 => fullSync_of_zero cfg _ hn
      simp only [hq, hn, if_true]
      refine ⟨?_, fun _ => Or.inl e, fun h => by simp at h, fun h => absurd (by simpa using e) h,
        fun h => absurd (by simpa using e) h, fun hj _ => ?_, fun _ => by simp, fun _ _ => by simpa using e⟩
      · rw [length_setQ]; split_ifs
        · simp [length_junkRow, he.len]
        · simp [length_zeros, he.len]
      · simp only [hj, Bool.false_eq_true, if_false]
        refine ⟨?_, by simp⟩
        apply row_ext
        · simp [length_setQ, length_zeros, length_unit, he.len]
        · intro i hi
          simp only [nthQ_setQ, nthQ_zeros, nthQ_unit, length_zeros, he.len]
          rw [length_setQ, length_zeros, he.len] at hi
          by_cases d : p.dfl = i
          · subst d; simp [hi]
          · have : ¬ i = p.dfl := fun x => d x.symm
            simp [d, this]
    · have hn : ¬ p.cell.n = 0 := by rw [he.n]; simpa using e
      have hq : ∀ r0 : List Rat, (({ p with row := r0, rew := 0 } : Pair).fullSync cfg).cell.n = p.cell.n := fun r0 => by simp
      simp only [hq, hn, if_false]
      exact full { p with row := if cfg.ctorJunk = true then junkRow cfg p.idx p.cnt.length 0 else zeros p.cnt.length, rew := 0 }
        (ExpOK.congr (p := p) rfl rfl he) e { g with snap := g.recs, pend := 0 } rfl rfl rfl _

def isInc : LOp → Bool
  | .syncInc _ => true
  | _ => false

/-- one local operation preserves the model invariant, provided the operation is well formed and
    respects the documented precondition of `sync(s,a,s1)`; the `visitSum == 1` branch needs either the
    repaired code (`n1Clear`) or a reset-free past over initialised storage -/
theorem ModOK.step (cfg : Cfg) (hg : cfg.sparseGeneric = false) (w : Nat) (nr : Bool) (p : Pair) (g : Ghost) (op : LOp)
    (he : ExpOK w p g.recs) (hm : ModOK cfg w nr p g)
    (hwf : opWF w op = true) (hpre : incPreOK g op = true)
    (hc : cfg.n1Clear = true ∨ (nr = true ∧ cfg.ctorJunk = false) ∨ g.recs.length ≠ 1 ∨ isInc op = false) :
    ModOK cfg w (nr && !isReset op) (p.step cfg op) (g.step op) := by
  -- effective full sync, shared by `sync`, the periodic branch of `syncInc`, `ctor true`
  have full : ∀ (p' : Pair), ExpOK w p' g.recs → g.recs ≠ [] → ∀ g' : Ghost, g'.recs = g.recs → g'.snap = g.recs → g'.pend = 0 →
      ∀ nr', ModOK cfg w nr' (p'.fullSync cfg) g' := by
    intro p' he' hne g' h1 h2 h3 nr'
    obtain ⟨a, b, c⟩ := full_sync_is_frequency cfg hg w p' g.recs he' hne
    exact ModOK.of_synced (by rw [h1]; exact hne) (by rw [h1, h2]) h3 a (by rw [h1]; exact b) (by rw [h1]; exact c)
  cases op with
  | nop => simpa [Pair.step, Ghost.step, isReset] using hm
  | record s1 r =>
    simp only [Pair.step, Ghost.step, isReset, Bool.not_false, Bool.and_true]
    refine ⟨hm.rlen, fun h => by simp at h, fun h => ?_, hm.mRow, hm.mRew, hm.dflt, fun hn => ?_, fun hn h => ?_⟩
    · have h0 : g.pend = 0 := by simpa using h
      rcases hm.k1 h0 with e | e
      · left; simp [e]
      · right; simp [e]
    · have := hm.j1 hn; simp; omega
    · have h' : g.pend = g.recs.length := by simpa using h
      exact hm.j2 hn h'
  | reset =>
    simp only [Pair.step, Ghost.step, isReset, Bool.not_true, Bool.and_false]
    exact ⟨hm.rlen, fun _ => Or.inl rfl, fun _ => Or.inl (by simp), hm.mRow, hm.mRew, hm.dflt,
      fun h => by simp at h, fun h => by simp at h⟩
  | sync =>
    simp only [Pair.step, Ghost.step, isReset, Bool.not_false, Bool.and_true]
    by_cases e : g.recs = []
    · have hn : p.cell.n = 0 := by rw [he.n, e]; rfl
      rw [fullSync_of_zero cfg p hn]
      simpa [e] using hm.sync_empty e
    · have : g.recs.isEmpty = false := by simpa using e
      simp only [this]
      exact full p he e { g with snap := g.recs, pend := 0 } rfl rfl rfl _
  | ctor b =>
    simp only [isReset, Bool.not_false, Bool.and_true]
    exact ModOK.ctor_any cfg hg w nr p g b he
  | syncInc s1 =>
    simp only [Pair.step, isReset, Bool.not_false, Bool.and_true]
    have hs1 : s1 < w := by simpa [opWF] using hwf
    simp only [incPreOK, Bool.and_eq_true, beq_iff_eq] at hpre
    obtain ⟨hp1, hlast⟩ := hpre
    by_cases e : g.recs = []
    · have hn : p.cell.n = 0 := by rw [he.n, e]; rfl
      rw [incSync_eq_full cfg p s1 (by simp [hn]), fullSync_of_zero cfg p hn]
      simpa [Ghost.step, e] using hm.sync_empty e
    · have hemp : g.recs.isEmpty = false := by simpa using e
      simp only [Ghost.step, hemp]
      by_cases hper : p.cell.n % cfg.period = 0
      · rw [incSync_eq_full cfg p s1 hper]
        exact full p he e { g with snap := g.recs, pend := 0 } rfl rfl rfl _
      · -- the last record of the pair went to `s1`
        obtain ⟨ys, r, hys⟩ : ∃ ys r, g.recs = ys ++ [(s1, r)] := by
          cases hl : g.recs.getLast? with
          | none => exact absurd (List.getLast?_eq_none_iff.mp hl) e
          | some xr =>
            obtain ⟨x, r⟩ := xr
            rw [hl] at hlast
            have hx : x = s1 := by simpa using hlast
            obtain ⟨ys, hys⟩ := List.getLast?_eq_some_iff.mp hl
            exact ⟨ys, r, by rw [hys, hx]⟩
        have hN : p.cell.n = ys.length + 1 := by rw [he.n, hys]; simp
        have hmean : RewOK cfg (copyRew cfg p.rew p.cell.mean) (meanOf g.recs) := by
          rw [← he.spec.2.1]; exact copyRew_ok ..
        by_cases h1 : p.cell.n = 1
        · rw [incSync_n1 cfg p s1 hper h1]
          have hy : ys = [] := List.length_eq_zero_iff.mp (by omega)
          have hrec : g.recs = [(s1, r)] := by rw [hys, hy]; rfl
          refine ModOK.of_synced (g' := { g with snap := g.recs, pend := 0 }) e rfl rfl ?_ ?_ hmean
          · simp only [length_setQ]
            split_ifs
            · simp [length_zeros, hm.rlen]
            · simp [length_setQ, hm.rlen]
          · intro i hi
            have hf : freqOf g.recs i = if s1 = i then 1 else 0 := by
              rw [hrec]; by_cases d : s1 = i <;> simp [freqOf, countS1, d]
            simp only [hf]
            by_cases hcl : cfg.n1Clear = true
            · simp only [hcl, if_true, nthQ_setQ, nthQ_zeros, length_zeros, hm.rlen]
              by_cases d : s1 = i
              · subst d; simp [hs1]
              · simp [d]
            · rcases hc with hc | ⟨hnr, hj⟩ | hc | hc
              · exact absurd hc hcl
              · have hsnap : g.snap = [] := hm.j2 hnr (by rw [hp1, hrec]; rfl)
                obtain ⟨hrow, _⟩ := hm.dflt hj hsnap
                simp only [hcl, Bool.false_eq_true, if_false, nthQ_setQ, length_setQ, hrow, nthQ_unit, length_unit]
                by_cases d : s1 = i
                · simp [d, hi]
                · simp only [d, false_and, if_false]
                  by_cases d2 : p.dfl = i
                  · subst d2; simp [hi]
                  · have : ¬ i = p.dfl := fun x => d2 x.symm
                    simp [d2, this]
              · exact absurd (by rw [hrec]; rfl) hc
              · simp [isInc] at hc
        · rw [incSync_ge2 cfg p s1 hper h1]
          have hyne : ys ≠ [] := by
            intro h; apply h1; rw [hN, h]; rfl
          have hyl : ys.length ≠ 0 := by simpa using hyne
          have hsnap : g.snap = ys := by
            rcases hm.k2 hp1 with h | h
            · rw [hys] at h; simp at h; first | omega | exact absurd h hyne
            · rw [h, hys]; simp
          have hrowOld : ∀ i, i < w → nthQ p.row i = freqOf ys i := by
            have := hm.mRow (by rw [hsnap]; exact hyne)
            rwa [hsnap] at this
          have hV : incNewV p s1 = ((countS1 s1 ys + 1 : Nat) : Rat) / (ys.length : Rat) := by
            unfold incNewV
            rw [he.cnt s1 hs1, hys, countS1_append, hN]
            simp [countS1]
          have hS : incNewSum p s1 = 1 + (((countS1 s1 ys + 1 : Nat) : Rat) / (ys.length : Rat) - (countS1 s1 ys : Rat) / (ys.length : Rat)) := by
            unfold incNewSum
            rw [hV, hrowOld s1 hs1]; rfl
          obtain ⟨alg1, _⟩ := inc_algebra ys.length (countS1 s1 ys) 0 hyl
          refine ModOK.of_synced (g' := { g with snap := g.recs, pend := 0 }) e rfl rfl ?_ ?_ hmean
          · simp [length_setQ, hm.rlen]
          · intro i hi
            simp only [nthQ_map_div, nthQ_setQ, hm.rlen, hS]
            have hlen : ((g.recs.length : Nat) : Rat) = ((ys.length + 1 : Nat) : Rat) := by rw [hys]; simp
            by_cases d : s1 = i
            · subst d
              simp only [hs1, and_self, if_true, hV, freqOf]
              rw [alg1, hlen, hys, countS1_append]
              simp [countS1]
            · simp only [d, false_and, if_false, hrowOld i hi, freqOf]
              rw [(inc_algebra ys.length (countS1 s1 ys) (countS1 i ys) hyl).2, hlen, hys, countS1_append]
              simp [countS1, d]

def noReset (h : List LOp) : Bool := h.all (fun op => !isReset op)
def wfAll (w : Nat) (h : List LOp) : Bool := h.all (opWF w)

@[simp] theorem step_dfl (cfg : Cfg) (p : Pair) (op : LOp) : (p.step cfg op).dfl = p.dfl := by
  cases op <;> simp [Pair.step]

@[simp] theorem run_dfl (cfg : Cfg) (p : Pair) (h : List LOp) : (p.run cfg h).dfl = p.dfl := by
  induction h generalizing p with
  | nil => rfl
  | cons op t ih => simp only [Pair.run, List.foldl_cons] at ih ⊢; rw [ih]; simp

/-- both invariants along a whole local history -/
theorem Inv.run (cfg : Cfg) (hg : cfg.sparseGeneric = false) (w : Nat) (h : List LOp) : ∀ (nr : Bool) (p : Pair) (g : Ghost),
    ExpOK w p g.recs → ModOK cfg w nr p g → wfAll w h = true → incPre g h = true →
    (cfg.n1Clear = true ∨ (nr = true ∧ noReset h = true ∧ cfg.ctorJunk = false)) →
    ExpOK w (p.run cfg h) (g.run h).recs ∧ ModOK cfg w (nr && noReset h) (p.run cfg h) (g.run h) := by
  induction h with
  | nil => intro nr p g he hm _ _ _; simpa [Pair.run, Ghost.run, noReset] using ⟨he, hm⟩
  | cons op t ih =>
    intro nr p g he hm hwf hpre hc
    simp only [wfAll, List.all_cons, Bool.and_eq_true] at hwf
    simp only [incPre, Bool.and_eq_true] at hpre
    have hc1 : cfg.n1Clear = true ∨ (nr = true ∧ cfg.ctorJunk = false) ∨ g.recs.length ≠ 1 ∨ isInc op = false := by
      rcases hc with h | ⟨a, _, c⟩
      · exact Or.inl h
      · exact Or.inr (Or.inl ⟨a, c⟩)
    have hm' := ModOK.step cfg hg w nr p g op he hm hwf.1 hpre.1 hc1
    have he' := ExpOK.step cfg w p g op he
    have hc2 : cfg.n1Clear = true ∨ ((nr && !isReset op) = true ∧ noReset t = true ∧ cfg.ctorJunk = false) := by
      rcases hc with h | ⟨a, b, c⟩
      · exact Or.inl h
      · simp only [noReset, List.all_cons, Bool.and_eq_true] at b
        exact Or.inr ⟨by simp [a, b.1], by simpa [noReset] using b.2, c⟩
    have := ih (nr && !isReset op) (p.step cfg op) (g.step op) he' hm' (by simpa [wfAll] using hwf.2) hpre.2 hc2
    simp only [Pair.run, Ghost.run, List.foldl_cons]
    have hb : (nr && !isReset op && noReset t) = (nr && noReset (op :: t)) := by
      simp [noReset, Bool.and_assoc]
    rw [← hb]
    exact this

/-- **incremental_sync_invariant** (the step DESIGN Appendix C plans): a pair whose row is the empirical
    frequencies of its (non-empty) data `recs` receives one record `(s1, r)` and then `sync(s,a,s1)`: the row
    is the empirical frequencies of `recs ++ [(s1,r)]` and the reward its mean — for every value of the resync
    `period`, for the code as written (no hypothesis on the first-visit branch: it is not reached). -/
theorem incremental_sync_invariant (cfg : Cfg) (hg : cfg.sparseGeneric = false) (w : Nat) (p : Pair)
    (recs : List (Nat × Rat)) (s1 : Nat) (r : Rat) (hs1 : s1 < w) (hne : recs ≠ [])
    (he : ExpOK w p recs) (hlen : p.row.length = w)
    (hrow : ∀ i, i < w → nthQ p.row i = freqOf recs i) (hrew : RewOK cfg p.rew (meanOf recs)) :
    let q := (p.step cfg (.record s1 r)).step cfg (.syncInc s1)
    (∀ i, i < w → nthQ q.row i = freqOf (recs ++ [(s1, r)]) i) ∧ RewOK cfg q.rew (meanOf (recs ++ [(s1, r)])) := by
  intro q
  let g : Ghost := { recs := recs, snap := recs, pend := 0 }
  have hm : ModOK cfg w false p g :=
    ⟨hlen, fun _ => Or.inr rfl, fun h => by simp [g] at h, fun _ => hrow, fun _ => hrew,
     fun _ h => absurd h hne, fun h => by simp at h, fun h => by simp at h⟩
  have hl : recs.length ≠ 0 := by simpa using hne
  have h1 := ModOK.step cfg hg w false p g (.record s1 r) he hm (by simp [opWF, hs1]) rfl
    (Or.inr (Or.inr (Or.inr rfl)))
  have e1 := ExpOK.step cfg w p g (.record s1 r) he
  have h2 := ModOK.step cfg hg w _ _ _ (.syncInc s1) e1 h1 (by simp [opWF, hs1])
    (by simp [incPreOK, Ghost.step, g]) (Or.inr (Or.inr (Or.inl (by simp [Ghost.step, g]; omega))))
  have hsn : ((g.step (.record s1 r)).step (.syncInc s1)).snap = recs ++ [(s1, r)] := by
    simp [Ghost.step, g]
  have hne' : ((g.step (.record s1 r)).step (.syncInc s1)).snap ≠ [] := by rw [hsn]; simp
  have a := h2.mRow hne'
  have b := h2.mRew hne'
  rw [hsn] at a b
  exact ⟨a, b⟩

/-- **model_mirrors_history** (one pair; `incremental_sync_invariant` is its third clause).
    For every local history that is well formed and in which every `sync(s,a,s1)` respects the documented
    precondition (exactly one new record for the pair since its last sync, and it went to `s1`):
    * the experience getters are the statistics of the records since the last reset;
    * if the pair was ever synced with data, its row is the empirical frequencies and its reward the
      empirical mean of the data present at its last effective sync;
    * otherwise the row is the fixed default unit row with reward 0 (over initialised storage);
    * a pair with data whose last call was a sync is up to date (absorbed data = all data).
    Hypothesis forced by the proof: the `visitSum == 1` branch of `sync(s,a,s1)` as written is only
    right on a default row — so either the repaired branch (`n1Clear`), or no `reset` in the history and
    no uninitialised constructor storage. -/
theorem model_mirrors_history (cfg : Cfg) (hg : cfg.sparseGeneric = false) (w dfl idx : Nat) (h : List LOp)
    (hwf : wfAll w h = true) (hpre : incPre Ghost.init h = true)
    (hc : cfg.n1Clear = true ∨ (noReset h = true ∧ cfg.ctorJunk = false)) :
    let p := (Pair.init w dfl idx).run cfg h
    let g := Ghost.init.run h
    (p.cell.n = g.recs.length ∧ p.cell.mean = meanOf g.recs ∧ p.cell.m2 = sqDevOf g.recs ∧
      ∀ i, i < w → nthN p.cnt i = countS1 i g.recs) ∧
    (g.snap ≠ [] → (∀ i, i < w → nthQ p.row i = freqOf g.snap i) ∧ RewOK cfg p.rew (meanOf g.snap)) ∧
    (cfg.ctorJunk = false → g.snap = [] → p.row = unit w dfl ∧ p.rew = 0) ∧
    (g.pend = 0 → g.recs ≠ [] → g.snap = g.recs) := by
  intro p g
  have hc' : cfg.n1Clear = true ∨ (true = true ∧ noReset h = true ∧ cfg.ctorJunk = false) := by
    rcases hc with a | ⟨a, b⟩
    · exact Or.inl a
    · exact Or.inr ⟨rfl, a, b⟩
  obtain ⟨he, hm⟩ := Inv.run cfg hg w h true (Pair.init w dfl idx) Ghost.init
    (by simpa [Ghost.init] using ExpOK.init w dfl idx) (ModOK.init cfg w dfl idx) hwf hpre hc'
  refine ⟨he.spec, fun hs => ⟨hm.mRow hs, hm.mRew hs⟩, fun hj hs => ?_, fun h0 hne => ?_⟩
  · have := hm.dflt hj hs
    simpa [p, Pair.init] using this
  · rcases hm.k1 h0 with e | e
    · exact absurd e hne
    · exact e

/-! ### recovery after a violated precondition -/

/-- calls that resynchronise a pair whatever its row held: a full sync with data (`sync(s,a)`, the pair's turn in
    `sync()`, or the periodic branch of `sync(s,a,s1)`), and constructing the model -/
def recovers (cfg : Cfg) (p : Pair) : LOp → Bool
  | .sync => p.cell.n != 0
  | .syncInc _ => p.cell.n != 0 && p.cell.n % cfg.period == 0
  | .ctor _ => true
  | _ => false

/-- **recovery_step**: a recovering call establishes the model invariant from an ARBITRARY model part
    (no hypothesis on the row, the reward, or on how the precondition was treated before) -/
theorem recovery_step (cfg : Cfg) (hg : cfg.sparseGeneric = false) (w : Nat) (nr : Bool) (p : Pair) (g : Ghost) (op : LOp)
    (he : ExpOK w p g.recs) (hr : recovers cfg p op = true) :
    ModOK cfg w nr (p.step cfg op) (g.step op) := by
  cases op with
  | ctor b => exact ModOK.ctor_any cfg hg w nr p g b he
  | sync =>
    have hn : p.cell.n ≠ 0 := by simpa [recovers] using hr
    have e : g.recs ≠ [] := by intro h; apply hn; rw [he.n, h]; rfl
    have hemp : g.recs.isEmpty = false := by simpa using e
    simp only [Pair.step, Ghost.step, hemp]
    exact ModOK.of_fullSync cfg hg w nr p g.recs he e { g with snap := g.recs, pend := 0 } rfl rfl rfl
  | syncInc s1 =>
    simp only [recovers, Bool.and_eq_true, bne_iff_ne, beq_iff_eq] at hr
    have e : g.recs ≠ [] := by intro h; apply hr.1; rw [he.n, h]; rfl
    have hemp : g.recs.isEmpty = false := by simpa using e
    simp only [Pair.step, Ghost.step, hemp, incSync_eq_full cfg p s1 hr.2]
    exact ModOK.of_fullSync cfg hg w nr p g.recs he e { g with snap := g.recs, pend := 0 } rfl rfl rfl
  | record s1 r => simp [recovers] at hr
  | reset => simp [recovers] at hr
  | nop => simp [recovers] at hr

theorem Pair.run_append (cfg : Cfg) (p : Pair) (h1 h2 : List LOp) : p.run cfg (h1 ++ h2) = (p.run cfg h1).run cfg h2 := by
  simp [Pair.run, List.foldl_append]

theorem Ghost.run_append (g : Ghost) (h1 h2 : List LOp) : g.run (h1 ++ h2) = (g.run h1).run h2 := by
  simp [Ghost.run, List.foldl_append]

/-- **recovery**: let `h1` be ANY local history (indices in or out of range, incremental syncs called with or
    without their precondition, wrong `s1` …).  If the next call `op` is a recovering one and the rest `h2` of the history
    is well formed and respects the precondition *from there on*, all conclusions of `model_mirrors_history` hold at
    the end of `h1 ++ op :: h2` — the damage of a violated precondition does not outlive the next full sync. -/
theorem recovery (cfg : Cfg) (hg : cfg.sparseGeneric = false) (w dfl idx : Nat) (h1 h2 : List LOp) (op : LOp)
    (hr : recovers cfg ((Pair.init w dfl idx).run cfg h1) op = true)
    (hwf : wfAll w h2 = true) (hpre : incPre ((Ghost.init.run h1).step op) h2 = true)
    (hc : cfg.n1Clear = true ∨ (noReset h2 = true ∧ cfg.ctorJunk = false)) :
    let p := (Pair.init w dfl idx).run cfg (h1 ++ op :: h2)
    let g := Ghost.init.run (h1 ++ op :: h2)
    (p.cell.n = g.recs.length ∧ p.cell.mean = meanOf g.recs ∧ p.cell.m2 = sqDevOf g.recs ∧
      ∀ i, i < w → nthN p.cnt i = countS1 i g.recs) ∧
    (g.snap ≠ [] → (∀ i, i < w → nthQ p.row i = freqOf g.snap i) ∧ RewOK cfg p.rew (meanOf g.snap)) ∧
    (cfg.ctorJunk = false → g.snap = [] → p.row = unit w dfl ∧ p.rew = 0) ∧
    (g.pend = 0 → g.recs ≠ [] → g.snap = g.recs) := by
  intro p g
  have he1 := ExpOK.run cfg w h1 (Pair.init w dfl idx) Ghost.init (by simpa [Ghost.init] using ExpOK.init w dfl idx)
  have hm1 := recovery_step cfg hg w true _ _ op he1 hr
  have he1' := ExpOK.step cfg w _ _ op he1
  have hc' : cfg.n1Clear = true ∨ (true = true ∧ noReset h2 = true ∧ cfg.ctorJunk = false) := by
    rcases hc with a | ⟨a, b⟩
    · exact Or.inl a
    · exact Or.inr ⟨rfl, a, b⟩
  obtain ⟨he, hm⟩ := Inv.run cfg hg w h2 true _ _ he1' hm1 hwf hpre hc'
  have hp : p = (((Pair.init w dfl idx).run cfg h1).step cfg op).run cfg h2 := by
    simp only [p, Pair.run_append]; rfl
  have hgg : g = ((Ghost.init.run h1).step op).run h2 := by
    simp only [g, Ghost.run_append]; rfl
  rw [hp, hgg]
  refine ⟨he.spec, fun hs => ⟨hm.mRow hs, hm.mRew hs⟩, fun hj hs => ?_, fun h0 hne => ?_⟩
  · have := hm.dflt hj hs
    simpa [Pair.init] using this
  · rcases hm.k1 h0 with e | e
    · exact absurd e hne
    · exact e

/-- hypotheses of `recovery` are satisfiable by a history whose first part violates the precondition twice
    (incremental sync after two records; incremental sync naming the wrong next state) -/
example :
    let cfg : Cfg := { period := 10000, n1Clear := true, ctorJunk := false, junk := fun _ _ => 0, rewTol := none }
    let h1 : List LOp := [.record 1 1, .record 0 2, .syncInc 0, .record 1 3, .syncInc 0]
    let h2 : List LOp := [.record 1 5, .syncInc 1, .reset, .record 0 1, .syncInc 0]
    incPre Ghost.init h1 = false ∧ recovers cfg ((Pair.init 2 0 0).run cfg h1) .sync = true ∧
    wfAll 2 h2 = true ∧ incPre ((Ghost.init.run h1).step .sync) h2 = true := by
  intro cfg h1 h2
  refine ⟨by decide, ?_, by decide, by decide⟩
  have := (ExpOK.run cfg 2 h1 (Pair.init 2 0 0) Ghost.init (by simpa [Ghost.init] using ExpOK.init 2 0 0)).n
  simp only [recovers, this]
  decide

/-- the same conclusion in the form the driver evaluates: every row entry equals `specRow` -/
theorem model_row_eq_specRow (cfg : Cfg) (hg : cfg.sparseGeneric = false) (w dfl idx : Nat) (h : List LOp)
    (hwf : wfAll w h = true) (hpre : incPre Ghost.init h = true)
    (hc : cfg.n1Clear = true ∨ (noReset h = true ∧ cfg.ctorJunk = false)) (hj : cfg.ctorJunk = false) :
    ∀ i, i < w → nthQ ((Pair.init w dfl idx).run cfg h).row i = specRow w dfl (Ghost.init.run h) i := by
  intro i hi
  obtain ⟨_, h2, h3, _⟩ := model_mirrors_history cfg hg w dfl idx h hwf hpre hc
  unfold specRow
  by_cases e : (Ghost.init.run h).snap = []
  · obtain ⟨hr, _⟩ := h3 hj e
    simp only [e, List.isEmpty_nil, if_true, hr, nthQ_unit]
    by_cases d : i = dfl <;> simp [d, hi]
  · have : (Ghost.init.run h).snap.isEmpty = false := by simpa using e
    simp only [this, Bool.false_eq_true, if_false]
    exact (h2 e).1 i hi

/-! ### never-visited pairs keep the default (no precondition needed) -/

theorem setQ_zeros_unit (w k : Nat) : setQ (zeros w) k 1 = unit w k := by
  apply row_ext
  · simp [length_setQ, length_zeros, length_unit]
  · intro i hi
    rw [length_setQ, length_zeros] at hi
    simp only [nthQ_setQ, nthQ_zeros, nthQ_unit, length_zeros]
    by_cases d : k = i
    · subst d; simp [hi]
    · have : ¬ i = k := fun x => d x.symm
      simp [d, this]

theorem ctor_true_of_zero (cfg : Cfg) (p : Pair) (h0 : p.cell.n = 0) :
    p.ctor cfg true = { p with row := setQ (if cfg.ctorJunk then junkRow cfg p.idx p.cnt.length 0 else zeros p.cnt.length) p.dfl 1, rew := 0 } := by
  have hq : ∀ r0 : List Rat, (({ p with row := r0, rew := 0 } : Pair).fullSync cfg) = { p with row := r0, rew := 0 } :=
    fun r0 => fullSync_of_zero cfg _ h0
  simp only [Pair.ctor, if_true, hq, h0]

def isRecord : LOp → Bool
  | .record .. => true
  | _ => false

/-- **unvisited_keep_default**: a pair on which nothing was ever recorded keeps the default unit row
    (self-loop for the flat models) and reward 0 through every sequence of syncs of any form, resets
    and model constructions with either flag — provided the constructor storage is initialised. -/
theorem unvisited_keep_default (cfg : Cfg) (hj : cfg.ctorJunk = false) (w dfl idx : Nat) (h : List LOp)
    (hnr : h.all (fun op => !isRecord op) = true) :
    ((Pair.init w dfl idx).run cfg h).row = unit w dfl ∧ ((Pair.init w dfl idx).run cfg h).rew = 0 := by
  suffices H : ∀ p : Pair, (p.cell.n = 0 ∧ p.cnt.length = w ∧ p.dfl = dfl ∧ p.row = unit w dfl ∧ p.rew = 0) →
      ((p.run cfg h).row = unit w dfl ∧ (p.run cfg h).rew = 0) by
    exact H _ ⟨rfl, by simp [Pair.init], rfl, rfl, rfl⟩
  induction h with
  | nil => intro p hp; exact ⟨hp.2.2.2.1, hp.2.2.2.2⟩
  | cons op t ih =>
    intro p ⟨h0, hl, hd, hr, hw⟩
    simp only [List.all_cons, Bool.and_eq_true] at hnr
    simp only [Pair.run, List.foldl_cons]
    apply ih hnr.2
    cases op with
    | record s1 r => simp [isRecord] at hnr
    | nop => exact ⟨h0, hl, hd, hr, hw⟩
    | sync => simp only [Pair.step, fullSync_of_zero cfg p h0]; exact ⟨h0, hl, hd, hr, hw⟩
    | syncInc s1 =>
      simp only [Pair.step, incSync_eq_full cfg p s1 (by simp [h0]), fullSync_of_zero cfg p h0]
      exact ⟨h0, hl, hd, hr, hw⟩
    | reset => exact ⟨rfl, by simp [Pair.step, hl], hd, hr, hw⟩
    | ctor b =>
      cases b with
      | false => exact ⟨by simpa [Pair.step] using h0, by simpa [Pair.step] using hl, by simpa [Pair.step] using hd,
          by simp [Pair.step, Pair.ctor, hl, hd], by simp [Pair.step, Pair.ctor]⟩
      | true =>
        refine ⟨by simpa [Pair.step] using h0, by simpa [Pair.step] using hl, by simpa [Pair.step] using hd, ?_, ?_⟩
        · simp only [Pair.step, ctor_true_of_zero cfg p h0, hj, Bool.false_eq_true, if_false, hl, hd, setQ_zeros_unit]
        · simp only [Pair.step, ctor_true_of_zero cfg p h0]

/-! ## §7 constructor and uninitialised storage -/

theorem fullSync_junk_irrelevant (cfg : Cfg) (j' : Nat → Nat → Rat) (p : Pair) :
    p.fullSync { cfg with junk := j' } = p.fullSync cfg := by
  unfold Pair.fullSync copyRew; rfl

theorem incSync_junk_irrelevant (cfg : Cfg) (j' : Nat → Nat → Rat) (p : Pair) (s1 : Nat) :
    p.incSync { cfg with junk := j' } s1 = p.incSync cfg s1 := by
  unfold Pair.incSync Pair.fullSync copyRew; rfl

theorem fullSync_congr (c1 c2 : Cfg) (h : c1.rewTol = c2.rewTol) (hs : c1.sparseGeneric = c2.sparseGeneric) (p : Pair) :
    p.fullSync c1 = p.fullSync c2 := by
  unfold Pair.fullSync copyRew; rw [h, hs]

theorem ctor_congr (c1 c2 : Cfg) (h : c1.rewTol = c2.rewTol) (hs : c1.sparseGeneric = c2.sparseGeneric) (hj1 : c1.ctorJunk = false) (hj2 : c2.ctorJunk = false)
    (b : Bool) (p : Pair) : p.ctor c1 b = p.ctor c2 b := by
  unfold Pair.ctor
  simp only [hj1, hj2, Bool.false_eq_true, if_false]
  rw [fullSync_congr c1 c2 h hs]

/-- Full statement (does NOT hold for the dense constructor as written, see the counterexample below):
      `∀ cfg j' p h, p.run { cfg with junk := j' } h = p.run cfg h`
    — "the tables never depend on what the uninitialised storage held".
    **ctor_independent_of_junk_partial**: it holds when the constructor storage is initialised
    (`ctorJunk = false`: sparse and cooperative models, dense model constructed with `sync = false`, repaired dense model). -/
theorem ctor_independent_of_junk_partial (cfg : Cfg) (hj : cfg.ctorJunk = false) (j' : Nat → Nat → Rat)
    (p : Pair) (h : List LOp) : p.run { cfg with junk := j' } h = p.run cfg h := by
  induction h generalizing p with
  | nil => rfl
  | cons op t ih =>
    simp only [Pair.run, List.foldl_cons] at ih ⊢
    have : p.step { cfg with junk := j' } op = p.step cfg op := by
      cases op with
      | ctor b =>
        exact ctor_congr { cfg with junk := j' } cfg rfl rfl hj hj b p
      | sync => simp [Pair.step, fullSync_junk_irrelevant]
      | syncInc s1 => simp [Pair.step, incSync_junk_irrelevant]
      | _ => rfl
    rw [this, ih]

/-- even with uninitialised storage, the row of a pair that has data when the model is constructed
    with `sync = true` does not depend on the junk (the full sync overwrites the whole row) -/
theorem ctor_visited_independent_of_junk (cfg : Cfg) (hg : cfg.sparseGeneric = false) (j' : Nat → Nat → Rat) (p : Pair)
    (hn : p.cell.n ≠ 0) : p.ctor { cfg with junk := j' } true = p.ctor cfg true := by
  simp [Pair.ctor, Pair.fullSync, hn, copyRew, hg]

/-- the configuration of the dense model as written, with junk value `7` -/
def cfgAsWritten : Cfg :=
  { period := 10000, n1Clear := false, ctorJunk := true, junk := fun _ _ => 7, rewTol := none, sparseGeneric := false }

/-- **ctor_junk_counterexample** (finding C07-ctor-uninit, replayed on the library by harness case 0):
    S = 2, one action, pair (s=1) never visited, model constructed with `sync = true`:
    the row is `[junk, 1]`, not the self-loop `[0, 1]`. -/
theorem ctor_junk_counterexample :
    ((Pair.init 2 1 1).run cfgAsWritten [.ctor true]).row = [7, 1] ∧
    ¬ ((Pair.init 2 1 1).run cfgAsWritten [.ctor true]).row = unit 2 1 := by
  decide

/-- **inc_after_reset_counterexample** (finding C07-inc-after-reset, harness cases 1 and 2):
    `record(·,1) record(·,2) sync() reset() record(·,1) sync(s,a,1)` respects the precondition
    (one new record since the last sync) but the `visitSum == 1` branch as written leaves the stale `1/2`. -/
theorem inc_after_reset_counterexample :
    let h : List LOp := [.record 1 1, .record 2 2, .sync, .reset, .record 1 4, .syncInc 1]
    incPre Ghost.init h = true ∧ wfAll 3 h = true ∧
    ((Pair.init 3 0 0).run cfgAsWritten h).row = [0, 1, 1/2] ∧
    (Ghost.init.run h).snap = [(1, 4)] := by
  refine ⟨by decide, by decide, ?_, by decide⟩
  norm_num [Pair.run, Pair.step, Pair.init, Cell.record, Cell.init, Pair.fullSync, Pair.incSync, cfgAsWritten, copyRew,
    bump, setQ, unit, unitFrom, nthN, nthQ, List.replicate]

/-- **sparse_reward_lag_counterexample** (finding C07-sparse-reward-lag, harness case 3): with the sparse
    reward rule the exposed reward after `sync` need not be the empirical mean (it is within the tolerance). -/
theorem sparse_reward_lag_counterexample :
    let cfg : Cfg := { cfgAsWritten with rewTol := some (1 / 1000000) }
    let h : List LOp := [.record 1 1, .syncInc 1, .record 1 (1 + 1 / 10000000), .syncInc 1]
    ((Pair.init 2 0 0).run cfg h).rew = 1 ∧ meanOf (Ghost.init.run h).snap = 1 + 1 / 20000000 := by
  constructor
  · norm_num [Pair.run, Pair.step, Pair.init, Cell.record, Cell.init, Pair.fullSync, Pair.incSync, cfgAsWritten, copyRew,
      bump, setQ, unit, unitFrom, nthN, nthQ, List.replicate, absQ]
  · norm_num [Ghost.run, Ghost.step, Ghost.init, meanOf, sumR]

/-- **sparse_generic_first_sync_counterexample** (finding C07-sparse-generic-sync, harness case 9): the
    element-wise branch of `SparseMaximumLikelihoodModel::sync(s,a)` (experience without Eigen tables) only
    writes visited cells and clears the identity entry only when `visitSum == 1`: a first sync after two
    records `(·,1) (·,2)` leaves `[1, 1/2, 1/2]`. -/
theorem sparse_generic_first_sync_counterexample :
    let cfg : Cfg := { cfgAsWritten with sparseGeneric := true, ctorJunk := false }
    ((Pair.init 3 0 0).run cfg [.record 1 1, .record 2 2, .sync]).row = [1, 1/2, 1/2] := by
  norm_num [Pair.run, Pair.step, Pair.init, Cell.record, Cell.init, Pair.fullSync, cfgAsWritten, copyRew,
    bump, setQ, unit, unitFrom, writeVisited, List.replicate]

/-! ## §6 from one pair to a table -/

theorem getElem?_mapIdxFrom {α β} (f : Nat → α → β) (k : Nat) (l : List α) (i : Nat) :
    (mapIdxFrom f k l)[i]? = (l[i]?).map (f (k + i)) := by
  induction l generalizing k i with
  | nil => simp [mapIdxFrom]
  | cons x xs ih =>
    cases i with
    | zero => simp [mapIdxFrom]
    | succ i =>
      simp only [mapIdxFrom, List.getElem?_cons_succ, ih]
      have : k + 1 + i = k + (i + 1) := by omega
      rw [this]

theorem getElem?_initPairs (w : Nat) (dflOf : Nat → Nat) (n k i : Nat) :
    (initPairs w dflOf n k)[i]? = if i < n then some (Pair.init w (dflOf (k + i)) (k + i)) else none := by
  induction n generalizing k i with
  | zero => simp [initPairs]
  | succ n ih =>
    cases i with
    | zero => simp [initPairs]
    | succ i =>
      simp only [initPairs, List.getElem?_cons_succ, ih]
      have : k + 1 + i = k + (i + 1) := by omega
      simp [this]

theorem World.run_pairs (cfg : Cfg) (wd : World) (h : List Op) (i : Nat) :
    (wd.run cfg h).pairs[i]? = (wd.pairs[i]?).map (fun p => p.run cfg (h.map (Op.project i))) := by
  induction h generalizing wd with
  | nil => simp [World.run, Pair.run]
  | cons op t ih =>
    simp only [World.run, List.foldl_cons] at ih ⊢
    rw [ih]
    simp only [World.step, getElem?_mapIdxFrom, Nat.zero_add, Option.map_map, List.map_cons, Pair.run, List.foldl_cons]
    rfl

/-- every pair of a table evolves exactly as the single-pair model on the projected history -/
theorem world_pair_eq (cfg : Cfg) (np w : Nat) (dflOf : Nat → Nat) (h : List Op) (i : Nat) (hi : i < np) :
    ((World.init np w dflOf).run cfg h).pairs[i]? = some ((Pair.init w (dflOf i) i).run cfg (h.map (Op.project i))) := by
  rw [World.run_pairs]
  simp [World.init, getElem?_initPairs, hi]

/-- `timesteps_` = number of `record` calls since the last `reset` -/
def tsOf (h : List Op) : Nat :=
  h.foldl (fun n op => match op with | .record .. => n + 1 | .reset => 0 | _ => n) 0

theorem world_ts (cfg : Cfg) (wd : World) (h : List Op) :
    (wd.run cfg h).ts = h.foldl (fun n op => match op with | .record .. => n + 1 | .reset => 0 | _ => n) wd.ts := by
  induction h generalizing wd with
  | nil => rfl
  | cons op t ih =>
    simp only [World.run, List.foldl_cons] at ih ⊢
    rw [ih]
    cases op <;> rfl

/-- **world_mirrors_history** — the property for a whole table (every one of the modelled classes):
    after any sequence of calls, for every pair `i` whose projected history is well formed and respects the
    precondition of the incremental sync, the conclusions of `model_mirrors_history` hold for that pair,
    and `timesteps` counts the records since the last reset. -/
theorem world_mirrors_history (cfg : Cfg) (hg : cfg.sparseGeneric = false) (np w : Nat) (dflOf : Nat → Nat) (h : List Op) (i : Nat) (hi : i < np)
    (hwf : wfAll w (h.map (Op.project i)) = true) (hpre : incPre Ghost.init (h.map (Op.project i)) = true)
    (hc : cfg.n1Clear = true ∨ (noReset (h.map (Op.project i)) = true ∧ cfg.ctorJunk = false)) :
    ((World.init np w dflOf).run cfg h).ts = tsOf h ∧
    ∃ p, ((World.init np w dflOf).run cfg h).pairs[i]? = some p ∧
      let g := Ghost.init.run (h.map (Op.project i))
      (p.cell.n = g.recs.length ∧ p.cell.mean = meanOf g.recs ∧ p.cell.m2 = sqDevOf g.recs ∧
        ∀ k, k < w → nthN p.cnt k = countS1 k g.recs) ∧
      (g.snap ≠ [] → (∀ k, k < w → nthQ p.row k = freqOf g.snap k) ∧ RewOK cfg p.rew (meanOf g.snap)) ∧
      (cfg.ctorJunk = false → g.snap = [] → p.row = unit w (dflOf i) ∧ p.rew = 0) ∧
      (g.pend = 0 → g.recs ≠ [] → g.snap = g.recs) := by
  refine ⟨by rw [world_ts]; rfl, _, world_pair_eq cfg np w dflOf h i hi, ?_⟩
  exact model_mirrors_history cfg hg w (dflOf i) i (h.map (Op.project i)) hwf hpre hc

/-- hypotheses of `world_mirrors_history` are satisfiable by a non-trivial history, with the code as written
    (S = 2, A = 1: records, incremental syncs after each record of a pair, a full sync, a model constructed late) -/
example :
    let h : List Op := [.record 0 1 2, .syncInc 0 1, .record 0 0 (-1), .syncInc 0 0, .record 1 1 3, .record 1 0 5, .sync 1, .ctor false, .syncAll]
    wfAll 2 (h.map (Op.project 0)) = true ∧ incPre Ghost.init (h.map (Op.project 0)) = true ∧
    noReset (h.map (Op.project 0)) = true ∧
    wfAll 2 (h.map (Op.project 1)) = true ∧ incPre Ghost.init (h.map (Op.project 1)) = true := by
  decide

/-! ### a synced row is a probability distribution -/

/-- Σ_{i<w} f i -/
def sumUpTo (f : Nat → Rat) : Nat → Rat
  | 0 => 0
  | w+1 => sumUpTo f w + f w

theorem sumUpTo_indicator (a w : Nat) : sumUpTo (fun i => if a = i then (1 : Rat) else 0) w = if a < w then 1 else 0 := by
  induction w with
  | zero => simp [sumUpTo]
  | succ w ih =>
    simp only [sumUpTo, ih]
    by_cases h1 : a < w
    · have : a ≠ w := by omega
      have h2 : a < w + 1 := by omega
      simp [h1, this, h2]
    · by_cases h2 : a = w
      · subst h2; simp
      · have : ¬ a < w + 1 := by omega
        simp [h1, h2, this]

theorem sumUpTo_add (f g : Nat → Rat) (w : Nat) : sumUpTo (fun i => f i + g i) w = sumUpTo f w + sumUpTo g w := by
  induction w with
  | zero => simp [sumUpTo]
  | succ w ih => simp only [sumUpTo, ih]; ring

theorem sumUpTo_div (f : Nat → Rat) (c : Rat) (w : Nat) : sumUpTo (fun i => f i / c) w = sumUpTo f w / c := by
  induction w with
  | zero => simp [sumUpTo]
  | succ w ih => simp only [sumUpTo, ih]; ring

theorem sumUpTo_congr (f g : Nat → Rat) (w : Nat) (h : ∀ i, i < w → f i = g i) : sumUpTo f w = sumUpTo g w := by
  induction w with
  | zero => rfl
  | succ w ih => simp only [sumUpTo]; rw [ih (fun i hi => h i (by omega)), h w (by omega)]

theorem sum_countS1 (w : Nat) (recs : List (Nat × Rat)) (hwf : ∀ x ∈ recs, x.1 < w) :
    sumUpTo (fun i => (countS1 i recs : Rat)) w = recs.length := by
  induction recs with
  | nil => 
    simp only [countS1, Nat.cast_zero, List.length_nil]
    induction w with
    | zero => rfl
    | succ w ih => simp [sumUpTo, ih]
  | cons x t ih =>
    obtain ⟨a, r⟩ := x
    have ha : a < w := hwf (a, r) (by simp)
    have : (fun i => ((countS1 i ((a, r) :: t) : Nat) : Rat)) = fun i => (if a = i then (1 : Rat) else 0) + (countS1 i t : Rat) := by
      funext i; by_cases d : a = i <;> simp [countS1, d]
    rw [this, sumUpTo_add, sumUpTo_indicator, ih (fun y hy => hwf y (by simp [hy]))]
    simp [ha]; ring

/-- **synced_row_is_distribution**: the empirical-frequency row is non-negative and sums to 1
    (records with next states inside the row) — so every synced row the theorems above describe is a
    valid distribution, as is the default unit row. -/
theorem freq_row_is_distribution (w : Nat) (recs : List (Nat × Rat)) (hne : recs ≠ []) (hwf : ∀ x ∈ recs, x.1 < w) :
    (∀ i, 0 ≤ freqOf recs i) ∧ sumUpTo (freqOf recs) w = 1 := by
  have hl : (recs.length : Rat) ≠ 0 := by
    have : recs.length ≠ 0 := by simpa using hne
    exact_mod_cast this
  constructor
  · intro i; unfold freqOf; positivity
  · have : freqOf recs = fun i => (countS1 i recs : Rat) / (recs.length : Rat) := rfl
    rw [this, sumUpTo_div, sum_countS1 w recs hwf, div_self hl]

/-! ## §8 Thompson models -/

theorem sumQ_map_div (g : List Rat) (c : Rat) : sumQ (g.map (fun x => x / c)) = sumQ g / c := by
  induction g with
  | nil => simp [sumQ]
  | cons x xs ih => simp only [List.map_cons, sumQ, ih]; ring

theorem sumQ_pos (g : List Rat) (hne : g ≠ []) (hp : ∀ x ∈ g, 0 < x) : 0 < sumQ g := by
  induction g with
  | nil => exact absurd rfl hne
  | cons x xs ih =>
    simp only [sumQ]
    have hx : 0 < x := hp x (by simp)
    by_cases e : xs = []
    · subst e; simpa [sumQ] using hx
    · have := ih e (fun y hy => hp y (by simp [hy])); linarith

/-- **thompson_rows_valid**: whatever positive gamma draws the sampler produced, the exposed row
    (`draws / Σ draws`, as `sampleDirichletDistribution` computes it) is a probability distribution -/
theorem thompson_rows_valid (g : List Rat) (hne : g ≠ []) (hp : ∀ x ∈ g, 0 < x) :
    (∀ y ∈ normalize g, 0 < y) ∧ sumQ (normalize g) = 1 ∧ (normalize g).length = g.length := by
  have hs := sumQ_pos g hne hp
  refine ⟨fun y hy => ?_, ?_, by simp [normalize]⟩
  · simp only [normalize, List.mem_map] at hy
    obtain ⟨x, hx, rfl⟩ := hy
    exact div_pos (hp x hx) hs
  · rw [normalize, sumQ_map_div]; exact div_self (ne_of_gt hs)

/-- below two visits the exposed reward of a Thompson model is the empirical mean -/
theorem thompson_reward_mle (c : Cell) (t sd : Rat) (h : c.n < 2) : thompsonReward c t sd = c.mean := by
  simp [thompsonReward, h]

theorem sumQ_nonneg (l : List Rat) (h : ∀ x ∈ l, 0 ≤ x) : 0 ≤ sumQ l := by
  induction l with
  | nil => simp [sumQ]
  | cons x xs ih =>
    simp only [sumQ]
    have := h x (by simp)
    have := ih (fun y hy => h y (by simp [hy]))
    linarith

/-- the sum of squared deviations of recorded data is never negative: the square root in the Thompson reward
    rule always has a non-negative argument -/
theorem sqDevOf_nonneg (recs : List (Nat × Rat)) : 0 ≤ sqDevOf recs := by
  unfold sqDevOf
  apply sumQ_nonneg
  intro x hx
  simp only [List.mem_map] at hx
  obtain ⟨y, _, rfl⟩ := hx
  exact mul_self_nonneg _

/-- **thompson_post_documented**: on a pair holding the records `recs` with at least two of them, the reward
    posterior that `ThompsonModel::sync` / `CooperativeThompsonModel::syncRow` draw from is the documented Student-t:
    location = empirical mean, `visits − 1 ≥ 1` degrees of freedom, squared scale = `Σ(r−mean)² / (n(n−1))` =
    (sample variance)/n; its divisor is non-zero and the squared scale is non-negative, so location, scale and
    degrees of freedom are all finite and valid distribution parameters. -/
theorem thompson_post_documented (w : Nat) (p : Pair) (recs : List (Nat × Rat)) (he : ExpOK w p recs)
    (h2 : 2 ≤ recs.length) :
    thompsonPost p.cell = some { loc := meanOf recs,
                                 scale2 := sqDevOf recs / (((recs.length * (recs.length - 1) : Nat)) : Rat),
                                 dof := recs.length - 1 } ∧
    (0 : Rat) < ((recs.length * (recs.length - 1) : Nat) : Rat) ∧
    0 ≤ sqDevOf recs / (((recs.length * (recs.length - 1) : Nat)) : Rat) ∧
    1 ≤ recs.length - 1 ∧
    sqDevOf recs / (((recs.length * (recs.length - 1) : Nat)) : Rat)
      = sqDevOf recs / ((recs.length - 1 : Nat) : Rat) / (recs.length : Rat) := by
  obtain ⟨hn, hm, hq, _⟩ := he.spec
  have hpos : 0 < recs.length * (recs.length - 1) := Nat.mul_pos (by omega) (by omega)
  have hposQ : (0 : Rat) < ((recs.length * (recs.length - 1) : Nat) : Rat) := by exact_mod_cast hpos
  refine ⟨?_, hposQ, div_nonneg (sqDevOf_nonneg recs) (le_of_lt hposQ), by omega, ?_⟩
  · unfold thompsonPost
    have : ¬ recs.length < 2 := by omega
    simp only [hn, hm, hq, this, if_false]
  · have h1 : ((recs.length : Nat) : Rat) ≠ 0 := by
      have : recs.length ≠ 0 := by omega
      exact_mod_cast this
    have h3 : ((recs.length - 1 : Nat) : Rat) ≠ 0 := by
      have : recs.length - 1 ≠ 0 := by omega
      exact_mod_cast this
    rw [Nat.cast_mul]
    field_simp

/-- below two visits there is no posterior: the exposed reward is the empirical mean (0 on no data) -/
theorem thompson_post_none (w : Nat) (p : Pair) (recs : List (Nat × Rat)) (he : ExpOK w p recs) (h2 : recs.length < 2)
    (gs : List Rat) (t sd : Rat) :
    thompsonPost p.cell = none ∧ (p.thompsonSync gs t sd).rew = meanOf recs := by
  obtain ⟨hn, hm, _, _⟩ := he.spec
  have : p.cell.n < 2 := by rw [hn]; exact h2
  simp [thompsonPost, Pair.thompsonSync, thompsonReward, this, hm]

/-- the Dirichlet parameters handed to the gamma sampler are all at least 1/2: valid shape parameters -/
theorem dirichletParams_pos (cnt : List Nat) : ∀ x ∈ dirichletParams cnt, (1 : Rat) / 2 ≤ x := by
  intro x hx
  simp only [dirichletParams, List.mem_map] at hx
  obtain ⟨c, _, rfl⟩ := hx
  have : (0 : Rat) ≤ (c : Rat) := by positivity
  linarith

/-- **thompson_sync_valid**: whatever positive gamma draws and whatever Student-t draw the engine produced, a
    Thompson sync leaves a probability row, and with two or more records the reward `loc + t·sd` where `sd² =` the
    posterior's squared scale -/
theorem thompson_sync_valid (w : Nat) (p : Pair) (recs : List (Nat × Rat)) (he : ExpOK w p recs)
    (gs : List Rat) (hne : gs ≠ []) (hp : ∀ x ∈ gs, 0 < x) (t sd : Rat) :
    (∀ y ∈ (p.thompsonSync gs t sd).row, 0 < y) ∧ sumQ (p.thompsonSync gs t sd).row = 1 ∧
    (2 ≤ recs.length → (p.thompsonSync gs t sd).rew = meanOf recs + t * sd) := by
  obtain ⟨a, b, _⟩ := thompson_rows_valid gs hne hp
  refine ⟨a, b, fun h2 => ?_⟩
  obtain ⟨hn, hm, _, _⟩ := he.spec
  have : ¬ p.cell.n < 2 := by rw [hn]; omega
  simp [Pair.thompsonSync, thompsonReward, this, hm]

example : normalize [1/2, 3/2, 2] = [1/8, 3/8, 1/2] := by norm_num [normalize, sumQ]   -- test on literals

end AITB.Exp
