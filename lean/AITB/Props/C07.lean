/-
  AITB.Props.C07 — "Experience and learned models mirror the recorded history".

  Theorems about `AITB.Model.Experience` (which see for the anchors).  Everything is proved for
  all table shapes, all histories, all rational rewards, every value of the resync period.
  Layout:  §1 list helpers · §2 Welford cell · §3 experience part of a pair mirrors the records ·
  §4 sync algebra (full / incremental) · §5 history-level invariant of the learned model ·
  §6 lifting from one pair to a table (`World`) · §7 constructor and uninitialised storage ·
  §8 Thompson rows.
-/
import AITB.Model.Experience
import Mathlib.Algebra.Order.Field.Rat
import Mathlib.Tactic.Ring
import Mathlib.Tactic.FieldSimp
import Mathlib.Tactic.Linarith
import Mathlib.Tactic.Positivity
import Mathlib.Tactic.NormNum

namespace AITB.Exp

/-! ## §2 Welford cell -/

/-- division-free invariant of the Welford update, one step -/
theorem Cell.record_step (w : Cell) (x sx sq : Rat)
    (h1 : (w.n : Rat) * w.mean = sx) (h2 : w.m2 = sq - w.n * w.mean ^ 2) :
    (((w.record x).n : Nat) : Rat) * (w.record x).mean = sx + x ∧
    (w.record x).m2 = (sq + x * x) - (w.record x).n * (w.record x).mean ^ 2 := by
  have hn : ((w.n : Rat) + 1) ≠ 0 := by positivity
  simp only [Cell.record, Nat.cast_add, Nat.cast_one]
  constructor
  · field_simp; linarith
  · rw [h2]; field_simp; ring

end AITB.Exp
