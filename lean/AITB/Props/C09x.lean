/-
  C09 — obligations on the GENERATED module `AITB.Gen.C09` (kept in a module of their own, so that a re-opened obligation does not
  take the audit of the theorems in parts a–j down with it).
-/
import AITB.Model.Policies

namespace AITB.Pol

/-- the form the translator found in the source is one of the two forms the theorems cover, with `checkEqualGeneral` at all four
    sites (a changed tolerance test at any of the four sites of the wrapper, or in WoLF's own copy of the scan, makes this obligation fail to
    build: broken tie; the driver's model still follows the extracted form, so the search for a failing input goes on) -/
theorem greedy_form_as_extracted :
    (AITB.Gen.C09.greedyCmpSampleG && AITB.Gen.C09.greedyCmpProbG && AITB.Gen.C09.greedyCmpPol1G && AITB.Gen.C09.greedyCmpPol2G
      && AITB.Gen.C09.wolfCmpG) = true := by decide

end AITB.Pol
