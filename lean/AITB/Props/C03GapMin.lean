/-
  AITB.Props.C03GapMin — the places where GapMin changes its upper bound, written out as compositions of the events of `anytime_sound`:

    * `selectReachableBeliefs`: a new belief enters with `ubActionValue` = the maximum of the per-action values of `bestPromisingAction`
      (LP interpolation)                                                                   = `poolAdd` for every action, then `pushPoint`;
      the beliefs on the path enter with `LPInterpolation(p, ubQ, ubV)`                    = `pushInterp`
    * the new rows of `fibQ` are filled with that value                                    = `augPush`
    * `makeNewPomdp`: pseudo-states = the `S` corners followed by the stored beliefs; the SOSA row of pseudo-state `i` under `(a,o)` is the
      weight vector `LPInterpolation` returns for the unnormalised successor — corner weights first, then point weights.  `sosa_row_reconstructs`:
      weights that reconstruct the successor in the sense of C12 (`lpinterp_weights`: `x = wc + Σ wp_i p_i`) satisfy exactly the hypothesis
      `hrec` of the event `fibPass`.  (The library then zeroes weights below 1e-6 — `cleanW` and the `checkDifferentSmall` filter — which
      perturbs the reconstruction by at most 1e-6 per entry; that perturbation is outside the theorem.)
    * the FastInformedBound run on it and the read-back of `ubQ`, `fibQ`, `ubV`               = `fibPass`
    * `cleanUp` (order-preserving since fix a9b80e5)                                           = `keepPoints`, `keepAug`
-/
import AITB.Props.C03Sarsop

namespace AITB.POMDP3
open AITB.MDP

theorem sumTo_split (n k : Nat) (f : Nat → Rat) : sumTo (n + k) f = sumTo n f + sumTo k (fun i => f (n + i)) := by
  induction k with
  | zero => simp [sumTo]
  | succ k ih =>
    show sumTo (n + k) f + f (n + k) = sumTo n f + (sumTo k (fun i => f (n + i)) + f (n + k))
    rw [ih]; ring

/-- pseudo-states of the belief-augmented POMDP: the corners, then the stored beliefs -/
def augBel (S : Nat) (pts : Nat → Nat → Rat) : Nat → Nat → Rat := fun i => if i < S then unit i else pts (i - S)

/-- a weight vector over the pseudo-states: corner weights `wc`, then point weights `wp` -/
def augW (S : Nat) (wc wp : Nat → Rat) : Nat → Rat := fun j => if j < S then wc j else wp (j - S)

/-- **`makeNewPomdp` rows**: interpolation weights that reconstruct `x` (`x_s = wc_s + Σ_i wp_i · p_i(s)`) reconstruct it from the
    pseudo-states, which is what the event `fibPass` asks of a SOSA row -/
theorem sosa_row_reconstructs (S N : Nat) (pts : Nat → Nat → Rat) (wc wp : Nat → Rat) (x : Nat → Rat)
    (hrec : ∀ s, s < S → x s = wc s + sumTo N (fun i => wp i * pts i s)) :
    ∀ s1, s1 < S → x s1 = sumTo (S + N) (fun j => augW S wc wp j * augBel S pts j s1) := by
  intro s1 hs1
  rw [sumTo_split, hrec s1 hs1]
  congr 1
  · have h1 : sumTo S (fun j => augW S wc wp j * augBel S pts j s1) = sumTo S (fun j => (if j = s1 then (1 : Rat) else 0) * wc j) := by
      refine sumTo_congr (fun j hj => ?_)
      unfold augW augBel unit
      simp only [hj, if_true]
      by_cases h : j = s1
      · subst h; simp
      · have h' : ¬ s1 = j := fun e => h e.symm
        simp [h, h']
    rw [h1, sumTo_indicator S wc s1 hs1]
  · refine sumTo_congr (fun i _ => ?_)
    unfold augW augBel
    have h : ¬ (S + i < S) := by omega
    simp only [h, if_false, Nat.add_sub_cancel_left]

theorem augW_nonneg (S : Nat) (wc wp : Nat → Rat) (hwc : ∀ s, 0 ≤ wc s) (hwp : ∀ i, 0 ≤ wp i) : ∀ j, 0 ≤ augW S wc wp j := by
  intro j; unfold augW; split
  · exact hwc j
  · exact hwp _

/-- `selectReachableBeliefs`, new belief with `ubActionValue`: all per-action values from the current surface, then the point -/
theorem gapmin_select_reach (m : POMDP) (st : AState) (b : Nat → Rat) (hb : NN b)
    (recs : List (Nat × (Nat → Bool) × (Nat → Rat)))
    (hrec : ∀ r ∈ recs, r.1 < m.A ∧ ∀ o, o < m.O →
      if r.2.1 o then (∀ s, s < m.S → bstep m b r.1 o s = 0) else IsInterp m st (bstep m b r.1 o) (r.2.2 o))
    (hall : ∀ a, a < m.A → ∃ r ∈ recs, r.1 = a) (u : Rat)
    (hu : ∀ r ∈ recs, promisingVal m b r.1 r.2.1 r.2.2 ≤ u) :
    ∃ st', Reach m st st' ∧ st'.P b u ∧ (∀ b' u', st.P b' u' → st'.P b' u') ∧ st'.Q = st.Q ∧ st'.Γ = st.Γ := by
  obtain ⟨st1, hr1, hΓ, hQ, hP, _, _, hpool⟩ := backupNode_pool_reach m st b hb recs hrec
  have hpush : Step m st1 { st1 with P := fun b' u' => st1.P b' u' ∨ (b' = b ∧ u' = u) } :=
    Step.pushPoint st1 b u (fun a' ha' => by
      obtain ⟨r, hr, hra⟩ := hall a' ha'
      exact ⟨_, hra ▸ hpool r hr, hu r hr⟩)
  refine ⟨_, Reach.step hr1 hpush, Or.inr ⟨rfl, rfl⟩, fun b' u' h => Or.inl (hP ▸ h), hQ, hΓ⟩

/-- one full upper-bound round of GapMin keeps the state sound, whatever beliefs were selected, whatever was cleaned up and however many
    FastInformedBound iterations ran: every step is an event, so this is `anytime_sound` -/
theorem gapmin_round_sound (m : POMDP) (hv : Valid m) (U L : (Nat → Rat) → Rat) (hU : SuperSol m U) (hL : Sublin m.S L) (hsub : SubSol m L)
    (st st' : AState) (hs : Sound m U L st) (hr : Reach m st st') (b0 : Nat → Rat) (hb0 : NN b0) (ub : Rat) (hub : IsInterp m st' b0 ub)
    (α : Nat → Rat) (hα : st'.Γ α) : dotS m.S b0 α ≤ U b0 ∧ L b0 ≤ ub :=
  let h := anytime_sound m hv U L hU hL hsub st st' hs hr
  ⟨h.2.1 b0 hb0 α hα, h.2.2.1 b0 hb0 ub hub⟩

end AITB.POMDP3
