/-
  AITB.Props.C11PS — PrioritizedSweeping: when the queue drains (threshold 0) the Q-table is a fixed
  point of the Bellman optimality operator on every pair that was ever updated.
-/
import AITB.Model.Learners
import Mathlib.Algebra.Order.Field.Rat
import Mathlib.Tactic.Linarith
import Mathlib.Tactic.Ring
namespace AITB.Learn

/-- the operations a client can perform on PrioritizedSweeping -/
inductive PSOp where
  | step (s a : Nat)
  | batch (n : Nat) (sel : List QE → Nat)

def psApply (m : MDP) (θ : Rat) (st : PS) : PSOp → PS
  | .step s a => psStep m θ st s a
  | .batch n sel => psBatch m θ sel n st

def psRun (m : MDP) (θ : Rat) (ops : List PSOp) : PS := ops.foldl (psApply m θ) PS.init

def PSOp.valid (m : MDP) : PSOp → Prop
  | .step s a => s < m.S ∧ a < m.A
  | .batch _ _ => True

/-! ## arithmetic helpers -/

theorem maxTo_zero_fun (n : Nat) : maxTo n (fun _ => (0 : Rat)) = 0 := by
  induction n with
  | zero => rfl
  | succ n ih => simp [maxTo, ih]

theorem upd_row_ne (q : QF) (s a : Nat) (v : Rat) (x : Nat) (h : x ≠ s) : upd q s a v x = q x := by
  funext y
  simp [upd, h]

theorem absR_nonneg (x : Rat) : 0 ≤ absR x := by
  unfold absR
  split <;> linarith

theorem absR_eq_zero {x : Rat} (h : absR x = 0) : x = 0 := by
  unfold absR at h
  split at h <;> linarith

/-- changing `v` at one index changes the weighted sum by exactly that term -/
theorem sumTo_update (T v : Nat → Rat) (γ vs : Rat) (s n : Nat) :
    sumTo n (fun s1 => T s1 * ((if s1 = s then vs else v s1) * γ))
      = sumTo n (fun s1 => T s1 * (v s1 * γ)) + (if s < n then T s * ((vs - v s) * γ) else 0) := by
  induction n with
  | zero => simp [sumTo]
  | succ n ih =>
    simp only [sumTo, ih]
    by_cases h1 : n = s
    · subst h1
      simp
      ring
    · by_cases h2 : s < n
      · have h3 : s < n + 1 := by omega
        simp [h1, h2, h3]
        ring
      · have h3 : ¬ s < n + 1 := by omega
        simp [h1, h2, h3]

theorem sumTo_pull (T w : Nat → Rat) (γ : Rat) (n : Nat) :
    sumTo n (fun i => T i * (w i * γ)) = γ * sumTo n (fun i => T i * w i) := by
  induction n with
  | zero => simp [sumTo]
  | succ n ih =>
    simp only [sumTo, ih]
    ring

/-! ## queue lemmas -/

theorem inQueue_iff (queue : List QE) (x y : Nat) :
    inQueue queue x y = true ↔ ∃ e ∈ queue, e.s = x ∧ e.a = y := by
  simp [inQueue, List.any_eq_true]

def QOk (m : MDP) (queue : List QE) : Prop := ∀ e ∈ queue, e.s < m.S ∧ e.a < m.A

theorem enqueue_mono (θ d : Rat) (ss a : Nat) (queue : List QE) (x y : Nat)
    (h : inQueue queue x y = true) : inQueue (enqueue θ d ss a queue) x y = true := by
  rw [inQueue_iff] at h
  obtain ⟨e, he, hs, ha⟩ := h
  unfold enqueue
  split
  · split
    · rw [inQueue_iff]
      refine ⟨_, List.mem_map_of_mem he, ?_⟩
      split
      · split <;> exact ⟨hs, ha⟩
      · exact ⟨hs, ha⟩
    · rw [inQueue_iff]
      exact ⟨e, List.mem_append_left _ he, hs, ha⟩
  · rw [inQueue_iff]
    exact ⟨e, he, hs, ha⟩

theorem enqueue_adds (θ d : Rat) (ss a : Nat) (queue : List QE) (hd : d > θ) :
    inQueue (enqueue θ d ss a queue) ss a = true := by
  by_cases h : inQueue queue ss a = true
  · exact enqueue_mono θ d ss a queue ss a h
  · unfold enqueue
    rw [if_pos hd]
    simp only [h]
    rw [inQueue_iff]
    exact ⟨⟨d, ss, a⟩, by simp, rfl, rfl⟩

theorem enqueue_ok (m : MDP) (θ d : Rat) (ss a : Nat) (queue : List QE)
    (hs : ss < m.S) (ha : a < m.A) (h : QOk m queue) : QOk m (enqueue θ d ss a queue) := by
  unfold enqueue
  split
  · split
    · intro e he
      rw [List.mem_map] at he
      obtain ⟨e0, he0, rfl⟩ := he
      have := h e0 he0
      split
      · split <;> exact this
      · exact this
    · intro e he
      rw [List.mem_append] at he
      rcases he with he | he
      · exact h e he
      · simp at he
        subst he
        exact ⟨hs, ha⟩
  · exact h

/-- a predicate preserved by every step of a fold on list elements is preserved by the fold -/
theorem foldl_inv {α β : Type} (P : β → Prop) (f : β → α → β) (l : List α) (b : β)
    (hstep : ∀ b a, a ∈ l → P b → P (f b a)) (hb : P b) : P (l.foldl f b) := by
  induction l generalizing b with
  | nil => exact hb
  | cons a l ih =>
    simp only [List.foldl_cons]
    apply ih
    · intro b a' ha' hp
      exact hstep b a' (List.mem_cons_of_mem _ ha') hp
    · exact hstep b a (List.mem_cons_self) hb

/-- if one step establishes `P` and every step preserves it, the fold establishes it -/
theorem foldl_hit {α β : Type} (P : β → Prop) (f : β → α → β) (l : List α) (b : β) (a0 : α)
    (hmem : a0 ∈ l) (hhit : ∀ b, P (f b a0)) (hstep : ∀ b a, P b → P (f b a)) : P (l.foldl f b) := by
  induction l generalizing b with
  | nil => cases hmem
  | cons a l ih =>
    simp only [List.foldl_cons]
    rcases List.mem_cons.mp hmem with h | h
    · subst h
      exact foldl_inv P f l _ (fun b a _ hp => hstep b a hp) (hhit b)
    · exact ih _ h

theorem parentLoop_mono (m : MDP) (θ p : Rat) (s : Nat) (queue : List QE) (x y : Nat)
    (h : inQueue queue x y = true) : inQueue (parentLoop m θ p s queue) x y = true := by
  unfold parentLoop
  apply foldl_inv (fun qu => inQueue qu x y = true)
  · intro qu ss _ hq
    apply foldl_inv (fun qu => inQueue qu x y = true)
    · intro qu a _ hq
      exact enqueue_mono _ _ _ _ _ _ _ hq
    · exact hq
  · exact h

theorem parentLoop_adds (m : MDP) (θ p : Rat) (s : Nat) (queue : List QE) (ss a : Nat)
    (hs : ss < m.S) (ha : a < m.A) (hd : p * m.T ss a s > θ) :
    inQueue (parentLoop m θ p s queue) ss a = true := by
  unfold parentLoop
  apply foldl_hit (fun qu => inQueue qu ss a = true) _ _ _ ss (List.mem_range.mpr hs)
  · intro qu
    apply foldl_hit (fun qu => inQueue qu ss a = true) _ _ _ a (List.mem_range.mpr ha)
    · intro qu
      exact enqueue_adds _ _ _ _ _ hd
    · intro qu a' hq
      exact enqueue_mono _ _ _ _ _ _ _ hq
  · intro qu ss' hq
    apply foldl_inv (fun qu => inQueue qu ss a = true)
    · intro qu a' _ hq
      exact enqueue_mono _ _ _ _ _ _ _ hq
    · exact hq

theorem parentLoop_ok (m : MDP) (θ p : Rat) (s : Nat) (queue : List QE) (h : QOk m queue) :
    QOk m (parentLoop m θ p s queue) := by
  unfold parentLoop
  apply foldl_inv (QOk m)
  · intro qu ss hss hq
    apply foldl_inv (QOk m)
    · intro qu a ha hq
      exact enqueue_ok m _ _ _ _ _ (List.mem_range.mp hss) (List.mem_range.mp ha) hq
    · exact hq
  · exact h

theorem mem_of_mem_removeAt (l : List QE) (i : Nat) (e : QE) (h : e ∈ removeAt l i) : e ∈ l := by
  unfold removeAt at h
  rcases List.mem_append.mp h with h | h
  · exact List.mem_of_mem_take h
  · exact List.mem_of_mem_drop h

theorem mem_removeAt (l : List QE) (i : Nat) (e e' : QE) (hi : l[i]? = some e) (hm : e' ∈ l)
    (hne : e' ≠ e) : e' ∈ removeAt l i := by
  induction l generalizing i with
  | nil => cases hm
  | cons h t ih =>
    cases i with
    | zero =>
      simp at hi
      subst hi
      rcases List.mem_cons.mp hm with hm | hm
      · exact absurd hm hne
      · simpa [removeAt] using hm
    | succ i =>
      simp at hi
      rcases List.mem_cons.mp hm with hm | hm
      · subst hm
        simp [removeAt]
      · have := ih i hi hm
        simp only [removeAt] at this ⊢
        simp only [List.take_succ_cons, List.drop_succ_cons, List.cons_append]
        exact List.mem_cons_of_mem _ this

theorem removeAt_inQueue (l : List QE) (i : Nat) (e : QE) (x y : Nat) (hi : l[i]? = some e)
    (hq : inQueue l x y = true) (hne : ¬ (x = e.s ∧ y = e.a)) : inQueue (removeAt l i) x y = true := by
  rw [inQueue_iff] at hq ⊢
  obtain ⟨e', he', hs, ha⟩ := hq
  refine ⟨e', mem_removeAt l i e e' hi he' ?_, hs, ha⟩
  intro h
  subst h
  exact hne ⟨hs.symm, ha.symm⟩

/-! ## the invariant -/

/-- `(x,y)` is up to date w.r.t. the current value function -/
def Fresh (m : MDP) (q : QF) (v : Nat → Rat) (x y : Nat) : Prop :=
  q x y = m.R x y + sumTo m.S (fun s1 => m.T x y s1 * (v s1 * m.γ))

structure Inv (m : MDP) (st : PS) : Prop where
  qok : QOk m st.queue
  dok : ∀ x y, (x, y) ∈ st.done → x < m.S ∧ y < m.A
  vmax : ∀ x, st.v x = maxA m.A (st.q x)
  fresh : ∀ x y, (x, y) ∈ st.done → Fresh m st.q st.v x y ∨ inQueue st.queue x y = true

theorem inv_init (m : MDP) : Inv m PS.init where
  qok := by intro e he; cases he
  dok := by intro x y h; cases h
  vmax := by intro x; simp [PS.init, maxA, maxTo_zero_fun]
  fresh := by intro x y h; cases h

/-- one pair through one `psStep`: if it is fresh w.r.t. the old `v` (after the table write) then
    it is either still fresh w.r.t. the new `v` or the parent loop has queued it -/
theorem step_pair (m : MDP) (hT : ∀ s a s1, 0 ≤ m.T s a s1) (q' : QF) (v : Nat → Rat) (vs : Rat)
    (queue : List QE) (s x y : Nat) (hs : s < m.S) (hx : x < m.S) (hy : y < m.A)
    (hf : Fresh m q' v x y) :
    Fresh m q' (fun z => if z = s then vs else v z) x y ∨
      inQueue (parentLoop m 0 (absR (vs - v s)) s queue) x y = true := by
  by_cases h : absR (vs - v s) * m.T x y s > 0
  · exact Or.inr (parentLoop_adds m 0 _ s queue x y hx hy h)
  · left
    have h0 : absR (vs - v s) * m.T x y s = 0 :=
      le_antisymm (not_lt.mp h) (mul_nonneg (absR_nonneg _) (hT x y s))
    have hz : m.T x y s * ((vs - v s) * m.γ) = 0 := by
      rcases mul_eq_zero.mp h0 with h1 | h1
      · rw [absR_eq_zero h1]; ring
      · rw [h1]; ring
    unfold Fresh at hf ⊢
    rw [sumTo_update (m.T x y) v m.γ vs s m.S, if_pos hs, hz, add_zero]
    exact hf

/-- `psStep` on an in-range pair preserves the invariant; the stepped pair itself is allowed to be
    stale and unqueued beforehand (this is the situation right after `psBatch` pops it) -/
theorem psStep_inv (m : MDP) (hT : ∀ s a s1, 0 ≤ m.T s a s1) (st : PS) (s a : Nat)
    (hs : s < m.S) (ha : a < m.A)
    (hqok : QOk m st.queue)
    (hdok : ∀ x y, (x, y) ∈ st.done → x < m.S ∧ y < m.A)
    (hvmax : ∀ x, st.v x = maxA m.A (st.q x))
    (hfresh : ∀ x y, (x, y) ∈ st.done →
      Fresh m st.q st.v x y ∨ inQueue st.queue x y = true ∨ (x = s ∧ y = a)) :
    Inv m (psStep m 0 st s a) where
  qok := parentLoop_ok m _ _ _ _ hqok
  dok := by
    intro x y h
    simp only [psStep, List.mem_cons, Prod.mk.injEq] at h
    rcases h with ⟨rfl, rfl⟩ | h
    · exact ⟨hs, ha⟩
    · exact hdok x y h
  vmax := by
    intro x
    simp only [psStep]
    by_cases hx : x = s
    · subst hx; simp
    · rw [if_neg hx, upd_row_ne _ _ _ _ _ hx]
      exact hvmax x
  fresh := by
    intro x y h
    simp only [psStep, List.mem_cons, Prod.mk.injEq] at h
    simp only [psStep]
    -- the stepped pair is fresh w.r.t. the old v by construction
    have hself : Fresh m (upd st.q s a (m.R s a + sumTo m.S (fun s1 => m.T s a s1 * (st.v s1 * m.γ))))
        st.v s a := by
      simp [Fresh, upd]
    have hxy : x < m.S ∧ y < m.A := by
      rcases h with ⟨rfl, rfl⟩ | h
      · exact ⟨hs, ha⟩
      · exact hdok x y h
    by_cases hsa : x = s ∧ y = a
    · obtain ⟨rfl, rfl⟩ := hsa
      exact step_pair m hT _ st.v _ st.queue x x y hs hs ha hself
    · have hold : Fresh m st.q st.v x y ∨ inQueue st.queue x y = true := by
        rcases h with h | h
        · exact absurd h hsa
        · rcases hfresh x y h with h1 | h1 | h1
          · exact Or.inl h1
          · exact Or.inr h1
          · exact absurd h1 hsa
      rcases hold with h1 | h1
      · apply step_pair m hT _ st.v _ st.queue s x y hs hxy.1 hxy.2
        unfold Fresh at h1 ⊢
        simp only [upd, if_neg hsa]
        exact h1
      · exact Or.inr (parentLoop_mono m _ _ _ _ x y h1)

theorem psBatch_inv (m : MDP) (hT : ∀ s a s1, 0 ≤ m.T s a s1) (sel : List QE → Nat) (n : Nat)
    (st : PS) (h : Inv m st) : Inv m (psBatch m 0 sel n st) := by
  induction n generalizing st with
  | zero => exact h
  | succ n ih =>
    unfold psBatch
    split
    · exact h
    · rename_i e he
      apply ih
      have hmem : e ∈ st.queue := List.mem_of_getElem? he
      have hin := h.qok e hmem
      apply psStep_inv m hT _ e.s e.a hin.1 hin.2
      · intro e' he'
        exact h.qok e' (mem_of_mem_removeAt _ _ _ he')
      · exact h.dok
      · exact h.vmax
      · intro x y hxy
        rcases h.fresh x y hxy with h1 | h1
        · exact Or.inl h1
        · by_cases hne : x = e.s ∧ y = e.a
          · exact Or.inr (Or.inr hne)
          · exact Or.inr (Or.inl (removeAt_inQueue _ _ e x y he h1 hne))

theorem psApply_inv (m : MDP) (hT : ∀ s a s1, 0 ≤ m.T s a s1) (st : PS) (op : PSOp)
    (hv : op.valid m) (h : Inv m st) : Inv m (psApply m 0 st op) := by
  cases op with
  | step s a =>
    exact psStep_inv m hT st s a hv.1 hv.2 h.qok h.dok h.vmax
      (fun x y hxy => (h.fresh x y hxy).elim Or.inl (fun h1 => Or.inr (Or.inl h1)))
  | batch n sel => exact psBatch_inv m hT sel n st h

theorem psRun_inv (m : MDP) (hT : ∀ s a s1, 0 ≤ m.T s a s1) (ops : List PSOp)
    (hv : ∀ op ∈ ops, op.valid m) : Inv m (psRun m 0 ops) := by
  unfold psRun
  exact foldl_inv (Inv m) (psApply m 0) ops PS.init
    (fun st op hop hst => psApply_inv m hT st op (hv op hop) hst) (inv_init m)

/-! ## main theorem -/

/-- C11 (PrioritizedSweeping).  Threshold `θ = 0`, arbitrary interleaving of explicit `stepUpdateQ`
    calls and `batchUpdateQ` calls, arbitrary pop order (`sel`), no stochasticity assumption on `T`
    beyond non-negativity: if the queue has drained and every pair has been updated at least once,
    then the Q-table satisfies the Bellman optimality equation on all of `S × A`.
    (`hA` is implied by the quantified `a < m.A` and is not used; it is kept for interface stability.) -/
theorem ps_fixed_point (m : MDP) (hT : ∀ s a s1, 0 ≤ m.T s a s1) (_hA : 0 < m.A)
    (ops : List PSOp) (hv : ∀ op ∈ ops, op.valid m)
    (hempty : (psRun m 0 ops).queue = [])
    (hall : ∀ s a, s < m.S → a < m.A → (s, a) ∈ (psRun m 0 ops).done) :
    ∀ s a, s < m.S → a < m.A →
      (psRun m 0 ops).q s a
        = m.R s a + m.γ * sumTo m.S (fun s1 => m.T s a s1 * maxA m.A ((psRun m 0 ops).q s1)) := by
  intro s a hs ha
  have hinv := psRun_inv m hT ops hv
  rcases hinv.fresh s a (hall s a hs ha) with h | h
  · unfold Fresh at h
    rw [h, sumTo_pull]
    congr 3
    funext s1
    rw [hinv.vmax s1]
  · rw [hempty] at h
    simp [inQueue] at h

end AITB.Learn
