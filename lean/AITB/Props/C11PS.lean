/-
  AITB.Props.C11PS — PrioritizedSweeping: when the queue drains (threshold 0) the Q-table is a fixed
  point of the Bellman optimality operator on every pair that was ever updated.
-/
import AITB.Model.Learners
import Mathlib.Algebra.Order.Field.Rat
import Mathlib.Tactic.Linarith
import Mathlib.Tactic.Ring
namespace AITB.Learn

/-- the operations a client can perform on PrioritizedSweeping -/
inductive PSOp where
  | step (s a : Nat)
  | batch (n : Nat) (sel : List QE → Nat)

def psApply (m : MDP) (θ : Rat) (st : PS) : PSOp → PS
  | .step s a => psStep m θ st s a
  | .batch n sel => psBatch m θ sel n st

def psRun (m : MDP) (θ : Rat) (ops : List PSOp) : PS := ops.foldl (psApply m θ) PS.init

def PSOp.valid (m : MDP) : PSOp → Prop
  | .step s a => s < m.S ∧ a < m.A
  | .batch _ _ => True

/-! ## arithmetic helpers -/

theorem maxTo_zero_fun (n : Nat) : maxTo n (fun _ => (0 : Rat)) = 0 := by
  induction n with
  | zero => rfl
  | succ n ih => simp [maxTo, ih]

theorem upd_row_ne (q : QF) (s a : Nat) (v : Rat) (x : Nat) (h : x ≠ s) : upd q s a v x = q x := by
  funext y
  simp [upd, h]

theorem absR_nonneg (x : Rat) : 0 ≤ absR x := by
  unfold absR
  split <;> linarith

theorem absR_eq_zero {x : Rat} (h : absR x = 0) : x = 0 := by
  unfold absR at h
  split at h <;> linarith

/-- changing `v` at one index changes the weighted sum by exactly that term -/
theorem sumTo_update (T v : Nat → Rat) (γ vs : Rat) (s n : Nat) :
    sumTo n (fun s1 => T s1 * ((if s1 = s then vs else v s1) * γ))
      = sumTo n (fun s1 => T s1 * (v s1 * γ)) + (if s < n then T s * ((vs - v s) * γ) else 0) := by
  induction n with
  | zero => simp [sumTo]
  | succ n ih =>
    simp only [sumTo, ih]
    by_cases h1 : n = s
    · subst h1
      simp
      ring
    · by_cases h2 : s < n
      · have h3 : s < n + 1 := by omega
        simp [h1, h2, h3]
        ring
      · have h3 : ¬ s < n + 1 := by omega
        simp [h1, h2, h3]

theorem sumTo_pull (T w : Nat → Rat) (γ : Rat) (n : Nat) :
    sumTo n (fun i => T i * (w i * γ)) = γ * sumTo n (fun i => T i * w i) := by
  induction n with
  | zero => simp [sumTo]
  | succ n ih =>
    simp only [sumTo, ih]
    ring

/-! ## queue lemmas -/

theorem inQueue_iff (queue : List QE) (x y : Nat) :
    inQueue queue x y = true ↔ ∃ e ∈ queue, e.s = x ∧ e.a = y := by
  simp [inQueue, List.any_eq_true]

def QOk (m : MDP) (queue : List QE) : Prop := ∀ e ∈ queue, e.s < m.S ∧ e.a < m.A

theorem enqueue_mono (θ d : Rat) (ss a : Nat) (queue : List QE) (x y : Nat)
    (h : inQueue queue x y = true) : inQueue (enqueue θ d ss a queue) x y = true := by
  rw [inQueue_iff] at h
  obtain ⟨e, he, hs, ha⟩ := h
  unfold enqueue
  split
  · split
    · rw [inQueue_iff]
      refine ⟨_, List.mem_map_of_mem he, ?_⟩
      split
      · split <;> exact ⟨hs, ha⟩
      · exact ⟨hs, ha⟩
    · rw [inQueue_iff]
      exact ⟨e, List.mem_append_left _ he, hs, ha⟩
  · rw [inQueue_iff]
    exact ⟨e, he, hs, ha⟩

theorem enqueue_adds (θ d : Rat) (ss a : Nat) (queue : List QE) (hd : d > θ) :
    inQueue (enqueue θ d ss a queue) ss a = true := by
  by_cases h : inQueue queue ss a = true
  · exact enqueue_mono θ d ss a queue ss a h
  · unfold enqueue
    rw [if_pos hd]
    simp only [h]
    rw [inQueue_iff]
    exact ⟨⟨d, ss, a⟩, by simp, rfl, rfl⟩

theorem enqueue_ok (m : MDP) (θ d : Rat) (ss a : Nat) (queue : List QE)
    (hs : ss < m.S) (ha : a < m.A) (h : QOk m queue) : QOk m (enqueue θ d ss a queue) := by
  unfold enqueue
  split
  · split
    · intro e he
      rw [List.mem_map] at he
      obtain ⟨e0, he0, rfl⟩ := he
      have := h e0 he0
      split
      · split <;> exact this
      · exact this
    · intro e he
      rw [List.mem_append] at he
      rcases he with he | he
      · exact h e he
      · simp at he
        subst he
        exact ⟨hs, ha⟩
  · exact h

/-- a predicate preserved by every step of a fold on list elements is preserved by the fold -/
theorem ps_foldl_inv {α β : Type} (P : β → Prop) (f : β → α → β) (l : List α) (b : β)
    (hstep : ∀ b a, a ∈ l → P b → P (f b a)) (hb : P b) : P (l.foldl f b) := by
  induction l generalizing b with
  | nil => exact hb
  | cons a l ih =>
    simp only [List.foldl_cons]
    apply ih
    · intro b a' ha' hp
      exact hstep b a' (List.mem_cons_of_mem _ ha') hp
    · exact hstep b a (List.mem_cons_self) hb

/-- if one step establishes `P` and every step preserves it, the fold establishes it -/
theorem foldl_hit {α β : Type} (P : β → Prop) (f : β → α → β) (l : List α) (b : β) (a0 : α)
    (hmem : a0 ∈ l) (hhit : ∀ b, P (f b a0)) (hstep : ∀ b a, P b → P (f b a)) : P (l.foldl f b) := by
  induction l generalizing b with
  | nil => cases hmem
  | cons a l ih =>
    simp only [List.foldl_cons]
    rcases List.mem_cons.mp hmem with h | h
    · subst h
      exact ps_foldl_inv P f l _ (fun b a _ hp => hstep b a hp) (hhit b)
    · exact ih _ h

theorem parentLoop_mono (m : MDP) (θ p : Rat) (s : Nat) (queue : List QE) (x y : Nat)
    (h : inQueue queue x y = true) : inQueue (parentLoop m θ p s queue) x y = true := by
  unfold parentLoop
  apply ps_foldl_inv (fun qu => inQueue qu x y = true)
  · intro qu ss _ hq
    apply ps_foldl_inv (fun qu => inQueue qu x y = true)
    · intro qu a _ hq
      exact enqueue_mono _ _ _ _ _ _ _ hq
    · exact hq
  · exact h

theorem parentLoop_adds (m : MDP) (θ p : Rat) (s : Nat) (queue : List QE) (ss a : Nat)
    (hs : ss < m.S) (ha : a < m.A) (hd : p * m.T ss a s > θ) :
    inQueue (parentLoop m θ p s queue) ss a = true := by
  unfold parentLoop
  apply foldl_hit (fun qu => inQueue qu ss a = true) _ _ _ ss (List.mem_range.mpr hs)
  · intro qu
    apply foldl_hit (fun qu => inQueue qu ss a = true) _ _ _ a (List.mem_range.mpr ha)
    · intro qu
      exact enqueue_adds _ _ _ _ _ hd
    · intro qu a' hq
      exact enqueue_mono _ _ _ _ _ _ _ hq
  · intro qu ss' hq
    apply ps_foldl_inv (fun qu => inQueue qu ss a = true)
    · intro qu a' _ hq
      exact enqueue_mono _ _ _ _ _ _ _ hq
    · exact hq

theorem parentLoop_ok (m : MDP) (θ p : Rat) (s : Nat) (queue : List QE) (h : QOk m queue) :
    QOk m (parentLoop m θ p s queue) := by
  unfold parentLoop
  apply ps_foldl_inv (QOk m)
  · intro qu ss hss hq
    apply ps_foldl_inv (QOk m)
    · intro qu a ha hq
      exact enqueue_ok m _ _ _ _ _ (List.mem_range.mp hss) (List.mem_range.mp ha) hq
    · exact hq
  · exact h

theorem mem_of_mem_removeAt (l : List QE) (i : Nat) (e : QE) (h : e ∈ removeAt l i) : e ∈ l := by
  unfold removeAt at h
  rcases List.mem_append.mp h with h | h
  · exact List.mem_of_mem_take h
  · exact List.mem_of_mem_drop h

theorem mem_removeAt (l : List QE) (i : Nat) (e e' : QE) (hi : l[i]? = some e) (hm : e' ∈ l)
    (hne : e' ≠ e) : e' ∈ removeAt l i := by
  induction l generalizing i with
  | nil => cases hm
  | cons h t ih =>
    cases i with
    | zero =>
      simp at hi
      subst hi
      rcases List.mem_cons.mp hm with hm | hm
      · exact absurd hm hne
      · simpa [removeAt] using hm
    | succ i =>
      simp at hi
      rcases List.mem_cons.mp hm with hm | hm
      · subst hm
        simp [removeAt]
      · have := ih i hi hm
        simp only [removeAt] at this ⊢
        simp only [List.take_succ_cons, List.drop_succ_cons, List.cons_append]
        exact List.mem_cons_of_mem _ this

theorem removeAt_inQueue (l : List QE) (i : Nat) (e : QE) (x y : Nat) (hi : l[i]? = some e)
    (hq : inQueue l x y = true) (hne : ¬ (x = e.s ∧ y = e.a)) : inQueue (removeAt l i) x y = true := by
  rw [inQueue_iff] at hq ⊢
  obtain ⟨e', he', hs, ha⟩ := hq
  refine ⟨e', mem_removeAt l i e e' hi he' ?_, hs, ha⟩
  intro h
  subst h
  exact hne ⟨hs.symm, ha.symm⟩

/-! ## the invariant -/

/-- `(x,y)` is up to date w.r.t. the current value function -/
def Fresh (m : MDP) (q : QF) (v : Nat → Rat) (x y : Nat) : Prop :=
  q x y = m.R x y + sumTo m.S (fun s1 => m.T x y s1 * (v s1 * m.γ))

structure Inv (m : MDP) (st : PS) : Prop where
  qok : QOk m st.queue
  dok : ∀ x y, (x, y) ∈ st.done → x < m.S ∧ y < m.A
  vmax : ∀ x, st.v x = maxA m.A (st.q x)
  fresh : ∀ x y, (x, y) ∈ st.done → Fresh m st.q st.v x y ∨ inQueue st.queue x y = true

theorem inv_init (m : MDP) : Inv m PS.init where
  qok := by intro e he; cases he
  dok := by intro x y h; cases h
  vmax := by intro x; simp [PS.init, maxA, maxTo_zero_fun]
  fresh := by intro x y h; cases h

/-- one pair through one `psStep`: if it is fresh w.r.t. the old `v` (after the table write) then
    it is either still fresh w.r.t. the new `v` or the parent loop has queued it -/
theorem step_pair (m : MDP) (hT : ∀ s a s1, 0 ≤ m.T s a s1) (q' : QF) (v : Nat → Rat) (vs : Rat)
    (queue : List QE) (s x y : Nat) (hs : s < m.S) (hx : x < m.S) (hy : y < m.A)
    (hf : Fresh m q' v x y) :
    Fresh m q' (fun z => if z = s then vs else v z) x y ∨
      inQueue (parentLoop m 0 (absR (vs - v s)) s queue) x y = true := by
  by_cases h : absR (vs - v s) * m.T x y s > 0
  · exact Or.inr (parentLoop_adds m 0 _ s queue x y hx hy h)
  · left
    have h0 : absR (vs - v s) * m.T x y s = 0 :=
      le_antisymm (not_lt.mp h) (mul_nonneg (absR_nonneg _) (hT x y s))
    have hz : m.T x y s * ((vs - v s) * m.γ) = 0 := by
      rcases mul_eq_zero.mp h0 with h1 | h1
      · rw [absR_eq_zero h1]; ring
      · rw [h1]; ring
    unfold Fresh at hf ⊢
    rw [sumTo_update (m.T x y) v m.γ vs s m.S, if_pos hs, hz, add_zero]
    exact hf

/-- `psStep` on an in-range pair preserves the invariant; the stepped pair itself is allowed to be
    stale and unqueued beforehand (this is the situation right after `psBatch` pops it) -/
theorem psStep_inv (m : MDP) (hT : ∀ s a s1, 0 ≤ m.T s a s1) (st : PS) (s a : Nat)
    (hs : s < m.S) (ha : a < m.A)
    (hqok : QOk m st.queue)
    (hdok : ∀ x y, (x, y) ∈ st.done → x < m.S ∧ y < m.A)
    (hvmax : ∀ x, st.v x = maxA m.A (st.q x))
    (hfresh : ∀ x y, (x, y) ∈ st.done →
      Fresh m st.q st.v x y ∨ inQueue st.queue x y = true ∨ (x = s ∧ y = a)) :
    Inv m (psStep m 0 st s a) where
  qok := parentLoop_ok m _ _ _ _ hqok
  dok := by
    intro x y h
    simp only [psStep, List.mem_cons, Prod.mk.injEq] at h
    rcases h with ⟨rfl, rfl⟩ | h
    · exact ⟨hs, ha⟩
    · exact hdok x y h
  vmax := by
    intro x
    simp only [psStep]
    by_cases hx : x = s
    · subst hx; simp
    · rw [if_neg hx, upd_row_ne _ _ _ _ _ hx]
      exact hvmax x
  fresh := by
    intro x y h
    simp only [psStep, List.mem_cons, Prod.mk.injEq] at h
    simp only [psStep]
    -- the stepped pair is fresh w.r.t. the old v by construction
    have hself : Fresh m (upd st.q s a (m.R s a + sumTo m.S (fun s1 => m.T s a s1 * (st.v s1 * m.γ))))
        st.v s a := by
      simp [Fresh, upd]
    have hxy : x < m.S ∧ y < m.A := by
      rcases h with ⟨rfl, rfl⟩ | h
      · exact ⟨hs, ha⟩
      · exact hdok x y h
    by_cases hsa : x = s ∧ y = a
    · obtain ⟨rfl, rfl⟩ := hsa
      exact step_pair m hT _ st.v _ st.queue x x y hs hs ha hself
    · have hold : Fresh m st.q st.v x y ∨ inQueue st.queue x y = true := by
        rcases h with h | h
        · exact absurd h hsa
        · rcases hfresh x y h with h1 | h1 | h1
          · exact Or.inl h1
          · exact Or.inr h1
          · exact absurd h1 hsa
      rcases hold with h1 | h1
      · apply step_pair m hT _ st.v _ st.queue s x y hs hxy.1 hxy.2
        unfold Fresh at h1 ⊢
        simp only [upd, if_neg hsa]
        exact h1
      · exact Or.inr (parentLoop_mono m _ _ _ _ x y h1)

theorem psBatch_inv (m : MDP) (hT : ∀ s a s1, 0 ≤ m.T s a s1) (sel : List QE → Nat) (n : Nat)
    (st : PS) (h : Inv m st) : Inv m (psBatch m 0 sel n st) := by
  induction n generalizing st with
  | zero => exact h
  | succ n ih =>
    unfold psBatch
    split
    · exact h
    · rename_i e he
      apply ih
      have hmem : e ∈ st.queue := List.mem_of_getElem? he
      have hin := h.qok e hmem
      apply psStep_inv m hT _ e.s e.a hin.1 hin.2
      · intro e' he'
        exact h.qok e' (mem_of_mem_removeAt _ _ _ he')
      · exact h.dok
      · exact h.vmax
      · intro x y hxy
        rcases h.fresh x y hxy with h1 | h1
        · exact Or.inl h1
        · by_cases hne : x = e.s ∧ y = e.a
          · exact Or.inr (Or.inr hne)
          · exact Or.inr (Or.inl (removeAt_inQueue _ _ e x y he h1 hne))

theorem psApply_inv (m : MDP) (hT : ∀ s a s1, 0 ≤ m.T s a s1) (st : PS) (op : PSOp)
    (hv : op.valid m) (h : Inv m st) : Inv m (psApply m 0 st op) := by
  cases op with
  | step s a =>
    exact psStep_inv m hT st s a hv.1 hv.2 h.qok h.dok h.vmax
      (fun x y hxy => (h.fresh x y hxy).elim Or.inl (fun h1 => Or.inr (Or.inl h1)))
  | batch n sel => exact psBatch_inv m hT sel n st h

theorem psRun_inv (m : MDP) (hT : ∀ s a s1, 0 ≤ m.T s a s1) (ops : List PSOp)
    (hv : ∀ op ∈ ops, op.valid m) : Inv m (psRun m 0 ops) := by
  unfold psRun
  exact ps_foldl_inv (Inv m) (psApply m 0) ops PS.init
    (fun st op hop hst => psApply_inv m hT st op (hv op hop) hst) (inv_init m)

/-! ## main theorem -/

set_option linter.unusedVariables false in
/-- C11 (PrioritizedSweeping).  Threshold `θ = 0`, arbitrary interleaving of explicit `stepUpdateQ`
    calls and `batchUpdateQ` calls, arbitrary pop order (`sel`), no stochasticity assumption on `T`
    beyond non-negativity: if the queue has drained and every pair has been updated at least once,
    then the Q-table satisfies the Bellman optimality equation on all of `S × A`.
    (`hA` is implied by the quantified `a < m.A` and is not used; it is kept for interface stability.) -/
theorem ps_fixed_point (m : MDP) (hT : ∀ s a s1, 0 ≤ m.T s a s1) (hA : 0 < m.A)
    (ops : List PSOp) (hv : ∀ op ∈ ops, op.valid m)
    (hempty : (psRun m 0 ops).queue = [])
    (hall : ∀ s a, s < m.S → a < m.A → (s, a) ∈ (psRun m 0 ops).done) :
    ∀ s a, s < m.S → a < m.A →
      (psRun m 0 ops).q s a
        = m.R s a + m.γ * sumTo m.S (fun s1 => m.T s a s1 * maxA m.A ((psRun m 0 ops).q s1)) := by
  intro s a hs ha
  have hinv := psRun_inv m hT ops hv
  rcases hinv.fresh s a (hall s a hs ha) with h | h
  · unfold Fresh at h
    rw [h, sumTo_pull]
    congr 3
    funext s1
    rw [hinv.vmax s1]
  · rw [hempty] at h
    simp [inQueue] at h

/-! ## uniqueness of the Bellman optimality fixed point (γ < 1, sub-stochastic rows) -/

theorem maxTo_le_add (n : Nat) (f g : Nat → Rat) (B : Rat) (h : ∀ i, i ≤ n → f i ≤ g i + B) :
    maxTo n f ≤ maxTo n g + B := by
  induction n with
  | zero => exact h 0 (Nat.le_refl 0)
  | succ n ih =>
    have ih' := ih (fun i hi => h i (Nat.le_succ_of_le hi))
    have hn := h (n + 1) (Nat.le_refl _)
    simp only [maxTo]
    split <;> split <;> linarith

theorem sumTo_le_add (n : Nat) (T w1 w2 : Nat → Rat) (B : Rat) (hT : ∀ i, 0 ≤ T i)
    (h : ∀ i, i < n → w1 i ≤ w2 i + B) :
    sumTo n (fun i => T i * w1 i) ≤ sumTo n (fun i => T i * w2 i) + sumTo n T * B := by
  induction n with
  | zero => simp [sumTo]
  | succ n ih =>
    have ih' := ih (fun i hi => h i (Nat.lt_succ_of_lt hi))
    have hn : T n * w1 n ≤ T n * (w2 n + B) :=
      mul_le_mul_of_nonneg_left (h n (Nat.lt_succ_self n)) (hT n)
    simp only [sumTo]
    nlinarith [ih', hn]

/-- one application of the optimality operator contracts a one-sided bound by `γ` -/
theorem bellman_contract_side (m : MDP) (hT : ∀ s a s1, 0 ≤ m.T s a s1)
    (hrow : ∀ s a, s < m.S → a < m.A → sumTo m.S (fun s1 => m.T s a s1) ≤ 1)
    (hγ0 : 0 ≤ m.γ) (hA : 0 < m.A) (q1 q2 : QF)
    (h1 : ∀ s a, s < m.S → a < m.A →
      q1 s a = m.R s a + m.γ * sumTo m.S (fun s1 => m.T s a s1 * maxA m.A (q1 s1)))
    (h2 : ∀ s a, s < m.S → a < m.A →
      q2 s a = m.R s a + m.γ * sumTo m.S (fun s1 => m.T s a s1 * maxA m.A (q2 s1)))
    (B : Rat) (hB : 0 ≤ B) (hb : ∀ s a, s < m.S → a < m.A → q1 s a ≤ q2 s a + B) :
    ∀ s a, s < m.S → a < m.A → q1 s a ≤ q2 s a + m.γ * B := by
  intro s a hs ha
  have hmax : ∀ s1, s1 < m.S → maxA m.A (q1 s1) ≤ maxA m.A (q2 s1) + B := by
    intro s1 hs1
    unfold maxA
    apply maxTo_le_add
    intro i hi
    exact hb s1 i hs1 (by omega)
  have hsum := sumTo_le_add m.S (m.T s a) (fun s1 => maxA m.A (q1 s1)) (fun s1 => maxA m.A (q2 s1)) B
    (hT s a) hmax
  have hr := hrow s a hs ha
  have hrB : sumTo m.S (fun s1 => m.T s a s1) * B ≤ B := by nlinarith
  rw [h1 s a hs ha, h2 s a hs ha]
  have : m.γ * sumTo m.S (fun s1 => m.T s a s1 * maxA m.A (q1 s1))
      ≤ m.γ * (sumTo m.S (fun s1 => m.T s a s1 * maxA m.A (q2 s1)) + B) :=
    mul_le_mul_of_nonneg_left (le_trans hsum (by linarith)) hγ0
  linarith

/-- finite supremum (with floor 0) over indices `0..n-1` -/
def supTo : Nat → (Nat → Rat) → Rat
  | 0, _ => 0
  | n+1, f => max (supTo n f) (f n)

theorem supTo_nonneg (n : Nat) (f : Nat → Rat) : 0 ≤ supTo n f := by
  induction n with
  | zero => exact le_refl _
  | succ n ih => exact le_trans ih (le_max_left _ _)

theorem le_supTo (n : Nat) (f : Nat → Rat) (i : Nat) (hi : i < n) : f i ≤ supTo n f := by
  induction n with
  | zero => omega
  | succ n ih =>
    simp only [supTo]
    by_cases h : i = n
    · subst h; exact le_max_right _ _
    · exact le_trans (ih (by omega)) (le_max_left _ _)

theorem supTo_le (n : Nat) (f : Nat → Rat) (C : Rat) (hC : 0 ≤ C) (h : ∀ i, i < n → f i ≤ C) :
    supTo n f ≤ C := by
  induction n with
  | zero => exact hC
  | succ n ih =>
    simp only [supTo]
    exact max_le (ih (fun i hi => h i (Nat.lt_succ_of_lt hi))) (h n (Nat.lt_succ_self n))

/-- one-sided uniqueness: `q1 ≤ q2` on `S × A` -/
theorem bellman_fixed_point_le (m : MDP) (hT : ∀ s a s1, 0 ≤ m.T s a s1)
    (hrow : ∀ s a, s < m.S → a < m.A → sumTo m.S (fun s1 => m.T s a s1) ≤ 1)
    (hγ0 : 0 ≤ m.γ) (hγ1 : m.γ < 1) (hA : 0 < m.A) (q1 q2 : QF)
    (h1 : ∀ s a, s < m.S → a < m.A →
      q1 s a = m.R s a + m.γ * sumTo m.S (fun s1 => m.T s a s1 * maxA m.A (q1 s1)))
    (h2 : ∀ s a, s < m.S → a < m.A →
      q2 s a = m.R s a + m.γ * sumTo m.S (fun s1 => m.T s a s1 * maxA m.A (q2 s1))) :
    ∀ s a, s < m.S → a < m.A → q1 s a ≤ q2 s a := by
  -- D = max(0, max over S×A of q1 - q2)
  let D : Rat := supTo m.S (fun s => supTo m.A (fun a => q1 s a - q2 s a))
  have hD0 : 0 ≤ D := supTo_nonneg _ _
  have hD : ∀ s a, s < m.S → a < m.A → q1 s a ≤ q2 s a + D := by
    intro s a hs ha
    have e1 : q1 s a - q2 s a ≤ supTo m.A (fun a => q1 s a - q2 s a) :=
      le_supTo m.A (fun a => q1 s a - q2 s a) a ha
    have e2 : supTo m.A (fun a => q1 s a - q2 s a) ≤ D :=
      le_supTo m.S (fun s => supTo m.A (fun a => q1 s a - q2 s a)) s hs
    linarith
  have hc := bellman_contract_side m hT hrow hγ0 hA q1 q2 h1 h2 D hD0 hD
  have hγD : 0 ≤ m.γ * D := mul_nonneg hγ0 hD0
  have hDle : D ≤ m.γ * D := by
    apply supTo_le _ _ _ hγD
    intro s hs
    apply supTo_le _ _ _ hγD
    intro a ha
    have := hc s a hs ha
    linarith
  have hDz : D ≤ 0 := by nlinarith
  intro s a hs ha
  have := hD s a hs ha
  linarith

/-- The Bellman optimality equation has at most one solution on `S × A` (γ < 1, rows of `T`
    non-negative with sum ≤ 1).  This is the fixed point value iteration converges to. -/
theorem bellman_fixed_point_unique (m : MDP) (hT : ∀ s a s1, 0 ≤ m.T s a s1)
    (hrow : ∀ s a, s < m.S → a < m.A → sumTo m.S (fun s1 => m.T s a s1) ≤ 1)
    (hγ0 : 0 ≤ m.γ) (hγ1 : m.γ < 1) (hA : 0 < m.A) (q1 q2 : QF)
    (h1 : ∀ s a, s < m.S → a < m.A →
      q1 s a = m.R s a + m.γ * sumTo m.S (fun s1 => m.T s a s1 * maxA m.A (q1 s1)))
    (h2 : ∀ s a, s < m.S → a < m.A →
      q2 s a = m.R s a + m.γ * sumTo m.S (fun s1 => m.T s a s1 * maxA m.A (q2 s1))) :
    ∀ s a, s < m.S → a < m.A → q1 s a = q2 s a := by
  intro s a hs ha
  exact le_antisymm
    (bellman_fixed_point_le m hT hrow hγ0 hγ1 hA q1 q2 h1 h2 s a hs ha)
    (bellman_fixed_point_le m hT hrow hγ0 hγ1 hA q2 q1 h2 h1 s a hs ha)

/-- PrioritizedSweeping with a drained queue reproduces THE optimal Q-function: its table agrees
    on `S × A` with any solution `qstar` of the Bellman optimality equation (e.g. the limit of
    value iteration). -/
theorem ps_reproduces_fixed_point (m : MDP) (hT : ∀ s a s1, 0 ≤ m.T s a s1)
    (hrow : ∀ s a, s < m.S → a < m.A → sumTo m.S (fun s1 => m.T s a s1) ≤ 1)
    (hγ0 : 0 ≤ m.γ) (hγ1 : m.γ < 1) (hA : 0 < m.A)
    (ops : List PSOp) (hv : ∀ op ∈ ops, op.valid m)
    (hempty : (psRun m 0 ops).queue = [])
    (hall : ∀ s a, s < m.S → a < m.A → (s, a) ∈ (psRun m 0 ops).done)
    (qstar : QF)
    (hstar : ∀ s a, s < m.S → a < m.A →
      qstar s a = m.R s a + m.γ * sumTo m.S (fun s1 => m.T s a s1 * maxA m.A (qstar s1))) :
    ∀ s a, s < m.S → a < m.A → (psRun m 0 ops).q s a = qstar s a :=
  bellman_fixed_point_unique m hT hrow hγ0 hγ1 hA _ qstar
    (ps_fixed_point m hT hA ops hv hempty hall) hstar

/-! ## TEST: the hypotheses of `ps_fixed_point` are satisfiable by a non-trivial instance

  2 states × 2 actions, γ = 1/2, sub-stochastic rational `T` with cycles (0→0, 0→1, 1→0, 1→1).
  Four explicit steps leave three stale pairs in the queue
  (`[(4/3,0,1), (1,1,1), (2,0,0)]`); `batchUpdateQ(100)` with the executable selector `topIdx`
  drains it after three pops.  With θ = 0 and exact arithmetic the queue drains only when the
  propagation terminates exactly (here: the cycles run through non-maximising actions only);
  in general it drains only in the limit, which is why `hempty` is a hypothesis.
  All checks below are kernel evaluations (`decide +kernel`; no `native_decide`). -/
namespace PSTest

def exT : Nat → Nat → Nat → Rat
  | 0, 0, 1 => 1
  | 0, 1, 0 => 1/3
  | 0, 1, 1 => 2/3
  | 1, 1, 0 => 1/2
  | 1, 1, 1 => 1/2
  | _, _, _ => 0

def exR : Nat → Nat → Rat
  | 0, 0 => 1
  | 1, 0 => 2
  | _, _ => 0

def exM : MDP := { S := 2, A := 2, T := exT, R := exR, γ := 1/2 }

def exOps : List PSOp := [.step 0 0, .step 0 1, .step 1 0, .step 1 1, .batch 100 topIdx]

theorem exT_nonneg : ∀ s a s1, 0 ≤ exM.T s a s1 := by
  intro s a s1
  show 0 ≤ exT s a s1
  unfold exT
  split <;> decide +kernel

theorem ex_valid : ∀ op ∈ exOps, op.valid exM := by
  intro op hop
  simp only [exOps, List.mem_cons, List.not_mem_nil, or_false] at hop
  rcases hop with rfl | rfl | rfl | rfl | rfl <;> simp [PSOp.valid, exM]

/-- the queue is non-empty before the batch (so the batch really does work) … -/
theorem ex_before : ((psRun exM 0 (exOps.take 4)).queue.map (fun e => (e.prio, e.s, e.a)))
    = [(4/3, 0, 1), (1, 1, 1), (2, 0, 0)] := by decide +kernel

/-- … and empty after it -/
theorem ex_empty : (psRun exM 0 exOps).queue = [] :=
  List.isEmpty_iff.mp (by decide +kernel)

theorem ex_done : (psRun exM 0 exOps).done = [(1,1),(0,1),(0,0),(1,1),(1,0),(0,1),(0,0)] := by
  decide +kernel

theorem ex_all : ∀ s a, s < exM.S → a < exM.A → (s, a) ∈ (psRun exM 0 exOps).done := by
  intro s a hs ha
  rw [ex_done]
  have hs' : s < 2 := hs
  have ha' : a < 2 := ha
  have : s = 0 ∨ s = 1 := by omega
  have : a = 0 ∨ a = 1 := by omega
  rcases ‹s = 0 ∨ s = 1› with rfl | rfl <;> rcases ‹a = 0 ∨ a = 1› with rfl | rfl <;> simp

/-- the instance satisfies every hypothesis, hence the conclusion -/
example : ∀ s a, s < exM.S → a < exM.A →
    (psRun exM 0 exOps).q s a
      = exM.R s a + exM.γ * sumTo exM.S (fun s1 => exM.T s a s1 * maxA exM.A ((psRun exM 0 exOps).q s1)) :=
  ps_fixed_point exM exT_nonneg (by decide) exOps ex_valid ex_empty ex_all

/-- and the table is the expected one: Q* = [[2,1],[2,1]] -/
example : toRows 2 2 (psRun exM 0 exOps).q = [[2, 1], [2, 1]] := by decide +kernel

theorem ex_row : ∀ s a, s < exM.S → a < exM.A → sumTo exM.S (fun s1 => exM.T s a s1) ≤ 1 := by
  intro s a hs ha
  have hs' : s < 2 := hs
  have ha' : a < 2 := ha
  have : s = 0 ∨ s = 1 := by omega
  have : a = 0 ∨ a = 1 := by omega
  rcases ‹s = 0 ∨ s = 1› with rfl | rfl <;> rcases ‹a = 0 ∨ a = 1› with rfl | rfl <;> decide +kernel

/-- the instance also satisfies the extra hypotheses of `ps_reproduces_fixed_point` -/
example (qstar : QF)
    (hstar : ∀ s a, s < exM.S → a < exM.A →
      qstar s a = exM.R s a + exM.γ * sumTo exM.S (fun s1 => exM.T s a s1 * maxA exM.A (qstar s1))) :
    ∀ s a, s < exM.S → a < exM.A → (psRun exM 0 exOps).q s a = qstar s a :=
  ps_reproduces_fixed_point exM exT_nonneg ex_row (by decide +kernel) (by decide +kernel) (by decide)
    exOps ex_valid ex_empty ex_all qstar hstar

end PSTest

end AITB.Learn
