/-
  C09 part l (round 3) — QSoftmaxPolicyWrapper in the form the source has now (`Gen.C09.smSubtractMax`): exponentials of
  `(q - max q)/T`.  In doubles such exponentials may UNDERFLOW to 0 (so `softmax_distribution`'s hypothesis `0 < e i` is too
  strong), but the entry of the maximum is `exp(0) = 1` exactly and nothing overflows.  Under exactly these facts the three members
  are a coherent distribution, and shift invariance holds for ANY `exp` function because the arguments themselves do not change.
-/
import AITB.Props.C09c
import AITB.Props.C09h

namespace AITB.Pol

theorem countTo_false (n : Nat) : countTo (fun _ => false) n = 0 := by
  induction n with
  | zero => rfl
  | succ n ih => simp [countTo, ih]

/-- **softmax_submax_distribution** — exponentials in `[0, ∞)` (zeros = underflow allowed), at least one equal to 1 (the maximum's),
    none infinite: queries are a distribution, `getPolicy` (no small-sum branch, as extracted) equals the queries entry by entry,
    and for every draw `u ∈ [0,1)` the sampled action is legal and has positive probability. -/
theorem softmax_submax_distribution (e : Nat → Rat) (n : Nat) (hnn : ∀ i, i < n → 0 ≤ e i) (k : Nat) (hk : k < n) (hk1 : e k = 1) :
    RowValid n (smProb e (fun _ => false) n) ∧
    (∀ a, smPolicy false e (fun _ => false) n a = smProb e (fun _ => false) n a) ∧
    (∀ u ws, 0 ≤ u → u < 1 → ∃ a, smSample e (fun _ => false) n u ws = some a ∧ a < n ∧ 0 < smProb e (fun _ => false) n a) := by
  have hs : 0 < sumTo n e := sumTo_pos hnn hk (by rw [hk1]; norm_num)
  have he : ∀ a, smProb e (fun _ => false) n a = e a / sumTo n e := fun a => by simp [smProb, countTo_false]
  have hrow : RowValid n (smProb e (fun _ => false) n) := by
    constructor
    · intro i hi; rw [he]; exact div_nonneg (hnn i hi) (le_of_lt hs)
    · rw [sumTo_congr (fun i _ => he i), sumTo_div]; exact div_self (ne_of_gt hs)
  refine ⟨hrow, fun a => by simp [smPolicy, smProb, countTo_false], fun u ws hu0 hu1 => ?_⟩
  have hfilter : ((List.range n).filter (fun _ => false)).length = 0 := by simp
  have hsamp : smSample e (fun _ => false) n u ws = some (sampleRow (fun i => e i / sumTo n e) n u) := by
    simp [smSample]
  have hrow' : RowValid n (fun i => e i / sumTo n e) := by
    constructor
    · intro i hi; have := hrow.1 i hi; rw [he] at this; exact this
    · have := hrow.2; rw [sumTo_congr (fun i _ => he i)] at this; exact this
  obtain ⟨h1, _, _, h4⟩ := sampleRow_interval hrow' hu0 hu1
  exact ⟨_, hsamp, h1, by rw [he]; exact h4⟩

example : (∀ i, i < 3 → (0 : Rat) ≤ (fun i => if i = 1 then 1 else 0) i) ∧ (fun i => if i = 1 then (1 : Rat) else 0) 1 = 1 := by
  constructor
  · intro i _; dsimp only; split <;> norm_num
  · norm_num

/-- **softmax_submax_shift_exact** — with the maximum subtracted, the arguments of `exp` are unchanged by a shift: for ANY function
    `expf` (no algebraic assumption), any temperature and any constant the exponentials — hence all three members — are identical. -/
theorem softmax_submax_shift_exact (expf : Rat → Rat) (q : Nat → Rat) (T c : Rat) (n : Nat) :
    (fun i => expf ((q i + c - maxTo (fun j => q j + c) (n - 1)) / T)) = (fun i => expf ((q i - maxTo q (n - 1)) / T)) := by
  funext i
  rw [maxTo_shift]
  congr 2
  ring

/-- the maximum's own entry is `expf 0`; every other argument is ≤ 0 (so a monotone `expf` with `expf 0 = 1` yields values in [0,1]: no overflow) -/
theorem softmax_submax_args (q : Nat → Rat) (n : Nat) (hn : 0 < n) (T : Rat) (hT : 0 < T) :
    (∃ k, k < n ∧ (q k - maxTo q (n - 1)) / T = 0) ∧ ∀ i, i < n → (q i - maxTo q (n - 1)) / T ≤ 0 := by
  obtain ⟨hmax, ⟨k, hk, hkm⟩⟩ := maxTo_spec q (n - 1)
  refine ⟨⟨k, by omega, by rw [hkm]; simp⟩, fun i hi => ?_⟩
  have := hmax i (by omega)
  exact div_nonpos_of_nonpos_of_nonneg (by linarith) (le_of_lt hT)

end AITB.Pol
