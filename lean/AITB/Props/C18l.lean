/-
  AITB.Props.C18l — what a decimal literal means: `stod` of `<digits>.<digits>` is the rational
  (digits read as one integer) / 10^(number of fraction digits), subject to the double range check.
  Together with the driver's exact per-token check this ties the text of a value to the number in the table
  without going through rounding.
-/
import AITB.Props.C18d
namespace AITB.Cassandra

theorem digit_toNat {c : Char} (h : isDigit c = true) : 48 ≤ c.toNat ∧ c.toNat ≤ 57 := by
  simp only [isDigit, Bool.and_eq_true, decide_eq_true_eq] at h
  have h1 : '0'.toNat ≤ c.toNat := h.1
  have h2 : c.toNat ≤ '9'.toNat := h.2
  have e0 : '0'.toNat = 48 := by decide
  have e9 : '9'.toNat = 57 := by decide
  omega

theorem digit_ne {c : Char} (h : isDigit c = true) (d : Char) (hd : d.toNat < 48 ∨ 57 < d.toNat) : c ≠ d := by
  intro e; subst e
  have := digit_toNat h
  omega

theorem lower_digit {c : Char} (h : isDigit c = true) : lower c = c := by
  unfold lower
  have hn := digit_toNat h
  have : ('A' ≤ c && c ≤ 'Z') = false := by
    have hA : ¬ ('A' ≤ c) := by
      intro hle
      have h1 : 'A'.toNat ≤ c.toNat := hle
      have eA : 'A'.toNat = 65 := by decide
      omega
    simp [hA]
  simp [this]

theorem takeWhile_digits_append (ip rest : Str) (hd : ∀ c ∈ ip, isDigit c = true) (hr : ∀ c, rest.head? = some c → isDigit c = false) :
    (ip ++ rest).takeWhile isDigit = ip ∧ (ip ++ rest).dropWhile isDigit = rest := by
  induction ip with
  | nil =>
    cases rest with
    | nil => exact ⟨rfl, rfl⟩
    | cons c t => have := hr c rfl; simp [List.takeWhile, List.dropWhile, this]
  | cons x t ih =>
    have hx := hd x List.mem_cons_self
    obtain ⟨i1, i2⟩ := ih (fun c hc => hd c (List.mem_cons_of_mem _ hc))
    simp [List.takeWhile, List.dropWhile, hx, i1, i2]

/-- the value `stodDec` computes from mantissa digits and a decimal exponent -/
def decValue (mant : Nat) (e : Int) : R XRat :=
  if mant == 0 then .ok (.fin 0)
  else if e > 5000 then .error .outOfRange
  else if e < -5000 then .error .outOfRange
  else inRange false (if e ≥ 0 then (mant : Rat) * pow10 e.toNat else (mant : Rat) / pow10 (-e).toNat)

theorem stodDec_plain (ip fp : Str) (hne : ip ≠ []) (hi : ∀ c ∈ ip, isDigit c = true) (hf : ∀ c ∈ fp, isDigit c = true) :
    stodDec false (ip ++ '.' :: fp) = decValue (digitsVal (ip ++ fp)) (0 - (fp.length : Int)) := by
  obtain ⟨t1, d1⟩ := takeWhile_digits_append ip ('.' :: fp) hi (by intro c hc; simp at hc; subst hc; decide)
  have hfp : fp.takeWhile isDigit = fp ∧ fp.dropWhile isDigit = [] := by
    have := takeWhile_digits_append fp [] hf (by intro c hc; simp at hc)
    simpa using this
  unfold stodDec decValue
  simp only [t1, d1, hfp.1, hfp.2, expPart]
  have : (ip.isEmpty && fp.isEmpty) = false := by
    cases ip with
    | nil => exact absurd rfl hne
    | cons _ _ => rfl
  simp only [this, Bool.false_eq_true, if_false]

/-- **a plain decimal literal denotes its decimal value**: `stod "<ip>.<fp>"` is `decValue` of the digits read as one integer and
    the exponent −|fp| — i.e. (for a non-zero mantissa and at most 5000 fraction digits) the rational `digits / 10^|fp|`, passed
    through the double range check -/
theorem stod_decimal (ip fp : Str) (hne : ip ≠ []) (hi : ∀ c ∈ ip, isDigit c = true) (hf : ∀ c ∈ fp, isDigit c = true) :
    stod (ip ++ '.' :: fp) = decValue (digitsVal (ip ++ fp)) (0 - (fp.length : Int)) := by
  cases ip with
  | nil => exact absurd rfl hne
  | cons c r =>
    have hc := hi c List.mem_cons_self
    have hsp : isSpace c = false := by
      have := digit_toNat hc
      have n1 : c ≠ ' ' := digit_ne hc _ (Or.inl (by decide))
      have n2 : c ≠ '\t' := digit_ne hc _ (Or.inl (by decide))
      have n3 : c ≠ '\n' := digit_ne hc _ (Or.inl (by decide))
      have n4 : c ≠ '\x0b' := digit_ne hc _ (Or.inl (by decide))
      have n5 : c ≠ '\x0c' := digit_ne hc _ (Or.inl (by decide))
      have n6 : c ≠ '\r' := digit_ne hc _ (Or.inl (by decide))
      simp [isSpace, n1, n2, n3, n4, n5, n6]
    have hm : c ≠ '-' := digit_ne hc _ (Or.inl (by decide))
    have hp : c ≠ '+' := digit_ne hc _ (Or.inl (by decide))
    have hi' : c ≠ 'i' := digit_ne hc _ (Or.inr (by decide))
    have hn' : c ≠ 'n' := digit_ne hc _ (Or.inr (by decide))
    have hdw : ((c :: r) ++ '.' :: fp).dropWhile isSpace = (c :: r) ++ '.' :: fp := by
      simp [List.dropWhile, hsp]
    have hsign : takeSign ((c :: r) ++ '.' :: fp) = (false, (c :: r) ++ '.' :: fp) := by
      simp only [List.cons_append]
      unfold takeSign
      split
      · rename_i heq; injection heq with h1 _; exact absurd h1 hm
      · rename_i heq; injection heq with h1 _; exact absurd h1 hp
      · rfl
    have hinf : startsWithCI ((c :: r) ++ '.' :: fp) ['i', 'n', 'f'] = false := by
      have : (lower c == 'i') = false := by rw [lower_digit hc]; simpa using hi'
      simp [startsWithCI, startsWith, this]
    have hnan : startsWithCI ((c :: r) ++ '.' :: fp) ['n', 'a', 'n'] = false := by
      have : (lower c == 'n') = false := by rw [lower_digit hc]; simpa using hn'
      simp [startsWithCI, startsWith, this]
    unfold stod
    rw [hdw, hsign]
    simp only [hinf, hnan, Bool.false_eq_true, if_false]
    rw [← stodDec_plain (c :: r) fp hne hi hf]
    -- the `0x` test: the character after a leading `0` is a digit or the '.', never `x`
    split
    · rename_i x t heq
      have hx : (x == 'x' || x == 'X') = false := by
        cases r with
        | nil =>
          simp only [List.cons_append, List.nil_append] at heq
          injection heq with _ h2; injection h2 with h3 _
          subst h3; decide
        | cons y ys =>
          simp only [List.cons_append] at heq
          injection heq with _ h2; injection h2 with h3 _
          have hy := hi y (List.mem_cons_of_mem _ List.mem_cons_self)
          subst h3
          have n1 : y ≠ 'x' := digit_ne hy _ (Or.inr (by decide))
          have n2 : y ≠ 'X' := digit_ne hy _ (Or.inr (by decide))
          simp [n1, n2]
      simp only [hx, Bool.false_eq_true, if_false]
    · rfl

/-- spelled out for the common case: at least one fraction digit, non-zero digits: the value is digits / 10^|fp| -/
theorem stod_decimal_value (ip fp : Str) (hne : ip ≠ []) (hfne : fp ≠ []) (hi : ∀ c ∈ ip, isDigit c = true) (hf : ∀ c ∈ fp, isDigit c = true)
    (hm : digitsVal (ip ++ fp) ≠ 0) (hlen : fp.length ≤ 5000) :
    stod (ip ++ '.' :: fp) = inRange false ((digitsVal (ip ++ fp) : Rat) / pow10 fp.length) := by
  rw [stod_decimal ip fp hne hi hf]
  unfold decValue
  have h0 : (digitsVal (ip ++ fp) == 0) = false := by simpa using hm
  have hpos : 0 < fp.length := by cases fp with | nil => exact absurd rfl hfne | cons _ _ => simp
  have h1 : ¬ ((0 : Int) - (fp.length : Int) > 5000) := by omega
  have h2 : ¬ ((0 : Int) - (fp.length : Int) < -5000) := by omega
  have h3 : ¬ ((0 : Int) - (fp.length : Int) ≥ 0) := by omega
  have h4 : (-(0 - (fp.length : Int))).toNat = fp.length := by omega
  simp only [h0, Bool.false_eq_true, if_false, h1, h2, h3, h4]

/-! ### the repair does not reject plain decimals: they are converted whole -/

theorem stodPos_decimal (ip fp : Str) (hne : ip ≠ []) (hi : ∀ c ∈ ip, isDigit c = true) (hf : ∀ c ∈ fp, isDigit c = true) :
    stodPos (ip ++ '.' :: fp) = (ip ++ '.' :: fp).length := by
  obtain ⟨t1, d1⟩ := takeWhile_digits_append ip ('.' :: fp) hi (by intro c hc; simp at hc; subst hc; decide)
  have hfp : fp.takeWhile isDigit = fp ∧ fp.dropWhile isDigit = [] := by
    have := takeWhile_digits_append fp [] hf (by intro c hc; simp at hc)
    simpa using this
  have hbody : decBodyLen (ip ++ '.' :: fp) = (ip ++ '.' :: fp).length := by
    unfold decBodyLen
    simp only [t1, d1, hfp.1, hfp.2, expLen, List.length_append, List.length_cons]
    omega
  cases ip with
  | nil => exact absurd rfl hne
  | cons c r =>
    have hc := hi c List.mem_cons_self
    have hsp : isSpace c = false := by
      have n1 : c ≠ ' ' := digit_ne hc _ (Or.inl (by decide))
      have n2 : c ≠ '\t' := digit_ne hc _ (Or.inl (by decide))
      have n3 : c ≠ '\n' := digit_ne hc _ (Or.inl (by decide))
      have n4 : c ≠ '\x0b' := digit_ne hc _ (Or.inl (by decide))
      have n5 : c ≠ '\x0c' := digit_ne hc _ (Or.inl (by decide))
      have n6 : c ≠ '\r' := digit_ne hc _ (Or.inl (by decide))
      simp [isSpace, n1, n2, n3, n4, n5, n6]
    have hm : c ≠ '-' := digit_ne hc _ (Or.inl (by decide))
    have hp : c ≠ '+' := digit_ne hc _ (Or.inl (by decide))
    have hi' : c ≠ 'i' := digit_ne hc _ (Or.inr (by decide))
    have hn' : c ≠ 'n' := digit_ne hc _ (Or.inr (by decide))
    have htw : ((c :: r) ++ '.' :: fp).takeWhile isSpace = [] := by simp [List.takeWhile, hsp]
    have hdw : ((c :: r) ++ '.' :: fp).dropWhile isSpace = (c :: r) ++ '.' :: fp := by simp [List.dropWhile, hsp]
    have hsign : takeSign ((c :: r) ++ '.' :: fp) = (false, (c :: r) ++ '.' :: fp) := by
      simp only [List.cons_append]
      unfold takeSign
      split
      · rename_i heq; injection heq with h1 _; exact absurd h1 hm
      · rename_i heq; injection heq with h1 _; exact absurd h1 hp
      · rfl
    have hsl : signLen ((c :: r) ++ '.' :: fp) = 0 := by
      simp only [List.cons_append]
      unfold signLen
      split
      · rename_i heq; injection heq with h1 _; exact absurd h1 hm
      · rename_i heq; injection heq with h1 _; exact absurd h1 hp
      · rfl
    have hinf : startsWithCI ((c :: r) ++ '.' :: fp) ['i', 'n', 'f'] = false := by
      have : (lower c == 'i') = false := by rw [lower_digit hc]; simpa using hi'
      simp [startsWithCI, startsWith, this]
    have hnan : startsWithCI ((c :: r) ++ '.' :: fp) ['n', 'a', 'n'] = false := by
      have : (lower c == 'n') = false := by rw [lower_digit hc]; simpa using hn'
      simp [startsWithCI, startsWith, this]
    unfold stodPos
    simp only [htw, hdw, hsign, hsl, hinf, hnan, Bool.false_eq_true, if_false, List.length_nil, Nat.zero_add]
    rw [← hbody]
    split
    · rename_i x t heq
      have hx : (x == 'x' || x == 'X') = false := by
        cases r with
        | nil =>
          simp only [List.cons_append, List.nil_append] at heq
          injection heq with _ h2; injection h2 with h3 _
          subst h3; decide
        | cons y ys =>
          simp only [List.cons_append] at heq
          injection heq with _ h2; injection h2 with h3 _
          have hy := hi y (List.mem_cons_of_mem _ List.mem_cons_self)
          subst h3
          have n1 : y ≠ 'x' := digit_ne hy _ (Or.inr (by decide))
          have n2 : y ≠ 'X' := digit_ne hy _ (Or.inr (by decide))
          simp [n1, n2]
      simp only [hx, Bool.false_eq_true, if_false]
    · rfl

/-- **the strict conversion accepts every plain decimal literal with the same value**: the repair (whole-token conversion)
    cannot reject `<digits>.<digits>` — whatever the flags, `stodS` is `stod` on such a token -/
theorem stodS_decimal (fl : Flags) (ip fp : Str) (hne : ip ≠ []) (hi : ∀ c ∈ ip, isDigit c = true) (hf : ∀ c ∈ fp, isDigit c = true) :
    stodS fl (ip ++ '.' :: fp) = stod (ip ++ '.' :: fp) := by
  unfold stodS
  cases stod (ip ++ '.' :: fp) with
  | error e => rfl
  | ok v => simp [bind, Except.bind, stodPos_decimal ip fp hne hi hf, pure, Except.pure]

end AITB.Cassandra
