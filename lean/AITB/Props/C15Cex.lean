/-
  AITB.Props.C15Cex — the two defects the model shares with the code, refuted on their concrete witnesses
  (harness cases 0 and 3).  Each theorem: the flat constraints hold for the stated weights, yet the LP the code builds
  has NO solution extending them.  (`decide +kernel` evaluates the generator on the literal instance; the contradiction
  is then derived from four of its rows.)
-/
import AITB.Props.C15Mdp

namespace AITB.FLP
open AITB.Factored AITB.VE

/-- harness case 0 / finding C15-mdp-lp-per-component-rows: S = A = (2,2), components (s0,a0) and (s1,a1), R = +1 on the
    first and −1 on the second, one all-ones basis on s0, γ = 1/2.  `w = 0` satisfies every flat constraint
    (R ≡ 0 jointly, V ≡ 0), but with one row PER final factor the generated LP forces `w ≥ 2`. -/
theorem mdp_perFinal_counterexample :
    let S : List Nat := [2, 2]
    let A : List Nat := [2, 2]
    let h : List Basis := [⟨[0], [1, 1]⟩]
    let g : List BasisM := [⟨[0], [0], [1, 1, 1, 1]⟩]
    let R : List BasisM := [⟨[0], [0], [1, 1, 1, 1]⟩, ⟨[1], [1], [-1, -1, -1, -1]⟩]
    ((allActs S).all (fun s => (allActs A).all (fun a =>
        decide (fmAt S A R s a + (1/2 : Rat) * gwAt S A g [0] s a ≤ wAt S h [0] s))) = true) ∧
    ¬ ∃ u : Nat → Rat, (∀ k, k < h.length → u k = ([0] : List Rat).getD k 0) ∧
        ∀ r ∈ (mdpGen false S A (1/2) h g R).1, r.sat u := by
  refine ⟨by decide +kernel, ?_⟩
  rintro ⟨u, hu0, hall⟩
  have m1 : (⟨[(1, -1), (0, -1)], .eq, 0⟩ : CRow) ∈ (mdpGen false [2, 2] [2, 2] (1/2) [⟨[0], [1, 1]⟩] [⟨[0], [0], [1, 1, 1, 1]⟩]
      [⟨[0], [0], [1, 1, 1, 1]⟩, ⟨[1], [1], [-1, -1, -1, -1]⟩]).1 := by decide +kernel
  have m2 : (⟨[(3, -1), (0, 1/2)], .eq, 0⟩ : CRow) ∈ (mdpGen false [2, 2] [2, 2] (1/2) [⟨[0], [1, 1]⟩] [⟨[0], [0], [1, 1, 1, 1]⟩]
      [⟨[0], [0], [1, 1, 1, 1]⟩, ⟨[1], [1], [-1, -1, -1, -1]⟩]).1 := by decide +kernel
  have m3 : (⟨[(7, 1)], .eq, 1⟩ : CRow) ∈ (mdpGen false [2, 2] [2, 2] (1/2) [⟨[0], [1, 1]⟩] [⟨[0], [0], [1, 1, 1, 1]⟩]
      [⟨[0], [0], [1, 1, 1, 1]⟩, ⟨[1], [1], [-1, -1, -1, -1]⟩]).1 := by decide +kernel
  have m4 : (⟨[(15, -1), (3, 1), (7, 1)], .le, 0⟩ : CRow) ∈ (mdpGen false [2, 2] [2, 2] (1/2) [⟨[0], [1, 1]⟩] [⟨[0], [0], [1, 1, 1, 1]⟩]
      [⟨[0], [0], [1, 1, 1, 1]⟩, ⟨[1], [1], [-1, -1, -1, -1]⟩]).1 := by decide +kernel
  have m5 : (⟨[(17, -1), (1, 1), (15, 1)], .le, 0⟩ : CRow) ∈ (mdpGen false [2, 2] [2, 2] (1/2) [⟨[0], [1, 1]⟩] [⟨[0], [0], [1, 1, 1, 1]⟩]
      [⟨[0], [0], [1, 1, 1, 1]⟩, ⟨[1], [1], [-1, -1, -1, -1]⟩]).1 := by decide +kernel
  have m6 : (⟨[(17, 1)], .le, 0⟩ : CRow) ∈ (mdpGen false [2, 2] [2, 2] (1/2) [⟨[0], [1, 1]⟩] [⟨[0], [0], [1, 1, 1, 1]⟩]
      [⟨[0], [0], [1, 1, 1, 1]⟩, ⟨[1], [1], [-1, -1, -1, -1]⟩]).1 := by decide +kernel
  have r1 := hall _ m1
  have r2 := hall _ m2
  have r3 := hall _ m3
  have r4 := hall _ m4
  have r5 := hall _ m5
  have r6 := hall _ m6
  have h0 : u 0 = 0 := by have := hu0 0 (by decide); simpa using this
  simp only [CRow.sat, lhs] at r1 r2 r3 r4 r5 r6
  linarith

/-- with the single joined row the same instance is fine: `mdpLP_equiv` applies (its hypotheses hold here) -/
example : MdpWF [2, 2] [2, 2] [⟨[0], [1, 1]⟩] [⟨[0], [0], [1, 1, 1, 1]⟩] [⟨[0], [0], [1, 1, 1, 1]⟩, ⟨[1], [1], [-1, -1, -1, -1]⟩] := by
  refine ⟨by decide, by decide, ?_, ?_, ?_, rfl⟩
  · intro f hf
    simp only [List.mem_cons, List.mem_nil_iff, or_false] at hf
    subst hf
    refine ⟨⟨by decide, by decide, by decide +kernel⟩, ?_⟩
    intro q hq hz
    simp only [List.mem_cons, List.mem_nil_iff, or_false] at hq
    rcases hq with rfl | rfl <;> revert hz <;> decide +kernel
  · intro f hf
    simp only [List.mem_cons, List.mem_nil_iff, or_false] at hf
    subst hf
    refine ⟨⟨by decide, by decide, by decide, by decide +kernel⟩, ?_⟩
    intro q hq hz
    simp only [List.mem_cons, List.mem_nil_iff, or_false] at hq
    rcases hq with rfl | rfl | rfl | rfl <;> revert hz <;> decide +kernel
  · intro f hf
    simp only [List.mem_cons, List.mem_nil_iff, or_false] at hf
    rcases hf with rfl | rfl
    · refine ⟨⟨by decide, by decide, by decide, by decide +kernel⟩, ?_⟩
      intro q hq hz
      simp only [List.mem_cons, List.mem_nil_iff, or_false] at hq
      rcases hq with rfl | rfl | rfl | rfl <;> revert hz <;> decide +kernel
    · refine ⟨⟨by decide, by decide, by decide, by decide +kernel⟩, ?_⟩
      intro q hq hz
      simp only [List.mem_cons, List.mem_nil_iff, or_false] at hq
      rcases hq with rfl | rfl | rfl | rfl <;> revert hz <;> decide +kernel

/-- harness case 3 / finding C15-flp-const-without-basis: S = (2), no basis function, target b = (1,3), constant basis
    requested.  (w_const, φ) = (2, 1) satisfies |w_const − b(s)| ≤ 1 at both states, but the LP the code builds contains no
    row mentioning the constant's column and forces φ ≥ 3.  (Hypothesis `addConst → C ≠ []` of `factoredLP_equiv`.) -/
theorem flp_const_without_basis_counterexample :
    (∀ s, Valid [2] s → -1 ≤ flpErr [2] [] [⟨[0], [1, 3]⟩] true [2] s ∧ flpErr [2] [] [⟨[0], [1, 3]⟩] true [2] s ≤ 1) ∧
    ¬ ∃ u : Nat → Rat, (∀ k, k < flpPhi [] true → u k = ([2] : List Rat).getD k 0) ∧ u (flpPhi [] true) = 1 ∧
        ∀ r ∈ (flpGen [2] [] [⟨[0], [1, 3]⟩] true).1, r.sat u := by
  refine ⟨?_, ?_⟩
  · intro s hs
    have hm := (mem_allActs [2] s).mpr hs
    have : allActs [2] = [[0], [1]] := by decide
    rw [this] at hm
    simp only [List.mem_cons, List.mem_nil_iff, or_false] at hm
    rcases hm with rfl | rfl <;> constructor <;> decide +kernel
  · rintro ⟨u, _, hphi, hall⟩
    have m1 : (⟨[(5, 1)], .eq, 3⟩ : CRow) ∈ (flpGen [2] [] [⟨[0], [1, 3]⟩] true).1 := by decide +kernel
    have m2 : (⟨[(7, -1), (5, 1)], .le, 0⟩ : CRow) ∈ (flpGen [2] [] [⟨[0], [1, 3]⟩] true).1 := by decide +kernel
    have m3 : (⟨[(1, -1), (7, 1)], .le, 0⟩ : CRow) ∈ (flpGen [2] [] [⟨[0], [1, 3]⟩] true).1 := by decide +kernel
    have r1 := hall _ m1
    have r2 := hall _ m2
    have r3 := hall _ m3
    have hp : flpPhi [] true = 1 := by decide
    rw [hp] at hphi
    simp only [CRow.sat, lhs] at r1 r2 r3
    linarith

/-- the hypotheses of `factoredLP_equiv` / `factoredLP_same_feasible` are satisfiable by a non-trivial instance
    (harness case 2: three binary factors, two overlapping bases, a target on all three factors, constant basis) -/
example :
    let S : List Nat := [2, 2, 2]
    let C : List Basis := [⟨[0, 1], [1, 0, 0, 1]⟩, ⟨[1, 2], [0, 1, 1/2, -1]⟩]
    let b : List Basis := [⟨[0, 1, 2], [1, 2, 3, 4, -1, -2, 1/4, 0]⟩]
    (∀ d ∈ S, 0 < d) ∧ (∀ f ∈ C, BasisWF S f) ∧ (∀ f ∈ b, BasisWF S f) ∧ ((true = true) → C ≠ []) := by
  refine ⟨by decide, ?_, ?_, by decide⟩
  · intro f hf
    simp only [List.mem_cons, List.mem_nil_iff, or_false] at hf
    rcases hf with rfl | rfl <;> exact ⟨by decide, by decide, by decide⟩
  · intro f hf
    simp only [List.mem_cons, List.mem_nil_iff, or_false] at hf
    subst hf; exact ⟨by decide, by decide, by decide⟩

end AITB.FLP
