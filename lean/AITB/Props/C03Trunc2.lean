/-
  AITB.Props.C03Trunc2 — the MODEL of `bestPromisingAction<false>` / `SARSOP::backupNode` (`promisingActSaw`, Model/POMDP3) is an instance of the
  truncated event `poolAddT` for EVERY belief: the hypothesis `hskip` ("an observation the code skips has exactly zero mass") that
  `promisingActSaw_is_poolAdd` needed is gone — a skipped observation has mass at most `equalToleranceSmall`, which is all `poolAddT` asks.
  Consequence (`promisingActSaw_upper_trunc`): on a state that is sound w.r.t. `L − e·mass`, the per-action value the model computes at a
  normalised belief dominates the look-ahead on `L − e·mass`, once `e` pays for `O` cut-offs (`promisingVal_trunc_ge`).
-/
import AITB.Props.C03Prom2
import AITB.Props.C03Trunc

namespace AITB.POMDP3
open AITB.MDP

theorem checkEqualSmall_zero_le (x : Rat) (h : checkEqualSmall x 0 = true) : x ≤ Gen.equalToleranceSmall := by
  unfold checkEqualSmall at h
  have h1 : absR (x - 0) ≤ Gen.equalToleranceSmall := by simpa using h
  unfold absR at h1
  split at h1 <;> linarith

theorem promisingActSaw_is_poolAddT (m : POMDP) (hv : Valid m) (st : AState) (Q : Mat) (pts : Array (MDP.Vec × Rat)) (hwf : SurfWF m Q pts)
    (hm : SurfMatches m st Q pts) (b : MDP.Vec) (hb : NN b.get) (a : Nat)
    (u : Rat) (h : promisingActSaw m Q pts b a = some u) :
    ∃ (skip : Nat → Bool) (iv : Nat → Rat),
      (∀ o, o < m.O → if skip o then mass m.S (bstep m b.get a o) ≤ Gen.equalToleranceSmall else IsInterp m st (bstep m b.get a o) (iv o)) ∧
      u = promisingVal m b.get a skip iv := by
  unfold promisingActSaw at h
  obtain ⟨t, ht, rfl⟩ := Option.map_eq_some_iff.mp h
  obtain ⟨iv, hiv, hsum⟩ := sumSaw_spec m Q pts b a m.O t ht
  refine ⟨fun o => checkEqualSmall (mass m.S (bstepV m b a o).get) 0, iv, fun o ho => ?_, ?_⟩
  · by_cases hc : checkEqualSmall (mass m.S (bstepV m b a o).get) 0 = true
    · simp only [hc, if_true]
      have := checkEqualSmall_zero_le _ hc
      rw [mass_congr m.S (fun s hs => bstepV_get m b a o s hs)] at this
      exact this
    · simp only [hc]
      have hcf : checkEqualSmall (mass m.S (bstepV m b a o).get) 0 = false := by simpa using hc
      have hI := sawVal_isInterp m hv st Q pts hwf hm (bstepV m b a o) (bstepV_size m b a o) (bstepV_NN m hv b hb a o) (iv o) (hiv o ho hcf)
      rcases hI with hI | ⟨N, p, vals, wc, wp, hP, hwc, hwp, hrec, hval⟩
      · left
        rw [hI]
        unfold basicVal
        exact maxTo_congr (fun a' _ => sumTo_congr (fun s hs => by rw [bstepV_get m b a o s hs]))
      · right
        exact ⟨N, p, vals, wc, wp, hP, hwc, hwp, fun s hs => by rw [← bstepV_get m b a o s hs]; exact hrec s hs, hval⟩
  · unfold promisingVal
    rw [hsum]

/-- the per-action value the model of `bestPromisingAction<false>` computes at a normalised belief, on a surface that is sound w.r.t. the
    lowered reference, dominates the look-ahead on the lowered reference — no assumption on which observations were skipped -/
theorem promisingActSaw_upper_trunc (m : POMDP) (hv : Valid m) (U L : (Nat → Rat) → Rat) (hL : Sublin m.S L) (hsub : SubSol m L)
    (e C : Rat) (he : 0 ≤ e) (hC0 : 0 ≤ C) (hC : ∀ x, NN x → Hop m L x ≤ C * mass m.S x)
    (hpay : C * ((m.O : Rat) * Gen.equalToleranceSmall) ≤ (1 - m.γ) * e * (1 - (m.O : Rat) * Gen.equalToleranceSmall))
    (st : AState) (hs : Sound m U (shiftV m.S e L) st) (Q : Mat) (pts : Array (MDP.Vec × Rat)) (hwf : SurfWF m Q pts)
    (hm : SurfMatches m st Q pts) (b : MDP.Vec) (hb : NN b.get) (hmass : mass m.S b.get = 1) (a : Nat)
    (u : Rat) (h : promisingActSaw m Q pts b a = some u) :
    qval m (shiftV m.S e L) b.get a ≤ u := by
  obtain ⟨skip, iv, hev, rfl⟩ := promisingActSaw_is_poolAddT m hv st Q pts hwf hm b hb a u h
  have hL' := shift_sublin m.S e L hL
  refine promisingVal_trunc_ge m hv L hsub e C _ he hC0 tolSmall_nonneg hC b.get hb a skip iv (fun o ho => ?_) (by rw [hmass]; exact hpay)
  have ho' := hev o ho
  by_cases hsk : skip o = true
  · simp only [hsk, if_true] at ho' ⊢; exact ho'
  · simp only [hsk] at ho' ⊢
    simp only [Bool.false_eq_true, if_false] at ho' ⊢
    exact isInterp_ge m hv U _ hL' st hs _ (bstep_nonneg m hv b.get hb a o) _ ho'

/-- **PBVI / PERSEUS / GapMin's inner PBVI with the Projecter as it is**: if every vector of timestep `t+1` is the point backup of vectors of
    timestep `t`, where observations that have probability at most `θ` in every successor state continue with the zero vector (Projecter's
    impossible-observation branch), then every vector of every timestep is sound up to `e` per unit of mass w.r.t. any super-solution `U`
    — for all horizons, belief sets, tolerances and prunings — provided `γ·K·O·θ ≤ (1−γ)·e`. -/
theorem backup_chain_cut_sound (m : POMDP) (hv : Valid m) (U : (Nat → Rat) → Rat) (hU : SuperSol m U) (cL e K θ : Rat)
    (hcL : ∀ y, NN y → cL * mass m.S y ≤ U y) (hK0 : 0 ≤ K) (hK : -(cL + e) ≤ K) (hθ0 : 0 ≤ θ)
    (hpay : m.γ * K * ((m.O : Rat) * θ) ≤ (1 - m.γ) * e)
    (Γ : Nat → (Nat → Rat) → Prop) (h0 : ∀ α, Γ 0 α → LBSoundE m U e α)
    (hstep : ∀ t α, Γ (t+1) α → ∃ a, a < m.A ∧ ∃ (skip : Nat → Bool) (ch : Nat → Nat → Rat),
      (∀ o, o < m.O → if skip o then ((∀ s1, s1 < m.S → m.Ob s1 a o ≤ θ) ∧ ∀ s, ch o s = 0) else Γ t (ch o)) ∧
      ∀ s, s < m.S → α s = backupVec m a ch s) :
    ∀ t α, Γ t α → LBSoundE m U e α := by
  intro t
  induction t with
  | zero => exact h0
  | succ t ih =>
    intro α hα x hx
    obtain ⟨a, ha, skip, ch, hch, he⟩ := hstep t α hα
    have e1 : dotS m.S x α = dotS m.S x (backupVec m a ch) := by unfold dotS; exact sumTo_congr (fun s hs => by rw [he s hs])
    rw [e1]
    refine pointBackup_cut_sound m hv U hU cL e K θ hcL hK0 hK hθ0 hpay a ha skip ch (fun o ho => ?_) x hx
    have ho' := hch o ho
    by_cases hsk : skip o = true
    · simp only [hsk, if_true] at ho' ⊢; exact ho'
    · simp only [hsk] at ho' ⊢
      simp only [Bool.false_eq_true, if_false] at ho' ⊢
      exact ih _ ho'

/-- the hypotheses of `backup_chain_cut_sound` are satisfiable with a positive threshold: γ = 1/2, O = 2, K = 18 (the lower witness: R ≥ −9),
    θ = 1e-6 is paid by `e = 36·1e-6` (test on literals) -/
example : (1/2 : Rat) * 18 * (((2 : Nat) : Rat) * (1/1000000)) ≤ (1 - 1/2) * (36/1000000) := by norm_num

/-- the two payment hypotheses of `anytimeT_sound` are satisfiable with the numbers of the upper cut-off witness (fixed instance 18 of the
    harness: γ = 1/2, max R = 8 so `C = 16`, O = 2, S + N = 15 pseudo-states, θ = 1e-6): `e = truncSlack` = 96/100000 pays for the table
    cut (`Dmax = O·(S+N)·θ`) and for the observation skip (test on literals) -/
example : (16 : Rat) * (2 * 15 * (1/1000000)) ≤ (1 - 1/2) * truncSlack (1/2) 16 (2 * 15 * (1/1000000)) ∧
    (16 : Rat) * (((2 : Nat) : Rat) * (1/1000000)) ≤ (1 - 1/2) * truncSlack (1/2) 16 (2 * 15 * (1/1000000)) * (1 - ((2 : Nat) : Rat) * (1/1000000)) := by
  unfold truncSlack; norm_num

end AITB.POMDP3
