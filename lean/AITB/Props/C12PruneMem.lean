/-
  AITB.Props.C12PruneMem — member-restricted versions of the theorems of AITB.Props.C12Prune / AITB.Props.C12.

  The algorithms `extractDominated`, `extractDominatedIncremental` and `pruner` only ever apply the
  domination test to members of their input.  Hence (congruence lemmas) two tests that agree on the members of
  the input give the same result, and every hypothesis on the test (`δ`-tolerance, transitivity) is needed
  only for members of the input.
-/
import AITB.Props.C12
import Mathlib.Algebra.Order.Field.Rat
import Mathlib.Tactic.Linarith

namespace AITB.Prune

variable {α : Type}

/-! ## congruence -/

theorem any_congr_mem {p q : α → Bool} : ∀ (l : List α), (∀ g ∈ l, p g = q g) → l.any p = l.any q
  | [], _ => rfl
  | a :: l, h => by
    simp only [List.any_cons]
    rw [h a (List.mem_cons_self ..), any_congr_mem l (fun g hg => h g (List.mem_cons_of_mem _ hg))]

section congr
variable (dom dom' : α → α → Bool) (L : List α) (hL : ∀ a ∈ L, ∀ b ∈ L, dom a b = dom' a b)
include hL

/-- the scan applies the test only to (entry of `rp`, current target), and a new target is an entry of `rp` -/
theorem edScan_congr : ∀ (rp A : List α) (tv : α) (B rem : List α),
    (∀ y ∈ rp, y ∈ L) → tv ∈ L → edScan dom rp A tv B rem = edScan dom' rp A tv B rem
  | [], A, tv, B, rem, _, _ => by simp [edScan]
  | x :: rp, A, tv, B, rem, hrp, htv => by
    have hx : x ∈ L := hrp x (List.mem_cons_self ..)
    have hrp' : ∀ y ∈ rp, y ∈ L := fun y hy => hrp y (List.mem_cons_of_mem _ hy)
    have e := hL x hx tv htv
    cases h : dom x tv with
    | true =>
      rw [edScan_cons_pos dom h, edScan_cons_pos dom' (e ▸ h)]
      exact edScan_congr rp [] x _ _ hrp' hx
    | false =>
      rw [edScan_cons_neg dom h, edScan_cons_neg dom' (e ▸ h)]
      exact edScan_congr rp (x :: A) tv B rem hrp' htv

theorem edLoop_congr : ∀ (n : Nat) (good U rem : List α),
    (∀ y ∈ good, y ∈ L) → (∀ y ∈ U, y ∈ L) → (∀ y ∈ rem, y ∈ L) →
    edLoop dom n good U rem = edLoop dom' n good U rem
  | 0, good, U, rem, _, _, _ => by simp [edLoop]
  | n+1, good, U, rem, hg, hU, hr => by
    cases h : U.getLast? with
    | none => rw [edLoop_succ_none dom h, edLoop_succ_none dom' h]
    | some t =>
      have hUe := eq_dropLast_append_of_getLast? h
      have ht : t ∈ L := hU t (by rw [hUe]; simp)
      have hP : ∀ y ∈ U.dropLast, y ∈ L := fun y hy => hU y (by rw [hUe]; simp [hy])
      have hany : good.any (fun g => dom g t) = good.any (fun g => dom' g t) :=
        any_congr_mem good (fun g hgm => hL g (hg g hgm) t ht)
      cases hd : good.any (fun g => dom g t) with
      | true =>
        rw [edLoop_succ_dom dom h n good rem hd, edLoop_succ_dom dom' h n good rem (hany ▸ hd)]
        refine edLoop_congr n good U.dropLast (t :: rem) hg hP ?_
        intro y hy
        rcases List.mem_cons.mp hy with rfl | hy
        · exact ht
        · exact hr y hy
      | false =>
        rw [edLoop_succ_scan dom h n good rem hd, edLoop_succ_scan dom' h n good rem (hany ▸ hd)]
        have hs := edScan_congr dom dom' L hL U.dropLast.reverse [] t [] rem
          (fun y hy => hP y (List.mem_reverse.mp hy)) ht
        rw [hs]
        have hp := edScan_perm dom' U.dropLast.reverse [] t [] rem
        generalize edScan dom' U.dropLast.reverse [] t [] rem = r at hp ⊢
        have hsub : ∀ y, y ∈ r.1 ∨ y = r.2.1 ∨ y ∈ r.2.2.1 ∨ y ∈ r.2.2.2 → y ∈ L := by
          intro y hy
          have hm : y ∈ U.dropLast.reverse ++ [] ++ t :: [] ++ rem := by
            rw [← hp.mem_iff]
            simp only [List.mem_append, List.mem_cons]
            tauto
          simp only [List.mem_append, List.mem_cons, List.mem_reverse, List.not_mem_nil, or_false] at hm
          rcases hm with (hm | rfl) | hm
          · exact hP y hm
          · exact ht
          · exact hr y hm
        refine edLoop_congr n _ _ _ ?_ ?_ ?_
        · intro y hy
          rcases List.mem_append.mp hy with hy | hy
          · exact hg y hy
          · rw [List.mem_singleton] at hy
            exact hsub y (Or.inr (Or.inl hy))
        · intro y hy
          rw [mem_afterPlace] at hy
          rcases hy with hy | hy
          · exact hsub y (Or.inl hy)
          · exact hsub y (Or.inr (Or.inr (Or.inl hy)))
        · intro y hy
          exact hsub y (Or.inr (Or.inr (Or.inr hy)))

/-- the inner loop of the incremental version applies the test only to (`t`, entry of `rp`) -/
theorem ediScan_congr (t : α) (ht : t ∈ L) : ∀ (rp S bad : List α) (isDom : Bool),
    (∀ y ∈ rp, y ∈ L) → ediScan dom t rp S bad isDom = ediScan dom' t rp S bad isDom
  | [], S, bad, isDom, _ => by simp [ediScan]
  | x :: rp, S, bad, isDom, hrp => by
    have hx : x ∈ L := hrp x (List.mem_cons_self ..)
    have hrp' : ∀ y ∈ rp, y ∈ L := fun y hy => hrp y (List.mem_cons_of_mem _ hy)
    have e1 := hL x hx t ht
    have e2 := hL t ht x hx
    cases h1 : (!isDom && dom x t) with
    | true =>
      rw [ediScan_cons_none dom h1, ediScan_cons_none dom' (e1 ▸ h1)]
    | false =>
      cases h2 : dom t x with
      | true =>
        rw [ediScan_cons_rem dom h1 h2, ediScan_cons_rem dom' (e1 ▸ h1) (e2 ▸ h2)]
        exact ediScan_congr t ht rp _ _ _ hrp'
      | false =>
        rw [ediScan_cons_keep dom h1 h2, ediScan_cons_keep dom' (e1 ▸ h1) (e2 ▸ h2)]
        exact ediScan_congr t ht rp _ _ _ hrp'

theorem ediLoop_congr : ∀ (rc og ob ng nb : List α),
    (∀ y ∈ rc, y ∈ L) → (∀ y ∈ og, y ∈ L) → (∀ y ∈ ob, y ∈ L) →
    ediLoop dom rc og ob ng nb = ediLoop dom' rc og ob ng nb
  | [], og, ob, ng, nb, _, _, _ => by simp [ediLoop]
  | t :: rc, og, ob, ng, nb, hrc, hog, hob => by
    have ht : t ∈ L := hrc t (List.mem_cons_self ..)
    have hrc' : ∀ y ∈ rc, y ∈ L := fun y hy => hrc y (List.mem_cons_of_mem _ hy)
    have hs := ediScan_congr dom dom' L hL t ht og.reverse [] ob false
      (fun y hy => hog y (List.mem_reverse.mp hy))
    cases h : ediScan dom t og.reverse [] ob false with
    | none =>
      rw [ediLoop_cons_none dom h, ediLoop_cons_none dom' (hs ▸ h)]
      exact ediLoop_congr rc og ob _ _ hrc' hog hob
    | some r =>
      rw [ediLoop_cons_some dom h, ediLoop_cons_some dom' (hs ▸ h)]
      have hp := ediScan_perm dom t _ _ _ _ r h
      have hsub : ∀ y, y ∈ r.1 ∨ y ∈ r.2 → y ∈ L := by
        intro y hy
        have hm : y ∈ og.reverse ++ [] ++ ob := by
          rw [← hp.mem_iff]
          exact List.mem_append.mpr hy
        simp only [List.mem_append, List.mem_reverse, List.not_mem_nil, or_false] at hm
        rcases hm with hm | hm
        · exact hog y hm
        · exact hob y hm
      exact ediLoop_congr rc r.1 r.2 _ _ hrc' (fun y hy => hsub y (Or.inl hy)) (fun y hy => hsub y (Or.inr hy))

end congr

/-- **congruence**: `extractDominated` applies the test only to members of its input -/
theorem extractDominated_congr (dom dom' : α → α → Bool) (xs : List α)
    (h : ∀ a ∈ xs, ∀ b ∈ xs, dom a b = dom' a b) :
    extractDominated dom xs = extractDominated dom' xs := by
  unfold extractDominated
  split
  · rfl
  · exact edLoop_congr dom dom' xs h xs.length [] xs [] (by intro y hy; simp at hy) (fun _ hy => hy)
      (by intro y hy; simp at hy)

/-- **congruence**: `extractDominatedIncremental` applies the test only to members of `old ++ new` -/
theorem incremental_congr (dom dom' : α → α → Bool) (old new : List α)
    (h : ∀ a ∈ old ++ new, ∀ b ∈ old ++ new, dom a b = dom' a b) :
    extractDominatedIncremental dom old new = extractDominatedIncremental dom' old new := by
  have h0 : extractDominated dom new = extractDominated dom' new :=
    extractDominated_congr dom dom' new
      (fun a ha b hb => h a (List.mem_append_right _ ha) b (List.mem_append_right _ hb))
  have hp := extractDominated_perm dom' new
  have h1 : ediLoop dom (extractDominated dom' new).1.reverse old [] [] []
      = ediLoop dom' (extractDominated dom' new).1.reverse old [] [] [] := by
    refine ediLoop_congr dom dom' (old ++ new) h _ old [] [] [] ?_ ?_ ?_
    · intro y hy
      exact List.mem_append_right _
        (hp.mem_iff.mp (List.mem_append_left _ (List.mem_reverse.mp hy)))
    · intro y hy
      exact List.mem_append_left _ hy
    · intro y hy; simp at hy
  simp only [extractDominatedIncremental, h0, h1]

/-- **congruence**: `Pruner::operator()` applies the domination test only to members of its input -/
theorem pruner_congr (dom dom' : Vec → Vec → Bool) (oracle : List Vec → Vec → Option Vec) (S : Nat)
    (xs : List Vec) (h : ∀ a ∈ xs, ∀ b ∈ xs, dom a b = dom' a b) :
    pruner dom oracle S xs = pruner dom' oracle S xs := by
  unfold pruner
  rw [extractDominated_congr dom dom' xs h]

/-! ## member-restricted corollaries

`restrict dom xs` is `dom` cut down to the members of `xs`; it agrees with `dom` on them, and any property
of `dom` on members of `xs` is a property of `restrict dom xs` everywhere. -/

section restricted
variable [DecidableEq α]

def restrict (dom : α → α → Bool) (xs : List α) (a b : α) : Bool :=
  dom a b && decide (a ∈ xs) && decide (b ∈ xs)

theorem restrict_agree (dom : α → α → Bool) (xs : List α) :
    ∀ a ∈ xs, ∀ b ∈ xs, dom a b = restrict dom xs a b := by
  intro a ha b hb
  simp [restrict, ha, hb]

theorem restrict_true {dom : α → α → Bool} {xs : List α} {a b : α} (h : restrict dom xs a b = true) :
    dom a b = true ∧ a ∈ xs ∧ b ∈ xs := by
  simpa [restrict, and_assoc] using h

theorem extractDominated_value_mem (dom : α → α → Bool) (sem : α → Rat) (δ : Rat) (hδ : 0 ≤ δ) (xs : List α)
    (hdom : ∀ a ∈ xs, ∀ b ∈ xs, dom a b = true → sem b ≤ sem a + δ) :
    ∀ x ∈ xs, ∃ g ∈ (extractDominated dom xs).1, sem x ≤ sem g + (xs.length : Rat) * δ := by
  rw [extractDominated_congr dom (restrict dom xs) xs (restrict_agree dom xs)]
  refine extractDominated_value (restrict dom xs) sem δ hδ ?_ xs
  intro a b h
  obtain ⟨h1, h2, h3⟩ := restrict_true h
  exact hdom a h2 b h3 h1

theorem extractDominated_value_exact_mem (dom : α → α → Bool) (sem : α → Rat) (xs : List α)
    (hdom : ∀ a ∈ xs, ∀ b ∈ xs, dom a b = true → sem b ≤ sem a) :
    ∀ x ∈ xs, ∃ g ∈ (extractDominated dom xs).1, sem x ≤ sem g := by
  intro x hx
  obtain ⟨g, hg, h⟩ := extractDominated_value_mem dom sem 0 (le_refl _)
    xs (by intro a ha b hb hab; simpa using hdom a ha b hb hab) x hx
  exact ⟨g, hg, by simpa using h⟩

theorem extractDominated_antichain_mem (dom : α → α → Bool) (xs : List α)
    (htrans : ∀ a ∈ xs, ∀ b ∈ xs, ∀ c ∈ xs, dom a b = true → dom b c = true → dom a c = true) :
    (extractDominated dom xs).1.Pairwise (fun a b => dom a b = false ∧ dom b a = false) := by
  have hagree := restrict_agree dom xs
  have hmem : ∀ y ∈ (extractDominated dom xs).1, y ∈ xs := fun y hy =>
    (extractDominated_perm dom xs).mem_iff.mp (List.mem_append_left _ hy)
  have ha := extractDominated_antichain (restrict dom xs) (by
    intro a b c hab hbc
    obtain ⟨h1, h2, h3⟩ := restrict_true hab
    obtain ⟨h4, _, h6⟩ := restrict_true hbc
    rw [← hagree a h2 c h6]
    exact htrans a h2 b h3 c h6 h1 h4) xs
  rw [← extractDominated_congr dom (restrict dom xs) xs hagree] at ha
  refine ha.imp_of_mem ?_
  intro a b ha' hb' hab
  have ea := hmem a ha'
  have eb := hmem b hb'
  rw [hagree a ea b eb, hagree b eb a ea]
  exact hab

theorem incremental_value_mem (dom : α → α → Bool) (sem : α → Rat) (δ : Rat) (hδ : 0 ≤ δ) (old new : List α)
    (hdom : ∀ a ∈ old ++ new, ∀ b ∈ old ++ new, dom a b = true → sem b ≤ sem a + δ) :
    ∀ x ∈ old ++ new, ∃ g ∈ (extractDominatedIncremental dom old new).kept,
      sem x ≤ sem g + ((old ++ new).length : Rat) * δ := by
  rw [incremental_congr dom (restrict dom (old ++ new)) old new (restrict_agree dom (old ++ new))]
  refine incremental_value (restrict dom (old ++ new)) sem δ hδ ?_ old new
  intro a b h
  obtain ⟨h1, h2, h3⟩ := restrict_true h
  exact hdom a h2 b h3 h1

/-- the incremental result and the from-scratch result on `old ++ new` cover each other in value -/
theorem incremental_eq_union_mem (dom : α → α → Bool) (sem : α → Rat) (δ : Rat) (hδ : 0 ≤ δ) (old new : List α)
    (hdom : ∀ a ∈ old ++ new, ∀ b ∈ old ++ new, dom a b = true → sem b ≤ sem a + δ) :
    (∀ g ∈ (extractDominatedIncremental dom old new).kept,
        ∃ g' ∈ (extractDominated dom (old ++ new)).1, sem g ≤ sem g' + ((old ++ new).length : Rat) * δ) ∧
    (∀ g' ∈ (extractDominated dom (old ++ new)).1,
        ∃ g ∈ (extractDominatedIncremental dom old new).kept, sem g' ≤ sem g + ((old ++ new).length : Rat) * δ) := by
  rw [incremental_congr dom (restrict dom (old ++ new)) old new (restrict_agree dom (old ++ new)),
    extractDominated_congr dom (restrict dom (old ++ new)) (old ++ new) (restrict_agree dom (old ++ new))]
  refine incremental_eq_union (restrict dom (old ++ new)) sem δ hδ ?_ old new
  intro a b h
  obtain ⟨h1, h2, h3⟩ := restrict_true h
  exact hdom a h2 b h3 h1

end restricted

/-- `pruner_envelope` with the tolerance hypothesis on the domination test needed only for members of the input -/
theorem pruner_envelope_mem (dom : Vec → Vec → Bool) (oracle : List Vec → Vec → Option Vec)
    (n : Nat) (δ ε : Rat) (hδ : 0 ≤ δ) (hε : 0 ≤ ε) (S : Nat) (xs : List Vec)
    (hdom : ∀ a ∈ xs, ∀ b ∈ xs, dom a b = true → ∀ bel, IsBelief n bel → dot bel b ≤ dot bel a + δ)
    (hnone : ∀ best v, oracle best v = none → ∀ b, IsBelief n b → ∃ g ∈ best, dot b v ≤ dot b g + ε) :
    ∀ bel, IsBelief n bel → ∀ x ∈ xs, ∃ g ∈ (pruner dom oracle S xs).1,
      dot bel x ≤ dot bel g + (xs.length : Rat) * δ + ε := by
  rw [pruner_congr dom (restrict dom xs) oracle S xs (restrict_agree dom xs)]
  refine pruner_envelope (restrict dom xs) oracle n δ ε hδ hε ?_ hnone S xs
  intro a b h
  obtain ⟨h1, h2, h3⟩ := restrict_true h
  exact hdom a h2 b h3 h1

/-! ## tests -/

/-- test (congruence, literal): two tests that differ only off the input give the same result -/
example : extractDominated (fun a b : Int => decide (b ≤ a)) [3, 1, 4, 1, 5]
    = extractDominated (fun a b : Int => decide (b ≤ a) && decide (a ≤ 5) && decide (b ≤ 5)) [3, 1, 4, 1, 5] :=
  extractDominated_congr _ _ _ (by decide)

/-- test (non-vacuity of the restricted hypothesis): a test that is `δ`-tolerant only on small numbers
    (it claims `7 ▷ 100`), used on an input of small numbers -/
example : ∀ x ∈ ([3, 1, 4, 1, 5] : List Int),
    ∃ g ∈ (extractDominated (fun a b : Int => decide (b ≤ a) || decide (a = 7)) [3, 1, 4, 1, 5]).1,
      (x : Rat) ≤ (g : Rat) :=
  extractDominated_value_exact_mem (fun a b : Int => decide (b ≤ a) || decide (a = 7)) (fun z => (z : Rat))
    [3, 1, 4, 1, 5] (by
      intro a ha b hb h
      have ha7 : a ≠ 7 := by
        simp only [List.mem_cons, List.not_mem_nil, or_false] at ha
        omega
      have h' : b ≤ a := by simpa [ha7] using h
      exact_mod_cast h')

end AITB.Prune
