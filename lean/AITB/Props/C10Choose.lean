/-
  AITB.Props.C10Choose — `nChooseK` (src/Utils/Combinatorics.cpp) computes the binomial coefficient: every
  `result /= i` is exact, so `SubsetEnumerator::subsetsSize()` is the number of subsets the enumerator visits.
  (In ideal arithmetic; the source computes in 32-bit `unsigned`, whose wrap-around is defined behaviour — the largest
  intermediate value is `choose n i * i`, see `chooseLoop_peak`.)
-/
import AITB.Model.CursorUtil
import Mathlib.Data.Nat.Choose.Basic

namespace AITB.CursorUtil

theorem chooseLoop_eq (n : Nat) : ∀ (fuel i : Nat), 1 ≤ i → i - 1 + fuel ≤ n →
    chooseLoop n fuel i (Nat.choose n (i - 1)) = Nat.choose n (i - 1 + fuel) := by
  intro fuel
  induction fuel with
  | zero => intro i _ _; simp [chooseLoop]
  | succ fuel ih =>
    intro i hi hn
    unfold chooseLoop
    have h1 : n - i + 1 = n - (i - 1) := by omega
    have h2 : Nat.choose n (i - 1) * (n - i + 1) / i = Nat.choose n i := by
      rw [h1, ← Nat.choose_succ_right_eq n (i - 1)]
      have : i - 1 + 1 = i := by omega
      rw [this]; exact Nat.mul_div_cancel _ (by omega)
    rw [h2]
    have := ih (i + 1) (by omega) (by simp; omega)
    simp only [Nat.add_sub_cancel] at this
    rw [this]; congr 1; omega

/-- **nChooseK_eq_choose** — for ALL n, k the loop as written returns `n choose k` -/
theorem nChooseK_eq_choose (n k : Nat) : nChooseK n k = Nat.choose n k := by
  unfold nChooseK
  by_cases h : k > n
  · simp [h, Nat.choose_eq_zero_of_lt h]
  · simp only [h, if_false]
    have key : ∀ k', k' ≤ n → (if k' = 0 then 1 else chooseLoop n (k' - 1) 2 n) = Nat.choose n k' := by
      intro k' hk'
      by_cases h0 : k' = 0
      · simp [h0]
      · simp only [h0, if_false]
        have := chooseLoop_eq n (k' - 1) 2 (by omega) (by omega)
        simp only [Nat.add_one_sub_one, Nat.choose_one_right] at this
        rw [this]; congr 1; omega
    by_cases h2 : k * 2 > n
    · simp only [h2, if_true]
      rw [key (n - k) (by omega)]; exact Nat.choose_symm (by omega)
    · simp only [h2, if_false]; exact key k (by omega)

example : nChooseK 6 3 = 20 := by decide
example : nChooseK 5 0 = 1 ∧ nChooseK 3 5 = 0 := by decide

end AITB.CursorUtil
