/-
  AITB.Props.C04n — warm starts, suffixes and stale links.

  * `Consistent` relates ADJACENT levels only, so every suffix of a consistent value function is consistent
    (`consistent_drop`) and a value function grown on top of ANY stored list is consistent from that list upward
    (`consistent_drop_snoc`).
  * `PBVI::operator()(model, beliefs, v)` with a warm start `v` (modelled by `pbviRunFrom`, which projects the list the
    SOURCE projects — `v.back()`, read by the translator into `Gen.C04.pbviProjectsBack`): for EVERY warm start with a
    non-empty last list — consistent or not, produced by any solver, of any length — the levels PBVI appends are plans over
    their links down to the warm start's last list (`pbvi_warm_levels`), the warm start is kept as a prefix, and if the
    warm start was `Consistent` the whole result is (`pbvi_warm_consistent`).  Executing a new level's entry for `k` steps
    earns `b · values` with the warm start's last list as terminal values (`pbvi_warm_exec`).
  * links are POSITIONS in the previous list: permuting (pruning) a stored list after the next one has been linked to it
    breaks the plan (`stale_link_counterexample`) — the translator pins that no solver touches a stored list again.
  * the documented episode loop of `POMDP::Policy` as one statement (`policy_episode`).
-/
import AITB.Props.C04j
import AITB.Props.C04x

namespace AITB.Plan

theorem vlist_drop (vf : VF) (k j : Nat) : vlist (vf.drop k) j = vlist vf (k + j) := by
  simp [vlist, List.getD_eq_getElem?_getD, List.getElem?_drop]

/-- **consistent_drop.**  Every suffix of a consistent value function is consistent (with the first kept list as the
    terminal list). -/
theorem consistent_drop {step} {m : Pomdp} {vf : VF} (hc : ConsistentW step m vf) (k : Nat) :
    ConsistentW step m (vf.drop k) := by
  intro h hh id hid
  rw [List.length_drop] at hh
  unfold entry
  rw [vlist_drop] at hid ⊢
  rw [vlist_drop]
  have := hc (k + h) (by omega) id (by simpa [Nat.add_assoc] using hid)
  simpa [entry, Nat.add_assoc] using this

/-- **consistent_drop_snoc.**  Appending a list of one-step plans over the LAST stored list keeps "consistent from level
    `k` upward", whatever lies below level `k`. -/
theorem consistent_drop_snoc {m : Pomdp} {vf : VF} {w : VList} (k : Nat) (hk : k < vf.length)
    (hc : Consistent m (vf.drop k)) (hw : ∀ e ∈ w, EntryOK oneStep m (vlist vf (vf.length - 1)) e) :
    Consistent m ((vf ++ [w]).drop k) := by
  rw [List.drop_append_of_le_length (by omega)]
  apply consistent_snoc hc
  · intro h0
    have := congrArg List.length h0
    simp only [List.length_drop, List.length_nil] at this
    omega
  · intro e he
    rw [vlist_drop, List.length_drop]
    have e1 : k + (vf.length - k - 1) = vf.length - 1 := by omega
    rw [e1]
    exact hw e he

/-! ## one PBVI timestep on any non-empty previous list -/

theorem pbviStep_ok {m : Pomdp} (beliefs : List (Nat → Rat)) (hb : beliefs ≠ []) (hA : 0 < m.A) (hO : 0 < m.O)
    (prev : VList) (hp : prev ≠ []) :
    pbviStep m beliefs prev ≠ [] ∧ ∀ e ∈ pbviStep m beliefs prev, EntryOK oneStep m prev e := by
  constructor
  · unfold pbviStep
    apply pbviSelect_ne_nil _ _ _ hb
    have h0 : pbviAction m beliefs prev 0 ≠ [] := by
      unfold pbviAction
      apply extractDominated_ne_nil
      intro hnil
      have := congrArg List.length hnil
      simp only [List.length_map, List.length_nil] at this
      exact hb (List.length_eq_zero_iff.mp this)
    obtain ⟨e, he⟩ := List.exists_mem_of_ne_nil _ h0
    intro hnil
    have : e ∈ (List.range m.A).flatMap (pbviAction m beliefs prev) :=
      List.mem_flatMap.mpr ⟨0, List.mem_range.mpr hA, he⟩
    rw [hnil] at this
    simp at this
  · intro e he
    unfold pbviStep at he
    have h1 := pbviSelect_sub _ _ _ _ he
    obtain ⟨a, ha, hea⟩ := List.mem_flatMap.mp h1
    unfold pbviAction at hea
    have h2 := mem_of_mem_extractDominated _ _ _ hea
    obtain ⟨b, _, rfl⟩ := List.mem_map.mp h2
    exact crossSumBestAtBelief_ok b hp (List.mem_range.mp ha) hO (fun o => project m prev a o)
      (fun o _ => ⟨project_ne_nil' m a o hp, fun p hp' => hp'⟩)

/-- the source projects `v.back()` (read from PBVI.hpp on every run; with `v[timestep-1]` this is `false` and the
    theorems below stop checking) -/
theorem pbviProjectsBack_eq : Gen.C04.pbviProjectsBack = true := rfl

theorem pbviRunFrom_succ (m : Pomdp) (beliefs : List (Nat → Rat)) (v0 : VF) (h : Nat) :
    pbviRunFrom m beliefs v0 (h+1) =
      pbviRunFrom m beliefs v0 h ++
        [pbviStep m beliefs (vlist (pbviRunFrom m beliefs v0 h) ((pbviRunFrom m beliefs v0 h).length - 1))] := by
  simp [pbviRunFrom, pbviProjectsBack_eq]

/-- the cold start is the warm start from the empty value function (`ValueFunction v = {}`) -/
theorem pbviRunFrom_nil (m : Pomdp) (beliefs : List (Nat → Rat)) : ∀ h, pbviRunFrom m beliefs [] h = pbviRun m beliefs h
  | 0 => by simp [pbviRunFrom, pbviRun]
  | h+1 => by rw [pbviRunFrom_succ, pbviRunFrom_nil m beliefs h]; simp [pbviRun]

theorem vlist_last_snoc (v : VF) (w : VList) : vlist (v ++ [w]) ((v ++ [w]).length - 1) = w := by
  simp only [vlist, List.length_append, List.length_singleton, Nat.add_sub_cancel, List.getD_eq_getElem?_getD]
  rw [List.getElem?_append_right (by omega)]
  simp

/-- **pbvi_warm_levels.**  For EVERY warm start `v0` whose last list is non-empty (no other assumption: it need not be
    consistent, nor come from PBVI, nor have any particular length), every non-empty belief list, every POMDP with
    A, O ≥ 1 and every number of timesteps `h`:  the warm start is kept as the prefix of the result, the result's last list
    is non-empty, the result is `Consistent` from the warm start's last list upward, and if the warm start was
    `Consistent` so is the whole result. -/
theorem pbvi_warm_levels {m : Pomdp} (beliefs : List (Nat → Rat)) (hb : beliefs ≠ []) (hA : 0 < m.A) (hO : 0 < m.O)
    (v0 : VF) (hne : v0 ≠ []) (hlast : vlist v0 (v0.length - 1) ≠ []) : ∀ h,
    (pbviRunFrom m beliefs v0 h).length = v0.length + h ∧
    (pbviRunFrom m beliefs v0 h).take v0.length = v0 ∧
    vlist (pbviRunFrom m beliefs v0 h) ((pbviRunFrom m beliefs v0 h).length - 1) ≠ [] ∧
    Consistent m ((pbviRunFrom m beliefs v0 h).drop (v0.length - 1)) ∧
    (Consistent m v0 → Consistent m (pbviRunFrom m beliefs v0 h))
  | 0 => by
    have h0 : pbviRunFrom m beliefs v0 0 = v0 := by
      cases v0 with
      | nil => exact absurd rfl hne
      | cons x xs => simp [pbviRunFrom]
    rw [h0]
    have hpos : 0 < v0.length := List.length_pos_iff.mpr hne
    refine ⟨rfl, List.take_length, hlast, ?_, id⟩
    intro k hk
    rw [List.length_drop] at hk
    omega
  | h+1 => by
    obtain ⟨i1, i2, i3, i4, i5⟩ := pbvi_warm_levels beliefs hb hA hO v0 hne hlast h
    have hpos : 0 < v0.length := List.length_pos_iff.mpr hne
    obtain ⟨s1, s2⟩ := pbviStep_ok beliefs hb hA hO _ i3
    rw [pbviRunFrom_succ]
    refine ⟨by simp [i1]; omega, ?_, ?_, ?_, ?_⟩
    · rw [List.take_append_of_le_length (by omega)]; exact i2
    · rw [vlist_last_snoc]; exact s1
    · exact consistent_drop_snoc _ (by omega) i4 s2
    · intro hc
      apply consistent_snoc (i5 hc) _ s2
      intro h0
      rw [h0] at i1
      simp at i1
      omega

/-- **pbvi_warm_consistent.**  A `Consistent` warm start stays a plan: the value function
    `PBVI(…)(model, beliefs, v)` returns is `Consistent` at every level. -/
theorem pbvi_warm_consistent {m : Pomdp} (beliefs : List (Nat → Rat)) (hb : beliefs ≠ []) (hA : 0 < m.A) (hO : 0 < m.O)
    (v0 : VF) (hne : v0 ≠ []) (hlast : vlist v0 (v0.length - 1) ≠ []) (hc : Consistent m v0) (h : Nat) :
    Consistent m (pbviRunFrom m beliefs v0 h) :=
  (pbvi_warm_levels beliefs hb hA hO v0 hne hlast h).2.2.2.2 hc

/-- **pbvi_warm_exec.**  Whatever the warm start: executing an entry of the `k`-th appended level for `k` steps (in the
    POMDP as the Projecter sees it), with the warm start's last list as terminal values, earns exactly `b · values`. -/
theorem pbvi_warm_exec {m : Pomdp} (beliefs : List (Nat → Rat)) (hb : beliefs ≠ []) (hA : 0 < m.A) (hO : 0 < m.O)
    (v0 : VF) (hne : v0 ≠ []) (hlast : vlist v0 (v0.length - 1) ≠ []) (h k id : Nat) (b : Nat → Rat) (hk : k ≤ h)
    (hid : id < (vlist (pbviRunFrom m beliefs v0 h) (v0.length - 1 + k)).length) :
    execReturn (cutModel m) ((pbviRunFrom m beliefs v0 h).drop (v0.length - 1)) k id b =
      dot m.S b (val (entry (pbviRunFrom m beliefs v0 h) (v0.length - 1 + k) id)) := by
  obtain ⟨i1, _, _, i4, _⟩ := pbvi_warm_levels beliefs hb hA hO v0 hne hlast h
  have hpos : 0 < v0.length := List.length_pos_iff.mpr hne
  have := links_consistent_exec_cut i4 k id b (by rw [List.length_drop, i1]; omega) (by rw [vlist_drop]; exact hid)
  rw [this]
  unfold entry
  rw [vlist_drop]

/-- TEST: the hypotheses are satisfiable by a non-trivial warm start (the 2-level chain value function, itself
    `Consistent`), and the conclusion is not vacuous: two more levels appear -/
example : Consistent chain (pbviRunFrom chain [fun _ => 1/2] chainVF 2) ∧ (pbviRunFrom chain [fun _ => 1/2] chainVF 2).length = 5 :=
  ⟨pbvi_warm_consistent _ (by simp) (by decide) (by decide) chainVF (by decide) (by decide) chainVF_consistent 2,
   (pbvi_warm_levels (m := chain) [fun _ => 1/2] (by simp) (by decide) (by decide) chainVF (by decide) (by decide) 2).1⟩

/-! ## links are positions: a stored list must not be permuted after it has been linked to -/

/-- two states, one action that stays put, one observation, γ = 1/2, R = (0, 4) -/
def stay : Pomdp :=
  { S := 2, A := 1, O := 1, disc := 1/2,
    T := fun _ s s1 => if s = s1 then 1 else 0,
    R := fun s _ => if s = 1 then 4 else 0,
    Ob := fun _ _ _ => 1 }

/-- level 1 holds two different vectors; the level-2 entry links to the SECOND -/
def stayVF : VF := [[⟨[0, 0], 0, []⟩], [⟨[0, 4], 0, [0]⟩, ⟨[8, 12], 0, [0]⟩], [⟨[4, 10], 0, [1]⟩]]
/-- the same value function after level 1 has been reordered (what a pruning pass over a stored list does) -/
def stayVFswapped : VF := [[⟨[0, 0], 0, []⟩], [⟨[8, 12], 0, [0]⟩, ⟨[0, 4], 0, [0]⟩], [⟨[4, 10], 0, [1]⟩]]

/-- TEST (evaluation on literals): levels 1 → 2 of `stayVF` are a plan, and no longer after level 1 is permuted — every
    entry of level 1 is still there, every link is still in range, only the POSITION changed.
    (Level 1's second vector is not derived from level 0; `Consistent` of the suffix is what matters here.) -/
theorem stale_link_counterexample :
    Consistent stay (stayVF.drop 1) ∧ ¬ Consistent stay (stayVFswapped.drop 1) ∧
    (∀ e, e ∈ vlist stayVF 1 ↔ e ∈ vlist stayVFswapped 1) := by
  refine ⟨((consistentB_iff stay _).mp (by
    norm_num [consistentB, consistentFrom, levelB, entryShapeB, entryValsB, eqQ, oneStep, possible, differentSmall0,
      sumTo, stay, stayVF, val, link, entryAt, r1, r2, absQ, Gen.equalToleranceSmall])).2, ?_, ?_⟩
  · intro h
    have : consistentB eqQ stay (stayVFswapped.drop 1) = true := (consistentB_iff stay _).mpr ⟨by decide, h⟩
    norm_num [consistentB, consistentFrom, levelB, entryShapeB, entryValsB, eqQ, oneStep, possible, differentSmall0,
      sumTo, stay, stayVFswapped, val, link, entryAt, r1, r2, absQ, Gen.equalToleranceSmall] at this
  · intro e
    simp [vlist, stayVF, stayVFswapped, or_comm]

/-! ## the documented episode loop of POMDP::Policy -/

/-- the usage documented in `Policy.hpp`: `sampleAction(b, h)`, then for each observation `--h; sampleAction(id, o, h)`;
    returns the (action, id) reported at every step -/
def policyEpisode (m : Pomdp) (vf : VF) (b : Nat → Rat) (h : Nat) (os : List Nat) : List (Nat × Nat) :=
  let r := sampleActionB m vf b h
  r :: follow vf h r.2 os

/-- **policy_episode.**  For a `Consistent` value function, EVERY stored horizon `h` (not only the last), every belief
    and every observation history: the first call returns an entry of horizon `h` that maximises `b · values` together with
    its action; every later call of the loop has its precondition (ids in range at the decremented horizon) and reports
    the action of the entry the links lead to; the loop makes `min h |os|` further calls; and the expected return of the
    whole conditional plan started this way is the envelope value `max_id b · values` the value function promises at `b`. -/
theorem policy_episode {m : Pomdp} {vf : VF} (hc : Consistent m vf) (h : Nat) (hh : h < vf.length)
    (hne : vlist vf h ≠ []) (b : Nat → Rat) (os : List Nat) (hos : ∀ o ∈ os, o < m.O) :
    let ep := policyEpisode m vf b h os
    ep.length = 1 + min h os.length ∧
    (∀ r ∈ ep.head?, r.2 < (vlist vf h).length ∧ r.1 = (entry vf h r.2).action ∧
        ∀ j, j < (vlist vf h).length → dot m.S b (val (entry vf h j)) ≤ dot m.S b (val (entry vf h r.2))) ∧
    FollowOK vf h ep.tail ∧
    execReturn (cutModel m) vf h (sampleActionB m vf b h).2 b = envV m.S (vlist vf h) b := by
  have hce : ConsistentExact (cutModel m) vf := consistent_exact_of_zeroBelow (zeroBelow_cutModel m) (consistent_cutModel hc)
  obtain ⟨a1, a2, a3, a4⟩ := sampleAction_attains_envelope hce h b hh hne
  have hsame : sampleActionB (cutModel m) vf b h = sampleActionB m vf b h := rfl
  rw [hsame] at a1 a2 a3 a4
  obtain ⟨f1, f2⟩ := follow_in_range hc h (sampleActionB m vf b h).2 os hh a1 hos
  refine ⟨by simp [policyEpisode, f2]; omega, ?_, by simpa [policyEpisode] using f1, a4⟩
  intro r hr
  simp only [policyEpisode, List.head?_cons, Option.mem_def, Option.some.injEq] at hr
  subst hr
  exact ⟨a1, a2, a3⟩

/-- TEST: hypotheses satisfiable (chain, horizon 1 of 2 stored, history of length 3 > h) -/
example : (policyEpisode chain chainVF (fun _ => 1/2) 1 [0, 0, 0]).length = 2 :=
  (policy_episode chainVF_consistent 1 (by decide) (by decide) (fun _ => 1/2) [0, 0, 0] (by simp [chain])).1

end AITB.Plan
