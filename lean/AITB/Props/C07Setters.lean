/-
  AITB.Props.C07Setters — the table setters of Experience / SparseExperience (setVisitsTable, setRewardMatrix,
  setM2Matrix) in any interleaving with record and reset: the getters are what the sufficient statistics demand —
  the loaded tables act as prior data, every later record adds to them (counts add, `N·mean` adds, `M2 + N·mean²` adds).
-/
import AITB.Props.C07

namespace AITB.Exp

theorem sumR2_append (a b : List (Nat × Rat)) : sumR2 (a ++ b) = sumR2 a + sumR2 b := by
  induction a with
  | nil => simp [sumR2]
  | cons x xs ih => obtain ⟨s, r⟩ := x; simp [sumR2, ih]; ring

theorem nthN_map_range (w : Nat) (f : Nat → Nat) (i : Nat) (hi : i < w) : nthN ((List.range w).map f) i = f i := by
  have h : ∀ (l : List Nat) (i : Nat), nthN l i = l.getD i 0 := by
    intro l; induction l with
    | nil => intro i; rfl
    | cons x xs ih => intro i; cases i <;> simp [nthN, ih]
  rw [h]; simp [hi]

/-- invariant: experience part `e` against base + records since (division-free, as for `welford_exact`) -/
structure EOK (w : Nat) (e : EPair) (g : EGhost) : Prop where
  len : e.cnt.length = w
  n : e.cell.n = g.base.cell.n + g.since.length
  mean : (e.cell.n : Rat) * e.cell.mean = (g.base.cell.n : Rat) * g.base.cell.mean + sumR g.since
  m2 : e.cell.m2 = (g.base.cell.m2 + (g.base.cell.n : Rat) * g.base.cell.mean ^ 2 + sumR2 g.since) - e.cell.n * e.cell.mean ^ 2
  cnt : ∀ i, i < w → nthN e.cnt i = nthN g.base.cnt i + countS1 i g.since
  e0 : g.since = [] → e.cell = g.base.cell

/-- the invariant in the words of the property: the getters equal the closed forms `priorN / priorMean / priorM2`
    and the counts are base counts plus the counts of the records since -/
theorem EOK.spec {w : Nat} {e : EPair} {g : EGhost} (h : EOK w e g) :
    e.cell.n = priorN g.base.cell g.since ∧ e.cell.mean = priorMean g.base.cell g.since ∧
    e.cell.m2 = priorM2 g.base.cell g.since ∧ ∀ i, i < w → nthN e.cnt i = nthN g.base.cnt i + countS1 i g.since := by
  have hmean : e.cell.mean = priorMean g.base.cell g.since := by
    unfold priorMean
    by_cases hs : g.since = []
    · simp [hs, h.e0 hs]
    · have hne : g.since.isEmpty = false := by simpa using hs
      have hl : g.since.length ≠ 0 := by simpa using hs
      have hn0 : ((g.base.cell.n + g.since.length : Nat) : Rat) ≠ 0 := by
        have : g.base.cell.n + g.since.length ≠ 0 := by omega
        exact_mod_cast this
      have := h.mean
      rw [h.n] at this
      simp only [hne, Bool.false_eq_true, if_false]
      field_simp
      linarith
  refine ⟨h.n, hmean, ?_, h.cnt⟩
  unfold priorM2
  by_cases hs : g.since = []
  · simp [hs, h.e0 hs]
  · have hne : g.since.isEmpty = false := by simpa using hs
    simp only [hne, Bool.false_eq_true, if_false, ← hmean]
    rw [h.m2, h.n]; ring

theorem EOK.init (w : Nat) : EOK w (EPair.init w) { base := EPair.init w, since := [] } := by
  constructor <;> simp [EPair.init, Cell.init, sumR, sumR2, countS1]

/-- every call — record, reset, any of the three setters — preserves the invariant -/
theorem EOK.step (tol : Option Rat) (w : Nat) (e : EPair) (g : EGhost) (op : EOp)
    (h : EOK w e g) (hwf : eopWF w op = true) : EOK w (e.step tol op) (g.step tol w op) := by
  -- the closed-form current value agrees with the implementation state
  obtain ⟨sn, sm, sq, sc⟩ := h.spec
  have hcell : (g.current w).cell = e.cell := by
    cases hc : e.cell with
    | mk n mean m2 =>
      rw [hc] at sn sm sq
      simp only [EGhost.current] 
      simp only at sn sm sq
      rw [← sn, ← sm, ← sq]
  have hcnt : ∀ i, i < w → nthN (g.current w).cnt i = nthN e.cnt i := by
    intro i hi
    simp only [EGhost.current]
    rw [nthN_map_range w _ i hi, sc i hi]
  have hlen : (g.current w).cnt.length = w := by simp [EGhost.current]
  cases op with
  | nop => simpa [EPair.step, EGhost.step] using h
  | record s1 r =>
    obtain ⟨hm, hq⟩ := Cell.record_step e.cell r ((g.base.cell.n : Rat) * g.base.cell.mean + sumR g.since)
      (g.base.cell.m2 + (g.base.cell.n : Rat) * g.base.cell.mean ^ 2 + sumR2 g.since) h.mean h.m2
    refine ⟨by simp [EPair.step, length_bump, h.len], ?_, ?_, ?_, ?_, by simp [EGhost.step]⟩
    · simp [EPair.step, EGhost.step, Cell.record, h.n]; omega
    · simp only [EPair.step, EGhost.step, sumR_append, sumR]; rw [hm]; ring
    · simp only [EPair.step, EGhost.step, sumR2_append, sumR2]; rw [hq]; ring
    · intro i hi
      simp only [EPair.step, EGhost.step, nthN_bump, countS1_append, countS1, h.cnt i hi, h.len]
      by_cases d : s1 = i
      · subst d; simp [hi]; omega
      · simp [d]
  | reset =>
    refine ⟨by simp [EPair.step, h.len], ?_, ?_, ?_, ?_, fun _ => rfl⟩
    · simp [EPair.step, EGhost.step, Cell.init]
    · simp [EPair.step, EGhost.step, Cell.init, sumR]
    · simp [EPair.step, EGhost.step, Cell.init, sumR2]
    · intro i _
      simp only [EPair.step, EGhost.step, countS1, Nat.add_zero]
      rw [nthN_map_zero, nthN_map_zero]
  | setCnt row =>
    have hr : row.length = w := by simpa [eopWF] using hwf
    refine ⟨by simp [EPair.step, hr], ?_, ?_, ?_, ?_, ?_⟩
    · simp [EPair.step, EGhost.step, hcell]
    · simp [EPair.step, EGhost.step, hcell, sumR]
    · simp [EPair.step, EGhost.step, hcell, sumR2]
    · intro i _; simp [EPair.step, EGhost.step, countS1]
    · intro _; simp [EPair.step, EGhost.step, hcell]
  | setMean m =>
    refine ⟨by simp [EPair.step, h.len], ?_, ?_, ?_, ?_, ?_⟩
    · simp [EPair.step, EGhost.step, hcell]
    · simp [EPair.step, EGhost.step, hcell, sumR]
    · simp [EPair.step, EGhost.step, hcell, sumR2]
    · intro i hi; simp [EPair.step, EGhost.step, countS1, hcnt i hi]
    · intro _; simp [EPair.step, EGhost.step, hcell]
  | setM2 m =>
    refine ⟨by simp [EPair.step, h.len], ?_, ?_, ?_, ?_, ?_⟩
    · simp [EPair.step, EGhost.step, hcell]
    · simp [EPair.step, EGhost.step, hcell, sumR]
    · simp [EPair.step, EGhost.step, hcell, sumR2]
    · intro i hi; simp [EPair.step, EGhost.step, countS1, hcnt i hi]
    · intro _; simp [EPair.step, EGhost.step, hcell]

/-- **exp_setters_mirror**: after ANY sequence of `record`, `reset`, `setVisitsTable`, `setRewardMatrix`, `setM2Matrix`
    (rows of the right width), the getters of a pair are: visits = loaded row + counts of the records since,
    visitsSum = loaded row sum + number of records since, and mean / M2 the values obtained by adding the records'
    sufficient statistics to those of the loaded tables (`priorMean`, `priorM2`); a setter replaces exactly its own
    table. With nothing loaded this is `welford_exact`. -/
theorem exp_setters_mirror (tol : Option Rat) (w : Nat) (h : List EOp) (hwf : h.all (eopWF w) = true) :
    let e := (EPair.init w).run tol h
    let g := EGhost.run tol w { base := EPair.init w, since := [] } h
    e.cell.n = priorN g.base.cell g.since ∧ e.cell.mean = priorMean g.base.cell g.since ∧
    e.cell.m2 = priorM2 g.base.cell g.since ∧ ∀ i, i < w → nthN e.cnt i = nthN g.base.cnt i + countS1 i g.since := by
  intro e g
  suffices H : ∀ (e0 : EPair) (g0 : EGhost), EOK w e0 g0 → EOK w (e0.run tol h) (EGhost.run tol w g0 h) from
    (H _ _ (EOK.init w)).spec
  induction h with
  | nil => intro e0 g0 h0; exact h0
  | cons op t ih =>
    intro e0 g0 h0
    simp only [List.all_cons, Bool.and_eq_true] at hwf
    simp only [EPair.run, EGhost.run, List.foldl_cons]
    exact ih hwf.2 _ _ (EOK.step tol w e0 g0 op h0 hwf.1)

/-- `setVisitsTable` makes `visitsSum` the sum of the loaded row -/
theorem setCnt_visitsSum (tol : Option Rat) (e : EPair) (row : List Nat) :
    (e.step tol (.setCnt row)).cell.n = sumN row ∧ (e.step tol (.setCnt row)).cnt = row := ⟨rfl, rfl⟩

/-- on histories without setters the experience model with setters is the `Pair` model -/
theorem EPair_step_record (tol : Option Rat) (cfg : Cfg) (p : Pair) (s1 : Nat) (r : Rat) :
    (({ cell := p.cell, cnt := p.cnt } : EPair).step tol (.record s1 r)) =
      { cell := (p.step cfg (.record s1 r)).cell, cnt := (p.step cfg (.record s1 r)).cnt } := rfl

/-- a full sync after any setters: the row is visits / visitsSum of the tables as they are now -/
theorem fullSync_counts (cfg : Cfg) (hg : cfg.sparseGeneric = false) (p : Pair) (hn : p.cell.n ≠ 0) :
    (∀ i, nthQ (p.fullSync cfg).row i = (nthN p.cnt i : Rat) / (p.cell.n : Rat)) ∧
    (p.fullSync cfg).rew = copyRew cfg p.rew p.cell.mean := by
  unfold Pair.fullSync
  rw [if_neg hn]
  simp only [hg, Bool.false_eq_true, if_false]
  exact ⟨fun i => nthQ_map_cast _ _ i, trivial⟩

example : ((EPair.init 2).run none [.setCnt [1, 2], .setMean 3, .setM2 2, .record 0 7]).cell = ⟨4, 4, 14⟩ := by  -- test on literals
  norm_num [EPair.run, EPair.step, EPair.init, Cell.record, Cell.init, storeTol, sumN]

end AITB.Exp
