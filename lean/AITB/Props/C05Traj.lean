/-
  AITB.Props.C05Traj — the filter never excludes the truth (round 3).

  `POMDP::Model::sampleSOR(s, a)` (anchored files Model.hpp / SparseModel.hpp) draws `s1` from row `T(s,a,·)` and then `o` from
  row `O(s1,a,·)` of the NEW state.  Whatever the random draws, a sampled step has `T(s,a,s1) > 0` and `O(s1,a,o) > 0`.
  For every trajectory of such steps, of any length, started in a state the initial belief gives positive mass:
    * every observation received has positive probability under the filtered belief — the documented precondition of
      `updateBelief` ("it is possible to receive the input observation") holds along real trajectories, so the normalised form is defined;
    * the belief `updateBelief` returns gives positive mass to the true current state, at every step.
  A simulator that drew the observation from the OLD state's row, or a filter with `s`/`s1` swapped, breaks exactly this on
  asymmetric deterministic models; the harness checks it on the library's own trajectories (`traj` lines).
-/
import AITB.Props.C05
namespace AITB.Belief

/-- every step's observation has positive probability under the belief filtered so far -/
def FilterDefined (m : POMDP) : Vec → List (Nat × Nat) → Prop
  | _, [] => True
  | b, (a, o) :: h => 0 < probO m b a o ∧ FilterDefined m (updateG m b a o) h

/-- a single step: if the belief gives mass to `s`, and `s →a s1` emitting `o` is possible, the unnormalised update gives mass to `s1` -/
theorem unnorm_pos_of_step {m : POMDP} (hm : NonnegModel m) {b : Vec} (hb : ∀ i, i < m.S → 0 ≤ b i)
    {s a s1 o : Nat} (hs : s < m.S) (ha : a < m.A) (hs1 : s1 < m.S) (ho : o < m.O)
    (hbs : 0 < b s) (hT : 0 < m.T s a s1) (hO : 0 < m.Ob s1 a o) :
    0 < unnormG m b a o s1 ∧ 0 < probO m b a o := by
  have hpred : 0 < sumTo m.S (fun i => m.T i a s1 * b i) := by
    have hle := le_sumTo_of_nonneg (f := fun i => m.T i a s1 * b i)
      (fun i hi => mul_nonneg (hm.T_nonneg i a s1 hi ha hs1) (hb i hi)) hs
    have : 0 < m.T s a s1 * b s := mul_pos hT hbs
    exact lt_of_lt_of_le this hle
  have hun : 0 < unnormG m b a o s1 := mul_pos hO hpred
  refine ⟨hun, ?_⟩
  rw [← unnorm_sum_eq_prob_o]
  exact lt_of_lt_of_le hun (le_sumTo_of_nonneg (unnorm_nonneg hm hb ha ho) hs1)

/-- **the filter tracks the truth**: along every trajectory the tables allow (any length), started where the belief has mass,
    `updateBelief` is always applied within its documented precondition and its result gives positive mass to the true state -/
theorem filter_tracks_truth {m : POMDP} (hm : NonnegModel m) :
    ∀ (h : List (Nat × Nat × Nat)) (s : Nat) (b : Vec), s < m.S → (∀ i, i < m.S → 0 ≤ b i) → 0 < b s → Consistent m s h →
      FilterDefined m b (observed h) ∧ 0 < filter m b (observed h) (endState s h)
  | [], s, b, _, _, hbs, _ => ⟨trivial, hbs⟩
  | (a, s1, o) :: h, s, b, hs, hb, hbs, hc => by
    obtain ⟨ha, hs1, ho, hT, hO, hrest⟩ := hc
    obtain ⟨hun, hpo⟩ := unnorm_pos_of_step hm hb hs ha hs1 ho hbs hT hO
    have hpost := posterior_is_bayes hm (b := b) hb (a := a) (o := o) ha ho hpo
    have hb' : ∀ i, i < m.S → 0 ≤ updateG m b a o i := hpost.1
    have hb's1 : 0 < updateG m b a o s1 := by
      rw [hpost.2.2.1 s1]
      exact div_pos hun hpo
    obtain ⟨hd, hpos⟩ := filter_tracks_truth hm h s1 (updateG m b a o) hs1 hb' hb's1 hrest
    exact ⟨⟨hpo, hd⟩, hpos⟩

theorem consistentB_iff (m : POMDP) : ∀ (h : List (Nat × Nat × Nat)) (s : Nat), consistentB m s h = true ↔ Consistent m s h
  | [], _ => by simp [consistentB, Consistent]
  | (a, s1, o) :: h, s => by
    simp only [consistentB, Consistent, Bool.and_eq_true, decide_eq_true_eq, consistentB_iff m h s1]
    tauto

/-- the hypotheses are satisfiable: a two-step trajectory of the asymmetric example model -/
example : Consistent exM 1 [(0, 2, 0), (0, 0, 1)] := by
  rw [← consistentB_iff]
  norm_num [consistentB, exM, ofList2]

example : 0 < filter exM exB (observed [(0, 2, 0), (0, 0, 1)]) 0 :=
  (filter_tracks_truth exM_valid.toNonnegModel [(0, 2, 0), (0, 0, 1)] 1 exB (by decide) exB_belief.nonneg
    (by norm_num [exB, ofList]) (by rw [← consistentB_iff]; norm_num [consistentB, exM, ofList2])).2

end AITB.Belief
