/-
  AITB.Props.C07Keyed — property C07 for the FACTORED classes at the level of their own API (round 3).

  The library addresses a table row by an index it computes from the call's arguments (`DDNGraph::getId`, `toIndexPartial`);
  the property speaks about "the recorded data of a state-action pair".  The bridge proved here:

    * `keyed_project`            for ANY index function that separates exactly the contexts (`idx k = idx k' ↔ ctx k = ctx k'`),
                                 the pair-index projection of a history equals its context projection (no index arithmetic);
    * `recsOf_eq_ghost`          the data of a context, by definition, is what the ghost state of that projection holds;
    * `keyed_mirrors_history`    hence every conclusion of `mirrors_history_current` holds for the row of `k0`, about the records
                                 whose key has the context of `k0`;
    * `getId_eq_iff_ctx`         `DDNGraph::getId` (loop `toIndexPartial`, `startIds_` prefix sums) separates exactly the contexts
                                 `ctxOf` (parent agents' actions, selected parent features' values) on graphs accepted by `push`;
    * `coop_mirrors_history`     CooperativeExperience × CooperativeMaximumLikelihoodModel: any history of record / sync() /
                                 sync(s,a) / sync(indeces) / reset() / constructions, any graph, any sizes;
    * `coop_joint_probability`   `getTransitionProbability(s,a,s1)` = product over the features of the spec rows of the contexts of
                                 `(s,a)`; `getExpectedReward` = sum of the spec rewards;
    * `coop_ids_in_range`        the indices `record` returns address existing rows;
    * `fbIdx_eq_iff_ctx`, `fbandit_mirrors_history`   Factored::Bandit::Experience: statistics per (basis, local joint action).
-/
import AITB.Props.C07Current
import AITB.Props.C14d
import AITB.Model.ExperienceKeyed

namespace AITB.Exp
open AITB.Factored

/-! ## §1 generic: index projection = context projection -/

theorem keyed_project {K C : Type} [DecidableEq C] (idx : K → Nat) (ctx : K → C) (ok : K → Prop) (w : Nat)
    (hinj : ∀ k k', ok k → ok k' → (idx k = idx k' ↔ ctx k = ctx k'))
    (k0 : K) (hk0 : ok k0) (op : KOp K) (hwf : op.WF idx ok w) :
    (op.toOp idx).project (idx k0) = op.ctxProject ctx (ctx k0) := by
  cases op with
  | record k s1 r =>
    obtain ⟨hk, _⟩ := hwf
    simp only [KOp.toOp, Op.project, KOp.ctxProject]
    by_cases h : idx k = idx k0
    · simp [h, (hinj k k0 hk hk0).mp h]
    · have : ¬ ctx k = ctx k0 := fun e => h ((hinj k k0 hk hk0).mpr e)
      simp [h, this]
  | syncAll => rfl
  | sync k =>
    have hk : ok k := hwf
    simp only [KOp.toOp, Op.project, KOp.ctxProject]
    by_cases h : idx k = idx k0
    · simp [h, (hinj k k0 hk hk0).mp h]
    · have : ¬ ctx k = ctx k0 := fun e => h ((hinj k k0 hk hk0).mpr e)
      simp [h, this]
  | syncAt j k =>
    obtain ⟨hk, hj⟩ := hwf
    subst hj
    simp only [KOp.toOp, Op.project, KOp.ctxProject]
    by_cases h : idx k = idx k0
    · simp [h, (hinj k k0 hk hk0).mp h]
    · have : ¬ ctx k = ctx k0 := fun e => h ((hinj k k0 hk hk0).mpr e)
      simp [h, this]
  | reset => rfl
  | ctor b => rfl

theorem keyed_project_map {K C : Type} [DecidableEq C] (idx : K → Nat) (ctx : K → C) (ok : K → Prop) (w : Nat)
    (hinj : ∀ k k', ok k → ok k' → (idx k = idx k' ↔ ctx k = ctx k'))
    (k0 : K) (hk0 : ok k0) (h : List (KOp K)) (hwf : ∀ op ∈ h, op.WF idx ok w) :
    (h.map (KOp.toOp idx)).map (Op.project (idx k0)) = h.map (KOp.ctxProject ctx (ctx k0)) := by
  rw [List.map_map]
  apply List.map_congr_left
  intro op hop
  exact keyed_project idx ctx ok w hinj k0 hk0 op (hwf op hop)

/-- the ghost state of a context projection holds exactly the records of that context since the last reset -/
theorem recsOf_eq_ghost {K C : Type} [DecidableEq C] (ctx : K → C) (c : C) (h : List (KOp K)) (g : Ghost) :
    (g.run (h.map (KOp.ctxProject ctx c))).recs = recsOf ctx c h g.recs := by
  induction h generalizing g with
  | nil => rfl
  | cons op t ih =>
    simp only [List.map_cons, Ghost.run, List.foldl_cons] at ih ⊢
    rw [ih]
    cases op with
    | record k s1 r =>
      by_cases hc : ctx k = c <;> simp [KOp.ctxProject, hc, Ghost.step, recsOf]
    | syncAll => simp [KOp.ctxProject, Ghost.step, recsOf]
    | sync k => by_cases hc : ctx k = c <;> simp [KOp.ctxProject, hc, Ghost.step, recsOf]
    | syncAt j k => by_cases hc : ctx k = c <;> simp [KOp.ctxProject, hc, Ghost.step, recsOf]
    | reset => simp [KOp.ctxProject, Ghost.step, recsOf]
    | ctor b => cases b <;> simp [KOp.ctxProject, Ghost.step, recsOf]

/-- the keyed classes have no incremental sync: the precondition is vacuous -/
theorem keyed_incPre {K C : Type} [DecidableEq C] (ctx : K → C) (c : C) (h : List (KOp K)) (g : Ghost) :
    incPre g (h.map (KOp.ctxProject ctx c)) = true := by
  induction h generalizing g with
  | nil => rfl
  | cons op t ih =>
    simp only [List.map_cons, incPre, ih, Bool.and_true]
    cases op with
    | record k s1 r => by_cases hc : ctx k = c <;> simp [KOp.ctxProject, hc, incPreOK]
    | syncAll => rfl
    | sync k => by_cases hc : ctx k = c <;> simp [KOp.ctxProject, hc, incPreOK]
    | syncAt j k => by_cases hc : ctx k = c <;> simp [KOp.ctxProject, hc, incPreOK]
    | reset => rfl
    | ctor b => rfl

theorem keyed_wfAll {K C : Type} [DecidableEq C] (idx : K → Nat) (ctx : K → C) (ok : K → Prop) (w : Nat) (c : C)
    (h : List (KOp K)) (hwf : ∀ op ∈ h, op.WF idx ok w) : wfAll w (h.map (KOp.ctxProject ctx c)) = true := by
  unfold wfAll
  rw [List.all_eq_true]
  intro l hl
  obtain ⟨op, hop, rfl⟩ := List.mem_map.mp hl
  have := hwf op hop
  cases op with
  | record k s1 r =>
    by_cases hc : ctx k = c
    · simp [KOp.ctxProject, hc, opWF, this.2]
    · simp [KOp.ctxProject, hc, opWF]
  | syncAll => rfl
  | sync k => by_cases hc : ctx k = c <;> simp [KOp.ctxProject, hc, opWF]
  | syncAt j k => by_cases hc : ctx k = c <;> simp [KOp.ctxProject, hc, opWF]
  | reset => rfl
  | ctor b => rfl

/-- **keyed_mirrors_history** — a table whose rows are found by ANY index function that separates exactly the contexts and
    stays in range: after any history of keyed calls, the row of `k0` holds the statistics of the records whose key has the
    context of `k0` (`recsOf`, a definition without index arithmetic); its model row is their empirical frequencies / mean at
    the context's last effective sync, or the default; `timesteps` counts the records since the last reset. -/
theorem keyed_mirrors_history {K C : Type} [DecidableEq C] (idx : K → Nat) (ctx : K → C) (ok : K → Prop)
    (np w : Nat) (dflOf : Nat → Nat) (junk : Rat)
    (hinj : ∀ k k', ok k → ok k' → (idx k = idx k' ↔ ctx k = ctx k')) (hlt : ∀ k, ok k → idx k < np)
    (h : List (KOp K)) (hwf : ∀ op ∈ h, op.WF idx ok w) (k0 : K) (hk0 : ok k0) :
    let wd := (World.init np w dflOf).run (cfgPlain junk) (h.map (KOp.toOp idx))
    let gh := Ghost.init.run (h.map (KOp.ctxProject ctx (ctx k0)))
    wd.ts = tsOf (h.map (KOp.toOp idx)) ∧ gh.recs = recsOf ctx (ctx k0) h [] ∧
    ∃ p, wd.pairs[idx k0]? = some p ∧
      (p.cell.n = gh.recs.length ∧ p.cell.mean = meanOf gh.recs ∧ p.cell.m2 = sqDevOf gh.recs ∧
        ∀ k, k < w → nthN p.cnt k = countS1 k gh.recs) ∧
      (gh.snap ≠ [] → (∀ k, k < w → nthQ p.row k = freqOf gh.snap k) ∧ p.rew = meanOf gh.snap) ∧
      (gh.snap = [] → p.row = unit w (dflOf (idx k0)) ∧ p.rew = 0) ∧
      (gh.pend = 0 → gh.recs ≠ [] → gh.snap = gh.recs) := by
  intro wd gh
  have hproj := keyed_project_map idx ctx ok w hinj k0 hk0 h hwf
  have hmain := mirrors_history_current (IsCurrent.plain junk) np w dflOf (h.map (KOp.toOp idx)) (idx k0) (hlt k0 hk0)
    (by rw [hproj]; exact keyed_wfAll idx ctx ok w _ h hwf) (by rw [hproj]; exact keyed_incPre ctx _ h _)
  rw [hproj] at hmain
  obtain ⟨hts, p, hp, rest⟩ := hmain
  exact ⟨hts, recsOf_eq_ghost ctx (ctx k0) h Ghost.init, p, hp, rest⟩

/-! ## §1b the driver's oracle computes the specification state -/

structure OInv {K C : Type} [DecidableEq C] (ctx : K → C) (o : Oracle C) (h : List (KOp K)) : Prop where
  ent : ∀ e ∈ o.entries, e.2 = Ghost.init.run (h.map (KOp.ctxProject ctx e.1))
  fr : o.fresh = Ghost.init.run (h.map KOp.globalLOp)
  unseen : ∀ c, o.has c = false → h.map (KOp.ctxProject ctx c) = h.map KOp.globalLOp

theorem Ghost.run_snoc (g : Ghost) (l : List LOp) (x : LOp) : g.run (l ++ [x]) = (g.run l).step x := by
  simp [Ghost.run, List.foldl_append]

theorem ctxProject_unkeyed {K C : Type} [DecidableEq C] (ctx : K → C) (c : C) (op : KOp K)
    (h : ∀ k, op.key? = some k → ctx k ≠ c) : op.ctxProject ctx c = op.globalLOp := by
  cases op with
  | record k s1 r => have := h k rfl; simp [KOp.ctxProject, KOp.globalLOp, this]
  | syncAll => rfl
  | sync k => have := h k rfl; simp [KOp.ctxProject, KOp.globalLOp, this]
  | syncAt j k => have := h k rfl; simp [KOp.ctxProject, KOp.globalLOp, this]
  | reset => rfl
  | ctor b => rfl

/-- the entry list after the (possible) insertion of the call's context -/
def Oracle.ext {K C : Type} [DecidableEq C] (ctx : K → C) (o : Oracle C) (op : KOp K) : List (C × Ghost) :=
  match op.key? with
  | some k => if o.has (ctx k) then o.entries else o.entries ++ [(ctx k, o.fresh)]
  | none => o.entries

theorem Oracle.step_eq {K C : Type} [DecidableEq C] (ctx : K → C) (o : Oracle C) (op : KOp K) :
    o.step ctx op = { entries := (o.ext ctx op).map (fun e => (e.1, e.2.step (op.ctxProject ctx e.1))),
                      fresh := o.fresh.step op.globalLOp } := rfl

theorem OInv.step {K C : Type} [DecidableEq C] (ctx : K → C) (o : Oracle C) (h : List (KOp K)) (op : KOp K)
    (hi : OInv ctx o h) : OInv ctx (o.step ctx op) (h ++ [op]) := by
  have hes : ∀ e ∈ o.ext ctx op, e.2 = Ghost.init.run (h.map (KOp.ctxProject ctx e.1)) := by
    intro e he
    unfold Oracle.ext at he
    cases hk : op.key? with
    | none => simp only [hk] at he; exact hi.ent e he
    | some k =>
      simp only [hk] at he
      by_cases hh : o.has (ctx k) = true
      · simp only [hh, if_true] at he; exact hi.ent e he
      · simp only [hh] at he
        rcases List.mem_append.mp he with h1 | h1
        · exact hi.ent e h1
        · simp only [List.mem_singleton] at h1
          subst h1
          simp only
          rw [hi.unseen (ctx k) (by simpa using hh), hi.fr]
  have hsub : ∀ e ∈ o.entries, e ∈ o.ext ctx op := by
    intro e he
    unfold Oracle.ext
    cases hk : op.key? with
    | none => exact he
    | some k =>
      simp only
      split
      · exact he
      · exact List.mem_append_left _ he
  have hkey : ∀ k, op.key? = some k → ∃ e ∈ o.ext ctx op, e.1 = ctx k := by
    intro k hk
    unfold Oracle.ext
    simp only [hk]
    by_cases hh : o.has (ctx k) = true
    · simp only [hh, if_true]
      obtain ⟨e, he, hd⟩ := List.any_eq_true.mp hh
      exact ⟨e, he, by simpa using hd⟩
    · simp only [hh]
      exact ⟨(ctx k, o.fresh), by simp, rfl⟩
  rw [Oracle.step_eq]
  refine ⟨?_, ?_, ?_⟩
  · intro e' he'
    obtain ⟨e, he, rfl⟩ := List.mem_map.mp he'
    simp only [List.map_append, List.map_cons, List.map_nil, Ghost.run_snoc]
    rw [← hes e he]
  · simp only [List.map_append, List.map_cons, List.map_nil, Ghost.run_snoc, hi.fr]
  · intro c hc
    have hno : ∀ e ∈ o.ext ctx op, e.1 ≠ c := by
      intro e he heq
      have : Oracle.has { entries := (o.ext ctx op).map (fun e => (e.1, e.2.step (op.ctxProject ctx e.1))),
                          fresh := o.fresh.step op.globalLOp } c = true := by
        simp only [Oracle.has, List.any_eq_true]
        exact ⟨(e.1, e.2.step (op.ctxProject ctx e.1)), List.mem_map.mpr ⟨e, he, rfl⟩, by simpa using heq⟩
      rw [this] at hc; cases hc
    have hold : o.has c = false := by
      cases hb : o.has c with
      | false => rfl
      | true =>
        obtain ⟨e, he, hd⟩ := List.any_eq_true.mp hb
        exact absurd (by simpa using hd) (hno e (hsub e he))
    simp only [List.map_append, List.map_cons, List.map_nil]
    rw [hi.unseen c hold, ctxProject_unkeyed ctx c op (fun k hk heq => by
      obtain ⟨e, he, h1⟩ := hkey k hk
      exact hno e he (h1.trans heq))]

theorem OInv.run {K C : Type} [DecidableEq C] (ctx : K → C) (h : List (KOp K)) : ∀ (o : Oracle C) (h0 : List (KOp K)),
    OInv ctx o h0 → OInv ctx (o.run ctx h) (h0 ++ h) := by
  induction h with
  | nil => intro o h0 hi; simpa [Oracle.run] using hi
  | cons op t ih =>
    intro o h0 hi
    have := ih (o.step ctx op) (h0 ++ [op]) (hi.step ctx o h0 op)
    simpa [Oracle.run, List.append_assoc] using this

/-- **oracle_sound** — the specification state the driver keeps per context (updated call by call, contexts inserted when first
    used) IS the ghost state of the context projection of the whole history, for every context, used or not: the `fail` clauses of
    the `coophist` / `fbhist` lines are evaluated on exactly the data `keyed_mirrors_history` speaks about. -/
theorem oracle_sound {K C : Type} [DecidableEq C] (ctx : K → C) (h : List (KOp K)) (c : C) :
    ((Oracle.init : Oracle C).run ctx h).ghostOf c = Ghost.init.run (h.map (KOp.ctxProject ctx c)) := by
  have hi : OInv ctx (Oracle.init : Oracle C) [] :=
    ⟨by intro e he; simp [Oracle.init] at he, rfl, by intro c _; rfl⟩
  have hr := OInv.run ctx h Oracle.init [] hi
  simp only [List.nil_append] at hr
  unfold Oracle.ghostOf
  cases hf : ((Oracle.init : Oracle C).run ctx h).entries.find? (fun e => decide (e.1 = c)) with
  | some e =>
    have hm := List.mem_of_find?_eq_some hf
    have hp := List.find?_some hf
    have : e.1 = c := by simpa using hp
    simp only
    rw [hr.ent e hm, this]
  | none =>
    have hn : ((Oracle.init : Oracle C).run ctx h).has c = false := by
      unfold Oracle.has
      rw [Bool.eq_false_iff]
      intro ha
      obtain ⟨e, he, hd⟩ := List.any_eq_true.mp ha
      have := List.find?_eq_none.mp hf e he
      exact this hd
    simp only
    rw [hr.fr, hr.unseen c hn]

/-- test: three calls on two contexts (keys = contexts = naturals) -/
example : (((Oracle.init : Oracle Nat).run (fun (k : Nat) => k) [.record 1 0 2, .syncAll, .record 2 0 5]).ghostOf 1
    == ⟨[(0, 2)], [(0, 2)], 0⟩) = true := by decide

/-! ### rows no record was sent to -/

theorem project_not_record {K : Type} (idx : K → Nat) (j : Nat) (op : KOp K) (h : op.recordsAt idx j = false) :
    isRecord ((op.toOp idx).project j) = false := by
  cases op with
  | record k s1 r =>
    have : idx k ≠ j := by simpa [KOp.recordsAt] using h
    simp [KOp.toOp, Op.project, this, isRecord]
  | syncAll => rfl
  | sync k => simp only [KOp.toOp, Op.project]; split <;> rfl
  | syncAt i k => simp only [KOp.toOp, Op.project]; split <;> rfl
  | reset => rfl
  | ctor b => rfl

theorem ghost_recs_nil_of_no_record : ∀ (l : List LOp) (g : Ghost), g.recs = [] →
    l.all (fun op => !isRecord op) = true → (g.run l).recs = []
  | [], g, hg, _ => by simpa [Ghost.run] using hg
  | op :: t, g, hg, hl => by
    simp only [List.all_cons, Bool.and_eq_true] at hl
    simp only [Ghost.run, List.foldl_cons]
    apply ghost_recs_nil_of_no_record t (g.step op) _ hl.2
    cases op with
    | record s1 r => simp [isRecord] at hl
    | sync => simpa [Ghost.step] using hg
    | syncInc s1 => simpa [Ghost.step] using hg
    | reset => simp [Ghost.step]
    | ctor b => cases b <;> simpa [Ghost.step] using hg
    | nop => simpa [Ghost.step] using hg

/-- **keyed_untouched_row** — whatever the index function does, a row no `record` call was resolved to holds no data after any
    history (count 0, mean 0, M2 0, all next-value counts 0) and its model row is the fixed valid default with reward 0.  Together
    with `keyed_mirrors_history` every row of every table is accounted for: owned by a context, or untouched. -/
theorem keyed_untouched_row {K : Type} (idx : K → Nat) (np w : Nat) (dflOf : Nat → Nat) (junk : Rat)
    (h : List (KOp K)) (j : Nat) (hj : j < np) (hno : ∀ op ∈ h, op.recordsAt idx j = false) :
    ∃ p, ((World.init np w dflOf).run (cfgPlain junk) (h.map (KOp.toOp idx))).pairs[j]? = some p ∧
      p.cell.n = 0 ∧ p.cell.mean = 0 ∧ p.cell.m2 = 0 ∧ (∀ k, k < w → nthN p.cnt k = 0) ∧
      p.row = unit w (dflOf j) ∧ p.rew = 0 := by
  refine ⟨_, world_pair_eq _ np w dflOf _ j hj, ?_⟩
  have hnr : ((h.map (KOp.toOp idx)).map (Op.project j)).all (fun op => !isRecord op) = true := by
    rw [List.all_eq_true]
    intro l hl
    obtain ⟨o, ho, rfl⟩ := List.mem_map.mp hl
    obtain ⟨op, hop, rfl⟩ := List.mem_map.mp ho
    simp [project_not_record idx j op (hno op hop)]
  obtain ⟨hr, hw⟩ := unvisited_keep_default_current (IsCurrent.plain junk) w (dflOf j) j _ hnr
  have hg := ghost_recs_nil_of_no_record _ Ghost.init rfl hnr
  have he := ExpOK.run (cfgPlain junk) w ((h.map (KOp.toOp idx)).map (Op.project j)) (Pair.init w (dflOf j) j) Ghost.init
    (by simpa [Ghost.init] using ExpOK.init w (dflOf j) j)
  rw [hg] at he
  obtain ⟨a, b, c, d⟩ := he.spec
  exact ⟨by simpa using a, by simpa [meanOf] using b, by simpa [sqDevOf, meanOf, sumQ] using c,
    fun k hk => by simpa [countS1] using d k hk, hr, hw⟩

/-! ## §2 `DDNGraph::getId` separates exactly the contexts -/

theorem toIndexPartial_eq_toIndex (keys sp f : List Nat) : toIndexPartial keys sp f = toIndex (sel keys sp) (sel keys f) := by
  unfold toIndexPartial
  rw [toIndexLoop_eq]; omega

theorem actionIdOf_eq (g : DDNGraph) (i : Nat) (a : List Nat) :
    actionIdOf g i a = toIndex (sel (g.ps i).agents g.A) (sel (g.ps i).agents a) := toIndexPartial_eq_toIndex _ _ _

/-- a valid key of the cooperative classes: full state and joint action inside their spaces -/
def coopOK (g : DDNGraph) (k : List Nat × List Nat) : Prop := Valid g.S k.1 ∧ Valid g.A k.2

/-- **getId_eq_iff_ctx** — on a parent set `push` accepts, two (state, action) arguments are sent to the same row of
    feature `i` iff they have the same context.  (→) is `getId_inj` (C14) plus injectivity of the partial mixed-radix index;
    (←) holds because the loops read `s` and `a` only at the parent positions. -/
theorem getId_eq_iff_ctx (g : DDNGraph) (i : Nat) (hok : ParentsOK g i) (k k' : List Nat × List Nat)
    (hk : coopOK g k) (hk' : coopOK g k') :
    coopIdx g i k = coopIdx g i k' ↔ ctxOf g i k = ctxOf g i k' := by
  obtain ⟨s, a⟩ := k
  obtain ⟨s', a'⟩ := k'
  obtain ⟨hs, ha⟩ := hk
  obtain ⟨hs', ha'⟩ := hk'
  simp only [coopIdx, ctxOf] at *
  constructor
  · intro h
    obtain ⟨h1, h2⟩ := getId_inj g i s a s' a' hs ha hs' ha' hok h
    obtain ⟨hag, hlen, hfe⟩ := hok
    have e1 := (toIndexPartial_spec g.A a (g.ps i).agents ha hag).2
    have e2 := (toIndexPartial_spec g.A a' (g.ps i).agents ha' hag).2
    have hav : sel (g.ps i).agents a = sel (g.ps i).agents a' := by
      unfold actionIdOf at h1
      rw [← e1, ← e2, h1]
    have htag : ∀ k ∈ (g.ps i).features.getD (actionIdOf g i a) [], k < g.S.length := by
      intro k hk
      by_cases hlt : actionIdOf g i a < (g.ps i).features.length
      · have hmem : (g.ps i).features.getD (actionIdOf g i a) [] ∈ (g.ps i).features := by
          simp [List.getD_eq_getElem?_getD, List.getElem?_eq_getElem hlt]
        exact hfe _ hmem k hk
      · have : (g.ps i).features.getD (actionIdOf g i a) [] = [] := by
          simp [List.getD_eq_getElem?_getD, List.getElem?_eq_none (Nat.le_of_not_lt hlt)]
        rw [this] at hk; simp at hk
    unfold parentIdOf at h2
    rw [← h1] at h2
    have f1 := (toIndexPartial_spec g.S s _ hs htag).2
    have f2 := (toIndexPartial_spec g.S s' _ hs' htag).2
    have hsv : sel ((g.ps i).features.getD (actionIdOf g i a) []) s = sel ((g.ps i).features.getD (actionIdOf g i a) []) s' := by
      rw [← f1, ← f2, h2]
    rw [actionIdOf_eq] at hsv
    rw [← hav, hsv]
  · intro h
    have hav : sel (g.ps i).agents a = sel (g.ps i).agents a' := congrArg Prod.fst h
    have hsv := congrArg Prod.snd h
    simp only at hsv
    rw [← hav] at hsv
    have ha1 : actionIdOf g i a = actionIdOf g i a' := by rw [actionIdOf_eq, actionIdOf_eq, hav]
    rw [getId_eq, getId_eq, ← ha1]
    congr 1
    unfold parentIdOf
    rw [← ha1, toIndexPartial_eq_toIndex, toIndexPartial_eq_toIndex, actionIdOf_eq, hsv]

theorem coopIdx_lt (g : DDNGraph) (i : Nat) (hok : ParentsOK g i) (k : List Nat × List Nat) (hk : coopOK g k) :
    coopIdx g i k < g.getSize i := getId_lt_size g i k.1 k.2 hk.1 hk.2 hok

theorem parentsOKB_iff (g : DDNGraph) (i : Nat) : parentsOKB g i = true ↔ ParentsOK g i := by
  unfold parentsOKB ParentsOK
  simp only [Bool.and_eq_true, List.all_eq_true, decide_eq_true_eq, beq_iff_eq]
  constructor
  · rintro ⟨⟨a, b⟩, c⟩; exact ⟨a, b, c⟩
  · rintro ⟨a, b, c⟩; exact ⟨⟨a, b⟩, c⟩

/-! ## §3 the cooperative classes -/

/-- a call inside the documented preconditions: arguments inside their spaces; `sync(indeces)` receives what `record` returned -/
def FOp.WF (g : DDNGraph) : FOp → Prop
  | .record s a s1 _ => Valid g.S s ∧ Valid g.A a ∧ Valid g.S s1
  | .syncSA s a => Valid g.S s ∧ Valid g.A a
  | .syncIdx ids s a => Valid g.S s ∧ Valid g.A a ∧ ids = coopIds g s a
  | _ => True

/-- the driver's Boolean guard implies the hypothesis of the theorems (for `sync(indeces)` the driver passes the vector the
    library returned and separately reports a `diff` when it is not `coopIds`) -/
theorem FOp.validB_WF (g : DDNGraph) (op : FOp) (hv : op.validB g = true)
    (hid : ∀ ids s a, op = .syncIdx ids s a → ids = coopIds g s a) : op.WF g := by
  cases op with
  | record s a s1 rews =>
    simp only [FOp.validB, Bool.and_eq_true, validB_iff] at hv
    exact ⟨hv.1.1, hv.1.2, hv.2⟩
  | syncAll => trivial
  | syncSA s a =>
    simp only [FOp.validB, Bool.and_eq_true, validB_iff] at hv
    exact ⟨hv.1, hv.2⟩
  | syncIdx ids s a =>
    simp only [FOp.validB, Bool.and_eq_true, validB_iff] at hv
    exact ⟨hv.1, hv.2, hid ids s a rfl⟩
  | reset => trivial
  | ctor b => trivial

theorem FOp.WF.toKOp {g : DDNGraph} {op : FOp} (h : op.WF g) (i : Nat) (hi : i < g.S.length) :
    (op.toKOp i).WF (coopIdx g i) (coopOK g) (g.S.getD i 0) := by
  cases op with
  | record s a s1 rews => exact ⟨⟨h.1, h.2.1⟩, valid_getD g.S s1 i h.2.2 hi⟩
  | syncAll => trivial
  | syncSA s a => exact ⟨h.1, h.2⟩
  | syncIdx ids s a =>
    refine ⟨⟨h.1, h.2.1⟩, ?_⟩
    rw [h.2.2]
    simp [coopIds, coopIdx, List.getD_eq_getElem?_getD, List.getElem?_map, List.getElem?_range hi]
  | reset => trivial
  | ctor b => trivial

theorem CoopWorld.run_tables (cfg : Cfg) (g : DDNGraph) (cw : CoopWorld) (h : List FOp) (i : Nat) :
    (cw.run cfg g h).tables[i]? = (cw.tables[i]?).map (fun w => w.run cfg (h.map (fun op => (op.toKOp i).toOp (coopIdx g i)))) := by
  induction h generalizing cw with
  | nil => simp [CoopWorld.run, World.run]
  | cons op t ih =>
    simp only [CoopWorld.run, List.foldl_cons] at ih ⊢
    rw [ih]
    simp only [CoopWorld.step, getElem?_mapIdxFrom, Nat.zero_add, Option.map_map, List.map_cons, World.run, List.foldl_cons]
    rfl

theorem CoopWorld.run_ts (cfg : Cfg) (g : DDNGraph) (cw : CoopWorld) (h : List FOp) :
    (cw.run cfg g h).ts = h.foldl (fun n op => match op with | .record .. => n + 1 | .reset => 0 | _ => n) cw.ts := by
  induction h generalizing cw with
  | nil => rfl
  | cons op t ih =>
    simp only [CoopWorld.run, List.foldl_cons] at ih ⊢
    rw [ih]
    cases op <;> rfl

/-- `timesteps_` of the cooperative experience: `record` calls since the last `reset` -/
def ftsOf (h : List FOp) : Nat := h.foldl (fun n op => match op with | .record .. => n + 1 | .reset => 0 | _ => n) 0

/-- the context history of feature `i` -/
def coopGhost (g : DDNGraph) (i : Nat) (h : List FOp) (k0 : List Nat × List Nat) : Ghost :=
  Ghost.init.run ((h.map (FOp.toKOp i)).map (KOp.ctxProject (ctxOf g i) (ctxOf g i k0)))

/-- **coop_mirrors_history** — C07 for `CooperativeExperience` × `CooperativeMaximumLikelihoodModel`, full strength: any DDN graph
    `push` accepts (any number of features / agents, any sizes, any parent sets), any history of `record(s,a,s1,rews)`,
    `sync()`, `sync(s,a)`, `sync(indeces)`, `reset()` and model (re)constructions with either flag, any rewards.  For every
    feature `i` and every valid `(s, a)`, the row `getId(i,s,a)` of the tables holds: visit counts / mean / M2 of exactly the records
    whose context for feature `i` equals that of `(s,a)` (`recsOf`: decided by comparing the parent agents' actions and the parent
    features' values, no index); model row = their empirical frequencies and mean at the context's last effective sync, else the
    default (column 0, reward 0); a context whose last call was a sync is up to date; `timesteps` = records since the last reset. -/
theorem coop_mirrors_history (g : DDNGraph) (junk : Rat) (h : List FOp) (hwf : ∀ op ∈ h, op.WF g)
    (i : Nat) (hi : i < g.S.length) (hok : ParentsOK g i) (k0 : List Nat × List Nat) (hk0 : coopOK g k0) :
    let cw := (CoopWorld.init g).run (cfgPlain junk) g h
    let gh := coopGhost g i h k0
    let w := g.S.getD i 0
    cw.ts = ftsOf h ∧ gh.recs = recsOf (ctxOf g i) (ctxOf g i k0) (h.map (FOp.toKOp i)) [] ∧
    coopIdx g i k0 < g.getSize i ∧
    ∃ tb p, cw.tables[i]? = some tb ∧ tb.pairs[coopIdx g i k0]? = some p ∧ cw.pair i (coopIdx g i k0) = p ∧
      (p.cell.n = gh.recs.length ∧ p.cell.mean = meanOf gh.recs ∧ p.cell.m2 = sqDevOf gh.recs ∧
        ∀ k, k < w → nthN p.cnt k = countS1 k gh.recs) ∧
      (gh.snap ≠ [] → (∀ k, k < w → nthQ p.row k = freqOf gh.snap k) ∧ p.rew = meanOf gh.snap) ∧
      (gh.snap = [] → p.row = unit w 0 ∧ p.rew = 0) ∧
      (gh.pend = 0 → gh.recs ≠ [] → gh.snap = gh.recs) := by
  intro cw gh w
  have hk : ∀ op ∈ h.map (FOp.toKOp i), op.WF (coopIdx g i) (coopOK g) w := by
    intro op hop
    obtain ⟨fop, hf, rfl⟩ := List.mem_map.mp hop
    exact (hwf fop hf).toKOp i hi
  obtain ⟨_, hrecs, p, hp, rest⟩ := keyed_mirrors_history (coopIdx g i) (ctxOf g i) (coopOK g) (g.getSize i) w (fun _ => 0) junk
    (fun k k' a b => getId_eq_iff_ctx g i hok k k' a b) (fun k a => coopIdx_lt g i hok k a) (h.map (FOp.toKOp i)) hk k0 hk0
  have htab : cw.tables[i]? = some ((World.init (g.getSize i) w (fun _ => 0)).run (cfgPlain junk)
      ((h.map (FOp.toKOp i)).map (KOp.toOp (coopIdx g i)))) := by
    show ((CoopWorld.init g).run (cfgPlain junk) g h).tables[i]? = _
    rw [CoopWorld.run_tables]
    simp [CoopWorld.init, List.getElem?_map, List.getElem?_range hi, List.map_map, Function.comp_def, w]
  refine ⟨by rw [CoopWorld.run_ts]; rfl, hrecs, coopIdx_lt g i hok k0 hk0, _, p, htab, hp, ?_, rest⟩
  simp only [CoopWorld.pair, List.getD_eq_getElem?_getD, htab, Option.getD_some]
  rw [hp]; rfl

/-- the indices `record` returns address existing rows (one per feature) -/
theorem coop_ids_in_range (g : DDNGraph) (hok : ∀ i, i < g.S.length → ParentsOK g i) (s a : List Nat)
    (hs : Valid g.S s) (ha : Valid g.A a) :
    (coopIds g s a).length = g.S.length ∧ ∀ i, i < g.S.length → (coopIds g s a).getD i 0 < g.getSize i := by
  refine ⟨by simp [coopIds], fun i hi => ?_⟩
  have : (coopIds g s a).getD i 0 = g.getId i s a := by
    simp [coopIds, List.getD_eq_getElem?_getD, List.getElem?_map, List.getElem?_range hi]
  rw [this]
  exact getId_lt_size g i s a hs ha (hok i hi)

/-- the entry the property demands of feature `i` for `(s,a) → x`, and the reward -/
def coopSpecP (g : DDNGraph) (h : List FOp) (s a : List Nat) (i x : Nat) : Rat := specRow (g.S.getD i 0) 0 (coopGhost g i h (s, a)) x
def coopSpecR (g : DDNGraph) (h : List FOp) (s a : List Nat) (i : Nat) : Rat :=
  let gh := coopGhost g i h (s, a)
  if gh.snap.isEmpty then 0 else meanOf gh.snap

theorem foldl_congr_range {β : Type} (n : Nat) (f f' : β → Nat → β) (b : β) (h : ∀ acc i, i < n → f acc i = f' acc i) :
    (List.range n).foldl f b = (List.range n).foldl f' b := by
  apply List.foldl_ext
  intro acc i hi
  exact h acc i (List.mem_range.mp hi)

/-- **coop_joint_probability** — what the learned factored model ANSWERS: `getTransitionProbability(s,a,s1)` is the product over
    the features of the empirical frequency of `s1[i]` among the absorbed records of the context of `(s,a)` (default: 1 on value
    0), `getExpectedReward(s,a,·)` the sum of their empirical mean rewards — for every history, graph, query. -/
theorem coop_joint_probability (g : DDNGraph) (junk : Rat) (h : List FOp) (hwf : ∀ op ∈ h, op.WF g)
    (hok : ∀ i, i < g.S.length → ParentsOK g i) (s a s1 : List Nat) (hs : Valid g.S s) (ha : Valid g.A a) (hs1 : Valid g.S s1) :
    let cw := (CoopWorld.init g).run (cfgPlain junk) g h
    coopTransProb g cw s a s1 = (List.range g.S.length).foldl (fun acc i => acc * coopSpecP g h s a i (s1.getD i 0)) 1 ∧
    coopExpReward g cw s a = (List.range g.S.length).foldl (fun acc i => acc + coopSpecR g h s a i) 0 := by
  intro cw
  have key : ∀ i, i < g.S.length →
      nthQ (cw.pair i (g.getId i s a)).row (s1.getD i 0) = coopSpecP g h s a i (s1.getD i 0) ∧
      (cw.pair i (g.getId i s a)).rew = coopSpecR g h s a i := by
    intro i hi
    obtain ⟨_, _, _, tb, p, _, _, hpair, _, hsync, hdfl, _⟩ :=
      coop_mirrors_history g junk h hwf i hi (hok i hi) (s, a) ⟨hs, ha⟩
    have hx : s1.getD i 0 < g.S.getD i 0 := valid_getD g.S s1 i hs1 hi
    have hpair' : cw.pair i (g.getId i s a) = p := hpair
    rw [hpair']
    unfold coopSpecP coopSpecR specRow
    by_cases he : (coopGhost g i h (s, a)).snap = []
    · obtain ⟨hr, hw⟩ := hdfl he
      simp only [he, List.isEmpty_nil, if_true]
      rw [hr, hw, nthQ_unit]
      refine ⟨?_, rfl⟩
      simp only [and_comm]
    · obtain ⟨hr, hw⟩ := hsync he
      have : (coopGhost g i h (s, a)).snap.isEmpty = false := by
        cases hsn : (coopGhost g i h (s, a)).snap with
        | nil => exact absurd hsn he
        | cons _ _ => rfl
      simp only [this]
      exact ⟨hr _ hx, hw⟩
  constructor
  · unfold coopTransProb
    apply foldl_congr_range
    intro acc i hi
    rw [(key i hi).1]
  · unfold coopExpReward
    apply foldl_congr_range
    intro acc i hi
    rw [(key i hi).2]

/-! ### the cooperative posterior-sampling model draws from the posterior of the CONTEXT's data -/

/-- the experience part of the row of `k0` is `ExpOK` for the records of its context (no precondition of any kind) -/
theorem keyed_pair_expOK {K C : Type} [DecidableEq C] (idx : K → Nat) (ctx : K → C) (ok : K → Prop)
    (np w : Nat) (dflOf : Nat → Nat) (cfg : Cfg)
    (hinj : ∀ k k', ok k → ok k' → (idx k = idx k' ↔ ctx k = ctx k')) (hlt : ∀ k, ok k → idx k < np)
    (h : List (KOp K)) (hwf : ∀ op ∈ h, op.WF idx ok w) (k0 : K) (hk0 : ok k0) :
    ∃ p, ((World.init np w dflOf).run cfg (h.map (KOp.toOp idx))).pairs[idx k0]? = some p ∧
      ExpOK w p (recsOf ctx (ctx k0) h []) := by
  refine ⟨_, world_pair_eq cfg np w dflOf _ (idx k0) (hlt k0 hk0), ?_⟩
  rw [keyed_project_map idx ctx ok w hinj k0 hk0 h hwf]
  have e : recsOf ctx (ctx k0) h [] = (Ghost.init.run (h.map (KOp.ctxProject ctx (ctx k0)))).recs :=
    (recsOf_eq_ghost ctx (ctx k0) h Ghost.init).symm
  rw [e]
  exact ExpOK.run cfg w _ _ Ghost.init (by simpa [Ghost.init] using ExpOK.init w (dflOf (idx k0)) (idx k0))

/-- **coop_thompson_posterior** — `CooperativeThompsonModel::syncRow(i, getId(i,s,a))` after ANY history of the experience: the
    Dirichlet parameters are the next-value counts of the records with the context of `(s,a)` plus the Jeffreys prior 1/2; with
    fewer than two such records the exposed reward is their empirical mean (0 on none), otherwise the Student-t posterior has
    location = their mean, squared scale = Σ(r−mean)²/(n(n−1)) ≥ 0 with non-zero divisor, n−1 ≥ 1 degrees of freedom; and whatever
    positive gamma draws the engine returns the exposed row is a probability distribution. -/
theorem coop_thompson_posterior (g : DDNGraph) (cfg : Cfg) (h : List FOp) (hwf : ∀ op ∈ h, op.WF g)
    (i : Nat) (hi : i < g.S.length) (hok : ParentsOK g i) (k0 : List Nat × List Nat) (hk0 : coopOK g k0) :
    let p := ((CoopWorld.init g).run cfg g h).pair i (coopIdx g i k0)
    let recs := recsOf (ctxOf g i) (ctxOf g i k0) (h.map (FOp.toKOp i)) []
    let w := g.S.getD i 0
    (dirichletParams p.cnt).length = w ∧
    (∀ k, k < w → nthQ (dirichletParams p.cnt) k = (countS1 k recs : Rat) + 1 / 2) ∧
    (recs.length < 2 → thompsonPost p.cell = none ∧ ∀ gs t sd, (p.thompsonSync gs t sd).rew = meanOf recs) ∧
    (2 ≤ recs.length → thompsonPost p.cell = some ⟨meanOf recs,
        sqDevOf recs / (((recs.length * (recs.length - 1) : Nat)) : Rat), recs.length - 1⟩ ∧
      (0 : Rat) < ((recs.length * (recs.length - 1) : Nat) : Rat) ∧
      0 ≤ sqDevOf recs / (((recs.length * (recs.length - 1) : Nat)) : Rat) ∧ 1 ≤ recs.length - 1) ∧
    (∀ gs : List Rat, gs ≠ [] → (∀ x ∈ gs, 0 < x) → ∀ t sd,
      (∀ y ∈ (p.thompsonSync gs t sd).row, 0 < y) ∧ sumQ (p.thompsonSync gs t sd).row = 1) := by
  intro p recs w
  have hk : ∀ op ∈ h.map (FOp.toKOp i), op.WF (coopIdx g i) (coopOK g) w := by
    intro op hop
    obtain ⟨fop, hf, rfl⟩ := List.mem_map.mp hop
    exact (hwf fop hf).toKOp i hi
  obtain ⟨q, hq, he⟩ := keyed_pair_expOK (coopIdx g i) (ctxOf g i) (coopOK g) (g.getSize i) w (fun _ => 0) cfg
    (fun k k' a b => getId_eq_iff_ctx g i hok k k' a b) (fun k a => coopIdx_lt g i hok k a) (h.map (FOp.toKOp i)) hk k0 hk0
  have hpq : p = q := by
    show ((CoopWorld.init g).run cfg g h).pair i (coopIdx g i k0) = q
    have htab : ((CoopWorld.init g).run cfg g h).tables[i]? = some ((World.init (g.getSize i) w (fun _ => 0)).run cfg
        ((h.map (FOp.toKOp i)).map (KOp.toOp (coopIdx g i)))) := by
      rw [CoopWorld.run_tables]
      simp [CoopWorld.init, List.getElem?_map, List.getElem?_range hi, List.map_map, Function.comp_def, w]
    simp only [CoopWorld.pair, List.getD_eq_getElem?_getD, htab, Option.getD_some]
    rw [hq]; rfl
  rw [hpq]
  refine ⟨by simp [dirichletParams, he.len], fun k hkw => ?_, fun h2 => ?_, fun h2 => ?_, fun gs hne hp t sd => ?_⟩
  · have : ∀ (l : List Nat) (j : Nat), j < l.length → nthQ (dirichletParams l) j = (nthN l j : Rat) + 1 / 2 := by
      intro l
      induction l with
      | nil => intro j hj; simp at hj
      | cons x xs ih =>
        intro j hj
        cases j with
        | zero => simp [dirichletParams, nthQ, nthN]
        | succ j => simpa [dirichletParams, nthQ, nthN] using ih j (by simpa using hj)
    rw [this q.cnt k (by rw [he.len]; exact hkw), he.cnt k hkw]
  · exact ⟨(thompson_post_none w q recs he h2 [] 0 0).1, fun gs t sd => (thompson_post_none w q recs he h2 gs t sd).2⟩
  · obtain ⟨a, b, c, d, _⟩ := thompson_post_documented w q recs he h2
    exact ⟨a, b, c, d⟩
  · obtain ⟨a, b, _⟩ := thompson_sync_valid w q recs he gs hne hp t sd
    exact ⟨a, b⟩

/-! ### the learned factored model exposes a probability distribution over joint next states -/

theorem sumUpTo_eq_sumN (f : Nat → Rat) : ∀ w, sumUpTo f w = AITB.Factored.sumN w f
  | 0 => rfl
  | w+1 => by simp only [sumUpTo, AITB.Factored.sumN, sumUpTo_eq_sumN f w]

/-- the records the specification state keeps have their next values inside the row -/
theorem ghost_wf (w : Nat) : ∀ (l : List LOp) (g : Ghost), (∀ x ∈ g.recs, x.1 < w) → (∀ x ∈ g.snap, x.1 < w) →
    wfAll w l = true → (∀ x ∈ (g.run l).recs, x.1 < w) ∧ (∀ x ∈ (g.run l).snap, x.1 < w)
  | [], g, hr, hs, _ => ⟨hr, hs⟩
  | op :: t, g, hr, hs, hl => by
    simp only [wfAll, List.all_cons, Bool.and_eq_true] at hl
    simp only [Ghost.run, List.foldl_cons]
    have key : (∀ x ∈ (g.step op).recs, x.1 < w) ∧ (∀ x ∈ (g.step op).snap, x.1 < w) := by
      cases op with
      | record s1 r =>
        have h1 : s1 < w := by simpa [opWF] using hl.1
        refine ⟨?_, by simpa [Ghost.step] using hs⟩
        intro x hx
        simp only [Ghost.step, List.mem_append, List.mem_singleton] at hx
        rcases hx with hx | rfl
        · exact hr x hx
        · exact h1
      | sync =>
        refine ⟨by simpa [Ghost.step] using hr, ?_⟩
        simp only [Ghost.step]
        split
        · exact hs
        · exact hr
      | syncInc s1 =>
        refine ⟨by simpa [Ghost.step] using hr, ?_⟩
        simp only [Ghost.step]
        split
        · exact hs
        · exact hr
      | reset => exact ⟨by simp [Ghost.step], by simpa [Ghost.step] using hs⟩
      | ctor b =>
        cases b
        · exact ⟨by simpa [Ghost.step] using hr, by simp [Ghost.step]⟩
        · exact ⟨by simpa [Ghost.step] using hr, by simpa [Ghost.step] using hr⟩
      | nop => exact ⟨by simpa [Ghost.step] using hr, by simpa [Ghost.step] using hs⟩
    exact ghost_wf w t (g.step op) key.1 key.2 (by simpa [wfAll] using hl.2)

/-- a specification row (frequencies of the absorbed records, or the default) is a distribution over `0 … w-1` -/
theorem specRow_distribution (w : Nat) (hw : 0 < w) (g : Ghost) (hs : ∀ x ∈ g.snap, x.1 < w) :
    AITB.Factored.sumN w (specRow w 0 g) = 1 ∧ ∀ k, 0 ≤ specRow w 0 g k := by
  unfold specRow
  by_cases he : g.snap = []
  · simp only [he, List.isEmpty_nil, if_true]
    constructor
    · have : AITB.Factored.sumN w (fun i => if i = 0 ∧ i < w then (1 : Rat) else 0) = AITB.Factored.sumN w (fun i => if 0 = i then (1 : Rat) else 0) := by
        apply sumN_congr
        intro k hk
        by_cases h0 : k = 0
        · subst h0; simp [hw]
        · have : ¬ 0 = k := fun e => h0 e.symm
          simp [h0, this]
      rw [this, ← sumUpTo_eq_sumN, sumUpTo_indicator]
      simp [hw]
    · intro k; split <;> norm_num
  · have hne : g.snap.isEmpty = false := by
      cases hsn : g.snap with
      | nil => exact absurd hsn he
      | cons _ _ => rfl
    simp only [hne]
    obtain ⟨h1, h2⟩ := freq_row_is_distribution w g.snap he hs
    exact ⟨by rw [← sumUpTo_eq_sumN]; exact h2, h1⟩

theorem prodOver_nonneg (F : Nat → Nat → Rat) (hF : ∀ i v, 0 ≤ F i v) : ∀ (pos : Nat) (l : List Nat), 0 ≤ prodOver F pos l
  | _, [] => by simp [prodOver]
  | pos, v :: vs => by simp only [prodOver]; exact mul_nonneg (hF pos v) (prodOver_nonneg F hF (pos + 1) vs)

/-- **coop_joint_is_distribution** — after ANY history, for every `(s,a)`, the joint next-state probabilities
    `CooperativeMaximumLikelihoodModel::getTransitionProbability(s, a, ·)` are non-negative and sum to one over the whole factored
    state space: the learned factored model always exposes a valid distribution (synced contexts: empirical frequencies;
    the others: the fixed valid default). -/
theorem coop_joint_is_distribution (g : DDNGraph) (junk : Rat) (h : List FOp) (hwf : ∀ op ∈ h, op.WF g)
    (hok : ∀ i, i < g.S.length → ParentsOK g i) (s a : List Nat) (hs : Valid g.S s) (ha : Valid g.A a)
    (hpos : ∀ d ∈ g.S, 0 < d) :
    let cw := (CoopWorld.init g).run (cfgPlain junk) g h
    AITB.Factored.sumN (space g.S) (fun id => coopTransProb g cw s a (toFactors g.S id)) = 1 ∧
    ∀ s1, Valid g.S s1 → 0 ≤ coopTransProb g cw s a s1 := by
  intro cw
  -- every spec row of the contexts of (s,a) is a distribution
  have hrow : ∀ i, i < g.S.length → AITB.Factored.sumN (g.S.getD i 0) (coopSpecP g h s a i) = 1 ∧ ∀ k, 0 ≤ coopSpecP g h s a i k := by
    intro i hi
    have hw : 0 < g.S.getD i 0 := by
      have : g.S.getD i 0 ∈ g.S := by simp [List.getD_eq_getElem?_getD, List.getElem?_eq_getElem hi]
      exact hpos _ this
    have hk : ∀ op ∈ h.map (FOp.toKOp i), op.WF (coopIdx g i) (coopOK g) (g.S.getD i 0) := by
      intro op hop
      obtain ⟨fop, hf, rfl⟩ := List.mem_map.mp hop
      exact (hwf fop hf).toKOp i hi
    have hwfl := keyed_wfAll (coopIdx g i) (ctxOf g i) (coopOK g) (g.S.getD i 0) (ctxOf g i (s, a)) (h.map (FOp.toKOp i)) hk
    have hg := (ghost_wf (g.S.getD i 0) _ Ghost.init (by simp [Ghost.init]) (by simp [Ghost.init]) hwfl).2
    exact specRow_distribution (g.S.getD i 0) hw (coopGhost g i h (s, a)) hg
  have hprod : ∀ s1, Valid g.S s1 → coopTransProb g cw s a s1 = prodOver (coopSpecP g h s a) 0 s1 := by
    intro s1 hs1
    rw [(coop_joint_probability g junk h hwf hok s a s1 hs ha hs1).1]
    have := foldl_range_getD (coopSpecP g h s a) s1 0 1
    simp only [Nat.sub_zero, one_mul] at this
    rw [← this, List.range_eq_range', valid_length g.S s1 hs1]
  constructor
  · have : ∀ id, coopTransProb g cw s a (toFactors g.S id) = prodOver (coopSpecP g h s a) 0 (toFactors g.S id) :=
      fun id => hprod _ (toFactors_valid g.S id hpos)
    simp only [this]
    exact sum_prodOver (coopSpecP g h s a) g.S 0 hpos (fun i hi => by simpa using (hrow i hi).1)
  · intro s1 hs1
    rw [hprod s1 hs1]
    apply prodOver_nonneg
    intro i v
    by_cases hi : i < g.S.length
    · exact (hrow i hi).2 v
    · -- beyond the features the spec row is the default / a frequency: non-negative by definition
      unfold coopSpecP specRow
      split
      · split <;> norm_num
      · unfold freqOf; positivity

/-- the joint of ANY tables whose looked-up rows are distributions is a distribution (the product loop of
    `DDN::getTransitionProbability` over the rows `getId(i,s,a)`) -/
theorem coop_joint_of_rows (g : DDNGraph) (cw : CoopWorld) (s a : List Nat) (hpos : ∀ d ∈ g.S, 0 < d)
    (hrow : ∀ i, i < g.S.length →
      AITB.Factored.sumN (g.S.getD i 0) (fun v => nthQ (cw.pair i (g.getId i s a)).row v) = 1 ∧
      ∀ v, 0 ≤ nthQ (cw.pair i (g.getId i s a)).row v) :
    AITB.Factored.sumN (space g.S) (fun id => coopTransProb g cw s a (toFactors g.S id)) = 1 ∧
    ∀ s1, s1.length = g.S.length → 0 ≤ coopTransProb g cw s a s1 := by
  have hprod : ∀ s1, s1.length = g.S.length →
      coopTransProb g cw s a s1 = prodOver (fun i v => nthQ (cw.pair i (g.getId i s a)).row v) 0 s1 := by
    intro s1 hl
    unfold coopTransProb
    have := foldl_range_getD (fun i v => nthQ (cw.pair i (g.getId i s a)).row v) s1 0 1
    simp only [Nat.sub_zero, one_mul] at this
    rw [← this, List.range_eq_range', hl]
  constructor
  · have : ∀ id, coopTransProb g cw s a (toFactors g.S id)
        = prodOver (fun i v => nthQ (cw.pair i (g.getId i s a)).row v) 0 (toFactors g.S id) :=
      fun id => hprod _ (toFactors_length g.S id)
    simp only [this]
    exact sum_prodOver _ g.S 0 hpos (fun i hi => by simpa using (hrow i hi).1)
  · intro s1 hl
    rw [hprod s1 hl]
    -- positions beyond the features do not occur in a tuple of length |S|; bound the product through the list itself
    have : ∀ (l : List Nat) (pos : Nat), pos + l.length ≤ g.S.length →
        0 ≤ prodOver (fun i v => nthQ (cw.pair i (g.getId i s a)).row v) pos l := by
      intro l
      induction l with
      | nil => intro pos _; simp [prodOver]
      | cons v vs ih =>
        intro pos hp
        simp only [prodOver]
        have hlt : pos < g.S.length := by simp at hp; omega
        exact mul_nonneg ((hrow pos hlt).2 v) (ih (pos + 1) (by simp at hp ⊢; omega))
    exact this s1 0 (by omega)

theorem sumN_nthQ (l : List Rat) : AITB.Factored.sumN l.length (nthQ l) = sumQ l := by
  induction l with
  | nil => rfl
  | cons x xs ih =>
    have := sumN_add 1 xs.length (nthQ (x :: xs))
    rw [List.length_cons, Nat.add_comm xs.length 1, this]
    simp only [AITB.Factored.sumN, nthQ, zero_add]
    have e : (fun j => nthQ (x :: xs) (1 + j)) = nthQ xs := by
      funext j; rw [Nat.add_comm]; rfl
    rw [e, ih, sumQ]

theorem nthQ_mem_or_zero (l : List Rat) : ∀ i, nthQ l i = 0 ∨ nthQ l i ∈ l := by
  induction l with
  | nil => intro i; left; rfl
  | cons x xs ih =>
    intro i
    cases i with
    | zero => right; simp [nthQ]
    | succ i =>
      rcases ih i with h | h
      · left; simpa [nthQ] using h
      · right; simp only [nthQ]; exact List.mem_cons_of_mem _ h

/-- **coop_thompson_joint_valid** — the cooperative posterior-sampling model exposes a valid joint distribution: if the rows
    `getId(i,s,a)` hold what `syncRow` wrote (`normalize` of positive gamma draws, one per next value), then
    `getTransitionProbability(s,a,·)` is non-negative and sums to one over the factored state space — whatever the draws were. -/
theorem coop_thompson_joint_valid (g : DDNGraph) (cw : CoopWorld) (s a : List Nat) (hpos : ∀ d ∈ g.S, 0 < d)
    (hrows : ∀ i, i < g.S.length → ∃ gs : List Rat, gs.length = g.S.getD i 0 ∧ (∀ x ∈ gs, 0 < x) ∧
      (cw.pair i (g.getId i s a)).row = normalize gs) :
    AITB.Factored.sumN (space g.S) (fun id => coopTransProb g cw s a (toFactors g.S id)) = 1 ∧
    ∀ s1, s1.length = g.S.length → 0 ≤ coopTransProb g cw s a s1 := by
  apply coop_joint_of_rows g cw s a hpos
  intro i hi
  obtain ⟨gs, hl, hp, hr⟩ := hrows i hi
  have hw : 0 < g.S.getD i 0 := by
    have : g.S.getD i 0 ∈ g.S := by simp [List.getD_eq_getElem?_getD, List.getElem?_eq_getElem hi]
    exact hpos _ this
  have hne : gs ≠ [] := by intro e; rw [e] at hl; simp only [List.length_nil] at hl; omega
  obtain ⟨hpos', hsum, _⟩ := thompson_rows_valid gs hne hp
  rw [hr]
  constructor
  · have : (normalize gs).length = g.S.getD i 0 := by simp [normalize, hl]
    rw [← this, sumN_nthQ]; exact hsum
  · intro v
    rcases nthQ_mem_or_zero (normalize gs) v with h | h
    · rw [h]
    · exact le_of_lt (hpos' _ h)

/-! ### satisfiability: a DDN with a two-agent parent set, non-uniform sizes with `S[k] ≠ A[k]`, non-prefix parent features -/

/-- S = (3,2,4), A = (2,3).  Feature 0: parent agents {0,1} (6 joint actions), parent features alternate between {2}, {0,2}, {1};
    feature 1: parent agent {1}, parents {0}, {1,2}, {2};  feature 2: parent agent {0}, parents {1}, {0,1,2}. -/
def exGraph : DDNGraph :=
  { S := [3, 2, 4], A := [2, 3],
    parents := [⟨[0, 1], [[2], [0, 2], [1], [2], [0, 2], [1]]⟩, ⟨[1], [[0], [1, 2], [2]]⟩, ⟨[0], [[1], [0, 1, 2]]⟩] }

theorem exGraph_ok : ∀ i, i < exGraph.S.length → ParentsOK exGraph i := by
  intro i hi
  have : i = 0 ∨ i = 1 ∨ i = 2 := by simp [exGraph] at hi; omega
  rcases this with rfl | rfl | rfl <;>
    refine ⟨by decide, by decide, by decide⟩

def exHist : List FOp :=
  [.record [2, 1, 3] [1, 2] [0, 1, 2] [1, -2, 1/2], .syncSA [2, 1, 3] [1, 2],
   .record [0, 1, 3] [1, 2] [1, 0, 3] [3, 0, 1/4], .syncIdx (coopIds exGraph [0, 1, 3] [1, 2]) [0, 1, 3] [1, 2],
   .reset, .record [2, 0, 0] [0, 0] [2, 1, 0] [5, 5, 5], .ctor true, .syncAll]

theorem exHist_wf : ∀ op ∈ exHist, op.WF exGraph := by
  intro op hop
  simp only [exHist, List.mem_cons, List.mem_nil_iff, or_false] at hop
  rcases hop with rfl | rfl | rfl | rfl | rfl | rfl | rfl | rfl <;>
    simp [FOp.WF, exGraph, Valid]

/-- the hypotheses of `coop_mirrors_history` / `coop_joint_probability` are satisfiable by a non-trivial graph and history;
    and two (s,a) that differ only outside the parents of feature 0 share its row while a different parent action does not (test) -/
example : (∀ op ∈ exHist, op.WF exGraph) ∧ (∀ i, i < exGraph.S.length → ParentsOK exGraph i) ∧
    coopIdx exGraph 0 ([2, 1, 3], [1, 2]) = coopIdx exGraph 0 ([0, 1, 0], [1, 2]) ∧
    coopIdx exGraph 0 ([2, 1, 3], [1, 2]) ≠ coopIdx exGraph 0 ([2, 1, 3], [0, 2]) :=
  ⟨exHist_wf, exGraph_ok, by decide, by decide⟩

/-! ## §4 Factored::Bandit::Experience -/

/-- **fbIdx_eq_iff_ctx** — `toIndexPartial(tag, A, a)` separates exactly the local joint actions -/
theorem fbIdx_eq_iff_ctx (A dep : List Nat) (hdep : ∀ k ∈ dep, k < A.length) (a a' : List Nat) (ha : Valid A a) (ha' : Valid A a') :
    fbIdx A dep a = fbIdx A dep a' ↔ fbCtx dep a = fbCtx dep a' := by
  unfold fbIdx fbCtx
  constructor
  · intro h
    rw [← (toIndexPartial_spec A a dep ha hdep).2, ← (toIndexPartial_spec A a' dep ha' hdep).2, h]
  · intro h
    rw [toIndexPartial_eq_toIndex, toIndexPartial_eq_toIndex, h]

/-- **fbandit_mirrors_history** — `Factored::Bandit::Experience`, any action space, any dependency tags, any history of
    `record(a, rews)` / `reset()`: entry `toIndexPartial(tag_i, A, a)` of basis `i` holds count, mean and M2 of exactly the
    rewards `rews[i]` recorded with the same local joint action `a|tag_i`; `timesteps` counts the records since the last reset. -/
theorem fbandit_mirrors_history (A dep : List Nat) (junk : Rat) (hdep : ∀ k ∈ dep, k < A.length) (i : Nat)
    (h : List (Option (List Nat × List Rat)))       -- `some (a, rews)` = record, `none` = reset
    (hwf : ∀ x ∈ h, ∀ ar, x = some ar → Valid A ar.1) (a0 : List Nat) (ha0 : Valid A a0) :
    let kops : List (KOp (List Nat)) := h.map (fun x => match x with | some ar => fbRecord i ar.1 ar.2 | none => .reset)
    let wd := (World.init (spacePartial dep A) 1 (fun _ => 0)).run (cfgPlain junk) (kops.map (KOp.toOp (fbIdx A dep)))
    let recs := recsOf (fbCtx dep) (fbCtx dep a0) kops []
    wd.ts = tsOf (kops.map (KOp.toOp (fbIdx A dep))) ∧ fbIdx A dep a0 < spacePartial dep A ∧
    ∃ p, wd.pairs[fbIdx A dep a0]? = some p ∧
      p.cell.n = recs.length ∧ p.cell.mean = meanOf recs ∧ p.cell.m2 = sqDevOf recs := by
  intro kops wd recs
  have hlt : ∀ a, Valid A a → fbIdx A dep a < spacePartial dep A := fun a ha => (toIndexPartial_spec A a dep ha hdep).1
  have hk : ∀ op ∈ kops, op.WF (fbIdx A dep) (Valid A) 1 := by
    intro op hop
    obtain ⟨x, hx, rfl⟩ := List.mem_map.mp hop
    cases x with
    | none => trivial
    | some ar => exact ⟨hwf _ hx ar rfl, Nat.zero_lt_one⟩
  obtain ⟨hts, hrecs, p, hp, ⟨h1, h2, h3, _⟩, _⟩ := keyed_mirrors_history (fbIdx A dep) (fbCtx dep) (Valid A) (spacePartial dep A) 1
    (fun _ => 0) junk (fun k k' a b => fbIdx_eq_iff_ctx A dep hdep k k' a b) hlt kops hk a0 ha0
  rw [hrecs] at h1 h2 h3
  exact ⟨hts, hlt a0 ha0, p, hp, h1, h2, h3⟩

/-- **bandit_mirrors_history** — `Bandit::Experience` (arms addressed directly): after any history of `record(a, rew)` / `reset()`
    arm `a0` holds count, mean and M2 of exactly the rewards recorded for `a0` since the last reset; `timesteps` counts the records. -/
theorem bandit_mirrors_history (A : Nat) (cfg : Cfg) (h : List (Option (Nat × Rat)))       -- `some (a, rew)` = record, `none` = reset
    (hwf : ∀ x ∈ h, ∀ ar, x = some ar → ar.1 < A) (a0 : Nat) (ha0 : a0 < A) :
    let kops : List (KOp Nat) := h.map (fun x => match x with | some ar => .record ar.1 0 ar.2 | none => .reset)
    let wd := (World.init A 1 (fun _ => 0)).run cfg (kops.map (KOp.toOp id))
    let recs := recsOf (fun (a : Nat) => a) a0 kops []
    wd.ts = tsOf (kops.map (KOp.toOp id)) ∧
    ∃ p, wd.pairs[a0]? = some p ∧ p.cell.n = recs.length ∧ p.cell.mean = meanOf recs ∧ p.cell.m2 = sqDevOf recs := by
  intro kops wd recs
  have hk : ∀ op ∈ kops, op.WF id (fun a => a < A) 1 := by
    intro op hop
    obtain ⟨x, hx, rfl⟩ := List.mem_map.mp hop
    cases x with
    | none => trivial
    | some ar => exact ⟨hwf _ hx ar rfl, Nat.zero_lt_one⟩
  obtain ⟨p, hp, he⟩ := keyed_pair_expOK id (fun (a : Nat) => a) (fun a => a < A) A 1 (fun _ => 0) cfg
    (fun _ _ _ _ => Iff.rfl) (fun _ h => h) kops hk a0 ha0
  obtain ⟨h1, h2, h3, _⟩ := he.spec
  exact ⟨by rw [world_ts]; rfl, p, hp, h1, h2, h3⟩

/-- hypotheses satisfiable -/
example : ∀ x ∈ [some (2, (1 : Rat)), none, some (0, 3), some (2, -1)], ∀ ar, x = some ar → ar.1 < 3 := by
  intro x hx ar h; subst h
  simp only [List.mem_cons, List.mem_nil_iff, or_false, Option.some.injEq, reduceCtorEq, false_or] at hx
  rcases hx with rfl | rfl | rfl <;> decide

/-- hypotheses satisfiable: A = (2,3,2), basis tag {0,2} (non-prefix), records that agree / differ on the tag; and the two records
    that agree on the tag share an entry (test) -/
example : (∀ k ∈ [0, 2], k < [2, 3, 2].length) ∧ Valid [2, 3, 2] [1, 2, 1] ∧ Valid [2, 3, 2] [1, 0, 1] ∧
    fbIdx [2, 3, 2] [0, 2] [1, 2, 1] = fbIdx [2, 3, 2] [0, 2] [1, 0, 1] ∧
    fbIdx [2, 3, 2] [0, 2] [1, 2, 1] ≠ fbIdx [2, 3, 2] [0, 2] [1, 2, 0] :=
  ⟨by decide, by simp [Valid], by simp [Valid], by decide, by decide⟩

end AITB.Exp
