/-
  AITB.Props.C11Setters2 — the off-policy trace learners as a CLIENT sees them (round 3): QL, RetraceL, TreeBackupL and their
  Evaluation variants, every public call of `OffPolicyBase` / `OffPolicyControl` / the derived class, any arguments.

  Same construction as `C11Setters` (SARSA(λ)), generic in the class: the step function and the five re-extracted guards
  (`OffPolicyBase_setDiscount|setLearningRate|setTolerance_rejects`, `<Class>_setLambda_rejects`, `OffPolicyControl_setEpsilon_rejects`)
  are parameters, and the theorems are instantiated for the six λ-classes.
    `tl_invariant`, `tl_after_step` — after ANY step of ANY history of public calls every eligibility is in [current cut-off, 1],
    no pair twice (behaviour probability of the actions taken > 0, accepted cut-offs ≤ 1);
    `control_client_after_step`, `eval_client_after_step` — the instances.
-/
import AITB.Props.C11Setters

namespace AITB.Learn
open AITB.Gen.C11

/-- the object: parameters, trace list, table, the list the client holds -/
structure TL where
  γ : Rat
  α : Rat
  lam : Rat
  tol : Rat
  ε : Rat
  tr : List Tr
  q : QF
  kept : List Tr

/-- the guards of one class (re-extracted definitions) with what an accepted value satisfies -/
structure TGuards where
  rejD : Rat → Bool
  rejA : Rat → Bool
  rejL : Rat → Bool
  rejT : Rat → Bool
  rejE : Rat → Bool
  accD : ∀ x, rejD x = false → 0 < x ∧ x ≤ 1
  accL : ∀ x, rejL x = false → 0 ≤ x ∧ x ≤ 1
  accE : ∀ x, rejE x = false → 0 ≤ x ∧ x ≤ 1

inductive TLOp where
  | step (e : TEv)
  | clear
  | keep
  | restore
  | setDiscount (x : Rat)
  | setLambda (x : Rat)
  | setLearningRate (x : Rat)
  | setTolerance (x : Rat)
  | setEpsilon (x : Rat)

def tlApply (G : TGuards) (stepF : TL → TEv → List Tr × QF) (c : TL) : TLOp → TL
  | .step e => let r := stepF c e; { c with tr := r.1, q := r.2 }
  | .clear => { c with tr := [] }
  | .keep => { c with kept := c.tr }
  | .restore => { c with tr := c.kept }
  | .setDiscount x => if G.rejD x then c else { c with γ := x }
  | .setLambda x => if G.rejL x then c else { c with lam := x }
  | .setLearningRate x => if G.rejA x then c else { c with α := x }
  | .setTolerance x => if G.rejT x then c else { c with tol := x }
  | .setEpsilon x => if G.rejE x then c else { c with ε := x }

def tlRun (G : TGuards) (stepF : TL → TEv → List Tr × QF) (ops : List TLOp) (c : TL) : TL := ops.foldl (tlApply G stepF) c

/-- hypotheses on the client: an ACCEPTED cut-off is ≤ 1 (vacuous once the guard exists); the steps satisfy `okE`
    (behaviour probability of the action taken is positive) -/
def TLOp.ok (G : TGuards) (okE : TEv → Prop) : TLOp → Prop
  | .setTolerance x => G.rejT x = false → x ≤ 1
  | .step e => okE e
  | _ => True

structure TLInv (c : TL) : Prop where
  γr : 0 ≤ c.γ ∧ c.γ ≤ 1
  lr : 0 ≤ c.lam ∧ c.lam ≤ 1
  εr : 0 ≤ c.ε ∧ c.ε ≤ 1
  tr1 : c.tol ≤ 1
  trw : TrW c.tr
  kw : TrW c.kept

theorem tlApply_inv (G : TGuards) (stepF : TL → TEv → List Tr × QF) (okE : TEv → Prop)
    (hstep : ∀ c e, TLInv c → okE e → TrOK c.tol (stepF c e).1)
    (c : TL) (op : TLOp) (hop : op.ok G okE) (h : TLInv c) : TLInv (tlApply G stepF c op) := by
  cases op with
  | step e => exact { h with trw := (hstep c e h hop).weak }
  | clear => exact { h with trw := TrW_nil }
  | keep => exact { h with kw := h.trw }
  | restore => exact { h with trw := h.kw }
  | setDiscount x =>
    show TLInv (if G.rejD x then c else { c with γ := x })
    by_cases hr : G.rejD x = true
    · rw [if_pos hr]; exact h
    · rw [if_neg hr]
      have := G.accD x (by simpa using hr)
      exact { h with γr := ⟨le_of_lt this.1, this.2⟩ }
  | setLambda x =>
    show TLInv (if G.rejL x then c else { c with lam := x })
    by_cases hr : G.rejL x = true
    · rw [if_pos hr]; exact h
    · rw [if_neg hr]; exact { h with lr := G.accL x (by simpa using hr) }
  | setLearningRate x =>
    show TLInv (if G.rejA x then c else { c with α := x })
    by_cases hr : G.rejA x = true
    · rw [if_pos hr]; exact h
    · rw [if_neg hr]; exact { h with }
  | setTolerance x =>
    show TLInv (if G.rejT x then c else { c with tol := x })
    by_cases hr : G.rejT x = true
    · rw [if_pos hr]; exact h
    · rw [if_neg hr]; exact { h with tr1 := hop (by simpa using hr) }
  | setEpsilon x =>
    show TLInv (if G.rejE x then c else { c with ε := x })
    by_cases hr : G.rejE x = true
    · rw [if_pos hr]; exact h
    · rw [if_neg hr]; exact { h with εr := G.accE x (by simpa using hr) }

theorem tl_invariant (G : TGuards) (stepF : TL → TEv → List Tr × QF) (okE : TEv → Prop)
    (hstep : ∀ c e, TLInv c → okE e → TrOK c.tol (stepF c e).1)
    (ops : List TLOp) (hops : ∀ op ∈ ops, op.ok G okE) (c : TL) (h : TLInv c) : TLInv (tlRun G stepF ops c) := by
  unfold tlRun
  induction ops generalizing c with
  | nil => exact h
  | cons op ops ih =>
    simp only [List.foldl_cons]
    exact ih (fun o ho => hops o (List.mem_cons_of_mem _ ho)) _
      (tlApply_inv G stepF okE hstep c op (hops op List.mem_cons_self) h)

/-- generic: after any history of public calls followed by a step, the trace list is well formed for the CURRENT cut-off -/
theorem tl_after_step (G : TGuards) (stepF : TL → TEv → List Tr × QF) (okE : TEv → Prop)
    (hstep : ∀ c e, TLInv c → okE e → TrOK c.tol (stepF c e).1)
    (c0 : TL) (h0 : TLInv c0) (ops : List TLOp) (hops : ∀ op ∈ ops, op.ok G okE) (e : TEv) (he : okE e) :
    let c := tlRun G stepF (ops ++ [.step e]) c0
    TrOK c.tol c.tr := by
  intro c
  have h := tl_invariant G stepF okE hstep ops hops c0 h0
  have hc : c = tlApply G stepF (tlRun G stepF ops c0) (.step e) := by
    show tlRun G stepF (ops ++ [.step e]) _ = _
    unfold tlRun; rw [List.foldl_append]; rfl
  rw [hc]
  exact hstep _ e h he

/-! ### instances -/

def controlGuards (rejL : Rat → Bool) (accL : ∀ x, rejL x = false → 0 ≤ x ∧ x ≤ 1) : TGuards where
  rejD := OffPolicyBase_setDiscount_rejects
  rejA := OffPolicyBase_setLearningRate_rejects
  rejL := rejL
  rejT := OffPolicyBase_setTolerance_rejects
  rejE := OffPolicyControl_setEpsilon_rejects
  accD := Guards.OffPolicyBase_setDiscount_accepts
  accL := accL
  accE := Guards.OffPolicyControl_setEpsilon_accepts

def guardsQL : TGuards := controlGuards QL_setLambda_rejects Guards.QL_setLambda_accepts
def guardsRetraceL : TGuards := controlGuards RetraceL_setLambda_rejects Guards.RetraceL_setLambda_accepts
def guardsTreeBackupL : TGuards := controlGuards TreeBackupL_setLambda_rejects Guards.TreeBackupL_setLambda_accepts
def guardsQLEvaluation : TGuards := controlGuards QLEvaluation_setLambda_rejects Guards.QLEvaluation_setLambda_accepts
def guardsRetraceLEvaluation : TGuards := controlGuards RetraceLEvaluation_setLambda_rejects Guards.RetraceLEvaluation_setLambda_accepts
def guardsTreeBackupLEvaluation : TGuards := controlGuards TreeBackupLEvaluation_setLambda_rejects Guards.TreeBackupLEvaluation_setLambda_accepts

def controlStepTL (k : Kind) (A : Nat) (πb : Nat → Nat → Rat) : TL → TEv → List Tr × QF :=
  fun c e => controlStep k c.γ c.α c.lam c.tol c.ε A πb c.tr c.q e.s e.a e.s1 e.r
def evalStepTL (k : Kind) (A : Nat) (πt πb : Nat → Nat → Rat) : TL → TEv → List Tr × QF :=
  fun c e => evalStep k c.γ c.α c.lam c.tol A πt πb c.tr c.q e.s e.a e.s1 e.r

theorem controlStepTL_ok (k : Kind) (hk : k ≠ .is) (A : Nat) (hA : 0 < A) (πb : Nat → Nat → Rat)
    (c : TL) (e : TEv) (h : TLInv c) (hπb : 0 < πb e.s e.a) : TrOK c.tol (controlStepTL k A πb c e).1 := by
  have hp := probGreedy_unit c.ε A e.a (argmaxA A (c.q e.s1)) hA h.εr.1 h.εr.2
  have hc := cEval_unit k hk c.lam _ (πb e.s e.a) h.lr.1 h.lr.2 hp.1 hp.2 hπb
  have hu := mul_unit h.γr.1 h.γr.2 hc.1 hc.2
  exact updateTraces_ok_weak _ _ _ _ _ _ _ hu.1 hu.2 h.tr1 h.trw

theorem evalStepTL_ok (k : Kind) (hk : k ≠ .is) (A : Nat) (πt πb : Nat → Nat → Rat)
    (hπt : ∀ s a, 0 ≤ πt s a ∧ πt s a ≤ 1)
    (c : TL) (e : TEv) (h : TLInv c) (hπb : 0 < πb e.s e.a) : TrOK c.tol (evalStepTL k A πt πb c e).1 := by
  have hc := cEval_unit k hk c.lam (πt e.s e.a) (πb e.s e.a) h.lr.1 h.lr.2 (hπt e.s e.a).1 (hπt e.s e.a).2 hπb
  have hu := mul_unit h.γr.1 h.γr.2 hc.1 hc.2
  exact updateTraces_ok_weak _ _ _ _ _ _ _ hu.1 hu.2 h.tr1 h.trw

/-- the state right after a constructor that accepted its arguments -/
def TL.init (γ α lam tol ε : Rat) (q0 : QF) : TL := ⟨γ, α, lam, tol, ε, [], q0, []⟩

theorem tl_init_inv (γ α lam tol ε : Rat) (q0 : QF) (hγ : 0 ≤ γ ∧ γ ≤ 1) (hl : 0 ≤ lam ∧ lam ≤ 1) (hε : 0 ≤ ε ∧ ε ≤ 1)
    (htol : tol ≤ 1) : TLInv (TL.init γ α lam tol ε q0) := ⟨hγ, hl, hε, htol, TrW_nil, TrW_nil⟩

/-- **clause 4, client's view, off-policy CONTROL (QL / RetraceL / TreeBackupL)**: `G` is the class's guard record
    (`guardsQL`, `guardsRetraceL`, `guardsTreeBackupL`); any history of public calls with any arguments, then a step -/
theorem control_client_after_step (G : TGuards) (k : Kind) (hk : k ≠ .is) (A : Nat) (hA : 0 < A) (πb : Nat → Nat → Rat)
    (γ α lam tol ε : Rat) (q0 : QF) (hγ : 0 ≤ γ ∧ γ ≤ 1) (hl : 0 ≤ lam ∧ lam ≤ 1) (hε : 0 ≤ ε ∧ ε ≤ 1) (htol : tol ≤ 1)
    (ops : List TLOp) (hops : ∀ op ∈ ops, op.ok G (fun e => 0 < πb e.s e.a)) (e : TEv) (he : 0 < πb e.s e.a) :
    let c := tlRun G (controlStepTL k A πb) (ops ++ [.step e]) (TL.init γ α lam tol ε q0)
    TrOK c.tol c.tr :=
  tl_after_step G _ (fun e => 0 < πb e.s e.a) (fun c e h he => controlStepTL_ok k hk A hA πb c e h he)
    _ (tl_init_inv γ α lam tol ε q0 hγ hl hε htol) ops hops e he

/-- **clause 4, client's view, off-policy EVALUATION (QLEvaluation / RetraceLEvaluation / TreeBackupLEvaluation)** -/
theorem eval_client_after_step (G : TGuards) (k : Kind) (hk : k ≠ .is) (A : Nat) (πt πb : Nat → Nat → Rat)
    (hπt : ∀ s a, 0 ≤ πt s a ∧ πt s a ≤ 1)
    (γ α lam tol : Rat) (q0 : QF) (hγ : 0 ≤ γ ∧ γ ≤ 1) (hl : 0 ≤ lam ∧ lam ≤ 1) (htol : tol ≤ 1)
    (ops : List TLOp) (hops : ∀ op ∈ ops, op.ok G (fun e => 0 < πb e.s e.a)) (e : TEv) (he : 0 < πb e.s e.a) :
    let c := tlRun G (evalStepTL k A πt πb) (ops ++ [.step e]) (TL.init γ α lam tol 0 q0)
    TrOK c.tol c.tr :=
  tl_after_step G _ (fun e => 0 < πb e.s e.a) (fun c e h he => evalStepTL_ok k hk A πt πb hπt c e h he)
    _ (tl_init_inv γ α lam tol 0 q0 hγ hl ⟨le_refl _, zero_le_one⟩ htol) ops hops e he

/-- hypotheses satisfiable, and the calls act: RetraceL, two steps, `setLambda(2)` is rejected, `setDiscount(1/4)` accepted,
    third step decays by 1/2 · 1/4 · min(1, …) (test by evaluation) -/
example : ((tlRun guardsRetraceL (controlStepTL .retrace 2 (fun _ _ => 1/2))
      [.step ⟨0, 0, 1, 0, 1⟩, .setLambda 2, .setDiscount (1/4), .step ⟨1, 0, 0, 0, 0⟩]
      (TL.init (1/2) 1 (1/2) (1/64) 0 (fun _ _ => 0))).lam, (tlRun guardsRetraceL (controlStepTL .retrace 2 (fun _ _ => 1/2))
      [.step ⟨0, 0, 1, 0, 1⟩, .setLambda 2, .setDiscount (1/4), .step ⟨1, 0, 0, 0, 0⟩]
      (TL.init (1/2) 1 (1/2) (1/64) 0 (fun _ _ => 0))).tr.map (fun t => (t.s, t.a, t.el))) = (1/2, [(0, 0, 1/8), (1, 0, 1)]) := by
  decide +kernel

end AITB.Learn
