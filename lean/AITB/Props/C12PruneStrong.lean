/-
  AITB.Props.C12PruneStrong — what remains of the antichain property of `extractDominated` when the
  domination test carries tolerances (and is therefore not transitive), and the documented ranges of
  `extractDominatedIncremental`.

  * `extractDominated_no_strong`            generic: no kept entry is *strongly* dominated by another kept one,
                                            where a strong domination absorbs a whole chain of tests
  * `extractDominated_no_strong_dominates`  the same for the library's `dominates`: no kept vector exceeds another
                                            kept one by `length · linkSlack M` on every coordinate
  * `incremental_ranges`                    old entries stay in the old ranges, new entries in the new ranges
-/
import AITB.Props.C12Spec
import Mathlib.Algebra.Order.Field.Rat
import Mathlib.Tactic.Linarith

namespace AITB.Prune

variable {α : Type}

/-! ## 3. ranges of the incremental version -/

section ranges
variable (dom : α → α → Bool)

/-- the two old ranges only exchange entries with each other -/
theorem ediLoop_perm_old : ∀ (rc og ob ng nb : List α),
    ((ediLoop dom rc og ob ng nb).1 ++ (ediLoop dom rc og ob ng nb).2.1).Perm (og ++ ob)
  | [], og, ob, ng, nb => by simp [ediLoop]
  | t :: rc, og, ob, ng, nb => by
    cases h : ediScan dom t og.reverse [] ob false with
    | none =>
      rw [ediLoop_cons_none dom h]
      exact ediLoop_perm_old rc og ob (rotRight ng) (t :: nb)
    | some r =>
      rw [ediLoop_cons_some dom h]
      refine (ediLoop_perm_old rc r.1 r.2 (t :: ng) nb).trans ?_
      refine (ediScan_perm dom t _ _ _ _ r h).trans ?_
      perm_ac

/-- the new ranges (to check, good, bad) only exchange entries with each other -/
theorem ediLoop_perm_new : ∀ (rc og ob ng nb : List α),
    ((ediLoop dom rc og ob ng nb).2.2.1 ++ (ediLoop dom rc og ob ng nb).2.2.2).Perm (rc ++ ng ++ nb)
  | [], og, ob, ng, nb => by simp [ediLoop]
  | t :: rc, og, ob, ng, nb => by
    cases h : ediScan dom t og.reverse [] ob false with
    | none =>
      rw [ediLoop_cons_none dom h]
      refine (ediLoop_perm_new rc og ob (rotRight ng) (t :: nb)).trans ?_
      perm_ac
    | some r =>
      rw [ediLoop_cons_some dom h]
      refine (ediLoop_perm_new rc r.1 r.2 (t :: ng) nb).trans ?_
      perm_ac

/-- **documented ranges**: "old good ++ old bad" is a permutation of `old`, and
    "new good ++ new bad ++ new bad (first step)" is a permutation of `new` -/
theorem incremental_ranges (old new : List α) :
    ((extractDominatedIncremental dom old new).oldGood ++ (extractDominatedIncremental dom old new).oldBad).Perm old ∧
    ((extractDominatedIncremental dom old new).newGood ++ (extractDominatedIncremental dom old new).newBad
      ++ (extractDominatedIncremental dom old new).newBad0).Perm new := by
  have h0 := extractDominated_perm dom new
  have h1 := ediLoop_perm_old dom (extractDominated dom new).1.reverse old [] [] []
  have h2 := ediLoop_perm_new dom (extractDominated dom new).1.reverse old [] [] []
  simp only [extractDominatedIncremental]
  generalize extractDominated dom new = r0 at h0 h1 h2 ⊢
  generalize ediLoop dom r0.1.reverse old [] [] [] = r at h1 h2 ⊢
  have s1 := ediShuffle_perm1 r.2.1 r.2.2.1
  have s2 := ediShuffle_perm2 r.2.1 r.2.2.1
  generalize ediShuffle r.2.1 r.2.2.1 = s at s1 s2 ⊢
  constructor
  · refine (s2.append_left r.1).trans (h1.trans ?_)
    simp
  · refine ((s1.append_right r.2.2.2).append_right r0.2).trans ((h2.append_right r0.2).trans ?_)
    refine List.Perm.trans ?_ h0
    perm_ac

end ranges

/-- test: the ranges on a literal input (exact order on integers) -/
example : let o := extractDominatedIncremental (fun a b : Int => decide (b ≤ a)) [3, 1, 4] [1, 5, 2]
    (o.oldGood ++ o.oldBad).Perm [3, 1, 4] ∧ (o.newGood ++ o.newBad ++ o.newBad0).Perm [1, 5, 2] :=
  incremental_ranges _ _ _

/-! ## 1. no kept entry is strongly dominated by another kept one -/

section strong
variable (dom : α → α → Bool)

/-- `b` is `c` or reaches `c` through a chain of at most `m` links -/
def Reach (m : Nat) (b c : α) : Prop := b = c ∨ ∃ k, k ≤ m ∧ Chain dom k b c

/-- `u` failed the test against an earlier target `t` from which the current target `tv` descends -/
def Blocked (m : Nat) (u tv : α) : Prop := ∃ t, dom u t = false ∧ Reach dom m tv t

variable {dom}

theorem Reach.mono {m m' : Nat} (h : m ≤ m') {b c : α} (hr : Reach dom m b c) : Reach dom m' b c := by
  rcases hr with rfl | ⟨k, hk, hc⟩
  · exact Or.inl rfl
  · exact Or.inr ⟨k, Nat.le_trans hk h, hc⟩

theorem Reach.step {m : Nat} {x tv t : α} (hd : dom x tv = true) (hr : Reach dom m tv t) :
    Reach dom (m+1) x t := by
  rcases hr with rfl | ⟨k, hk, hc⟩
  · exact Or.inr ⟨1, by omega, Chain.one hd⟩
  · exact Or.inr ⟨k+1, by omega, Chain.cons hd hc⟩

theorem Blocked.mono {m m' : Nat} (h : m ≤ m') {u tv : α} (hb : Blocked dom m u tv) : Blocked dom m' u tv := by
  obtain ⟨t, h1, h2⟩ := hb
  exact ⟨t, h1, h2.mono h⟩

theorem Blocked.step {m : Nat} {u x tv : α} (hd : dom x tv = true) (hb : Blocked dom m u tv) :
    Blocked dom (m+1) u x := by
  obtain ⟨t, h1, h2⟩ := hb
  exact ⟨t, h1, h2.step hd⟩

theorem Blocked.self {m : Nat} {x tv : α} (hd : dom x tv = false) : Blocked dom m x tv :=
  ⟨tv, hd, Or.inl rfl⟩

variable (dom)

/-- scan invariant: every kept entry and every visited live entry is blocked from the current target; the
    chain from the current target back to the target it was tested against has at most as many links as
    there were target replacements.  `Q` is any property of the live entries. -/
theorem edScan_blocked (G : List α) (Q : α → Prop) : ∀ (rp A : List α) (tv : α) (B rem : List α) (m : Nat),
    (∀ u, u ∈ G ∨ u ∈ A ∨ u ∈ B → Blocked dom m u tv) →
    (∀ y, y ∈ rp ∨ y ∈ A ∨ y = tv ∨ y ∈ B → Q y) →
    (∀ u, u ∈ G ∨ u ∈ (edScan dom rp A tv B rem).1 ∨ u ∈ (edScan dom rp A tv B rem).2.2.1 →
        Blocked dom (m + rp.length) u (edScan dom rp A tv B rem).2.1) ∧
    (∀ y, y ∈ (edScan dom rp A tv B rem).1 ∨ y = (edScan dom rp A tv B rem).2.1 ∨
        y ∈ (edScan dom rp A tv B rem).2.2.1 → Q y)
  | [], A, tv, B, rem, m, hI, hQ => by
    simp only [edScan, List.length_nil, Nat.add_zero]
    exact ⟨hI, fun y hy => hQ y (Or.inr hy)⟩
  | x :: rp, A, tv, B, rem, m, hI, hQ => by
    have e : m + (x :: rp).length = m + 1 + rp.length := by simp only [List.length_cons]; omega
    rw [e]
    cases h : dom x tv with
    | true =>
      rw [edScan_cons_pos dom h]
      refine edScan_blocked G Q rp [] x (rotLast A B) (tv :: rem) (m+1) ?_ ?_
      · intro u hu
        simp only [List.not_mem_nil, false_or, mem_rotLast] at hu
        exact (hI u hu).step h
      · intro y hy
        simp only [List.not_mem_nil, false_or, mem_rotLast] at hy
        apply hQ
        simp only [List.mem_cons]
        tauto
    | false =>
      rw [edScan_cons_neg dom h]
      have hI' : ∀ u, u ∈ G ∨ u ∈ x :: A ∨ u ∈ B → Blocked dom m u tv := by
        intro u hu
        simp only [List.mem_cons] at hu
        rcases hu with hu | (rfl | hu) | hu
        · exact hI u (Or.inl hu)
        · exact Blocked.self h
        · exact hI u (Or.inr (Or.inl hu))
        · exact hI u (Or.inr (Or.inr hu))
      have hQ' : ∀ y, y ∈ rp ∨ y ∈ x :: A ∨ y = tv ∨ y ∈ B → Q y := by
        intro y hy
        apply hQ
        simp only [List.mem_cons] at hy ⊢
        tauto
      obtain ⟨i1, i2⟩ := edScan_blocked G Q rp (x :: A) tv B rem m hI' hQ'
      exact ⟨fun u hu => (i1 u hu).mono (by omega), i2⟩

theorem edLoop_no_strong (sd : α → α → Prop) (N : Nat)
    (hH : ∀ a b c, sd a b → Reach dom N b c → dom a c = true) :
    ∀ (n : Nat) (good U rem : List α), U.length ≤ n → n ≤ N + 1 →
    good.Pairwise (fun a b => ¬ sd a b ∧ ¬ sd b a) →
    (∀ u ∈ U, ∀ g ∈ good, ¬ sd u g) →
    (edLoop dom n good U rem).1.Pairwise (fun a b => ¬ sd a b ∧ ¬ sd b a)
  | 0, good, U, rem, hn, _, hA, _ => by
    have : U = [] := List.length_eq_zero_iff.mp (Nat.le_zero.mp hn)
    subst this
    simpa [edLoop] using hA
  | n+1, good, U, rem, hn, hN, hA, hB => by
    cases h : U.getLast? with
    | none => rw [edLoop_succ_none dom h]; exact hA
    | some t =>
      have hU := eq_dropLast_append_of_getLast? h
      have hlen : U.dropLast.length + 1 = U.length := by
        conv => rhs; rw [hU]
        simp
      have hmem : ∀ y, y ∈ U.dropLast ∨ y = t → y ∈ U := by
        intro y hy
        rw [hU]
        simp only [List.mem_append, List.mem_cons, List.not_mem_nil, or_false]
        exact hy
      cases hd : good.any (fun g => dom g t) with
      | true =>
        rw [edLoop_succ_dom dom h n good rem hd]
        exact edLoop_no_strong sd N hH n good U.dropLast (t :: rem) (by omega) (by omega) hA
          (fun u hu => hB u (hmem u (Or.inl hu)))
      | false =>
        rw [edLoop_succ_scan dom h n good rem hd]
        have hG : ∀ g ∈ good, dom g t = false := by
          intro g hg
          cases hgt : dom g t with
          | false => rfl
          | true =>
            have : good.any (fun g => dom g t) = true := List.any_eq_true.mpr ⟨g, hg, hgt⟩
            rw [hd] at this; exact absurd this (by simp)
        obtain ⟨i1, i2⟩ := edScan_blocked dom good (fun y => ∀ g ∈ good, ¬ sd y g)
          U.dropLast.reverse [] t [] rem 0
          (by
            intro u hu
            simp only [List.not_mem_nil, or_false] at hu
            exact Blocked.self (hG u hu))
          (by
            intro y hy
            simp only [List.mem_reverse, List.not_mem_nil, false_or, or_false] at hy
            exact hB y (hmem y hy))
        have hl := edScan_length dom U.dropLast.reverse [] t [] rem
        -- blocked entries do not strongly dominate the final target
        have i1' : ∀ u, u ∈ good ∨ u ∈ (edScan dom U.dropLast.reverse [] t [] rem).1 ∨
            u ∈ (edScan dom U.dropLast.reverse [] t [] rem).2.2.1 →
            ¬ sd u (edScan dom U.dropLast.reverse [] t [] rem).2.1 := by
          intro u hu hs
          obtain ⟨t', h1, h2⟩ := i1 u hu
          have h3 : Reach dom N (edScan dom U.dropLast.reverse [] t [] rem).2.1 t' :=
            h2.mono (by simp only [List.length_reverse]; omega)
          rw [hH u _ t' hs h3] at h1
          exact absurd h1 (by simp)
        clear i1
        generalize edScan dom U.dropLast.reverse [] t [] rem = r at i1' i2 hl ⊢
        refine edLoop_no_strong sd N hH n _ _ _ ?_ (by omega) ?_ ?_
        · rw [(afterPlace_perm r.1 r.2.2.1).length_eq]
          simp only [List.length_append, List.length_reverse, List.length_nil] at hl ⊢
          omega
        · rw [List.pairwise_append]
          refine ⟨hA, List.pairwise_singleton _ _, ?_⟩
          intro a ha b hb
          rw [List.mem_singleton] at hb
          subst hb
          exact ⟨i1' a (Or.inl ha), i2 _ (Or.inr (Or.inl rfl)) a ha⟩
        · intro u hu g hg
          rw [mem_afterPlace] at hu
          rcases List.mem_append.mp hg with hg | hg
          · exact i2 u (by tauto) g hg
          · rw [List.mem_singleton] at hg
            subst hg
            exact i1' u (Or.inr hu)

/-- **tolerance version of the antichain theorem**: if `sd a b` ("`a` strongly dominates `b`") implies the test
    `dom a b` and absorbs every chain of fewer than `xs.length` tests starting at `b`, then no kept entry
    strongly dominates another kept entry. -/
theorem extractDominated_no_strong (sd : α → α → Prop)
    (h0 : ∀ a b, sd a b → dom a b = true) (xs : List α)
    (h1 : ∀ a b c k, k < xs.length → sd a b → Chain dom k b c → dom a c = true) :
    (extractDominated dom xs).1.Pairwise (fun a b => ¬ sd a b ∧ ¬ sd b a) := by
  unfold extractDominated
  split
  · rename_i h
    match xs, h with
    | [], _ => exact List.Pairwise.nil
    | [a], _ => exact List.pairwise_singleton _ _
    | _ :: _ :: _, h => exact absurd h (by simp)
  · rename_i hlen
    refine edLoop_no_strong dom sd (xs.length - 1) ?_ xs.length [] xs [] (Nat.le_refl _) (by omega)
      List.Pairwise.nil (by intro u _ g hg; simp at hg)
    intro a b c hs hr
    rcases hr with rfl | ⟨k, hk, hc⟩
    · exact h0 a b hs
    · exact h1 a b c k (by omega) hs hc

/-- unbounded form (`h1` for chains of any length) -/
theorem extractDominated_no_strong' (sd : α → α → Prop)
    (h0 : ∀ a b, sd a b → dom a b = true)
    (h1 : ∀ a b c k, sd a b → Chain dom k b c → dom a c = true) (xs : List α) :
    (extractDominated dom xs).1.Pairwise (fun a b => ¬ sd a b ∧ ¬ sd b a) :=
  extractDominated_no_strong dom sd h0 xs (fun a b c k _ => h1 a b c k)

end strong

/-- test (generic theorem, tolerant test on integers): `dom a b := b ≤ a + 1`, strong domination `b + 6 ≤ a`
    absorbs chains of at most 5 links; on the list of `C12Prune` the maximum `5` is removed -/
example : (extractDominated (fun a b : Int => decide (b ≤ a + 1)) [3, 1, 4, 1, 5, 2]).1.Pairwise
    (fun a b => ¬ (b + 6 ≤ a) ∧ ¬ (a + 6 ≤ b)) := by
  refine extractDominated_no_strong (fun a b : Int => decide (b ≤ a + 1)) (fun a b => b + 6 ≤ a)
    (by intro a b h; simp only [decide_eq_true_eq]; omega) [3, 1, 4, 1, 5, 2] ?_
  intro a b c k hk hs hc
  have key : ∀ {k : Nat} {b c : Int}, Chain (fun a b : Int => decide (b ≤ a + 1)) k b c → c ≤ b + k := by
    intro k b c hc
    induction hc with
    | one h => simp only [decide_eq_true_eq] at h; push_cast; omega
    | cons h _ ih => simp only [decide_eq_true_eq] at h; push_cast; omega
  have := key hc
  simp only [List.length_cons, List.length_nil] at hk
  simp only [decide_eq_true_eq]
  omega

/-! ## 2. the library's test -/

open AITB.C12Check

/-- `a ≥ b + len · linkSlack M` on every coordinate.  (`n`, the dimension, is kept in the signature for the
    test driver; the zip-truncating test does not need it.) -/
@[nolint unusedArguments]
def strongDom (_n : Nat) (M : Rat) (len : Nat) (a b : Vec) : Prop :=
  domAbs (-((len : Rat) * linkSlack M)) a b = true

instance (n : Nat) (M : Rat) (len : Nat) (a b : Vec) : Decidable (strongDom n M len a b) := by
  unfold strongDom; infer_instance

/-- slacks add up along two tests (the middle vector must not be shorter than the outer ones) -/
theorem domAbs_add (e1 e2 : Rat) : ∀ (a b c : Vec), a.length = b.length → b.length = c.length →
    domAbs e1 a b = true → domAbs e2 b c = true → domAbs (e1 + e2) a c = true
  | [], _, _, _, _, _, _ => by simp [domAbs]
  | _ :: _, [], _, hab, _, _, _ => by simp at hab
  | _ :: _, _ :: _, [], _, hbc, _, _ => by simp at hbc
  | x :: a, y :: b, z :: c, hab, hbc, h1, h2 => by
    simp only [domAbs, Bool.and_eq_true, decide_eq_true_eq] at h1 h2 ⊢
    exact ⟨by linarith [h1.1, h2.1],
      domAbs_add e1 e2 a b c (by simpa using hab) (by simpa using hbc) h1.2 h2.2⟩

/-- the absolute clause with a slack not above `equalToleranceSmall` implies the library's test -/
theorem dominates_of_domAbs (e : Rat) (he : e ≤ Gen.equalToleranceSmall) (a b : Vec)
    (h : domAbs e a b = true) : dominates a b = true := by
  unfold dominates dominatesT
  rw [domAbs_mono e _ he a b h]
  rfl

/-- a chain of `k` tests between members of `xs` costs at most `k · linkSlack M` on every coordinate -/
theorem chain_domAbs (n : Nat) (M : Rat) (xs : List Vec)
    (hlen : ∀ v ∈ xs, v.length = n) (hM : ∀ v ∈ xs, ∀ x ∈ v, absQ x ≤ M) :
    ∀ {k : Nat} {b c : Vec}, Chain (restrict dominates xs) k b c →
      domAbs ((k : Rat) * linkSlack M) b c = true ∧ b ∈ xs ∧ c ∈ xs := by
  have link : ∀ b c, restrict dominates xs b c = true →
      domAbs (linkSlack M) b c = true ∧ b ∈ xs ∧ c ∈ xs := by
    intro b c h
    obtain ⟨h1, h2, h3⟩ := restrict_true h
    exact ⟨dominatesT_domAbs' _ _ M tolSmall_nonneg tolGeneral_nonneg b c (hM b h2) h1, h2, h3⟩
  intro k b c hc
  induction hc with
  | one h =>
    obtain ⟨h1, h2, h3⟩ := link _ _ h
    exact ⟨by simpa using h1, h2, h3⟩
  | @cons j _ _ _ h _ ih =>
    obtain ⟨h1, h2, h3⟩ := link _ _ h
    obtain ⟨h4, h5, h6⟩ := ih
    refine ⟨?_, h2, h6⟩
    have := domAbs_add _ _ _ _ _ (by rw [hlen _ h2, hlen _ h3]) (by rw [hlen _ h5, hlen _ h6]) h1 h4
    have e : ((j + 1 : Nat) : Rat) * linkSlack M = linkSlack M + (j : Rat) * linkSlack M := by
      push_cast; ring
    rw [e]
    exact this

/-- **kept_vector_dominated**: with the library's tolerant test, no kept vector exceeds another kept vector by
    `xs.length · linkSlack M` on every coordinate (the slack is exactly the one of `extractDominated_spec`). -/
theorem extractDominated_no_strong_dominates (n : Nat) (M : Rat) (xs : List Vec)
    (hlen : ∀ v ∈ xs, v.length = n) (hM : ∀ v ∈ xs, ∀ x ∈ v, absQ x ≤ M) :
    (extractDominated dominates xs).1.Pairwise
      (fun a b => ¬ strongDom n M xs.length a b ∧ ¬ strongDom n M xs.length b a) := by
  have hagree := restrict_agree dominates xs
  have hmem : ∀ y ∈ (extractDominated dominates xs).1, y ∈ xs := fun y hy =>
    (extractDominated_perm dominates xs).mem_iff.mp (List.mem_append_left _ hy)
  have hδ := linkSlack_nonneg M
  have hneg : -((xs.length : Rat) * linkSlack M) ≤ Gen.equalToleranceSmall := by
    have : 0 ≤ (xs.length : Rat) * linkSlack M := mul_nonneg (Nat.cast_nonneg _) hδ
    linarith [tolSmall_nonneg]
  have key := extractDominated_no_strong (restrict dominates xs)
    (fun a b => strongDom n M xs.length a b ∧ a ∈ xs ∧ b ∈ xs)
    (by
      rintro a b ⟨hs, ha, hb⟩
      rw [← hagree a ha b hb]
      exact dominates_of_domAbs _ hneg a b hs)
    xs
    (by
      rintro a b c k hk ⟨hs, ha, hb⟩ hc
      obtain ⟨h1, _, h3⟩ := chain_domAbs n M xs hlen hM hc
      rw [← hagree a ha c h3]
      have h2 := domAbs_add _ _ a b c (by rw [hlen a ha, hlen b hb]) (by rw [hlen b hb, hlen c h3]) hs h1
      refine dominates_of_domAbs _ ?_ a c h2
      have hk' : (k : Rat) ≤ (xs.length : Rat) := by exact_mod_cast Nat.le_of_lt hk
      have : (k : Rat) * linkSlack M ≤ (xs.length : Rat) * linkSlack M := mul_le_mul_of_nonneg_right hk' hδ
      linarith [tolSmall_nonneg])
  rw [← extractDominated_congr dominates (restrict dominates xs) xs hagree] at key
  refine key.imp_of_mem ?_
  intro a b ha hb hab
  exact ⟨fun h => hab.1 ⟨h, hmem a ha, hmem b hb⟩, fun h => hab.2 ⟨h, hmem b hb, hmem a ha⟩⟩

/-- test: the theorem on a literal list (n = 2, M = 4): a duplicate, a vector within the tolerance of another one,
    an incomparable pair and a clearly dominated vector; hypotheses discharged by kernel evaluation -/
example : (extractDominated dominates [[1, 0], [0, 1], [1, 0], [1/2, -4], [1, 1/1000000]]).1.Pairwise
    (fun a b => ¬ strongDom 2 4 5 a b ∧ ¬ strongDom 2 4 5 b a) :=
  extractDominated_no_strong_dominates 2 4 [[1, 0], [0, 1], [1, 0], [1/2, -4], [1, 1/1000000]]
    (by decide +kernel) (by decide +kernel)

/-- test (the clause is not vacuous): `strongDom` holds for a clearly dominated pair and fails inside the slack, and
    the kept range of the list above, evaluated by the kernel, satisfies the clause -/
example : strongDom 2 4 5 [1, 1] [0, 0] ∧ ¬ strongDom 2 4 5 [1, 1/1000000] [1, 0] := by decide +kernel
example : (extractDominated dominates [[1, 0], [0, 1], [1, 0], [1/2, -4], [1, 1/1000000]]).1.all
    (fun a => (extractDominated dominates [[1, 0], [0, 1], [1, 0], [1/2, -4], [1, 1/1000000]]).1.all
      (fun b => a == b || !domAbs (-((5 : Rat) * linkSlack 4)) a b)) = true := by decide +kernel

end AITB.Prune
