/-
  AITB.Props.C03Sarsop — the three places where SARSOP changes its bounds, written out as compositions of the events of `anytime_sound`
  (so that the induction really covers the code of SARSOP.hpp, not only an abstract event alphabet):

    * `SARSOP::backupNode`, lower part : `lbVList.emplace_back(alpha)` with `alpha` from `bestConservativeAction`            = `addVec`
    * `SARSOP::backupNode`, upper part : the lazy loop recomputes the per-action value of the current maximiser from the surface
      until the maximiser is an already recomputed action (ANY number of recomputations, in any order)                       = `poolAdd`*
      then `ubQ(s, maxAction) = node.UB` at a corner / `ubV.push_back(belief, node.UB)` otherwise, `node.UB` = max of the
      per-action values held for the node (old ones from `updateNode` or fresh ones)                                          = `setCorner` / `pushPoint`
    * `SARSOP::updateNode` (expandLeaf, root): all per-action values from `bestPromisingAction<false>`                         = `poolAdd` for every action
    * delta pruning of `lbVList`, pruning of `ubV`                                                                            = `keepVecs`, `keepPoints`
-/
import AITB.Props.C03Anytime
import AITB.Props.C03Cons

namespace AITB.POMDP3
open AITB.MDP

theorem Reach.trans' (m : POMDP) {s0 s1 s2 : AState} (h1 : Reach m s0 s1) (h2 : Reach m s1 s2) : Reach m s0 s2 := by
  induction h2 with
  | init => exact h1
  | step _ hs ih => exact Reach.step ih hs

/-- lower part of `backupNode`: the stored list as an array `Γ`, the new vector is the one `bestConservativeAction` builds at the
    node's belief for the action it selects -/
theorem backupNode_lower_reach (m : POMDP) (hv : Valid m) (st : AState) (Γ : Array Vec) (hne : 0 < Γ.size)
    (hΓ : ∀ i, i < Γ.size → st.Γ (Γ.getD i #[]).get) (b : Vec) :
    ∃ α : Nat → Rat, (∀ s, s < m.S → α s = (bestConservative m b Γ).2.2.get s) ∧
      Reach m st { st with Γ := fun β => st.Γ β ∨ β = α } := by
  have hid : (bestConservative m b Γ).1 < m.A := by
    have := argmaxTo_le (m.A - 1) (fun a => dotV m.S b (((Array.range m.A).map (conservativeAlpha m b Γ)).getD a #[]))
    have h0 := hv.A0
    show argmaxTo (m.A - 1) _ < m.A
    omega
  obtain ⟨ch, hch, heq⟩ := conservativeAlpha_is_backup m b Γ hne (bestConservative m b Γ).1
  refine ⟨backupVec m (bestConservative m b Γ).1 ch, fun s hs => ?_, ?_⟩
  · rw [← heq s hs]
    have hget : ((Array.range m.A).map (conservativeAlpha m b Γ)).getD (bestConservative m b Γ).1 #[]
        = conservativeAlpha m b Γ (bestConservative m b Γ).1 := by simp [Array.getD, hid]
    show _ = (((Array.range m.A).map (conservativeAlpha m b Γ)).getD (bestConservative m b Γ).1 #[]).get s
    rw [hget]
  · refine Reach.step Reach.init (Step.addVec st _ ch hid (fun o _ => ?_))
    obtain ⟨i, hi, he⟩ := hch o
    rw [he]; exact hΓ i hi

/-- the lazy loop of `backupNode`: any list of per-action recomputations at the node's belief, each from the surface as it is
    (the surface does not change inside the loop) -/
theorem backupNode_pool_reach (m : POMDP) (st : AState) (b : Nat → Rat) (hb : NN b)
    (recs : List (Nat × (Nat → Bool) × (Nat → Rat)))
    (hrec : ∀ r ∈ recs, r.1 < m.A ∧ ∀ o, o < m.O →
      if r.2.1 o then (∀ s, s < m.S → bstep m b r.1 o s = 0) else IsInterp m st (bstep m b r.1 o) (r.2.2 o)) :
    ∃ st', Reach m st st' ∧ st'.Γ = st.Γ ∧ st'.Q = st.Q ∧ st'.P = st.P ∧ st'.aug = st.aug ∧
      (∀ b' a u, st.pool b' a u → st'.pool b' a u) ∧
      (∀ r ∈ recs, st'.pool b r.1 (promisingVal m b r.1 r.2.1 r.2.2)) := by
  induction recs generalizing st with
  | nil => exact ⟨st, Reach.init, rfl, rfl, rfl, rfl, fun _ _ _ h => h, fun r hr => by cases hr⟩
  | cons r rest ih =>
    obtain ⟨hra, hro⟩ := hrec r (List.mem_cons_self ..)
    let st1 : AState := { st with pool := fun b' a' u => st.pool b' a' u ∨ (b' = b ∧ a' = r.1 ∧ u = promisingVal m b r.1 r.2.1 r.2.2) }
    have h1 : Step m st st1 := Step.poolAdd st b r.1 r.2.1 r.2.2 hb hra hro
    have hint : ∀ x u, IsInterp m st x u → IsInterp m st1 x u := fun x u h => h
    obtain ⟨st', hr', hΓ, hQ, hP, haug, hmono, hall⟩ := ih st1 (fun r' hr' => by
      obtain ⟨ha', ho'⟩ := hrec r' (List.mem_cons_of_mem _ hr')
      refine ⟨ha', fun o ho => ?_⟩
      have := ho' o ho
      split
      · rename_i hsk; rw [if_pos hsk] at this; exact this
      · rename_i hsk; rw [if_neg hsk] at this; exact hint _ _ this)
    refine ⟨st', Reach.trans' m (Reach.step Reach.init h1) hr', hΓ, hQ, hP, haug, fun b' a u h => hmono b' a u (Or.inl h), ?_⟩
    intro r' hr'
    rcases List.mem_cons.mp hr' with h | h
    · subst h; exact hmono b _ _ (Or.inr ⟨rfl, rfl, rfl⟩)
    · exact hall r' h

/-- end of `backupNode`: the node's upper value (any number that is at least a held per-action value of every action) goes to `ubQ`
    at a corner, to `ubV` otherwise — both reachable; hence by `anytime_sound` the state stays `Sound` -/
theorem backupNode_write_reach (m : POMDP) (st : AState) (b : Nat → Rat) (u : Rat)
    (h : ∀ a', a' < m.A → ∃ u', st.pool b a' u' ∧ u' ≤ u) :
    Reach m st { st with P := fun b' u' => st.P b' u' ∨ (b' = b ∧ u' = u) } ∧
    (∀ s a, s < m.S → a < m.A → b = unit s →
      Reach m st { st with Q := fun s' a' => if s' = s ∧ a' = a then u else st.Q s' a' }) := by
  refine ⟨Reach.step Reach.init (Step.pushPoint st b u h), fun s a hs ha hb => ?_⟩
  subst hb
  exact Reach.step Reach.init (Step.setCorner st s a u hs ha h)

/-- **`backupNode` preserves soundness**: composition of the three parts with `anytime_sound` -/
theorem backupNode_sound (m : POMDP) (hv : Valid m) (U L : (Nat → Rat) → Rat) (hU : SuperSol m U) (hL : Sublin m.S L) (hsub : SubSol m L)
    (st : AState) (hs : Sound m U L st) (Γ : Array Vec) (hne : 0 < Γ.size) (hΓ : ∀ i, i < Γ.size → st.Γ (Γ.getD i #[]).get)
    (b : Vec) (hb : NN b.get) (recs : List (Nat × (Nat → Bool) × (Nat → Rat)))
    (hrec : ∀ r ∈ recs, r.1 < m.A ∧ ∀ o, o < m.O →
      if r.2.1 o then (∀ s, s < m.S → bstep m b.get r.1 o s = 0) else IsInterp m st (bstep m b.get r.1 o) (r.2.2 o)) :
    -- the new lower-bound vector is sound at every belief, its value at the node is a lower bound of `U` there,
    LBSound m U (bestConservative m b Γ).2.2.get ∧
    -- and every number that dominates a held per-action value of every action dominates `L` at the node
    (∀ st', Reach m st st' → ∀ u, (∀ a', a' < m.A → ∃ u', st'.pool b.get a' u' ∧ u' ≤ u) → L b.get ≤ u) := by
  refine ⟨?_, fun st' hr u hu => ?_⟩
  · have hΓ' : ∀ v, v ∈ Γ.toList → LBSound m U v.get := by
      intro v hv'
      obtain ⟨i, hi, he⟩ := List.getElem_of_mem hv'
      have hi' : i < Γ.size := by simpa using hi
      have : Γ.getD i #[] = v := by simp [Array.getD, hi', ← he]
      rw [← this]; exact hs.vecs _ (hΓ i hi')
    exact (bestConservative_sound m hv U hU b hb Γ hne hΓ').2.1
  · exact (anytime_sound m hv U L hU hL hsub st st' hs hr).2.2.2.1 b.get hb u hu

end AITB.POMDP3
