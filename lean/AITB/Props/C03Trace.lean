/-
  AITB.Props.C03Trace — per-instance certificates that decide soundness of a lower-bound vector AT EVERY BELIEF from finitely many
  componentwise inequalities on the vector itself (what the driver's trace validation checks on every snapshot of SARSOP):

    * `blindSub_sound_slack`   a vector with `β ≤ Blind_a β + δ` componentwise (every iterate of the blind iteration from a safe start, as
                               returned in doubles) is below every upper reference up to `δ/(1-γ)` per unit of mass;
    * `le_backup_sound_slack`  a vector that is componentwise within `δ` below the point backup (some action, per observation SOME vector
                               that is already certified) is certified with the same slack `e`, provided `γ e + δ ≤ e`.

  With `δ = 0` these are the exact kernel clauses (`blindSub_sound`, `le_backup_sound`); the slack form is what makes the evaluation on
  IEEE outputs rigorous: the certified statement is `α·x ≤ U(x) + e·mass(x)` for every unnormalised belief `x`, `e = δ/(1-γ)`.
-/
import AITB.Props.C03Horizon

namespace AITB.POMDP3
open AITB.MDP

/-- `α` is below `V` up to `e` per unit of mass, at every unnormalised belief -/
def LBSoundE (m : POMDP) (V : (Nat → Rat) → Rat) (e : Rat) (α : Nat → Rat) : Prop :=
  ∀ x, NN x → dotS m.S x α ≤ V x + e * mass m.S x

theorem LBSoundE_zero (m : POMDP) (V : (Nat → Rat) → Rat) (α : Nat → Rat) : LBSoundE m V 0 α ↔ LBSound m V α := by
  unfold LBSoundE LBSound
  constructor <;> intro h x hx <;> have := h x hx <;> linarith

theorem mass_nonneg (S : Nat) (x : Nat → Rat) (hx : NN x) : 0 ≤ mass S x := sumTo_nonneg (fun s _ => hx s)

theorem LBSoundE_mono (m : POMDP) (V : (Nat → Rat) → Rat) (e e' : Rat) (h : e ≤ e') (α : Nat → Rat) (hα : LBSoundE m V e α) :
    LBSoundE m V e' α := by
  intro x hx
  have := hα x hx
  have := mul_le_mul_of_nonneg_right h (mass_nonneg m.S x hx)
  linarith

/-- kernel with slack: the backup of `e`-certified vectors is `γ e`-certified w.r.t. `H V` -/
theorem pointBackup_le_qval_slack (m : POMDP) (hv : Valid m) (V : (Nat → Rat) → Rat) (e : Rat) (x : Nat → Rat) (hx : NN x) (a : Nat)
    (ch : Nat → Nat → Rat) (hch : ∀ o, o < m.O → LBSoundE m V e (ch o)) :
    dotS m.S x (backupVec m a ch) ≤ qval m V x a + m.γ * e * mass m.S x := by
  rw [dotS_backupVec]
  unfold qval
  have h1 : sumTo m.O (fun o => dotS m.S (bstep m x a o) (ch o))
      ≤ sumTo m.O (fun o => V (bstep m x a o)) + e * mass m.S x := by
    rw [← mass_bstep m hv x a, ← sumTo_mul_left, ← sumTo_add]
    exact sumTo_le (fun o ho => hch o ho _ (bstep_nonneg m hv x hx a o))
  have := mul_le_mul_of_nonneg_left h1 hv.γ0
  nlinarith

/-- **certificate for a new vector**: componentwise within `δ` below a point backup of certified vectors ⇒ certified, same slack -/
theorem le_backup_sound_slack (m : POMDP) (hv : Valid m) (V : (Nat → Rat) → Rat) (hV : SuperSol m V) (e δ : Rat) (he : m.γ * e + δ ≤ e)
    (a : Nat) (ha : a < m.A) (ch : Nat → Nat → Rat) (hch : ∀ o, o < m.O → LBSoundE m V e (ch o))
    (α : Nat → Rat) (hle : ∀ s, s < m.S → α s ≤ backupVec m a ch s + δ) : LBSoundE m V e α := by
  intro x hx
  have h1 : dotS m.S x α ≤ dotS m.S x (backupVec m a ch) + δ * mass m.S x := by
    have := dotS_le_of_le m.S x α (fun s => backupVec m a ch s + δ) hx hle
    have e2 : dotS m.S x (fun s => backupVec m a ch s + δ) = dotS m.S x (backupVec m a ch) + δ * mass m.S x := by
      unfold dotS mass
      rw [← sumTo_mul_left, ← sumTo_add]
      exact sumTo_congr (fun s _ => by ring)
    linarith
  have h2 := pointBackup_le_qval_slack m hv V e x hx a ch hch
  have h3 := le_trans (qval_le_Hop m hv.A0 V x a ha) (hV x hx)
  have hm := mass_nonneg m.S x hx
  have := mul_le_mul_of_nonneg_right he hm
  nlinarith

theorem le_backup_sound (m : POMDP) (hv : Valid m) (V : (Nat → Rat) → Rat) (hV : SuperSol m V)
    (a : Nat) (ha : a < m.A) (ch : Nat → Nat → Rat) (hch : ∀ o, o < m.O → LBSound m V (ch o))
    (α : Nat → Rat) (hle : ∀ s, s < m.S → α s ≤ backupVec m a ch s) : LBSound m V α :=
  (LBSoundE_zero m V α).mp (le_backup_sound_slack m hv V hV 0 0 (by simp) a ha ch
    (fun o ho => (LBSoundE_zero m V _).mpr (hch o ho)) α (fun s hs => by have := hle s hs; linarith))

/-- a vector within `δ` of being a blind sub-solution is within `δ/(1-γ)` below every MDP super-solution (largest excess `d ≤ γ d + δ`) -/
theorem blindSub_le_mdpSuper_slack (m : POMDP) (hv : Valid m) (hS : 0 < m.S) (a : Nat) (ha : a < m.A) (β v : Nat → Rat) (δ : Rat)
    (hβ : ∀ s, s < m.S → β s ≤ blindStep m a β s + δ) (hsup : MdpSuper m v) :
    ∀ s, s < m.S → (1 - m.γ) * (β s - v s) ≤ δ := by
  obtain ⟨s0, hs0, hmax⟩ := maxTo_attained (m.S - 1) (fun s => β s - v s)
  have hd : ∀ s, s < m.S → β s - v s ≤ β s0 - v s0 := by
    intro s hs
    have := maxTo_ge (m.S - 1) (fun s => β s - v s) s (by omega)
    rw [hmax] at this; exact this
  have hs0' : s0 < m.S := by omega
  have h1 := hβ s0 hs0'
  have h2 := hsup s0 hs0' a ha
  have h3 : blindStep m a β s0 - blindStep m a v s0 ≤ m.γ * (β s0 - v s0) := by
    unfold blindStep
    have : sumTo m.S (fun s1 => m.T s0 a s1 * β s1) - sumTo m.S (fun s1 => m.T s0 a s1 * v s1) ≤ β s0 - v s0 := by
      rw [← sumTo_sub]
      have hle : sumTo m.S (fun i => m.T s0 a i * β i - m.T s0 a i * v i) ≤ sumTo m.S (fun i => m.T s0 a i * (β s0 - v s0)) :=
        sumTo_le (fun i hi => by
          have := mul_le_mul_of_nonneg_left (hd i hi) (hv.T0 s0 a i)
          linarith)
      rw [sumTo_mul_right, hv.T1 s0 a hs0', one_mul] at hle
      exact hle
    have := mul_le_mul_of_nonneg_left this hv.γ0
    linarith
  have hd0 : (1 - m.γ) * (β s0 - v s0) ≤ δ := by nlinarith
  intro s hs
  have h4 := hd s hs
  have h5 : 0 ≤ 1 - m.γ := by have := hv.γ1; linarith
  have := mul_le_mul_of_nonneg_left h4 h5
  linarith

/-- **certificate for an initial vector**: `β ≤ Blind_a β + δ` componentwise ⇒ `β` is certified against every upper reference with
    slack `e` whenever `δ ≤ (1-γ) e` -/
theorem blindSub_sound_slack (m : POMDP) (hv : Valid m) (hS : 0 < m.S) (a : Nat) (ha : a < m.A) (β : Nat → Rat) (δ e : Rat)
    (hβ : ∀ s, s < m.S → β s ≤ blindStep m a β s + δ) (he : δ ≤ (1 - m.γ) * e)
    (c : Rat) (hc : ∀ s, s < m.S → ∀ a, a < m.A → m.R s a ≤ (1 - m.γ) * c) (j k : Nat) : LBSoundE m (upperRef m c j k) e β := by
  have h1g : 0 < 1 - m.γ := by have := hv.γ1; linarith
  have hγe : m.γ * e + δ ≤ e := by nlinarith
  unfold upperRef
  induction k with
  | zero =>
    intro x hx
    show dotS m.S x β ≤ linV m.S _ x + e * mass m.S x
    have hsl := blindSub_le_mdpSuper_slack m hv hS a ha β _ δ hβ (mdpIter_super m hv _ (const_mdpSuper m hv c hc) j)
    have hle : ∀ s, s < m.S → β s ≤ Nat.iterate (mdpStep m) j (fun _ => c) s + e := by
      intro s hs
      have := hsl s hs
      nlinarith
    have := dotS_le_of_le m.S x β (fun s => Nat.iterate (mdpStep m) j (fun _ => c) s + e) hx hle
    have e2 : dotS m.S x (fun s => Nat.iterate (mdpStep m) j (fun _ => c) s + e)
        = linV m.S (Nat.iterate (mdpStep m) j (fun _ => c)) x + e * mass m.S x := by
      unfold linV dotS mass
      rw [← sumTo_mul_left, ← sumTo_add]
      exact sumTo_congr (fun s _ => by ring)
    linarith
  | succ k ih =>
    intro x hx
    show dotS m.S x β ≤ Hop m (iterH m _ k) x + e * mass m.S x
    -- β·x ≤ (Blind_a β)·x + δ mass = backup(β,…,β)·x + δ mass ≤ qval + (γ e + δ) mass ≤ H(…) + e mass
    have h1 : dotS m.S x β ≤ dotS m.S x (blindStep m a β) + δ * mass m.S x := by
      have := dotS_le_of_le m.S x β (fun s => blindStep m a β s + δ) hx hβ
      have e2 : dotS m.S x (fun s => blindStep m a β s + δ) = dotS m.S x (blindStep m a β) + δ * mass m.S x := by
        unfold dotS mass
        rw [← sumTo_mul_left, ← sumTo_add]
        exact sumTo_congr (fun s _ => by ring)
      linarith
    rw [blindStep_eq_backup m hv] at h1
    have h2 := pointBackup_le_qval_slack m hv _ e x hx a (fun _ => β) (fun _ _ => ih)
    have h3 := qval_le_Hop m hv.A0 (iterH m (linV m.S (Nat.iterate (mdpStep m) j (fun _ => c))) k) x a ha
    have hm := mass_nonneg m.S x hx
    have := mul_le_mul_of_nonneg_right hγe hm
    nlinarith

theorem blindSub_sound (m : POMDP) (hv : Valid m) (hS : 0 < m.S) (a : Nat) (ha : a < m.A) (β : Nat → Rat) (hβ : BlindSub m a β)
    (c : Rat) (hc : ∀ s, s < m.S → ∀ a, a < m.A → m.R s a ≤ (1 - m.γ) * c) (j k : Nat) : LBSound m (upperRef m c j k) β :=
  (LBSoundE_zero m _ β).mp (blindSub_sound_slack m hv hS a ha β 0 0 (fun s hs => by have := hβ s hs; linarith) (by simp) c hc j k)

/-! ### the decidable checkers the driver evaluates (AITB.Model.POMDP3) are sound -/

theorem blindCertOK_sound (m : POMDP) (hv : Valid m) (hS : 0 < m.S) (a : Nat) (β : Vec) (δ e : Rat) (he : δ ≤ (1 - m.γ) * e)
    (h : blindCertOK m a β δ = true)
    (c : Rat) (hc : ∀ s, s < m.S → ∀ a, a < m.A → m.R s a ≤ (1 - m.γ) * c) (j k : Nat) : LBSoundE m (upperRef m c j k) e β.get := by
  simp only [blindCertOK, Bool.and_eq_true, decide_eq_true_eq, allLt_iff] at h
  exact blindSub_sound_slack m hv hS a h.1 β.get δ e h.2 he c hc j k

/-- every vector of an array is certified -/
def AllE (m : POMDP) (V : (Nat → Rat) → Rat) (e : Rat) (cands : Array Vec) : Prop := ∀ i, i < cands.size → LBSoundE m V e (cands.getD i #[]).get

theorem backupCertOK_sound (m : POMDP) (hv : Valid m) (V : (Nat → Rat) → Rat) (hV : SuperSol m V) (e δ : Rat) (he : m.γ * e + δ ≤ e)
    (a : Nat) (α : Vec) (cands : Array Vec) (idx : List Nat) (hc : AllE m V e cands) (h : backupCertOK m a α cands idx δ = true) :
    LBSoundE m V e α.get := by
  simp only [backupCertOK, Bool.and_eq_true, decide_eq_true_eq, allLt_iff, beq_iff_eq, List.all_eq_true] at h
  obtain ⟨⟨⟨ha, hlen⟩, hidx⟩, hle⟩ := h
  refine le_backup_sound_slack m hv V hV e δ he a ha (fun o => (cands.getD (idx.getD o 0) #[]).get) (fun o ho => ?_) α.get hle
  have : idx.getD o 0 ∈ idx := by
    rw [List.getD_eq_getElem?_getD]
    have ho' : o < idx.length := by omega
    simp [ho']
  exact hc _ (hidx _ this)

theorem AllE_push (m : POMDP) (V : (Nat → Rat) → Rat) (e : Rat) (cands : Array Vec) (α : Vec) (hc : AllE m V e cands)
    (hα : LBSoundE m V e α.get) : AllE m V e (cands.push α) := by
  intro i hi
  rw [Array.size_push] at hi
  by_cases h : i < cands.size
  · have : (cands.push α).getD i #[] = cands.getD i #[] := by
      have h2 : i < (cands.push α).size := by rw [Array.size_push]; omega
      simp only [Array.getD, h, h2, dite_true]
      exact Array.getElem_push_lt h
    rw [this]; exact hc i h
  · have hi' : i = cands.size := by omega
    subst hi'
    have : (cands.push α).getD cands.size #[] = α := by simp [Array.getD]
    rw [this]; exact hα

/-- **trace validation is sound**: if the start set is certified and the chain of certificates checks, every vector of the result —
    the start set and every vector added during the iteration — is below `V` (up to `e` per unit of mass) at EVERY unnormalised belief -/
theorem certChain_sound (m : POMDP) (hv : Valid m) (V : (Nat → Rat) → Rat) (hV : SuperSol m V) (e δ : Rat) (he : m.γ * e + δ ≤ e)
    (l : List (Nat × Vec × List Nat)) : ∀ (cands out : Array Vec), AllE m V e cands → certChain m δ cands l = some out → AllE m V e out := by
  induction l with
  | nil => intro cands out hc h; simp only [certChain, Option.some.injEq] at h; rw [← h]; exact hc
  | cons t rest ih =>
    intro cands out hc h
    obtain ⟨a, α, idx⟩ := t
    simp only [certChain] at h
    split at h
    · rename_i hok
      exact ih _ out (AllE_push m V e cands α hc (backupCertOK_sound m hv V hV e δ he a α cands idx hc hok)) h
    · cases h

end AITB.POMDP3
