/-
  AITB.Props.C18a — helper lemmas for C18: the `Except` monad, replay of write traces (`lastHit`),
  the three write shapes of `processMatrix` / `processReward` expressed cell by cell.
-/
import AITB.Model.Cassandra
namespace AITB.Cassandra
variable {fl : Flags}

/-! ### Except -/

theorem bind_ok {α β} {x : R α} {f : α → R β} {b : β} :
    (x >>= f) = .ok b ↔ ∃ a, x = .ok a ∧ f a = .ok b := by
  cases x <;> simp [bind, Except.bind]

theorem bind_err {α β} {x : R α} {f : α → R β} {e : Err} (h : x = .error e) : (x >>= f) = .error e := by
  subst h; rfl

theorem pure_ok {α} {a b : α} : (pure a : R α) = .ok b ↔ a = b := by
  simp [pure, Except.pure]

theorem at?_ok {α} {l : List α} {i : Nat} {x : α} : at? l i = .ok x ↔ l[i]? = some x := by
  unfold at?; cases h : l[i]? <;> simp

theorem at?_err {α} {l : List α} {i : Nat} (h : l.length ≤ i) : at? l i = .error .outOfRange := by
  unfold at?; rw [List.getElem?_eq_none h]

/-! ### replaying writes -/

/-- the value of the last write that hits the cell, if any -/
def lastHit (ws : List Write) (d1 a d3 : Nat) : Option XRat :=
  ws.reverse.findSome? fun w => if w.hits d1 a d3 then some w.v else none

theorem lastHit_append (ws1 ws2 : List Write) (d1 a d3 : Nat) :
    lastHit (ws1 ++ ws2) d1 a d3 = (lastHit ws2 d1 a d3).or (lastHit ws1 d1 a d3) := by
  simp [lastHit, List.reverse_append, List.findSome?_append]

theorem lastHit_nil (d1 a d3 : Nat) : lastHit [] d1 a d3 = none := rfl

theorem foldl_eq_lastHit (ws : List Write) (d1 a d3 : Nat) (acc : XRat) :
    ws.foldl (fun acc w => if w.hits d1 a d3 then w.v else acc) acc = (lastHit ws d1 a d3).getD acc := by
  induction ws generalizing acc with
  | nil => rfl
  | cons w t ih =>
    rw [List.foldl_cons, ih]
    have : lastHit (w :: t) d1 a d3 = (lastHit t d1 a d3).or (lastHit [w] d1 a d3) := lastHit_append [w] t d1 a d3
    rw [this]
    cases h : lastHit t d1 a d3 with
    | some x => simp
    | none =>
      simp only [Option.none_or, Option.getD_none]
      by_cases hh : w.hits d1 a d3 <;> simp [lastHit, hh]

/-- the table after a trace: last hitting write, 0 on untouched (zero-initialised) cells -/
theorem tableAt_eq (ws : List Write) (d1 a d3 : Nat) :
    tableAt ws d1 a d3 = (lastHit ws d1 a d3).getD (.fin 0) := foldl_eq_lastHit ws d1 a d3 _

theorem findSome_fun {α β} (l : List α) (p : α → Bool) (val : α → β) (c : β)
    (h : ∀ x ∈ l, p x = true → val x = c) :
    l.findSome? (fun x => if p x then some (val x) else none) = if l.any p then some c else none := by
  induction l with
  | nil => rfl
  | cons x t ih =>
    have iht := ih (fun y hy => h y (List.mem_cons_of_mem _ hy))
    by_cases hp : p x = true
    · simp [List.findSome?_cons, hp, h x (List.mem_cons_self) hp]
    · have hp' : p x = false := by simpa using hp
      simp [List.findSome?_cons, hp', iht]

/-- when the value of every write is a function `g` of its cell, the last hit is decided by coverage -/
theorem lastHit_fun (ws : List Write) (g : Nat → Nat → Nat → XRat)
    (h : ∀ w ∈ ws, w.v = g w.d1 w.a w.d3) (d1 a d3 : Nat) :
    lastHit ws d1 a d3 = if ws.any (fun w => w.hits d1 a d3) then some (g d1 a d3) else none := by
  unfold lastHit
  rw [findSome_fun ws.reverse (fun w => w.hits d1 a d3) (fun w => w.v) (g d1 a d3)]
  · simp [List.any_reverse]
  · intro w hw hh
    have hw' : w ∈ ws := by simpa using hw
    rw [h w hw']
    simp [Write.hits] at hh
    obtain ⟨⟨h1, h2⟩, h3⟩ := hh
    rw [h1, h2, h3]

theorem hits_iff (w : Write) (d1 a d3 : Nat) : w.hits d1 a d3 = true ↔ w.d1 = d1 ∧ w.a = a ∧ w.d3 = d3 := by
  simp [Write.hits, and_assoc]

/-! ### enumFrom -/

theorem mem_enumFrom {α} (l : List α) (k i : Nat) (x : α) :
    (i, x) ∈ enumFrom k l ↔ ∃ j, l[j]? = some x ∧ i = k + j := by
  induction l generalizing k with
  | nil => simp [enumFrom]
  | cons y t ih =>
    simp only [enumFrom, List.mem_cons, Prod.mk.injEq, ih]
    constructor
    · rintro (⟨rfl, rfl⟩ | ⟨j, hj, rfl⟩)
      · exact ⟨0, by simp, by simp⟩
      · exact ⟨j + 1, by simpa using hj, by omega⟩
    · rintro ⟨j, hj, rfl⟩
      cases j with
      | zero => left; simp at hj; simp [hj]
      | succ j => right; exact ⟨j, by simpa using hj, by omega⟩

/-! ### the write shapes, cell by cell -/

theorem any_writesEntry (d1v av d3v : List Nat) (val : XRat) (d1 a d3 : Nat) :
    (writesEntry d1v av d3v val).any (fun w => w.hits d1 a d3) = true ↔ d1 ∈ d1v ∧ a ∈ av ∧ d3 ∈ d3v := by
  simp only [writesEntry, List.any_eq_true, List.mem_flatMap, List.mem_map, hits_iff]
  constructor
  · rintro ⟨w, ⟨x, hx, y, hy, z, hz, rfl⟩, h1, h2, h3⟩
    simp at h1 h2 h3; subst h1 h2 h3; exact ⟨hx, hy, hz⟩
  · rintro ⟨h1, h2, h3⟩
    exact ⟨⟨d1, a, d3, val⟩, ⟨d1, h1, a, h2, d3, h3, rfl⟩, rfl, rfl, rfl⟩

theorem lastHit_writesEntry (d1v av d3v : List Nat) (val : XRat) (d1 a d3 : Nat) :
    lastHit (writesEntry d1v av d3v val) d1 a d3 = if d1 ∈ d1v ∧ a ∈ av ∧ d3 ∈ d3v then some val else none := by
  rw [lastHit_fun _ (fun _ _ _ => val)]
  · by_cases h : d1 ∈ d1v ∧ a ∈ av ∧ d3 ∈ d3v
    · rw [if_pos h, if_pos ((any_writesEntry ..).2 h)]
    · rw [if_neg h, if_neg (fun hh => h ((any_writesEntry ..).1 hh))]
  · intro w hw
    simp only [writesEntry, List.mem_flatMap, List.mem_map] at hw
    obtain ⟨x, _, y, _, z, _, rfl⟩ := hw
    rfl

theorem mem_writesVec (d1 a : Nat) (v : List XRat) (w : Write) :
    w ∈ writesVec d1 a v ↔ ∃ j x, v[j]? = some x ∧ w = ⟨d1, a, j, x⟩ := by
  simp only [writesVec, List.mem_map]
  constructor
  · rintro ⟨⟨i, x⟩, hm, rfl⟩
    obtain ⟨j, hj, rfl⟩ := (mem_enumFrom v 0 i x).1 hm
    exact ⟨j, x, hj, by simp⟩
  · rintro ⟨j, x, hj, rfl⟩
    exact ⟨(j, x), (mem_enumFrom v 0 j x).2 ⟨j, hj, by simp⟩, rfl⟩

theorem any_writesRow (d1v av : List Nat) (v : List XRat) (d1 a d3 : Nat) :
    (writesRow d1v av v).any (fun w => w.hits d1 a d3) = true ↔ d1 ∈ d1v ∧ a ∈ av ∧ d3 < v.length := by
  simp only [writesRow, List.any_eq_true, List.mem_flatMap, mem_writesVec, hits_iff]
  constructor
  · rintro ⟨w, ⟨x, hx, y, hy, j, q, hj, rfl⟩, h1, h2, h3⟩
    simp at h1 h2 h3; subst h1 h2 h3
    refine ⟨hx, hy, ?_⟩
    rcases Nat.lt_or_ge j v.length with h | h
    · exact h
    · rw [List.getElem?_eq_none h] at hj; cases hj
  · rintro ⟨h1, h2, h3⟩
    exact ⟨⟨d1, a, d3, v[d3]⟩, ⟨d1, h1, a, h2, d3, v[d3], by simp [h3], rfl⟩, rfl, rfl, rfl⟩

theorem lastHit_writesRow (d1v av : List Nat) (v : List XRat) (d1 a d3 : Nat) :
    lastHit (writesRow d1v av v) d1 a d3 = if d1 ∈ d1v ∧ a ∈ av then v[d3]? else none := by
  rw [lastHit_fun _ (fun _ _ i => v[i]?.getD (.fin 0))]
  · by_cases h : d1 ∈ d1v ∧ a ∈ av
    · rw [if_pos h]
      rcases Nat.lt_or_ge d3 v.length with hl | hl
      · rw [if_pos ((any_writesRow ..).2 ⟨h.1, h.2, hl⟩)]; simp [hl]
      · rw [if_neg (fun hh => by have := ((any_writesRow ..).1 hh).2.2; omega), List.getElem?_eq_none hl]
    · rw [if_neg h, if_neg (fun hh => h ⟨((any_writesRow ..).1 hh).1, ((any_writesRow ..).1 hh).2.1⟩)]
  · intro w hw
    simp only [writesRow, List.mem_flatMap, mem_writesVec] at hw
    obtain ⟨x, _, y, _, j, q, hj, rfl⟩ := hw
    simp [hj]

end AITB.Cassandra
