/-
  AITB.Props.C11Policies — the learners of C11 driven by the library's own policy objects
  (`QGreedyPolicy`, `EpsilonPolicy(QGreedyPolicy)`) instead of a stored matrix.

  Round 3.  `esarsa_bounded` (round 1) assumes a FIXED row-stochastic matrix.  In practice ExpectedSARSA is
  constructed as `ExpectedSARSA(q, QGreedyPolicy(q))`: the policy reads the table being updated, and
  `QGreedyPolicyWrapper::getActionProbability` decides ties with `checkEqualGeneral`, so on near-ties its row sums to
  LESS than one (C09: 5/6 on a three-value chain).  What is true, and proved here for every table, every number of
  actions and every history:
    * `gProb_substochastic`    the AS-FOUND scan's outputs are in [0,1] and sum to at most one (exactly one under separation, C09b);
    * round 4: the model follows the form the translator extracts (`Gen.C09.greedyMaxFirst`; `gProbX` = `GForm.repaired.prob` since repo
      48b02c6: maximum first, `1/count` on the entries `checkEqualGeneral` to it): `repaired_prob_sum`, `gProbX_sum_one`, `greedyPol_isDist`
      — the row is a probability DISTRIBUTION (sum exactly one) for every table, no separation hypothesis; `gProbX_substochastic`,
      `gProbX_nonneg|le_one` hold in either form, so every bound below is form-independent; `gProbX_eq_gProb_on_classes`: the forms agree
      where `checkEqualGeneral` is transitive;
    * `esarsaP_bounded`        clause 1 for ExpectedSARSA with ANY table-dependent sub-stochastic policy object;
      `esarsa_greedy_bounded`, `esarsa_epsgreedy_bounded` — the two library objects;
    * `esarsa_greedyPol_qstar_fixed`  clause 2 through `QGreedyPolicy` when Q* has exact ties only;
      `esarsa_greedy_near_tie_counterexample`: with a near-tie (5e-7 apart) Q* is NOT a fixed point — the tolerance
      comparison of the policy object leaks into the learner (an inherent feature of the tolerance, not a defect of ExpectedSARSA);
    * `eval_traces_bounded_policies`, `control_traces_bounded_epsgreedy`  clause 4 with these objects as target / behaviour.
-/
import AITB.Model.LearnPolicies
import AITB.Props.C11
import AITB.Props.C11Traces
import AITB.Props.C09b
import AITB.Props.C09h

namespace AITB.Pol

theorem absQ_sub_comm (a b : Rat) : absQ (a - b) = absQ (b - a) := by
  unfold absQ; split_ifs <;> linarith

theorem minQ_comm (a b : Rat) : minQ a b = minQ b a := by
  unfold minQ; split_ifs <;> linarith

-- (`ceG_symm` is C09h's)

/-- the entries `getActionProbability(a)` counts: those `checkEqualGeneral` calls equal to `q a` -/
def tie (q : Nat → Rat) (a : Nat) : Nat → Bool := fun i => ceG (q i) (q a)

theorem countTo_mono {p r : Nat → Bool} {n : Nat} (h : ∀ i, i < n → p i = true → r i = true) : countTo p n ≤ countTo r n := by
  induction n with
  | zero => simp [countTo]
  | succ n ih =>
    rw [countTo, countTo]
    have := ih (fun i hi => h i (by omega))
    by_cases hp : p n = true
    · simp [hp, h n (by omega) hp]; exact this
    · have hp' : p n = false := by simpa using hp
      simp [hp']; split <;> omega

/-- complete description of the loop of `getActionProbability(a)` WITHOUT any separation hypothesis -/
theorem gProbAux_char (q : Nat → Rat) (a : Nat) : ∀ k,
    (∀ c, gProbAux q a k = some c → c = countTo (tie q a) k ∧ ∀ i, i < k → ceG (q i) (q a) = true ∨ q i ≤ q a) ∧
    (gProbAux q a k = none → ∃ i, i < k ∧ ceG (q i) (q a) = false ∧ q a < q i) := by
  intro k
  induction k with
  | zero =>
    refine ⟨fun c h => ?_, fun h => ?_⟩
    · simp only [gProbAux, Option.some.injEq] at h
      subst h
      exact ⟨rfl, fun i hi => absurd hi (Nat.not_lt_zero _)⟩
    · simp [gProbAux] at h
  | succ k ih =>
    obtain ⟨ih1, ih2⟩ := ih
    cases hprev : gProbAux q a k with
    | none =>
      have hn : gProbAux q a (k + 1) = none := by rw [gProbAux, hprev]
      refine ⟨fun c h => (by rw [hn] at h; cases h), fun _ => ?_⟩
      obtain ⟨i, hi, h1, h2⟩ := ih2 hprev
      exact ⟨i, by omega, h1, h2⟩
    | some c0 =>
      obtain ⟨hc0, hall⟩ := ih1 c0 hprev
      by_cases ht : ceG (q k) (q a) = true
      · have hs : gProbAux q a (k + 1) = some (c0 + 1) := by rw [gProbAux, hprev]; simp [ht]
        refine ⟨fun c h => ?_, fun h => (by rw [hs] at h; cases h)⟩
        rw [hs] at h; cases h
        refine ⟨by rw [countTo, hc0]; simp [tie, ht], fun i hi => ?_⟩
        rcases Nat.lt_or_ge i k with h' | h'
        · exact hall i h'
        · have : i = k := by omega
          subst this; exact Or.inl ht
      · have ht' : ceG (q k) (q a) = false := by simpa using ht
        by_cases hgt : q a < q k
        · have hs : gProbAux q a (k + 1) = none := by rw [gProbAux, hprev]; simp [ht', hgt]
          refine ⟨fun c h => (by rw [hs] at h; cases h), fun _ => ⟨k, by omega, ht', hgt⟩⟩
        · have hs : gProbAux q a (k + 1) = some c0 := by rw [gProbAux, hprev]; simp [ht', hgt]
          refine ⟨fun c h => ?_, fun h => (by rw [hs] at h; cases h)⟩
          rw [hs] at h; cases h
          refine ⟨by rw [countTo, hc0]; simp [tie, ht'], fun i hi => ?_⟩
          rcases Nat.lt_or_ge i k with h' | h'
          · exact hall i h'
          · have : i = k := by omega
            subst this; exact Or.inr (not_lt.mp hgt)

/-- the actions that receive a non-zero probability -/
def good (q : Nat → Rat) (n : Nat) : Nat → Bool := fun a => (gProbAux q a n).isSome

theorem gProb_of_good {q : Nat → Rat} {n a : Nat} (h : good q n a = true) :
    gProb q n a = 1 / (countTo (tie q a) n : Rat) ∧ ∀ i, i < n → ceG (q i) (q a) = true ∨ q i ≤ q a := by
  unfold good at h
  cases hp : gProbAux q a n with
  | none => rw [hp] at h; cases h
  | some c =>
    obtain ⟨hc, hall⟩ := (gProbAux_char q a n).1 c hp
    exact ⟨by unfold gProb; rw [hp, hc], hall⟩

theorem gProb_of_not_good {q : Nat → Rat} {n a : Nat} (h : good q n a = false) : gProb q n a = 0 := by
  unfold good at h
  cases hp : gProbAux q a n with
  | none => unfold gProb; rw [hp]
  | some c => rw [hp] at h; cases h

theorem gProb_nonneg (q : Nat → Rat) (n a : Nat) : 0 ≤ gProb q n a := by
  unfold gProb
  cases gProbAux q a n with
  | none => exact le_refl _
  | some c => exact div_nonneg zero_le_one (Nat.cast_nonneg c)

theorem gProb_le_one (q : Nat → Rat) (n a : Nat) : gProb q n a ≤ 1 := by
  unfold gProb
  cases gProbAux q a n with
  | none => exact zero_le_one
  | some c =>
    show 1 / (c : Rat) ≤ 1
    rcases Nat.eq_zero_or_pos c with h | h
    · subst h; simp
    · have : (1 : Rat) ≤ (c : Rat) := by exact_mod_cast h
      exact (div_le_one (by linarith)).mpr this

/-- two actions of non-zero probability are called equal by `checkEqualGeneral` (the non-zero set is a clique) -/
theorem good_clique {q : Nat → Rat} {n a b : Nat} (ha : a < n) (hb : b < n) (hga : good q n a = true) (hgb : good q n b = true) :
    tie q a b = true := by
  unfold tie
  rcases (gProb_of_good hga).2 b hb with h | h
  · exact h
  · rcases (gProb_of_good hgb).2 a ha with h' | h'
    · rw [ceG_symm]; exact h'
    · have : q b = q a := le_antisymm h h'
      rw [this]; exact ceG_refl _

/-- **`QGreedyPolicy::getActionProbability` is sub-stochastic for EVERY value row** (no separation hypothesis):
    each entry is in [0,1] and the row sums to at most one.  (It sums to exactly one under separation, `greedy_is_argmax`;
    it can sum to 5/6, `greedy_nonsep_counterexample`.) -/
theorem gProb_substochastic (q : Nat → Rat) (n : Nat) : sumTo n (gProb q n) ≤ 1 := by
  have hle : ∀ a, a < n → gProb q n a ≤ (if good q n a then 1 / (countTo (good q n) n : Rat) else 0) := by
    intro a ha
    by_cases hg : good q n a = true
    · rw [if_pos hg, (gProb_of_good hg).1]
      have hpos : 0 < countTo (good q n) n := countTo_pos ha hg
      have hmono : countTo (good q n) n ≤ countTo (tie q a) n :=
        countTo_mono (fun i hi hgi => good_clique ha hi hg hgi)
      have h1 : (0 : Rat) < (countTo (good q n) n : Rat) := by exact_mod_cast hpos
      have h2 : (countTo (good q n) n : Rat) ≤ (countTo (tie q a) n : Rat) := by exact_mod_cast hmono
      exact one_div_le_one_div_of_le h1 h2
    · have hg' : good q n a = false := by simpa using hg
      rw [gProb_of_not_good hg']; simp [hg']
  calc sumTo n (gProb q n) ≤ sumTo n (fun a => if good q n a then 1 / (countTo (good q n) n : Rat) else 0) := sumTo_le hle
    _ = (countTo (good q n) n : Rat) * (1 / (countTo (good q n) n : Rat)) := sumTo_indicator n (good q n) _
    _ ≤ 1 := by
        rcases Nat.eq_zero_or_pos (countTo (good q n) n) with h | h
        · rw [h]; simp
        · have : (0 : Rat) < (countTo (good q n) n : Rat) := by exact_mod_cast h
          rw [mul_one_div_cancel (ne_of_gt this)]

/-- the hypothesis-free statement is not vacuous: a row with a near-tie chain really sums to 5/6 < 1 (C09b) and an
    exact-tie row to exactly one (test by evaluation) -/
example : sumTo 2 (gProb (fun _ => (3 : Rat)) 2) = 1 := by
  norm_num [sumTo, gProb, gProbAux, ceG, ceS, absQ, minQ, tolS, tolG, AITB.Gen.equalToleranceSmall, AITB.Gen.equalToleranceGeneral]

/-- `EpsilonPolicyInterface::getActionProbability` over a sub-stochastic wrapped row -/
theorem epsProb_nonneg {ε : Rat} (hε : 0 ≤ ε ∧ ε ≤ 1) {p : Nat → Rat} {n a : Nat} (hp : 0 ≤ p a) : 0 ≤ epsProb ε p n a := by
  unfold epsProb
  have : (0 : Rat) ≤ 1 / (n : Rat) := div_nonneg zero_le_one (Nat.cast_nonneg n)
  nlinarith [mul_nonneg (by linarith : (0 : Rat) ≤ 1 - ε) hp, mul_nonneg hε.1 this]

theorem inv_nat_le_one (n : Nat) : 1 / (n : Rat) ≤ 1 := by
  rcases Nat.eq_zero_or_pos n with h | h
  · subst h; simp
  · have : (1 : Rat) ≤ (n : Rat) := by exact_mod_cast h
    exact (div_le_one (by linarith)).mpr this

theorem epsProb_le_one {ε : Rat} (hε : 0 ≤ ε ∧ ε ≤ 1) {p : Nat → Rat} {n a : Nat} (hp : p a ≤ 1) : epsProb ε p n a ≤ 1 := by
  unfold epsProb
  nlinarith [mul_le_mul_of_nonneg_left hp (by linarith : (0 : Rat) ≤ 1 - ε), mul_le_mul_of_nonneg_left (inv_nat_le_one n) hε.1]

theorem epsProb_pos {ε : Rat} (hε : 0 < ε ∧ ε ≤ 1) {p : Nat → Rat} {n a : Nat} (hn : 0 < n) (hp : 0 ≤ p a) : 0 < epsProb ε p n a := by
  unfold epsProb
  have : (0 : Rat) < 1 / (n : Rat) := div_pos zero_lt_one (by exact_mod_cast hn)
  nlinarith [mul_nonneg (by linarith : (0 : Rat) ≤ 1 - ε) hp, mul_pos hε.1 this]

theorem epsProb_substochastic {ε : Rat} (hε : 0 ≤ ε ∧ ε ≤ 1) {p : Nat → Rat} {n : Nat} (hp : sumTo n p ≤ 1) :
    sumTo n (epsProb ε p n) ≤ 1 := by
  have : sumTo n (epsProb ε p n) = (1 - ε) * sumTo n p + (n : Rat) * (ε * (1 / (n : Rat))) := by
    unfold epsProb
    rw [sumTo_add, sumTo_mul_left, sumTo_const]
  rw [this]
  have hn : (n : Rat) * (ε * (1 / (n : Rat))) ≤ ε := by
    rcases Nat.eq_zero_or_pos n with h | h
    · subst h; simp; exact hε.1
    · have : (n : Rat) ≠ 0 := by exact_mod_cast (Nat.pos_iff_ne_zero.mp h)
      have : (n : Rat) * (ε * (1 / (n : Rat))) = ε := by field_simp
      linarith
  nlinarith [mul_le_mul_of_nonneg_left hp (by linarith : (0 : Rat) ≤ 1 - ε)]

/-! ### the repaired ("maximum first") form of the wrapper — repo 48b02c6, `GForm.repaired` -/

theorem repaired_prob_eq (q : Nat → Rat) (n a : Nat) : GForm.repaired.prob q n a =
    if ceG (q a) (maxTo q (n - 1)) then 1 / (countTo (fun i => ceG (q i) (maxTo q (n - 1))) n : Rat) else 0 := by
  show (if ceG (q a) (maxTo q (n - 1)) then 1 / ((tieList ceG q n).length : Rat) else 0) = _
  unfold tieList; rw [← countTo_eq_filter_length]

theorem repaired_prob_nonneg (q : Nat → Rat) (n a : Nat) : 0 ≤ GForm.repaired.prob q n a := by
  rw [repaired_prob_eq]; split
  · exact div_nonneg zero_le_one (Nat.cast_nonneg _)
  · exact le_refl _

theorem repaired_prob_le_one (q : Nat → Rat) (n a : Nat) : GForm.repaired.prob q n a ≤ 1 := by
  rw [repaired_prob_eq]; split
  · exact inv_nat_le_one _
  · exact zero_le_one

/-- **with the true maximum taken first the row is a probability distribution for EVERY value row**: sum exactly one -/
theorem repaired_prob_sum (q : Nat → Rat) (n : Nat) (hn : 0 < n) : sumTo n (GForm.repaired.prob q n) = 1 :=
  (greedy_repaired_coherent q n hn).2.2.2.2.1

theorem repaired_prob_sum_le (q : Nat → Rat) (n : Nat) : sumTo n (GForm.repaired.prob q n) ≤ 1 := by
  rcases Nat.eq_zero_or_pos n with h | h
  · subst h; simp [sumTo]
  · exact le_of_eq (repaired_prob_sum q n h)

end AITB.Pol

namespace AITB.Learn
open AITB.Pol (gProb epsProb Sep)

/-! ### `gProbX`: the greedy probability in the form the translator extracted (`Gen.C09.greedyMaxFirst`) -/

theorem gProbX_eq_repaired (h : AITB.Gen.C09.greedyMaxFirst = true) (q : Nat → Rat) (n a : Nat) :
    gProbX q n a = AITB.Pol.GForm.repaired.prob q n a := by
  unfold gProbX gForm; rw [h]; rfl

theorem gProbX_eq_gProb (h : AITB.Gen.C09.greedyMaxFirst = false) (q : Nat → Rat) (n a : Nat) :
    gProbX q n a = gProb q n a := by
  unfold gProbX gForm; rw [h]
  exact (AITB.Pol.greedy_as_written_eq q n).2.1 a

/-- whichever of the two forms the source has: every entry in [0,1] … -/
theorem gProbX_nonneg (q : Nat → Rat) (n a : Nat) : 0 ≤ gProbX q n a := by
  cases h : AITB.Gen.C09.greedyMaxFirst
  · rw [gProbX_eq_gProb h]; exact AITB.Pol.gProb_nonneg _ _ _
  · rw [gProbX_eq_repaired h]; exact AITB.Pol.repaired_prob_nonneg _ _ _

theorem gProbX_le_one (q : Nat → Rat) (n a : Nat) : gProbX q n a ≤ 1 := by
  cases h : AITB.Gen.C09.greedyMaxFirst
  · rw [gProbX_eq_gProb h]; exact AITB.Pol.gProb_le_one _ _ _
  · rw [gProbX_eq_repaired h]; exact AITB.Pol.repaired_prob_le_one _ _ _

/-- … and the row sums to at most one (form-independent: what the bounds theorems need) -/
theorem gProbX_substochastic (q : Nat → Rat) (n : Nat) : AITB.Pol.sumTo n (gProbX q n) ≤ 1 := by
  cases h : AITB.Gen.C09.greedyMaxFirst
  · rw [AITB.Pol.sumTo_congr (fun i _ => gProbX_eq_gProb h q n i)]; exact AITB.Pol.gProb_substochastic q n
  · rw [AITB.Pol.sumTo_congr (fun i _ => gProbX_eq_repaired h q n i)]; exact AITB.Pol.repaired_prob_sum_le q n

/-- **the stronger fact for the maximum-first form**: exactly one, for every value row, no separation hypothesis -/
theorem gProbX_sum_one (h : AITB.Gen.C09.greedyMaxFirst = true) (q : Nat → Rat) (n : Nat) (hn : 0 < n) :
    AITB.Pol.sumTo n (gProbX q n) = 1 := by
  rw [AITB.Pol.sumTo_congr (fun i _ => gProbX_eq_repaired h q n i)]; exact AITB.Pol.repaired_prob_sum q n hn

/-- on rows where `checkEqualGeneral` is transitive (in particular separated rows) the two forms give the same probabilities,
    so statements about such rows do not depend on the form -/
theorem gProbX_eq_gProb_on_classes (q : Nat → Rat) (n : Nat) (hn : 0 < n) (hcls : AITB.Pol.Cls q n) (a : Nat) (ha : a < n) :
    gProbX q n a = gProb q n a := by
  cases h : AITB.Gen.C09.greedyMaxFirst
  · exact gProbX_eq_gProb h q n a
  · rw [gProbX_eq_repaired h, (AITB.Pol.greedy_repaired_eq_on_classes q n hn hcls).2.1 a ha]
    exact (AITB.Pol.greedy_as_written_eq q n).2.1 a

theorem sumTo_eq_pol (n : Nat) (f : Nat → Rat) : sumTo n f = AITB.Pol.sumTo n f := by
  induction n with
  | zero => rfl
  | succ n ih => rw [sumTo, AITB.Pol.sumTo, ih]

/-- a policy row is non-negative and sums to AT MOST one (what the library's greedy objects guarantee) -/
def SubDist (A : Nat) (π : Nat → Nat → Rat) : Prop :=
  ∀ s, (∀ a, a < A → 0 ≤ π s a) ∧ sumTo A (π s) ≤ 1

theorem IsDist.sub {A : Nat} {π : Nat → Nat → Rat} (h : IsDist A π) : SubDist A π :=
  fun s => ⟨(h s).1, le_of_eq (h s).2⟩

theorem greedyPol_subdist (A : Nat) (tbl : QF) : SubDist A (greedyPol A tbl) :=
  fun s => ⟨fun a _ => gProbX_nonneg _ _ _, by rw [sumTo_eq_pol]; exact gProbX_substochastic (tbl s) A⟩

/-- **as extracted (maximum-first form): `QGreedyPolicy`'s rows are probability distributions for every table** — the hypothesis of
    round 1's `esarsa_bounded` (`IsDist`) now holds for the real policy object without any separation assumption -/
theorem greedyPol_isDist (h : AITB.Gen.C09.greedyMaxFirst = true) (A : Nat) (hA : 0 < A) (tbl : QF) : IsDist A (greedyPol A tbl) :=
  fun s => ⟨fun a _ => gProbX_nonneg _ _ _, by rw [sumTo_eq_pol]; exact gProbX_sum_one h (tbl s) A hA⟩

/-- obligation over the generated flag: the source has the maximum-first form, so the statement above applies to the library as it is -/
theorem greedyPol_isDist_as_extracted (A : Nat) (hA : 0 < A) (tbl : QF) : IsDist A (greedyPol A tbl) :=
  greedyPol_isDist (by decide) A hA tbl

theorem epsPol_subdist (ε : Rat) (hε : 0 ≤ ε ∧ ε ≤ 1) (A : Nat) (p : Nat → Nat → Rat) (hp : SubDist A p) :
    SubDist A (epsPol ε A p) :=
  fun s => ⟨fun a ha => AITB.Pol.epsProb_nonneg hε ((hp s).1 a ha),
    by rw [sumTo_eq_pol]; exact AITB.Pol.epsProb_substochastic hε (by rw [← sumTo_eq_pol]; exact (hp s).2)⟩

theorem polOf_subdist (kind : Nat) (ε : Rat) (hε : 0 ≤ ε ∧ ε ≤ 1) (A : Nat) (mat : Nat → Nat → Rat) (hm : SubDist A mat) (tbl : QF) :
    SubDist A (polOf kind ε A mat tbl) := by
  unfold polOf
  split
  · exact greedyPol_subdist A tbl
  · exact epsPol_subdist ε hε A _ (greedyPol_subdist A tbl)
  · exact hm

theorem sumTo_nonneg' (n : Nat) (w : Nat → Rat) (hw : ∀ i, i < n → 0 ≤ w i) : 0 ≤ sumTo n w := by
  rw [sumTo_eq_pol]; exact AITB.Pol.sumTo_nonneg hw

/-- the expectation under a sub-stochastic row stays in any interval that contains 0 -/
theorem expectedQ_in_sub (lo hi : Rat) (hlo : lo ≤ 0) (hhi : 0 ≤ hi) (A : Nat) (π : Nat → Nat → Rat) (q : QF) (s1 : Nat)
    (hπ : SubDist A π) (hq : Bdd lo hi q) : lo ≤ expectedQ A π q s1 ∧ expectedQ A π q s1 ≤ hi := by
  have h := sumTo_convex A (π s1) (q s1) lo hi (hπ s1).1 (fun i _ => hq s1 i)
  have hW0 := sumTo_nonneg' A (π s1) (hπ s1).1
  have hW1 := (hπ s1).2
  unfold expectedQ
  constructor
  · nlinarith [h.1, mul_nonneg (neg_nonneg.mpr hlo) (sub_nonneg.mpr hW1)]
  · nlinarith [h.2, mul_nonneg hhi (sub_nonneg.mpr hW1)]

theorem esarsaStep_Bdd_sub (lo hi γ α : Rat) (hlo : lo ≤ 0) (hhi : 0 ≤ hi) (A : Nat) (π : Nat → Nat → Rat) (q : QF) (s a s1 : Nat) (r : Rat)
    (hγ0 : 0 ≤ γ) (hα0 : 0 ≤ α) (hα1 : α ≤ 1) (hπ : SubDist A π) (hc : Closed lo hi γ r) (hq : Bdd lo hi q) :
    Bdd lo hi (esarsaStep γ α A π q s a s1 r) :=
  backup_Bdd lo hi γ α r _ q s a hγ0 hα0 hα1 hc hq (expectedQ_in_sub lo hi hlo hhi A π q s1 hπ hq)

/-- history of an ExpectedSARSA learner whose policy object reads the learner's table -/
def esarsaRunP (pol : QF → Nat → Nat → Rat) (γ : Rat) (A : Nat) (evs : List Ev) (q : QF) : QF :=
  evs.foldl (fun q e => esarsaStepP pol γ e.α A q e.s e.a e.s1 e.r) q

/-- **td_bounded (ExpectedSARSA with a table-dependent policy object)**: any policy object whose rows are sub-stochastic
    for every table it may read; zero table (or any table in the interval); all histories, per-step step sizes -/
theorem esarsaP_bounded_from (γ rmin rmax : Rat) (hγ0 : 0 ≤ γ) (hγ1 : γ < 1) (A : Nat)
    (pol : QF → Nat → Nat → Rat) (hpol : ∀ q, SubDist A (pol q))
    (evs : List Ev) (h : ∀ e ∈ evs, e.ok rmin rmax) (q0 : QF) (h0 : Bdd (loB rmin γ) (hiB rmax γ) q0) :
    Bdd (loB rmin γ) (hiB rmax γ) (esarsaRunP pol γ A evs q0) :=
  foldl_inv _ (Bdd _ _) (Ev.ok rmin rmax)
    (fun q e he hq => esarsaStep_Bdd_sub _ _ γ e.α (hull_zero γ rmin rmax hγ1).1 (hull_zero γ rmin rmax hγ1).2 A (pol q) q e.s e.a e.s1 e.r
      hγ0 he.2.1.1 he.2.1.2 (hpol q) (hull_closed γ rmin rmax e.r hγ0 hγ1 he.1) hq) evs h q0 h0

theorem esarsaP_bounded (γ rmin rmax : Rat) (hγ0 : 0 ≤ γ) (hγ1 : γ < 1) (A : Nat)
    (pol : QF → Nat → Nat → Rat) (hpol : ∀ q, SubDist A (pol q))
    (evs : List Ev) (h : ∀ e ∈ evs, e.ok rmin rmax) :
    Bdd (loB rmin γ) (hiB rmax γ) (esarsaRunP pol γ A evs (fun _ _ => 0)) :=
  esarsaP_bounded_from γ rmin rmax hγ0 hγ1 A pol hpol evs h _ (Bdd_zero γ rmin rmax hγ1)

/-- `ExpectedSARSA(q, QGreedyPolicy(q))`: clause 1 for every history, whatever near-ties the table develops -/
theorem esarsa_greedy_bounded (γ rmin rmax : Rat) (hγ0 : 0 ≤ γ) (hγ1 : γ < 1) (A : Nat)
    (evs : List Ev) (h : ∀ e ∈ evs, e.ok rmin rmax) :
    Bdd (loB rmin γ) (hiB rmax γ) (esarsaRunP (greedyPol A) γ A evs (fun _ _ => 0)) :=
  esarsaP_bounded γ rmin rmax hγ0 hγ1 A _ (greedyPol_subdist A) evs h

/-- `ExpectedSARSA(q, EpsilonPolicy(QGreedyPolicy(q), ε))` -/
theorem esarsa_epsgreedy_bounded (γ rmin rmax ε : Rat) (hγ0 : 0 ≤ γ) (hγ1 : γ < 1) (hε : 0 ≤ ε ∧ ε ≤ 1) (A : Nat)
    (evs : List Ev) (h : ∀ e ∈ evs, e.ok rmin rmax) :
    Bdd (loB rmin γ) (hiB rmax γ) (esarsaRunP (fun q => epsPol ε A (greedyPol A q)) γ A evs (fun _ _ => 0)) :=
  esarsaP_bounded γ rmin rmax hγ0 hγ1 A _ (fun q => epsPol_subdist ε hε A _ (greedyPol_subdist A q)) evs h

/-- hypotheses satisfiable: two events with rewards in [-1,2], γ = 1/2, step sizes 1 and 1/2 -/
example : Bdd (loB (-1) (1/2)) (hiB 2 (1/2))
    (esarsaRunP (greedyPol 2) (1/2) 2 [⟨0, 0, 1, 0, 2, 1, 0, true⟩, ⟨1, 1, 0, 0, -1, 1/2, 0, true⟩] (fun _ _ => 0)) :=
  esarsa_greedy_bounded (1/2) (-1) 2 (by norm_num) (by norm_num) 2 _ (by
    intro e he
    simp only [List.mem_cons, List.mem_nil_iff, or_false] at he
    rcases he with rfl | rfl <;> (unfold Ev.ok; norm_num))

/-- the expectation of a separated row under `QGreedyPolicy` is the row maximum -/
theorem expectedQ_greedyPol (A : Nat) (hA : 0 < A) (q : QF) (s1 : Nat) (hsep : Sep (q s1) A) :
    expectedQ A (greedyPol A q) q s1 = maxA A (q s1) := by
  obtain ⟨m, hmax, ⟨j, hj, hjm⟩, _, hprob, _, _, _, _⟩ := AITB.Pol.greedy_is_argmax (q s1) A hA hsep
  have hcpos : 0 < AITB.Pol.countTo (AITB.Pol.isTop (q s1) m) A :=
    AITB.Pol.countTo_pos (k := j) hj (by simp [AITB.Pol.isTop, hjm])
  have hm : maxA A (q s1) = m := by
    apply le_antisymm
    · obtain ⟨i, hi, he⟩ := maxTo_mem (A - 1) (q s1)
      unfold maxA; rw [he]; exact hmax i (by omega)
    · rw [← hjm]; exact maxTo_ge (A - 1) (q s1) j (by omega)
  unfold expectedQ greedyPol
  rw [sumTo_eq_pol, hm]
  rw [AITB.Pol.sumTo_congr (fun i hi => by rw [gProbX_eq_gProb_on_classes (q s1) A hA hsep.cls i hi])]
  have hc : ∀ i, i < A → gProb (q s1) A i * q s1 i
      = (if AITB.Pol.isTop (q s1) m i then (1 / (AITB.Pol.countTo (AITB.Pol.isTop (q s1) m) A : Rat)) * m else 0) := by
    intro i hi
    rw [hprob i hi]
    by_cases he : q s1 i = m
    · simp [AITB.Pol.isTop, he]
    · simp [AITB.Pol.isTop, he]
  rw [AITB.Pol.sumTo_congr hc, AITB.Pol.sumTo_indicator]
  have : (AITB.Pol.countTo (AITB.Pol.isTop (q s1) m) A : Rat) ≠ 0 := by exact_mod_cast (Nat.pos_iff_ne_zero.mp hcpos)
  field_simp

/-- **clause 2 through the library's greedy policy object**: on a deterministic MDP whose optimal table has exact
    ties only (the separation hypothesis of C09), `ExpectedSARSA(q*, QGreedyPolicy(q*))` leaves q* unchanged, for every
    number of actions, every step size and every sample of the MDP -/
theorem esarsa_greedyPol_qstar_fixed (γ : Rat) (A : Nat) (hA : 0 < A) (next : Nat → Nat → Nat) (R : Nat → Nat → Rat) (q : QF)
    (hq : IsQStar γ A next R q) (hsep : ∀ s, Sep (q s) A) (α : Rat) (s a : Nat) :
    esarsaStepP (greedyPol A) γ α A q s a (next s a) (R s a) = q := by
  unfold esarsaStepP esarsaStep; apply upd_self
  rw [expectedQ_greedyPol A hA q (next s a) (hsep _), ← hq s a]; ring

/-- the separation hypothesis is needed: q*(0,·) = (2, 2 + 5·10⁻⁷) is the optimal table of the one-state MDP below,
    `QGreedyPolicy` calls the two values equal, puts 1/2 on each, and the ExpectedSARSA backup moves q*(0,0) -/
theorem esarsa_greedy_near_tie_counterexample :
    ∃ (next : Nat → Nat → Nat) (R : Nat → Nat → Rat) (q : QF), IsQStar (1/2) 2 next R q ∧
      esarsaStepP (greedyPol 2) (1/2) 1 2 q 0 0 (next 0 0) (R 0 0) ≠ q := by
  refine ⟨fun _ _ => 0, fun _ a => if a = 0 then 1 - 1/4000000 else 1 + 1/4000000,
    fun _ a => if a = 0 then 2 else 2 + 1/2000000, ?_, ?_⟩
  · intro s a
    have : maxA 2 (fun a => if a = 0 then (2 : Rat) else 2 + 1/2000000) = 2 + 1/2000000 := by
      norm_num [maxA, maxTo]
    rw [this]
    by_cases h : a = 0 <;> simp [h] <;> norm_num
  · intro h
    have h00 := congrFun (congrFun h 0) 0
    -- in BOTH forms of the wrapper the two values are tolerance-tied and get 1/2 each
    cases hf : AITB.Gen.C09.greedyMaxFirst
    · simp only [esarsaStepP, esarsaStep, expectedQ, greedyPol, gProbX_eq_gProb hf] at h00
      norm_num [upd, sumTo, gProb, AITB.Pol.gProbAux, AITB.Pol.ceG, AITB.Pol.ceS,
        absQ, AITB.Pol.minQ, AITB.Pol.tolS, AITB.Pol.tolG, AITB.Gen.equalToleranceSmall, AITB.Gen.equalToleranceGeneral] at h00
    · simp only [esarsaStepP, esarsaStep, expectedQ, greedyPol, gProbX_eq_repaired hf, AITB.Pol.repaired_prob_eq] at h00
      norm_num [upd, sumTo, AITB.Pol.countTo, AITB.Pol.maxTo, AITB.Pol.ceG, AITB.Pol.ceS,
        absQ, AITB.Pol.minQ, AITB.Pol.tolS, AITB.Pol.tolG, AITB.Gen.equalToleranceSmall, AITB.Gen.equalToleranceGeneral] at h00

/-! ### clause 4 with the library's policy objects as target / behaviour -/

/-- off-policy evaluation (QL / Retrace / TreeBackup discounts) with ANY of the three policy objects as target and an
    ε-greedy object (ε > 0: every action possible) as behaviour, over tables `tt`, `tb` of any content -/
theorem eval_traces_bounded_policies (k : Kind) (hk : k ≠ .is) (γ α lam tol : Rat) (A : Nat) (hA : 0 < A)
    (kt : Nat) (εt εb : Rat) (hεt : 0 ≤ εt ∧ εt ≤ 1) (hεb : 0 < εb ∧ εb ≤ 1)
    (mat : Nat → Nat → Rat) (hmat : ∀ s a, 0 ≤ mat s a ∧ mat s a ≤ 1) (tt tb : QF)
    (hγ : 0 ≤ γ ∧ γ ≤ 1) (hl : 0 ≤ lam ∧ lam ≤ 1) (htol : tol ≤ 1) (evs : List TEv) (q0 : QF) :
    TrOK tol (evalRun k γ α lam tol A (polOf kt εt A mat tt) (epsPol εb A (greedyPol A tb)) evs ([], q0)).1 := by
  apply eval_traces_bounded k hk γ α lam tol A _ _ hγ hl htol
  · intro s a
    unfold polOf
    split
    · exact ⟨gProbX_nonneg _ _ _, gProbX_le_one _ _ _⟩
    · exact ⟨AITB.Pol.epsProb_nonneg hεt (gProbX_nonneg _ _ _), AITB.Pol.epsProb_le_one hεt (gProbX_le_one _ _ _)⟩
    · exact hmat s a
  · intro e _
    show 0 < AITB.Pol.epsProb εb (greedyPol A tb e.s) A e.a
    exact AITB.Pol.epsProb_pos hεb hA (gProbX_nonneg _ _ _)

/-- off-policy control (RetraceL reads its behaviour policy) with an ε-greedy behaviour object -/
theorem control_traces_bounded_epsgreedy (k : Kind) (hk : k ≠ .is) (γ α lam tol ε εb : Rat) (A : Nat) (hA : 0 < A)
    (hε : 0 ≤ ε ∧ ε ≤ 1) (hεb : 0 < εb ∧ εb ≤ 1) (tb : QF)
    (hγ : 0 ≤ γ ∧ γ ≤ 1) (hl : 0 ≤ lam ∧ lam ≤ 1) (htol : tol ≤ 1) (evs : List TEv) (q0 : QF) :
    TrOK tol (controlRun k γ α lam tol ε A (epsPol εb A (greedyPol A tb)) evs ([], q0)).1 :=
  control_traces_bounded k hk γ α lam tol ε A _ hA hε hγ hl htol evs
    (fun e _ => show 0 < AITB.Pol.epsProb εb (greedyPol A tb e.s) A e.a from
      AITB.Pol.epsProb_pos hεb hA (gProbX_nonneg _ _ _)) q0

end AITB.Learn
