/-
  AITB.Props.C04c — how the solvers BUILD entries: a cross-sum of Projecter outputs, one per observation, whose
  links are laid out in observation order, is a genuine one-step plan (`EntryOK oneStep`).  Covers
  `crossSumBestAtBelief` (Witness, PBVI, PERSEUS, LinearSupport) directly and `IncrementalPruning::crossSum` chains
  through the block lemmas (the merge schedule itself is in C04d).
-/
import AITB.Props.C04
import AITB.Props.C04b
import Mathlib.Tactic.FieldSimp

namespace AITB.Plan
open Finset

theorem getD_map_range (n : Nat) (f : Nat → Rat) (s : Nat) (h : s < n) : ((List.range n).map f).getD s 0 = f s := by
  rw [getD_eq_getElem' _ _ (by simpa using h)]; simp

theorem sum_map_range (n : Nat) (f : Nat → Rat) : ((List.range n).map f).sum = sumTo n f := by
  induction n with
  | zero => simp [sumTo]
  | succ n ih => rw [List.range_succ, List.map_append, List.sum_append, ih, sumTo]; simp

/-! ## what the Projecter emits -/

/-- the future-value part of a projection through previous entry `i` under `(a, o)` as the code cuts it -/
def fut (m : Pomdp) (prev : VList) (a o i s : Nat) : Rat :=
  if possible m a o then sumTo m.S (fun s1 => m.T a s s1 * m.Ob a s1 o * val (entryAt prev i) s1) else 0

theorem project_mem {m : Pomdp} {prev : VList} {a o : Nat} {p : VEntry} (hne : prev ≠ [])
    (hp : p ∈ project m prev a o) :
    p.action = a ∧ p.obs.length = 1 ∧ link p 0 < prev.length ∧ p.values.length = m.S ∧
    ∀ s, s < m.S → val p s = m.R s a / (m.O : Rat) + m.disc * fut m prev a o (link p 0) s := by
  unfold project at hp
  by_cases hpo : possible m a o = true
  · rw [if_pos hpo] at hp
    obtain ⟨i, hi, rfl⟩ := List.mem_map.mp hp
    have hi' : i < prev.length := List.mem_range.mp hi
    refine ⟨rfl, rfl, by simpa [link] using hi', by simp [projVec], ?_⟩
    intro s hs
    simp only [val, link, List.getD_cons_zero, projVec, fut, hpo, if_true]
    rw [getD_map_range _ _ _ hs]
    have : sumTo m.S (fun s1 => m.T a s s1 * ((entryAt prev i).values.getD s1 0 * m.Ob a s1 o)) =
        sumTo m.S (fun s1 => m.T a s s1 * m.Ob a s1 o * (entryAt prev i).values.getD s1 0) :=
      sumTo_congr (fun s1 _ => by ring)
    rw [this]; ring
  · rw [if_neg hpo] at hp
    have : p = ⟨immR m a, a, [0]⟩ := by simpa [show Gen.C04.projImpossibleLink = 0 from rfl] using hp
    subst this
    have hpo' : possible m a o = false := by simpa using hpo
    refine ⟨rfl, rfl, by simpa [link] using List.length_pos_iff.mpr hne, by simp [immR], ?_⟩
    intro s hs
    simp only [val, immR, fut, hpo', Bool.false_eq_true, if_false]
    rw [getD_map_range _ _ _ hs]; ring

theorem project_ne_nil' (m : Pomdp) {prev : VList} (a o : Nat) (hne : prev ≠ []) : project m prev a o ≠ [] := by
  unfold project
  split
  · have : 0 < prev.length := List.length_pos_iff.mpr hne
    intro h
    have h2 := congrArg List.length h
    simp only [List.length_map, List.length_range, List.length_nil] at h2
    omega
  · simp

/-! ## assembled entries are one-step plans -/

/-- `e` is a cross-sum of one Projecter output per observation, links in observation order -/
structure Assembled (m : Pomdp) (prev : VList) (a : Nat) (e : VEntry) : Prop where
  action : e.action = a
  obs_len : e.obs.length = m.O
  vals_len : e.values.length = m.S
  parts : ∃ p : Nat → VEntry, (∀ o, o < m.O → p o ∈ project m prev a o ∧ link e o = link (p o) 0) ∧
            ∀ s, s < m.S → val e s = sumTo m.O (fun o => val (p o) s)

/-- **assembled_entry_ok.**  Whatever projections are chosen (any belief, any pruning of the projection lists),
    their cross-sum with links in observation order is the one-step plan of action `a` over those links. -/
theorem assembled_entry_ok {m : Pomdp} {prev : VList} {a : Nat} {e : VEntry} (hne : prev ≠ []) (ha : a < m.A)
    (hO : 0 < m.O) (h : Assembled m prev a e) : EntryOK oneStep m prev e := by
  obtain ⟨p, hp, hv⟩ := h.parts
  refine ⟨by rw [h.action]; exact ha, h.obs_len, h.vals_len, ?_, ?_⟩
  · intro o ho
    rw [(hp o ho).2]; exact (project_mem hne (hp o ho).1).2.2.1
  · intro s hs
    rw [hv s hs]
    have h1 : sumTo m.O (fun o => val (p o) s) =
        sumTo m.O (fun o => m.R s a / (m.O : Rat) + m.disc * fut m prev a o (link e o) s) :=
      sumTo_congr (fun o ho => by rw [(project_mem hne (hp o ho).1).2.2.2.2 s hs, (hp o ho).2])
    rw [h1]
    unfold oneStep
    rw [h.action]
    have hO' : (m.O : Rat) ≠ 0 := Nat.cast_ne_zero.mpr (by omega)
    simp only [sumTo_eq, fut, Finset.sum_add_distrib, Finset.sum_const, Finset.card_range, nsmul_eq_mul, ← Finset.mul_sum]
    congr 1
    field_simp

/-! ## `crossSumBestAtBelief` assembles -/

theorem addV_spec : ∀ (x y : List Rat) (n : Nat), x.length = n → y.length = n →
    (addV x y).length = n ∧ ∀ s, s < n → (addV x y).getD s 0 = x.getD s 0 + y.getD s 0
  | [], [], n, hx, _ => by
    subst hx; exact ⟨rfl, fun s hs => absurd hs (by simp)⟩
  | [], _ :: _, n, hx, hy => by simp at hx hy; omega
  | _ :: _, [], n, hx, hy => by simp at hx hy; omega
  | a :: x, b :: y, n, hx, hy => by
    cases n with
    | zero => simp at hx
    | succ n =>
      obtain ⟨h1, h2⟩ := addV_spec x y n (by simpa using hx) (by simpa using hy)
      refine ⟨by simp [addV, h1], ?_⟩
      intro s hs
      cases s with
      | zero => simp [addV]
      | succ s => simpa [addV] using h2 s (by omega)

def bestOf (S : Nat) (b : Nat → Rat) (r : VList) : VEntry := entryAt r (bestAtPoint S b r).1

theorem bestOf_mem (S : Nat) (b : Nat → Rat) (r : VList) (hne : r ≠ []) : bestOf S b r ∈ r := by
  have h := (bestAtPoint_spec S b r hne).1
  unfold bestOf entryAt
  rw [getD_eq_getElem' _ _ h]; exact List.getElem_mem h

theorem csb_fold (S : Nat) (b : Nat → Rat) (a : Nat) : ∀ (row : List VList) (acc : VEntry),
    acc.action = a → acc.values.length = S → (∀ r ∈ row, (bestOf S b r).values.length = S) →
    let res := row.foldl (fun acc r => ⟨addV acc.values (bestOf S b r).values, a, acc.obs ++ [link (bestOf S b r) 0]⟩) acc
    res.action = a ∧ res.obs = acc.obs ++ row.map (fun r => link (bestOf S b r) 0) ∧ res.values.length = S ∧
    ∀ s, s < S → val res s = val acc s + (row.map (fun r => val (bestOf S b r) s)).sum
  | [], acc, ha, hl, _ => by simp [ha, hl]
  | r :: row, acc, ha, hl, hr => by
    have hrl := hr r (List.mem_cons_self ..)
    obtain ⟨a1, a2⟩ := addV_spec acc.values (bestOf S b r).values S hl hrl
    obtain ⟨i1, i2, i3, i4⟩ := csb_fold S b a row ⟨addV acc.values (bestOf S b r).values, a, acc.obs ++ [link (bestOf S b r) 0]⟩
      rfl a1 (fun r' hr' => hr r' (List.mem_cons_of_mem _ hr'))
    simp only [List.foldl_cons]
    refine ⟨i1, by rw [i2]; simp, i3, ?_⟩
    intro s hs
    rw [i4 s hs]
    simp only [val, List.map_cons, List.sum_cons]
    rw [a2 s hs]; ring

/-- **crossSumBestAtBelief_assembles.**  For every belief `b`, every action and every row of (possibly pruned,
    non-empty) projection lists, the entry built by `crossSumBestAtBelief` is a one-step plan over its links. -/
theorem crossSumBestAtBelief_ok {m : Pomdp} {prev : VList} {a : Nat} (b : Nat → Rat) (hne : prev ≠ []) (ha : a < m.A)
    (hO : 0 < m.O) (row : Nat → VList) (hrow : ∀ o, o < m.O → row o ≠ [] ∧ ∀ p ∈ row o, p ∈ project m prev a o) :
    EntryOK oneStep m prev (crossSumBestAtBeliefRow m.S b ((List.range m.O).map row) a) := by
  apply assembled_entry_ok hne ha hO
  have hlen : ∀ r ∈ (List.range m.O).map row, (bestOf m.S b r).values.length = m.S := by
    intro r hr
    obtain ⟨o, ho, rfl⟩ := List.mem_map.mp hr
    have ho' := List.mem_range.mp ho
    exact (project_mem hne ((hrow o ho').2 _ (bestOf_mem _ _ _ (hrow o ho').1))).2.2.2.1
  obtain ⟨c1, c2, c3, c4⟩ := csb_fold m.S b a ((List.range m.O).map row) ⟨List.replicate m.S 0, a, []⟩ rfl (by simp) hlen
  have hres : crossSumBestAtBeliefRow m.S b ((List.range m.O).map row) a =
      ((List.range m.O).map row).foldl (fun acc r => ⟨addV acc.values (bestOf m.S b r).values, a, acc.obs ++ [link (bestOf m.S b r) 0]⟩)
        ⟨List.replicate m.S 0, a, []⟩ := rfl
  rw [hres]
  refine ⟨c1, by rw [c2]; simp, c3, ⟨fun o => bestOf m.S b (row o), ?_, ?_⟩⟩
  · intro o ho
    refine ⟨(hrow o ho).2 _ (bestOf_mem _ _ _ (hrow o ho).1), ?_⟩
    simp only [link] at c2 ⊢
    rw [c2]
    simp only [List.nil_append, List.map_map]
    rw [getD_eq_getElem' _ _ (by simpa using ho)]
    simp
  · intro s hs
    rw [c4 s hs]
    have : val (⟨List.replicate m.S 0, a, []⟩ : VEntry) s = 0 := by
      simp only [val]; rw [getD_eq_getElem' _ _ (by simpa using hs)]; simp
    rw [this, List.map_map, zero_add]
    exact sum_map_range m.O (fun o => val (bestOf m.S b (row o)) s)

end AITB.Plan
