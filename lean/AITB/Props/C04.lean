import AITB.Model.Plan
import AITB.Model.PlanOps
namespace AITB.Plan
end AITB.Plan
