/-
  AITB.Props.C04 — "POMDP value functions are executable conditional plans".

  Theorems about AITB.Model.Plan (VEntry/VList/ValueFunction, Projecter, crossSum, Policy::sampleAction,
  execReturn).  Unbounded: any POMDP tables (arbitrary rationals), any S, A, O, any horizon, any belief
  (any function `Nat → Rat`, normalised or not), any observation history.
-/
import AITB.Model.Plan
import AITB.Model.PlanOps
import Mathlib.Algebra.Order.Field.Rat
import Mathlib.Algebra.BigOperators.Ring.Finset
import Mathlib.Algebra.Order.BigOperators.Group.Finset
import Mathlib.Tactic.Ring
import Mathlib.Tactic.Linarith

namespace AITB.Plan
open Finset

theorem getD_eq_getElem' {α} (l : List α) (d : α) {i : Nat} (h : i < l.length) : l.getD i d = l[i] := by
  rw [List.getD_eq_getElem?_getD, List.getElem?_eq_getElem h]; rfl

/-! ## sums -/

theorem sumTo_eq (n : Nat) (f : Nat → Rat) : sumTo n f = ∑ i ∈ range n, f i := by
  induction n with
  | zero => simp [sumTo]
  | succ n ih => rw [sumTo, ih, Finset.sum_range_succ]

theorem sumTo_congr {n : Nat} {f g : Nat → Rat} (h : ∀ i, i < n → f i = g i) : sumTo n f = sumTo n g := by
  rw [sumTo_eq, sumTo_eq]; exact Finset.sum_congr rfl (fun i hi => h i (Finset.mem_range.mp hi))

theorem sumTo_zero (n : Nat) : sumTo n (fun _ => 0) = 0 := by
  rw [sumTo_eq]; simp

theorem sumTo_le {n : Nat} {f g : Nat → Rat} (h : ∀ i, i < n → f i ≤ g i) : sumTo n f ≤ sumTo n g := by
  rw [sumTo_eq, sumTo_eq]; exact Finset.sum_le_sum (fun i hi => h i (Finset.mem_range.mp hi))

/-! ## maxima -/

theorem le_maxQ_left (a b : Rat) : a ≤ maxQ a b := by
  unfold maxQ; split <;> [exact le_of_lt ‹_›; exact le_refl _]

theorem le_maxQ_right (a b : Rat) : b ≤ maxQ a b := by
  unfold maxQ; split <;> [exact le_refl _; exact not_lt.mp ‹_›]

theorem maxQ_cases (a b : Rat) : maxQ a b = a ∨ maxQ a b = b := by
  unfold maxQ; split <;> simp

theorem le_maxTo {n : Nat} (f : Nat → Rat) {i : Nat} (h : i < n) : f i ≤ maxTo n f := by
  induction n with
  | zero => omega
  | succ n ih =>
    rw [maxTo]
    rcases Nat.lt_succ_iff_lt_or_eq.mp h with h1 | h1
    · exact le_trans (ih h1) (le_maxQ_left _ _)
    · subst h1; exact le_maxQ_right _ _

theorem maxTo_attained {n : Nat} (f : Nat → Rat) (h : 0 < n) : ∃ i, i < n ∧ maxTo n f = f i := by
  induction n with
  | zero => omega
  | succ n ih =>
    rw [maxTo]
    rcases Nat.eq_zero_or_pos n with h0 | h0
    · subst h0
      rcases maxQ_cases (maxTo 0 f) (f 0) with h1 | h1
      · exact ⟨0, by omega, by rw [h1]; rfl⟩
      · exact ⟨0, by omega, h1⟩
    · rcases maxQ_cases (maxTo n f) (f n) with h1 | h1
      · obtain ⟨i, hi, he⟩ := ih h0
        exact ⟨i, by omega, by rw [h1, he]⟩
      · exact ⟨n, by omega, h1⟩

theorem maxTo_le {n : Nat} (f : Nat → Rat) (c : Rat) (h : 0 < n) (hb : ∀ i, i < n → f i ≤ c) : maxTo n f ≤ c := by
  obtain ⟨i, hi, he⟩ := maxTo_attained f h
  rw [he]; exact hb i hi

/-! ## `Consistent`: the decidable predicate of the property -/

/-- an entry is a genuine one-step plan over `prev` w.r.t. the derivation `step` -/
structure EntryOK (step : Pomdp → VList → VEntry → Nat → Rat) (m : Pomdp) (prev : VList) (e : VEntry) : Prop where
  action_lt : e.action < m.A
  obs_len : e.obs.length = m.O
  vals_len : e.values.length = m.S
  link_lt : ∀ o, o < m.O → link e o < prev.length
  plan : ∀ s, s < m.S → val e s = step m prev e s

/-- every entry of every horizon ≥ 1 is a one-step plan over the previous horizon's list, all links in range -/
def ConsistentW (step : Pomdp → VList → VEntry → Nat → Rat) (m : Pomdp) (vf : VF) : Prop :=
  ∀ h, h + 1 < vf.length → ∀ id, id < (vlist vf (h+1)).length → EntryOK step m (vlist vf h) (entry vf (h+1) id)

/-- as the code builds it (sub-tolerance observations carry no future value) -/
def Consistent (m : Pomdp) (vf : VF) : Prop := ConsistentW oneStep m vf
/-- against the true expectation -/
def ConsistentExact (m : Pomdp) (vf : VF) : Prop := ConsistentW oneStepExact m vf

/-- observation probabilities the Projecter treats as impossible are exactly zero
    (true for every model whose non-zero observation probabilities exceed 1e-6) -/
def ZeroBelow (m : Pomdp) : Prop :=
  ∀ a o, a < m.A → o < m.O → possible m a o = false → ∀ s, s < m.S → m.Ob a s o = 0

theorem oneStep_eq_exact {m : Pomdp} (hz : ZeroBelow m) (prev : VList) (e : VEntry) (ha : e.action < m.A) (s : Nat) :
    oneStep m prev e s = oneStepExact m prev e s := by
  unfold oneStep oneStepExact
  congr 2
  apply sumTo_congr
  intro o ho
  by_cases hp : possible m e.action o = true
  · simp [hp]
  · have hp' : possible m e.action o = false := by simpa using hp
    simp only [hp', Bool.false_eq_true, if_false]
    symm
    rw [← sumTo_zero m.S]
    apply sumTo_congr
    intro s1 hs1
    rw [hz e.action o ha ho hp' s1 hs1]; ring

theorem consistent_exact_of_zeroBelow {m : Pomdp} {vf : VF} (hz : ZeroBelow m) (hc : Consistent m vf) :
    ConsistentExact m vf := by
  intro h hh id hid
  have ok := hc h hh id hid
  exact ⟨ok.action_lt, ok.obs_len, ok.vals_len, ok.link_lt,
    fun s hs => by rw [ok.plan s hs, oneStep_eq_exact hz _ _ ok.action_lt]⟩

/-! ## the checker is sound and complete for `Consistent` -/

theorem entryShapeB_iff (m : Pomdp) (prev : VList) (e : VEntry) :
    entryShapeB m prev e = true ↔
      (e.action < m.A ∧ e.obs.length = m.O ∧ e.values.length = m.S ∧ ∀ o, o < m.O → link e o < prev.length) := by
  simp [entryShapeB, and_assoc]

theorem entryValsB_eq_iff (m : Pomdp) (prev : VList) (e : VEntry) :
    entryValsB eqQ m prev e = true ↔ ∀ s, s < m.S → val e s = oneStep m prev e s := by
  simp [entryValsB, eqQ]

theorem levelB_iff (m : Pomdp) (prev cur : VList) :
    levelB eqQ m prev cur = true ↔ ∀ id, id < cur.length → EntryOK oneStep m prev (entryAt cur id) := by
  unfold levelB
  rw [List.all_eq_true]
  constructor
  · intro h id hid
    have hm : entryAt cur id ∈ cur := by
      unfold entryAt; rw [getD_eq_getElem' _ _ hid]; exact List.getElem_mem hid
    have := h _ hm
    rw [Bool.and_eq_true, entryShapeB_iff, entryValsB_eq_iff] at this
    obtain ⟨⟨h1, h2, h3, h4⟩, h5⟩ := this
    exact ⟨h1, h2, h3, h4, h5⟩
  · intro h e he
    obtain ⟨id, hid, rfl⟩ := List.getElem_of_mem he
    have ok := h id hid
    have e1 : entryAt cur id = cur[id] := by unfold entryAt; rw [getD_eq_getElem' _ _ hid]
    rw [e1] at ok
    rw [Bool.and_eq_true, entryShapeB_iff, entryValsB_eq_iff]
    exact ⟨⟨ok.action_lt, ok.obs_len, ok.vals_len, ok.link_lt⟩, ok.plan⟩

theorem consistentFrom_iff (m : Pomdp) : ∀ (prev : VList) (rest : List VList),
    consistentFrom eqQ m prev rest = true ↔ Consistent m (prev :: rest)
  | prev, [] => by
    simp only [consistentFrom, true_iff]
    intro h hh; simp at hh
  | prev, cur :: rest => by
    rw [consistentFrom, Bool.and_eq_true, levelB_iff, consistentFrom_iff m cur rest]
    constructor
    · rintro ⟨h0, hr⟩ h hh id hid
      cases h with
      | zero => exact h0 id hid
      | succ h =>
        have := hr h (by simpa using hh) id hid
        exact this
    · intro hc
      refine ⟨fun id hid => hc 0 (by simp) id hid, ?_⟩
      intro h hh id hid
      exact hc (h+1) (by simpa using hh) id hid

/-- L3: the Lean-evaluated checker decides `Consistent` (with exact comparison) -/
theorem consistentB_iff (m : Pomdp) (vf : VF) : consistentB eqQ m vf = true ↔ (vf ≠ [] ∧ Consistent m vf) := by
  cases vf with
  | nil => simp [consistentB]
  | cons v0 rest => simp [consistentB, consistentFrom_iff]

/-! ## executing a consistent value function earns what it promises -/

/-- pure algebra: `b · (R_a + γ Σ_o Σ_s1 T Ob w_o) = b·R_a + γ Σ_o tau(b,a,o) · w_o` -/
theorem plan_algebra (m : Pomdp) (b : Nat → Rat) (a : Nat) (w : Nat → Nat → Rat) :
    sumTo m.S (fun s => b s * (m.R s a + m.disc * sumTo m.O (fun o =>
        sumTo m.S (fun s1 => m.T a s s1 * m.Ob a s1 o * w o s1)))) =
    rewardB m b a + m.disc * sumTo m.O (fun o => dot m.S (tau m b a o) (w o)) := by
  simp only [sumTo_eq, rewardB, dot, tau]
  simp only [mul_add, Finset.sum_add_distrib]
  congr 1
  simp only [Finset.mul_sum, Finset.sum_mul]
  rw [Finset.sum_comm]
  apply Finset.sum_congr rfl; intro o _
  rw [Finset.sum_comm]
  apply Finset.sum_congr rfl; intro s1 _
  apply Finset.sum_congr rfl; intro s _
  ring

/-- **links_consistent_exec.**  If every entry is the one-step plan of its action and links (against the true
    expectation) and every link is in range, then for EVERY horizon `h` stored, every entry `id` of that horizon and
    every belief `b`, following the stored links for `h` steps earns exactly `b · values`. -/
theorem links_consistent_exec {m : Pomdp} {vf : VF} (hc : ConsistentExact m vf) :
    ∀ (h id : Nat) (b : Nat → Rat), h < vf.length → id < (vlist vf h).length →
      execReturn m vf h id b = dot m.S b (val (entry vf h id)) := by
  intro h
  induction h with
  | zero => intro id b _ _; simp [execReturn]
  | succ h ih =>
    intro id b hh hid
    have ok := hc h hh id hid
    simp only [execReturn]
    have hstep : ∀ o, o < m.O →
        execReturn m vf h (link (entry vf (h+1) id) o) (tau m b (entry vf (h+1) id).action o) =
        dot m.S (tau m b (entry vf (h+1) id).action o) (val (entry vf h (link (entry vf (h+1) id) o))) :=
      fun o ho => ih _ _ (by omega) (ok.link_lt o ho)
    rw [sumTo_congr hstep]
    have hv : dot m.S b (val (entry vf (h+1) id)) =
        sumTo m.S (fun s => b s * oneStepExact m (vlist vf h) (entry vf (h+1) id) s) := by
      unfold dot
      exact sumTo_congr (fun s hs => by rw [ok.plan s hs])
    rw [hv]
    unfold oneStepExact
    rw [plan_algebra m b (entry vf (h+1) id).action (fun o s1 => val (entryAt (vlist vf h) (link (entry vf (h+1) id) o)) s1)]
    rfl

/-- the form the code's own notion of consistency gives: with sub-tolerance observation probabilities exactly zero -/
theorem links_consistent_exec_thresholded {m : Pomdp} {vf : VF} (hz : ZeroBelow m) (hc : Consistent m vf)
    (h id : Nat) (b : Nat → Rat) (hh : h < vf.length) (hid : id < (vlist vf h).length) :
    execReturn m vf h id b = dot m.S b (val (entry vf h id)) :=
  links_consistent_exec (consistent_exact_of_zeroBelow hz hc) h id b hh hid

end AITB.Plan
