/-
  AITB.Props.C04 — "POMDP value functions are executable conditional plans".

  Theorems about AITB.Model.Plan (VEntry/VList/ValueFunction, Projecter, crossSum, Policy::sampleAction,
  execReturn).  Unbounded: any POMDP tables (arbitrary rationals), any S, A, O, any horizon, any belief
  (any function `Nat → Rat`, normalised or not), any observation history.
-/
import AITB.Model.Plan
import AITB.Model.PlanOps
import Mathlib.Algebra.Order.Field.Rat
import Mathlib.Algebra.BigOperators.Ring.Finset
import Mathlib.Algebra.Order.BigOperators.Group.Finset
import Mathlib.Tactic.Ring
import Mathlib.Tactic.Linarith

namespace AITB.Plan
open Finset

theorem getD_eq_getElem' {α} (l : List α) (d : α) {i : Nat} (h : i < l.length) : l.getD i d = l[i] := by
  rw [List.getD_eq_getElem?_getD, List.getElem?_eq_getElem h]; rfl

/-! ## sums -/

theorem sumTo_eq (n : Nat) (f : Nat → Rat) : sumTo n f = ∑ i ∈ range n, f i := by
  induction n with
  | zero => simp [sumTo]
  | succ n ih => rw [sumTo, ih, Finset.sum_range_succ]

theorem sumTo_congr {n : Nat} {f g : Nat → Rat} (h : ∀ i, i < n → f i = g i) : sumTo n f = sumTo n g := by
  rw [sumTo_eq, sumTo_eq]; exact Finset.sum_congr rfl (fun i hi => h i (Finset.mem_range.mp hi))

theorem sumTo_zero (n : Nat) : sumTo n (fun _ => 0) = 0 := by
  rw [sumTo_eq]; simp

theorem sumTo_le {n : Nat} {f g : Nat → Rat} (h : ∀ i, i < n → f i ≤ g i) : sumTo n f ≤ sumTo n g := by
  rw [sumTo_eq, sumTo_eq]; exact Finset.sum_le_sum (fun i hi => h i (Finset.mem_range.mp hi))

/-! ## maxima -/

theorem le_maxQ_left (a b : Rat) : a ≤ maxQ a b := by
  unfold maxQ; split <;> [exact le_of_lt ‹_›; exact le_refl _]

theorem le_maxQ_right (a b : Rat) : b ≤ maxQ a b := by
  unfold maxQ; split <;> [exact le_refl _; exact not_lt.mp ‹_›]

theorem maxQ_cases (a b : Rat) : maxQ a b = a ∨ maxQ a b = b := by
  unfold maxQ; split <;> simp

theorem le_maxTo {n : Nat} (f : Nat → Rat) {i : Nat} (h : i < n) : f i ≤ maxTo n f := by
  induction n with
  | zero => omega
  | succ n ih =>
    rw [maxTo]
    rcases Nat.lt_succ_iff_lt_or_eq.mp h with h1 | h1
    · exact le_trans (ih h1) (le_maxQ_left _ _)
    · subst h1; exact le_maxQ_right _ _

theorem maxTo_attained {n : Nat} (f : Nat → Rat) (h : 0 < n) : ∃ i, i < n ∧ maxTo n f = f i := by
  induction n with
  | zero => omega
  | succ n ih =>
    rw [maxTo]
    rcases Nat.eq_zero_or_pos n with h0 | h0
    · subst h0
      rcases maxQ_cases (maxTo 0 f) (f 0) with h1 | h1
      · exact ⟨0, by omega, by rw [h1]; rfl⟩
      · exact ⟨0, by omega, h1⟩
    · rcases maxQ_cases (maxTo n f) (f n) with h1 | h1
      · obtain ⟨i, hi, he⟩ := ih h0
        exact ⟨i, by omega, by rw [h1, he]⟩
      · exact ⟨n, by omega, h1⟩

theorem maxTo_le {n : Nat} (f : Nat → Rat) (c : Rat) (h : 0 < n) (hb : ∀ i, i < n → f i ≤ c) : maxTo n f ≤ c := by
  obtain ⟨i, hi, he⟩ := maxTo_attained f h
  rw [he]; exact hb i hi

/-! ## `Consistent`: the decidable predicate of the property -/

/-- an entry is a genuine one-step plan over `prev` w.r.t. the derivation `step` -/
structure EntryOK (step : Pomdp → VList → VEntry → Nat → Rat) (m : Pomdp) (prev : VList) (e : VEntry) : Prop where
  action_lt : e.action < m.A
  obs_len : e.obs.length = m.O
  vals_len : e.values.length = m.S
  link_lt : ∀ o, o < m.O → link e o < prev.length
  plan : ∀ s, s < m.S → val e s = step m prev e s

/-- every entry of every horizon ≥ 1 is a one-step plan over the previous horizon's list, all links in range -/
def ConsistentW (step : Pomdp → VList → VEntry → Nat → Rat) (m : Pomdp) (vf : VF) : Prop :=
  ∀ h, h + 1 < vf.length → ∀ id, id < (vlist vf (h+1)).length → EntryOK step m (vlist vf h) (entry vf (h+1) id)

/-- as the code builds it (sub-tolerance observations carry no future value) -/
def Consistent (m : Pomdp) (vf : VF) : Prop := ConsistentW oneStep m vf
/-- against the true expectation -/
def ConsistentExact (m : Pomdp) (vf : VF) : Prop := ConsistentW oneStepExact m vf

/-- observation probabilities the Projecter treats as impossible are exactly zero
    (true for every model whose non-zero observation probabilities exceed 1e-6) -/
def ZeroBelow (m : Pomdp) : Prop :=
  ∀ a o, a < m.A → o < m.O → possible m a o = false → ∀ s, s < m.S → m.Ob a s o = 0

theorem oneStep_eq_exact {m : Pomdp} (hz : ZeroBelow m) (prev : VList) (e : VEntry) (ha : e.action < m.A) (s : Nat) :
    oneStep m prev e s = oneStepExact m prev e s := by
  unfold oneStep oneStepExact
  congr 2
  apply sumTo_congr
  intro o ho
  by_cases hp : possible m e.action o = true
  · simp [hp]
  · have hp' : possible m e.action o = false := by simpa using hp
    simp only [hp', Bool.false_eq_true, if_false]
    symm
    rw [← sumTo_zero m.S]
    apply sumTo_congr
    intro s1 hs1
    rw [hz e.action o ha ho hp' s1 hs1]; ring

theorem consistent_exact_of_zeroBelow {m : Pomdp} {vf : VF} (hz : ZeroBelow m) (hc : Consistent m vf) :
    ConsistentExact m vf := by
  intro h hh id hid
  have ok := hc h hh id hid
  exact ⟨ok.action_lt, ok.obs_len, ok.vals_len, ok.link_lt,
    fun s hs => by rw [ok.plan s hs, oneStep_eq_exact hz _ _ ok.action_lt]⟩

/-! ## the checker is sound and complete for `Consistent` -/

theorem entryShapeB_iff (m : Pomdp) (prev : VList) (e : VEntry) :
    entryShapeB m prev e = true ↔
      (e.action < m.A ∧ e.obs.length = m.O ∧ e.values.length = m.S ∧ ∀ o, o < m.O → link e o < prev.length) := by
  simp [entryShapeB, and_assoc]

theorem entryValsB_eq_iff (m : Pomdp) (prev : VList) (e : VEntry) :
    entryValsB eqQ m prev e = true ↔ ∀ s, s < m.S → val e s = oneStep m prev e s := by
  simp [entryValsB, eqQ]

theorem levelB_iff (m : Pomdp) (prev cur : VList) :
    levelB eqQ m prev cur = true ↔ ∀ id, id < cur.length → EntryOK oneStep m prev (entryAt cur id) := by
  unfold levelB
  rw [List.all_eq_true]
  constructor
  · intro h id hid
    have hm : entryAt cur id ∈ cur := by
      unfold entryAt; rw [getD_eq_getElem' _ _ hid]; exact List.getElem_mem hid
    have := h _ hm
    rw [Bool.and_eq_true, entryShapeB_iff, entryValsB_eq_iff] at this
    obtain ⟨⟨h1, h2, h3, h4⟩, h5⟩ := this
    exact ⟨h1, h2, h3, h4, h5⟩
  · intro h e he
    obtain ⟨id, hid, rfl⟩ := List.getElem_of_mem he
    have ok := h id hid
    have e1 : entryAt cur id = cur[id] := by unfold entryAt; rw [getD_eq_getElem' _ _ hid]
    rw [e1] at ok
    rw [Bool.and_eq_true, entryShapeB_iff, entryValsB_eq_iff]
    exact ⟨⟨ok.action_lt, ok.obs_len, ok.vals_len, ok.link_lt⟩, ok.plan⟩

theorem consistentFrom_iff (m : Pomdp) : ∀ (prev : VList) (rest : List VList),
    consistentFrom eqQ m prev rest = true ↔ Consistent m (prev :: rest)
  | prev, [] => by
    simp only [consistentFrom, true_iff]
    intro h hh; simp at hh
  | prev, cur :: rest => by
    rw [consistentFrom, Bool.and_eq_true, levelB_iff, consistentFrom_iff m cur rest]
    constructor
    · rintro ⟨h0, hr⟩ h hh id hid
      cases h with
      | zero => exact h0 id hid
      | succ h =>
        have := hr h (by simpa using hh) id hid
        exact this
    · intro hc
      refine ⟨fun id hid => hc 0 (by simp) id hid, ?_⟩
      intro h hh id hid
      exact hc (h+1) (by simpa using hh) id hid

/-- L3: the Lean-evaluated checker decides `Consistent` (with exact comparison) -/
theorem consistentB_iff (m : Pomdp) (vf : VF) : consistentB eqQ m vf = true ↔ (vf ≠ [] ∧ Consistent m vf) := by
  cases vf with
  | nil => simp [consistentB]
  | cons v0 rest => simp [consistentB, consistentFrom_iff]

/-! ## executing a consistent value function earns what it promises -/

/-- pure algebra: `b · (R_a + γ Σ_o Σ_s1 T Ob w_o) = b·R_a + γ Σ_o tau(b,a,o) · w_o` -/
theorem plan_algebra (m : Pomdp) (b : Nat → Rat) (a : Nat) (w : Nat → Nat → Rat) :
    sumTo m.S (fun s => b s * (m.R s a + m.disc * sumTo m.O (fun o =>
        sumTo m.S (fun s1 => m.T a s s1 * m.Ob a s1 o * w o s1)))) =
    rewardB m b a + m.disc * sumTo m.O (fun o => dot m.S (tau m b a o) (w o)) := by
  simp only [sumTo_eq, rewardB, dot, tau]
  simp only [mul_add, Finset.sum_add_distrib]
  congr 1
  simp only [Finset.mul_sum, Finset.sum_mul]
  rw [Finset.sum_comm]
  apply Finset.sum_congr rfl; intro o _
  rw [Finset.sum_comm]
  apply Finset.sum_congr rfl; intro s1 _
  apply Finset.sum_congr rfl; intro s _
  ring

/-- **links_consistent_exec.**  If every entry is the one-step plan of its action and links (against the true
    expectation) and every link is in range, then for EVERY horizon `h` stored, every entry `id` of that horizon and
    every belief `b`, following the stored links for `h` steps earns exactly `b · values`. -/
theorem links_consistent_exec {m : Pomdp} {vf : VF} (hc : ConsistentExact m vf) :
    ∀ (h id : Nat) (b : Nat → Rat), h < vf.length → id < (vlist vf h).length →
      execReturn m vf h id b = dot m.S b (val (entry vf h id)) := by
  intro h
  induction h with
  | zero => intro id b _ _; simp [execReturn]
  | succ h ih =>
    intro id b hh hid
    have ok := hc h hh id hid
    simp only [execReturn]
    have hstep : ∀ o, o < m.O →
        execReturn m vf h (link (entry vf (h+1) id) o) (tau m b (entry vf (h+1) id).action o) =
        dot m.S (tau m b (entry vf (h+1) id).action o) (val (entry vf h (link (entry vf (h+1) id) o))) :=
      fun o ho => ih _ _ (by omega) (ok.link_lt o ho)
    rw [sumTo_congr hstep]
    have hv : dot m.S b (val (entry vf (h+1) id)) =
        sumTo m.S (fun s => b s * oneStepExact m (vlist vf h) (entry vf (h+1) id) s) := by
      unfold dot
      exact sumTo_congr (fun s hs => by rw [ok.plan s hs])
    rw [hv]
    unfold oneStepExact
    rw [plan_algebra m b (entry vf (h+1) id).action (fun o s1 => val (entryAt (vlist vf h) (link (entry vf (h+1) id) o)) s1)]
    rfl

/-- the form the code's own notion of consistency gives: with sub-tolerance observation probabilities exactly zero -/
theorem links_consistent_exec_thresholded {m : Pomdp} {vf : VF} (hz : ZeroBelow m) (hc : Consistent m vf)
    (h id : Nat) (b : Nat → Rat) (hh : h < vf.length) (hid : id < (vlist vf h).length) :
    execReturn m vf h id b = dot m.S b (val (entry vf h id)) :=
  links_consistent_exec (consistent_exact_of_zeroBelow hz hc) h id b hh hid

/-! ## the tabulated evaluation the driver runs is `execReturn` -/

theorem ofList_tauL (m : Pomdp) (b : List Rat) (a o s : Nat) (hs : s < m.S) :
    ofList (tauL m b a o) s = tau m (ofList b) a o s := by
  show (tauL m b a o).getD s 0 = tau m (ofList b) a o s
  unfold tauL
  rw [getD_eq_getElem' _ _ (by simpa using hs)]; simp

theorem execReturn_congr (m : Pomdp) (vf : VF) : ∀ (h id : Nat) (b b' : Nat → Rat), (∀ s, s < m.S → b s = b' s) →
    execReturn m vf h id b = execReturn m vf h id b' := by
  intro h
  induction h with
  | zero =>
    intro id b b' hb
    simp only [execReturn, dot]
    exact sumTo_congr (fun s hs => by rw [hb s hs])
  | succ h ih =>
    intro id b b' hb
    simp only [execReturn, rewardB]
    have h1 : sumTo m.S (fun s => b s * m.R s (entry vf (h+1) id).action) =
        sumTo m.S (fun s => b' s * m.R s (entry vf (h+1) id).action) := sumTo_congr (fun s hs => by rw [hb s hs])
    rw [h1]
    congr 2
    apply sumTo_congr
    intro o _
    apply ih
    intro s1 _
    unfold tau
    rw [sumTo_congr (fun s hs => by rw [hb s hs])]

theorem execFast_eq (m : Pomdp) (vf : VF) : ∀ (h id : Nat) (b : List Rat),
    execFast m vf h id b = execReturn m vf h id (ofList b) := by
  intro h
  induction h with
  | zero => intro id b; rfl
  | succ h ih =>
    intro id b
    simp only [execFast, execReturn]
    congr 2
    apply sumTo_congr
    intro o _
    rw [ih]
    exact execReturn_congr m vf h _ _ _ (fun s hs => ofList_tauL m b _ o s hs)

/-! ## the model as the Projecter sees it: no hypothesis on the observation table needed -/

theorem differentSmall0_zero : differentSmall0 0 = false := by
  simp [differentSmall0, absQ, Gen.equalToleranceSmall]

theorem possible_cutModel (m : Pomdp) (a o : Nat) : possible (cutModel m) a o = possible m a o := by
  by_cases hp : possible m a o = true
  · have e : ∀ s, (cutModel m).Ob a s o = m.Ob a s o := fun s => by simp [cutModel, hp]
    show (List.range (cutModel m).S).any (fun s => differentSmall0 ((cutModel m).Ob a s o)) = possible m a o
    simp only [e]; rfl
  · have hp' : possible m a o = false := by simpa using hp
    rw [hp']
    unfold possible cutModel
    simp only [hp', Bool.false_eq_true, if_false, differentSmall0_zero]
    simp

theorem zeroBelow_cutModel (m : Pomdp) : ZeroBelow (cutModel m) := by
  intro a o _ _ hp s _
  rw [possible_cutModel] at hp
  simp [cutModel, hp]

theorem oneStep_cutModel (m : Pomdp) (prev : VList) (e : VEntry) (s : Nat) :
    oneStep (cutModel m) prev e s = oneStep m prev e s := by
  unfold oneStep
  have h1 : (cutModel m).R = m.R := rfl
  have h2 : (cutModel m).disc = m.disc := rfl
  have h3 : (cutModel m).O = m.O := rfl
  have h4 : (cutModel m).S = m.S := rfl
  have h5 : (cutModel m).T = m.T := rfl
  rw [h1, h2, h3, h4, h5]
  congr 2
  apply sumTo_congr
  intro o _
  rw [possible_cutModel]
  by_cases hp : possible m e.action o = true
  · simp only [hp, if_true]
    apply sumTo_congr
    intro s1 _
    simp [cutModel, hp]
  · simp [hp]

theorem consistent_cutModel {m : Pomdp} {vf : VF} (hc : Consistent m vf) : Consistent (cutModel m) vf := by
  intro h hh id hid
  have ok := hc h hh id hid
  exact ⟨ok.action_lt, ok.obs_len, ok.vals_len, ok.link_lt, fun s hs => by rw [oneStep_cutModel]; exact ok.plan s hs⟩

/-- **links_consistent_exec_cut.**  `Consistent` exactly as the code builds it (no assumption on the model): executing
    the stored plan in the POMDP *as the Projecter sees it* (observation columns ≤ 1e-6 everywhere read as 0) earns
    exactly `b · values`, for every horizon, entry and belief.  (The driver evaluates this clause.) -/
theorem links_consistent_exec_cut {m : Pomdp} {vf : VF} (hc : Consistent m vf)
    (h id : Nat) (b : Nat → Rat) (hh : h < vf.length) (hid : id < (vlist vf h).length) :
    execReturn (cutModel m) vf h id b = dot m.S b (val (entry vf h id)) :=
  links_consistent_exec_thresholded (zeroBelow_cutModel m) (consistent_cutModel hc) h id b hh hid

/-! ## findBestAtPoint / Policy::sampleAction(b, h) -/

theorem bestScan_spec (S : Nat) (b : Nat → Rat) (l : VList) :
    ∀ (rest : List VEntry) (i best : Nat) (bv : Rat) (pre : List VEntry),
      l = pre ++ rest → i = pre.length → best < i → bv = dot S b (val (entryAt l best)) →
      (∀ j, j < i → dot S b (val (entryAt l j)) ≤ bv) →
      (bestScan S b l rest i best bv).1 < l.length ∧
      (bestScan S b l rest i best bv).2 = dot S b (val (entryAt l (bestScan S b l rest i best bv).1)) ∧
      ∀ j, j < l.length → dot S b (val (entryAt l j)) ≤ (bestScan S b l rest i best bv).2 := by
  intro rest
  induction rest with
  | nil =>
    intro i best bv pre hl hi hb hbv hall
    have hlen : l.length = i := by rw [hl, hi]; simp
    simp only [bestScan]
    exact ⟨by omega, hbv, fun j hj => hall j (by omega)⟩
  | cons e rest ih =>
    intro i best bv pre hl hi hb hbv hall
    have hei : entryAt l i = e := by
      unfold entryAt; rw [hl, hi]; simp
    simp only [bestScan]
    split
    · rename_i hc
      have hlt : bv ≤ dot S b (val e) := by
        rcases Bool.or_eq_true _ _ |>.mp hc with h1 | h1
        · exact le_of_lt (by simpa using h1)
        · have := (Bool.and_eq_true _ _ |>.mp h1).1
          have h2 : dot S b (val e) = bv := by simpa using this
          exact le_of_eq h2.symm
      apply ih (i+1) i (dot S b (val e)) (pre ++ [e]) (by rw [hl]; simp) (by rw [hi]; simp) (by omega) (by rw [hei])
      intro j hj
      rcases Nat.lt_succ_iff_lt_or_eq.mp hj with h1 | h1
      · exact le_trans (hall j h1) hlt
      · subst h1; rw [hei]
    · rename_i hc
      have hle : dot S b (val e) ≤ bv := by
        by_contra hcon
        apply hc
        have : bv < dot S b (val e) := not_le.mp hcon
        simp [this]
      apply ih (i+1) best bv (pre ++ [e]) (by rw [hl]; simp) (by rw [hi]; simp) (by omega) hbv
      intro j hj
      rcases Nat.lt_succ_iff_lt_or_eq.mp hj with h1 | h1
      · exact hall j h1
      · subst h1; rw [hei]; exact hle

/-- the modelled `findBestAtPoint` returns an index in range whose value is the maximum over the whole list -/
theorem bestAtPoint_spec (S : Nat) (b : Nat → Rat) (l : VList) (hne : l ≠ []) :
    (bestAtPoint S b l).1 < l.length ∧
    (bestAtPoint S b l).2 = dot S b (val (entryAt l (bestAtPoint S b l).1)) ∧
    ∀ j, j < l.length → dot S b (val (entryAt l j)) ≤ (bestAtPoint S b l).2 := by
  cases l with
  | nil => exact absurd rfl hne
  | cons e rest =>
    simp only [bestAtPoint]
    apply bestScan_spec S b (e :: rest) rest 1 0 _ [e] rfl rfl (by omega) (by simp [entryAt])
    intro j hj
    have : j = 0 := by omega
    subst this; simp [entryAt]

theorem envV_eq_of_max (S : Nat) (l : VList) (b : Nat → Rat) (id : Nat) (hid : id < l.length)
    (hmax : ∀ j, j < l.length → dot S b (val (entryAt l j)) ≤ dot S b (val (entryAt l id))) :
    envV S l b = dot S b (val (entryAt l id)) := by
  unfold envV
  apply le_antisymm
  · exact maxTo_le _ _ (by omega) hmax
  · exact le_maxTo (fun id => dot S b (val (entryAt l id))) hid

/-- **sampleAction_attains_envelope** (first reading of "the first action attains the maximum").
    `Policy::sampleAction(b, h)` returns an id in range, the action stored in that entry, that entry is a maximiser of
    `b·values` over the horizon's list, and executing from it earns exactly the envelope value `max_id b·values`. -/
theorem sampleAction_attains_envelope {m : Pomdp} {vf : VF} (hc : ConsistentExact m vf)
    (h : Nat) (b : Nat → Rat) (hh : h < vf.length) (hne : vlist vf h ≠ []) :
    (sampleActionB m vf b h).2 < (vlist vf h).length ∧
    (sampleActionB m vf b h).1 = (entry vf h (sampleActionB m vf b h).2).action ∧
    (∀ j, j < (vlist vf h).length →
        dot m.S b (val (entry vf h j)) ≤ dot m.S b (val (entry vf h (sampleActionB m vf b h).2))) ∧
    execReturn m vf h (sampleActionB m vf b h).2 b = envV m.S (vlist vf h) b := by
  obtain ⟨h1, h2, h3⟩ := bestAtPoint_spec m.S b (vlist vf h) hne
  have hmax : ∀ j, j < (vlist vf h).length →
      dot m.S b (val (entryAt (vlist vf h) j)) ≤ dot m.S b (val (entryAt (vlist vf h) (bestAtPoint m.S b (vlist vf h)).1)) := by
    intro j hj; rw [← h2]; exact h3 j hj
  refine ⟨h1, rfl, hmax, ?_⟩
  show execReturn m vf h (bestAtPoint m.S b (vlist vf h)).1 b = envV m.S (vlist vf h) b
  rw [links_consistent_exec hc h _ b hh h1]
  exact (envV_eq_of_max m.S (vlist vf h) b _ h1 hmax).symm

/-! ## Policy::sampleAction(id, o, h) along every observation history -/

/-- the syntactic fact read from `Policy.cpp` on every run: the link is looked up one level above `horizon` -/
theorem policyLinkLevel_eq : Gen.C04.policyLinkLevel = 1 := rfl

/-- every step of a replay lands on an entry that exists, and reports that entry's action -/
def FollowOK (vf : VF) : Nat → List (Nat × Nat) → Prop
  | _, [] => True
  | 0, _ :: _ => False
  | h+1, r :: rest => r.2 < (vlist vf h).length ∧ r.1 = (entry vf h r.2).action ∧ FollowOK vf h rest

/-- **links_in_range_all_histories.**  With every link in range, the replay of EVERY observation history (any
    length, observations `< O`) from any existing entry stays inside the stored lists at every step, so every call
    `Policy::sampleAction(id, o, h)` made along it has its precondition; the range-checked and the raw model agree. -/
theorem follow_in_range {step} {m : Pomdp} {vf : VF} (hc : ConsistentW step m vf) :
    ∀ (h id : Nat) (os : List Nat), h < vf.length → id < (vlist vf h).length → (∀ o ∈ os, o < m.O) →
      FollowOK vf h (follow vf h id os) ∧ (follow vf h id os).length = min h os.length := by
  intro h
  induction h with
  | zero => intro id os _ _ _; simp [follow, FollowOK]
  | succ h ih =>
    intro id os hh hid hos
    cases os with
    | nil => simp [follow, FollowOK]
    | cons o os =>
      have ok := hc h hh id hid
      have ho : o < m.O := hos o (List.mem_cons_self ..)
      have hl := ok.link_lt o ho
      obtain ⟨i1, i2⟩ := ih (link (entry vf (h+1) id) o) os (by omega) hl (fun o' ho' => hos o' (List.mem_cons_of_mem _ ho'))
      simp only [follow, sampleActionIdO, List.length_cons, policyLinkLevel_eq]
      refine ⟨⟨hl, rfl, i1⟩, ?_⟩
      rw [i2]; omega

theorem sampleActionIdO_defined {step} {m : Pomdp} {vf : VF} (hc : ConsistentW step m vf)
    (h id o : Nat) (hh : h + 1 < vf.length) (hid : id < (vlist vf (h+1)).length) (ho : o < m.O) :
    sampleActionIdO? vf id o h = some (sampleActionIdO vf id o h) := by
  have ok := hc h hh id hid
  have hl := ok.link_lt o ho
  have hcond : id < (vlist vf (h+1)).length ∧ o < (entry vf (h+1) id).obs.length := ⟨hid, by rw [ok.obs_len]; exact ho⟩
  unfold sampleActionIdO? sampleActionIdO
  simp only [policyLinkLevel_eq, hcond, hl, and_self, if_true]

/-! ## the first action and the look-ahead / the optimal value -/

theorem execReturn_succ (m : Pomdp) (vf : VF) (h id : Nat) (b : Nat → Rat) :
    execReturn m vf (h+1) id b = rewardB m b (entry vf (h+1) id).action +
      m.disc * sumTo m.O (fun o => execReturn m vf h (link (entry vf (h+1) id) o) (tau m b (entry vf (h+1) id).action o)) := rfl

/-- a plan's promised value never exceeds the one-step look-ahead of its own action on the previous envelope -/
theorem plan_le_lookahead {m : Pomdp} {vf : VF} (hc : ConsistentExact m vf) (hd : 0 ≤ m.disc)
    (h id : Nat) (b : Nat → Rat) (hh : h + 1 < vf.length) (hid : id < (vlist vf (h+1)).length) :
    dot m.S b (val (entry vf (h+1) id)) ≤ qVF m (vlist vf h) b (entry vf (h+1) id).action := by
  have ok := hc h hh id hid
  have hsum : sumTo m.O (fun o => execReturn m vf h (link (entry vf (h+1) id) o) (tau m b (entry vf (h+1) id).action o))
      ≤ sumTo m.O (fun o => envV m.S (vlist vf h) (tau m b (entry vf (h+1) id).action o)) := by
    apply sumTo_le
    intro o ho
    have hl := ok.link_lt o ho
    have e1 := links_consistent_exec hc h (link (entry vf (h+1) id) o) (tau m b (entry vf (h+1) id).action o) (by omega) hl
    have e2 : dot m.S (tau m b (entry vf (h+1) id).action o) (val (entry vf h (link (entry vf (h+1) id) o)))
        ≤ envV m.S (vlist vf h) (tau m b (entry vf (h+1) id).action o) := by
      unfold envV entry
      exact le_maxTo (fun j => dot m.S (tau m b (entryAt (vlist vf (h+1)) id).action o) (val (entryAt (vlist vf h) j))) hl
    show execReturn m vf h (link (entry vf (h+1) id) o) (tau m b (entry vf (h+1) id).action o) ≤ _
    rw [e1]; exact e2
  have e0 := links_consistent_exec hc (h+1) id b hh hid
  rw [execReturn_succ] at e0
  rw [← e0]
  unfold qVF
  exact add_le_add (le_refl _) (mul_le_mul_of_nonneg_left hsum hd)

/-- **first_action_attains** (second reading).  If at `b` the horizon-`h+1` list is closed under the one-step backup
    of the horizon-`h` list (the envelope property of an exact solver, C02), then the action returned by
    `Policy::sampleAction(b, h+1)` maximises the `(h+1)`-step Q-value `R(b,a) + γ Σ_o V_h(τ(b,a,o))`. -/
theorem first_action_attains {m : Pomdp} {vf : VF} (hc : ConsistentExact m vf) (hd : 0 ≤ m.disc)
    (h : Nat) (b : Nat → Rat) (hh : h + 1 < vf.length) (hne : vlist vf (h+1) ≠ [])
    (hclosed : ∀ a, a < m.A → qVF m (vlist vf h) b a ≤ envV m.S (vlist vf (h+1)) b) :
    (sampleActionB m vf b (h+1)).1 < m.A ∧
    ∀ a, a < m.A → qVF m (vlist vf h) b a ≤ qVF m (vlist vf h) b (sampleActionB m vf b (h+1)).1 := by
  obtain ⟨h1, h2, h3, h4⟩ := sampleAction_attains_envelope hc (h+1) b hh hne
  have ok := hc h hh _ h1
  refine ⟨by rw [h2]; exact ok.action_lt, ?_⟩
  intro a ha
  calc qVF m (vlist vf h) b a ≤ envV m.S (vlist vf (h+1)) b := hclosed a ha
    _ = execReturn m vf (h+1) (sampleActionB m vf b (h+1)).2 b := h4.symm
    _ = dot m.S b (val (entry vf (h+1) (sampleActionB m vf b (h+1)).2)) := links_consistent_exec hc _ _ b hh h1
    _ ≤ qVF m (vlist vf h) b (entry vf (h+1) (sampleActionB m vf b (h+1)).2).action := plan_le_lookahead hc hd h _ b hh h1
    _ = qVF m (vlist vf h) b (sampleActionB m vf b (h+1)).1 := by rw [h2]

/-- any stored plan, executed from any belief, earns at most the finite-horizon optimal value
    (links in range and actions `< A` suffice; the values stored in the entries are irrelevant here) -/
theorem exec_le_optimal {step} {m : Pomdp} {vf : VF} (hc : ConsistentW step m vf) (hd : 0 ≤ m.disc)
    (term : (Nat → Rat) → Rat)
    (hterm : ∀ id, id < (vlist vf 0).length → ∀ b, dot m.S b (val (entry vf 0 id)) ≤ term b) :
    ∀ (h id : Nat) (b : Nat → Rat), h < vf.length → id < (vlist vf h).length →
      execReturn m vf h id b ≤ optV m term h b := by
  intro h
  induction h with
  | zero => intro id b _ hid; simpa [execReturn, optV] using hterm id hid b
  | succ h ih =>
    intro id b hh hid
    have ok := hc h hh id hid
    rw [execReturn_succ]
    have hq : rewardB m b (entry vf (h+1) id).action +
        m.disc * sumTo m.O (fun o => execReturn m vf h (link (entry vf (h+1) id) o) (tau m b (entry vf (h+1) id).action o))
        ≤ optQ m term h b (entry vf (h+1) id).action := by
      unfold optQ
      refine add_le_add (le_refl _) ?_
      apply mul_le_mul_of_nonneg_left _ hd
      apply sumTo_le
      intro o ho
      exact ih _ _ (by omega) (ok.link_lt o ho)
    exact le_trans hq (le_maxTo (fun a => optQ m term h b a) ok.action_lt)

/-- **first_action_optimal.**  Where the stored envelope equals the optimal value (C02), the first action of the
    policy attains the maximum of the OPTIMAL `(h+1)`-step Q-function. -/
theorem first_action_optimal {m : Pomdp} {vf : VF} (hc : ConsistentExact m vf) (hd : 0 ≤ m.disc)
    (term : (Nat → Rat) → Rat)
    (hterm : ∀ id, id < (vlist vf 0).length → ∀ b, dot m.S b (val (entry vf 0 id)) ≤ term b)
    (h : Nat) (b : Nat → Rat) (hh : h + 1 < vf.length) (hne : vlist vf (h+1) ≠ [])
    (henv : envV m.S (vlist vf (h+1)) b = optV m term (h+1) b) :
    optQ m term h b (sampleActionB m vf b (h+1)).1 = optV m term (h+1) b := by
  obtain ⟨h1, h2, _, h4⟩ := sampleAction_attains_envelope hc (h+1) b hh hne
  have ok := hc h hh _ h1
  apply le_antisymm
  · exact le_maxTo (fun a => optQ m term h b a) (by rw [h2]; exact ok.action_lt)
  · rw [← henv, ← h4, execReturn_succ, h2]
    unfold optQ
    refine add_le_add (le_refl _) ?_
    apply mul_le_mul_of_nonneg_left _ hd
    apply sumTo_le
    intro o ho
    exact exec_le_optimal hc hd term hterm h _ _ (by omega) (ok.link_lt o ho)

end AITB.Plan
