/-
  AITB.Props.C13FG — `FactorGraph::getFactor`'s incremental neighbour lists (the merge loop + `inplace_merge` as written) and
  `FactorGraph::erase`'s removal hold exactly the agents the model's `nbrs` recomputes from the key sets.
-/
import AITB.Props.C13QF

namespace AITB.VE
open AITB.Factored


theorem mem_nbPush (a u : Nat) : ∀ (vars old : List Nat), u ∈ nbPush a vars old → u ∈ vars ∧ u ≠ a := by
  intro vars old
  induction vars, old using nbPush.induct a with
  | case1 old => intro h; simp [nbPush] at h
  | case2 xs ih => intro h; rw [nbPush] at h; simp only [if_true] at h; have := ih h; exact ⟨by simp [this.1], this.2⟩
  | case3 x xs hx ih =>
    intro h; rw [nbPush] at h; simp only [hx, if_false, List.mem_cons] at h
    rcases h with rfl | h
    · exact ⟨by simp, hx⟩
    · have := ih h; exact ⟨by simp [this.1], this.2⟩
  | case4 xs y ys ih => intro h; rw [nbPush] at h; simp only [if_true] at h; have := ih h; exact ⟨by simp [this.1], this.2⟩
  | case5 x xs y ys hx hlt ih =>
    intro h; rw [nbPush] at h; simp only [hx, if_false, hlt, if_true, List.mem_cons] at h
    rcases h with rfl | h
    · exact ⟨by simp, hx⟩
    · have := ih h; exact ⟨by simp [this.1], this.2⟩
  | case6 xs y ys hx hlt ih =>
    intro h; rw [nbPush] at h; simp only [hx, if_false, hlt, if_true] at h; have := ih h; exact ⟨by simp [this.1], this.2⟩
  | case7 x xs y ys hx hlt heq ih =>
    intro h; rw [nbPush] at h; simp only [hx, if_false, hlt, heq] at h; exact ih h

theorem mem_old_or_nbPush (a u : Nat) : ∀ (vars old : List Nat), u ∈ vars → u ≠ a → u ∈ old ∨ u ∈ nbPush a vars old := by
  intro vars old
  induction vars, old using nbPush.induct a with
  | case1 old => intro h; simp at h
  | case2 xs ih =>
    intro h hne; rw [nbPush]; simp only [if_true]
    rcases List.mem_cons.mp h with rfl | h
    · exact absurd rfl hne
    · exact ih h hne
  | case3 x xs hx ih =>
    intro h hne; rw [nbPush]; simp only [hx, if_false, List.mem_cons]
    rcases List.mem_cons.mp h with rfl | h
    · exact Or.inr (Or.inl rfl)
    · rcases ih h hne with h' | h'
      · exact Or.inl h'
      · exact Or.inr (Or.inr h')
  | case4 xs y ys ih =>
    intro h hne; rw [nbPush]; simp only [if_true]
    rcases List.mem_cons.mp h with rfl | h
    · exact absurd rfl hne
    · exact ih h hne
  | case5 x xs y ys hx hlt ih =>
    intro h hne; rw [nbPush]; simp only [hx, if_false, hlt, if_true, List.mem_cons]
    rcases List.mem_cons.mp h with rfl | h
    · exact Or.inr (Or.inl rfl)
    · rcases ih h hne with h' | h'
      · exact Or.inl (by simpa using h')
      · exact Or.inr (Or.inr h')
  | case6 xs y ys hx hlt ih =>
    intro h hne; rw [nbPush]; simp only [hx, if_false, hlt, if_true]
    rcases List.mem_cons.mp h with rfl | h
    · exact Or.inl (by simp)
    · rcases ih h hne with h' | h'
      · exact Or.inl (by simp [h'])
      · exact Or.inr h'
  | case7 x xs y ys hx hlt heq ih =>
    intro h hne; rw [nbPush]; simp only [hx, if_false, hlt, heq]
    rcases ih h hne with h' | h'
    · exact Or.inl (by simp [h'])
    · exact Or.inr h'

theorem mem_mergeS (u : Nat) : ∀ (l r : List Nat), u ∈ mergeS l r ↔ u ∈ l ∨ u ∈ r := by
  intro l r
  induction l, r using mergeS.induct with
  | case1 r => simp [mergeS]
  | case2 l hl => cases l <;> simp_all [mergeS]
  | case3 x l y r h ih => rw [mergeS]; simp only [h, if_true, List.mem_cons, ih]; tauto
  | case4 x l y r h ih => rw [mergeS]; simp only [h, if_false, List.mem_cons, ih]; tauto

/-- **the neighbour list after `getFactor`** holds exactly the old neighbours and the other agents of the new factor -/
theorem mem_nbUnion (a u : Nat) (vars old : List Nat) : u ∈ nbUnion a vars old ↔ u ∈ old ∨ (u ∈ vars ∧ u ≠ a) := by
  unfold nbUnion
  rw [mem_mergeS]
  constructor
  · rintro (h | h)
    · exact Or.inl h
    · exact Or.inr (mem_nbPush a u vars old h)
  · rintro (h | ⟨h1, h2⟩)
    · exact Or.inl h
    · rcases mem_old_or_nbPush a u vars old h1 h2 with h | h
      · exact Or.inl h
      · exact Or.inr h

theorem length_nbRegister (vars : List Nat) (vn : List (List Nat)) : (nbRegister vars vn).length = vn.length := by
  simp [nbRegister]

theorem mem_nbRegister (vars : List Nat) (vn : List (List Nat)) (a u : Nat) (ha : a < vn.length) :
    u ∈ (nbRegister vars vn).getD a [] ↔ u ∈ vn.getD a [] ∨ (a ∈ vars ∧ u ∈ vars ∧ u ≠ a) := by
  have : (nbRegister vars vn).getD a [] = if vars.contains a then nbUnion a vars (vn.getD a []) else vn.getD a [] := by
    simp [nbRegister, List.getD_eq_getElem?_getD, ha]
  rw [this]
  by_cases h : vars.contains a = true
  · have hm : a ∈ vars := by simpa using h
    simp only [h, if_true, mem_nbUnion]; tauto
  · have hm : a ∉ vars := by simpa using h
    simp only [h]; simp [hm]

theorem mem_nbFold (a u : Nat) : ∀ (scopes : List (List Nat)) (vn : List (List Nat)), a < vn.length →
    (u ∈ (scopes.foldl (fun vn s => nbRegister s vn) vn).getD a [] ↔
      u ∈ vn.getD a [] ∨ ∃ s ∈ scopes, a ∈ s ∧ u ∈ s ∧ u ≠ a)
  | [], vn, _ => by simp
  | s :: ss, vn, ha => by
    simp only [List.foldl_cons]
    rw [mem_nbFold a u ss (nbRegister s vn) (by rw [length_nbRegister]; exact ha), mem_nbRegister s vn a u ha]
    simp only [List.mem_cons, exists_eq_or_imp]
    tauto

/-- **FactorGraph bookkeeping**: after the graph has been built by `getFactor` calls (any order, repeated key sets
    included) the neighbour list `getVariables(a)` — maintained by the incremental sorted union as written — holds exactly
    the agents sharing a factor with `a`: the members of the model's `nbrs`, which recomputes them from the key sets. -/
theorem mem_nbBuild_iff_nbrs (n : Nat) (scopes : List (List Nat)) (hk : ∀ s ∈ scopes, ∀ k ∈ s, k < n) (a u : Nat) (ha : a < n) :
    u ∈ (nbBuild n scopes).getD a [] ↔ u ∈ nbrs n a scopes := by
  unfold nbBuild
  rw [mem_nbFold a u scopes _ (by simp; exact ha), mem_nbrs]
  have h0 : (List.replicate n ([] : List Nat)).getD a [] = [] := by
    simp [List.getD_eq_getElem?_getD, ha]
  rw [h0]
  constructor
  · rintro (h | ⟨s, hs, h1, h2, h3⟩)
    · simp at h
    · exact ⟨hk s hs u h2, h3, s, hs, h1, h2⟩
  · rintro ⟨_, h3, s, hs, h1, h2⟩
    exact Or.inr ⟨s, hs, h1, h2, h3⟩

/-- test on a literal: the incremental lists are also ascending and duplicate-free here (what `lsgraph` checks on every case) -/
example : nbBuild 5 [[1,3],[0,3,4],[3],[1,3],[0,1]] = [[1,3,4],[0,3],[],[0,1,4],[0,3]] ∧
    (List.range 5).map (fun a => nbrs 5 a [[1,3],[0,3,4],[3],[1,3],[0,1]]) = [[1,3,4],[0,3],[],[0,1,4],[0,3]] := by
  constructor <;> decide +kernel

end AITB.VE
