/-
  AITB.Props.C03Bridge — the values the C12 models of `sawtoothInterpolation` / `LPInterpolation` return are interpolated values in the
  sense of `IsInterp` (the notion `anytime_sound` is stated with), for a state whose surface is the list data handed to them.
  Hence: on a `Sound` state, every value those two functions (as modelled, repaired reading = the source now) return at an
  unnormalised belief dominates every lower reference there.
-/
import AITB.Props.C03Anytime
import AITB.Props.C12Interp
import AITB.Props.C12Cert

namespace AITB.POMDP3
open AITB.MDP AITB.Prune AITB.Interp AITB.C12Check

theorem rsum_eq_sumTo (n : Nat) (f : Nat → Rat) : rsum n f = sumTo n f := by
  induction n with
  | zero => simp [rsum, sumL, sumTo]
  | succ n ih =>
    have : rsum (n+1) f = rsum n f + f n := by
      unfold rsum
      rw [List.range_succ, List.map_append]
      have happ : ∀ (l : List Rat) (x : Rat), sumL (l ++ [x]) = sumL l + x := by
        intro l x
        induction l with
        | nil => simp [sumL]
        | cons a l ih => simp only [List.cons_append, sumL, ih]; ring
      simp only [List.map_cons, List.map_nil]
      exact happ _ _
    rw [this, ih]; rfl

theorem maxQ_eq (a b : Rat) : maxQ a b = if a < b then b else a := by
  unfold maxQ
  by_cases h : a ≤ b
  · rw [if_pos h]
    by_cases h' : a < b
    · rw [if_pos h']
    · rw [if_neg h']; linarith
  · rw [if_neg h, if_neg (by linarith)]

theorem maxL_map_range (n : Nat) (f : Nat → Rat) : Interp.maxL ((List.range (n+1)).map f) = maxTo n f := by
  induction n with
  | zero => simp [Interp.maxL, maxTo]
  | succ n ih =>
    have hne : (List.range (n+1)).map f = f 0 :: ((List.range n).map (fun i => f (i+1))) := by
      rw [List.range_succ_eq_map]; simp [List.map_map, Function.comp_def]
    have e : Interp.maxL ((List.range (n+1+1)).map f) = maxQ (Interp.maxL ((List.range (n+1)).map f)) (f (n+1)) := by
      rw [List.range_succ, List.map_append, hne]
      simp only [List.map_cons, List.map_nil, List.cons_append, Interp.maxL, List.foldl_append, List.foldl_cons, List.foldl_nil]
    rw [e, ih, maxQ_eq]
    rfl

theorem list_eq_map_range (l : List Rat) : l = (List.range l.length).map (fun i => l.getD i 0) := by
  apply List.ext_getElem
  · simp
  · intro i h1 h2
    simp [List.getD_eq_getElem?_getD, h1]

theorem maxL_eq_maxTo (row : List Rat) (A : Nat) (hlen : row.length = A) (hA : 0 < A) :
    Interp.maxL row = maxTo (A - 1) (fun a => row.getD a 0) := by
  conv_lhs => rw [list_eq_map_range row]
  have : row.length = (A - 1) + 1 := by omega
  rw [this]
  exact maxL_map_range (A - 1) _

theorem mixAt_eq_sumTo (s : Nat) : ∀ (wp : List Rat) (pts : List (List Rat)), wp.length = pts.length →
    mixAt wp pts s = sumTo pts.length (fun i => wp.getD i 0 * (pts.getD i []).getD s 0)
  | [], [], _ => by simp [Interp.mixAt_nil_left, sumTo]
  | w :: ws, p :: ps, h => by
    have hl : ws.length = ps.length := by simpa using h
    rw [Interp.mixAt_cons, mixAt_eq_sumTo s ws ps hl]
    simp only [List.length_cons]
    rw [← rsum_eq_sumTo, ← rsum_eq_sumTo, rsum_succ']
    simp
  | [], _ :: _, h => by simp at h
  | _ :: _, [], h => by simp at h

/-- list data ↦ the functions `IsInterp` talks about -/
def fnOf (v : List Rat) : Nat → Rat := fun s => v.getD s 0

/-- the common output form of the two C12 interpolation theorems is an `IsInterp` value -/
theorem weighted_form_isInterp (m : POMDP) (st : AState) (point : List Rat) (ubQ : List (List Rat)) (pts : List (List Rat)) (vals wc wp : List Rat) (v : Rat)
    (hS : point.length = m.S) (hA : 0 < m.A) (hrows : ubQ.length = point.length ∧ ∀ row ∈ ubQ, row.length = m.A)
    (hQ : ∀ s, s < m.S → ∀ a, a < m.A → st.Q s a = (ubQ.getD s []).getD a 0)
    (hP : ∀ i, i < pts.length → st.P (fnOf (pts.getD i [])) (vals.getD i 0))
    (hp : primalOK point wc wp pts = true)
    (hv : v = weightedValue (cornerVals ubQ) wc wp vals ∨ v = basicV point ubQ m.A) :
    IsInterp m st (fnOf point) v := by
  obtain ⟨hwc, hwp, hwcl, hwpl, hrec⟩ := (primalOK_iff point wc wp pts).mp hp
  have hrow : ∀ s, s < m.S → (ubQ.getD s []).length = m.A := by
    intro s hs
    have hs' : s < ubQ.length := by omega
    have : ubQ.getD s [] = ubQ[s] := by simp [List.getD_eq_getElem?_getD, hs']
    rw [this]; exact hrows.2 _ (List.getElem_mem _)
  rcases hv with hv | hv
  · right
    refine ⟨pts.length, fun i => fnOf (pts.getD i []), fnOf vals, fnOf wc, fnOf wp, hP,
      fun s _ => C12Check.getD_nonneg wc hwc s, fun i _ => C12Check.getD_nonneg wp hwp i, ?_, ?_⟩
    · intro s hs
      have := hrec s (by omega)
      unfold reconAt at this
      rw [mixAt_eq_sumTo s wp pts hwpl] at this
      unfold fnOf
      linarith
    · rw [hv]
      unfold weightedValue interpVal
      congr 1
      · rw [dot_eq_rsum m.S wc _ (by omega), rsum_eq_sumTo]
        refine sumTo_congr (fun s hs => ?_)
        unfold fnOf cornerVal cornerVals
        congr 1
        have hs' : s < ubQ.length := by omega
        have e1 : (ubQ.map Interp.maxL).getD s 0 = Interp.maxL (ubQ.getD s []) := by
          simp [List.getD_eq_getElem?_getD, hs']
        rw [e1, maxL_eq_maxTo _ m.A (hrow s hs) hA]
        exact maxTo_congr (fun a ha => (hQ s hs a (by omega)).symm)
      · rw [dot_eq_rsum pts.length wp _ (by omega), rsum_eq_sumTo]
        rfl
  · left
    rw [hv]
    unfold basicV basicVal
    have hA' : m.A = (m.A - 1) + 1 := by omega
    rw [hA', maxL_map_range]
    refine maxTo_congr (fun a ha => ?_)
    rw [dot_eq_rsum m.S point _ (by omega), rsum_eq_sumTo]
    refine sumTo_congr (fun s hs => ?_)
    unfold fnOf
    congr 1
    have hs' : s < ubQ.length := by omega
    have : (ubQ.map (fun row => row.getD a 0)).getD s 0 = (ubQ.getD s []).getD a 0 := by
      simp [List.getD_eq_getElem?_getD, hs']
    rw [this, hQ s hs a (by omega)]

/-- **sawtooth (as modelled, repaired reading) on a sound state is an upper bound of every lower reference** -/
theorem sawtooth_sound (m : POMDP) (hvm : Valid m) (U L : (Nat → Rat) → Rat) (hL : Sublin m.S L) (hsub : SubSol m L) (st : AState)
    (hs : Sound m U L st) (point : List Rat) (ubQ : List (List Rat)) (pts : List (List Rat)) (vals : List Rat)
    (hS : point.length = m.S) (hrows : ubQ.length = point.length ∧ ∀ row ∈ ubQ, row.length = m.A)
    (hQ : ∀ s, s < m.S → ∀ a, a < m.A → st.Q s a = (ubQ.getD s []).getD a 0)
    (hP : ∀ i, i < pts.length → st.P (fnOf (pts.getD i [])) (vals.getD i 0))
    (hpt : ∀ x ∈ point, 0 ≤ x) (hlen : vals.length = pts.length) (hpts : ∀ p ∈ pts, ∀ x ∈ p, 0 ≤ x)
    (hz : ∀ p ∈ pts, ∀ s, isZeroS (p.getD s 0) = true → p.getD s 0 = 0) (hptlen : ∀ p ∈ pts, p.length = point.length)
    (v : Rat) (w : List Rat) (h : sawtooth repaired point ubQ m.A pts vals = some ⟨v, some w⟩) :
    L (fnOf point) ≤ v := by
  have hx : NN (fnOf point) := fun s => C12Check.getD_nonneg point hpt s
  have hi : IsInterp m st (fnOf point) v := by
    rcases sawtooth_repaired_value hpt hrows hvm.A0 hlen hpts hz hptlen h with hv | ⟨wc, wp, hp, hv⟩
    · -- plane value: weights = the query itself on the corners
      left
      rw [hv]
      unfold basicV basicVal
      have hA' : m.A = (m.A - 1) + 1 := by have := hvm.A0; omega
      rw [hA', maxL_map_range]
      refine maxTo_congr (fun a ha => ?_)
      rw [dot_eq_rsum m.S point _ (by omega), rsum_eq_sumTo]
      refine sumTo_congr (fun s hs' => ?_)
      unfold fnOf
      congr 1
      have hs'' : s < ubQ.length := by omega
      have : (ubQ.map (fun row => row.getD a 0)).getD s 0 = (ubQ.getD s []).getD a 0 := by
        simp [List.getD_eq_getElem?_getD, hs'']
      rw [this, hQ s hs' a (by omega)]
    · exact weighted_form_isInterp m st point ubQ pts vals wc wp v hS hvm.A0 hrows hQ hP hp (Or.inl hv.symm)
  exact le_trans (hsub _ hx) (isInterp_ge m hvm U L hL st hs _ hx v hi)

/-- **LPInterpolation (as modelled, repaired reading; the LP an arbitrary oracle that is only assumed to return feasible points) on a sound
    state is an upper bound of every lower reference** — this is GapMin's `ub = LPInterpolation(initialBelief, ubQ, ubV)` -/
theorem lpInterp_sound (m : POMDP) (hvm : Valid m) (U L : (Nat → Rat) → Rat) (hL : Sublin m.S L) (hsub : SubSol m L) (st : AState)
    (hs : Sound m U L st) (lp : LpIn → Option (Rat × List Rat)) (point : List Rat) (ubQ : List (List Rat)) (pts : List (List Rat)) (vals : List Rat)
    (hS : point.length = m.S) (hrows : ubQ.length = point.length ∧ ∀ row ∈ ubQ, row.length = m.A)
    (hQ : ∀ s, s < m.S → ∀ a, a < m.A → st.Q s a = (ubQ.getD s []).getD a 0)
    (hP : ∀ i, i < pts.length → st.P (fnOf (pts.getD i [])) (vals.getD i 0))
    (hpt : ∀ x ∈ point, 0 ≤ x) (hlen : vals.length = pts.length) (hpts : ∀ p ∈ pts, ∀ x ∈ p, 0 ≤ x)
    (hzpt : ∀ s, isZeroS (point.getD s 0) = true → point.getD s 0 = 0)
    (hz : ∀ p ∈ pts, ∀ s, isZeroS (p.getD s 0) = true → p.getD s 0 = 0) (hptlen : ∀ p ∈ pts, p.length = point.length)
    (hlp : ∀ inp sol, lp inp = some sol → LpFeasible inp sol)
    (v : Rat) (w' : List Rat) (h : lpInterp repaired lp point ubQ m.A pts vals = some ⟨v, some w'⟩) :
    L (fnOf point) ≤ v := by
  have hx : NN (fnOf point) := fun s => C12Check.getD_nonneg point hpt s
  obtain ⟨w, _, hw0, hwl, hrec, hv⟩ := lpinterp_weights hpt hpts hptlen hlen hrows.1 hzpt hz hlp h
  have hp : primalOK point (w.take point.length) (w.drop point.length) pts = true := by
    refine (primalOK_iff _ _ _ _).mpr ⟨fun x hx' => hw0 x (List.mem_of_mem_take hx'), fun x hx' => hw0 x (List.mem_of_mem_drop hx'), ?_, ?_, hrec⟩
    · simp [List.length_take]; omega
    · simp [List.length_drop]; omega
  have hi := weighted_form_isInterp m st point ubQ pts vals _ _ v hS hvm.A0 hrows hQ hP hp hv
  exact le_trans (hsub _ hx) (isInterp_ge m hvm U L hL st hs _ hx v hi)

end AITB.POMDP3
