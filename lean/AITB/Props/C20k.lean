/-
  AITB.Props.C20k — round 3 of C20: FilterMap<T, Trie> along whole histories (emplace / rebuild from (getTrie(), items)) and the
  complete read path (filter, then any IndexMapIterator access path).  Core Lean only.
-/
import AITB.Props.C20j
import AITB.Props.C20h
namespace AITB.Trie

/-! ### FilterMap histories: emplace / rebuild from (getTrie(), new items) -/

inductive MOp where
  | emp (pf : PF) (x : Nat)
  | rbd (items : List Nat)

/-- model side; `none` = the constructor threw (or undefined behaviour inside `Trie::size`) -/
def mstep (st : Option FM) : MOp → Option FM
  | .emp pf x => st.map (fun m => m.emplace pf x)
  | .rbd items => st.bind (fun m => (FM.ofTrie false m.trie items).join)

/-- specification side: stored keys (id = position) and the item container -/
def mspecStep (s : Spec × List Nat) : MOp → Spec × List Nat
  | .emp pf x => (specInsert s.1 s.2.length pf, s.2 ++ [x])
  | .rbd items => (s.1, items)

def MOpOK (F : List Nat) (s : Spec × List Nat) : MOp → Prop
  | .emp pf _ => ValidPF F pf
  | .rbd items => items.length = s.2.length

def MHistOK (F : List Nat) : Spec × List Nat → List MOp → Prop
  | _, [] => True
  | s, op :: ops => MOpOK F s op ∧ MHistOK F (mspecStep s op) ops

theorem mrun_inv (F : List Nat) (hF : F ≠ []) (ops : List MOp) (m : FM) (es : Spec) (h : FMInv m es) (hmF : m.trie.F = F)
    (hok : MHistOK F (es, m.items) ops) :
    ∃ m', ops.foldl mstep (some m) = some m' ∧ FMInv m' (ops.foldl mspecStep (es, m.items)).1 ∧
      m'.items = (ops.foldl mspecStep (es, m.items)).2 ∧ m'.trie.F = F := by
  induction ops generalizing m es with
  | nil => exact ⟨m, rfl, h, rfl, hmF⟩
  | cons op ops ih =>
    obtain ⟨hop, hrest⟩ := hok
    cases op with
    | emp pf x =>
      have hv : ValidPF m.trie.F pf := by rw [hmF]; exact hop
      have h' := FMInv_emplace h hv x
      obtain ⟨_, hF', _⟩ := insert_cells m.trie pf h.1.shape hv
      have := ih (m.emplace pf x) _ h' (by simp only [FM.emplace]; rw [hF', hmF]) (by simpa [FM.emplace, mspecStep] using hrest)
      simpa [List.foldl_cons, mstep, mspecStep, FM.emplace] using this
    | rbd items =>
      have hl : items.length = m.items.length := hop
      obtain ⟨hacc, h'⟩ := FMInv_copy h (by rw [hmF]; exact hF) items hl
      have := ih ⟨m.trie, items⟩ es h' hmF (by simpa [mspecStep] using hrest)
      simp only [List.foldl_cons, mstep, Option.bind_some, hacc, Option.join_some, mspecStep]
      exact this

/-- **C20, FilterMap<T, Trie>** — for every factor space with ≥ 2 factors and every history of `emplace` and of rebuilding from
    `(getTrie(), new items of the same size)`: the constructor accepts, and afterwards `filter` read through the IndexMap yields exactly
    the items emplaced (or supplied) for the entries compatible with the query, in id order, every id inside the container;
    `size()` is the number of entries; `operator[]` and `begin()…end()` give the items by position. -/
theorem filtermap_refines_spec (F : List Nat) (t0 : T) (hmk : T.mk? F = some t0) (ops : List MOp) (hok : MHistOK F ([], []) ops) :
    ∃ m, ops.foldl mstep (some ⟨t0, []⟩) = some m ∧
      let es := (ops.foldl mspecStep ([], [])).1
      let its := (ops.foldl mspecStep ([], [])).2
      (∀ fb q, ValidQ F q → q ≠ [] → m.filterChecked fb q = some ((specFilter es q).map (fun id => its[id]?)) ∧
          ∀ id ∈ specFilter es q, id < its.length) ∧
      m.size = es.length ∧ es.length = its.length ∧ m.all = its ∧ (∀ id, m.get id = its[id]?) := by
  have hF0 : t0.F = F ∧ 2 ≤ F.length := by
    unfold T.mk? at hmk
    split at hmk
    · cases hmk
    · cases hmk; exact ⟨rfl, by omega⟩
  have hne : F ≠ [] := by intro e; rw [e] at hF0; simp at hF0
  obtain ⟨m, hr, hinv, hits, hmF⟩ := mrun_inv F hne ops ⟨t0, []⟩ [] (FMInv_new hmk) hF0.1 hok
  have hlen : (ops.foldl mspecStep ([], [])).1.length = m.items.length := by
    have := congrArg List.length hinv.2.1
    simpa [specIds] using this
  refine ⟨m, hr, ?_, ?_, ?_, ?_, ?_⟩
  · intro fb q hq hqne
    obtain ⟨_, hlt, _⟩ := filtermap_filter_spec hinv fb q (by rw [hmF]; exact hq) hqne
    refine ⟨?_, fun id hid => by rw [← hits]; exact hlt id hid⟩
    simp only [FM.filterChecked, filter_spec hinv.1 fb q (by rw [hmF]; exact hq) hqne, Option.map_some, hits]
  · simp only [FM.size]; exact hlen.symm
  · rw [← hits]; exact hlen
  · exact hits
  · intro id; simp only [FM.get, hits]

example : MHistOK [3, 2] ([], []) [.emp [(0, 1)] 10, .emp [] 11, .rbd [20, 21], .emp [(0, 2), (1, 0)] 22] := by
  simp [MHistOK, MOpOK, mspecStep, specInsert, ValidPF, KeysAsc]

/-! ### the whole read path: filter, then any iterator access path of the IndexMap -/

open AITB.IndexMap in
/-- under the FilterMap invariant, every access path of `IndexMapIterator` over a filter result (`++`, `+ k`, `[k]` forwards;
    `--`, `- k` backwards) reads exactly the items of the compatible entries, all defined -/
theorem filter_read_paths {m : FM} {es : Spec} (h : FMInv m es) (q : PF) :
    let r : AITB.IndexMap.Rng := ⟨specFilter es q, m.items⟩
    let want := (specFilter es q).map (fun id => some (m.items.getD id 0))
    walk r = want ∧ walkPlus r = want ∧ walkSub r = want ∧ walkRev r = want.reverse ∧ walkMinus r = want.reverse := by
  have hv : AITB.IndexMap.vals ⟨specFilter es q, m.items⟩ = (specFilter es q).map (fun id => some (m.items.getD id 0)) := by
    unfold AITB.IndexMap.vals
    apply List.map_congr_left
    intro id hid
    obtain ⟨e, he, _⟩ := (mem_specFilter es q id).mp hid
    have hlt : id < m.items.length := by have := h.1.lt id e he; rw [h.2.2] at this; exact this
    simp [List.getD_eq_getElem?_getD, List.getElem?_eq_getElem hlt]
  refine ⟨?_, ?_, ?_, ?_, ?_⟩
  · rw [walk_eq_vals, hv]
  · rw [walkPlus_eq_vals, hv]
  · rw [walkSub_eq_vals, hv]
  · rw [walkRev_eq, hv]
  · rw [walkMinus_eq, hv]

/-! ### FilterMap<T, FasterTrie> histories -/

def mfstep (st : Option FMF) : MOp → Option FMF
  | .emp pf x => st.bind (fun m => m.emplace pf x)
  | .rbd items => st.bind (fun m => FMF.ofTrie m.trie items)

def MFOpOK (F : List Nat) (s : Spec × List Nat) : MOp → Prop
  | .emp pf _ => ValidPF F pf ∧ pf ≠ []
  | .rbd items => items.length = s.2.length

def MFHistOK (F : List Nat) : Spec × List Nat → List MOp → Prop
  | _, [] => True
  | s, op :: ops => MFOpOK F s op ∧ MFHistOK F (mspecStep s op) ops

theorem mfrun_inv (F : List Nat) (ops : List MOp) (m : FMF) (es : Spec) (h : FMFInv m es) (hmF : m.trie.F = F)
    (hok : MFHistOK F (es, m.items) ops) :
    ∃ m', ops.foldl mfstep (some m) = some m' ∧ FMFInv m' (ops.foldl mspecStep (es, m.items)).1 ∧
      m'.items = (ops.foldl mspecStep (es, m.items)).2 ∧ m'.trie.F = F := by
  induction ops generalizing m es with
  | nil => exact ⟨m, rfl, h, rfl, hmF⟩
  | cons op ops ih =>
    obtain ⟨hop, hrest⟩ := hok
    cases op with
    | emp pf x =>
      have hv : ValidPF m.trie.F pf := by rw [hmF]; exact hop.1
      obtain ⟨m1, he, h'⟩ := FMFInv_emplace h hv hop.2 x
      have hm1 : m1.items = m.items ++ [x] ∧ m1.trie.F = m.trie.F := by
        cases pf with
        | nil => exact absurd rfl hop.2
        | cons kv r =>
          simp only [FMF.emplace, FT.insert, Option.map_some, Option.some.injEq] at he
          subst he; exact ⟨rfl, rfl⟩
      have := ih m1 _ h' (by rw [hm1.2, hmF]) (by rw [hm1.1]; simpa [mspecStep] using hrest)
      rw [hm1.1] at this
      simpa [List.foldl_cons, mfstep, mspecStep, he] using this
    | rbd items =>
      have hl : items.length = m.items.length := hop
      obtain ⟨hacc, h'⟩ := FMFInv_copy h items hl
      have := ih ⟨m.trie, items⟩ es h' hmF (by simpa [mspecStep] using hrest)
      simp only [List.foldl_cons, mfstep, Option.bind_some, hacc, mspecStep]
      exact this

/-- **C20, FilterMap<T, FasterTrie>** — every history of `emplace` (non-empty keys) and rebuilds from `(getTrie(), items)`: `filter(f)` for a
    full or prefix assignment reads, through the IndexMap, exactly the items of the compatible entries (each once, every id inside the
    container); `size()` is the number of entries -/
theorem filtermapF_refines_spec (F : List Nat) (ops : List MOp) (hok : MFHistOK F ([], []) ops) :
    ∃ m, ops.foldl mfstep (some ⟨FT.new F, []⟩) = some m ∧
      let es := (ops.foldl mspecStep ([], [])).1
      let its := (ops.foldl mspecStep ([], [])).2
      (∀ f : List Nat, f.length ≤ F.length → (∀ j, j < f.length → f.getD j 0 < F.getD j 0) →
        ∃ ids : List Nat, m.filter f = ids.map (fun id => its.getD id 0) ∧ ids.Nodup ∧
          (∀ id, id ∈ ids ↔ id ∈ specFilter es (prefixPF 0 f)) ∧ ∀ id ∈ ids, id < its.length) ∧
      m.trie.size = es.length ∧ es.length = its.length := by
  obtain ⟨m, hr, hinv, hits, hmF⟩ := mfrun_inv F ops ⟨FT.new F, []⟩ [] (FMFInv_new F) rfl hok
  have hlen : (ops.foldl mspecStep ([], [])).1.length = m.items.length := by
    have := congrArg List.length hinv.2.1
    simpa [specIds] using this
  refine ⟨m, hr, ?_, ft_size_spec hinv.1, by rw [← hits]; exact hlen⟩
  intro f hl hv
  have := filtermapF_filter_spec hinv f (by rw [hmF]; exact hl) (by rw [hmF]; exact hv)
  rw [hits] at this
  exact this

example : MFHistOK [3, 2] ([], []) [.emp [(0, 1)] 10, .emp [(1, 0)] 11, .rbd [20, 21], .emp [(0, 2), (1, 0)] 22] := by
  simp [MFHistOK, MFOpOK, mspecStep, specInsert, ValidPF, KeysAsc]


/-! ### FasterTrie histories in which keys may be empty, with the guard of fixes/C20-5 -/

def FOp.keyEmpty : FOp → Bool
  | .ins pf => pf.isEmpty
  | .erp _ pf => pf.isEmpty

/-- one call on the guarded FasterTrie: an empty-key `insert` throws (state unchanged), an empty-key `erase` returns -/
def fstepG (st : Option FT) : FOp → Option FT
  | .ins pf => st.bind (fun t => (t.insertG true pf).map (fun r => match r with | none => t | some x => x.1))
  | .erp id pf => st.bind (fun t => t.eraseG true id pf)

theorem fstepG_foldl (ops : List FOp) (st : Option FT) :
    ops.foldl fstepG st = (ops.filter (fun op => !op.keyEmpty)).foldl fstep st := by
  induction ops generalizing st with
  | nil => rfl
  | cons op ops ih =>
    rw [List.foldl_cons, ih]
    cases op with
    | ins pf =>
      cases pf with
      | nil =>
        have : fstepG st (.ins []) = st := by cases st <;> rfl
        rw [this]; rfl
      | cons kv r =>
        have : fstepG st (.ins (kv :: r)) = fstep st (.ins (kv :: r)) := by
          cases st with
          | none => rfl
          | some t => simp [fstepG, fstep, FT.insertG, Option.map_map, Function.comp_def]
        rw [this]; rfl
    | erp id pf =>
      cases pf with
      | nil =>
        have : fstepG st (.erp id []) = st := by cases st <;> rfl
        rw [this]; rfl
      | cons kv r =>
        have : fstepG st (.erp id (kv :: r)) = fstep st (.erp id (kv :: r)) := by cases st <;> rfl
        rw [this]; rfl

/-- **C20, FasterTrie with the empty-key guard**: for every history of insert / erase(id, key) in which keys may also be *empty*, the guarded
    FasterTrie never reaches undefined behaviour; the empty-key calls change nothing (insert is rejected), and all the statements of
    `fastertrie_refines_spec` hold w.r.t. the entries of the other calls -/
theorem fastertrie_guarded_refines_spec (F : List Nat) (ops : List FOp)
    (hok : FHistOK F ([], 0) (ops.filter (fun op => !op.keyEmpty))) :
    let stored := ((ops.filter (fun op => !op.keyEmpty)).foldl fspecStep ([], 0)).1
    ∃ t, ops.foldl fstepG (some (FT.new F)) = some t ∧ RIF t stored ∧
      (∀ f id, f.length ≤ F.length → (∀ j, j < f.length → f.getD j 0 < F.getD j 0) →
        (id ∈ t.filter f ↔ id ∈ specFilter stored (prefixPF 0 f))) ∧
      (∀ f, (t.filter f).Nodup) ∧ t.size = stored.length := by
  obtain ⟨t, hr, hRI, hmem, _, hnd, hsz⟩ := fastertrie_refines_spec F _ hok
  exact ⟨t, by rw [fstepG_foldl]; exact hr, hRI, hmem, hnd, hsz⟩

example : FHistOK [3, 2] ([], 0) (([.ins [(0, 1)], .ins [], .erp 0 [], .ins [(0, 2), (1, 0)], .erp 0 [(0, 1)]] : List FOp).filter (fun op => !op.keyEmpty)) := by
  simp [FHistOK, FOpOK, fspecStep, specInsert, ValidPF, KeysAsc, FOp.keyEmpty]


/-! ### `reconstruct`'s Factors and the library's `merge` -/


theorem mergePFs_keys (a b : PF) (lo : Nat) (ha : KeysAsc lo a) (hb : KeysAsc lo b) :
    ∀ kv ∈ mergePFs a b, (∃ v, (kv.1, v) ∈ a) ∨ (∃ v, (kv.1, v) ∈ b) := by
  intro kv hkv
  have hasc := mergePFs_asc a b lo ha hb
  have hl : lookup (mergePFs a b) kv.1 = some kv.2 := lookup_of_mem hasc hkv
  rw [mergePFs_lookup a b lo ha hb] at hl
  cases hb' : lookup b kv.1 with
  | some v => exact Or.inr ⟨v, lookup_mem hb'⟩
  | none =>
    rw [hb'] at hl
    exact Or.inl ⟨kv.2, lookup_mem hl⟩

/-- **what `reconstruct` returns is what `merge` denotes**: overwriting an assignment by `merge(a, b)` is overwriting it by `a` and then by `b`
    (so the Factors returned by `FasterTrie::reconstruct` — `reconstruct_factors`: the query overwritten by the returned entries in order —
    is the assignment of the library's `merge` of the query and those entries) -/
theorem assign_merge (f : List Nat) (a b : PF) (lo : Nat) (ha : KeysAsc lo a) (hb : KeysAsc lo b)
    (hka : ∀ kv ∈ a, kv.1 < f.length) (hkb : ∀ kv ∈ b, kv.1 < f.length) :
    assign f (mergePFs a b) = assign (assign f a) b := by
  have hkm : ∀ kv ∈ mergePFs a b, kv.1 < f.length := by
    intro kv hkv
    rcases mergePFs_keys a b lo ha hb kv hkv with ⟨v, hv⟩ | ⟨v, hv⟩
    · exact hka (kv.1, v) hv
    · exact hkb (kv.1, v) hv
  apply List.ext_getElem
  · rw [assign_length, assign_length, assign_length]
  · intro k h1 h2
    have e1 := assign_get f (mergePFs a b) lo (mergePFs_asc a b lo ha hb) hkm k
    have e2 := assign_get (assign f a) b lo hb (by intro kv hkv; rw [assign_length]; exact hkb kv hkv) k
    have e3 := assign_get f a lo ha hka k
    rw [List.getD_eq_getElem?_getD, List.getElem?_eq_getElem h1] at e1
    rw [List.getD_eq_getElem?_getD, List.getElem?_eq_getElem h2] at e2
    simp only [Option.getD_some] at e1 e2
    rw [e1, e2, e3, mergePFs_lookup a b lo ha hb]
    cases lookup b k <;> rfl


/-! ### the shuffle oracle is complete -/


theorem removeNth_length {α} (l : List α) (c : Nat) (h : c < l.length) : (removeNth l c).length + 1 = l.length := by
  induction l generalizing c with
  | nil => simp at h
  | cons x xs ih =>
    cases c with
    | zero => simp [removeNth]
    | succ c =>
      simp only [List.length_cons] at h
      have := ih c (by omega)
      simp only [removeNth, List.length_cons]; omega

/-- **every shuffle outcome is an oracle**: any rearrangement `l'` of `l` is produced by some oracle prefix, and what is left of the oracle
    afterwards is arbitrary (`rest`) — so consecutive shuffles are independent and "for every oracle" in the reconstruct theorems
    (`reconstruct_compatible`, `reconstruct_maximal`, `reconstruct_store`, …) means "for every outcome of every `std::shuffle` call" -/
theorem permute_surj {α} [Inhabited α] (l' : List α) : ∀ (fuel : Nat) (l : List α) (rest : List Nat), l'.Perm l → l.length ≤ fuel →
    ∃ o : List Nat, permute fuel (o ++ rest) l = (l', rest) := by
  induction l' with
  | nil =>
    intro fuel l rest hp _
    have : l = [] := List.Perm.eq_nil (hp.symm)
    subst this
    refine ⟨[], ?_⟩
    cases fuel <;> rfl
  | cons y ys ih =>
    intro fuel l rest hp hf
    have hy : y ∈ l := hp.subset List.mem_cons_self
    obtain ⟨c, hc, hget⟩ := List.getElem_of_mem hy
    cases l with
    | nil => cases hy
    | cons x xs =>
      cases fuel with
      | zero => simp at hf
      | succ fuel =>
        have hgd : (x :: xs).getD c default = y := by
          rw [List.getD_eq_getElem?_getD, List.getElem?_eq_getElem hc, Option.getD_some, hget]
        have hperm : ys.Perm (removeNth (x :: xs) c) := by
          have h1 := removeNth_perm (x :: xs) c default hc
          rw [hgd] at h1
          exact (hp.trans h1.symm).cons_inv
        have hlen := removeNth_length (x :: xs) c hc
        obtain ⟨o', ho'⟩ := ih fuel (removeNth (x :: xs) c) rest hperm (by simp only [List.length_cons] at hf hlen; omega)
        refine ⟨c :: o', ?_⟩
        simp only [permute, List.cons_append, List.headD_cons, List.drop_succ_cons, List.drop_zero, Nat.mod_eq_of_lt hc, ho', hgd]

theorem shuffle_surj {α} [Inhabited α] (l l' : List α) (rest : List Nat) (hp : l'.Perm l) :
    ∃ o : List Nat, shuffle (o ++ rest) l = (l', rest) :=
  permute_surj l' l.length l rest hp (Nat.le_refl _)

example : ∃ o : List Nat, shuffle (o ++ [7, 7]) [10, 20, 30] = ([30, 10, 20], [7, 7]) := shuffle_surj _ _ _ (by decide)


/-! ### the precondition the repaired constructor still needs -/


/-- `Trie({2,2})`, two inserts of `{0:1}`, `erase(1)`: the *most recent* entry was erased — ids `{0}`, next id 2 -/
def trailTrie : T := ⟨[2, 2], 2, [[[], [0], []], [[], [], [0]]]⟩

theorem trailTrie_reachable :
    (T.mk? [2, 2]).map (fun t => ((t.insert [(0, 1)]).1.insert [(0, 1)]).1.erase 1) = some trailTrie := rfl

theorem trailTrie_RI : RI trailTrie [(0, [(0, 1)])] := by
  have h0 : RI (⟨[2, 2], 0, [[[], [], []], [[], [], []]]⟩ : T) [] := RI_mk (F := [2, 2]) rfl
  have v : ValidPF [2, 2] [(0, 1)] := by simp [ValidPF, KeysAsc]
  exact RI_erase (RI_insert (RI_insert h0 v) v) 1

/-- **what the id-range test cannot see** (the precondition fixes/C20-4 leaves to the documentation): a trie whose most recent entry was erased
    holds only ids inside a container of its size, so the repaired constructor accepts it; the next `emplace` pairs item position 1 with id 2,
    and the filter then hands out id 2 of a 2-item container.  The invariant `FMInv` (`counter = #items`) is what excludes it. -/
theorem ofTrieChecked_trailing_counterexample :
    (FM.ofTrieChecked false trailTrie [42]).map (fun r => r.map (fun m => m.items)) = some (some [42]) ∧
      ((⟨trailTrie, [42]⟩ : FM).emplace [(0, 1)] 43).filterChecked false [(0, 1)] = some [some 42, none] := by
  have hF : trailTrie.F ≠ [] := by simp [trailTrie]
  refine ⟨by simp only [FM.ofTrieChecked, size_spec trailTrie_RI hF, getAllIds_spec trailTrie_RI hF, Option.bind_some, Option.map_some]; decide, ?_⟩
  have v : ValidPF trailTrie.F [(0, 1)] := by simp [ValidPF, KeysAsc, trailTrie]
  have hRI := RI_insert trailTrie_RI v
  have hq : ValidQ (trailTrie.insert [(0, 1)]).1.F [(0, 1)] := by intro kv hkv; simp at hkv; subst hkv; decide
  simp only [FM.filterChecked, FM.emplace, filter_spec hRI false [(0, 1)] hq (by simp), Option.map_some]
  decide


end AITB.Trie
