/-
  AITB.Props.C17Oblig — obligations of C17 over the regenerated module `AITB.Gen.IOPrec` that concern the stream
  abstraction of the codec model (kept in a module of their own: a source change that breaks one of them must not take
  the theorems of `C17Final` down with it).
-/
import AITB.Gen.IOPrec

namespace AITB.Codec

/-- obligation: every reader touches its stream only through formatted extraction, `peek` and `setstate(failbit)` —
    what makes "the stream is the list of its unread white-space separated tokens" a sound reading of the code -/
theorem IOPrec_formatted_only : AITB.Gen.IOPrec.formattedOnly.all (·.2) = true := by decide

/-- obligation: no reader clears or reconfigures its stream — failbit is sticky (`loadSeq`, `Rd.bind`) -/
theorem IOPrec_never_clears : AITB.Gen.IOPrec.neverClears.all (·.2) = true := by decide

end AITB.Codec
