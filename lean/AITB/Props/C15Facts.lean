/-
  AITB.Props.C15Facts — the syntactic facts of the two LP builders that `AITB.Model.FLPGen` hard-wires, re-extracted from the
  source on every run by `tools/extract_c15.py`.  If the source changes one of them this obligation stops checking (a broken
  tie, reported by check.py) until the model is brought in line.  `AITB.Gen.mdpJoinsFinals` is deliberately NOT fixed here:
  both values are modelled (`mdpFinalRows`), the driver selects the variant, and the theorems say which guarantee each has
  (`mdpLP_sound` for both, `mdpLP_equiv` for `true`).
-/
import AITB.Gen.C15Facts
import AITB.Model.FLPGen

namespace AITB.FLP

/-- FactoredLP takes 2 columns per new factor (the model's `sides = 2` in `flpGen`), the MDP LP 1; `crossSum` stores the
    coefficient 1.0 by overwriting (rows are sets of columns: `veRows`); FactoredLP's `makeResult` sums the final factors on
    each side (`flpFinalRows`); the three MDP setup loops skip zero entries (`mdpEntryLoop`); without `mergeFactors` GVE appends
    new rules and cross-sums every matching rule (`addRule`, `hit`) -/
theorem gen_facts_hold :
    AITB.Gen.flpColumnsPerFactor = 2 ∧ AITB.Gen.mdpColumnsPerFactor = 1 ∧
    AITB.Gen.flpCrossSumSetsOne = true ∧ AITB.Gen.mdpCrossSumSetsOne = true ∧
    AITB.Gen.flpJoinsFinals = true ∧ AITB.Gen.mdpZeroSkipSites = 3 ∧ AITB.Gen.gveAppendsAndSumsAllMatches = true := by
  decide

/-- the shared helpers one level below the two builders still have the bodies their models were written from:
    `checkEqualSmall` (|a − b| ≤ tolerance: `isZeroSmall`), `join(S, tag, actionTag)` (`joinTag`), the `toIndexPartial` overload
    `removeFactor` calls (`toIndexPartial`), `PartialFactorsEnumerator::advance` (`toFactors (sel nb A) jvID`) -/
theorem helper_facts_hold :
    AITB.Gen.helperCheckEqualSmallIsAbsLe = true ∧ AITB.Gen.helperJoinKeysOffsetsByS = true ∧
    AITB.Gen.helperToIndexPartialPF = true ∧ AITB.Gen.helperEnumeratorAdvance = true := by
  decide

/-- the variant of the MDP final rows the driver uses is the one the source has -/
theorem mdpFinalRows_variant (finals : List Nat) :
    mdpFinalRows AITB.Gen.mdpJoinsFinals finals
      = if AITB.Gen.mdpJoinsFinals then [⟨finals.map (fun c => (c, 1)), .le, 0⟩] else finals.map (fun c => ⟨[(c, 1)], .le, 0⟩) := rfl

end AITB.FLP
