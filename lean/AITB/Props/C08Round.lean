/-
  AITB.Props.C08Round — robustness of the exact-rational sampling theorems (property C08) against
  rounding of the subtraction `p -= in[i]`.  The subtraction is an arbitrary function `sub` with
  an absolute error bound `ε` (IEEE: 2⁻⁵³ for results of magnitude ≤ 1); comparisons are exact.
  Unbounded: any list, any length, any draw, any such `sub`.
-/
import AITB.Props.C08Dense
import AITB.Props.C08Project

namespace AITB.Sampling

/-- the exact comparison `a > b` as a Boolean (comparisons are exact in IEEE arithmetic) -/
def rd_gt : Rat → Rat → Bool := fun a b => decide (a > b)

theorem rd_cons_nonneg {x : Rat} {xs : List Rat} (h : ∀ y ∈ x :: xs, 0 ≤ y) :
    0 ≤ x ∧ ∀ y ∈ xs, 0 ≤ y :=
  ⟨h x (List.mem_cons_self ..), fun y hy => h y (List.mem_cons_of_mem _ hy)⟩

/-- loop invariant, "returned at offset `k`": `q` is the exact remainder, `p` the rounded one,
    `e` the error accumulated so far -/
theorem rd_denseGoA_some (sub : Rat → Rat → Rat) (ε : Rat)
    (hsub : ∀ a b, absQ (sub a b - (a - b)) ≤ ε) :
    ∀ (l : List Rat) (p q e : Rat) (i0 k : Nat), (∀ x ∈ l, 0 ≤ x) →
      absQ (p - q) ≤ e → -e ≤ q →
      denseGoA rd_gt sub l p i0 = some (i0 + k) →
      k < l.length ∧ cum l k - (e + (k : Rat) * ε) ≤ q ∧ q < cum l (k + 1) + (e + (k : Rat) * ε)
  | [], _, _, _, _, _, _, _, _, h => by simp [denseGoA] at h
  | x :: xs, p, q, e, i0, k, hnn, hpq, hq, h => by
    obtain ⟨hx, hxs⟩ := rd_cons_nonneg hnn
    obtain ⟨hpq1, hpq2⟩ := (absQ_le_iff _ _).mp hpq
    simp only [denseGoA, rd_gt, decide_eq_true_eq] at h
    by_cases hc : x > p
    · rw [if_pos hc] at h
      have hk : k = 0 := by
        have := Option.some.inj h; omega
      subst hk
      refine ⟨by simp, ?_, ?_⟩
      · rw [cum_zero]; push_cast; linarith
      · rw [cum_cons_succ, cum_zero]; push_cast; linarith
    · rw [if_neg hc] at h
      have hle : x ≤ p := not_lt.mp hc
      obtain ⟨s1, s2⟩ := (absQ_le_iff _ _).mp (hsub p x)
      cases k with
      | zero =>
        have := (denseGoA_range rd_gt sub xs (sub p x) (i0 + 1) _ h).1
        omega
      | succ k' =>
        have e1 : i0 + (k' + 1) = (i0 + 1) + k' := by omega
        rw [e1] at h
        have hpq' : absQ (sub p x - (q - x)) ≤ e + ε := by
          rw [absQ_le_iff]; constructor <;> linarith
        obtain ⟨a, b, c⟩ := rd_denseGoA_some sub ε hsub xs (sub p x) (q - x) (e + ε) (i0 + 1) k' hxs
          hpq' (by linarith) h
        refine ⟨by simpa using a, ?_, ?_⟩
        · rw [cum_cons_succ]; push_cast; linarith
        · rw [cum_cons_succ]; push_cast; linarith

/-- loop invariant, "not returned at any index" -/
theorem rd_denseGoA_none (sub : Rat → Rat → Rat) (ε : Rat)
    (hsub : ∀ a b, absQ (sub a b - (a - b)) ≤ ε) :
    ∀ (l : List Rat) (p q e : Rat) (i0 : Nat), absQ (p - q) ≤ e →
      denseGoA rd_gt sub l p i0 = none →
      ∀ k, k < l.length → cum l (k + 1) - (e + (k : Rat) * ε) ≤ q
  | [], _, _, _, _, _, _, k, hk => by simp at hk
  | x :: xs, p, q, e, i0, hpq, h, k, hk => by
    obtain ⟨hpq1, hpq2⟩ := (absQ_le_iff _ _).mp hpq
    simp only [denseGoA, rd_gt, decide_eq_true_eq] at h
    by_cases hc : x > p
    · rw [if_pos hc] at h; cases h
    · rw [if_neg hc] at h
      have hle : x ≤ p := not_lt.mp hc
      obtain ⟨s1, s2⟩ := (absQ_le_iff _ _).mp (hsub p x)
      cases k with
      | zero => rw [cum_cons_succ, cum_zero]; push_cast; linarith
      | succ k' =>
        have hpq' : absQ (sub p x - (q - x)) ≤ e + ε := by
          rw [absQ_le_iff]; constructor <;> linarith
        have := rd_denseGoA_none sub ε hsub xs (sub p x) (q - x) (e + ε) (i0 + 1) hpq' h k'
          (by simpa using hk)
        rw [cum_cons_succ]; push_cast; linarith

theorem rd_absQ_zero : absQ 0 = 0 := by simp [absQ]

/-! ## R1. under rounding every breakpoint moves by at most `k·ε` -/

theorem denseA_round_bounds (sub : Rat → Rat → Rat) (ε : Rat) (l : List Rat) (u : Rat) (k : Nat)
    (hsub : ∀ a b, absQ (sub a b - (a - b)) ≤ ε) (hnn : ∀ x ∈ l, 0 ≤ x) (hu : 0 ≤ u) (hne : l ≠ [])
    (hk : sampleDenseA (fun a b => decide (a > b)) sub l u = k) :
    k < l.length ∧ cum l k - (k : Rat) * ε ≤ u ∧
      (k + 1 < l.length → u < cum l (k + 1) + (k : Rat) * ε) := by
  have hlen : 0 < l.length := List.length_pos_of_ne_nil hne
  have h0 : absQ (u - u) ≤ 0 := by rw [sub_self, rd_absQ_zero]
  change sampleDenseA rd_gt sub l u = k at hk
  unfold sampleDenseA at hk
  cases h : denseGoA rd_gt sub l u 0 with
  | none =>
    rw [h, Option.getD_none] at hk
    have hb := rd_denseGoA_none sub ε hsub l u u 0 0 h0 h k (by omega)
    have hm := cum_le_succ l k hnn
    refine ⟨by omega, by linarith, fun hlt => by omega⟩
  | some j =>
    rw [h, Option.getD_some] at hk
    subst hk
    have hj : denseGoA rd_gt sub l u 0 = some (0 + j) := by rw [Nat.zero_add]; exact h
    obtain ⟨a, b, c⟩ := rd_denseGoA_some sub ε hsub l u u 0 0 j hnn h0 (by linarith) hj
    exact ⟨a, by linarith, fun _ => by linarith⟩

-- test: a subtraction that is always 2^-53 too large, on (1/2, 1/4, 1/4) with the draw 3/4 - 2^-54:
-- the exact sampler returns 1, the rounded one returns 2, within the bound 2·2^-53 of c_2 = 3/4
example : sampleDenseA (fun a b => decide (a > b)) (fun a b => a - b + 1/2^53) [1/2, 1/4, 1/4]
    (3/4 - 1/2^54) = 2 := by
  norm_num [sampleDenseA, denseGoA]
example : sampleDense [1/2, 1/4, 1/4] (3/4 - 1/2^54) = 1 := by
  norm_num [sampleDense, denseGo]
example : (2 : Nat) < [1/2, 1/4, (1/4 : Rat)].length ∧
    cum [1/2, 1/4, 1/4] 2 - ((2 : Nat) : Rat) * (1/2^53) ≤ 3/4 - 1/2^54 ∧
    (2 + 1 < [1/2, 1/4, (1/4 : Rat)].length →
      3/4 - 1/2^54 < cum [1/2, 1/4, 1/4] (2 + 1) + ((2 : Nat) : Rat) * (1/2^53)) :=
  denseA_round_bounds (fun a b => a - b + 1/2^53) (1/2^53) [1/2, 1/4, 1/4] (3/4 - 1/2^54) 2
    (by intro a b; norm_num [absQ]) (by norm_num) (by norm_num) (by simp)
    (by norm_num [sampleDenseA, denseGoA])

/-! ## R2. away from the breakpoints rounding cannot change the answer -/

theorem rd_lt_absQ (x t : Rat) (h : t < absQ x) : x < -t ∨ t < x := by
  unfold absQ at h
  split at h
  · left; linarith
  · right; exact h

theorem denseA_round_agrees (sub : Rat → Rat → Rat) (ε : Rat) (l : List Rat) (u : Rat)
    (hsub : ∀ a b, absQ (sub a b - (a - b)) ≤ ε) (hnn : ∀ x ∈ l, 0 ≤ x) (hu : 0 ≤ u) (hne : l ≠ [])
    (hmargin : ∀ j, j ≤ l.length → absQ (cum l j - u) > (l.length : Rat) * ε) :
    sampleDenseA (fun a b => decide (a > b)) sub l u = sampleDense l u := by
  have hε : 0 ≤ ε := by
    have := (absQ_le_iff _ _).mp (hsub 0 0); linarith
  obtain ⟨h1, h2, h3⟩ := denseA_round_bounds sub ε l u _ hsub hnn hu hne rfl
  generalize sampleDenseA (fun a b => decide (a > b)) sub l u = k at h1 h2 h3
  have hkl : (k : Rat) * ε ≤ (l.length : Rat) * ε :=
    mul_le_mul_of_nonneg_right (Nat.cast_le.mpr (le_of_lt h1)) hε
  symm
  rw [dense_preimage l u k hnn hu hne]
  refine ⟨h1, ?_, fun hlt => ?_⟩
  · rcases rd_lt_absQ _ _ (hmargin k (le_of_lt h1)) with h | h <;> linarith
  · have := h3 hlt
    rcases rd_lt_absQ _ _ (hmargin (k + 1) (by omega)) with h | h <;> linarith

-- test: same rounded subtraction, draw 5/8 is far from the breakpoints 0, 1/2, 3/4, 1
example : sampleDenseA (fun a b => decide (a > b)) (fun a b => a - b + 1/2^53) [1/2, 1/4, 1/4] (5/8)
    = sampleDense [1/2, 1/4, 1/4] (5/8) :=
  denseA_round_agrees _ (1/2^53) _ _ (by intro a b; norm_num [absQ]) (by norm_num) (by norm_num)
    (by simp) (by
      intro j hj
      have hj' : j ≤ 3 := by simpa using hj
      obtain rfl | rfl | rfl | rfl : j = 0 ∨ j = 1 ∨ j = 2 ∨ j = 3 := by omega
      all_goals norm_num [cum, absQ])

/-! ## R3. `makeRandomProbability` under rounding -/

def spacingsA (sub : Rat → Rat → Rat) : List Rat → Rat → List Rat
  | [], prev => [sub 1 prev]
  | x :: xs, prev => sub x prev :: spacingsA sub xs x

def makeRandomProbabilityA (sub : Rat → Rat → Rat) (draws : List Rat) : List Rat :=
  spacingsA sub (draws.mergeSort (fun a b => decide (a ≤ b))) 0

theorem spacingsA_round (sub : Rat → Rat → Rat) (ε : Rat)
    (hsub : ∀ a b, absQ (sub a b - (a - b)) ≤ ε) (hmono : ∀ a b, b ≤ a → 0 ≤ sub a b) :
    ∀ (xs : List Rat) (prev : Rat), List.Pairwise (· ≤ ·) xs → (∀ x ∈ xs, prev ≤ x) →
      (∀ x ∈ xs, x ≤ 1) → prev ≤ 1 →
      (∀ y ∈ spacingsA sub xs prev, 0 ≤ y) ∧
        absQ ((spacingsA sub xs prev).sum - (1 - prev)) ≤ ((xs.length + 1 : Nat) : Rat) * ε
  | [], prev, _, _, _, hp1 => by
    refine ⟨?_, ?_⟩
    · intro y hy
      simp only [spacingsA, List.mem_singleton] at hy
      subst hy; exact hmono 1 prev hp1
    · simpa [spacingsA] using hsub 1 prev
  | x :: xs, prev, hpw, hlo, hhi, _ => by
    rw [List.pairwise_cons] at hpw
    obtain ⟨hx, hpw'⟩ := hpw
    have hpx : prev ≤ x := hlo x (List.mem_cons_self ..)
    have hx1 : x ≤ 1 := hhi x (List.mem_cons_self ..)
    obtain ⟨ih1, ih2⟩ := spacingsA_round sub ε hsub hmono xs x hpw' hx
      (fun y hy => hhi y (List.mem_cons_of_mem _ hy)) hx1
    obtain ⟨i1, i2⟩ := (absQ_le_iff _ _).mp ih2
    obtain ⟨s1, s2⟩ := (absQ_le_iff _ _).mp (hsub x prev)
    refine ⟨?_, ?_⟩
    · intro y hy
      simp only [spacingsA, List.mem_cons] at hy
      rcases hy with rfl | hy
      · exact hmono x prev hpx
      · exact ih1 y hy
    · simp only [spacingsA, List.sum_cons, List.length_cons]
      rw [absQ_le_iff]
      push_cast at i1 i2 ⊢
      constructor <;> linarith

theorem makeRandomProbabilityA_round (sub : Rat → Rat → Rat) (ε : Rat)
    (hsub : ∀ a b, absQ (sub a b - (a - b)) ≤ ε) (hmono : ∀ a b, b ≤ a → 0 ≤ sub a b)
    (draws : List Rat) (h : ∀ x ∈ draws, 0 ≤ x ∧ x < 1) :
    (∀ y ∈ makeRandomProbabilityA sub draws, 0 ≤ y) ∧
      absQ ((makeRandomProbabilityA sub draws).sum - 1) ≤ ((draws.length + 1 : Nat) : Rat) * ε := by
  unfold makeRandomProbabilityA
  have hperm := List.mergeSort_perm draws (fun a b => decide (a ≤ b))
  have hmem : ∀ x ∈ draws.mergeSort (fun a b => decide (a ≤ b)), 0 ≤ x ∧ x < 1 :=
    fun x hx => h x (hperm.mem_iff.mp hx)
  have := spacingsA_round sub ε hsub hmono _ 0 (sorted_mergeSort_le draws)
    (fun x hx => (hmem x hx).1) (fun x hx => le_of_lt (hmem x hx).2) (by norm_num)
  rw [hperm.length_eq, sub_zero] at this
  exact this

-- test: exact subtraction is the instance ε = 0
example : (∀ y ∈ makeRandomProbabilityA (fun a b => a - b) [3/4, 0, 1/4], 0 ≤ y) ∧
    absQ ((makeRandomProbabilityA (fun a b => a - b) [3/4, 0, 1/4]).sum - 1)
      ≤ (([3/4, 0, (1/4 : Rat)].length + 1 : Nat) : Rat) * 0 :=
  makeRandomProbabilityA_round _ 0 (by intro a b; simp [absQ]) (by intro a b hab; linarith) _
    (by norm_num)

end AITB.Sampling
