/-
  AITB.Props.C15Q — the Q-function `Factored::MDP::LinearProgramming::operator()` returns,
  `g = backProject(T,h); g *= discount·v; plusEqual(S, A, g, R)` (model `qModel`, shown equal to the library's Q basis by
  basis), has the value  R(s,a) + γ Σ_{s'} P(s'|s,a) V_v(s')  at EVERY joint state and action, for whatever weights `v`
  the LP solver produced.  Built from C14's theorems about `backProject`, `operator*=(Vector)` and `plusEqual`.
-/
import AITB.Props.C15Obj
import AITB.Props.C14f

namespace AITB.FLP
open AITB.Factored AITB.VE

/-! ## rows of a row-major list -/

theorem chunkN_spec (n : Nat) : ∀ (k : Nat) (l : List Rat), l.length = k * n →
    (chunkN n k l).length = k ∧ (∀ r ∈ chunkN n k l, r.length = n) ∧ (chunkN n k l).flatten = l
  | 0, l, h => by
    have : l = [] := List.length_eq_zero_iff.mp (by simpa using h)
    simp [chunkN, this]
  | k+1, l, h => by
    have hd : (l.drop n).length = k * n := by rw [List.length_drop, h]; rw [Nat.succ_mul]; omega
    obtain ⟨h1, h2, h3⟩ := chunkN_spec n k (l.drop n) hd
    refine ⟨by simp [chunkN, h1], ?_, ?_⟩
    · intro r hr
      simp only [chunkN, List.mem_cons] at hr
      rcases hr with rfl | hr
      · rw [List.length_take, h, Nat.succ_mul]; omega
      · exact h2 r hr
    · simp only [chunkN, List.flatten_cons, h3, List.take_append_drop]

theorem toBM_WF (S A : List Nat) (b : BasisM) (hw : BasisMWF S A b) (hat : b.atag ≠ []) : (toBM S A b).WF S A := by
  obtain ⟨h1, h2, h3⟩ := chunkN_spec (spacePartial b.atag A) (spacePartial b.tag S) b.vals hw.2.2.2
  refine ⟨⟨hw.1, hw.2.1⟩, ⟨hat, hw.2.2.1⟩, h1, ?_⟩
  intro i hi
  simp only [toBM] at hi ⊢
  have hm : (chunkN (spacePartial b.atag A) (spacePartial b.tag S) b.vals)[i] ∈ chunkN (spacePartial b.atag A) (spacePartial b.tag S) b.vals :=
    List.getElem_mem hi
  have : (chunkN (spacePartial b.atag A) (spacePartial b.tag S) b.vals).getD i [] = (chunkN (spacePartial b.atag A) (spacePartial b.tag S) b.vals)[i] := by
    simp [List.getD_eq_getElem?_getD, hi]
  rw [this]; exact h2 _ hm

theorem toBM_get (S A : List Nat) (b : BasisM) (s a : List Nat) (ha : Valid A a) (hw : BasisMWF S A b) :
    (toBM S A b).get S A s a = b.at S A s a := by
  obtain ⟨_, h2, h3⟩ := chunkN_spec (spacePartial b.atag A) (spacePartial b.tag S) b.vals hw.2.2.2
  simp only [toBM, BM.get, BasisM.at]
  rw [← flatten_getD_uniform _ _ _ _ h2 (toIndexPartial_lt A a b.atag ha hw.2.2.1), h3]

theorem fmGet_toBM (S A : List Nat) (s a : List Nat) (ha : Valid A a) : ∀ (R : List BasisM), (∀ f ∈ R, BasisMWF S A f) →
    fmGet S A (R.map (toBM S A)) s a = fmAt S A R s a
  | [], _ => by simp [fmGet_nil, fmAt, sumQ]
  | f :: fs, h => by
    simp only [List.map_cons, fmGet_cons, fmAt, sumQ, toBM_get S A f s a ha (h f (List.mem_cons_self ..))]
    have := fmGet_toBM S A s a ha fs (fun g hg => h g (List.mem_cons_of_mem _ hg))
    simp only [fmAt] at this
    rw [this]

/-! ## the back-projected matrices are well formed -/

theorem backProject_BMWF (S A : List Nat) (hS : ∀ d ∈ S, 0 < d) (hA : ∀ d ∈ A, 0 < d) (ddn : List DNode) (hk : Basis)
    (hw : BasisWF S hk) (hok : BasisParentsOK (toGraph S A ddn) hk.tag) :
    (AITB.Factored.backProject (toGraph S A ddn) (toT ddn) (toBF hk)).WF S A := by
  obtain ⟨htag, hatag⟩ := bpTags_ok (toGraph S A ddn) hk.tag hw.1 hok
  have e1 : (enumTag (toGraph S A ddn).S (bpTags (toGraph S A ddn) hk.tag ([], [])).1).length
      = spacePartial (bpTags (toGraph S A ddn) hk.tag ([], [])).1 S := enumTag_length S (S.map (fun _ => 0)) _ (valid_zeros S hS) htag
  have e2 : (enumTag (toGraph S A ddn).A (bpTags (toGraph S A ddn) hk.tag ([], [])).2).length
      = spacePartial (bpTags (toGraph S A ddn) hk.tag ([], [])).2 A := enumTag_length A (A.map (fun _ => 0)) _ (valid_zeros A hA) hatag
  refine ⟨htag, hatag, ?_, ?_⟩
  · simp only [AITB.Factored.backProject, toBF, List.length_map]; exact e1
  · intro i hi
    simp only [AITB.Factored.backProject, toBF, List.length_map] at hi ⊢
    simp only [List.getD_eq_getElem?_getD, List.getElem?_map]
    cases hrow : (enumTag (toGraph S A ddn).S (bpTags (toGraph S A ddn) hk.tag ([], [])).1)[i]? with
    | none =>
      rw [List.getElem?_eq_none_iff] at hrow; omega
    | some sv =>
      simp only [Option.map_some, Option.getD_some, List.length_map]; exact e2

theorem fmScaleW_WF (S A : List Nat) (w : List Rat) (fm : FM) (h : FM.WF S A fm) : FM.WF S A (fmScaleW w fm) := by
  intro b hb
  simp only [fmScaleW, List.mem_map] at hb
  obtain ⟨bw, hbw, rfl⟩ := hb
  have hmem := (List.of_mem_zip hbw).1
  obtain ⟨h1, h2, h3, h4⟩ := h bw.1 hmem
  refine ⟨h1, h2, by simpa using h3, ?_⟩
  intro i hi
  simp only [List.length_map] at hi
  have := h4 i hi
  simp only [List.getD_eq_getElem?_getD, List.getElem?_map] at this ⊢
  cases hrow : bw.1.vals[i]? with
  | none => rw [List.getElem?_eq_none_iff] at hrow; omega
  | some r => rw [hrow] at this; simpa using this

/-! ## Σ_k g_k(s,a) · w'_k as a list recursion -/

/-- Σ_k E[h_k | s,a] · q_k -/
def zsum (S A : List Nat) (ddn : List DNode) (s a : List Nat) : List Basis → List Rat → Rat
  | hk :: hs, q :: ws => expect S A ddn (hk.at S) s a * q + zsum S A ddn s a hs ws
  | _, _ => 0

theorem zip_foldl_zsum (S A : List Nat) (ddn : List DNode) (s a : List Nat) (hs' : Valid S s) (ha : Valid A a) :
    ∀ (hs : List Basis) (ws : List Rat),
      (∀ f ∈ hs, BasisWF S f ∧ f.tag.Pairwise (· < ·) ∧ DdnOK S A ddn f.tag) →
      ((backProjectFV (toGraph S A ddn) (toT ddn) (hs.map toBF)).zip ws).foldl (fun acc bw => acc + bw.1.get S A s a * bw.2) 0
        = zsum S A ddn s a hs ws
  | [], _, _ => by simp [backProjectFV, zsum]
  | _ :: _, [], _ => by simp [zsum]
  | hk :: hs, q :: ws, h => by
    obtain ⟨h1, h2, h3⟩ := h hk (List.mem_cons_self ..)
    have ih := zip_foldl_zsum S A ddn s a hs' ha hs ws (fun f hf => h f (List.mem_cons_of_mem _ hf))
    simp only [backProjectFV, List.map_cons, List.zip_cons_cons, List.foldl_cons, zsum] at ih ⊢
    rw [foldl_add_init (fun bw : BM × Rat => bw.1.get S A s a * bw.2), ih]
    have e := bpModel_is_expectation S A ddn hk s a hs' ha h1 h2 h3
    rw [bpModel_at S A ddn hk s a hs' ha h1 h3.parents] at e
    simp only [toBF]
    rw [e]; ring

theorem zsum_eq_sumTo (S A : List Nat) (ddn : List DNode) (s a : List Nat) : ∀ (hs : List Basis) (ws : List Rat),
    ws.length = hs.length →
    zsum S A ddn s a hs ws = sumTo hs.length (fun k => expect S A ddn (fun s1 => (hs.map (·.at S s1)).getD k 0) s a * ws.getD k 0)
  | [], _, _ => by simp [zsum, sumTo]
  | _ :: _, [], h => by simp at h
  | hk :: hs, q :: ws, h => by
    rw [List.length_cons, sumTo_front]
    simp only [zsum, List.map_cons, List.getD_cons_zero, List.getD_cons_succ,
               zsum_eq_sumTo S A ddn s a hs ws (by simpa using h)]

/-- **the returned Q-function is the Bellman backup of the returned weights**:
    `Q(s,a) = R(s,a) + γ Σ_{s'} P(s'|s,a) V_v(s')` at every joint state and action, for the Q the code assembles by
    `backProject`, `operator*=(discount·v)` and `plusEqual(…, R)` -/
theorem qModel_is_backup (S A : List Nat) (hS : ∀ d ∈ S, 0 < d) (hA : ∀ d ∈ A, 0 < d) (ddn : List DNode) (γ : Rat)
    (h : List Basis) (R : List BasisM) (v : List Rat) (hv : v.length = h.length)
    (hh : ∀ f ∈ h, BasisWF S f ∧ f.tag.Pairwise (· < ·) ∧ DdnOK S A ddn f.tag)
    (hR : ∀ f ∈ R, BasisMWF S A f ∧ f.atag ≠ [])
    (s a : List Nat) (hs : Valid S s) (ha : Valid A a) :
    fmGet S A (qModel S A ddn γ h R v) s a = mdpBackup S A ddn R γ h v s a := by
  have hgWF : FM.WF S A (backProjectFV (toGraph S A ddn) (toT ddn) (h.map toBF)) := by
    intro b hb
    simp only [backProjectFV, List.map_map, List.mem_map] at hb
    obtain ⟨f, hf, rfl⟩ := hb
    exact backProject_BMWF S A hS hA ddn f (hh f hf).1 (hh f hf).2.2.parents
  have hRWF : FM.WF S A (R.map (toBM S A)) := by
    intro b hb
    obtain ⟨f, hf, rfl⟩ := List.mem_map.mp hb
    exact toBM_WF S A f (hR f hf).1 (hR f hf).2
  have hlen : (v.map (γ * ·)).length = (backProjectFV (toGraph S A ddn) (toT ddn) (h.map toBF)).length := by
    simp [backProjectFV, hv]
  obtain ⟨hsum, _⟩ := fmPlusEqualFM_pointwise S A s a hs ha (R.map (toBM S A))
    (fmScaleW (v.map (γ * ·)) (backProjectFV (toGraph S A ddn) (toT ddn) (h.map toBF)))
    (fmScaleW_WF S A _ _ hgWF) hRWF
  simp only [qModel]
  rw [hsum, fmGet_toBM S A s a ha R (fun f hf => (hR f hf).1),
      fmScaleW_pointwise S A s a _ _ hs ha hgWF (Or.inl hlen)]
  simp only [fmGetW]
  have hinit : ¬ ((v.map (γ * ·)).length = (backProjectFV (toGraph S A ddn) (toT ddn) (h.map toBF)).length + 1) := by omega
  simp only [hinit, if_false]
  rw [zip_foldl_zsum S A ddn s a hs ha h _ hh, zsum_eq_sumTo S A ddn s a h _ (by simp [hv])]
  simp only [mdpBackup]
  have hV : mdpV S h v = fun s1 => sumTo h.length (fun k => v.getD k 0 * (fun k s1 => (h.map (·.at S s1)).getD k 0) k s1) := rfl
  rw [hV, expect_linear, ← sumTo_mul]
  have : ∀ x y : Rat, x + y = y + x := fun x y => by ring
  rw [this]
  congr 1
  apply sumTo_congr
  intro k hk
  have : (v.map (γ * ·)).getD k 0 = γ * v.getD k 0 := by
    rw [getD_map_lt _ v k (by omega)]
    simp [List.getD_eq_getElem?_getD, (by omega : k < v.length)]
  rw [this]; ring

end AITB.FLP
