/-
  AITB.Props.C03Lower — lower-bound side of C03.

  Reference functions: any `V` with `H V ≤ V` on unnormalised beliefs (`SuperSol`).  Every such `V` dominates the optimal value
  (`V ≥ H V ≥ H² V ≥ … ↓ V*`), and `V*` itself is one, so "α ≤ V*" is "α ≤ V for every super-solution V (that dominates the start)".
  The concrete family the driver evaluates is `upperRef j k` (Props/C03Refs).
-/
import AITB.Props.C03Basic

namespace AITB.POMDP3
open AITB.MDP

/-- `V ≥ H V` on unnormalised beliefs -/
def SuperSol (m : POMDP) (V : (Nat → Rat) → Rat) : Prop := ∀ x, NN x → Hop m V x ≤ V x

/-- the linear function `α` is below `V` at every unnormalised belief: `α` is a sound lower-bound vector w.r.t. `V` -/
def LBSound (m : POMDP) (V : (Nat → Rat) → Rat) (α : Nat → Rat) : Prop := ∀ x, NN x → dotS m.S x α ≤ V x

/-- kernel: the value of a backed-up vector is at most the one-step look-ahead on `V`, if every chosen vector is below `V` at the
    successor it is chosen for -/
theorem pointBackup_le_qval (m : POMDP) (hv : Valid m) (V : (Nat → Rat) → Rat) (x : Nat → Rat) (a : Nat) (ch : Nat → Nat → Rat)
    (h : ∀ o, o < m.O → dotS m.S (bstep m x a o) (ch o) ≤ V (bstep m x a o)) :
    dotS m.S x (backupVec m a ch) ≤ qval m V x a := by
  rw [dotS_backupVec]
  unfold qval
  have := mul_le_mul_of_nonneg_left (sumTo_le (f := fun o => dotS m.S (bstep m x a o) (ch o)) (g := fun o => V (bstep m x a o)) h) hv.γ0
  linarith

/-- **pointBackup_sound**: a point-based backup (crossSumBestAtBelief, PBVI::crossSum, PERSEUS::crossSum, the α of
    bestConservativeAction) of vectors that are each below `V` is below `H V`, hence below `V` when `V ≥ H V`.  Which vectors are
    chosen (the arg max at the belief, any tie-break) is irrelevant. -/
theorem pointBackup_sound (m : POMDP) (hv : Valid m) (V : (Nat → Rat) → Rat) (hV : SuperSol m V) (a : Nat) (ha : a < m.A)
    (ch : Nat → Nat → Rat) (hch : ∀ o, o < m.O → LBSound m V (ch o)) : LBSound m V (backupVec m a ch) := by
  intro x hx
  have h1 := pointBackup_le_qval m hv V x a ch (fun o ho => hch o ho _ (bstep_nonneg m hv x hx a o))
  exact le_trans h1 (le_trans (qval_le_Hop m hv.A0 V x a ha) (hV x hx))

/-- the same with the `checkEqualSmall(prob, 0)` skip of bestConservativeAction: a skipped observation contributes the zero vector,
    which is harmless when `V` is non-negative at that successor (in particular when the successor has exactly zero mass and
    `V 0 = 0`).  FULL STATEMENT (skip on `prob ≤ 1e-6` without side condition) is false: see `skip_counterexample`. -/
theorem pointBackup_skip_sound_partial (m : POMDP) (hv : Valid m) (V : (Nat → Rat) → Rat) (hV : SuperSol m V) (a : Nat) (ha : a < m.A)
    (ch : Nat → Nat → Rat) (x : Nat → Rat) (hx : NN x)
    (hch : ∀ o, o < m.O → LBSound m V (ch o) ∨ ((∀ s, ch o s = 0) ∧ 0 ≤ V (bstep m x a o))) :
    dotS m.S x (backupVec m a ch) ≤ V x := by
  have h1 := pointBackup_le_qval m hv V x a ch (fun o ho => by
    rcases hch o ho with h | ⟨hz, h0⟩
    · exact h _ (bstep_nonneg m hv x hx a o)
    · have : dotS m.S (bstep m x a o) (ch o) = 0 := by
        unfold dotS
        rw [sumTo_congr (g := fun _ => 0) (fun s _ => by rw [hz s, mul_zero]), sumTo_zero]
      rw [this]; exact h0)
  exact le_trans h1 (le_trans (qval_le_Hop m hv.A0 V x a ha) (hV x hx))

/-- a Blind-strategies step is the point backup that continues with the same vector after every observation -/
theorem blindStep_eq_backup (m : POMDP) (hv : Valid m) (a : Nat) (α : Nat → Rat) :
    blindStep m a α = backupVec m a (fun _ => α) := by
  funext s
  unfold blindStep backupVec
  congr 2
  rw [sumTo_comm]
  refine sumTo_congr (fun s1 hs1 => ?_)
  have : sumTo m.O (fun o => m.T s a s1 * m.Ob s1 a o * α s1) = m.T s a s1 * α s1 * sumTo m.O (m.Ob s1 a) := by
    rw [← sumTo_mul_left]
    exact sumTo_congr (fun o _ => by ring)
  rw [this, hv.O1 s1 a hs1, mul_one]

theorem blindStep_sound (m : POMDP) (hv : Valid m) (V : (Nat → Rat) → Rat) (hV : SuperSol m V) (a : Nat) (ha : a < m.A)
    (α : Nat → Rat) (hα : LBSound m V α) : LBSound m V (blindStep m a α) := by
  rw [blindStep_eq_backup m hv]
  exact pointBackup_sound m hv V hV a ha _ (fun _ _ => hα)

/-- iterating the blind step from a sound start stays sound at every iteration -/
theorem blindIter_sound (m : POMDP) (hv : Valid m) (V : (Nat → Rat) → Rat) (hV : SuperSol m V) (a : Nat) (ha : a < m.A)
    (α : Nat → Rat) (hα : LBSound m V α) (k : Nat) : LBSound m V (Nat.iterate (blindStep m a) k α) := by
  induction k generalizing α with
  | zero => exact hα
  | succ k ih => exact ih _ (blindStep_sound m hv V hV a ha α hα)

/-- soundness depends on the vector only through its first `S` coordinates -/
theorem LBSound_congr (m : POMDP) (V : (Nat → Rat) → Rat) {α β : Nat → Rat} (h : ∀ s, s < m.S → α s = β s) (hα : LBSound m V α) :
    LBSound m V β := by
  intro x hx
  have : dotS m.S x β = dotS m.S x α := by
    unfold dotS; exact sumTo_congr (fun s hs => by rw [h s hs])
  rw [this]; exact hα x hx

/-- the constant vector `c` as a lower bound: preserved by `H` when `(1-γ)·c` is below the reward of some action in every state
    (this is what makes `min_s R(s,a) / (1-γ)` a safe start for the blind iteration of action `a`) -/
theorem const_le_Hop (m : POMDP) (hv : Valid m) (V : (Nat → Rat) → Rat) (c : Rat) (a : Nat) (ha : a < m.A)
    (hc : ∀ s, s < m.S → (1 - m.γ) * c ≤ m.R s a)
    (h : ∀ x, NN x → c * mass m.S x ≤ V x) : ∀ x, NN x → c * mass m.S x ≤ Hop m V x := by
  intro x hx
  refine le_trans ?_ (qval_le_Hop m hv.A0 V x a ha)
  unfold qval
  have h1 : (1 - m.γ) * c * mass m.S x ≤ rew m x a := by
    unfold mass rew
    rw [← sumTo_mul_left]
    exact sumTo_le (fun s hs => by
      have := mul_le_mul_of_nonneg_left (hc s hs) (hx s)
      linarith)
  have h2 : c * mass m.S x ≤ sumTo m.O (fun o => V (bstep m x a o)) := by
    rw [← mass_bstep m hv x a, ← sumTo_mul_left]
    exact sumTo_le (fun o _ => h _ (bstep_nonneg m hv x hx a o))
  have h3 := mul_le_mul_of_nonneg_left h2 hv.γ0
  nlinarith

theorem const_le_iterH (m : POMDP) (hv : Valid m) (V0 : (Nat → Rat) → Rat) (c : Rat) (a : Nat) (ha : a < m.A)
    (hc : ∀ s, s < m.S → (1 - m.γ) * c ≤ m.R s a)
    (h : ∀ x, NN x → c * mass m.S x ≤ V0 x) (k : Nat) : ∀ x, NN x → c * mass m.S x ≤ iterH m V0 k x := by
  induction k with
  | zero => exact h
  | succ k ih => exact const_le_Hop m hv _ c a ha hc ih

theorem const_LBSound (m : POMDP) (V : (Nat → Rat) → Rat) (c : Rat) (h : ∀ x, NN x → c * mass m.S x ≤ V x) :
    LBSound m V (fun _ => c) := by
  intro x hx
  have : dotS m.S x (fun _ => c) = c * mass m.S x := by
    unfold dotS mass
    rw [← sumTo_mul_left]
    exact sumTo_congr (fun s _ => by ring)
  rw [this]; exact h x hx

/-- iterates of a super-solution are super-solutions and decrease -/
theorem iterH_superSol (m : POMDP) (hv : Valid m) (V0 : (Nat → Rat) → Rat) (h0 : SuperSol m V0) (k : Nat) :
    SuperSol m (iterH m V0 k) := by
  induction k with
  | zero => exact h0
  | succ k ih => intro x hx; exact Hop_mono m hv _ _ ih x hx

theorem iterH_succ_le (m : POMDP) (hv : Valid m) (V0 : (Nat → Rat) → Rat) (h0 : SuperSol m V0) (k : Nat) (x : Nat → Rat) (hx : NN x) :
    iterH m V0 (k+1) x ≤ iterH m V0 k x := iterH_superSol m hv V0 h0 k x hx

end AITB.POMDP3
