/-
  AITB.Props.C05DeepSrc — syntactic tie, one level below the anchored helpers (round 3).

  `AITB.Gen.BeliefDeepSrc` is regenerated on every run by tools/extract_c05.py: the comment-stripped, whitespace-free bodies of
  the functions the belief helpers rely on but which live outside POMDP/Utils.hpp — `isProbability` (three forms), the
  constructors / setters / getters of MDP::Model, MDP::SparseModel, POMDP::Model, POMDP::SparseModel, and
  `SparseModel::getObservationProbability(b, o, a)`.  Each `rfl` below states that the body is, character for character,
  the text the model in AITB.Model.Belief (`isProbRow*`, `acceptDense/Sparse`, `sparsify`, `defaultModel`, `obsProbB`) was
  transcribed from; an edit of any of them re-opens the obligation, and the harness lines `tab` / `accept` / `upd … pob`
  then look for a failing input.
-/
import AITB.Gen.BeliefDeepSrc
namespace AITB.Belief.DeepSrc
open AITB.Gen.BeliefDeepSrc

/-- modelled by: isProbLoop / isProbRow (isProbRow_iff) -/
theorem src_isProbabilityRow : isProbabilityRow =
    "doublep=0.0;for(size_ti=0;i<size;++i){constdoublevalue=static_cast<double>(in[i]);if(value<0.0)returnfalse;p+=value;}if(checkDifferentSmall(p,1.0))returnfalse;returntrue;" := rfl

/-- modelled by: isProbRowE (isProbRowE_eq) -/
theorem src_isProbabilityDense : isProbabilityDense =
    "for(size_trow=0;row<static_cast<size_t>(in.rows());++row)if(in.row(row).minCoeff()<0.0||checkDifferentSmall(in.row(row).sum(),1.0))returnfalse;returntrue;" := rfl

/-- modelled by: isProbRowSpAs sparseSignTest — isProbRowSp as the code stands (isProbRowSp_iff, isProbRowSp_neg_bound: no sign test),
    isProbRowSpSigned with fixes/C05-2-sparse-isprobability-sign.diff applied (isProbRowSpSigned_eq) -/
theorem src_isProbabilitySparse :
    (isProbabilitySparse =
    "for(size_trow=0;row<static_cast<size_t>(in.rows());++row)if(checkDifferentSmall(in.row(row).sum(),1.0)||checkDifferentSmall(in.row(row).cwiseAbs().sum(),1.0))returnfalse;returntrue;" ∧ sparseSignTest = false)
  ∨ (isProbabilitySparse =
    "for(intk=0;k<in.outerSize();++k)for(SparseMatrix2D::InnerIteratorit(in,k);it;++it)if(it.value()<0.0)returnfalse;for(size_trow=0;row<static_cast<size_t>(in.rows());++row)if(checkDifferentSmall(in.row(row).sum(),1.0))returnfalse;returntrue;" ∧ sparseSignTest = true) := by
  first | exact Or.inl ⟨rfl, rfl⟩ | exact Or.inr ⟨rfl, rfl⟩

/-- modelled by: obsProbLoop / obsProbB (obsProbB_eq_probO) -/
theorem src_sparseObsProbBelief : sparseObsProbBelief =
    "doublep=0.0;for(size_ts=0;s<this->getS();++s){if(b[s]==0.0)continue;for(size_ts1=0;s1<this->getS();++s1)p+=b[s]*this->getTransitionProbability(s,a,s1)*observations_[a].coeff(s1,o);}returnp;" := rfl

/-- modelled by: POMDP.Ob read as observations_[a](s1, o) -/
theorem src_denseGetObsProb : denseGetObsProb =
    "returnobservations_[a](s1,o);" := rfl

/-- modelled by: POMDP.Ob read as observations_[a].coeff(s1, o) (missing entry = 0: keep) -/
theorem src_sparseGetObsProb : sparseGetObsProb =
    "returnobservations_[a].coeff(s1,o);" := rfl

/-- modelled by: Ocol reads observations_[a] -/
theorem src_denseGetObsFun : denseGetObsFun =
    "returnobservations_[a];" := rfl

/-- modelled by: Ocol reads observations_[a] -/
theorem src_sparseGetObsFun : sparseGetObsFun =
    "returnobservations_[a];" := rfl

/-- modelled by: acceptDense (observation half) + entrywise copy observations_[a](s1,o) = of[s1][a][o] -/
theorem src_denseSetObsTable : denseSetObsTable =
    "for(size_ts1=0;s1<this->getS();++s1)for(size_ta=0;a<this->getA();++a)if(!isProbability(O,of[s1][a]))throwstd::invalid_argument(\"Inputobservationmatrixdoesnotcontainvalidprobabilities.\");for(size_ts1=0;s1<this->getS();++s1)for(size_ta=0;a<this->getA();++a)for(size_to=0;o<O;++o)observations_[a](s1,o)=of[s1][a][o];" := rfl

/-- modelled by: acceptSparse (observation half): isProbRow on the table, sparsify, isProbRowSp on what is stored -/
theorem src_sparseSetObsTable : sparseSetObsTable =
    "for(size_ts1=0;s1<this->getS();++s1)for(size_ta=0;a<this->getA();++a)if(!isProbability(O,of[s1][a]))throwstd::invalid_argument(\"Inputobservationmatrixdoesnotcontainvalidprobabilities.\");ObservationMatrixnewObservations(this->getA(),SparseMatrix2D(this->getS(),O));for(size_ta=0;a<this->getA();++a){for(size_ts1=0;s1<this->getS();++s1)for(size_to=0;o<O;++o){constdoublep=of[s1][a][o];if(checkDifferentSmall(p,0.0))newObservations[a].insert(s1,o)=p;}newObservations[a].makeCompressed();}if(!isProbability(newObservations))throwstd::invalid_argument(\"Inputobservationmatrixdoesnotcontainvalidprobabilitiesoncenear-zeroentriesaredropped.\");observations_=std::move(newObservations);" := rfl

/-- modelled by: raw route: isProbRowE on every row, then stored as given -/
theorem src_denseSetObsMatrix : denseSetObsMatrix =
    "if(!isProbability(of))throwstd::invalid_argument(\"Inputobservationmatrixdoesnotcontainvalidprobabilities.\");observations_=of;" := rfl

/-- modelled by: raw route: isProbRowSp on every row, then stored as given -/
theorem src_sparseSetObsMatrix : sparseSetObsMatrix =
    "if(!isProbability(of))throwstd::invalid_argument(\"Inputobservationmatrixdoesnotcontainvalidprobabilities.\");observations_=of;" := rfl

/-- modelled by: conv route: entrywise copy + isProbRow per row -/
theorem src_denseConvCtor : denseConvCtor =
    "for(size_ta=0;a<this->getA();++a)for(size_ts1=0;s1<this->getS();++s1){for(size_to=0;o<O;++o){observations_[a](s1,o)=model.getObservationProbability(s1,a,o);}if(!isProbability(O,observations_[a].row(s1)))throwstd::invalid_argument(\"Inputobservationmatrixdoesnotcontainvalidprobabilities.\");}" := rfl

/-- modelled by: conv route: keep per entry, row-sum test on what is stored -/
theorem src_sparseConvCtor : sparseConvCtor =
    "for(size_ta=0;a<this->getA();++a){for(size_ts1=0;s1<this->getS();++s1){for(size_to=0;o<O;++o){constdoublep=model.getObservationProbability(s1,a,o);if(p<0.0||p>1.0)throwstd::invalid_argument(\"Inputobservationmatrixcontainsaninvalidvalue.\");if(checkDifferentSmall(p,0.0))observations_[a].insert(s1,o)=p;}if(checkDifferentSmall(1.0,observations_[a].row(s1).sum()))throwstd::invalid_argument(\"Inputobservationmatrixcontainsaninvalidrow.\");}observations_[a].makeCompressed();}" := rfl

/-- modelled by: defaultModel (observation half) -/
theorem src_denseDefaultCtor : denseDefaultCtor =
    "for(size_ta=0;a<this->getA();++a){observations_[a].rightCols(O-1).setZero();observations_[a].col(0).fill(1.0);}" := rfl

/-- modelled by: defaultModel (observation half) -/
theorem src_sparseDefaultCtor : sparseDefaultCtor =
    "for(size_ta=0;a<this->getA();++a){for(size_ts1=0;s1<this->getS();++s1)observations_[a].insert(s1,0)=1.0;observations_[a].makeCompressed();}" := rfl

/-- modelled by: acceptDense (transition half) + entrywise copy transitions_[a](s,s1) = t[s][a][s1] -/
theorem src_mdpSetTransTable : mdpSetTransTable =
    "if(!isProbability(S,A,S,t))throwstd::invalid_argument(\"Inputtransitionmatrixdoesnotcontainvalidprobabilities.\");for(size_ts=0;s<S;++s)for(size_ta=0;a<A;++a)for(size_ts1=0;s1<S;++s1)transitions_[a](s,s1)=t[s][a][s1];" := rfl

/-- modelled by: acceptSparse (transition half): nothing is rescaled after sub-threshold entries are dropped -/
theorem src_mdpSparseSetTransTable : mdpSparseSetTransTable =
    "if(!isProbability(S,A,S,t))throwstd::invalid_argument(\"Inputtransitionmatrixdoesnotcontainvalidprobabilities.\");TransitionMatrixnewTransitions(A,SparseMatrix2D(S,S));for(size_ta=0;a<A;++a){for(size_ts=0;s<S;++s)for(size_ts1=0;s1<S;++s1){constdoublep=t[s][a][s1];if(checkDifferentSmall(0.0,p))newTransitions[a].insert(s,s1)=p;}newTransitions[a].makeCompressed();}if(!isProbability(newTransitions))throwstd::invalid_argument(\"Inputtransitionmatrixdoesnotcontainvalidprobabilitiesoncenear-zeroentriesaredropped.\");transitions_=std::move(newTransitions);" := rfl

/-- modelled by: conv route: entrywise copy + isProbRow per row; rewardMatrix -/
theorem src_mdpConvCtor : mdpConvCtor =
    "setDiscount(model.getDiscount());rewards_.setZero();for(size_ta=0;a<A;++a)for(size_ts=0;s<S;++s){for(size_ts1=0;s1<S;++s1){transitions_[a](s,s1)=model.getTransitionProbability(s,a,s1);rewards_(s,a)+=model.getExpectedReward(s,a,s1)*transitions_[a](s,s1);}if(!isProbability(S,transitions_[a].row(s)))throwstd::invalid_argument(\"Inputtransitionmatrixdoesnotcontainvalidprobabilities.\");}" := rfl

/-- modelled by: conv route: keep per entry, sparseRewardMatrixConv -/
theorem src_mdpSparseConvCtor : mdpSparseConvCtor =
    "setDiscount(model.getDiscount());for(size_ts=0;s<S;++s)for(size_ta=0;a<A;++a){for(size_ts1=0;s1<S;++s1){constdoublep=model.getTransitionProbability(s,a,s1);if(p<0.0||p>1.0)throwstd::invalid_argument(\"Inputtransitionmatrixcontainsaninvalidvalue.\");if(checkDifferentSmall(0.0,p))transitions_[a].insert(s,s1)=p;constdoubler=model.getExpectedReward(s,a,s1);if(checkDifferentSmall(0.0,r))rewards_.coeffRef(s,a)+=r*p;}if(checkDifferentSmall(1.0,transitions_[a].row(s).sum()))throwstd::invalid_argument(\"Inputtransitionmatrixcontainsaninvalidrow.\");}for(size_ta=0;a<A;++a)transitions_[a].makeCompressed();rewards_.makeCompressed();" := rfl

/-- modelled by: raw route: isProbRowE, stored as given -/
theorem src_mdpSetTransMatrix : mdpSetTransMatrix =
    "if(!isProbability(t))throwstd::invalid_argument(\"Inputtransitionmatrixdoesnotcontainvalidprobabilities.\");transitions_=t;" := rfl

/-- modelled by: raw route: isProbRowSp, stored as given -/
theorem src_mdpSparseSetTransMatrix : mdpSparseSetTransMatrix =
    "if(!isProbability(t))throwstd::invalid_argument(\"Inputtransitionmatrixdoesnotcontainvalidprobabilities.\");transitions_=t;" := rfl

/-- modelled by: POMDP.T read as transitions_[a](s, s1) -/
theorem src_mdpGetTransProb : mdpGetTransProb =
    "returntransitions_[a](s,s1);" := rfl

/-- modelled by: POMDP.T read as transitions_[a].coeff(s, s1) -/
theorem src_mdpSparseGetTransProb : mdpSparseGetTransProb =
    "returntransitions_[a].coeff(s,s1);" := rfl

/-- modelled by: Ta reads transitions_[a] -/
theorem src_mdpGetTransFun : mdpGetTransFun =
    "returntransitions_[a];" := rfl

/-- modelled by: Ta reads transitions_[a] -/
theorem src_mdpSparseGetTransFun : mdpSparseGetTransFun =
    "returntransitions_[a];" := rfl

/-- modelled by: defaultModel (transition half: identity) -/
theorem src_mdpDefaultCtor : mdpDefaultCtor =
    "setDiscount(discount);for(size_ta=0;a<A;++a)transitions_[a].setIdentity();rewards_.setZero();" := rfl

/-- modelled by: defaultModel (transition half: identity) -/
theorem src_mdpSparseDefaultCtor : mdpSparseDefaultCtor =
    "setDiscount(discount);for(size_ta=0;a<A;++a)transitions_[a].setIdentity();" := rfl

/-- modelled by: Consistent (a sampled step has T(s,a,s1) > 0 and O(s1,a,o) > 0: the observation is drawn from the row of the NEW state); filter_tracks_truth -/
theorem src_denseSampleSOR : denseSampleSOR =
    "constauto[s1,r]=this->sampleSR(s,a);constautoo=sampleProbability(O,observations_[a].row(s1),rand_);returnstd::make_tuple(s1,o,r);" := rfl

/-- modelled by: Consistent (a sampled step has T(s,a,s1) > 0 and O(s1,a,o) > 0: the observation is drawn from the row of the NEW state); filter_tracks_truth -/
theorem src_denseSampleOR : denseSampleOR =
    "constsize_to=sampleProbability(O,observations_[a].row(s1),rand_);constdoubler=this->getExpectedReward(s,a,s1);returnstd::make_tuple(o,r);" := rfl

/-- modelled by: Consistent (a sampled step has T(s,a,s1) > 0 and O(s1,a,o) > 0: the observation is drawn from the row of the NEW state); filter_tracks_truth -/
theorem src_sparseSampleSOR : sparseSampleSOR =
    "constauto[s1,r]=this->sampleSR(s,a);constautoo=sampleProbability(O,observations_[a].row(s1),rand_);returnstd::make_tuple(s1,o,r);" := rfl

/-- modelled by: Consistent (a sampled step has T(s,a,s1) > 0 and O(s1,a,o) > 0: the observation is drawn from the row of the NEW state); filter_tracks_truth -/
theorem src_sparseSampleOR : sparseSampleOR =
    "constsize_to=sampleProbability(O,observations_[a].row(s1),rand_);constdoubler=this->getExpectedReward(s,a,s1);returnstd::make_tuple(o,r);" := rfl

end AITB.Belief.DeepSrc
