/-
  AITB.Props.C04i — robustness of `links_consistent_exec`: the implementation computes in doubles, so its entries
  are one-step plans only up to a small residual.  If every entry is within ε of its one-step derivation then, for
  every non-negative belief, executing the plan earns the promised value up to ε · mass(b) · (1 + γ + … + γ^(h-1)).
  This is what the checker's tolerance (1e-9) means for execution.
-/
import AITB.Props.C04
import Mathlib.Algebra.Order.BigOperators.Group.Finset
import Mathlib.Algebra.Order.Ring.Abs

namespace AITB.Plan
open Finset

/-- like `ConsistentExact` but each stored value may deviate from the derivation by at most `ε` -/
def ApproxConsistent (ε : Rat) (m : Pomdp) (vf : VF) : Prop :=
  ∀ h, h + 1 < vf.length → ∀ id, id < (vlist vf (h+1)).length →
    (∀ o, o < m.O → link (entry vf (h+1) id) o < (vlist vf h).length) ∧
    ∀ s, s < m.S → |val (entry vf (h+1) id) s - oneStepExact m (vlist vf h) (entry vf (h+1) id) s| ≤ ε

/-- transition and observation tables are non-negative and `Σ_{s1,o} T(s,a,s1)·Ob(s1,a,o) ≤ 1` -/
structure SubStoch (m : Pomdp) : Prop where
  T_nonneg : ∀ a s s1, 0 ≤ m.T a s s1
  Ob_nonneg : ∀ a s o, 0 ≤ m.Ob a s o
  le_one : ∀ a s, s < m.S → sumTo m.S (fun s1 => sumTo m.O (fun o => m.T a s s1 * m.Ob a s1 o)) ≤ 1

def mass (S : Nat) (b : Nat → Rat) : Rat := sumTo S b

/-- `1 + γ + … + γ^(h-1)` -/
def geo (γ : Rat) : Nat → Rat
  | 0 => 0
  | h+1 => 1 + γ * geo γ h

theorem geo_nonneg {γ : Rat} (hγ : 0 ≤ γ) : ∀ h, 0 ≤ geo γ h
  | 0 => le_refl _
  | h+1 => by
    have := geo_nonneg hγ h
    have := mul_nonneg hγ this
    simp only [geo]; linarith

theorem tau_nonneg {m : Pomdp} (hs : SubStoch m) {b : Nat → Rat} (hb : ∀ s, 0 ≤ b s) (a o s1 : Nat) :
    0 ≤ tau m b a o s1 := by
  unfold tau
  apply mul_nonneg _ (hs.Ob_nonneg a s1 o)
  rw [sumTo_eq]
  exact Finset.sum_nonneg (fun s _ => mul_nonneg (hb s) (hs.T_nonneg a s s1))

theorem mass_tau_le {m : Pomdp} (hs : SubStoch m) {b : Nat → Rat} (hb : ∀ s, 0 ≤ b s) (a : Nat) :
    sumTo m.O (fun o => mass m.S (tau m b a o)) ≤ mass m.S b := by
  have e : sumTo m.O (fun o => mass m.S (tau m b a o)) =
      sumTo m.S (fun s => b s * sumTo m.S (fun s1 => sumTo m.O (fun o => m.T a s s1 * m.Ob a s1 o))) := by
    simp only [mass, tau, sumTo_eq, Finset.sum_mul, Finset.mul_sum]
    calc ∑ o ∈ range m.O, ∑ s1 ∈ range m.S, ∑ s ∈ range m.S, b s * m.T a s s1 * m.Ob a s1 o
        = ∑ s1 ∈ range m.S, ∑ o ∈ range m.O, ∑ s ∈ range m.S, b s * m.T a s s1 * m.Ob a s1 o := Finset.sum_comm
      _ = ∑ s1 ∈ range m.S, ∑ s ∈ range m.S, ∑ o ∈ range m.O, b s * m.T a s s1 * m.Ob a s1 o :=
          Finset.sum_congr rfl (fun _ _ => Finset.sum_comm)
      _ = ∑ s ∈ range m.S, ∑ s1 ∈ range m.S, ∑ o ∈ range m.O, b s * m.T a s s1 * m.Ob a s1 o := Finset.sum_comm
      _ = _ := by
          apply Finset.sum_congr rfl; intro s _
          apply Finset.sum_congr rfl; intro s1 _
          apply Finset.sum_congr rfl; intro o _
          ring
  rw [e]
  unfold mass
  apply sumTo_le
  intro s hs'
  calc b s * _ ≤ b s * 1 := mul_le_mul_of_nonneg_left (hs.le_one a s hs') (hb s)
    _ = b s := mul_one _

theorem abs_sumTo_le (n : Nat) (f g : Nat → Rat) (h : ∀ i, i < n → |f i| ≤ g i) : |sumTo n f| ≤ sumTo n g := by
  rw [sumTo_eq, sumTo_eq]
  exact le_trans (Finset.abs_sum_le_sum_abs _ _) (Finset.sum_le_sum (fun i hi => h i (Finset.mem_range.mp hi)))

/-- **approx_consistent_exec.**  ε-consistent value function, sub-stochastic tables, `0 ≤ γ`, non-negative belief:
    `|execReturn − b·values| ≤ ε · mass(b) · (1 + γ + … + γ^(h-1))` for every horizon and entry. -/
theorem approx_consistent_exec {ε : Rat} {m : Pomdp} {vf : VF} (hε : 0 ≤ ε) (hγ : 0 ≤ m.disc) (hs : SubStoch m)
    (hc : ApproxConsistent ε m vf) :
    ∀ (h id : Nat) (b : Nat → Rat), (∀ s, 0 ≤ b s) → h < vf.length → id < (vlist vf h).length →
      |execReturn m vf h id b - dot m.S b (val (entry vf h id))| ≤ ε * mass m.S b * geo m.disc h := by
  intro h
  induction h with
  | zero => intro id b _ _ _; simp [execReturn, geo]
  | succ h ih =>
    intro id b hb hh hid
    obtain ⟨hl, hv⟩ := hc h hh id hid
    have hmb : 0 ≤ mass m.S b := by unfold mass; rw [sumTo_eq]; exact Finset.sum_nonneg (fun s _ => hb s)
    have hg := geo_nonneg hγ h
    -- split the stored vector into its derivation and the residual
    have hsplit : dot m.S b (val (entry vf (h+1) id)) =
        (rewardB m b (entry vf (h+1) id).action + m.disc * sumTo m.O (fun o =>
          dot m.S (tau m b (entry vf (h+1) id).action o) (val (entryAt (vlist vf h) (link (entry vf (h+1) id) o))))) +
        sumTo m.S (fun s => b s * (val (entry vf (h+1) id) s - oneStepExact m (vlist vf h) (entry vf (h+1) id) s)) := by
      rw [← plan_algebra m b (entry vf (h+1) id).action
        (fun o s1 => val (entryAt (vlist vf h) (link (entry vf (h+1) id) o)) s1)]
      unfold dot oneStepExact
      simp only [sumTo_eq]
      rw [← Finset.sum_add_distrib]
      apply Finset.sum_congr rfl; intro s _
      ring
    have hY : |sumTo m.S (fun s => b s * (val (entry vf (h+1) id) s - oneStepExact m (vlist vf h) (entry vf (h+1) id) s))|
        ≤ ε * mass m.S b := by
      have := abs_sumTo_le m.S (fun s => b s * (val (entry vf (h+1) id) s - oneStepExact m (vlist vf h) (entry vf (h+1) id) s))
        (fun s => b s * ε) (fun s hs' => by
          rw [abs_mul, abs_of_nonneg (hb s)]
          exact mul_le_mul_of_nonneg_left (hv s hs') (hb s))
      refine le_trans this (le_of_eq ?_)
      unfold mass
      simp only [sumTo_eq, Finset.mul_sum, Finset.sum_mul]
      apply Finset.sum_congr rfl; intro s _; ring
    have hX : |sumTo m.O (fun o => execReturn m vf h (link (entry vf (h+1) id) o) (tau m b (entry vf (h+1) id).action o) -
          dot m.S (tau m b (entry vf (h+1) id).action o) (val (entryAt (vlist vf h) (link (entry vf (h+1) id) o))))|
        ≤ ε * geo m.disc h * mass m.S b := by
      have h1 := abs_sumTo_le m.O _ (fun o => ε * mass m.S (tau m b (entry vf (h+1) id).action o) * geo m.disc h)
        (fun o ho => ih (link (entry vf (h+1) id) o) (tau m b (entry vf (h+1) id).action o)
          (fun s1 => tau_nonneg hs hb _ _ s1) (by omega) (hl o ho))
      refine le_trans h1 ?_
      have h2 := mass_tau_le hs hb (entry vf (h+1) id).action
      have e : sumTo m.O (fun o => ε * mass m.S (tau m b (entry vf (h+1) id).action o) * geo m.disc h) =
          ε * geo m.disc h * sumTo m.O (fun o => mass m.S (tau m b (entry vf (h+1) id).action o)) := by
        simp only [sumTo_eq, Finset.mul_sum]
        apply Finset.sum_congr rfl; intro o _; ring
      rw [e]
      exact mul_le_mul_of_nonneg_left h2 (mul_nonneg hε hg)
    rw [execReturn_succ, hsplit]
    have hdiff : (rewardB m b (entry vf (h+1) id).action + m.disc * sumTo m.O (fun o =>
          execReturn m vf h (link (entry vf (h+1) id) o) (tau m b (entry vf (h+1) id).action o))) -
        ((rewardB m b (entry vf (h+1) id).action + m.disc * sumTo m.O (fun o =>
          dot m.S (tau m b (entry vf (h+1) id).action o) (val (entryAt (vlist vf h) (link (entry vf (h+1) id) o))))) +
        sumTo m.S (fun s => b s * (val (entry vf (h+1) id) s - oneStepExact m (vlist vf h) (entry vf (h+1) id) s))) =
        m.disc * sumTo m.O (fun o => execReturn m vf h (link (entry vf (h+1) id) o) (tau m b (entry vf (h+1) id).action o) -
          dot m.S (tau m b (entry vf (h+1) id).action o) (val (entryAt (vlist vf h) (link (entry vf (h+1) id) o)))) -
        sumTo m.S (fun s => b s * (val (entry vf (h+1) id) s - oneStepExact m (vlist vf h) (entry vf (h+1) id) s)) := by
      simp only [sumTo_eq, Finset.sum_sub_distrib]
      ring
    rw [hdiff]
    have hfinal : ε * mass m.S b * geo m.disc (h+1) = m.disc * (ε * geo m.disc h * mass m.S b) + ε * mass m.S b := by
      simp only [geo]; ring
    rw [hfinal]
    refine le_trans (abs_sub _ _) ?_
    rw [abs_mul, abs_of_nonneg hγ]
    exact add_le_add (mul_le_mul_of_nonneg_left hX hγ) hY

end AITB.Plan
