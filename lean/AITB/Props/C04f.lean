/-
  AITB.Props.C04f — the modelled IncrementalPruning::operator() returns a Consistent value function, for every POMDP
  (A ≥ 1, O ≥ 1), every horizon and every pruning behaviour that keeps a non-empty sub-multiset of its input.
-/
import AITB.Props.C04e

namespace AITB.Plan

theorem ipRun_length (m : Pomdp) (pr : VList → VList) : ∀ h, (ipRun m pr h).length = h + 1
  | 0 => rfl
  | h+1 => by simp [ipRun, ipRun_length m pr h]

theorem vlist_ipRun_succ_le (m : Pomdp) (pr : VList → VList) (h k : Nat) (hk : k ≤ h) :
    vlist (ipRun m pr (h+1)) k = vlist (ipRun m pr h) k := by
  have hl := ipRun_length m pr h
  simp only [vlist, ipRun, List.getD_eq_getElem?_getD]
  rw [List.getElem?_append_left (by omega)]

theorem vlist_ipRun_succ_last (m : Pomdp) (pr : VList → VList) (h : Nat) :
    vlist (ipRun m pr (h+1)) (h+1) = ipStep m pr (vlist (ipRun m pr h) h) := by
  have hl := ipRun_length m pr h
  simp only [ipRun]
  unfold vlist
  rw [List.getD_eq_getElem?_getD, List.getElem?_append_right (by omega)]
  simp [hl]

theorem ipStep_ok {m : Pomdp} (pr : VList → VList) (hpr : ∀ l e, e ∈ pr l → e ∈ l) (hpr2 : ∀ l, l ≠ [] → pr l ≠ [])
    (hA : 0 < m.A) (hO : 0 < m.O) {prev : VList} (hne : prev ≠ []) :
    (∀ e ∈ ipStep m pr prev, EntryOK oneStep m prev e) ∧ ipStep m pr prev ≠ [] := by
  unfold ipStep
  constructor
  · intro e he
    obtain ⟨a, ha, hea⟩ := List.mem_flatMap.mp (hpr _ _ he)
    exact (incrementalPruning_action_ok pr hpr hpr2 hne (List.mem_range.mp ha) hO).1 e hea
  · apply hpr2
    have h0 := (incrementalPruning_action_ok (a := 0) pr hpr hpr2 hne hA hO).2
    obtain ⟨e, he⟩ := List.exists_mem_of_ne_nil _ h0
    intro hnil
    have : e ∈ (List.range m.A).flatMap (fun a =>
        mergeSchedule (mrgVL pr a) ((List.range m.O).map (fun o => pr (project m prev a o)))) :=
      List.mem_flatMap.mpr ⟨0, List.mem_range.mpr hA, he⟩
    rw [hnil] at this
    simp at this

theorem ipRun_top_ne_nil {m : Pomdp} (pr : VList → VList) (hpr : ∀ l e, e ∈ pr l → e ∈ l)
    (hpr2 : ∀ l, l ≠ [] → pr l ≠ []) (hA : 0 < m.A) (hO : 0 < m.O) : ∀ h, vlist (ipRun m pr h) h ≠ []
  | 0 => by simp [ipRun, zeroVF, vlist]
  | h+1 => by
    rw [vlist_ipRun_succ_last]
    exact (ipStep_ok pr hpr hpr2 hA hO (ipRun_top_ne_nil pr hpr hpr2 hA hO h)).2

/-- **ip_consistent.**  ∀ POMDP with A ≥ 1 and O ≥ 1, ∀ horizon `h`: the value function built by the modelled
    IncrementalPruning loops (Projecter → prune → merge schedule with crossSum/prune → concatenate → prune) is
    `Consistent`: every link in range, every entry the one-step plan of its action and links. -/
theorem ip_consistent {m : Pomdp} (pr : VList → VList) (hpr : ∀ l e, e ∈ pr l → e ∈ l)
    (hpr2 : ∀ l, l ≠ [] → pr l ≠ []) (hA : 0 < m.A) (hO : 0 < m.O) : ∀ h, Consistent m (ipRun m pr h)
  | 0 => by
    intro k hk; simp [ipRun, zeroVF] at hk
  | h+1 => by
    intro k hk id hid
    rw [ipRun_length] at hk
    rcases Nat.lt_or_ge k h with hlt | hge
    · have e1 := vlist_ipRun_succ_le m pr h (k+1) (by omega)
      have e2 := vlist_ipRun_succ_le m pr h k (by omega)
      unfold entry
      rw [e1] at hid ⊢
      rw [e2]
      exact ip_consistent pr hpr hpr2 hA hO h k (by rw [ipRun_length]; omega) id hid
    · have hk' : k = h := by omega
      subst hk'
      have e1 := vlist_ipRun_succ_last m pr k
      have e2 := vlist_ipRun_succ_le m pr k k (by omega)
      unfold entry
      rw [e1] at hid ⊢
      rw [e2]
      have hmem : entryAt (ipStep m pr (vlist (ipRun m pr k) k)) id ∈ ipStep m pr (vlist (ipRun m pr k) k) := by
        unfold entryAt; rw [getD_eq_getElem' _ _ hid]; exact List.getElem_mem hid
      exact (ipStep_ok pr hpr hpr2 hA hO (ipRun_top_ne_nil pr hpr hpr2 hA hO k)).1 _ hmem

/-- … and therefore executing it from any belief, at any stored horizon, earns what it promises
    (for models whose sub-tolerance observation probabilities are exactly zero) -/
theorem ip_exec {m : Pomdp} (pr : VList → VList) (hpr : ∀ l e, e ∈ pr l → e ∈ l)
    (hpr2 : ∀ l, l ≠ [] → pr l ≠ []) (hA : 0 < m.A) (hO : 0 < m.O) (hz : ZeroBelow m)
    (H h id : Nat) (b : Nat → Rat) (hh : h ≤ H) (hid : id < (vlist (ipRun m pr H) h).length) :
    execReturn m (ipRun m pr H) h id b = dot m.S b (val (entry (ipRun m pr H) h id)) :=
  links_consistent_exec_thresholded hz (ip_consistent pr hpr hpr2 hA hO H) h id b (by rw [ipRun_length]; omega) hid

end AITB.Plan
