/-
  AITB.Props.C07Current — property C07 at FULL STRENGTH for the library as its source is now.

  `AITB.Props.C07` proves `model_mirrors_history` / `world_mirrors_history` for an arbitrary configuration
  under hypotheses the proof forced (`n1Clear ∨ (no reset ∧ initialised storage)`, `sparseGeneric = false`;
  reward clause `RewOK`).  The configurations the driver runs (`AITB.Model.ExperienceCfg`) are built from the
  translator-generated facts `AITB.Gen.C07`.  Here those hypotheses are DISCHARGED for every one of these
  configurations: the statements below have no `_partial` hypothesis left, the reward clause is plain
  equality and the default-row clause is unconditional.  If a source change flips one of the extracted flags
  back (first-visit branch no longer clears the row, constructor storage uninitialised, tolerance-guarded reward
  copy, element-wise sync not clearing), `flags_current` stops being provable and this module — a proof
  obligation of the check — no longer builds.
-/
import AITB.Props.C07
import AITB.Model.ExperienceCfg

namespace AITB.Exp

/-- the four syntactic facts, as extracted from the current source -/
theorem flags_current :
    AITB.Gen.C07.denseN1Clear = true ∧ AITB.Gen.C07.sparseN1Clear = true ∧ AITB.Gen.C07.denseCtorJunk = false ∧
    AITB.Gen.C07.sparseRewardGuard = false ∧ AITB.Gen.C07.sparseGenericPartial = false := by decide

/-- the configurations of all modelled classes -/
inductive IsCurrent : Cfg → Prop
  | dense (junk : Rat) : IsCurrent (cfgDense junk)
  | sparse (junk : Rat) : IsCurrent (cfgSparse junk)
  | gsparse (junk : Rat) : IsCurrent (cfgGSparse junk)
  | plain (junk : Rat) : IsCurrent (cfgPlain junk)

theorem IsCurrent.facts {cfg : Cfg} (h : IsCurrent cfg) :
    cfg.n1Clear = true ∧ cfg.ctorJunk = false ∧ cfg.sparseGeneric = false ∧ cfg.rewTol = none := by
  obtain ⟨a, b, c, d, e⟩ := flags_current
  cases h <;> simp [cfgDense, cfgSparse, cfgGSparse, cfgPlain, mkCfg, sparseTol, a, b, c, d, e]

/-- **mirrors_history_current** — C07 for every modelled class as the source is now, full strength.
    For every table shape, every history of `record / sync() / sync(s,a) / sync(s,a,s1) / reset()` and model
    (re)constructions with either flag in any interleaving, every pair `i` whose incremental syncs respect the
    documented precondition (exactly one new record for the pair since its last sync, passed as `s1`), for all rewards,
    every resync period and whatever uninitialised memory holds:
    experience = statistics of the recorded data; synced pair = empirical frequencies and exact empirical mean of the
    data at its last effective sync; never effectively synced pair = default unit row, reward 0; a pair with data whose
    last call was a sync is up to date; `timesteps` = records since the last reset. -/
theorem mirrors_history_current {cfg : Cfg} (hcur : IsCurrent cfg) (np w : Nat) (dflOf : Nat → Nat) (h : List Op) (i : Nat)
    (hi : i < np) (hwf : wfAll w (h.map (Op.project i)) = true)
    (hpre : incPre Ghost.init (h.map (Op.project i)) = true) :
    ((World.init np w dflOf).run cfg h).ts = tsOf h ∧
    ∃ p, ((World.init np w dflOf).run cfg h).pairs[i]? = some p ∧
      let g := Ghost.init.run (h.map (Op.project i))
      (p.cell.n = g.recs.length ∧ p.cell.mean = meanOf g.recs ∧ p.cell.m2 = sqDevOf g.recs ∧
        ∀ k, k < w → nthN p.cnt k = countS1 k g.recs) ∧
      (g.snap ≠ [] → (∀ k, k < w → nthQ p.row k = freqOf g.snap k) ∧ p.rew = meanOf g.snap) ∧
      (g.snap = [] → p.row = unit w (dflOf i) ∧ p.rew = 0) ∧
      (g.pend = 0 → g.recs ≠ [] → g.snap = g.recs) := by
  obtain ⟨f1, f2, f3, f4⟩ := hcur.facts
  obtain ⟨hts, p, hp, h1, h2, h3, h4⟩ := world_mirrors_history cfg f3 np w dflOf h i hi hwf hpre (Or.inl f1)
  exact ⟨hts, p, hp, h1, fun hs => ⟨(h2 hs).1, RewOK_dense f4 (h2 hs).2⟩, h3 f2, h4⟩

/-- **recovery_current** — and a violated precondition is repaired by the next full sync: `h1` arbitrary, `op` a
    recovering call (full sync of a pair with data / periodic branch / model construction), `h2` respecting the
    precondition from there on. -/
theorem recovery_current {cfg : Cfg} (hcur : IsCurrent cfg) (w dfl idx : Nat) (h1 h2 : List LOp) (op : LOp)
    (hr : recovers cfg ((Pair.init w dfl idx).run cfg h1) op = true)
    (hwf : wfAll w h2 = true) (hpre : incPre ((Ghost.init.run h1).step op) h2 = true) :
    let p := (Pair.init w dfl idx).run cfg (h1 ++ op :: h2)
    let g := Ghost.init.run (h1 ++ op :: h2)
    (p.cell.n = g.recs.length ∧ p.cell.mean = meanOf g.recs ∧ p.cell.m2 = sqDevOf g.recs ∧
      ∀ i, i < w → nthN p.cnt i = countS1 i g.recs) ∧
    (g.snap ≠ [] → (∀ i, i < w → nthQ p.row i = freqOf g.snap i) ∧ p.rew = meanOf g.snap) ∧
    (g.snap = [] → p.row = unit w dfl ∧ p.rew = 0) ∧
    (g.pend = 0 → g.recs ≠ [] → g.snap = g.recs) := by
  obtain ⟨f1, f2, f3, f4⟩ := hcur.facts
  obtain ⟨a, b, c, d⟩ := recovery cfg f3 w dfl idx h1 h2 op hr hwf hpre (Or.inl f1)
  exact ⟨a, fun hs => ⟨(b hs).1, RewOK_dense f4 (b hs).2⟩, c f2, d⟩

/-- never-visited pairs keep the default, current source, no hypothesis on the configuration -/
theorem unvisited_keep_default_current {cfg : Cfg} (hcur : IsCurrent cfg) (w dfl idx : Nat) (h : List LOp)
    (hnr : h.all (fun op => !isRecord op) = true) :
    ((Pair.init w dfl idx).run cfg h).row = unit w dfl ∧ ((Pair.init w dfl idx).run cfg h).rew = 0 :=
  unvisited_keep_default cfg hcur.facts.2.1 w dfl idx h hnr

/-- the constructed tables never depend on what uninitialised storage held (the full statement of
    `ctor_independent_of_junk`), current source -/
theorem ctor_independent_of_junk_current {cfg : Cfg} (hcur : IsCurrent cfg) (j' : Nat → Nat → Rat) (p : Pair) (h : List LOp) :
    p.run { cfg with junk := j' } h = p.run cfg h :=
  ctor_independent_of_junk_partial cfg hcur.facts.2.1 j' p h

end AITB.Exp
