/-
  AITB.Props.C16World — engine-carrying objects in a shared world (C16): an object's outputs depend only on
  its own (configuration, engine) state and the inputs sent to it; the Seeder position after a reseed does
  not depend on the past; so "same root seed ⇒ same results".
  Core Lean only.
-/
import AITB.Model.RngObj
namespace AITB.Hidden

variable {Eng Cfg In Out : Type}

/-! ### small facts about the projections -/

theorem lt_length_of_getElem?_eq_some {α : Type} {l : List α} {j : Nat} {a : α} (h : l[j]? = some a) :
    j < l.length := by
  rcases List.getElem?_eq_some_iff.mp h with ⟨hj, _⟩
  exact hj

theorem outputsOf_nil (j : Nat) : outputsOf j ([] : List (Nat × Out)) = [] := rfl

theorem outputsOf_append (j : Nat) (a b : List (Nat × Out)) :
    outputsOf j (a ++ b) = outputsOf j a ++ outputsOf j b := by
  simp [outputsOf, List.filter_append, List.map_append]

theorem outputsOf_cons_self (j : Nat) (y : Out) (l : List (Nat × Out)) :
    outputsOf j ((j, y) :: l) = y :: outputsOf j l := by
  simp [outputsOf]

theorem outputsOf_cons_ne {i j : Nat} (h : i ≠ j) (y : Out) (l : List (Nat × Out)) :
    outputsOf j ((i, y) :: l) = outputsOf j l := by
  simp [outputsOf, h]

theorem inputsOf_append (j : Nat) (a b : List (WOp Cfg In)) :
    inputsOf j (a ++ b) = inputsOf j a ++ inputsOf j b := by
  induction a with
  | nil => simp [inputsOf]
  | cons op a ih =>
    cases op with
    | setRoot s => simp [inputsOf, ih]
    | construct c => simp [inputsOf, ih]
    | call i x =>
      by_cases hij : i = j
      · simp [inputsOf, hij, ih]
      · simp [inputsOf, hij, ih]
    | copy i => simp [inputsOf, ih]

theorem objTrace_nil (S : RngSem Eng Cfg In Out) (o : Cfg × Eng) : objTrace S o [] = [] := by
  cases o; rfl

theorem objAfter_nil (S : RngSem Eng Cfg In Out) (o : Cfg × Eng) : objAfter S o [] = o := by
  cases o; rfl

/-! ### 1. runs compose -/

theorem runW_cons (S : RngSem Eng Cfg In Out) (stream : Nat → Nat → Nat) (w : World Eng Cfg)
    (op : WOp Cfg In) (ops : List (WOp Cfg In)) :
    runW S stream w (op :: ops) =
      ((match (stepW S stream w op).2 with
        | none => (runW S stream (stepW S stream w op).1 ops).1
        | some o => o :: (runW S stream (stepW S stream w op).1 ops).1),
       (runW S stream (stepW S stream w op).1 ops).2) := by
  rfl

theorem runW_append (S : RngSem Eng Cfg In Out) (stream : Nat → Nat → Nat) (w : World Eng Cfg)
    (a b : List (WOp Cfg In)) :
    runW S stream w (a ++ b) =
      ((runW S stream w a).1 ++ (runW S stream (runW S stream w a).2 b).1,
       (runW S stream (runW S stream w a).2 b).2) := by
  induction a generalizing w with
  | nil => simp [runW]
  | cons op a ih =>
    simp only [List.cons_append, runW_cons, ih]
    cases (stepW S stream w op).2 <;> simp

/-! ### 2. an object's outputs are local -/

theorem object_outputs_local (S : RngSem Eng Cfg In Out) (stream : Nat → Nat → Nat)
    (ops : List (WOp Cfg In)) (w : World Eng Cfg) (j : Nat) (o : Cfg × Eng)
    (h : w.objs[j]? = some o) :
    outputsOf j (runW S stream w ops).1 = objTrace S o (inputsOf j ops) ∧
      (runW S stream w ops).2.objs[j]? = some (objAfter S o (inputsOf j ops)) := by
  induction ops generalizing w o with
  | nil => simp [runW, inputsOf, outputsOf_nil, objTrace_nil, objAfter_nil, h]
  | cons op ops ih =>
    have hj : j < w.objs.length := lt_length_of_getElem?_eq_some h
    cases op with
    | setRoot s =>
      have := ih { w with seeder := ⟨s, 0⟩ } o h
      simpa [runW_cons, stepW, inputsOf] using this
    | construct c =>
      have h' : (w.objs ++ [(c, S.seedEngine (seedsAt stream w.seeder S.nSeeds))])[j]? = some o := by
        rw [List.getElem?_append_left hj]; exact h
      have := ih { seeder := ⟨w.seeder.root, w.seeder.pos + S.nSeeds⟩,
                   objs := w.objs ++ [(c, S.seedEngine (seedsAt stream w.seeder S.nSeeds))] } o h'
      simpa [runW_cons, stepW, inputsOf] using this
    | call i x =>
      cases hi : w.objs[i]? with
      | none =>
        have hij : i ≠ j := by
          intro e; subst e; rw [h] at hi; cases hi
        have := ih w o h
        simpa [runW_cons, stepW, hi, inputsOf, hij] using this
      | some ce =>
        obtain ⟨c, e⟩ := ce
        by_cases hij : i = j
        · subst hij
          rw [h] at hi
          cases hi
          have h' : (w.objs.set i (c, (S.call c e x).1))[i]? = some (c, (S.call c e x).1) :=
            List.getElem?_set_self hj
          have := ih { w with objs := w.objs.set i (c, (S.call c e x).1) } (c, (S.call c e x).1) h'
          simpa [runW_cons, stepW, h, inputsOf, outputsOf_cons_self, objTrace, objAfter] using this
        · have h' : (w.objs.set i (c, (S.call c e x).1))[j]? = some o := by
            rw [List.getElem?_set_ne hij]; exact h
          have := ih { w with objs := w.objs.set i (c, (S.call c e x).1) } o h'
          simpa [runW_cons, stepW, hi, inputsOf, hij, outputsOf_cons_ne hij] using this
    | copy i =>
      cases hi : w.objs[i]? with
      | none =>
        have := ih w o h
        simpa [runW_cons, stepW, hi, inputsOf] using this
      | some o' =>
        have h' : (w.objs ++ [o'])[j]? = some o := by
          rw [List.getElem?_append_left hj]; exact h
        have := ih { w with objs := w.objs ++ [o'] } o h'
        simpa [runW_cons, stepW, hi, inputsOf] using this

/-! ### 3. interleaving does not matter -/

theorem interleaving_independent (S : RngSem Eng Cfg In Out) (stream : Nat → Nat → Nat)
    (ops ops' : List (WOp Cfg In)) (w w' : World Eng Cfg) (j : Nat) (o : Cfg × Eng)
    (h : w.objs[j]? = some o) (h' : w'.objs[j]? = some o)
    (hin : inputsOf j ops = inputsOf j ops') :
    outputsOf j (runW S stream w ops).1 = outputsOf j (runW S stream w' ops').1 := by
  rw [(object_outputs_local S stream ops w j o h).1, (object_outputs_local S stream ops' w' j o h').1, hin]

/-! ### 4. the Seeder along a run -/

theorem seeder_after (S : RngSem Eng Cfg In Out) (stream : Nat → Nat → Nat)
    (w : World Eng Cfg) (ops : List (WOp Cfg In)) :
    (runW S stream w ops).2.seeder = seederAfter S.nSeeds w.seeder ops := by
  induction ops generalizing w with
  | nil => simp [runW, seederAfter]
  | cons op ops ih =>
    cases op with
    | setRoot s => simp [runW_cons, stepW, seederAfter, ih]
    | construct c => simp [runW_cons, stepW, seederAfter, ih]
    | call i x =>
      cases hi : w.objs[i]? with
      | none => simp [runW_cons, stepW, hi, seederAfter, ih]
      | some ce => simp [runW_cons, stepW, hi, seederAfter, ih]
    | copy i =>
      cases hi : w.objs[i]? with
      | none => simp [runW_cons, stepW, hi, seederAfter, ih]
      | some ce => simp [runW_cons, stepW, hi, seederAfter, ih]

theorem seederAfter_setRoot_prefix (n : Nat) (sd : Seeder) (p q : List (WOp Cfg In)) (s : Nat) :
    seederAfter n sd (p ++ WOp.setRoot s :: q) = seederAfter n ⟨s, 0⟩ q := by
  induction p generalizing sd with
  | nil => simp [seederAfter]
  | cons op p ih =>
    cases op <;> simp [seederAfter, ih]

/-! ### 5. a handle that does not exist yet produces nothing -/

theorem stepW_length_mono (S : RngSem Eng Cfg In Out) (stream : Nat → Nat → Nat)
    (w : World Eng Cfg) (op : WOp Cfg In) :
    w.objs.length ≤ (stepW S stream w op).1.objs.length := by
  cases op with
  | setRoot s => simp [stepW]
  | construct c => simp [stepW]
  | call i x =>
    cases hi : w.objs[i]? with
    | none => simp [stepW, hi]
    | some ce => simp [stepW, hi, List.length_set]
  | copy i =>
    cases hi : w.objs[i]? with
    | none => simp [stepW, hi]
    | some ce => simp [stepW, hi]

theorem objs_length_mono (S : RngSem Eng Cfg In Out) (stream : Nat → Nat → Nat)
    (w : World Eng Cfg) (ops : List (WOp Cfg In)) :
    w.objs.length ≤ (runW S stream w ops).2.objs.length := by
  induction ops generalizing w with
  | nil => simp [runW]
  | cons op ops ih =>
    have h1 := stepW_length_mono S stream w op
    have h2 := ih (stepW S stream w op).1
    simp only [runW_cons]
    omega

theorem no_output_beyond (S : RngSem Eng Cfg In Out) (stream : Nat → Nat → Nat)
    (ops : List (WOp Cfg In)) (w : World Eng Cfg) (j : Nat)
    (h : (runW S stream w ops).2.objs.length ≤ j) :
    outputsOf j (runW S stream w ops).1 = [] := by
  induction ops generalizing w with
  | nil => simp [runW, outputsOf_nil]
  | cons op ops ih =>
    have hmono := objs_length_mono S stream (stepW S stream w op).1 ops
    have hstep := stepW_length_mono S stream w op
    simp only [runW_cons] at h
    have hrest := ih (stepW S stream w op).1 h
    cases op with
    | setRoot s => simpa [runW_cons, stepW] using hrest
    | construct c => simpa [runW_cons, stepW] using hrest
    | call i x =>
      cases hi : w.objs[i]? with
      | none => simpa [runW_cons, stepW, hi] using hrest
      | some ce =>
        have hilt : i < w.objs.length := lt_length_of_getElem?_eq_some hi
        have hij : i ≠ j := by omega
        simp [stepW, hi] at hrest
        simp [runW_cons, stepW, hi, outputsOf_cons_ne hij, hrest]
    | copy i =>
      cases hi : w.objs[i]? with
      | none => simpa [runW_cons, stepW, hi] using hrest
      | some ce => simpa [runW_cons, stepW, hi] using hrest

/-! ### 6. same root seed ⇒ same results, whatever ran before, whatever other objects do -/

theorem fresh_object_outputs (S : RngSem Eng Cfg In Out) (stream : Nat → Nat → Nat)
    (w : World Eng Cfg) (p q1 q2 : List (WOp Cfg In)) (s : Nat) (c : Cfg) :
    outputsOf (runW S stream w (p ++ WOp.setRoot s :: q1)).2.objs.length
        (runW S stream w ((p ++ WOp.setRoot s :: q1) ++ WOp.construct c :: q2)).1 =
      objTrace S (c, S.seedEngine (seedsAt stream (seederAfter S.nSeeds ⟨s, 0⟩ q1) S.nSeeds))
        (inputsOf (runW S stream w (p ++ WOp.setRoot s :: q1)).2.objs.length q2) := by
  have hsd : (runW S stream w (p ++ WOp.setRoot s :: q1)).2.seeder = seederAfter S.nSeeds ⟨s, 0⟩ q1 := by
    rw [seeder_after, seederAfter_setRoot_prefix]
  have hno := no_output_beyond S stream (p ++ WOp.setRoot s :: q1) w
    (runW S stream w (p ++ WOp.setRoot s :: q1)).2.objs.length (Nat.le_refl _)
  rw [runW_append S stream w (p ++ WOp.setRoot s :: q1) (WOp.construct c :: q2)]
  generalize runW S stream w (p ++ WOp.setRoot s :: q1) = r1 at hsd hno ⊢
  simp only [outputsOf_append, hno, List.nil_append]
  have hloc := (object_outputs_local S stream q2
    (stepW S stream r1.2 (WOp.construct c)).1 r1.2.objs.length
    (c, S.seedEngine (seedsAt stream r1.2.seeder S.nSeeds))
    (by simp [stepW])).1
  rw [hsd] at hloc
  simpa [runW_cons, stepW, hsd] using hloc

/-- the same statement with the program written flat (`p ++ setRoot s :: q1 ++ construct c :: q2` parses
    right-nested) -/
theorem fresh_object_outputs_flat (S : RngSem Eng Cfg In Out) (stream : Nat → Nat → Nat)
    (w : World Eng Cfg) (p q1 q2 : List (WOp Cfg In)) (s : Nat) (c : Cfg) :
    outputsOf (runW S stream w (p ++ WOp.setRoot s :: q1)).2.objs.length
        (runW S stream w (p ++ WOp.setRoot s :: q1 ++ WOp.construct c :: q2)).1 =
      objTrace S (c, S.seedEngine (seedsAt stream (seederAfter S.nSeeds ⟨s, 0⟩ q1) S.nSeeds))
        (inputsOf (runW S stream w (p ++ WOp.setRoot s :: q1)).2.objs.length q2) := by
  have := fresh_object_outputs S stream w p q1 q2 s c
  simpa [List.append_assoc] using this

/-! ### 7. a copy replays the original -/

theorem copy_replays (S : RngSem Eng Cfg In Out) (stream : Nat → Nat → Nat)
    (w : World Eng Cfg) (i : Nat) (o : Cfg × Eng) (ops : List (WOp Cfg In))
    (h : w.objs[i]? = some o)
    (hin : inputsOf i ops = inputsOf w.objs.length ops) :
    outputsOf i (runW S stream (stepW S stream w (WOp.copy i)).1 ops).1 =
      outputsOf w.objs.length (runW S stream (stepW S stream w (WOp.copy i)).1 ops).1 := by
  have hi : i < w.objs.length := lt_length_of_getElem?_eq_some h
  have hw : (stepW S stream w (WOp.copy i)).1 = { w with objs := w.objs ++ [o] } := by
    simp [stepW, h]
  rw [hw]
  have h1 : ({ w with objs := w.objs ++ [o] } : World Eng Cfg).objs[i]? = some o := by
    show (w.objs ++ [o])[i]? = some o
    rw [List.getElem?_append_left hi]; exact h
  have h2 : ({ w with objs := w.objs ++ [o] } : World Eng Cfg).objs[w.objs.length]? = some o := by
    show (w.objs ++ [o])[w.objs.length]? = some o
    exact List.getElem?_concat_length
  rw [(object_outputs_local S stream ops _ i o h1).1,
      (object_outputs_local S stream ops _ w.objs.length o h2).1, hin]

/-! ### 8. the Seeder's past is forgotten at a reseed -/

theorem same_seed_same_results (S : RngSem Eng Cfg In Out) (stream : Nat → Nat → Nat)
    (sd sd' : Seeder) (objs : List (Cfg × Eng)) (s : Nat) (q : List (WOp Cfg In)) :
    runW S stream ⟨sd, objs⟩ (WOp.setRoot s :: q) = runW S stream ⟨sd', objs⟩ (WOp.setRoot s :: q) := by
  simp [runW_cons, stepW]

/-! ### non-vacuity: the statements evaluated on literals -/

/-- a tiny concrete class: one seed per construction, the engine is a number -/
def tinySem : RngSem Nat Nat Nat Nat where
  nSeeds := 1
  seedEngine := fun l => l.getD 0 0
  call := fun c e x => (e * 3 + x + 1, c + e + x)

def tinyStream : Nat → Nat → Nat := fun r k => r * 100 + k

def tinyW0 : World Nat Nat := ⟨⟨7, 3⟩, []⟩

/-- two objects, calls interleaved (plus a reseed, a copy and a call on a missing handle in between) -/
def tinyInterleaved : List (WOp Nat Nat) :=
  [.construct 10, .construct 20, .call 0 1, .call 1 5, .setRoot 9, .call 0 2, .copy 1, .call 1 6, .call 7 0,
   .construct 30, .call 0 3, .call 3 4]

/-- only object 0's calls -/
def tinyAlone : List (WOp Nat Nat) := [.construct 10, .call 0 1, .call 0 2, .call 0 3]

-- test on literals: (a) object 0's outputs in the interleaved program = its outputs when run alone, and both are
-- the concrete list (engine 703: outputs 10+703+1, then engine 2111: 10+2111+2, then engine 6336: 10+6336+3)
example : outputsOf 0 (runW tinySem tinyStream tinyW0 tinyInterleaved).1 = [714, 2123, 6349] := by decide
example : outputsOf 0 (runW tinySem tinyStream tinyW0 tinyAlone).1 = [714, 2123, 6349] := by decide
example : outputsOf 0 (runW tinySem tinyStream tinyW0 tinyInterleaved).1
    = outputsOf 0 (runW tinySem tinyStream tinyW0 tinyAlone).1 := by decide
-- test on literals: the other object is really there and really produces outputs (so the interleaving is not trivial)
example : outputsOf 1 (runW tinySem tinyStream tinyW0 tinyInterleaved).1 = [729, 2144] := by decide
example : inputsOf 0 tinyInterleaved = inputsOf 0 tinyAlone := by decide
-- test on literals: the copy (handle 2) is never called; the object constructed after the reseed (handle 3) is seeded with
-- stream 9 0 = 900
example : outputsOf 3 (runW tinySem tinyStream tinyW0 tinyInterleaved).1 = [934] := by decide

-- test on literals: (b) `fresh_object_outputs` on a concrete p, q1, q2: both sides evaluate to the same concrete list, and
-- two different pasts p give the same outputs
def tinyP : List (WOp Nat Nat) := [.construct 1, .call 0 4, .construct 2]
def tinyP' : List (WOp Nat Nat) := [.construct 5, .setRoot 3, .construct 6, .call 1 1]
def tinyQ1 : List (WOp Nat Nat) := [.construct 3, .call 0 1, .copy 0]
def tinyQ2 : List (WOp Nat Nat) := [.call 4 1, .call 0 9, .call 4 2, .construct 8, .call 5 5, .call 4 3]

example : (runW tinySem tinyStream tinyW0 (tinyP ++ WOp.setRoot 5 :: tinyQ1)).2.objs.length = 4 := by decide
example : outputsOf 4 (runW tinySem tinyStream tinyW0 ((tinyP ++ WOp.setRoot 5 :: tinyQ1) ++ WOp.construct 40 :: tinyQ2)).1
    = [542, 1547, 4561] := by decide
example : objTrace tinySem (40, tinySem.seedEngine (seedsAt tinyStream (seederAfter tinySem.nSeeds ⟨5, 0⟩ tinyQ1) tinySem.nSeeds))
    (inputsOf 4 tinyQ2) = [542, 1547, 4561] := by decide
example : outputsOf 4 (runW tinySem tinyStream tinyW0 ((tinyP' ++ WOp.setRoot 5 :: tinyQ1) ++ WOp.construct 40 :: tinyQ2)).1
    = [542, 1547, 4561] := by decide
-- test on literals: a different root seed gives different outputs (the statement is not satisfied by a constant)
example : outputsOf 4 (runW tinySem tinyStream tinyW0 ((tinyP ++ WOp.setRoot 6 :: tinyQ1) ++ WOp.construct 40 :: tinyQ2)).1
    ≠ [542, 1547, 4561] := by decide

-- test on literals: `copy_replays`: original (handle 0, already advanced by one call, output 714) and its copy (handle 1), fed the
-- same inputs in different orders
example : outputsOf 0 (runW tinySem tinyStream tinyW0 [.construct 10, .call 0 1, .copy 0, .call 0 2, .call 1 2, .call 1 3, .call 0 3]).1
    = 714 :: outputsOf 1 (runW tinySem tinyStream tinyW0 [.construct 10, .call 0 1, .copy 0, .call 0 2, .call 1 2, .call 1 3, .call 0 3]).1 ∧
    outputsOf 1 (runW tinySem tinyStream tinyW0 [.construct 10, .call 0 1, .copy 0, .call 0 2, .call 1 2, .call 1 3, .call 0 3]).1
      = [2123, 6349] := by decide

end AITB.Hidden
