/-
  AITB.Props.C04e — IncrementalPruning's per-action pipeline builds genuine plans for every O:
  prune each projection list, run the merge schedule with `crossSum` + prune at every merge; every surviving entry
  is the one-step plan of its action over its links (`EntryOK oneStep`).  `pr` is ANY pruning step that only keeps
  entries of its input (e.g. the modelled Pruner with any LP oracle, C04b).
-/
import AITB.Props.C04c
import AITB.Props.C04d

namespace AITB.Plan

/-- `e` is the cross-sum of one projection per observation of the block `[lo, hi)`, links in ascending order -/
structure Block (m : Pomdp) (prev : VList) (a lo hi : Nat) (e : VEntry) : Prop where
  action : e.action = a
  vals_len : e.values.length = m.S
  parts : ∃ p : Nat → VEntry, (∀ o, lo ≤ o → o < hi → p o ∈ project m prev a o) ∧
      e.obs = (List.range' lo (hi - lo)).map (fun o => link (p o) 0) ∧
      ∀ s, s < m.S → val e s = ((List.range' lo (hi - lo)).map (fun o => val (p o) s)).sum

theorem range'_split (lo mid hi : Nat) (h1 : lo ≤ mid) (h2 : mid ≤ hi) :
    List.range' lo (hi - lo) = List.range' lo (mid - lo) ++ List.range' mid (hi - mid) := by
  have e : lo + (mid - lo) = mid := by omega
  have := @List.range'_append_1 lo (mid - lo) (hi - mid)
  rw [e] at this
  rw [this]; congr 1; omega

theorem block_combine {m : Pomdp} {prev : VList} {a lo mid hi : Nat} {u w e : VEntry} (h1 : lo ≤ mid) (h2 : mid ≤ hi)
    (hu : Block m prev a lo mid u) (hw : Block m prev a mid hi w)
    (hact : e.action = a) (hlen : e.values.length = m.S)
    (hval : ∀ s, s < m.S → val e s = val u s + val w s) (hobs : e.obs = u.obs ++ w.obs) :
    Block m prev a lo hi e := by
  obtain ⟨p1, hp1, ho1, hv1⟩ := hu.parts
  obtain ⟨p2, hp2, ho2, hv2⟩ := hw.parts
  refine ⟨hact, hlen, fun o => if o < mid then p1 o else p2 o, ?_, ?_, ?_⟩
  · intro o hlo hhi
    by_cases h : o < mid
    · simp only [h, if_true]; exact hp1 o hlo h
    · simp only [h, if_false]; exact hp2 o (by omega) hhi
  · rw [hobs, ho1, ho2, range'_split lo mid hi h1 h2, List.map_append]
    congr 1
    · apply List.map_congr_left
      intro o ho
      have : o < mid := by have := List.mem_range'_1.mp ho; omega
      simp [this]
    · apply List.map_congr_left
      intro o ho
      have : ¬ o < mid := by have := List.mem_range'_1.mp ho; omega
      simp [this]
  · intro s hs
    rw [hval s hs, hv1 s hs, hv2 s hs, range'_split lo mid hi h1 h2, List.map_append, List.sum_append]
    congr 1
    · congr 1
      apply List.map_congr_left
      intro o ho
      have : o < mid := by have := List.mem_range'_1.mp ho; omega
      simp [this]
    · congr 1
      apply List.map_congr_left
      intro o ho
      have : ¬ o < mid := by have := List.mem_range'_1.mp ho; omega
      simp [this]

theorem mem_crossSum {l1 l2 : VList} {a : Nat} {order : Bool} {e : VEntry} (h : e ∈ crossSum l1 l2 a order) :
    ∃ v1 ∈ l1, ∃ v2 ∈ l2, e = ⟨addV v1.values v2.values, a, if order then v1.obs ++ v2.obs else v2.obs ++ v1.obs⟩ := by
  unfold crossSum at h
  obtain ⟨v1, h1, h'⟩ := List.mem_flatMap.mp h
  obtain ⟨v2, h2, rfl⟩ := List.mem_map.mp h'
  refine ⟨v1, h1, v2, h2, ?_⟩
  cases order <;> simp [show Gen.C04.crossSumL1First = true from rfl]

/-- slot invariant for the VList run of the schedule -/
def BlockList (m : Pomdp) (prev : VList) (a lo hi : Nat) (L : VList) : Prop :=
  lo ≤ hi ∧ (∀ e ∈ L, Block m prev a lo hi e) ∧ L ≠ []

theorem crossSum_ne_nil {l1 l2 : VList} (a : Nat) (order : Bool) (h1 : l1 ≠ []) (h2 : l2 ≠ []) :
    crossSum l1 l2 a order ≠ [] := by
  cases l1 with
  | nil => exact absurd rfl h1
  | cons x xs =>
    cases l2 with
    | nil => exact absurd rfl h2
    | cons y ys => simp [crossSum]

theorem project_ne_nil (m : Pomdp) {prev : VList} (a o : Nat) (hne : prev ≠ []) : project m prev a o ≠ [] := by
  unfold project
  split
  · have : 0 < prev.length := List.length_pos_iff.mpr hne
    intro h
    have h2 := congrArg List.length h
    simp only [List.length_map, List.length_range, List.length_nil] at h2
    omega
  · simp

theorem blockList_fwd {m : Pomdp} {prev : VList} {a : Nat} (pr : VList → VList) (hpr : ∀ l e, e ∈ pr l → e ∈ l)
    (hpr2 : ∀ l, l ≠ [] → pr l ≠ [])
    (lo mid hi : Nat) (x y : VList) (hx : BlockList m prev a lo mid x) (hy : BlockList m prev a mid hi y) :
    BlockList m prev a lo hi (mrgVL pr a x y true) := by
  refine ⟨by have := hx.1; have := hy.1; omega, ?_, hpr2 _ (crossSum_ne_nil a true hx.2.2 hy.2.2)⟩
  intro e he
  obtain ⟨v1, h1, v2, h2, rfl⟩ := mem_crossSum (hpr _ _ he)
  have b1 := hx.2.1 v1 h1
  have b2 := hy.2.1 v2 h2
  obtain ⟨a1, a2⟩ := addV_spec v1.values v2.values m.S b1.vals_len b2.vals_len
  exact block_combine hx.1 hy.1 b1 b2 rfl a1 (fun s hs => a2 s hs) (by simp)

theorem blockList_bwd {m : Pomdp} {prev : VList} {a : Nat} (pr : VList → VList) (hpr : ∀ l e, e ∈ pr l → e ∈ l)
    (hpr2 : ∀ l, l ≠ [] → pr l ≠ [])
    (lo mid hi : Nat) (x y : VList) (hx : BlockList m prev a mid hi x) (hy : BlockList m prev a lo mid y) :
    BlockList m prev a lo hi (mrgVL pr a x y false) := by
  refine ⟨by have := hx.1; have := hy.1; omega, ?_, hpr2 _ (crossSum_ne_nil a false hx.2.2 hy.2.2)⟩
  intro e he
  obtain ⟨v1, h1, v2, h2, rfl⟩ := mem_crossSum (hpr _ _ he)
  have b1 := hx.2.1 v1 h1
  have b2 := hy.2.1 v2 h2
  obtain ⟨a1, a2⟩ := addV_spec v1.values v2.values m.S b1.vals_len b2.vals_len
  exact block_combine hy.1 hx.1 b2 b1 rfl a1 (fun s hs => by
    show (addV v1.values v2.values).getD s 0 = v2.values.getD s 0 + v1.values.getD s 0
    rw [a2 s hs]; exact add_comm _ _) (by simp)

theorem block_of_projection {m : Pomdp} {prev : VList} {a o : Nat} {e : VEntry} (hne : prev ≠ [])
    (he : e ∈ project m prev a o) : Block m prev a o (o + 1) e := by
  obtain ⟨h1, h2, _, h4, _⟩ := project_mem hne he
  refine ⟨h1, h4, fun _ => e, fun o' hlo hhi => ?_, ?_, ?_⟩
  · have : o' = o := by omega
    subst this; exact he
  · have e1 : o + 1 - o = 1 := by omega
    rw [e1]
    simp only [List.range'_one, List.map_cons, List.map_nil, link]
    match hobs : e.obs, h2 with
    | [x], _ => simp
  · intro s _
    have e1 : o + 1 - o = 1 := by omega
    rw [e1]; simp

theorem assembled_of_block {m : Pomdp} {prev : VList} {a : Nat} {e : VEntry} (h : Block m prev a 0 m.O e) :
    Assembled m prev a e := by
  obtain ⟨p, hp, ho, hv⟩ := h.parts
  simp only [Nat.sub_zero] at ho hv
  refine ⟨h.action, by rw [ho]; simp, h.vals_len, p, ?_, ?_⟩
  · intro o hO
    refine ⟨hp o (by omega) hO, ?_⟩
    simp only [link] at ho ⊢
    rw [ho, ← List.range_eq_range', getD_eq_getElem' _ _ (by simpa using hO)]
    simp
  · intro s hs
    rw [hv s hs, ← List.range_eq_range']
    exact sum_map_range m.O (fun o => val (p o) s)

/-- **crossSum_links (IncrementalPruning, every O).**  Prune the projection lists, run the literal merge schedule
    with `crossSum(…, order = stepsize > 0)` followed by a prune at every merge: every entry that reaches
    `projs[a][0]` is the one-step plan of action `a` over its own links, all of them in range. -/
theorem incrementalPruning_action_ok {m : Pomdp} {prev : VList} {a : Nat} (pr : VList → VList)
    (hpr : ∀ l e, e ∈ pr l → e ∈ l) (hpr2 : ∀ l, l ≠ [] → pr l ≠ []) (hne : prev ≠ []) (ha : a < m.A) (hO : 0 < m.O) :
    (∀ e ∈ mergeSchedule (mrgVL pr a) ((List.range m.O).map (fun o => pr (project m prev a o))),
      EntryOK oneStep m prev e) ∧
    mergeSchedule (mrgVL pr a) ((List.range m.O).map (fun o => pr (project m prev a o))) ≠ [] := by
  have hlen : ((List.range m.O).map (fun o => pr (project m prev a o))).length = m.O := by simp
  have h := mergeSchedule_covers (mrgVL pr a) (BlockList m prev a)
    (fun lo mid hi x y => blockList_fwd pr hpr hpr2 lo mid hi x y)
    (fun lo mid hi x y => blockList_bwd pr hpr hpr2 lo mid hi x y)
    ((List.range m.O).map (fun o => pr (project m prev a o))) (by rw [hlen]; omega)
    (by
      intro o ho
      rw [hlen] at ho
      refine ⟨by omega, ?_⟩
      rw [List.getD_eq_getElem?_getD]
      simp only [List.getElem?_map, List.getElem?_range ho, Option.map_some, Option.getD_some]
      exact ⟨fun e he => block_of_projection hne (hpr _ _ he), hpr2 _ (project_ne_nil m a o hne)⟩)
  rw [hlen] at h
  exact ⟨fun e he => assembled_entry_ok hne ha hO (assembled_of_block (h.2.1 e he)), h.2.2⟩

end AITB.Plan
