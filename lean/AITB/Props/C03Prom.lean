/-
  AITB.Props.C03Prom — bestPromisingAction<false> as modelled in AITB.Model.POMDP3 (`sawVal`, `sumSaw`, `promisingActSaw`,
  `bestPromisingSaw`: the observation loop with its zero-probability `continue`, over the C12 model of `sawtoothInterpolation` in the reading
  the source has now) returns, on a `Sound` state whose surface is the data handed to it, an upper bound of `H L` — hence of every lower
  reference — at the query belief.  This is the function the driver runs both to compare with the implementation and to certify new
  upper-bound points in the trace validation.
-/
import AITB.Props.C03Bridge
import AITB.Props.C03Tie

namespace AITB.POMDP3
open AITB.MDP AITB.Prune AITB.Interp AITB.C12Check

theorem src_saw_is_repaired : Interp.srcVariant = Interp.repaired := rfl

theorem toList_getD (v : MDP.Vec) (s : Nat) : v.toList.getD s 0 = v.get s := by
  unfold MDP.Vec.get
  simp [Array.getD, List.getD_eq_getElem?_getD]
  by_cases h : s < v.size <;> simp [h]

theorem fnOf_toList (v : MDP.Vec) : fnOf v.toList = v.get := by
  funext s; exact toList_getD v s

/-- the surface data are well formed: `S` rows of `A` entries, points of dimension `S`, non-negative, exact zeros -/
structure SurfWF (m : POMDP) (Q : Mat) (pts : Array (MDP.Vec × Rat)) : Prop where
  qsize : Q.size = m.S
  qrows : ∀ row ∈ Q.toList, row.size = m.A
  psize : ∀ p ∈ pts.toList, p.1.size = m.S
  pnn : ∀ p ∈ pts.toList, ∀ x ∈ p.1.toList, 0 ≤ x
  pz : ∀ p ∈ pts.toList, ∀ s, isZeroS (p.1.toList.getD s 0) = true → p.1.toList.getD s 0 = 0

/-- the abstract state carries exactly this surface -/
structure SurfMatches (m : POMDP) (st : AState) (Q : Mat) (pts : Array (MDP.Vec × Rat)) : Prop where
  q : ∀ s, s < m.S → ∀ a, a < m.A → st.Q s a = Q.get s a
  p : ∀ p ∈ pts.toList, st.P p.1.get p.2

theorem sawVal_sound (m : POMDP) (hv : Valid m) (U L : (Nat → Rat) → Rat) (hL : Sublin m.S L) (hsub : SubSol m L) (st : AState)
    (hs : Sound m U L st) (Q : Mat) (pts : Array (MDP.Vec × Rat)) (hwf : SurfWF m Q pts) (hm : SurfMatches m st Q pts)
    (x : MDP.Vec) (hx : x.size = m.S) (hnn : NN x.get) (v : Rat) (h : sawVal m Q pts x = some v) : L x.get ≤ v := by
  unfold sawVal at h
  rw [src_saw_is_repaired] at h
  have hpt : ∀ y ∈ x.toList, 0 ≤ y := by
    intro y hy
    obtain ⟨i, hi, he⟩ := List.getElem_of_mem hy
    have : y = x.get i := by
      rw [← toList_getD x i, List.getD_eq_getElem?_getD, List.getElem?_eq_getElem hi, he]; rfl
    rw [this]; exact hnn i
  have hrows : (Q.toList.map (·.toList)).length = x.toList.length ∧ ∀ row ∈ Q.toList.map (·.toList), row.length = m.A := by
    refine ⟨by simp [hwf.qsize, hx], ?_⟩
    intro row hrow
    obtain ⟨r, hr, rfl⟩ := List.mem_map.mp hrow
    simpa using hwf.qrows r hr
  have hlen : (pts.toList.map (·.2)).length = (pts.toList.map (·.1.toList)).length := by simp
  have hpts : ∀ p ∈ pts.toList.map (·.1.toList), ∀ y ∈ p, 0 ≤ y := by
    intro p hp
    obtain ⟨q, hq, rfl⟩ := List.mem_map.mp hp
    exact hwf.pnn q hq
  have hz : ∀ p ∈ pts.toList.map (·.1.toList), ∀ s, isZeroS (p.getD s 0) = true → p.getD s 0 = 0 := by
    intro p hp
    obtain ⟨q, hq, rfl⟩ := List.mem_map.mp hp
    exact hwf.pz q hq
  have hptlen : ∀ p ∈ pts.toList.map (·.1.toList), p.length = x.toList.length := by
    intro p hp
    obtain ⟨q, hq, rfl⟩ := List.mem_map.mp hp
    simp [hwf.psize q hq, hx]
  obtain ⟨v', w, htot⟩ := sawtooth_repaired_total (point := x.toList) (ubQ := Q.toList.map (·.toList)) (A := m.A)
    (pts := pts.toList.map (·.1.toList)) (vals := pts.toList.map (·.2)) hpt hrows hv.A0 hlen hpts
  rw [htot] at h
  simp only [Option.map_some, Option.some.injEq] at h
  subst h
  have hQ : ∀ s, s < m.S → ∀ a, a < m.A → st.Q s a = ((Q.toList.map (·.toList)).getD s []).getD a 0 := by
    intro s hs' a ha
    rw [hm.q s hs' a ha]
    unfold MDP.Mat.get
    have hs'' : s < Q.size := by rw [hwf.qsize]; exact hs'
    simp [Array.getD, List.getD_eq_getElem?_getD, hs'']
    by_cases h2 : a < (Q[s]).size <;> simp [h2]
  have hP : ∀ i, i < (pts.toList.map (·.1.toList)).length →
      st.P (fnOf ((pts.toList.map (·.1.toList)).getD i [])) ((pts.toList.map (·.2)).getD i 0) := by
    intro i hi
    have hi' : i < pts.toList.length := by simpa using hi
    have e1 : (pts.toList.map (·.1.toList)).getD i [] = (pts.toList[i]).1.toList := by
      rw [List.getD_eq_getElem?_getD, List.getElem?_map, List.getElem?_eq_getElem hi']; rfl
    have e2 : (pts.toList.map (·.2)).getD i 0 = (pts.toList[i]).2 := by
      rw [List.getD_eq_getElem?_getD, List.getElem?_map, List.getElem?_eq_getElem hi']; rfl
    rw [e1, e2, fnOf_toList]
    exact hm.p _ (List.getElem_mem _)
  have h5 : x.toList.length = m.S := by rw [Array.length_toList]; exact hx
  have h6 : L (fnOf x.toList) ≤ v' :=
    sawtooth_sound m hv U L hL hsub st hs x.toList _ _ _ h5 hrows hQ hP hpt hlen hpts hz hptlen v' w htot
  rw [fnOf_toList] at h6
  exact h6

theorem bstepV_size (m : POMDP) (b : MDP.Vec) (a o : Nat) : (bstepV m b a o).size = m.S := by
  unfold bstepV; exact mkVec_size _ _

theorem bstepV_NN (m : POMDP) (hv : Valid m) (b : MDP.Vec) (hb : NN b.get) (a o : Nat) : NN (bstepV m b a o).get := by
  intro s
  by_cases hs : s < m.S
  · rw [bstepV_get m b a o s hs]; exact bstep_nonneg m hv b.get hb a o s
  · unfold bstepV MDP.Vec.get mkVec
    simp [Array.getD, hs]

/-- the running sum of the observation loop dominates the discounted-free look-ahead sum of `L` -/
theorem sumSaw_upper (m : POMDP) (hv : Valid m) (U L : (Nat → Rat) → Rat) (hL : Sublin m.S L) (hsub : SubSol m L) (st : AState)
    (hs : Sound m U L st) (Q : Mat) (pts : Array (MDP.Vec × Rat)) (hwf : SurfWF m Q pts) (hm : SurfMatches m st Q pts)
    (b : MDP.Vec) (hb : NN b.get) (a : Nat)
    (hskip : ∀ o, o < m.O → checkEqualSmall (mass m.S (bstepV m b a o).get) 0 = true → ∀ s, s < m.S → bstep m b.get a o s = 0) :
    ∀ n, n ≤ m.O → ∀ t, sumSaw m Q pts b a n = some t → sumTo n (fun o => L (bstep m b.get a o)) ≤ t := by
  intro n
  induction n with
  | zero => intro _ t h; simp only [sumSaw, Option.some.injEq] at h; subst h; simp [sumTo]
  | succ n ih =>
    intro hn t h
    simp only [sumSaw] at h
    cases hprev : sumSaw m Q pts b a n with
    | none => rw [hprev] at h; cases h
    | some s0 =>
      rw [hprev] at h
      simp only at h
      have h0 := ih (by omega) s0 hprev
      have hloc : L (bstep m b.get a n) = L (bstepV m b a n).get :=
        hL.loc _ _ (fun s hs' => (bstepV_get m b a n s hs').symm)
      simp only [sumTo]
      by_cases hc : checkEqualSmall (mass m.S (bstepV m b a n).get) 0 = true
      · rw [if_pos hc] at h
        simp only [Option.some.injEq] at h; subst h
        have hz := hskip n (by omega) hc
        have : L (bstep m b.get a n) = L (fun _ => 0) := hL.loc _ _ hz
        rw [this, hL.zero]; linarith
      · rw [if_neg hc] at h
        obtain ⟨tv, htv, rfl⟩ := Option.map_eq_some_iff.mp h
        have := sawVal_sound m hv U L hL hsub st hs Q pts hwf hm (bstepV m b a n) (bstepV_size m b a n) (bstepV_NN m hv b hb a n) tv htv
        rw [← hloc] at this
        linarith

/-- **per-action value of the modelled bestPromisingAction<false> dominates the look-ahead on `L`** -/
theorem promisingActSaw_upper (m : POMDP) (hv : Valid m) (U L : (Nat → Rat) → Rat) (hL : Sublin m.S L) (hsub : SubSol m L) (st : AState)
    (hs : Sound m U L st) (Q : Mat) (pts : Array (MDP.Vec × Rat)) (hwf : SurfWF m Q pts) (hm : SurfMatches m st Q pts)
    (b : MDP.Vec) (hb : NN b.get) (a : Nat)
    (hskip : ∀ o, o < m.O → checkEqualSmall (mass m.S (bstepV m b a o).get) 0 = true → ∀ s, s < m.S → bstep m b.get a o s = 0)
    (u : Rat) (h : promisingActSaw m Q pts b a = some u) : qval m L b.get a ≤ u := by
  unfold promisingActSaw at h
  obtain ⟨t, ht, rfl⟩ := Option.map_eq_some_iff.mp h
  have := sumSaw_upper m hv U L hL hsub st hs Q pts hwf hm b hb a hskip m.O (le_refl _) t ht
  unfold qval
  have := mul_le_mul_of_nonneg_left this hv.γ0
  linarith

theorem maxSaw_ge (m : POMDP) (Q : Mat) (pts : Array (MDP.Vec × Rat)) (b : MDP.Vec) :
    ∀ n u, maxSaw m Q pts b n = some u → ∀ a, a ≤ n → ∃ ua, promisingActSaw m Q pts b a = some ua ∧ ua ≤ u := by
  intro n
  induction n with
  | zero =>
    intro u h a ha
    have : a = 0 := by omega
    subst this
    exact ⟨u, h, le_refl _⟩
  | succ n ih =>
    intro u h a ha
    simp only [maxSaw] at h
    cases h1 : maxSaw m Q pts b n with
    | none => rw [h1] at h; cases h
    | some x =>
      cases h2 : promisingActSaw m Q pts b (n+1) with
      | none => rw [h1, h2] at h; cases h
      | some y =>
        rw [h1, h2] at h
        simp only [Option.some.injEq] at h
        rcases Nat.lt_or_ge a (n+1) with hlt | hge
        · obtain ⟨ua, hua, hle⟩ := ih x h1 a (by omega)
          refine ⟨ua, hua, ?_⟩
          rw [← h]; split <;> linarith
        · have : a = n + 1 := by omega
          subst this
          refine ⟨y, h2, ?_⟩
          rw [← h]; split <;> linarith

/-- **the value of the modelled bestPromisingAction<false> dominates `H L`, hence every lower reference, at the query belief** — the
    clause by which the driver's trace validation accepts a new stored point / corner entry (events `poolAdd`, `pushPoint`, `setCorner`) -/
theorem bestPromisingSaw_upper (m : POMDP) (hv : Valid m) (U L : (Nat → Rat) → Rat) (hL : Sublin m.S L) (hsub : SubSol m L) (st : AState)
    (hs : Sound m U L st) (Q : Mat) (pts : Array (MDP.Vec × Rat)) (hwf : SurfWF m Q pts) (hm : SurfMatches m st Q pts)
    (b : MDP.Vec) (hb : NN b.get)
    (hskip : ∀ a, a < m.A → ∀ o, o < m.O → checkEqualSmall (mass m.S (bstepV m b a o).get) 0 = true → ∀ s, s < m.S → bstep m b.get a o s = 0)
    (u : Rat) (h : bestPromisingSaw m Q pts b = some u) : Hop m L b.get ≤ u ∧ L b.get ≤ u := by
  have h1 : Hop m L b.get ≤ u := by
    refine Hop_le_of_qval_le m hv.A0 L b.get u (fun a ha => ?_)
    obtain ⟨ua, hua, hle⟩ := maxSaw_ge m Q pts b (m.A - 1) u h a (by omega)
    exact le_trans (promisingActSaw_upper m hv U L hL hsub st hs Q pts hwf hm b hb a (hskip a ha) ua hua) hle
  exact ⟨h1, le_trans (hsub b.get hb) h1⟩

end AITB.POMDP3
